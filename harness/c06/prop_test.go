// C06 — RTP depacketisation reproduces the sender's access units exactly.
//
// Sender side: lib/rtppack (+ esgen), written from RFC 3550 / 6184 / 7798 /
// 3640 and anchored on hand-written vectors (TestPacketiserAnchors here and the
// package's own tests). Receiver side under test: rtp.NewH264Depacketizer,
// NewH265Depacketizer, NewAacDepacketizer fed synchronously, and rtp.NewDemuxer
// (queue + goroutine). The oracle never depacketises anything itself: what
// must come out is the list of units that went in.
//
// Oracle (from the property statement, nothing more):
//   - a unit none of whose packets was touched by a fault comes out exactly once,
//     byte-identical, in source order, while its last packet is processed;
//   - a fragmented unit that lost a fragment never comes out, in whole or in part;
//   - a fragmented unit whose fragments were only duplicated / swapped may come
//     out (intact, once) or not — the statement does not say — but nothing else may;
//   - no other frame is ever produced (none invented, no truncated / spliced unit);
//   - between two sender reports (one sync-clock epoch) frames of one RTP
//     timestamp carry one PTS and PTS differences equal timestamp differences /
//     clock rate within 2.1 ns (two int64 truncations of a float64 product).
//
// 32-bit RTP timestamp wrap is outside the stated quantifier and not generated.
package c06

import (
	"bytes"
	"encoding/base64"
	"encoding/hex"
	"fmt"
	"math"
	"strings"
	"sync"
	"sync/atomic"
	"testing"
	"time"

	"github.com/cnotch/ipchub/av/codec"
	"github.com/cnotch/ipchub/av/format/rtp"
	"github.com/cnotch/ipchub/av/format/sdp"
	"github.com/cnotch/xlog"
	"pgregory.net/rapid"
	"verif/harness/lib/evid"
	"verif/harness/lib/rtppack"
	"verif/harness/lib/rtppack/esgen"
)

func TestMain(m *testing.M) { evid.Main(m, "C06") }

const ruleText = "cases = rapid-generated GOP-structured NAL/AU sequences (sizes hitting 1-3 bytes, MTU+-1, 184k+-{0,1,2}, 65535/65536, >64 KiB) x any legal packetisation per access unit (single / STAP-A|AP over any run incl. SPS+PPS+IDR and mixed NRI / FU-A|FU with any fragment sizes) x sequence-number start incl. wrap x RTP timestamp start and steps (no 32-bit wrap) x RTP headers with 0..3 CSRC entries and a header extension of 0..8 words (0xABAC, RFC 8285 one-/two-byte blocks, other profiles) on about a third of the packets of every mode, parsed by ipchub's own ReadPacket x sender reports at any position x drop/swap/duplicate of fragments inside fragmented units; AAC-hbr with 1..6 AUs per packet. Non-trivial = the case has an aggregation packet with >=2 units of different NRI (H.264) / >=2 AUs (AAC), or a fragmented unit with >=3 fragments, or a loss inside a fragmented unit; fingerprint = codec + path + all packet bytes + arrival order."

// ---------------------------------------------------------------- metadata (SDP as a publisher would ANNOUNCE it)

func b64(b []byte) string { return base64.StdEncoding.EncodeToString(b) }

func buildSDP(c esgen.Codec, sprop bool, audioRate int) string {
	var sb strings.Builder
	sb.WriteString("v=0\r\no=- 0 0 IN IP4 127.0.0.1\r\ns=No Name\r\nc=IN IP4 127.0.0.1\r\nt=0 0\r\n")
	sb.WriteString("m=video 0 RTP/AVP 96\r\n")
	if c == esgen.H264 {
		sb.WriteString("a=rtpmap:96 H264/90000\r\n")
		if sprop {
			fmt.Fprintf(&sb, "a=fmtp:96 packetization-mode=1; sprop-parameter-sets=%s,%s; profile-level-id=64001F\r\n", b64(esgen.RealH264SPS), b64(esgen.RealH264PPS))
		} else {
			sb.WriteString("a=fmtp:96 packetization-mode=1\r\n")
		}
	} else {
		sb.WriteString("a=rtpmap:96 H265/90000\r\n")
		if sprop {
			fmt.Fprintf(&sb, "a=fmtp:96 sprop-vps=%s; sprop-sps=%s; sprop-pps=%s\r\n", b64(esgen.RealH265VPS), b64(esgen.RealH265SPS), b64(esgen.RealH265PPS))
		}
	}
	sb.WriteString("a=control:streamid=0\r\n")
	if audioRate > 0 {
		fmt.Fprintf(&sb, "m=audio 0 RTP/AVP 97\r\nb=AS:128\r\na=rtpmap:97 MPEG4-GENERIC/%d/2\r\n", audioRate)
		sb.WriteString("a=fmtp:97 profile-level-id=1;mode=AAC-hbr;sizelength=13;indexlength=3;indexdeltalength=3; config=121056E500\r\na=control:streamid=1\r\n")
	}
	return sb.String()
}

func metas(t evid.TB, c esgen.Codec, sprop bool, audioRate int) (*codec.VideoMeta, *codec.AudioMeta) {
	var v codec.VideoMeta
	var a codec.AudioMeta
	if err := sdp.ParseMetadata(buildSDP(c, sprop, audioRate), &v, &a); err != nil {
		t.Fatalf("harness: SDP rejected: %v", err)
	}
	if v.Codec != c.String() || v.ClockRate != 90000 {
		t.Fatalf("harness: video meta %+v", v)
	}
	if sprop && (v.Width == 0 || len(v.Sps) == 0 || len(v.Pps) == 0 || (c == esgen.H265 && len(v.Vps) == 0)) {
		t.Fatalf("harness: sprop parameter sets not accepted by ParseMetadata: %+v", v)
	}
	if audioRate > 0 && (a.Codec != "AAC" || a.SampleRate != audioRate) {
		t.Fatalf("harness: audio meta %+v", a)
	}
	return &v, &a
}

// ---------------------------------------------------------------- recording FrameWriter

type frameRec struct {
	Media   codec.MediaType
	Pts     int64
	Payload []byte
	Call    int
}

type recorder struct {
	mu       sync.Mutex
	frames   []frameRec
	call     int
	sentinel []byte
	done     chan struct{}
}

func (r *recorder) WriteFrame(f *codec.Frame) error {
	r.mu.Lock()
	defer r.mu.Unlock()
	if r.sentinel != nil && bytes.Equal(f.Payload, r.sentinel) {
		close(r.done)
		return nil
	}
	r.frames = append(r.frames, frameRec{f.MediaType, f.Pts, append([]byte(nil), f.Payload...), r.call})
	return nil
}

// ---------------------------------------------------------------- case description

type srEvent struct {
	Before int    `json:"before_arrival"` // delivered before the arrival with this index
	RtpTS  uint32 `json:"rtp_ts"`
	NtpSec uint32 `json:"ntp_sec"`
	NtpFrc uint32 `json:"ntp_frac"`
}

type unitDoc struct {
	Idx int    `json:"idx"`
	AU  int    `json:"au"`
	TS  uint32 `json:"ts"`
	Len int    `json:"len"`
	Hex string `json:"hex"`
}
type pktDoc struct {
	Idx    int    `json:"idx"`
	Seq    uint16 `json:"seq"`
	TS     uint32 `json:"ts"`
	Marker bool   `json:"marker"`
	Kind   string `json:"kind"`
	Units  []int  `json:"units"`
	Frag   string `json:"frag,omitempty"`
	Hex    string `json:"payload"`
}
type frameDoc struct {
	Call int    `json:"during_arrival"`
	Pts  int64  `json:"pts"`
	Len  int    `json:"len"`
	Hex  string `json:"hex"`
}
type caseDoc struct {
	Codec   string         `json:"codec"`
	Path    string         `json:"path"`
	Sprop   bool           `json:"sprop_in_sdp"`
	Units   []unitDoc      `json:"units"`
	Packets []pktDoc       `json:"packets"`
	Faults  []esgen.Fault  `json:"faults"`
	Arrival []int          `json:"arrival"`
	SRs     []srEvent      `json:"sender_reports"`
	Got     []frameDoc     `json:"frames_out"`
	Raw     map[string]any `json:"raw,omitempty"`
}

func describe(name, path string, sprop bool, s *esgen.Stream, faults []esgen.Fault, arrival []int, srs []srEvent, got []frameRec) *caseDoc {
	d := &caseDoc{Codec: name, Path: path, Sprop: sprop, Faults: faults, Arrival: arrival, SRs: srs}
	full := len(s.Units) <= 12
	hx := func(b []byte) string {
		if full && len(b) <= 4096 {
			return hex.EncodeToString(b)
		}
		return evid.Hex(b)
	}
	for i, u := range s.Units {
		d.Units = append(d.Units, unitDoc{i, u.AU, u.TS, len(u.Bytes), hx(u.Bytes)})
	}
	for i, p := range s.Pkts {
		m := s.Meta[i]
		pd := pktDoc{Idx: i, Seq: p.Seq, TS: p.TS, Marker: p.Marker, Kind: m.Kind.String(), Units: m.Units, Hex: hx(p.Payload)}
		if m.Kind == esgen.Fragment {
			pd.Frag = fmt.Sprintf("%d/%d", m.Frag+1, m.Frags)
		}
		d.Packets = append(d.Packets, pd)
	}
	for _, f := range got {
		d.Got = append(d.Got, frameDoc{f.Call, f.Pts, len(f.Payload), hx(f.Payload)})
	}
	return d
}

// ---------------------------------------------------------------- the sender's truth

// expectation per arrival: units that must come out while this packet is
// processed, or one unit that may come out (intact) or not.
type expectation struct {
	must []int
	may  int // -1 = none
}

type truth struct {
	lost    map[int]bool // unit lost a fragment: must never appear
	touched map[int]bool // unit had a fragment duplicated or swapped
	per     []expectation
}

// model derives, from the sender's own bookkeeping only, what may legitimately
// leave the depacketiser for a given arrival order.
func model(s *esgen.Stream, faults []esgen.Fault, arrival []int) *truth {
	tr := &truth{lost: map[int]bool{}, touched: map[int]bool{}}
	for _, f := range faults {
		u := s.Meta[f.I].Units[0]
		if f.Op == "drop" {
			tr.lost[u] = true
		}
		tr.touched[u] = true
	}
	arrivedFrags := map[int]map[int]bool{}
	for _, p := range arrival {
		m := s.Meta[p]
		e := expectation{may: -1}
		switch m.Kind {
		case esgen.Single, esgen.Aggregate:
			e.must = m.Units
		case esgen.Fragment:
			u := m.Units[0]
			if arrivedFrags[u] == nil {
				arrivedFrags[u] = map[int]bool{}
			}
			arrivedFrags[u][m.Frag] = true
			switch {
			case tr.lost[u]:
			case !tr.touched[u]:
				if m.Frag == m.Frags-1 {
					e.must = m.Units
				}
			case len(arrivedFrags[u]) == m.Frags:
				e.may = u
			}
		}
		tr.per = append(tr.per, e)
	}
	return tr
}

// ---------------------------------------------------------------- presentation times

const ptsTolNs = 2.1

type timedFrame struct {
	ts      uint32 // RTP timestamp the sender gave the unit
	pts     int64
	segment int // number of sender reports delivered before the frame's packet
	unit    int
}

// checkPts compares frames within one segment (no sender report in between).
func checkPts(frames []timedFrame, rate int) (string, string) {
	first := map[int]timedFrame{}
	byTS := map[[2]uint32]timedFrame{}
	for _, f := range frames {
		k := [2]uint32{uint32(f.segment), f.ts}
		if g, ok := byTS[k]; ok {
			if g.pts != f.pts {
				return "pts-shared", fmt.Sprintf("units %d and %d share RTP timestamp %d but carry PTS %d and %d", g.unit, f.unit, f.ts, g.pts, f.pts)
			}
		} else {
			byTS[k] = f
		}
		r, ok := first[f.segment]
		if !ok {
			first[f.segment] = f
			continue
		}
		dts := int64(f.ts) - int64(r.ts) // no 32-bit wrap in the generated domain
		want := float64(dts) * 1e9 / float64(rate)
		got := float64(f.pts - r.pts)
		if math.Abs(got-want) > ptsTolNs {
			return "pts-delta", fmt.Sprintf("units %d -> %d: RTP timestamps %d -> %d (delta %d at %d Hz = %.3f ns) but PTS %d -> %d (delta %.0f ns)",
				r.unit, f.unit, r.ts, f.ts, dts, rate, want, r.pts, f.pts, got)
		}
	}
	return "", ""
}

// ---------------------------------------------------------------- synchronous path

type syncCase struct {
	name    string
	dp      rtp.Depacketizer
	rec     *recorder
	channel byte
	s       *esgen.Stream
	faults  []esgen.Fault
	arrival []int
	srs     []srEvent
	sprop   bool
	// gate: units the documented metadata gate withholds (class without sprop)
	withheld map[int]bool
}

func drawSRs(t *rapid.T, s *esgen.Stream, arrivals int) []srEvent {
	n := rapid.SampledFrom([]int{0, 0, 1, 1, 1, 2, 3}).Draw(t, "srs")
	var out []srEvent
	for i := 0; i < n; i++ {
		e := srEvent{NtpSec: 0x83aa7e80 + rapid.Uint32Range(0, 0x7c558180-1).Draw(t, "sr-ntp-sec"), NtpFrc: rapid.Uint32().Draw(t, "sr-ntp-frac")}
		if i == 0 && rapid.IntRange(0, 2).Draw(t, "sr-first-early") > 0 {
			e.Before = 0
		} else {
			e.Before = rapid.IntRange(0, arrivals).Draw(t, "sr-before")
		}
		ref := s.Units[rapid.IntRange(0, len(s.Units)-1).Draw(t, "sr-ref-unit")].TS
		switch rapid.IntRange(0, 5).Draw(t, "sr-ts-kind") {
		case 0:
			e.RtpTS = 0
		case 1:
			e.RtpTS = ref
		case 2:
			e.RtpTS = ref - uint32(rapid.IntRange(0, 90000).Draw(t, "sr-ts-back")) // may wrap below 0: then it is simply a large value
		case 3:
			e.RtpTS = ref + uint32(rapid.IntRange(0, 90000).Draw(t, "sr-ts-fwd"))
		default:
			e.RtpTS = rapid.Uint32().Draw(t, "sr-ts")
		}
		out = append(out, e)
	}
	// stable by position
	for i := 1; i < len(out); i++ {
		for j := i; j > 0 && out[j].Before < out[j-1].Before; j-- {
			out[j], out[j-1] = out[j-1], out[j]
		}
	}
	return out
}

func (c *syncCase) doc() *caseDoc {
	return describe(c.name, "sync", c.sprop, c.s, c.faults, c.arrival, c.srs, c.rec.frames)
}

// run feeds the arrivals and judges every call.
func (c *syncCase) run(t evid.TB) {
	tr := model(c.s, c.faults, c.arrival)
	emitted := map[int]bool{}
	var timed []timedFrame
	seg, nextSR := 0, 0
	ssrc := uint32(0)
	if len(c.s.Pkts) > 0 {
		ssrc = c.s.Pkts[0].SSRC
	}
	call := func(p *rtp.Packet, control bool) (err error, panicked any) {
		defer func() { panicked = recover() }() // no evid.Violation in here: rapid fails by panicking
		if control {
			c.dp.Control(p)
			return nil, nil
		}
		return c.dp.Depacketize(p), nil
	}
	for a, pi := range c.arrival {
		for nextSR < len(c.srs) && c.srs[nextSR].Before <= a {
			e := c.srs[nextSR]
			if _, r := call(rtppack.ToIpchub(c.channel+1, rtppack.SenderReport(ssrc, e.NtpSec, e.NtpFrc, e.RtpTS, 0, 0)), true); r != nil {
				evid.Violation(t, "panic", c.doc(), "%s: Control panicked on a 28-byte sender report: %v", c.name, r)
			}
			nextSR++
			seg++
		}
		c.rec.call = a
		before := len(c.rec.frames)
		pkt := c.s.Pkts[pi]
		err, r := call(rtppack.ToIpchub(c.channel, pkt.Marshal()), false)
		if r != nil {
			evid.Violation(t, "panic", c.doc(), "%s: Depacketize panicked on well-formed packet %d (%s, payload %s): %v", c.name, pi, c.s.Meta[pi].Kind, evid.Hex(pkt.Payload), r)
		}
		if err != nil {
			evid.Violation(t, "error", c.doc(), "%s: Depacketize returned %v for well-formed packet %d (arrival %d)", c.name, err, pi, a)
		}
		got := c.rec.frames[before:]
		exp := tr.per[a]
		var want []int
		for _, u := range exp.must {
			if !c.withheld[u] {
				want = append(want, u)
			}
		}
		if exp.may >= 0 && !emitted[exp.may] && len(got) == 1 && bytes.Equal(got[0].Payload, c.s.Units[exp.may].Bytes) {
			want = []int{exp.may}
		}
		m := c.s.Meta[pi]
		where := fmt.Sprintf("%s: arrival %d = packet %d (%s", c.name, a, pi, m.Kind)
		if m.Kind == esgen.Fragment {
			where += fmt.Sprintf(" %d/%d of unit %d", m.Frag+1, m.Frags, m.Units[0])
		}
		where += ")"
		for i, f := range got {
			if i >= len(want) {
				evid.Violation(t, classify(c.s, tr, m, f.Payload), c.doc(), "%s: frame of %d bytes (%s) emitted, but the sender finished no unit here%s", where, len(f.Payload), evid.Hex(f.Payload), lostNote(tr, m))
			}
			u := c.s.Units[want[i]]
			if !bytes.Equal(f.Payload, u.Bytes) {
				evid.Violation(t, "bytes", c.doc(), "%s: frame %d differs from unit %d: got %d bytes %s, sent %d bytes %s%s", where, i, want[i], len(f.Payload), evid.Hex(f.Payload), len(u.Bytes), evid.Hex(u.Bytes), firstDiff(f.Payload, u.Bytes))
			}
			emitted[want[i]] = true
			ts := u.TS
			timed = append(timed, timedFrame{ts, f.Pts, seg, want[i]})
		}
		if len(got) < len(want) {
			u := want[len(got)]
			evid.Violation(t, "missing", c.doc(), "%s: unit %d (%d bytes, %s) was not emitted", where, u, len(c.s.Units[u].Bytes), evid.Hex(c.s.Units[u].Bytes))
		}
	}
	if chk, msg := checkPts(timed, c.s.ClockRate); chk != "" {
		evid.Violation(t, chk, c.doc(), "%s: %s", c.name, msg)
	}
}

func lostNote(tr *truth, m esgen.PktMeta) string {
	if m.Kind == esgen.Fragment && tr.lost[m.Units[0]] {
		return fmt.Sprintf(" — unit %d lost a fragment and must be dropped as a whole", m.Units[0])
	}
	return ""
}

func firstDiff(a, b []byte) string {
	n := len(a)
	if len(b) < n {
		n = len(b)
	}
	for i := 0; i < n; i++ {
		if a[i] != b[i] {
			return fmt.Sprintf(" (first difference at byte %d: got %02x, sent %02x)", i, a[i], b[i])
		}
	}
	return fmt.Sprintf(" (common prefix %d bytes)", n)
}

// classify names the sub-check for an unexpected frame.
func classify(s *esgen.Stream, tr *truth, m esgen.PktMeta, got []byte) string {
	if m.Kind == esgen.Fragment {
		u := m.Units[0]
		if bytes.Equal(got, s.Units[u].Bytes) {
			return "duplicate-unit"
		}
		if tr.lost[u] {
			return "truncated-unit"
		}
		return "spliced-unit"
	}
	return "invented"
}

// ---------------------------------------------------------------- evidence

func account(name, path string, s *esgen.Stream, faults []esgen.Fault, arrival []int, srs []srEvent, primary bool) {
	if primary { // the AAC half of a demuxer case is part of the same evaluation
		evid.Eval(1)
	}
	nt := false
	hl := s.Codec.HeaderLen()
	for i, m := range s.Meta {
		evid.Class(name + "/pkt-" + m.Kind.String())
		if p := s.Pkts[i]; p.HasExt && len(p.Ext) > 0 {
			pos := ""
			if m.Kind == esgen.Fragment {
				pos = "-middle"
				if m.Frag == 0 {
					pos = "-first"
				} else if m.Frag == m.Frags-1 {
					pos = "-last"
				}
			}
			evid.Class(name + "/hdr-ext>=1word-" + m.Kind.String() + pos)
		} else if len(p.CSRC) > 0 || p.HasExt {
			evid.Class(name + "/hdr-csrc-or-empty-ext")
		}
		switch m.Kind {
		case esgen.Aggregate:
			if s.Audio {
				nt = true
				break
			}
			if s.Codec == esgen.H264 {
				nri := map[byte]bool{}
				for _, u := range m.Units {
					nri[s.Units[u].Bytes[0]&0x60] = true
				}
				if len(nri) >= 2 {
					nt = true
					evid.Class(name + "/agg-mixed-nri")
				}
			}
			if len(m.Units) >= 3 {
				evid.Class(name + "/agg>=3units")
			}
		case esgen.Fragment:
			if m.Frag == 0 {
				if m.Frags >= 3 {
					nt = true
					evid.Class(name + "/unit>=3frags")
				}
				if len(s.Units[m.Units[0]].Bytes)-hl == m.Frags {
					evid.Class(name + "/unit-in-1-byte-frags")
				}
			} else if s.Pkts[i].Seq == 0 {
				evid.Class(name + "/seq-wrap-inside-fragmented-unit")
			}
		}
		if i > 0 && s.Pkts[i].Seq == 0 {
			evid.Class(name + "/seq-wrap")
		}
	}
	for _, u := range s.Units {
		switch n := len(u.Bytes); {
		case n <= hl+1:
			evid.Class(name + "/unit<=hdr+1")
		case n > 65535:
			evid.Class(name + "/unit>64K")
		case n == 65535:
			evid.Class(name + "/unit=65535")
		}
	}
	for _, f := range faults {
		m := s.Meta[f.I]
		pos := "middle"
		if m.Frag == 0 {
			pos = "first"
		} else if m.Frag == m.Frags-1 {
			pos = "last"
		}
		evid.Class(name + "/fault-" + f.Op + "-" + pos)
		if f.Op == "drop" {
			nt = true
		}
	}
	if len(faults) >= 2 {
		evid.Class(name + "/faults>=2")
	}
	for _, e := range srs {
		if e.Before == 0 {
			evid.Class(name + "/sr-before-media")
		} else {
			evid.Class(name + "/sr-mid-stream")
		}
	}
	if nt {
		parts := []any{name, path}
		for _, p := range s.Pkts {
			parts = append(parts, p.Marshal())
		}
		parts = append(parts, fmt.Sprint(arrival), fmt.Sprint(srs))
		evid.Nontrivial(evid.FP(parts...))
		evid.Class(name + "/" + path + "-nontrivial")
	}
	if evid.WantSample(name + "/" + path) {
		d := describe(name, path, true, s, faults, arrival, srs, nil)
		for i := range d.Units {
			d.Units[i].Hex = evid.Hex(s.Units[i].Bytes)
		}
		for i := range d.Packets {
			d.Packets[i].Hex = evid.Hex(s.Pkts[i].Payload)
		}
		evid.Sample(name+"/"+path, d)
	}
}

// ---------------------------------------------------------------- properties: synchronous depacketisers

// Budget: every parallel test runs the same number of rapid cases. The
// -rapid.checks flag is process-wide, so each test sets it (to the same value)
// in its sequential prologue, before t.Parallel(); the tests differ in their
// generator configuration, which also makes their case streams different under
// one -rapid.seed. Top-level tests (no subtests) keep rapid's fail-file names
// usable by the driver's replay.
func begin(t *testing.T) {
	evid.Rule(ruleText)
	evid.Assume("sender side = lib/rtppack, anchored on hand-written RFC vectors; 32-bit RTP timestamp wrap, F=1 units, filler NAL units and RTP padding are outside the generated domain")
	evid.Assume("without sprop parameter sets in the SDP, units sent before the in-band parameter sets are complete are withheld by documented design (metadata gate) and are not demanded")
	evid.Assume("presentation times are compared only between frames with no sender report delivered between their packets (one sync-clock epoch); the jump of all PTS at the first sender report is outside the comparison")
	evid.Checks(16000, 250000)
	t.Parallel()
}

func TestH264SyncTiny(t *testing.T) { begin(t); videoSync(t, esgen.H264, 40) }
func TestH264SyncMid(t *testing.T)  { begin(t); videoSync(t, esgen.H264, 3000) }
func TestH264SyncFull(t *testing.T) { begin(t); videoSync(t, esgen.H264, 70000) }
func TestH265SyncTiny(t *testing.T) { begin(t); videoSync(t, esgen.H265, 40) }
func TestH265SyncMid(t *testing.T)  { begin(t); videoSync(t, esgen.H265, 3000) }
func TestH265SyncFull(t *testing.T) { begin(t); videoSync(t, esgen.H265, 70000) }
func TestH264Gate(t *testing.T)     { begin(t); gateSync(t, esgen.H264) }
func TestH265Gate(t *testing.T)     { begin(t); gateSync(t, esgen.H265) }
func TestH264Demuxer(t *testing.T)  { begin(t); demuxer(t, esgen.H264) }
func TestH265Demuxer(t *testing.T)  { begin(t); demuxer(t, esgen.H265) }
func TestAacSync(t *testing.T)      { begin(t); aacSync(t) }

func videoSync(t *testing.T, c esgen.Codec, maxNAL int) {
	rapid.Check(t, func(t *rapid.T) {
		cfg := esgen.Config{Codec: c, Tags: true, EndNALs: true, AuxSlices: true, NegativeSteps: true, MaxNAL: maxNAL}
		s := esgen.Packetise(t, c, cfg.DrawSequence(t), esgen.PackConfig{HeaderExtras: true})
		var faults []esgen.Fault
		if rapid.IntRange(0, 2).Draw(t, "faulty") > 0 {
			faults = esgen.DrawFaults(t, s, 3)
		}
		arrival := esgen.Arrival(len(s.Pkts), faults)
		vm, _ := metas(t, c, true, 0)
		rec := &recorder{}
		sc := &syncCase{name: c.String(), rec: rec, channel: rtp.ChannelVideo, s: s, faults: faults, arrival: arrival, sprop: true}
		if c == esgen.H264 {
			sc.dp = rtp.NewH264Depacketizer(vm, rec)
		} else {
			sc.dp = rtp.NewH265Depacketizer(vm, rec)
		}
		sc.srs = drawSRs(t, s, len(arrival))
		account(sc.name, "sync", s, faults, arrival, sc.srs, true)
		sc.run(t)
	})
}

// gateSync: the SDP carries no parameter sets. ipchub documents
// (writeFrame, "metadata ready") that nothing is forwarded until SPS and PPS
// (and VPS for H.265) have been seen in-band; from the unit that completes the
// set onwards the stream must be reproduced exactly. In-band parameter sets are
// the repository's real ones so that they parse.
func gateSync(t *testing.T, c esgen.Codec) {
	rapid.Check(t, func(t *rapid.T) {
		cfg := esgen.Config{Codec: c, Tags: true, RealParamSets: true, MaxNAL: 3000, MaxGOP: 3}
		s := esgen.Packetise(t, c, cfg.DrawSequence(t), esgen.PackConfig{HeaderExtras: true})
		arrival := esgen.Arrival(len(s.Pkts), nil)
		vm, _ := metas(t, c, false, 0)
		rec := &recorder{}
		sc := &syncCase{name: c.String() + "-gate", rec: rec, channel: rtp.ChannelVideo, s: s, arrival: arrival, withheld: map[int]bool{}}
		need := map[byte]bool{esgen.H264SPS: true, esgen.H264PPS: true}
		if c == esgen.H265 {
			need = map[byte]bool{esgen.H265VPS: true, esgen.H265SPS: true, esgen.H265PPS: true}
		}
		opened := -1
		for i, u := range s.Units {
			delete(need, c.NalType(u.Bytes))
			if len(need) > 0 {
				sc.withheld[i] = true
			} else if opened < 0 {
				opened = i
			}
		}
		if c == esgen.H264 {
			sc.dp = rtp.NewH264Depacketizer(vm, rec)
		} else {
			sc.dp = rtp.NewH265Depacketizer(vm, rec)
		}
		switch {
		case opened < 0:
			evid.Class(sc.name + "/never-opens")
		case opened == len(s.Units)-1:
			evid.Class(sc.name + "/opens-at-last-unit")
		default:
			evid.Class(sc.name + "/opens-mid-stream")
		}
		account(sc.name, "sync", s, nil, arrival, nil, true)
		sc.run(t)
	})
}

func aacSync(t *testing.T) {
	rapid.Check(t, func(t *rapid.T) {
		rate := rapid.SampledFrom([]int{44100, 44100, 48000, 8000, 16000, 22050, 32000, 96000}).Draw(t, "rate")
		ac := esgen.AacConfig{Tags: true, SampleRate: rate}
		s := esgen.PacketiseAac(t, ac, ac.DrawAacAUs(t), esgen.PackConfig{HeaderExtras: true})
		arrival := esgen.Arrival(len(s.Pkts), nil)
		_, am := metas(t, esgen.H264, true, rate)
		rec := &recorder{}
		sc := &syncCase{name: "AAC", rec: rec, channel: rtp.ChannelAudio, s: s, arrival: arrival, sprop: true}
		sc.dp = rtp.NewAacDepacketizer(am, rec)
		sc.srs = drawSRs(t, s, len(arrival))
		account("AAC", "sync", s, nil, arrival, sc.srs, true)
		sc.run(t)
	})
}

// ---------------------------------------------------------------- property: rtp.Demuxer (queue + goroutine)

var sentinelNAL = map[esgen.Codec][]byte{
	esgen.H264: append([]byte{0x21}, []byte("C06-end-of-case-sentinel")...),
	esgen.H265: append([]byte{0x02, 0x01}, []byte("C06-end-of-case-sentinel")...),
}

var demuxerStalled atomic.Bool

// logCore captures what the demuxer logs at error level: its consumer
// goroutine reports a recovered panic there ("routine panic") before it exits,
// which is the direct observation of "the consumer is gone".
type logCore struct {
	mu    sync.Mutex
	msgs  []string
	fatal chan string
}

func (c *logCore) Enabled(l xlog.Level) bool { return l >= xlog.ErrorLevel }
func (c *logCore) Sync() error               { return nil }
func (c *logCore) Write(e xlog.Entry) error {
	c.mu.Lock()
	defer c.mu.Unlock()
	if len(c.msgs) < 8 {
		c.msgs = append(c.msgs, e.Message)
	}
	if strings.Contains(e.Message, "panic") {
		select {
		case c.fatal <- e.Message:
		default:
		}
	}
	return nil
}

type muxItem struct {
	Channel byte `json:"channel"`
	Pkt     int  `json:"pkt"` // index into the video / audio packet list, -1 = sender report
	SR      *srEvent
}

func demuxer(t *testing.T, c esgen.Codec) {
	evid.Rule("demuxer path: video (+ optional AAC) packets and sender reports interleaved on channels 0-3 through rtp.NewDemuxer; fragments are dropped (loss only) so the expected frame list is exact; completion is observed by a final sentinel unit, not by sleeping")
	rapid.Check(t, func(t *rapid.T) {
		cfg := esgen.Config{Codec: c, Tags: true, EndNALs: true, AuxSlices: true, NegativeSteps: true, MaxNAL: 20000}
		vs := esgen.Packetise(t, c, cfg.DrawSequence(t), esgen.PackConfig{HeaderExtras: true})
		var faults []esgen.Fault
		if rapid.IntRange(0, 1).Draw(t, "lossy") > 0 {
			faults = esgen.DrawFaults(t, vs, 3, "drop")
		}
		varr := esgen.Arrival(len(vs.Pkts), faults)
		rate := 0
		var as *esgen.Stream
		if rapid.IntRange(0, 2).Draw(t, "audio") > 0 {
			rate = rapid.SampledFrom([]int{44100, 48000, 8000}).Draw(t, "rate")
			ac := esgen.AacConfig{Tags: true, SampleRate: rate, MaxAUs: 8}
			as = esgen.PacketiseAac(t, ac, ac.DrawAacAUs(t), esgen.PackConfig{HeaderExtras: true})
		}
		// interleave
		var items []muxItem
		vi, ai := 0, 0
		na := 0
		if as != nil {
			na = len(as.Pkts)
		}
		vsrs, asrs := drawSRs(t, vs, len(varr)), []srEvent(nil)
		if as != nil {
			asrs = drawSRs(t, as, na)
		}
		vsr, asr := 0, 0
		for vi < len(varr) || ai < na || vsr < len(vsrs) || asr < len(asrs) {
			for vsr < len(vsrs) && vsrs[vsr].Before <= vi {
				e := vsrs[vsr]
				items = append(items, muxItem{Channel: rtp.ChannelVideoControl, Pkt: -1, SR: &e})
				vsr++
			}
			for asr < len(asrs) && asrs[asr].Before <= ai {
				e := asrs[asr]
				items = append(items, muxItem{Channel: rtp.ChannelAudioControl, Pkt: -1, SR: &e})
				asr++
			}
			takeV := vi < len(varr) && (ai >= na || rapid.Bool().Draw(t, "next-is-video"))
			if takeV {
				items = append(items, muxItem{Channel: rtp.ChannelVideo, Pkt: varr[vi]})
				vi++
			} else if ai < na {
				items = append(items, muxItem{Channel: rtp.ChannelAudio, Pkt: ai})
				ai++
			}
		}
		account(c.String(), "demuxer", vs, faults, varr, vsrs, true)
		if as != nil {
			account("AAC", "demuxer", as, nil, nil, asrs, false)
		}

		vm, am := metas(t, c, true, rate)
		rec := &recorder{sentinel: sentinelNAL[c], done: make(chan struct{})}
		lc := &logCore{fatal: make(chan string, 1)}
		dm, err := rtp.NewDemuxer(vm, am, rec, xlog.New(lc))
		if err != nil {
			t.Fatalf("harness: NewDemuxer: %v", err)
		}
		defer dm.Close()
		for _, it := range items {
			switch {
			case it.Pkt < 0:
				dm.WriteRtpPacket(rtppack.ToIpchub(it.Channel, rtppack.SenderReport(1, it.SR.NtpSec, it.SR.NtpFrc, it.SR.RtpTS, 0, 0)))
			case it.Channel == rtp.ChannelVideo:
				dm.WriteRtpPacket(rtppack.ToIpchub(it.Channel, vs.Pkts[it.Pkt].Marshal()))
			default:
				dm.WriteRtpPacket(rtppack.ToIpchub(it.Channel, as.Pkts[it.Pkt].Marshal()))
			}
		}
		var sp []byte
		if c == esgen.H264 {
			sp = rtppack.H264Single(sentinelNAL[c])
		} else {
			sp = rtppack.H265Single(sentinelNAL[c])
		}
		lastSeq := uint16(0)
		if len(vs.Pkts) > 0 {
			lastSeq = vs.Pkts[len(vs.Pkts)-1].Seq
		}
		dm.WriteRtpPacket(rtppack.ToIpchub(rtp.ChannelVideo, rtppack.Pkt{PT: 96, Marker: true, Seq: lastSeq + 1, TS: 0, Payload: sp}.Marshal()))

		doc := func() *caseDoc {
			rec.mu.Lock()
			defer rec.mu.Unlock()
			d := describe(c.String(), "demuxer", true, vs, faults, varr, vsrs, rec.frames)
			d.Raw = map[string]any{"interleaving": items}
			if as != nil {
				d.Raw["audio"] = describe("AAC", "demuxer", true, as, nil, nil, asrs, nil)
			}
			return d
		}
		wait := 20 * time.Second // five orders of magnitude above the normal latency
		if demuxerStalled.Load() {
			wait = time.Second // a stall was already seen in this process: do not spend 20 s per shrink step
		}
		select {
		case <-rec.done:
		case msg := <-lc.fatal:
			if len(msg) > 300 {
				msg = msg[:300]
			}
			evid.Violation(t, "panic", doc(), "%s demuxer: the consumer goroutine panicked on well-formed input and stopped: %s", c, msg)
		case <-time.After(wait):
			demuxerStalled.Store(true)
			// The queue is FIFO with one consumer: the sentinel not coming out means the
			// consumer goroutine is gone or stuck. Show why by replaying synchronously.
			evid.Violation(t, "demuxer-stopped", doc(), "%s demuxer: the end-of-case unit written after %d packets never reached the FrameWriter within the bounded wait (consumer goroutine dead or stuck)", c, len(items))
		}
		rec.mu.Lock()
		frames := append([]frameRec(nil), rec.frames...)
		rec.mu.Unlock()
		lc.mu.Lock()
		logged := append([]string(nil), lc.msgs...)
		lc.mu.Unlock()
		if len(logged) > 0 {
			evid.Violation(t, "error", doc(), "%s demuxer: error logged for well-formed input: %q", c, logged)
		}

		// expected lists
		tr := model(vs, faults, varr)
		var wantV []int
		for a := range varr {
			wantV = append(wantV, tr.per[a].must...)
		}
		var gotV, gotA []frameRec
		for _, f := range frames {
			if f.Media == codec.MediaTypeAudio {
				gotA = append(gotA, f)
			} else {
				gotV = append(gotV, f)
			}
		}
		compare := func(kind string, s *esgen.Stream, want []int, got []frameRec) {
			for i, f := range got {
				if i >= len(want) {
					evid.Violation(t, "invented", doc(), "%s demuxer: %s frame %d (%d bytes, %s) has no counterpart: the sender's %d deliverable units are exhausted", c, kind, i, len(f.Payload), evid.Hex(f.Payload), len(want))
				}
				u := s.Units[want[i]]
				if !bytes.Equal(f.Payload, u.Bytes) {
					evid.Violation(t, "bytes", doc(), "%s demuxer: %s frame %d differs from unit %d: got %d bytes %s, sent %d bytes %s%s", c, kind, i, want[i], len(f.Payload), evid.Hex(f.Payload), len(u.Bytes), evid.Hex(u.Bytes), firstDiff(f.Payload, u.Bytes))
				}
			}
			if len(got) < len(want) {
				evid.Violation(t, "missing", doc(), "%s demuxer: %s unit %d (%d bytes) never came out (%d of %d frames)", c, kind, want[len(got)], len(s.Units[want[len(got)]].Bytes), len(got), len(want))
			}
		}
		compare("video", vs, wantV, gotV)
		// segments: number of sender reports of the unit's own control channel queued before its packet
		segOf := func(ch byte) map[int]int {
			m, n := map[int]int{}, 0
			for _, it := range items {
				if it.Pkt < 0 {
					if it.Channel == ch+1 {
						n++
					}
				} else if it.Channel == ch {
					m[it.Pkt] = n
				}
			}
			return m
		}
		pktOfUnit := func(s *esgen.Stream) map[int]int {
			m := map[int]int{}
			for p, me := range s.Meta {
				for _, u := range me.Units {
					m[u] = p // last packet carrying the unit
				}
			}
			return m
		}
		timeCheck := func(kind string, s *esgen.Stream, ch byte, want []int, got []frameRec) {
			seg, pou := segOf(ch), pktOfUnit(s)
			var timed []timedFrame
			for i, f := range got {
				timed = append(timed, timedFrame{s.Units[want[i]].TS, f.Pts, seg[pou[want[i]]], want[i]})
			}
			if chk, msg := checkPts(timed, s.ClockRate); chk != "" {
				evid.Violation(t, chk, doc(), "%s demuxer %s: %s", c, kind, msg)
			}
		}
		timeCheck("video", vs, rtp.ChannelVideo, wantV, gotV)
		if as != nil {
			var wantA []int
			for i := range as.Units {
				wantA = append(wantA, i)
			}
			compare("audio", as, wantA, gotA)
			timeCheck("audio", as, rtp.ChannelAudio, wantA, gotA)
		} else if len(gotA) > 0 {
			evid.Violation(t, "invented", doc(), "%s demuxer: %d audio frames without an audio stream", c, len(gotA))
		}
	})
}
