package c06

// Burst class of the asynchronous path: one rtp.Demuxer is fed a long, clean,
// in-order log by one writer goroutine that does not wait between packets (a
// publisher sending faster than real time, a burst after a network stall), so
// that the writer is inside the queue's Push while the conversion goroutine
// takes packets out. The sender's units must come out exactly: every one, once,
// in order — the same oracle as everywhere else in this package; nothing is
// lost on the wire here, so any difference is the demuxer's.
//
// The log is built by construction (no randomness): mostly small single NAL
// unit packets that carry their unit number, with FU-A/FU units of 3 fragments,
// STAP-A/AP packets of 2 units and (optionally) AAC-hbr packets of 1-2 AUs in
// between. What varies between rounds is the pacing of the writer: flat out,
// yielding now and then, or pausing until the queue has run empty (which
// exercises the empty-queue branch of the queue as well as the backlog one).

import (
	"bytes"
	"encoding/binary"
	"encoding/json"
	"fmt"
	"os"
	"runtime"
	"sync"
	"sync/atomic"
	"testing"
	"time"

	"github.com/cnotch/ipchub/av/codec"
	"github.com/cnotch/ipchub/av/format/rtp"
	"github.com/cnotch/xlog"
	"verif/harness/lib/evid"
	"verif/harness/lib/rtppack"
	"verif/harness/lib/rtppack/esgen"
)

type burstCase struct {
	Codec   string `json:"codec"`
	Audio   bool   `json:"audio"`
	Packets int    `json:"video_packets"`
	Round   int    `json:"round"`
	Pace    string `json:"pace"`
	Rounds  int    `json:"rounds_to_replay,omitempty"`

	FramesOut  int    `json:"frames_out,omitempty"`
	FramesWant int    `json:"frames_expected,omitempty"`
	Detail     string `json:"detail,omitempty"`
}

// burstRecorder is touched by the conversion goroutine only until the count
// says everything is out (the atomic counter orders the reads after the
// appends); payloads are kept by reference — nothing in this test mutates a
// packet — so that recording costs about as little as a real muxer's enqueue.
type burstRecorder struct {
	video [][]byte
	audio [][]byte
	count int64
}

func (r *burstRecorder) WriteFrame(f *codec.Frame) error {
	if f.MediaType == codec.MediaTypeAudio {
		r.audio = append(r.audio, f.Payload)
	} else {
		r.video = append(r.video, f.Payload)
	}
	atomic.AddInt64(&r.count, 1)
	return nil
}

// Writer pacing per round. The interesting regime is the writer and the
// converter running at about the same speed (the queue alternates between
// empty and a small backlog); "spin-N" burns N loop iterations between two
// packets to sweep the speed ratio across that point on any machine.
var burstPaces = []string{"track-0", "spin-400", "track-1", "spin-800", "track-4", "spin-1600", "drain", "flat-out", "track-2", "spin-250", "yield", "spin-3200", "track-16", "spin-100", "track-64"}
var burstPacesQuick = []string{"track-0", "spin-400", "track-1", "spin-800", "track-4", "spin-1600", "track-0", "spin-400", "track-1", "drain", "flat-out", "track-2"}

var burstSink uint64

// burstLog builds the packets (already in the form ipchub's reader produces)
// and the sender's truth.
func burstLog(c esgen.Codec, audio bool, n int) (pkts []*rtp.Packet, framesAfter []int, wantV, wantA [][]byte) {
	hdr := []byte{0x41}
	if c == esgen.H265 {
		hdr = []byte{0x02, 0x01}
	}
	unit := func(k uint32, size int) []byte {
		u := make([]byte, len(hdr)+size)
		copy(u, hdr)
		for i := len(hdr); i < len(u); i++ {
			u[i] = 0x80 | byte(i)
		}
		binary.BigEndian.PutUint32(u[len(hdr):], k|0x80000000) // never 00 00 0x
		return u
	}
	var vseq, aseq uint16 = 65000, 100 // both wrap inside the log
	vts, ats := uint32(90000), uint32(1024)
	k, ak := uint32(0), uint32(0)
	frames := 0
	add := func(ch byte, p rtppack.Pkt) {
		pkts = append(pkts, rtppack.ToIpchub(ch, p.Marshal()))
		framesAfter = append(framesAfter, frames)
	}
	for i := 0; i < n; i++ {
		var payloads [][]byte
		switch {
		case i%16 == 5: // one unit in three fragments
			u := unit(k, 30)
			k++
			wantV = append(wantV, u)
			if c == esgen.H264 {
				payloads = rtppack.H264FuA(u, 10)
			} else {
				payloads = rtppack.H265FU(u, 10)
			}
		case i%23 == 7: // two units aggregated
			a, b := unit(k, 4), unit(k+1, 9)
			k += 2
			wantV = append(wantV, a, b)
			if c == esgen.H264 {
				payloads = [][]byte{rtppack.H264StapA([][]byte{a, b})}
			} else {
				payloads = [][]byte{rtppack.H265AP([][]byte{a, b})}
			}
		default:
			u := unit(k, 4+i%3)
			k++
			wantV = append(wantV, u)
			payloads = [][]byte{u}
		}
		frames = len(wantV) + len(wantA)
		ps := rtppack.Sequence(payloads, true, 96, vts, vseq, 0x11223344)
		vseq += uint16(len(ps))
		vts += 3000
		for j, p := range ps {
			if j < len(ps)-1 { // fragments before the last complete nothing
				framesAfter = append(framesAfter, frames-1)
				pkts = append(pkts, rtppack.ToIpchub(rtp.ChannelVideo, p.Marshal()))
				continue
			}
			add(rtp.ChannelVideo, p)
		}
		if audio && i%3 == 1 {
			var aus [][]byte
			for j := 0; j <= i%2; j++ {
				au := make([]byte, 6+i%5)
				binary.BigEndian.PutUint32(au, ak|0x80000000)
				ak++
				aus = append(aus, au)
				wantA = append(wantA, au)
			}
			frames = len(wantV) + len(wantA)
			add(rtp.ChannelAudio, rtppack.Pkt{PT: 97, Marker: true, Seq: aseq, TS: ats, SSRC: 0x55667788, Payload: rtppack.AacHbr(aus)})
			aseq++
			ats += uint32(len(aus)) * esgen.AacSamplesPerAU
		}
	}
	return
}

type burstLogT struct {
	pkts         []*rtp.Packet
	framesAfter  []int
	wantV, wantA [][]byte
}

var burstLogs sync.Map // the log is immutable and the same for every round of a configuration

func cachedBurstLog(c esgen.Codec, audio bool, n int) ([]*rtp.Packet, []int, [][]byte, [][]byte) {
	key := fmt.Sprint(c, audio, n)
	v, ok := burstLogs.Load(key)
	if !ok {
		l := &burstLogT{}
		l.pkts, l.framesAfter, l.wantV, l.wantA = burstLog(c, audio, n)
		v, _ = burstLogs.LoadOrStore(key, l)
	}
	l := v.(*burstLogT)
	return l.pkts, l.framesAfter, l.wantV, l.wantA
}

// burstRound runs one round and returns a description of the first difference
// ("" = the sender's units came out exactly).
func burstRound(t *testing.T, bc *burstCase) string {
	c := esgen.H264
	if bc.Codec == "H265" {
		c = esgen.H265
	}
	rate := 0
	if bc.Audio {
		rate = 44100
	}
	pkts, framesAfter, wantV, wantA := cachedBurstLog(c, bc.Audio, bc.Packets)
	vm, am := metas(t, c, true, rate)
	rec := &burstRecorder{}
	lc := &logCore{fatal: make(chan string, 1)}
	dm, err := rtp.NewDemuxer(vm, am, rec, xlog.New(lc))
	if err != nil {
		t.Fatalf("harness: NewDemuxer: %v", err)
	}
	defer dm.Close()

	burst := 1 + bc.Round%7
	spin := 0
	fmt.Sscanf(bc.Pace, "spin-%d", &spin)
	track := -1
	fmt.Sscanf(bc.Pace, "track-%d", &track)
	var x uint64
	slack := int64(0)
	for i, p := range pkts {
		dm.WriteRtpPacket(p)
		for j := 0; j < spin; j++ {
			x = x*6364136223846793005 + 1442695040888963407
		}
		if track >= 0 {
			// keep the backlog at about `track` frames: the next packet is pushed at
			// the moment the converter has (nearly) worked off the queue, on any
			// machine and under any load. Bounded: if frames stop coming (a lost
			// packet) the writer re-bases and goes on.
			n := 0
			for ; int64(framesAfter[i])-atomic.LoadInt64(&rec.count)-slack > int64(track) && n < 200000; n++ {
				x++
			}
			if n == 200000 {
				slack = int64(framesAfter[i]) - atomic.LoadInt64(&rec.count)
			}
		}
		switch bc.Pace {
		case "yield": // let the converter catch up now and then
			if i%(burst*64) == 0 {
				runtime.Gosched()
			}
		case "drain": // every few hundred packets wait (bounded) until the queue has run empty
			if i%(257*burst) == 0 {
				for spin := 0; spin < 200000 && atomic.LoadInt64(&rec.count) < int64(framesAfter[i]); spin++ {
					runtime.Gosched()
				}
			}
		}
	}
	// Everything is queued. Wait until every expected frame came out; stop waiting
	// when nothing has moved for 10 s (normal completion takes milliseconds). The
	// verdict comes from the comparison below, never from the clock.
	total := int64(len(wantV) + len(wantA))
	last, lastMove := int64(-1), time.Now()
	for {
		n := atomic.LoadInt64(&rec.count)
		if n >= total {
			break
		}
		if n != last {
			last, lastMove = n, time.Now()
		} else if time.Since(lastMove) > 10*time.Second {
			break
		}
		time.Sleep(time.Millisecond)
	}
	time.Sleep(20 * time.Millisecond) // a surplus frame would show up now
	atomic.AddUint64(&burstSink, x)
	atomic.LoadInt64(&rec.count)
	gotV, gotA := rec.video, rec.audio
	bc.FramesOut, bc.FramesWant = len(gotV)+len(gotA), int(total)

	diff := func(kind string, got, want [][]byte) string {
		for i := range got {
			if i >= len(want) {
				return fmt.Sprintf("%s: %d units were sent, frame %d (%x) is surplus (%d frames came out)", kind, len(want), i, got[i], len(got))
			}
			if !bytes.Equal(got[i], want[i]) {
				return fmt.Sprintf("%s: frame %d is %x, the sender's unit %d is %x (%d units sent, %d frames out)", kind, i, got[i], i, want[i], len(want), len(got))
			}
		}
		if len(got) < len(want) {
			return fmt.Sprintf("%s: %d units were sent in a clean in-order stream, only %d frames came out (first missing: unit %d = %x)", kind, len(want), len(got), len(got), want[len(got)])
		}
		return ""
	}
	if d := diff("video", gotV, wantV); d != "" {
		return d
	}
	if d := diff("audio", gotA, wantA); d != "" {
		return d
	}
	lc.mu.Lock()
	defer lc.mu.Unlock()
	if len(lc.msgs) > 0 {
		return fmt.Sprintf("error logged for well-formed input: %.300q", lc.msgs)
	}
	return ""
}

// TestBurst is deliberately not parallel: Go runs it before the parallel rapid
// tests of this package resume, so that the writer and the converter of each
// demuxer really run at the same time instead of being time-sliced against a
// dozen CPU-bound tests. The four configurations run side by side (8 busy
// goroutines).
func TestBurst(t *testing.T) {
	evid.Rule("burst class (demuxer path): a clean in-order log of 60 000 video packets (single NAL units carrying their number, every 16th unit in 3 fragments, every 23rd packet an aggregate of 2, sequence numbers wrapping; optionally an AAC-hbr packet of 1-2 AUs after every third) written to one rtp.Demuxer by one goroutine without waiting for the converter; writer pacing per round: flat-out / yielding / pausing until the queue is empty / spin-N between packets / track-K (push when the backlog is K frames); oracle = the sender's units, each once, in order; one evaluation per round")
	rounds := 12
	if evid.Thorough() {
		rounds = 64
	}
	sh, _ := evid.Shard()
	type result struct {
		name string
		bc   *burstCase
	}
	var wg sync.WaitGroup
	var mu sync.Mutex
	var failed []result
	var stop atomic.Bool
	for _, cfg := range []struct {
		c     esgen.Codec
		audio bool
	}{{esgen.H264, false}, {esgen.H264, true}, {esgen.H265, false}, {esgen.H265, true}} {
		cfg := cfg
		name := cfg.c.String()
		if cfg.audio {
			name += "+aac"
		}
		wg.Add(1)
		go func() {
			defer wg.Done()
			for r := 0; r < rounds && !stop.Load(); r++ {
				paces := burstPacesQuick
				if evid.Thorough() {
					paces = burstPaces
				}
				bc := &burstCase{Codec: cfg.c.String(), Audio: cfg.audio, Packets: 60000, Round: r + sh*rounds, Pace: paces[(r+sh)%len(paces)]}
				d := burstRound(t, bc)
				evid.Eval(1)
				evid.Nontrivial(evid.FP("burst", name, bc.Round, bc.Pace, bc.Packets))
				evid.Class("burst/" + name + "-" + bc.Pace)
				if d != "" && os.Getenv("C06_BURST_SURVEY") != "" { // diagnostic: count hits per pacing instead of stopping
					t.Logf("SURVEY hit %s %s", name, bc.Pace)
					continue
				}
				if d != "" {
					bc.Detail, bc.Rounds = d, 20
					stop.Store(true)
					mu.Lock()
					failed = append(failed, result{name, bc})
					mu.Unlock()
					return
				}
			}
		}()
	}
	wg.Wait()
	if len(failed) > 0 {
		f := failed[0]
		evid.Violation(t, "burst-"+f.name, f.bc, "%s demuxer, burst round %d (%s, %d video packets): %s", f.name, f.bc.Round, f.bc.Pace, f.bc.Packets, f.bc.Detail)
	}
}

// TestReplayFile re-runs a saved burst case. The failure depends on how two
// goroutines interleave, so the saved configuration is repeated for several
// rounds; the first round that differs fails the test.
func TestReplayFile(t *testing.T) {
	p := os.Getenv("VERIF_REPLAY_FILE")
	if p == "" {
		t.Skip("no replay file")
	}
	b, err := os.ReadFile(p)
	if err != nil {
		t.Fatal(err)
	}
	var doc struct {
		Case burstCase `json:"case"`
	}
	if err := json.Unmarshal(b, &doc); err != nil || doc.Case.Packets == 0 {
		t.Skipf("not a burst case (rapid cases replay through their .fail file): %v", err)
	}
	bc := doc.Case
	rounds := bc.Rounds
	if rounds < 1 {
		rounds = 20
	}
	for r := 0; r < rounds; r++ {
		if d := burstRound(t, &bc); d != "" {
			t.Fatalf("%s burst (%s): %s", bc.Codec, bc.Pace, d)
		}
		bc.Round++
	}
}
