package c06

// AAC packets whose single AU-header does not describe exactly the bytes that
// follow it, mixed into an otherwise ordinary AAC-hbr stream:
//
//	fragments  an AU larger than the sender's MTU sent as RFC 3640 §3.2.3.1
//	           fragments: 2..5 packets, each with ONE AU-header carrying the size of
//	           the WHOLE AU and a piece of it, one timestamp, marker on the last
//	truncated  one AU-header, fewer bytes present than announced (cut in transit)
//	multi-cut  several AU-headers, the last AU cut short
//	padded     a whole AU followed by RTP padding (P bit, RFC 3550 §5.1) — a fully
//	           legal packet: the AU must come out, without the padding
//	stray      a whole AU followed by 1..255 octets without the P bit
//	zero       an AU-header announcing size 0 (with or without octets behind it)
//
// Oracle (statement: same bytes, none invented, a truncated or spliced unit is
// never emitted): a frame that comes out while such a packet is processed must be
// byte-equal to an AU the sender put WHOLE into that packet (for the last
// fragment: the whole reassembled AU is tolerated — refuse or reassemble is left
// open), in packet order; every ordinary packet before and after still yields
// exactly its AUs; a padded packet yields exactly its AU. Refusing an odd packet
// with an error is fine, a panic is not.

import (
	"bytes"
	"fmt"
	"testing"

	"github.com/cnotch/ipchub/av/format/rtp"
	"pgregory.net/rapid"
	"verif/harness/lib/evid"
	"verif/harness/lib/rtppack"
	"verif/harness/lib/rtppack/esgen"
)

type oddPkt struct {
	Kind    string   `json:"kind"`
	Pkt     pktDoc   `json:"packet"`
	Whole   []string `json:"whole_aus"`              // AUs present whole, in order (hex, abbreviated)
	MayAU   string   `json:"tolerated_au,omitempty"` // reassembled AU tolerated at the last fragment
	Must    bool     `json:"must_emit"`
	raw     rtppack.Pkt
	whole   [][]byte
	may     []byte
	ts      uint32
	normalI int // index into the ordinary stream's packets, -1 for odd ones
}

// auHeaderSection renders AU-headers-length + one 16-bit AU-header per size
// (RFC 3640 §3.2.1, sizeLength 13, indexLength 3, index 0).
func auHeaderSection(sizes ...int) []byte {
	b := []byte{byte(16 * len(sizes) >> 8), byte(16 * len(sizes))}
	for _, s := range sizes {
		b = append(b, byte(s<<3>>8), byte(s<<3))
	}
	return b
}

func drawBytes(t *rapid.T, n int, label string) []byte {
	b := make([]byte, n)
	x := rapid.Uint64().Draw(t, label) | 1
	for i := range b {
		x ^= x >> 12
		x ^= x << 25
		x ^= x >> 27
		b[i] = byte((x * 0x2545F4914F6CDD1D) >> 56)
	}
	return b
}

// drawOdd draws one odd packet group (fragments yield several packets).
func drawOdd(t *rapid.T, ts uint32) []*oddPkt {
	mk := func(kind string, payload []byte, marker bool, pad uint8, whole [][]byte, must bool) *oddPkt {
		return &oddPkt{Kind: kind, raw: rtppack.Pkt{PT: 97, Marker: marker, TS: ts, SSRC: 0x55667788, Payload: payload, Pad: pad}, whole: whole, Must: must, ts: ts, normalI: -1}
	}
	switch kind := rapid.SampledFrom([]string{"fragments", "fragments", "truncated", "multi-cut", "padded", "padded", "stray", "zero"}).Draw(t, "odd-kind"); kind {
	case "fragments":
		n := rapid.IntRange(2, 5).Draw(t, "frag-count")
		size := rapid.SampledFrom([]int{n, n + 1, 8, 100, 1500, 3000, 6144, 8191}).Draw(t, "frag-au-size")
		if size < n {
			size = n
		}
		au := drawBytes(t, size, "frag-au")
		var out []*oddPkt
		off := 0
		for i := 0; i < n; i++ {
			piece := (size - off) / (n - i)
			if i < n-1 && piece > 1 && rapid.Bool().Draw(t, "frag-uneven") {
				piece = rapid.IntRange(1, size-off-(n-i-1)).Draw(t, "frag-piece")
			}
			if i == n-1 {
				piece = size - off
			}
			p := mk("fragment", append(auHeaderSection(size), au[off:off+piece]...), i == n-1, 0, nil, false)
			p.Kind = fmt.Sprintf("fragment %d/%d", i+1, n)
			if i == n-1 {
				p.may = au
			}
			out = append(out, p)
			off += piece
		}
		return out
	case "truncated":
		size := rapid.SampledFrom([]int{1, 2, 9, 300, 6144, 8191}).Draw(t, "trunc-size")
		have := rapid.IntRange(0, size-1).Draw(t, "trunc-have")
		return []*oddPkt{mk(kind, append(auHeaderSection(size), drawBytes(t, have, "trunc-au")...), true, 0, nil, false)}
	case "multi-cut":
		n := rapid.IntRange(2, 4).Draw(t, "cut-aus")
		var sizes []int
		var whole [][]byte
		var body []byte
		for i := 0; i < n; i++ {
			sz := rapid.IntRange(1, 400).Draw(t, "cut-size")
			sizes = append(sizes, sz)
			au := drawBytes(t, sz, "cut-au")
			if i == n-1 {
				au = au[:rapid.IntRange(0, sz-1).Draw(t, "cut-have")]
			} else {
				whole = append(whole, au)
			}
			body = append(body, au...)
		}
		return []*oddPkt{mk(kind, append(auHeaderSection(sizes...), body...), true, 0, whole, false)}
	case "padded", "stray":
		size := rapid.SampledFrom([]int{1, 7, 8, 200, 1000, 6144}).Draw(t, "tail-size")
		au := drawBytes(t, size, "tail-au")
		extra := rapid.SampledFrom([]int{1, 2, 3, 4, 8, 100, 255}).Draw(t, "tail-octets")
		if kind == "padded" {
			return []*oddPkt{mk(kind, append(auHeaderSection(size), au...), true, uint8(extra), [][]byte{au}, true)}
		}
		return []*oddPkt{mk(kind, append(append(auHeaderSection(size), au...), drawBytes(t, extra, "tail-stray")...), true, 0, [][]byte{au}, false)}
	default: // zero
		behind := rapid.SampledFrom([]int{0, 0, 1, 7, 300}).Draw(t, "zero-behind")
		return []*oddPkt{mk("zero", append(auHeaderSection(0), drawBytes(t, behind, "zero-bytes")...), true, 0, nil, false)}
	}
}

func TestAacOddSync(t *testing.T) {
	begin(t)
	evid.Rule("AAC odd-size class: an ordinary AAC-hbr stream with, at drawn positions, single-AU packets whose AU-header announces more than is present (RFC 3640 §3.2.3.1 fragments of a big AU in 2..5 packets with the marker on the last; truncated packets; a multi-AU packet with the last AU cut), less than is present (RTP padding with the P bit; 1..255 stray octets) or zero; a frame may only be an AU that is whole in its packet (or the reassembled AU at the last fragment), ordinary and padded packets yield exactly their AUs")
	rapid.Check(t, func(t *rapid.T) {
		rate := rapid.SampledFrom([]int{44100, 48000, 8000}).Draw(t, "rate")
		ac := esgen.AacConfig{Tags: true, SampleRate: rate, MaxAUs: 8}
		s := esgen.PacketiseAac(t, ac, ac.DrawAacAUs(t), esgen.PackConfig{HeaderExtras: true})
		// arrival list: ordinary packets in order, odd groups in between
		var list []*oddPkt
		nOdd := rapid.IntRange(1, 3).Draw(t, "odd-groups")
		at := map[int][]*oddPkt{}
		for g := 0; g < nOdd; g++ {
			pos := rapid.IntRange(0, len(s.Pkts)).Draw(t, "odd-at")
			ts := s.Units[rapid.IntRange(0, len(s.Units)-1).Draw(t, "odd-ts-of")].TS
			at[pos] = append(at[pos], drawOdd(t, ts)...)
		}
		for i := 0; i <= len(s.Pkts); i++ {
			list = append(list, at[i]...)
			if i < len(s.Pkts) {
				var whole [][]byte
				for _, u := range s.Meta[i].Units {
					whole = append(whole, s.Units[u].Bytes)
				}
				list = append(list, &oddPkt{Kind: "ordinary", raw: s.Pkts[i], whole: whole, Must: true, ts: s.Pkts[i].TS, normalI: i})
			}
		}
		seq := s.Pkts[0].Seq
		for _, p := range list {
			p.raw.Seq = seq
			seq++
		}
		evid.Eval(1)
		nt := false
		for _, p := range list {
			if p.normalI < 0 {
				k := p.Kind
				if len(k) > 8 && k[:8] == "fragment" {
					k = "fragment"
				}
				evid.Class("AAC-odd/" + k)
				nt = true
			}
		}
		parts := []any{"AAC-odd"}
		for _, p := range list {
			parts = append(parts, p.raw.Marshal())
		}
		if nt {
			evid.Nontrivial(evid.FP(parts...))
		}

		_, am := metas(t, esgen.H264, true, rate)
		rec := &recorder{}
		dp := rtp.NewAacDepacketizer(am, rec)
		doc := func() any {
			var d []*oddPkt
			for i, p := range list {
				p.Pkt = pktDoc{Idx: i, Seq: p.raw.Seq, TS: p.raw.TS, Marker: p.raw.Marker, Kind: p.Kind, Hex: evid.Hex(p.raw.Payload)}
				p.Whole = nil
				for _, w := range p.whole {
					p.Whole = append(p.Whole, evid.Hex(w))
				}
				if p.may != nil {
					p.MayAU = evid.Hex(p.may)
				}
				d = append(d, p)
			}
			var got []frameDoc
			for _, f := range rec.frames {
				got = append(got, frameDoc{f.Call, f.Pts, len(f.Payload), evid.Hex(f.Payload)})
			}
			return map[string]any{"rate": rate, "arrival": d, "frames_out": got}
		}
		call := func(p *rtp.Packet) (err error, panicked any) {
			defer func() { panicked = recover() }()
			return dp.Depacketize(p), nil
		}
		var timed []timedFrame
		for a, p := range list {
			rec.call = a
			before := len(rec.frames)
			err, r := call(rtppack.ToIpchub(rtp.ChannelAudio, p.raw.Marshal()))
			where := fmt.Sprintf("AAC arrival %d (%s, payload %s, padding %d)", a, p.Kind, evid.Hex(p.raw.Payload), p.raw.Pad)
			if r != nil {
				evid.Violation(t, "panic", doc(), "%s: Depacketize panicked: %v", where, r)
			}
			if err != nil && p.Must {
				evid.Violation(t, "error", doc(), "%s: Depacketize refused a well-formed packet: %v", where, err)
			}
			got := rec.frames[before:]
			want := p.whole
			if p.may != nil && len(got) == 1 && bytes.Equal(got[0].Payload, p.may) {
				want = [][]byte{p.may}
			}
			for i, f := range got {
				if i >= len(want) || !bytes.Equal(f.Payload, want[i]) {
					chk := "invented"
					switch {
					case p.Kind == "padded" || p.Kind == "stray":
						chk = "trailing-octets-in-unit"
					case p.normalI < 0:
						chk = "truncated-unit"
					case i < len(want):
						chk = "bytes"
					}
					evid.Violation(t, chk, doc(), "%s: frame %d of %d bytes (%s) is not an AU the sender put whole into this packet (%d whole AUs%s)", where, i, len(f.Payload), evid.Hex(f.Payload), len(p.whole), wantNote(want, i))
				}
				if p.normalI >= 0 || i == 0 { // later AUs of an odd packet could step over the 32-bit timestamp range
					timed = append(timed, timedFrame{p.ts + uint32(i)*esgen.AacSamplesPerAU, f.Pts, 0, a})
				}
			}
			if p.Must && len(got) < len(want) {
				evid.Violation(t, "missing", doc(), "%s: %d AUs sent whole, %d frames came out", where, len(want), len(got))
			}
		}
		if chk, msg := checkPts(timed, rate); chk != "" {
			evid.Violation(t, chk, doc(), "AAC odd (unit numbers are arrival indices): %s", msg)
		}
	})
}

func wantNote(want [][]byte, i int) string {
	if i < len(want) {
		return fmt.Sprintf("; AU %d is %d bytes %s", i, len(want[i]), evid.Hex(want[i]))
	}
	return ""
}
