package c06

import (
	"bytes"
	"encoding/hex"
	"fmt"
	"strings"
	"testing"

	"github.com/cnotch/ipchub/av/format/rtp"
	"verif/harness/lib/evid"
	"verif/harness/lib/rtppack"
	"verif/harness/lib/rtppack/esgen"
)

func hx(s string) []byte {
	b, err := hex.DecodeString(strings.ReplaceAll(s, " ", ""))
	if err != nil {
		panic(err)
	}
	return b
}

// ---------------------------------------------------------------- anchors for the sender side

// TestPacketiserAnchors: the independent packetiser must reproduce byte strings
// written by hand from the RFC figures (RFC 6184 §5.7.1 / §5.8, RFC 7798 §4.4.2 /
// §4.4.3, RFC 3640 §3.3.6, RFC 3550 §5.1 / §6.4.1), and ipchub's own SDP parser
// must accept the SDP the harness announces (the repository's real parameter
// sets). A wrong harness is caught here before it can raise a false alarm.
func TestPacketiserAnchors(t *testing.T) {
	eq := func(what string, got []byte, want string) {
		t.Helper()
		if !bytes.Equal(got, hx(want)) {
			t.Fatalf("harness: %s: got %x want %s", what, got, want)
		}
		evid.Eval(1)
	}
	eq("STAP-A", rtppack.H264StapA([][]byte{hx("6742001f"), hx("68ce"), hx("0605")}), "78 0004 6742001f 0002 68ce 0002 0605")
	eq("STAP-A mixed NRI", rtppack.H264StapA([][]byte{hx("06aa"), hx("41bb")}), "58 0002 06aa 0002 41bb")
	fu := rtppack.H264FuA(hx("65 0102030405"), 2)
	eq("FU-A 1", fu[0], "7c 85 0102")
	eq("FU-A 2", fu[1], "7c 05 0304")
	eq("FU-A 3", fu[2], "7c 45 05")
	eq("AP", rtppack.H265AP([][]byte{hx("022b11"), hx("4f0a22")}), "602a 0003 022b11 0003 4f0a22")
	f5 := rtppack.H265FU(hx("2601 a1a2a3a4a5"), 2)
	eq("FU 1", f5[0], "6201 93 a1a2")
	eq("FU 2", f5[1], "6201 13 a3a4")
	eq("FU 3", f5[2], "6201 53 a5")
	eq("AAC-hbr", rtppack.AacHbr([][]byte{hx("a1a2a3"), hx("b1b2b3b4b5")}), "0020 0018 0028 a1a2a3 b1b2b3b4b5")
	eq("RTP header", rtppack.Pkt{PT: 96, Marker: true, Seq: 0xfffe, TS: 0x01020304, SSRC: 0xdeadbeef, Payload: []byte{0x65, 0x88}}.Marshal(), "80e0fffe 01020304 deadbeef 6588")
	eq("SR", rtppack.SenderReport(0x11223344, 0x83aa7e81, 0x80000000, 90000, 5, 1000), "80c80006 11223344 83aa7e81 80000000 00015f90 00000005 000003e8")
	for _, c := range []esgen.Codec{esgen.H264, esgen.H265} {
		vm, am := metas(t, c, true, 44100)
		if vm.Width != 1280 || vm.Height != 720 || am.SampleRate != 44100 {
			t.Fatalf("harness: metadata from the announced SDP: %+v %+v", vm, am)
		}
		vm, _ = metas(t, c, false, 0)
		if len(vm.Sps) != 0 || vm.Width != 0 {
			t.Fatalf("harness: SDP without sprop still yields parameter sets")
		}
	}
}

// ---------------------------------------------------------------- minimal witnesses (replay tier)

type wcase struct {
	name   string
	codec  esgen.Codec
	pkts   []rtppack.Pkt
	want   [][]byte // exact frames expected
	wantTS []uint32
}

func seqd(ts uint32, seq uint16, payloads ...[]byte) []rtppack.Pkt {
	return rtppack.Sequence(payloads, true, 96, ts, seq, 7)
}

func runWitness(t *testing.T, w wcase) {
	t.Helper()
	vm, _ := metas(t, w.codec, true, 0)
	rec := &recorder{}
	var dp rtp.Depacketizer
	if w.codec == esgen.H264 {
		dp = rtp.NewH264Depacketizer(vm, rec)
	} else {
		dp = rtp.NewH265Depacketizer(vm, rec)
	}
	for _, p := range w.pkts {
		dp.Depacketize(rtppack.ToIpchub(rtp.ChannelVideo, p.Marshal()))
	}
	evid.Eval(1)
	var got, want []string
	for _, f := range rec.frames {
		got = append(got, hex.EncodeToString(f.Payload))
	}
	for _, f := range w.want {
		want = append(want, hex.EncodeToString(f))
	}
	var sent []string
	for _, p := range w.pkts {
		sent = append(sent, fmt.Sprintf("seq=%d ts=%d %x", p.Seq, p.TS, p.Payload))
	}
	if fmt.Sprint(got) != fmt.Sprint(want) {
		evid.Violation(t, "witness-"+w.name, map[string]any{"packets": sent, "got": got, "want": want},
			"%s: packets %v -> frames %v, want %v", w.name, sent, got, want)
	}
}

// C06-i: units aggregated in a STAP-A must keep their own NRI bits.
func TestWitnessStapAKeepsNRI(t *testing.T) {
	sei, idr := hx("06 aa bb"), hx("65 88 84 00 10")
	runWitness(t, wcase{name: "stap-a-nri", codec: esgen.H264,
		pkts: seqd(1000, 1, rtppack.H264StapA([][]byte{sei, idr})),
		want: [][]byte{sei, idr}})
}

// C06-ii: a fragmented unit that lost a fragment is dropped as a whole.
func TestWitnessFuALoss(t *testing.T) {
	nal := hx("65 01 02 03 04 05 06 07 08 09 0a")
	next := hx("41 9a 00 11")
	frs := rtppack.H264FuA(nal, 2) // 5 fragments
	all := append(seqd(1000, 65533, frs...), seqd(4000, 2, next)...)
	for _, lost := range [][]int{{1}, {0}, {2}, {0, 1}, {1, 2, 3}} {
		runWitness(t, wcase{name: fmt.Sprintf("fu-a-lost-%v", lost), codec: esgen.H264,
			pkts: rtppack.Drop(all, lost...), want: [][]byte{next}})
	}
	// a duplicated last fragment must not produce a second, truncated unit
	runWitness(t, wcase{name: "fu-a-dup-last", codec: esgen.H264, pkts: rtppack.Dup(all, 4), want: [][]byte{nal, next}})
	// the same for H.265 (FU)
	nal5 := hx("2601 01 02 03 04 05 06 07 08 09 0a")
	next5 := hx("0201 9a 00 11")
	frs5 := rtppack.H265FU(nal5, 2)
	all5 := append(seqd(1000, 65533, frs5...), seqd(4000, 2, next5)...)
	for _, lost := range [][]int{{1}, {0}, {4}, {2, 3}} {
		runWitness(t, wcase{name: fmt.Sprintf("fu-lost-%v", lost), codec: esgen.H265,
			pkts: rtppack.Drop(all5, lost...), want: [][]byte{next5}})
	}
	runWitness(t, wcase{name: "fu-dup-last", codec: esgen.H265, pkts: rtppack.Dup(all5, 4), want: [][]byte{nal5, next5}})
}

// C06-iii: short NAL units (access unit delimiter, end of sequence) sent as
// single NAL unit packets are units like any other.
func TestWitnessShortSingleNal(t *testing.T) {
	aud, slice, eos := hx("09 f0"), hx("41 9a 00 11"), hx("0a")
	runWitness(t, wcase{name: "h264-aud-2-bytes", codec: esgen.H264,
		pkts: seqd(1000, 1, rtppack.H264Single(aud), rtppack.H264Single(slice), rtppack.H264Single(eos)),
		want: [][]byte{aud, slice, eos}})
	eos5, slice5 := hx("4801"), hx("0201 9a 00 11")
	runWitness(t, wcase{name: "h265-eos-2-bytes", codec: esgen.H265,
		pkts: seqd(1000, 1, rtppack.H265Single(slice5), rtppack.H265Single(eos5)),
		want: [][]byte{slice5, eos5}})
}

// An AAC packet whose AU-header announces size 0 carries no access unit: no
// (empty) frame may be invented for it, and the stream goes on afterwards.
func TestWitnessAacZeroSizeAU(t *testing.T) {
	_, am := metas(t, esgen.H264, true, 44100)
	rec := &recorder{}
	dp := rtp.NewAacDepacketizer(am, rec)
	au := hx("21 1a 93 fd b8")
	pk := []rtppack.Pkt{
		{PT: 97, Marker: true, Seq: 1, TS: 1024, Payload: hx("0010 0000")},
		{PT: 97, Marker: true, Seq: 2, TS: 2048, Payload: hx("0010 0000 aa bb cc")},
		{PT: 97, Marker: true, Seq: 3, TS: 3072, Payload: rtppack.AacHbr([][]byte{au})},
	}
	for _, p := range pk {
		dp.Depacketize(rtppack.ToIpchub(rtp.ChannelAudio, p.Marshal()))
	}
	evid.Eval(1)
	var got []string
	for _, f := range rec.frames {
		got = append(got, hex.EncodeToString(f.Payload))
	}
	if len(rec.frames) != 1 || !bytes.Equal(rec.frames[0].Payload, au) {
		evid.Violation(t, "witness-aac-zero-size-au", map[string]any{"got": got}, "AAC payloads 00100000, 00100000aabbcc, then a whole AU %x -> frames %q, want only the whole AU", au, got)
	}
}
