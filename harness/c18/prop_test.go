// C18 — users and routes survive edits, reloads and crashes intact.
//
//   - TestUserHistories / TestRouteHistories: rapid state machines over
//     Save / Del / Flush / reload-through-a-fresh-provider on one JSON file,
//     compared with the sequential reference tables (refmodel) after every step.
//   - TestCrashPoints (fault enumeration): for generated (previous table, edit)
//     pairs a child process performs the flush and kills itself at every crash
//     point that utils.VerifCrashPoints registers (build tag verif); afterwards a
//     fresh provider must load exactly the previous or exactly the new table.
//   - TestCrashPointsStrace (thorough): the same with strace killing the child on
//     entry to the k-th file-system call that touches the table file or its
//     temporaries; needs no source cooperation.
package c18

import (
	"encoding/json"
	"fmt"
	"os"
	"os/exec"
	"path/filepath"
	"sort"
	"strings"
	"syscall"
	"testing"
	"time"

	"github.com/cnotch/ipchub/provider/auth"
	"github.com/cnotch/ipchub/provider/route"
	"github.com/cnotch/ipchub/utils"
	"pgregory.net/rapid"
	"verif/harness/lib/evid"
	"verif/harness/lib/refmodel"
)

func TestMain(m *testing.M) {
	if os.Getenv("VERIF_CHILD_SPEC") != "" {
		childMain()
		return
	}
	evid.Main(m, "C18")
}

// ---------------------------------------------------------------- operations

type uop struct {
	Op       string `json:"op"` // save | del | flush | reload
	Name     string `json:"name,omitempty"`
	Password string `json:"password,omitempty"`
	Admin    bool   `json:"admin,omitempty"`
	Push     string `json:"push,omitempty"`
	Pull     string `json:"pull,omitempty"`
	UpdatePw bool   `json:"update_password,omitempty"`
}

type rop struct {
	Op        string `json:"op"`
	Pattern   string `json:"pattern,omitempty"`
	URL       string `json:"url,omitempty"`
	KeepAlive bool   `json:"keepalive,omitempty"`
}

var userNames = []string{"alice", "Alice", "ALICE", "bob", "Bob", "carol", "admin", "Admin"}
var rights = []string{"", "*", "/a", "/a/*", "/rooms/+/entrance", "/test/*;/rooms/*", "/b;/c/+"}
var passwords = []string{"pw1", "pw2", "secret", "e10adc3949ba59abbe56e057f20f883e"}
var routePatterns = []string{"/a", "/A", "a", "/a/", "/a/b", "/A/B/", "/a//b/", " /c ", "/", "/c/./d"}
var routeURLs = []string{"rtsp://cam1/live", "rtsp://cam1/live/", "rtsp://u:p@10.0.0.2:554/", "rtsp://cam2/x"}

func genUserOp(t *rapid.T, editOnly bool) uop {
	k := rapid.IntRange(0, 9).Draw(t, "kind")
	switch {
	case k <= 5 || (editOnly && k >= 8):
		return uop{Op: "save", Name: rapid.SampledFrom(userNames).Draw(t, "name"), Password: rapid.SampledFrom(passwords).Draw(t, "pw"),
			Admin: rapid.IntRange(0, 3).Draw(t, "admin") == 0, Push: rapid.SampledFrom(rights).Draw(t, "push"), Pull: rapid.SampledFrom(rights).Draw(t, "pull"),
			UpdatePw: rapid.Bool().Draw(t, "updpw")}
	case k <= 7:
		return uop{Op: "del", Name: rapid.SampledFrom(userNames).Draw(t, "name")}
	case k == 8:
		return uop{Op: "flush"}
	default:
		return uop{Op: "reload"}
	}
}

func genRouteOp(t *rapid.T, editOnly bool) rop {
	k := rapid.IntRange(0, 9).Draw(t, "kind")
	switch {
	case k <= 5 || (editOnly && k >= 8):
		return rop{Op: "save", Pattern: rapid.SampledFrom(routePatterns).Draw(t, "pattern"), URL: rapid.SampledFrom(routeURLs).Draw(t, "url"), KeepAlive: rapid.Bool().Draw(t, "ka")}
	case k <= 7:
		return rop{Op: "del", Pattern: rapid.SampledFrom(routePatterns).Draw(t, "pattern")}
	case k == 8:
		return rop{Op: "flush"}
	default:
		return rop{Op: "reload"}
	}
}

func applyUserImpl(o uop) error {
	switch o.Op {
	case "save":
		return auth.Save(&auth.User{Name: o.Name, Password: o.Password, Admin: o.Admin, PushAccess: o.Push, PullAccess: o.Pull}, o.UpdatePw)
	case "del":
		return auth.Del(o.Name)
	case "flush":
		return auth.Flush()
	}
	return nil
}

func applyUserModel(m *refmodel.UserTable, o uop) {
	switch o.Op {
	case "save":
		m.Save(refmodel.UserEntry{Name: o.Name, Password: o.Password, Admin: o.Admin, Push: o.Push, Pull: o.Pull}, o.UpdatePw)
	case "del":
		m.Del(o.Name)
	}
}

func applyRouteImpl(o rop) error {
	switch o.Op {
	case "save":
		return route.Save(&route.Route{Pattern: o.Pattern, URL: o.URL, KeepAlive: o.KeepAlive})
	case "del":
		return route.Del(o.Pattern)
	case "flush":
		return route.Flush()
	}
	return nil
}

func applyRouteModel(m *refmodel.RouteTable, o rop) {
	switch o.Op {
	case "save":
		m.Save(o.Pattern, o.URL, o.KeepAlive)
	case "del":
		m.Del(o.Pattern)
	}
}

// ---------------------------------------------------------------- comparison

func userKey(u refmodel.UserEntry) string {
	return fmt.Sprintf("%s|%s|%v|%s|%s", u.Name, u.Password, u.Admin, u.EffPush(), u.EffPull())
}

func usersOf(us []*auth.User) []string {
	out := make([]string, 0, len(us))
	for _, u := range us {
		out = append(out, userKey(refmodel.UserEntry{Name: u.Name, Password: u.Password, Admin: u.Admin, Push: u.PushAccess, Pull: u.PullAccess}))
	}
	sort.Strings(out)
	return out
}

func usersOfModel(m *refmodel.UserTable) []string {
	out := make([]string, 0, len(m.Rows))
	for _, u := range m.Rows {
		out = append(out, userKey(u))
	}
	sort.Strings(out)
	return out
}

func routesOf(rs []*route.Route) []string {
	out := make([]string, 0, len(rs))
	for _, r := range rs {
		out = append(out, fmt.Sprintf("%s|%s|%v", r.Pattern, r.URL, r.KeepAlive))
	}
	sort.Strings(out)
	return out
}

func routesOfModel(m *refmodel.RouteTable) []string {
	out := make([]string, 0, len(m.Rows))
	for _, r := range m.Rows {
		out = append(out, fmt.Sprintf("%s|%s|%v", r.Pattern, r.URL, r.KeepAlive))
	}
	sort.Strings(out)
	return out
}

func eq(a, b []string) bool {
	if len(a) != len(b) {
		return false
	}
	for i := range a {
		if a[i] != b[i] {
			return false
		}
	}
	return true
}

func defaultUsers() *refmodel.UserTable {
	// documented start state when no users file exists: the built-in administrator
	return &refmodel.UserTable{Rows: []refmodel.UserEntry{{Name: "admin", Password: "admin", Admin: true}}}
}

func scratch(t interface{ Fatalf(string, ...any) }) string {
	base := os.Getenv("VERIF_WORK")
	if base == "" {
		base = os.TempDir()
	}
	d, err := os.MkdirTemp(base, "c18-")
	if err != nil {
		t.Fatalf("mkdtemp: %v", err)
	}
	return d
}

// ---------------------------------------------------------------- histories

func TestUserHistories(t *testing.T) {
	evid.Rule("histories: rapid state machines over Save(±update password)/Del/Flush/reload-through-a-fresh-JSON-provider for users (names in varied case, 7 right strings, clear and MD5 passwords) and routes (canonical and non-canonical pattern spellings); All/Get compared with the sequential reference table after every step; non-trivial = history contains an update of an existing entry or a delete followed by re-create, and a flush+reload after it")
	evid.Checks(1500, 30000)
	dir := scratch(t)
	defer os.RemoveAll(dir)
	n := 0
	rapid.Check(t, func(t *rapid.T) {
		n++
		file := filepath.Join(dir, fmt.Sprintf("users-%d.json", n))
		defer os.Remove(file)
		auth.JSON.Configure(map[string]interface{}{"file": file})
		auth.Reset(auth.JSON)
		model := defaultUsers()
		flushed := model.Clone() // what a reload must give back
		var hist []uop
		updated, recreated, reloadedAfter := false, false, false
		deleted := map[string]bool{}
		dirty := false
		steps := rapid.IntRange(1, 14).Draw(t, "steps")
		for i := 0; i < steps; i++ {
			o := genUserOp(t, false)
			hist = append(hist, o)
			evid.Eval(1)
			switch o.Op {
			case "save":
				ln := strings.ToLower(o.Name)
				if _, ok := model.Get(ln); ok {
					updated = true
				} else if deleted[ln] {
					recreated = true
				}
				dirty = true
			case "del":
				if _, ok := model.Get(o.Name); ok {
					deleted[strings.ToLower(o.Name)] = true
					dirty = true
				}
			}
			if o.Op == "reload" {
				// a restart: whatever was flushed last is what the new process sees
				auth.Reset(auth.JSON)
				model = flushed.Clone()
				deleted = map[string]bool{}
				dirty = false
				if updated || recreated {
					reloadedAfter = true
				}
			} else {
				if err := applyUserImpl(o); err != nil {
					evid.Violation(t, "user-op-error", hist, "%+v returned %v", o, err)
				}
				applyUserModel(model, o)
				if o.Op == "flush" && dirty {
					flushed = model.Clone()
					dirty = false
				}
			}
			if got, want := usersOf(auth.All()), usersOfModel(model); !eq(got, want) {
				evid.Violation(t, "user-table", hist, "after %+v: table %q, reference %q", o, got, want)
			}
			for _, nme := range userNames {
				g := auth.Get(nme)
				w, ok := model.Get(nme)
				if (g != nil) != ok || (ok && userKey(refmodel.UserEntry{Name: g.Name, Password: g.Password, Admin: g.Admin, Push: g.PushAccess, Pull: g.PullAccess}) != userKey(w)) {
					evid.Violation(t, "user-get", hist, "Get(%q) = %+v, reference %+v (present=%v)", nme, g, w, ok)
				}
			}
		}
		// final: flush, then a fresh provider instance must load exactly the model
		if err := auth.Flush(); err != nil {
			evid.Violation(t, "user-flush-error", hist, "Flush: %v", err)
		}
		auth.Reset(auth.JSON)
		if got, want := usersOf(auth.All()), usersOfModel(model); !eq(got, want) {
			evid.Violation(t, "user-reload", hist, "after flush + reload: table %q, reference %q", got, want)
		}
		if updated {
			evid.Class("users: update of existing entry")
		}
		if recreated {
			evid.Class("users: delete then re-create")
		}
		if (updated || recreated) && reloadedAfter {
			evid.Class("users: mid-history reload after update/re-create")
		}
		if updated || recreated {
			evid.Nontrivial(evid.FP("u", fmt.Sprint(hist)))
			evid.Sample("user-history", hist)
		}
	})
}

func TestRouteHistories(t *testing.T) {
	evid.Checks(1500, 30000)
	dir := scratch(t)
	defer os.RemoveAll(dir)
	n := 0
	rapid.Check(t, func(t *rapid.T) {
		n++
		file := filepath.Join(dir, fmt.Sprintf("routes-%d.json", n))
		defer os.Remove(file)
		route.JSON.Configure(map[string]interface{}{"file": file})
		route.Reset(route.JSON)
		model := &refmodel.RouteTable{}
		flushed := model.Clone()
		var hist []rop
		updated, recreated := false, false
		deleted := map[string]bool{}
		dirty := false
		steps := rapid.IntRange(1, 14).Draw(t, "steps")
		for i := 0; i < steps; i++ {
			o := genRouteOp(t, false)
			hist = append(hist, o)
			evid.Eval(1)
			switch o.Op {
			case "save":
				cp := refmodel.Canon(o.Pattern)
				if _, ok := model.Get(cp); ok {
					updated = true
				} else if deleted[cp] {
					recreated = true
				}
				dirty = true
			case "del":
				if _, ok := model.Get(o.Pattern); ok {
					deleted[refmodel.Canon(o.Pattern)] = true
					dirty = true
				}
			}
			if o.Op == "reload" {
				route.Reset(route.JSON)
				model = flushed.Clone()
				deleted = map[string]bool{}
				dirty = false
			} else {
				if err := applyRouteImpl(o); err != nil {
					evid.Violation(t, "route-op-error", hist, "%+v returned %v", o, err)
				}
				applyRouteModel(model, o)
				if o.Op == "flush" && dirty {
					flushed = model.Clone()
					dirty = false
				}
			}
			if got, want := routesOf(route.All()), routesOfModel(model); !eq(got, want) {
				evid.Violation(t, "route-table", hist, "after %+v: table %q, reference %q", o, got, want)
			}
			for _, p := range routePatterns {
				g := route.Get(p)
				w, ok := model.Get(p)
				if (g != nil) != ok || (ok && (g.Pattern != w.Pattern || g.URL != w.URL || g.KeepAlive != w.KeepAlive)) {
					evid.Violation(t, "route-get", hist, "Get(%q) = %+v, reference %+v (present=%v)", p, g, w, ok)
				}
			}
		}
		if err := route.Flush(); err != nil {
			evid.Violation(t, "route-flush-error", hist, "Flush: %v", err)
		}
		route.Reset(route.JSON)
		if got, want := routesOf(route.All()), routesOfModel(model); !eq(got, want) {
			evid.Violation(t, "route-reload", hist, "after flush + reload: table %q, reference %q", got, want)
		}
		if updated {
			evid.Class("routes: update of existing entry")
		}
		if recreated {
			evid.Class("routes: delete then re-create")
		}
		if updated || recreated {
			evid.Nontrivial(evid.FP("r", fmt.Sprint(hist)))
			evid.Sample("route-history", hist)
		}
	})
}

// ---------------------------------------------------------------- crash points

type childSpec struct {
	Kind   string `json:"kind"` // users | routes
	File   string `json:"file"`
	UserOp []uop  `json:"user_ops,omitempty"`
	RoutOp []rop  `json:"route_ops,omitempty"`
}

// childMain runs in the re-executed test binary: load the table from the file,
// apply the edit, flush. With VERIF_CRASH_AT set the process kills itself at
// that crash point inside the flush.
func childMain() {
	b, err := os.ReadFile(os.Getenv("VERIF_CHILD_SPEC"))
	if err != nil {
		os.Exit(3)
	}
	var sp childSpec
	if json.Unmarshal(b, &sp) != nil {
		os.Exit(3)
	}
	armed := os.Getenv("VERIF_CRASH_ARM")
	os.Unsetenv("VERIF_CRASH_AT")
	switch sp.Kind {
	case "users":
		auth.JSON.Configure(map[string]interface{}{"file": sp.File})
		auth.Reset(auth.JSON)
		for _, o := range sp.UserOp {
			applyUserImpl(o)
		}
		os.Setenv("VERIF_CRASH_AT", armed)
		if err := auth.Flush(); err != nil {
			os.Exit(4)
		}
	case "routes":
		route.JSON.Configure(map[string]interface{}{"file": sp.File})
		route.Reset(route.JSON)
		for _, o := range sp.RoutOp {
			applyRouteImpl(o)
		}
		os.Setenv("VERIF_CRASH_AT", armed)
		if err := route.Flush(); err != nil {
			os.Exit(4)
		}
	}
	os.Exit(0)
}

type crashCase struct {
	Kind     string   `json:"kind"`
	Previous []string `json:"previous_table"`
	NoFile   bool     `json:"no_previous_file"`
	Edit     any      `json:"edit"`
	New      []string `json:"new_table"`
	Point    string   `json:"crash_point"`
	Loaded   []string `json:"loaded_after_crash,omitempty"`
	LoadErr  string   `json:"load_error,omitempty"`
	FileHex  string   `json:"file_after_crash,omitempty"`
}

func runChild(t evid.TB, specPath, point string, wrap []string) (killed bool) {
	args := append(append([]string{}, wrap...), os.Args[0], "-test.run=^$")
	cmd := exec.Command(args[0], args[1:]...)
	cmd.Env = append(os.Environ(), "VERIF_CHILD_SPEC="+specPath, "VERIF_CRASH_ARM="+point, "VERIF_STATS=")
	err := cmd.Run()
	if err == nil {
		return false
	}
	if ee, ok := err.(*exec.ExitError); ok {
		if ws, ok := ee.Sys().(syscall.WaitStatus); ok && ws.Signaled() && ws.Signal() == syscall.SIGKILL {
			return true
		}
		if len(wrap) > 0 && ee.ExitCode() == 137 {
			return true
		}
		t.Fatalf("child failed (machinery): %v", err)
	}
	t.Fatalf("child could not be started (machinery): %v", err)
	return false
}

// judge loads the file the way a restarted server would and compares with the
// previous and the new table.
func judgeUsers(t evid.TB, file string, cc *crashCase) {
	auth.JSON.Configure(map[string]interface{}{"file": file})
	us, err := auth.JSON.LoadAll()
	if err != nil {
		cc.LoadErr = err.Error()
	} else {
		cc.Loaded = usersOf(canonUsers(us))
	}
	if err == nil && (eq(cc.Loaded, cc.Previous) || eq(cc.Loaded, cc.New)) {
		return
	}
	b, _ := os.ReadFile(file)
	cc.FileHex = evid.Hex(b)
	evid.Violation(t, "crash-users", cc, "crash at %q during users flush: restart loads %q (err=%q); previous %q, new %q", cc.Point, cc.Loaded, cc.LoadErr, cc.Previous, cc.New)
}

// canonUsers mirrors what a restart does to loaded rows before they become the
// table (names are lower-cased when the table is built).
func canonUsers(us []*auth.User) []*auth.User {
	out := make([]*auth.User, len(us))
	for i, u := range us {
		c := *u
		c.Name = strings.ToLower(c.Name)
		out[i] = &c
	}
	return out
}

func judgeRoutes(t evid.TB, file string, cc *crashCase) {
	route.JSON.Configure(map[string]interface{}{"file": file})
	rs, err := route.JSON.LoadAll()
	if err != nil {
		cc.LoadErr = err.Error()
	} else {
		cc.Loaded = routesOf(rs)
	}
	if err == nil && (eq(cc.Loaded, cc.Previous) || eq(cc.Loaded, cc.New)) {
		return
	}
	b, _ := os.ReadFile(file)
	cc.FileHex = evid.Hex(b)
	evid.Violation(t, "crash-routes", cc, "crash at %q during routes flush: restart loads %q (err=%q); previous %q, new %q", cc.Point, cc.Loaded, cc.LoadErr, cc.Previous, cc.New)
}

func restore(file string, content []byte, existed bool) {
	// remove the table file and any temporaries a flush may have left beside it
	matches, _ := filepath.Glob(file + "*")
	for _, m := range matches {
		os.Remove(m)
	}
	entries, _ := os.ReadDir(filepath.Dir(file))
	for _, e := range entries {
		if strings.Contains(e.Name(), filepath.Base(file)) {
			os.Remove(filepath.Join(filepath.Dir(file), e.Name()))
		}
	}
	if existed {
		os.WriteFile(file, content, 0o644)
	}
}

func crashCampaign(t *testing.T, cases int, wrapFor func(file string, point string) ([]string, bool), points func(file string, spec string) []string, label string) {
	dir := scratch(t)
	defer os.RemoveAll(dir)
	n := 0
	evid.Checks(cases, cases)
	rapid.Check(t, func(t *rapid.T) {
		n++
		kind := rapid.SampledFrom([]string{"users", "routes"}).Draw(t, "kind")
		file := filepath.Join(dir, fmt.Sprintf("%s-%d.json", kind, n))
		spec := filepath.Join(dir, fmt.Sprintf("spec-%d.json", n))
		defer os.Remove(spec)
		defer restore(file, nil, false)
		noFile := rapid.IntRange(0, 5).Draw(t, "nofile") == 0
		cc := crashCase{Kind: kind, NoFile: noFile}
		var sp childSpec
		sp.Kind, sp.File = kind, file
		if kind == "users" {
			auth.JSON.Configure(map[string]interface{}{"file": file})
			auth.Reset(auth.JSON)
			prev := defaultUsers()
			if !noFile {
				k := rapid.IntRange(1, 6).Draw(t, "prevOps")
				for i := 0; i < k; i++ {
					o := genUserOp(t, true)
					applyUserImpl(o)
					applyUserModel(prev, o)
				}
				auth.Flush()
			}
			next := prev.Clone()
			k := rapid.IntRange(1, 4).Draw(t, "editOps")
			for i := 0; i < k; i++ {
				o := genUserOp(t, true)
				sp.UserOp = append(sp.UserOp, o)
				applyUserModel(next, o)
			}
			cc.Previous, cc.New, cc.Edit = usersOfModel(prev), usersOfModel(next), sp.UserOp
			if len(sp.UserOp) == 0 {
				t.Skip("no edit")
			}
		} else {
			route.JSON.Configure(map[string]interface{}{"file": file})
			route.Reset(route.JSON)
			prev := &refmodel.RouteTable{}
			if !noFile {
				k := rapid.IntRange(1, 6).Draw(t, "prevOps")
				for i := 0; i < k; i++ {
					o := genRouteOp(t, true)
					applyRouteImpl(o)
					applyRouteModel(prev, o)
				}
				route.Flush()
			}
			next := prev.Clone()
			k := rapid.IntRange(1, 4).Draw(t, "editOps")
			for i := 0; i < k; i++ {
				o := genRouteOp(t, true)
				sp.RoutOp = append(sp.RoutOp, o)
				applyRouteModel(next, o)
			}
			cc.Previous, cc.New, cc.Edit = routesOfModel(prev), routesOfModel(next), sp.RoutOp
		}
		content, rerr := os.ReadFile(file)
		existed := rerr == nil
		b, _ := json.Marshal(sp)
		os.WriteFile(spec, b, 0o644)
		changed := !eq(cc.Previous, cc.New)
		pts := points(file, spec)
		for i, pt := range pts {
			restore(file, content, existed)
			wrap, ok := wrapFor(file, pt)
			if !ok {
				continue
			}
			cc.Point = pt
			killed := runChild(t, spec, pt, wrap)
			evid.Eval(1)
			c2 := cc
			if kind == "users" {
				judgeUsers(t, file, &c2)
			} else {
				judgeRoutes(t, file, &c2)
			}
			if killed {
				evid.Class(label + ": child killed at " + pt)
			} else {
				evid.Class(label + ": point not reached (flush completed) " + pt)
			}
			// non-trivial: the flush changes the table and the crash point lies strictly
			// between the first and last file-system step
			if killed && changed && i > 0 && i < len(pts)-1 {
				evid.Nontrivial(evid.FP(label, kind, fmt.Sprint(cc.Previous), fmt.Sprint(cc.New), pt))
				evid.Sample(label, c2)
			}
		}
		// finally an un-crashed flush must yield exactly the new table
		restore(file, content, existed)
		runChild(t, spec, "", nil)
		c2 := cc
		c2.Point = "(none)"
		c2.Previous = cc.New // only the new table is acceptable now
		if !changed {
			c2.Previous = cc.Previous
		}
		if kind == "users" {
			judgeUsers(t, file, &c2)
		} else {
			judgeRoutes(t, file, &c2)
		}
	})
}

func TestCrashPoints(t *testing.T) {
	evid.Rule("crash points: for generated (previous table on disk | no file yet) x (edit of 1..4 operations) pairs, a re-executed child loads the file, applies the edit and flushes; it is killed (SIGKILL) at each crash point registered by utils.VerifCrashPoints in turn (after open/create, mid-write with half the bytes on disk, after write, after sync, ... whatever steps the writer has); afterwards a fresh JSON provider must load exactly the previous or exactly the new table; non-trivial = the edit changes the table and the point lies strictly between the first and last file-system step; distinct = distinct (kind, previous, new, point)")
	n := 40
	if evid.Thorough() {
		n = 600
	}
	crashCampaign(t, n,
		func(file, point string) ([]string, bool) { return nil, true },
		func(file, spec string) []string { return utils.VerifCrashPoints },
		"hook")
}

// strace-based enumeration: trace one un-injected flush, list the file-system
// calls on the table file and anything created beside it, then kill the child on
// entry to each (syscall, occurrence) in turn.
func TestCrashPointsStrace(t *testing.T) {
	if _, err := exec.LookPath("strace"); err != nil {
		evid.Note("strace not available: syscall-entry enumeration skipped")
		t.Skip("no strace")
	}
	probe := exec.Command("strace", "-f", "-o", "/dev/null", "/bin/true")
	if err := probe.Run(); err != nil {
		evid.Note("strace cannot attach in this sandbox (%v): syscall-entry enumeration skipped", err)
		t.Skip("strace unusable")
	}
	n := 6
	if evid.Thorough() {
		n = 60
	}
	calls := "openat,open,creat,write,pwrite64,fsync,fdatasync,close,rename,renameat,renameat2,unlink,unlinkat,ftruncate,link,linkat"
	crashCampaign(t, n,
		func(file, point string) ([]string, bool) {
			// point = "<syscall>#<k>"
			parts := strings.Split(point, "#")
			return []string{"strace", "-f", "-o", "/dev/null", "-P", file, "-P", file + ".tmp", "-e", "trace=" + calls,
				"-e", "inject=" + parts[0] + ":signal=KILL:when=" + parts[1]}, true
		},
		func(file, spec string) []string {
			// dry run: which calls does one flush make on the file (and its temporaries)?
			out := filepath.Join(filepath.Dir(file), "trace.txt")
			defer os.Remove(out)
			cmd := exec.Command("strace", "-f", "-o", out, "-y", "-e", "trace="+calls, os.Args[0], "-test.run=^$")
			cmd.Env = append(os.Environ(), "VERIF_CHILD_SPEC="+spec, "VERIF_CRASH_ARM=", "VERIF_STATS=")
			cmd.Run()
			b, _ := os.ReadFile(out)
			count := map[string]int{}
			var pts []string
			base := filepath.Base(file)
			for _, line := range strings.Split(string(b), "\n") {
				if !strings.Contains(line, base) {
					continue
				}
				f := strings.Fields(line)
				if len(f) < 2 {
					continue
				}
				name := f[1]
				if i := strings.Index(name, "("); i > 0 {
					name = name[:i]
				} else {
					continue
				}
				count[name]++
				pts = append(pts, fmt.Sprintf("%s#%d", name, count[name]))
			}
			return pts
		},
		"strace")
}

// An edit that arrives while a flush is doing its file I/O (the periodic flush
// runs on its own goroutine; administrators edit through the API at any time)
// must not be lost: it is either part of that flush or of the next one, and a
// restart after the next flush loads exactly the table in memory. The schedule
// is owned through the crash-point callback (utils.VerifSetIOHook): when the
// flush reaches a generated file-system step, the edit is started and given a
// grace to finish or to block on the table lock.
func TestEditDuringFlush(t *testing.T) {
	evid.Checks(250, 4000)
	dir := scratch(t)
	defer os.RemoveAll(dir)
	defer utils.VerifSetIOHook(nil)
	n := 0
	rapid.Check(t, func(t *rapid.T) {
		n++
		evid.Eval(1)
		kind := rapid.SampledFrom([]string{"users", "routes"}).Draw(t, "kind")
		file := filepath.Join(dir, fmt.Sprintf("during-%s-%d.json", kind, n))
		defer restore(file, nil, false)
		point := rapid.SampledFrom(utils.VerifCrashPoints).Draw(t, "ioPoint")
		var hist []string
		fired := make(chan struct{}, 1)
		done := make(chan struct{})
		var edit func()
		armed := false
		utils.VerifSetIOHook(func(name string) {
			if !armed || name != point {
				return
			}
			armed = false
			go func() { edit(); close(done) }()
			select {
			case <-done: // the edit finished inside the flush's I/O window
			case <-time.After(15 * time.Millisecond): // it is waiting for the flush to end: fine too
			}
			fired <- struct{}{}
		})
		var inMemory func() []string
		var reload func() []string
		var flush func() error
		if kind == "users" {
			auth.JSON.Configure(map[string]interface{}{"file": file})
			auth.Reset(auth.JSON)
			model := defaultUsers()
			for i, k := 0, rapid.IntRange(1, 4).Draw(t, "before"); i < k; i++ {
				o := genUserOp(t, true)
				applyUserImpl(o)
				applyUserModel(model, o)
				hist = append(hist, fmt.Sprintf("%+v", o))
			}
			during := genUserOp(t, true)
			hist = append(hist, fmt.Sprintf("flush; inside its I/O at %q: %+v", point, during))
			edit = func() { applyUserImpl(during) }
			applyUserModel(model, during)
			inMemory = func() []string { return usersOfModel(model) }
			flush = auth.Flush
			reload = func() []string { auth.Reset(auth.JSON); return usersOf(auth.All()) }
		} else {
			route.JSON.Configure(map[string]interface{}{"file": file})
			route.Reset(route.JSON)
			model := &refmodel.RouteTable{}
			for i, k := 0, rapid.IntRange(1, 4).Draw(t, "before"); i < k; i++ {
				o := genRouteOp(t, true)
				applyRouteImpl(o)
				applyRouteModel(model, o)
				hist = append(hist, fmt.Sprintf("%+v", o))
			}
			during := genRouteOp(t, true)
			hist = append(hist, fmt.Sprintf("flush; inside its I/O at %q: %+v", point, during))
			edit = func() { applyRouteImpl(during) }
			applyRouteModel(model, during)
			inMemory = func() []string { return routesOfModel(model) }
			flush = route.Flush
			reload = func() []string { route.Reset(route.JSON); return routesOf(route.All()) }
		}
		armed = true
		if err := flush(); err != nil {
			evid.Violation(t, "flush-error", hist, "Flush: %v", err)
		}
		select {
		case <-fired:
		default:
			// the flush had nothing to write or never reached the point: run the edit now
			armed = false
			edit()
			close(done)
		}
		<-done
		// the next flush (e.g. the one at shutdown), then a restart
		if err := flush(); err != nil {
			evid.Violation(t, "flush-error", hist, "second Flush: %v", err)
		}
		want := inMemory()
		if got := reload(); !eq(got, want) {
			evid.Violation(t, "edit-during-flush-lost", hist, "an edit made while a flush was writing (%s) is missing after the next flush + restart: loaded %q, table in memory was %q", point, got, want)
		}
		evid.Class("edit during flush I/O at " + point + " (" + kind + ")")
		evid.Nontrivial(evid.FP("during", kind, point, fmt.Sprint(hist)))
		if evid.WantSample("during-flush") {
			evid.Sample("during-flush", hist)
		}
	})
}
