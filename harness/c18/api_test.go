package c18

import (
	"bytes"
	"encoding/json"
	"fmt"
	"io"
	"net/http"
	"net/url"
	"strings"
	"testing"
	"time"

	"github.com/cnotch/ipchub/provider/auth"
	"github.com/cnotch/ipchub/provider/route"
	"pgregory.net/rapid"
	"verif/harness/lib/evid"
	"verif/harness/lib/refmodel"
	"verif/harness/lib/srv"
)

// The same histories, driven the way an administrator drives them: through the
// management API of a running server (POST / DELETE /api/v1/users and
// /api/v1/routes with the query and body conventions of the console), mixed
// with the API's read operations (paged listings, single gets). After every
// step the in-memory tables must equal the reference tables; in particular a
// read never changes anything. (What the reads return is not judged: the
// statement fixes the tables, not the API's rendering of them — the console
// API hides passwords, for instance.)
//
// The account the harness is logged in with ("root0") is outside the generated
// name alphabet, so the histories can delete every other account including the
// built-in administrator.

type apiClient struct {
	base  string
	token string
	hc    *http.Client
}

func (c *apiClient) do(method, path string, q url.Values, body any) (int, []byte, error) {
	if q == nil {
		q = url.Values{}
	}
	q.Set("token", c.token)
	var rd io.Reader
	if body != nil {
		b, _ := json.Marshal(body)
		rd = bytes.NewReader(b)
	}
	req, err := http.NewRequest(method, c.base+path+"?"+q.Encode(), rd)
	if err != nil {
		return 0, nil, err
	}
	resp, err := c.hc.Do(req)
	if err != nil {
		return 0, nil, err
	}
	defer resp.Body.Close()
	b, err := io.ReadAll(resp.Body)
	return resp.StatusCode, b, err
}

func apiLogin(t evid.TB, base string) *apiClient {
	c := &apiClient{base: base, hc: &http.Client{Timeout: 20 * time.Second}}
	b, _ := json.Marshal(map[string]string{"username": "root0", "password": "rootpw"})
	resp, err := c.hc.Post(base+"/api/v1/login", "application/json", bytes.NewReader(b))
	if err != nil {
		t.Fatalf("machinery: login: %v", err)
	}
	defer resp.Body.Close()
	var tok struct {
		AToken string `json:"access_token"`
	}
	raw, _ := io.ReadAll(resp.Body)
	if resp.StatusCode != 200 || json.Unmarshal(raw, &tok) != nil || tok.AToken == "" {
		t.Fatalf("machinery: login as root0 failed: %d %s", resp.StatusCode, raw)
	}
	c.token = tok.AToken
	return c
}

func TestHistoriesThroughAPI(t *testing.T) {
	evid.Checks(60, 1500)
	s := srv.Start(srv.Options{})
	defer func() {
		// leave the process-wide tables the way the file-based tests expect to find them
		auth.Reset(auth.JSON)
		route.Reset(route.JSON)
	}()
	rapid.Check(t, func(t *rapid.T) {
		evid.Eval(1)
		srv.ResetUsers(&auth.User{Name: "admin", Password: "admin", Admin: true}, &auth.User{Name: "root0", Password: "rootpw", Admin: true})
		srv.ResetRoutes()
		um := defaultUsers()
		um.Save(refmodel.UserEntry{Name: "root0", Password: "rootpw", Admin: true}, true)
		rm := &refmodel.RouteTable{}
		c := apiLogin(t, s.HTTP())
		var hist []string
		reads, updates, recreates := 0, 0, 0
		deleted := map[string]bool{}
		check := func(after string) {
			if got, want := usersOf(auth.All()), usersOfModel(um); !eq(got, want) {
				evid.Violation(t, "api-users-table", hist, "after %s the user table is %q, the operations applied in order give %q", after, got, want)
			}
			if got, want := routesOf(route.All()), routesOfModel(rm); !eq(got, want) {
				evid.Violation(t, "api-routes-table", hist, "after %s the route table is %q, the operations applied in order give %q", after, got, want)
			}
		}
		steps := rapid.IntRange(4, 24).Draw(t, "steps")
		for i := 0; i < steps; i++ {
			switch k := rapid.IntRange(0, 11).Draw(t, "kind"); {
			case k <= 2: // save user
				o := uop{Op: "save", Name: rapid.SampledFrom(userNames).Draw(t, "name"), Password: rapid.SampledFrom(passwords).Draw(t, "pw"),
					Admin: rapid.IntRange(0, 3).Draw(t, "admin") == 0, Push: rapid.SampledFrom(rights).Draw(t, "push"), Pull: rapid.SampledFrom(rights).Draw(t, "pull"),
					UpdatePw: rapid.Bool().Draw(t, "updpw")}
				q := url.Values{}
				if o.UpdatePw {
					q.Set("update_password", "1")
				}
				hist = append(hist, fmt.Sprintf("POST users %+v", o))
				if _, ok := um.Get(o.Name); ok {
					updates++
				} else if deleted[strings.ToLower(o.Name)] {
					recreates++
				}
				st, body, err := c.do("POST", "/api/v1/users", q, map[string]any{"name": o.Name, "password": o.Password, "admin": o.Admin, "push": o.Push, "pull": o.Pull})
				if err != nil || st != 200 {
					evid.Violation(t, "api-save-user", hist, "POST /api/v1/users %+v: status %d %s %v", o, st, body, err)
				}
				applyUserModel(um, o)
				check("the save")
			case k == 3: // delete user
				name := rapid.SampledFrom(userNames).Draw(t, "name")
				hist = append(hist, "DELETE users/"+name)
				_, had := um.Get(name)
				st, body, err := c.do("DELETE", "/api/v1/users/"+url.PathEscape(name), nil, nil)
				if err != nil || (had && st != 200) {
					evid.Violation(t, "api-del-user", hist, "DELETE /api/v1/users/%s of an existing user: status %d %s %v", name, st, body, err)
				}
				if had {
					deleted[strings.ToLower(name)] = true
				}
				um.Del(name)
				check("the delete")
			case k <= 6: // save route
				o := rop{Op: "save", Pattern: rapid.SampledFrom(routePatterns).Draw(t, "pattern"), URL: rapid.SampledFrom(routeURLs).Draw(t, "url"), KeepAlive: rapid.Bool().Draw(t, "ka")}
				hist = append(hist, fmt.Sprintf("POST routes %+v", o))
				if _, ok := rm.Get(o.Pattern); ok {
					updates++
				} else if deleted["r:"+refmodel.Canon(o.Pattern)] {
					recreates++
				}
				st, body, err := c.do("POST", "/api/v1/routes", nil, map[string]any{"pattern": o.Pattern, "url": o.URL, "keepalive": o.KeepAlive})
				if err != nil || st != 200 {
					evid.Violation(t, "api-save-route", hist, "POST /api/v1/routes %+v: status %d %s %v", o, st, body, err)
				}
				applyRouteModel(rm, o)
				check("the save")
			case k == 7: // delete route (the console appends the pattern, which starts with '/', to the collection URL)
				if len(rm.Rows) == 0 {
					continue
				}
				row := rm.Rows[rapid.IntRange(0, len(rm.Rows)-1).Draw(t, "row")]
				if row.Pattern == "/" {
					continue // not addressable below /api/v1/routes/
				}
				hist = append(hist, "DELETE routes"+row.Pattern)
				st, body, err := c.do("DELETE", "/api/v1/routes"+escapePath(row.Pattern), nil, nil)
				if strings.HasSuffix(row.Pattern, "/") && st != 200 {
					// net/http's mux may redirect or the router may not bind a trailing slash: not judged, and the model is left alone
					hist = append(hist, fmt.Sprintf("(answered %d, not judged)", st))
					check("a delete that was not accepted")
					continue
				}
				if err != nil || st != 200 {
					evid.Violation(t, "api-del-route", hist, "DELETE /api/v1/routes%s: status %d %s %v", row.Pattern, st, body, err)
				}
				deleted["r:"+row.Pattern] = true
				rm.Del(row.Pattern)
				check("the delete")
			case k == 8 || k == 9: // paged listing of users / routes, every page
				reads++
				what := "users"
				if k == 9 {
					what = "routes"
				}
				size := rapid.IntRange(1, 4).Draw(t, "pageSize")
				hist = append(hist, fmt.Sprintf("GET %s page_size=%d (all pages)", what, size))
				tokenv := ""
				for page := 0; page < 40; page++ {
					_, body, _ := c.do("GET", "/api/v1/"+what, url.Values{"page_size": {fmt.Sprint(size)}, "page_token": {tokenv}}, nil)
					var l struct {
						Next string `json:"next_page_token"`
					}
					if json.Unmarshal(body, &l) != nil || l.Next == tokenv {
						break
					}
					tokenv = l.Next
				}
				check("a listing (a read)")
			case k == 10: // single user
				reads++
				name := rapid.SampledFrom(userNames).Draw(t, "name")
				hist = append(hist, "GET users/"+name)
				c.do("GET", "/api/v1/users/"+url.PathEscape(name), nil, nil)
				check("a get (a read)")
			default: // single route
				if len(rm.Rows) == 0 {
					continue
				}
				row := rm.Rows[rapid.IntRange(0, len(rm.Rows)-1).Draw(t, "row")]
				if row.Pattern == "/" {
					continue
				}
				reads++
				hist = append(hist, "GET routes"+row.Pattern)
				c.do("GET", "/api/v1/routes"+escapePath(row.Pattern), nil, nil)
				check("a get (a read)")
			}
		}
		evid.Class("histories through the management API")
		if reads > 0 && (updates > 0 || recreates > 0) {
			evid.Nontrivial(evid.FP("api", fmt.Sprint(hist)))
			if evid.WantSample("api") {
				evid.Sample("api", hist)
			}
		}
	})
}

func escapePath(p string) string {
	parts := strings.Split(p, "/")
	for i := range parts {
		parts[i] = url.PathEscape(parts[i])
	}
	return strings.Join(parts, "/")
}

// effRight: an administrator's empty right reads as '*' (the comparison the
// table checks of this package use as well).
func effRight(r string, admin bool) string {
	if r == "" && admin {
		return "*"
	}
	return r
}
