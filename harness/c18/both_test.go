package c18

import (
	"fmt"
	"os"
	"path/filepath"
	"sync"
	"testing"
	"time"

	"github.com/cnotch/ipchub/provider/auth"
	"github.com/cnotch/ipchub/provider/route"
	"github.com/cnotch/ipchub/utils"
	"pgregory.net/rapid"
	"verif/harness/lib/evid"
	"verif/harness/lib/refmodel"
)

// The user table and the route table have a lock each and are flushed by
// different callers (the periodic job, the shutdown path, the API): nothing
// keeps a flush of one from overlapping a flush of the other. Each file must
// still end up with exactly its own table. Two schedules per case:
//
//   - owned: when the flush of one table reaches a generated file-system step
//     (utils.VerifSetIOHook), the flush of the other table runs to completion
//     inside that window (or blocks, then finishes after it);
//   - free: both flushes are started together on two goroutines, a few rounds
//     with an edit of each table between the rounds.
//
// Oracle: after the flushes a fresh provider loads from each file exactly the
// table that was in memory (reference tables), for both files.
func TestBothTablesFlushTogether(t *testing.T) {
	evid.Checks(150, 3000)
	dir := scratch(t)
	defer os.RemoveAll(dir)
	defer utils.VerifSetIOHook(nil)
	n := 0
	rapid.Check(t, func(t *rapid.T) {
		n++
		evid.Eval(1)
		ufile := filepath.Join(dir, fmt.Sprintf("both-users-%d.json", n))
		rfile := filepath.Join(dir, fmt.Sprintf("both-routes-%d.json", n))
		defer restore(ufile, nil, false)
		defer restore(rfile, nil, false)
		auth.JSON.Configure(map[string]interface{}{"file": ufile})
		auth.Reset(auth.JSON)
		route.JSON.Configure(map[string]interface{}{"file": rfile})
		route.Reset(route.JSON)
		um := defaultUsers()
		rm := &refmodel.RouteTable{}
		var hist []string
		edits := func(k int) {
			for i := 0; i < k; i++ {
				uo := genUserOp(t, true)
				applyUserImpl(uo)
				applyUserModel(um, uo)
				ro := genRouteOp(t, true)
				applyRouteImpl(ro)
				applyRouteModel(rm, ro)
				hist = append(hist, fmt.Sprintf("%+v", uo), fmt.Sprintf("%+v", ro))
			}
		}
		edits(rapid.IntRange(1, 3).Draw(t, "before"))
		mode := rapid.SampledFrom([]string{"owned", "free"}).Draw(t, "mode")
		if mode == "owned" {
			outer := rapid.SampledFrom([]string{"users", "routes"}).Draw(t, "outer")
			point := rapid.SampledFrom(utils.VerifCrashPoints).Draw(t, "ioPoint")
			hist = append(hist, fmt.Sprintf("flush %s; inside its I/O at %q: flush of the other table", outer, point))
			outerFlush, innerFlush := auth.Flush, route.Flush
			if outer == "routes" {
				outerFlush, innerFlush = route.Flush, auth.Flush
			}
			armed := true
			fired := false
			done := make(chan error, 1)
			utils.VerifSetIOHook(func(name string) {
				if !armed || name != point {
					return
				}
				armed = false // the inner flush passes the same points: do not recurse
				fired = true
				go func() { done <- innerFlush() }()
				select {
				case err := <-done:
					done <- err
				case <-time.After(15 * time.Millisecond):
				}
			})
			if err := outerFlush(); err != nil {
				evid.Violation(t, "flush-error", hist, "Flush of %s: %v", outer, err)
			}
			armed = false
			if !fired {
				go func() { done <- innerFlush() }()
			}
			if err := <-done; err != nil {
				evid.Violation(t, "flush-error", hist, "Flush of the other table: %v", err)
			}
			utils.VerifSetIOHook(nil)
			evid.Class("owned: other table flushed inside " + outer + " flush at " + point)
		} else {
			utils.VerifSetIOHook(nil)
			rounds := rapid.IntRange(1, 4).Draw(t, "rounds")
			for r := 0; r < rounds; r++ {
				var wg sync.WaitGroup
				var e1, e2 error
				start := make(chan struct{})
				wg.Add(2)
				go func() { defer wg.Done(); <-start; e1 = auth.Flush() }()
				go func() { defer wg.Done(); <-start; e2 = route.Flush() }()
				close(start)
				wg.Wait()
				if e1 != nil || e2 != nil {
					evid.Violation(t, "flush-error", hist, "concurrent flushes: users %v, routes %v", e1, e2)
				}
				hist = append(hist, "both tables flushed concurrently")
				if r+1 < rounds {
					edits(1)
				}
			}
			// what is in memory now is what the last pair of flushes wrote, unless the last
			// edits made nothing dirty; flush once more sequentially is NOT done: the
			// concurrent pair is the one under test
			evid.Class(fmt.Sprintf("free: %d concurrent flush pair(s)", rounds))
		}
		wantU, wantR := usersOfModel(um), routesOfModel(rm)
		if r := recovered(func() { auth.Reset(auth.JSON) }); r != nil {
			raw, _ := os.ReadFile(ufile)
			evid.Violation(t, "overlapping-flush-users", hist, "after overlapping flushes of the two tables the users file cannot be loaded (%v); users file: %.300s", r, raw)
		}
		if r := recovered(func() { route.Reset(route.JSON) }); r != nil {
			raw, _ := os.ReadFile(rfile)
			evid.Violation(t, "overlapping-flush-routes", hist, "after overlapping flushes of the two tables the routes file cannot be loaded (%v); routes file: %.300s", r, raw)
		}
		gotU, gotR := usersOf(auth.All()), routesOf(route.All())
		if !eq(gotU, wantU) {
			raw, _ := os.ReadFile(ufile)
			evid.Violation(t, "overlapping-flush-users", hist, "after overlapping flushes of the two tables a restart loads users %q, in memory were %q; users file: %.300s", gotU, wantU, raw)
		}
		if !eq(gotR, wantR) {
			raw, _ := os.ReadFile(rfile)
			evid.Violation(t, "overlapping-flush-routes", hist, "after overlapping flushes of the two tables a restart loads routes %q, in memory were %q; routes file: %.300s", gotR, wantR, raw)
		}
		evid.Nontrivial(evid.FP("both", mode, fmt.Sprint(hist)))
		if evid.WantSample("both-tables") {
			evid.Sample("both-tables", hist)
		}
	})
}

func recovered(f func()) (r any) {
	defer func() { r = recover() }()
	f()
	return nil
}
