package c18

import (
	"fmt"
	"os"
	"path/filepath"
	"testing"

	"github.com/cnotch/ipchub/provider/auth"
	"github.com/cnotch/ipchub/provider/route"
	"pgregory.net/rapid"
	"verif/harness/lib/evid"
	"verif/harness/lib/refmodel"
)

// A flush that FAILS (the table file's directory is unavailable for a moment:
// disk full, descriptor limit, an unmounted volume) must not lose anything: the
// edits stay pending, and the next flush that can write — the periodic one or
// the one at shutdown — persists them, whether or not further edits came in
// between. Fault injection without source cooperation: the directory that holds
// the table file is renamed away for the duration of one or two flushes.
func TestFlushFailureKeepsEditsPending(t *testing.T) {
	evid.Checks(120, 2500)
	base := scratch(t)
	defer os.RemoveAll(base)
	n := 0
	rapid.Check(t, func(t *rapid.T) {
		n++
		evid.Eval(1)
		kind := rapid.SampledFrom([]string{"users", "routes"}).Draw(t, "kind")
		dir := filepath.Join(base, fmt.Sprintf("ff-%d", n))
		away := dir + ".away"
		if err := os.MkdirAll(dir, 0o755); err != nil {
			t.Fatalf("machinery: %v", err)
		}
		defer os.RemoveAll(dir)
		defer os.RemoveAll(away)
		file := filepath.Join(dir, kind+".json")
		var hist []string
		var apply func(editOnly bool)
		var flush func() error
		var inMemory, reload func() []string
		if kind == "users" {
			auth.JSON.Configure(map[string]interface{}{"file": file})
			auth.Reset(auth.JSON)
			model := defaultUsers()
			apply = func(bool) {
				o := genUserOp(t, true)
				applyUserImpl(o)
				applyUserModel(model, o)
				hist = append(hist, fmt.Sprintf("%+v", o))
			}
			flush = auth.Flush
			inMemory = func() []string { return usersOfModel(model) }
			reload = func() []string { auth.Reset(auth.JSON); return usersOf(auth.All()) }
		} else {
			route.JSON.Configure(map[string]interface{}{"file": file})
			route.Reset(route.JSON)
			model := &refmodel.RouteTable{}
			apply = func(bool) {
				o := genRouteOp(t, true)
				applyRouteImpl(o)
				applyRouteModel(model, o)
				hist = append(hist, fmt.Sprintf("%+v", o))
			}
			flush = route.Flush
			inMemory = func() []string { return routesOfModel(model) }
			reload = func() []string { route.Reset(route.JSON); return routesOf(route.All()) }
		}
		// optionally a first, successful flush so that the failing one has a previous file to protect
		for i, k := 0, rapid.IntRange(0, 3).Draw(t, "before"); i < k; i++ {
			apply(true)
		}
		if rapid.Bool().Draw(t, "flushedBefore") {
			if err := flush(); err != nil {
				evid.Violation(t, "flush-error", hist, "Flush: %v", err)
			}
			hist = append(hist, "flush (ok)")
		}
		for i, k := 0, rapid.IntRange(1, 3).Draw(t, "edits"); i < k; i++ {
			apply(true)
		}
		// the directory goes away: 1..2 flushes fail (or have nothing to write)
		if err := os.Rename(dir, away); err != nil {
			t.Fatalf("machinery: %v", err)
		}
		failed := 0
		for i, k := 0, rapid.IntRange(1, 2).Draw(t, "failingFlushes"); i < k; i++ {
			if err := flush(); err != nil {
				failed++
			}
			hist = append(hist, "flush while the directory is unavailable")
			if rapid.IntRange(0, 2).Draw(t, "editBetween") == 0 {
				apply(true)
			}
		}
		if err := os.Rename(away, dir); err != nil {
			t.Fatalf("machinery: %v", err)
		}
		for i, k := 0, rapid.IntRange(0, 1).Draw(t, "editsAfter"); i < k; i++ {
			apply(true)
		}
		if err := flush(); err != nil {
			evid.Violation(t, "flush-error", hist, "Flush after the directory came back: %v", err)
		}
		hist = append(hist, "flush (directory back)", "restart")
		want := inMemory()
		if got := reload(); !eq(got, want) {
			evid.Violation(t, "flush-failure-loses-edits", hist, "%d flush(es) failed while the %s file's directory was unavailable; after the next successful flush and a restart the table is %q, in memory it was %q", failed, kind, got, want)
		}
		evid.Class(fmt.Sprintf("flush failed %d time(s), then succeeded (%s)", failed, kind))
		if failed > 0 {
			evid.Nontrivial(evid.FP("flushfail", kind, fmt.Sprint(hist)))
			if evid.WantSample("flush-failure") {
				evid.Sample("flush-failure", hist)
			}
		}
	})
}
