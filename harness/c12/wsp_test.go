package c12

import (
	"errors"
	"fmt"
	"io"
	"strconv"
	"strings"
	"sync"
	"time"

	"github.com/gorilla/websocket"
	"verif/harness/lib/rtspc"
)

// link is what runPlan needs from a connection; *rtspc.Client is one (TCP and
// ws-rtsp), wspLink is the WSP control + data channel pair.
type link interface {
	Build(method, url string, headers map[string]string, body []byte) []byte
	NextCSeq() int
	Send(raw []byte) error
	ReadItem() (rtspc.Item, error)
	ReadItemTimeout(d time.Duration) (rtspc.Item, error)
	Close() error
	CloseWrite() error
}

// wspLink speaks ipchub's WSP framing (service/wsp/protocol.go), written from
// the wire format the html5 player uses:
//
//	control channel (ws sub-protocol "control", text messages)
//	  C: WSP/1.1 INIT\r\nproto: rtsp\r\nhost: …\r\nport: …\r\nseq: n\r\n\r\n
//	  S: WSP/1.1 200 OK\r\nchannel: <id>\r\nseq: n\r\n\r\n
//	  C: WSP/1.1 WRAP\r\nseq: n\r\n\r\n<one RTSP request>
//	  S: WSP/1.1 200 OK\r\nchannel: <id>\r\nseq: n\r\n\r\n<one RTSP response>
//	data channel (sub-protocol "data")
//	  C: WSP/1.1 JOIN\r\nchannel: <id>\r\nseq: n\r\n\r\n      S: WSP/1.1 200 OK\r\nseq: n\r\n\r\n
//	  S: binary messages, each one '$'-framed RTP/RTCP packet
//
// The reader is strict: every control message must be exactly one WSP response
// whose seq is the oldest outstanding one and whose body is exactly one RTSP
// response (parsed by rtspc.ParseItem).
type wspLink struct {
	*rtspc.Client // only for Build / NextCSeq (never connected)
	ctl, data     *websocket.Conn
	channel       string
	seq           int
	pending       []int // outstanding WRAP seqs, oldest first
	timeout       time.Duration

	joinRetries int

	mu      sync.Mutex
	frames  int
	fresh   []rtspc.Frame
	dataErr error
}

func wspExchange(ws *websocket.Conn, msg string, timeout time.Duration) (status int, hdr map[string]string, body string, err error) {
	ws.SetWriteDeadline(time.Now().Add(timeout))
	if err = ws.WriteMessage(websocket.TextMessage, []byte(msg)); err != nil {
		return
	}
	ws.SetReadDeadline(time.Now().Add(timeout))
	_, b, err := ws.ReadMessage()
	if err != nil {
		return
	}
	return parseWSP(string(b))
}

// parseWSP splits one WSP response.
func parseWSP(s string) (status int, hdr map[string]string, body string, err error) {
	i := strings.Index(s, "\r\n\r\n")
	if i < 0 {
		return 0, nil, "", fmt.Errorf("WSP response without header end: %q", s)
	}
	head, body := s[:i], s[i+4:]
	lines := strings.Split(head, "\r\n")
	f := strings.SplitN(lines[0], " ", 3)
	if len(f) < 2 || f[0] != "WSP/1.1" {
		return 0, nil, "", fmt.Errorf("malformed WSP status line %q", lines[0])
	}
	if status, err = strconv.Atoi(f[1]); err != nil {
		return 0, nil, "", fmt.Errorf("malformed WSP status line %q", lines[0])
	}
	hdr = map[string]string{}
	for _, l := range lines[1:] {
		k := strings.IndexByte(l, ':')
		if k <= 0 {
			return 0, nil, "", fmt.Errorf("malformed WSP header line %q", l)
		}
		hdr[strings.ToLower(strings.TrimSpace(l[:k]))] = strings.TrimSpace(l[k+1:])
	}
	return status, hdr, body, nil
}

func dialWSP(wsURL string, timeout time.Duration, withData bool) (*wspLink, error) {
	d := websocket.Dialer{Subprotocols: []string{"control"}, HandshakeTimeout: timeout}
	ctl, _, err := d.Dial(wsURL, nil)
	if err != nil {
		return nil, err
	}
	l := &wspLink{Client: &rtspc.Client{UserAgent: "verif-wsp", Timeout: timeout}, ctl: ctl, timeout: timeout, seq: 1}
	st, hdr, _, err := wspExchange(ctl, "WSP/1.1 INIT\r\nproto: rtsp\r\nhost: 127.0.0.1\r\nport: 554\r\nclient: \r\nseq: 1\r\n\r\n", timeout)
	if err != nil || st != 200 || hdr["channel"] == "" || hdr["seq"] != "1" {
		ctl.Close()
		return nil, fmt.Errorf("WSP INIT: status %d headers %v err %v", st, hdr, err)
	}
	l.channel = hdr["channel"]
	if withData {
		// ipchub answers INIT before it stores the new session, so a JOIN sent right
		// away can get 404 (handshake race in service/wsp/wsp.go, outside this
		// property): retry on a fresh data connection, bounded
		var lastErr error
		for try := 0; try < 200 && l.data == nil; try++ {
			dd := websocket.Dialer{Subprotocols: []string{"data"}, HandshakeTimeout: timeout}
			data, _, err := dd.Dial(wsURL, nil)
			if err != nil {
				ctl.Close()
				return nil, err
			}
			st, hdr, _, err := wspExchange(data, "WSP/1.1 JOIN\r\nchannel: "+l.channel+"\r\nseq: 2\r\n\r\n", timeout)
			if err == nil && st == 200 && hdr["seq"] == "2" {
				l.data = data
				break
			}
			data.Close()
			lastErr = fmt.Errorf("WSP JOIN: status %d headers %v err %v", st, hdr, err)
			if st != 404 {
				break
			}
			l.joinRetries++
			time.Sleep(200 * time.Microsecond)
		}
		if l.data == nil {
			ctl.Close()
			return nil, lastErr
		}
		go l.pumpData()
	}
	return l, nil
}

func (l *wspLink) pumpData() {
	for {
		l.data.SetReadDeadline(time.Time{})
		_, b, err := l.data.ReadMessage()
		if err != nil {
			return // closed; only framing problems are remembered
		}
		l.mu.Lock()
		it, n, perr := rtspc.ParseItem(b)
		if perr != nil || n != len(b) || it.Frame == nil {
			l.dataErr = fmt.Errorf("data channel message of %d bytes is not exactly one interleaved frame (%v)", len(b), perr)
			l.mu.Unlock()
			return
		}
		l.frames++
		if len(l.fresh) < 4096 {
			l.fresh = append(l.fresh, *it.Frame)
		}
		l.mu.Unlock()
	}
}

// dataFrames returns how many frames arrived on the data channel and a
// framing problem of the data channel, if any.
func (l *wspLink) dataFrames() (int, error) {
	l.mu.Lock()
	defer l.mu.Unlock()
	return l.frames, l.dataErr
}

// takeFrames returns the frames that arrived on the data channel since the last call.
func (l *wspLink) takeFrames() []rtspc.Frame {
	l.mu.Lock()
	defer l.mu.Unlock()
	f := l.fresh
	l.fresh = nil
	return f
}

func (l *wspLink) Send(raw []byte) error {
	l.seq++
	l.pending = append(l.pending, l.seq)
	l.ctl.SetWriteDeadline(time.Now().Add(l.timeout))
	return l.ctl.WriteMessage(websocket.TextMessage, []byte("WSP/1.1 WRAP\r\ncontentLength: "+strconv.Itoa(len(raw))+"\r\nseq: "+strconv.Itoa(l.seq)+"\r\n\r\n"+string(raw)))
}

func (l *wspLink) ReadItem() (rtspc.Item, error) { return l.ReadItemTimeout(l.timeout) }

func (l *wspLink) ReadItemTimeout(d time.Duration) (rtspc.Item, error) {
	l.ctl.SetReadDeadline(time.Now().Add(d))
	_, b, err := l.ctl.ReadMessage()
	if err != nil {
		var ne interface{ Timeout() bool }
		if errors.As(err, &ne) && ne.Timeout() {
			return rtspc.Item{}, rtspc.ErrTimeout
		}
		return rtspc.Item{}, io.EOF
	}
	fe := func(what string) error {
		near := b
		if len(near) > 64 {
			near = near[:64]
		}
		return &rtspc.FramingError{What: "wsp: " + what, Near: near}
	}
	st, hdr, body, perr := parseWSP(string(b))
	if perr != nil {
		return rtspc.Item{}, fe(perr.Error())
	}
	if len(l.pending) == 0 {
		return rtspc.Item{}, fe("unsolicited WSP message")
	}
	want := l.pending[0]
	l.pending = l.pending[1:]
	if hdr["seq"] != strconv.Itoa(want) {
		return rtspc.Item{}, fe(fmt.Sprintf("WSP seq %q, oldest outstanding request has %d", hdr["seq"], want))
	}
	if st != 200 {
		return rtspc.Item{}, fe(fmt.Sprintf("WSP status %d for a WRAP", st))
	}
	if hdr["channel"] != l.channel {
		return rtspc.Item{}, fe(fmt.Sprintf("WSP channel %q, this control channel is %q", hdr["channel"], l.channel))
	}
	it, n, ierr := rtspc.ParseItem([]byte(body))
	if ierr != nil {
		return rtspc.Item{}, fe(ierr.Error())
	}
	if n != len(body) || it.Response == nil {
		return rtspc.Item{}, fe(fmt.Sprintf("WRAP response body of %d bytes is not exactly one RTSP response", len(body)))
	}
	return it, nil
}

func (l *wspLink) Close() error {
	if l.data != nil {
		l.data.Close()
	}
	return l.ctl.Close()
}

func (l *wspLink) CloseWrite() error { return nil }
