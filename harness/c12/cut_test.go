package c12

import (
	"fmt"
	"net"
	"sync"
	"sync/atomic"
	"testing"
	"time"

	"github.com/cnotch/ipchub/media"
	"github.com/cnotch/ipchub/service/rtsp"
	"verif/harness/lib/evid"
	"verif/harness/lib/rtspc"
	"verif/harness/lib/srv"
)

// "… and TEARDOWN or disconnect releases whatever the session held" — with the
// disconnect INSIDE a request, enumerated.
//
// The sequence tests disconnect after the last request has been answered. Here
// the connection is cut while request k of a legal dialogue is in flight, for
// every k of every dialogue:
//
//	play over tcp / udp / ws-rtsp (OPTIONS, DESCRIBE, SETUP video, SETUP audio, PLAY)
//	record over tcp               (OPTIONS, ANNOUNCE, SETUP video, SETUP audio, RECORD)
//
// and every way of cutting: the client writes the request and resets the
// connection at once (RST behind the request bytes: the server reads the
// request, acts on it and fails to write the answer, or sees the reset first);
// writes it and closes (FIN); and, for PLAY over tcp / udp, resets INSIDE the owned
// window "player attached, answer not written yet" (schedule point
// play.before-answer), which is the cut that lands exactly between the two.
// Media flows on the live stream all the time.
//
// Oracle (independent of the session's own idea of its state): afterwards the
// live stream has as many consumers as before the case, nothing is registered
// under the record path, and the connection counter is back. After seeded change
// C12-R6A (clean-up decided from the session's state, which the failed answer
// never advanced).
func TestDisconnectInsideEveryRequest(t *testing.T) {
	w := getWorld(t)
	if err := w.heal(); err != nil {
		t.Fatalf("machinery: %v", err)
	}
	evid.Rule("cut class: legal play dialogues over tcp / udp / ws-rtsp and the record dialogue over tcp, the connection cut while request k is in flight for every k (reset at once, close at once, and for PLAY a reset inside the owned window between attaching the player and writing the answer), media flowing; oracle: consumers of the live stream, the registry entry of the record path and the connection counter are back to their values before the case (bounded wait). Non-trivial = the cut request is SETUP, PLAY or RECORD")
	stop := make(chan struct{})
	var wg sync.WaitGroup
	wg.Add(1)
	go func() {
		defer wg.Done()
		for {
			select {
			case <-stop:
				return
			default:
			}
			w.pump(1)
			time.Sleep(200 * time.Microsecond)
		}
	}()
	defer func() { close(stop); wg.Wait() }()

	type req struct {
		method string
		hdr    map[string]string
		body   []byte
		track  int // -1: the presentation URL
	}
	var caseNo int64
	rounds := 1
	if evid.Thorough() {
		rounds = 6
	}
	for round := 0; round < rounds; round++ {
		for _, dlg := range []string{"play-tcp", "play-udp", "play-ws", "record-tcp"} {
			for k := 0; k < 5; k++ {
				for _, cut := range []string{"reset", "close", "reset-in-window"} {
					if cut == "reset-in-window" && !(k == 4 && (dlg == "play-tcp" || dlg == "play-udp")) {
						continue
					}
					n := atomic.AddInt64(&caseNo, 1)
					recPath := fmt.Sprintf("/c12/cut/rec%d", n)
					url := w.s.RTSP(pathLive)
					if dlg == "record-tcp" {
						url = w.s.RTSP(recPath)
					}
					srv.WaitFor(releaseBound, func() bool { return srv.Consumers(pathLive) == 0 })
					cons0, conns0 := srv.Consumers(pathLive), srv.RtspConns()+srv.WspConns()
					var c *rtspc.Client
					var err error
					if dlg == "play-ws" {
						c, err = retry("ws dial", func() (*rtspc.Client, error) { return rtspc.DialWS(w.s.WS(pathLive), ioBound, nil) })
					} else {
						c, err = retry("tcp dial", func() (*rtspc.Client, error) { return rtspc.Dial(w.s.Addr(), ioBound) })
					}
					if err != nil {
						t.Fatalf("machinery: %v", err)
					}
					var udps []*net.UDPConn
					transport := func(i int) string {
						switch dlg {
						case "play-udp":
							u, e := net.ListenUDP("udp4", &net.UDPAddr{IP: net.IPv4(127, 0, 0, 1)})
							if e != nil {
								return fmt.Sprintf("RTP/AVP;unicast;client_port=%d-%d", 41000+2*i, 41001+2*i)
							}
							udps = append(udps, u)
							p := u.LocalAddr().(*net.UDPAddr).Port
							return fmt.Sprintf("RTP/AVP;unicast;client_port=%d-%d", p, p+1)
						case "record-tcp":
							return fmt.Sprintf("RTP/AVP/TCP;unicast;interleaved=%d-%d;mode=record", 2*i, 2*i+1)
						}
						return fmt.Sprintf("RTP/AVP/TCP;unicast;interleaved=%d-%d", 2*i, 2*i+1)
					}
					steps := []req{{"OPTIONS", nil, nil, -1}}
					if dlg == "record-tcp" {
						steps = append(steps, req{"ANNOUNCE", map[string]string{"Content-Type": "application/sdp"}, []byte(sdpAV), -1})
					} else {
						steps = append(steps, req{"DESCRIBE", map[string]string{"Accept": "application/sdp"}, nil, -1})
					}
					steps = append(steps, req{"SETUP", nil, nil, 0}, req{"SETUP", nil, nil, 1})
					if dlg == "record-tcp" {
						steps = append(steps, req{"RECORD", map[string]string{"Range": "npt=0.000-"}, nil, -1})
					} else {
						steps = append(steps, req{"PLAY", map[string]string{"Range": "npt=0.000-"}, nil, -1})
					}
					ctl := rtspc.Controls(sdpAV)
					target := func(r req) string {
						if r.track < 0 {
							return url
						}
						return rtspc.TrackURL(url, ctl[r.track].Control)
					}
					machinery := ""
					for i := 0; i < k && machinery == ""; i++ {
						r := steps[i]
						if r.method == "SETUP" {
							r.hdr = map[string]string{"Transport": transport(r.track)}
						}
						resp, e := c.Do(r.method, target(r), r.hdr, r.body)
						if e != nil || resp.Status != 200 {
							machinery = fmt.Sprintf("step %d (%s) of the legal dialogue %s: %v %+v", i, r.method, dlg, e, resp)
						}
					}
					if machinery != "" {
						c.Close()
						// a legal dialogue refused is the sequence tests' subject; here it only voids the case
						evid.Class("cut: dialogue did not get to the cut (no verdict)")
						t.Logf("no verdict: %s", machinery)
						continue
					}
					r := steps[k]
					if r.method == "SETUP" {
						r.hdr = map[string]string{"Transport": transport(r.track)}
					}
					var fired int32
					if cut == "reset-in-window" {
						mine := c.LocalAddr().String()
						rtsp.VerifSetSched(func(point string, obj interface{}) {
							if point != "play.before-answer" || rtsp.VerifSessionAddr(obj) != mine {
								return
							}
							atomic.AddInt32(&fired, 1)
							c.Abort()
							time.Sleep(5 * time.Millisecond) // stimulus only: lets the reset reach the server's socket
						})
					}
					c.Send(c.Build(r.method, target(r), r.hdr, r.body))
					switch cut {
					case "reset":
						c.Abort()
					case "close":
						c.Close()
					case "reset-in-window":
						srv.WaitFor(ioBound, func() bool { return atomic.LoadInt32(&fired) > 0 })
						rtsp.VerifSetSched(nil)
						c.Abort()
					}
					for _, u := range udps {
						u.Close()
					}
					evid.Eval(1)
					class := fmt.Sprintf("cut: %s, %s at %s", dlg, cut, r.method)
					evid.Class(class)
					if cut == "reset-in-window" && atomic.LoadInt32(&fired) > 0 {
						evid.Class("cut: the reset landed inside the owned window before the PLAY answer")
					}
					if r.method == "SETUP" || r.method == "PLAY" || r.method == "RECORD" {
						evid.Nontrivial(evid.FP("cut", dlg, cut, k, round))
					}
					released := srv.WaitFor(releaseBound, func() bool {
						return srv.Consumers(pathLive) == cons0 && media.Get(recPath) == nil && srv.RtspConns()+srv.WspConns() == conns0
					})
					if !released {
						evid.Violation(t, "cut-release", map[string]any{"dialogue": dlg, "cut": cut, "request": r.method, "k": k},
							"%s: the connection was cut (%s) while %s was in flight; %v later: %d consumers on %s (before the case %d), %s registered: %v, RTSP+WSP connections %d (before %d)",
							dlg, cut, r.method, releaseBound, srv.Consumers(pathLive), pathLive, cons0, recPath, media.Get(recPath) != nil, srv.RtspConns()+srv.WspConns(), conns0)
					}
				}
			}
		}
	}
}
