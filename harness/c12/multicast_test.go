package c12

import (
	"sync"
	"testing"
	"time"

	"github.com/cnotch/ipchub/media"
	"verif/harness/lib/evid"
	"verif/harness/lib/rtspc"
	"verif/harness/lib/srv"
)

// A multicast player leaves, the next one arrives while the delivery goroutine
// of the proxy's previous consumption is still winding down. The window is made
// deterministic with the media schedule points: the old consumption's goroutine
// is parked at "consume.after-pop" (where it wakes up after StopConsume) until
// the second player has been answered 200, then released. Its exit path closes
// its consumer — the proxy — and before /repo's "fix: a multicast proxy ignores
// the close of a consumption it has already replaced" that stale Close stopped
// the NEW consumption and closed the new player's RTSP connection: a session in
// Playing lost what it held without TEARDOWN or disconnect, and its connection
// was no longer usable. (Seen free-running in the thorough tier under load as
// "/c12/mlive has 0 consumers, the model says 1".)
func TestMulticastPlayerAfterPlayerLeft(t *testing.T) {
	w := getWorld(t)
	st := media.Get(pathMLive)
	if st == nil {
		t.Fatalf("machinery: %s vanished", pathMLive)
	}
	srv.WaitFor(releaseBound, func() bool { return srv.Consumers(pathMLive) == 0 })

	var mu sync.Mutex
	var first interface{} // the consumption started for player A
	gate := make(chan struct{})
	parked := make(chan struct{}, 1)
	armed := false
	media.VerifSetSched(func(point string, obj interface{}) {
		if media.VerifConsumptionStream(obj) != st && point != "consume.after-pop" {
			return
		}
		mu.Lock()
		if point == "join.registered" && first == nil && media.VerifConsumptionStream(obj) == st {
			first = obj
		}
		park := point == "consume.after-pop" && armed && obj == first
		mu.Unlock()
		if park {
			select {
			case parked <- struct{}{}:
			default:
			}
			<-gate
		}
	})
	defer media.VerifSetSched(nil)
	released := false
	defer func() {
		if !released {
			close(gate)
		}
	}()

	play := func(name string) *rtspc.Client {
		c, err := retry("tcp dial", func() (*rtspc.Client, error) { return rtspc.Dial(w.s.Addr(), ioBound) })
		if err != nil {
			t.Fatalf("machinery: %v", err)
		}
		steps := []struct {
			m, u string
			h    map[string]string
		}{
			{"DESCRIBE", w.s.RTSP(pathMLive), nil},
			{"SETUP", w.s.RTSP(pathMLive) + "/streamid=0", map[string]string{"Transport": "RTP/AVP;multicast"}},
			{"PLAY", w.s.RTSP(pathMLive), nil},
		}
		for _, s := range steps {
			r, err := c.Do(s.m, s.u, s.h, nil)
			if err != nil || r.Status != 200 {
				evid.Violation(t, "multicast-dialogue", name, "player %s: %s on the multicast-capable stream: %v %+v", name, s.m, err, r)
			}
		}
		return c
	}

	a := play("A")
	if !srv.WaitFor(releaseBound, func() bool { return srv.Consumers(pathMLive) == 1 }) {
		evid.Violation(t, "multicast-consumers", "A", "player A is playing, %s has %d consumers", pathMLive, srv.Consumers(pathMLive))
	}
	mu.Lock()
	armed = first != nil
	mu.Unlock()
	if !armed {
		t.Fatalf("machinery: the schedule point join.registered did not report player A's consumption")
	}
	if r, err := a.Do("TEARDOWN", w.s.RTSP(pathMLive), nil, nil); err != nil || r.Status != 200 {
		evid.Violation(t, "multicast-teardown", "A", "TEARDOWN of player A: %v %+v", err, r)
	}
	a.Close()
	select {
	case <-parked: // the old delivery goroutine woke up and is held in front of its exit path
	case <-time.After(releaseBound):
		t.Fatalf("machinery: the old consumption's goroutine did not reach consume.after-pop")
	}
	if !srv.WaitFor(releaseBound, func() bool { return srv.Consumers(pathMLive) == 0 }) {
		evid.Violation(t, "multicast-release", "A", "player A left, %s still has %d consumers", pathMLive, srv.Consumers(pathMLive))
	}

	b := play("B")
	defer b.Close()
	if !srv.WaitFor(releaseBound, func() bool { return srv.Consumers(pathMLive) == 1 }) {
		evid.Violation(t, "multicast-consumers", "B", "player B is playing, %s has %d consumers", pathMLive, srv.Consumers(pathMLive))
	}
	released = true
	close(gate) // now the old goroutine runs its exit path
	// it is gone when the schedule point sees no more of it; give it the chance to do harm,
	// then look at the state (state-based: B must still be attached and answering)
	media.VerifSetSched(nil)
	for i := 0; i < 50; i++ {
		r, err := b.Do("OPTIONS", w.s.RTSP(pathMLive), nil, nil)
		if err != nil || r.Status != 200 {
			evid.Violation(t, "multicast-stale-close", i, "player B is playing; after the previous consumption of the proxy wound down its connection is dead: %v", err)
		}
		if n := srv.Consumers(pathMLive); n != 1 {
			evid.Violation(t, "multicast-stale-close", i, "player B is playing and answering, but %s has %d consumers after the previous consumption of the proxy wound down", pathMLive, n)
		}
		time.Sleep(2 * time.Millisecond)
	}
	evid.Eval(1)
	evid.Class("window: multicast player joins while the proxy's previous consumption winds down")
	b.Close()
	srv.WaitFor(releaseBound, func() bool { return srv.Consumers(pathMLive) == 0 })
}
