package c12

import "testing"

// Validation anchor of the reference automaton: the server state machine table
// of RFC 2326 Appendix A.2, reproduced row by row. Every listed (state, message)
// pair must be legal in the model (not judged 455-only) and lead to the listed
// next state when answered 2xx; and the statement's own rules (PLAY / RECORD
// before SETUP, in the wrong kind of session) must come out as 455.
func TestModelMatchesRFCStateTable(t *testing.T) {
	e := &env{Live: map[string]bool{"/l": true}, Multicast: map[string]bool{}}
	// bring a fresh model into a state through the legal dialogue
	reach := func(target mstate, mode string) *model {
		m := newModel("")
		do := func(s step) {
			x := m.expect(e, &s)
			if p, take := x.judge(200); p != "" || !take {
				t.Fatalf("legal dialogue step %+v rejected by the model: %s", s, p)
			} else if x.apply != nil {
				x.apply(m)
			}
		}
		if target == stInit && mode == "" {
			return m
		}
		if mode == "play" {
			do(step{Method: "DESCRIBE", Path: "/l"})
		} else {
			do(step{Method: "ANNOUNCE", Path: "/p", SDP: "valid"})
		}
		if target == stInit {
			return m
		}
		do(step{Method: "SETUP", Path: m.Path, Track: "video", Trans: "tcp", Mode: mode})
		if target == stPlaying {
			do(step{Method: "PLAY", Path: m.Path})
		}
		if target == stRecording {
			do(step{Method: "RECORD", Path: m.Path})
		}
		if m.St != target {
			t.Fatalf("model reached %v, want %v", m.St, target)
		}
		return m
	}
	rows := []struct {
		from mstate
		mode string
		msg  string
		next mstate
	}{
		// RFC 2326 A.2
		{stInit, "play", "SETUP", stReady}, {stInit, "record", "SETUP", stReady}, {stInit, "", "TEARDOWN", stInit},
		{stReady, "play", "PLAY", stPlaying}, {stReady, "play", "SETUP", stReady}, {stReady, "play", "TEARDOWN", stInit}, {stReady, "record", "RECORD", stRecording},
		{stPlaying, "play", "PLAY", stPlaying}, {stPlaying, "play", "PAUSE", stReady}, {stPlaying, "play", "TEARDOWN", stInit}, {stPlaying, "play", "SETUP", stPlaying},
		{stRecording, "record", "RECORD", stRecording}, {stRecording, "record", "PAUSE", stReady}, {stRecording, "record", "TEARDOWN", stInit}, {stRecording, "record", "SETUP", stRecording},
	}
	for _, r := range rows {
		m := reach(r.from, r.mode)
		s := step{Method: r.msg, Path: m.Path, Track: "video", Trans: "tcp", Mode: r.mode}
		x := m.expect(e, &s)
		if x.Kind == expIllegal || x.Kind == expRefuse {
			t.Fatalf("A.2 row %v --%s--> %v: the model refuses it (%s)", r.from, r.msg, r.next, x.Why)
		}
		if p, take := x.judge(200); p != "" {
			t.Fatalf("A.2 row %v --%s--> %v: a 200 is judged wrong: %s", r.from, r.msg, r.next, p)
		} else if take && x.apply != nil {
			x.apply(m)
		}
		if m.St != r.next {
			t.Fatalf("A.2 row %v --%s-->: model goes to %v, RFC says %v", r.from, r.msg, m.St, r.next)
		}
	}
	// the statement's order rules
	illegal := []struct {
		from mstate
		mode string
		msg  string
	}{
		{stInit, "", "PLAY"}, {stInit, "", "RECORD"}, {stInit, "play", "PLAY"}, {stInit, "record", "RECORD"},
		{stReady, "record", "PLAY"}, {stReady, "play", "RECORD"}, {stPlaying, "play", "RECORD"}, {stRecording, "record", "PLAY"},
	}
	for _, r := range illegal {
		m := reach(r.from, r.mode)
		before := m.String()
		s := step{Method: r.msg, Path: m.Path}
		x := m.expect(e, &s)
		if x.Kind != expIllegal {
			t.Fatalf("%s in %s must be 455-only, model says %v (%s)", r.msg, before, x.Kind, x.Why)
		}
		if p, _ := x.judge(455); p != "" {
			t.Fatal(p)
		}
		if p, _ := x.judge(200); p == "" {
			t.Fatalf("%s in %s: a 200 passes the model", r.msg, before)
		}
		if m.String() != before {
			t.Fatal("judging changed the model")
		}
	}
}
