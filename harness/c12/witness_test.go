package c12

import (
	"os"
	"sort"
	"testing"

	"verif/harness/lib/evid"
)

// Fixed plans: minimal witnesses of defects this check found (now repaired in
// /repo — they stay as regression cases) and the canonical legal dialogues.
// Each runs through the same runPlan / reference automaton as the rapid cases.
var fixedPlans = map[string]plan{
	// a PLAY received while playing was swallowed: no response at all
	"play-while-playing": {Transport: "tcp", End: "close", Steps: []step{
		{Method: "DESCRIBE", PathSym: "live"},
		{Method: "SETUP", PathSym: "live", Track: "video", Trans: "tcp"},
		{Method: "PLAY", PathSym: "live"},
		{Method: "PLAY", PathSym: "live"},
		{Method: "OPTIONS", PathSym: "live"},
	}},
	"record-while-recording": {Transport: "tcp", End: "close", Steps: []step{
		{Method: "ANNOUNCE", PathSym: "pub", SDP: "valid"},
		{Method: "SETUP", PathSym: "pub", Track: "video", Trans: "tcp", Mode: "record", ModeText: "mode=record"},
		{Method: "SETUP", PathSym: "pub", Track: "audio", Trans: "tcp", Mode: "record", ModeText: "mode=record"},
		{Method: "RECORD", PathSym: "pub"},
		{Method: "RECORD", PathSym: "pub"},
		{Method: "PLAY", PathSym: "pub"},
		{Method: "TEARDOWN", PathSym: "pub"},
	}},
	// refused requests used to leave their half-applied changes in the session
	"refused-describe-keeps-path": {Transport: "tcp", End: "close", Steps: []step{
		{Method: "DESCRIBE", PathSym: "live"},
		{Method: "DESCRIBE", PathSym: "missing"},
		{Method: "SETUP", PathSym: "live", Track: "video", Trans: "tcp"},
		{Method: "PLAY", PathSym: "live"},
	}},
	"refused-setup-keeps-mode": {Transport: "tcp", End: "close", Steps: []step{
		{Method: "DESCRIBE", PathSym: "live"},
		{Method: "SETUP", PathSym: "live", Track: "video", Trans: "tcp"},
		{Method: "SETUP", PathSym: "live", Track: "audio", Trans: "tcp", Mode: "record", ModeText: "mode=record"},
		{Method: "SETUP", PathSym: "live", Track: "audio", Trans: "tcp"},
		{Method: "PLAY", PathSym: "live"},
	}},
	"refused-setup-keeps-transport-type": {Transport: "tcp", End: "close", CheckFrames: true, Steps: []step{
		{Method: "DESCRIBE", PathSym: "live"},
		{Method: "SETUP", PathSym: "live", Track: "video", Trans: "tcp"},
		{Method: "SETUP", PathSym: "live", Track: "audio", Trans: "mcast"},
		{Method: "PLAY", PathSym: "live"},
	}},
	// D16 (a corrected false alarm of the channel oracle, found at VERIF_SEED=11): every SETUP here is
	// ACCEPTED; the video track is then played on the channel of its earlier accepted tcp SETUP
	"accepted-resetup-tcp-udp-then-tcp-session": {Transport: "tcp", End: "close", CheckFrames: true, Steps: []step{
		{Method: "DESCRIBE", PathSym: "live"},
		{Method: "SETUP", PathSym: "live", Track: "video", Trans: "tcp"},
		{Method: "SETUP", PathSym: "live", Track: "video", Trans: "udp"},
		{Method: "SETUP", PathSym: "live", Track: "audio", Trans: "tcp"},
		{Method: "PLAY", PathSym: "live"},
		{Method: "OPTIONS", PathSym: "live"},
		{Method: "OPTIONS", PathSym: "live"},
	}},
	"refused-record-setup-keeps-transport-type": {Transport: "tcp", End: "close", Steps: []step{
		{Method: "ANNOUNCE", PathSym: "pub", SDP: "valid"},
		{Method: "SETUP", PathSym: "pub", Track: "video", Trans: "tcp", Mode: "record", ModeText: "mode=record"},
		{Method: "SETUP", PathSym: "pub", Track: "audio", Trans: "udp", Mode: "record", ModeText: "mode=record"},
		{Method: "RECORD", PathSym: "pub"},
	}},
	"refused-announce-keeps-description": {Transport: "tcp", End: "close", Steps: []step{
		{Method: "ANNOUNCE", PathSym: "pub", SDP: "valid"},
		{Method: "ANNOUNCE", PathSym: "pub2", SDP: "garbage"},
		{Method: "SETUP", PathSym: "pub", Track: "video", Trans: "tcp", Mode: "record", ModeText: "mode=record"},
		{Method: "RECORD", PathSym: "pub"},
	}},
	"new-description-drops-old-tracks": {Transport: "tcp", End: "close", Steps: []step{
		{Method: "DESCRIBE", PathSym: "live"},
		{Method: "ANNOUNCE", PathSym: "pub", SDP: "videoonly"},
		{Method: "SETUP", PathSym: "pub", Track: "audio", Trans: "tcp", Mode: "record", ModeText: "mode=record"},
	}},
	"record-mode-rfc-spelling": {Transport: "tcp", End: "close", Steps: []step{
		{Method: "ANNOUNCE", PathSym: "pub", SDP: "valid"},
		{Method: "SETUP", PathSym: "pub", Track: "video", Trans: "tcp", Mode: "record", ModeText: "mode=\"RECORD\""},
		{Method: "RECORD", PathSym: "pub"},
	}},
	"legal-play-ws": {Transport: "ws", WSPathSym: "live", End: "close", CheckFrames: true, Steps: []step{
		{Method: "OPTIONS", PathSym: "live"},
		{Method: "DESCRIBE", PathSym: "live"},
		{Method: "SETUP", PathSym: "live", Track: "video", Trans: "tcp"},
		{Method: "SETUP", PathSym: "live", Track: "audio", Trans: "tcp"},
		{Method: "PLAY", PathSym: "live"},
		{Method: "GET_PARAMETER", PathSym: "live"},
		{Method: "PLAY", PathSym: "live"},
	}},
	// WSP had the same defect as service/rtsp: a refused SETUP(mode=record) poisoned later SETUPs
	"wsp-refused-setup-keeps-mode": {Transport: "wsp", WSPathSym: "live", End: "close", Steps: []step{
		{Method: "DESCRIBE", PathSym: "live"},
		{Method: "SETUP", PathSym: "live", Track: "video", Trans: "tcp", Mode: "record", ModeText: "mode=record"},
		{Method: "SETUP", PathSym: "live", Track: "video", Trans: "tcp"},
		{Method: "PLAY", PathSym: "live"},
	}},
	// a refused SETUP whose URI carries escaped CR LF must still be answered by one well-formed response
	"setup-unknown-control-with-escaped-crlf": {Transport: "tcp", End: "close", Steps: []step{
		{Method: "DESCRIBE", PathSym: "live"},
		{Method: "SETUP", PathSym: "live", Track: "video", Trans: "tcp", Deco: "%0D%0A%0D%0ARTSP/1.0%20200%20OK", DecoAt: "control"},
		{Method: "SETUP", PathSym: "live", Track: "video", Trans: "tcp", Deco: "%0D%0ACSeq:%2099", DecoAt: "query"},
		{Method: "SETUP", PathSym: "live", Track: "video", Trans: "tcp", HdrDeco: "transport"},
		{Method: "PLAY", PathSym: "live", HdrDeco: "range", Deco: "%0D%0A", DecoAt: "segment"},
	}},
	"setup-unknown-control-with-escaped-crlf-ws": {Transport: "ws", WSPathSym: "live", End: "close", Steps: []step{
		{Method: "DESCRIBE", PathSym: "live"},
		{Method: "SETUP", PathSym: "live", Track: "video", Trans: "tcp", Deco: "%0D%0A%0D%0A", DecoAt: "control"},
		{Method: "OPTIONS", PathSym: "live", Deco: "%0D%0A", DecoAt: "segment"},
	}},
	"setup-unknown-control-with-escaped-crlf-wsp": {Transport: "wsp", WSPathSym: "live", End: "close", Steps: []step{
		{Method: "DESCRIBE", PathSym: "live"},
		{Method: "SETUP", PathSym: "live", Track: "audio", Trans: "tcp", Deco: "%0D%0A%0D%0A", DecoAt: "control"},
		{Method: "SETUP", PathSym: "live", Track: "video", Trans: "tcp"},
		{Method: "PLAY", PathSym: "live"},
	}},
	// a refused SETUP announces its own channels; media keeps using what the accepted one negotiated
	"refused-setup-keeps-channels-play": {Transport: "tcp", End: "close", CheckFrames: true, Steps: []step{
		{Method: "DESCRIBE", PathSym: "live"},
		{Method: "SETUP", PathSym: "live", Track: "video", Trans: "tcp"},
		{Method: "SETUP", PathSym: "live", Track: "video", Trans: "tcp", Mode: "record", ModeText: "mode=record"},
		{Method: "SETUP", PathSym: "live", Track: "video", Trans: "tcp", Malformed: "badafterinterleaved"},
		{Method: "PLAY", PathSym: "live"},
		{Method: "OPTIONS", PathSym: "live"},
	}},
	"refused-setup-keeps-channels-record": {Transport: "tcp", End: "close", Steps: []step{
		{Method: "ANNOUNCE", PathSym: "pub", SDP: "valid"},
		{Method: "SETUP", PathSym: "pub", Track: "video", Trans: "tcp", Mode: "record", ModeText: "mode=record"},
		{Method: "SETUP", PathSym: "pub", Track: "video", Trans: "tcp", Mode: "play", ModeText: "mode=play"},
		{Method: "RECORD", PathSym: "pub"},
	}},
	"refused-setup-keeps-channels-wsp": {Transport: "wsp", WSPathSym: "live", WSPData: true, End: "close", CheckFrames: true, Steps: []step{
		{Method: "DESCRIBE", PathSym: "live"},
		{Method: "SETUP", PathSym: "live", Track: "video", Trans: "tcp"},
		{Method: "SETUP", PathSym: "live", Track: "video", Trans: "tcp", Mode: "record", ModeText: "mode=record"},
		{Method: "PLAY", PathSym: "live"},
		{Method: "OPTIONS", PathSym: "live"},
	}},
	"refused-setup-keeps-port-udp": {Transport: "tcp", End: "close", CheckFrames: true, Steps: []step{
		{Method: "DESCRIBE", PathSym: "live"},
		{Method: "SETUP", PathSym: "live", Track: "video", Trans: "udp"},
		{Method: "SETUP", PathSym: "live", Track: "video", Trans: "udp", Mode: "record", ModeText: "mode=record"},
		{Method: "PLAY", PathSym: "live"},
		{Method: "OPTIONS", PathSym: "live"},
	}},
	"legal-play-wsp": {Transport: "wsp", WSPathSym: "live", WSPData: true, End: "close", CheckFrames: true, Steps: []step{
		{Method: "OPTIONS", PathSym: "live"},
		{Method: "DESCRIBE", PathSym: "live"},
		{Method: "ANNOUNCE", PathSym: "pub", SDP: "valid"},
		{Method: "SETUP", PathSym: "live", Track: "video", Trans: "tcp"},
		{Method: "SETUP", PathSym: "live", Track: "audio", Trans: "tcp"},
		{Method: "RECORD", PathSym: "live"},
		{Method: "PLAY", PathSym: "live"},
		{Method: "PLAY", PathSym: "live"},
		{Method: "PAUSE", PathSym: "live"},
		{Method: "PLAY", PathSym: "live"},
		{Method: "TEARDOWN", PathSym: "live"},
	}},
	"legal-play-udp-then-teardown": {Transport: "tcp", End: "close", Steps: []step{
		{Method: "DESCRIBE", PathSym: "live"},
		{Method: "SETUP", PathSym: "live", Track: "video", Trans: "udp"},
		{Method: "RECORD", PathSym: "live"},
		{Method: "PLAY", PathSym: "live"},
		{Method: "SETUP", PathSym: "live", Track: "audio", Trans: "udp"},
		{Method: "TEARDOWN", PathSym: "live"},
	}},
	"legal-play-multicast": {Transport: "tcp", End: "halfclose", Steps: []step{
		{Method: "DESCRIBE", PathSym: "mlive"},
		{Method: "SETUP", PathSym: "mlive", Track: "video", Trans: "mcast"},
		{Method: "PLAY", PathSym: "mlive"},
		{Method: "PAUSE", PathSym: "mlive"},
	}},
}

func TestFixedPlans(t *testing.T) {
	w := getWorld(t)
	names := make([]string, 0, len(fixedPlans))
	for name := range fixedPlans {
		names = append(names, name)
	}
	sort.Strings(names)
	for _, name := range names {
		p := fixedPlans[name]
		out, rep, fail, err := w.runPlan(&p)
		if err != nil {
			t.Fatalf("%s: %v", name, err)
		}
		if fail != nil {
			if os.Getenv("C12_ALL_FIXED") != "" { // development aid: list every failing plan
				t.Errorf("fixed plan %s: %s: %s", name, fail.check, fail.msg)
				continue
			}
			evid.Violation(t, "fixed-"+name+"-"+fail.check, rep, "fixed plan %s: %s", name, fail.msg)
		}
		record(&p, out)
		evid.Class("fixed plan " + name)
	}
}
