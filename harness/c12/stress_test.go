package c12

import (
	"fmt"
	"sync"
	"testing"
	"time"

	"github.com/cnotch/ipchub/av/format/rtp"
	"github.com/cnotch/ipchub/media"
	"github.com/gorilla/websocket"
	"verif/harness/lib/evid"
	"verif/harness/lib/rtppack"
	"verif/harness/lib/rtspc"
	"verif/harness/lib/srv"
)

// TEARDOWN while media is flowing, many times: the session goroutine tears the
// session down while the delivery goroutine is inside tcpConsumer.Consume.
// Before /repo's "fix: the RTSP session keeps its connection reference …" the
// teardown set s.conn = nil under the delivery goroutine's feet and 3–10 % of
// these session ends logged a recovered nil-pointer panic ("consume routine
// panic"); the statement's own claim — everything is released — is checked too.
// Free-running (not schedulable from outside), so the counts are the evidence.
func TestTeardownWhileMediaFlows(t *testing.T) {
	w := getWorld(t)
	n := 300
	if evid.Thorough() {
		n = 1500
	}
	srv.WaitFor(2*time.Second, func() bool { return srv.Consumers(pathLive) == 0 })
	conns0 := srv.RtspConns()
	stop := make(chan struct{})
	var wg sync.WaitGroup
	wg.Add(1)
	go func() {
		defer wg.Done()
		for {
			select {
			case <-stop:
				return
			default:
			}
			w.pump(1)
		}
	}()
	defer func() { close(stop); wg.Wait() }()
	sp0, cp0 := w.s.LogCount("session panic"), w.s.LogCount("consume routine panic")
	for i := 0; i < n; i++ {
		c, err := retry("tcp dial", func() (*rtspc.Client, error) { return rtspc.Dial(w.s.Addr(), ioBound) })
		if err != nil {
			t.Fatalf("machinery: %v", err)
		}
		if _, err := c.Play(w.s.RTSP(pathLive)); err != nil {
			c.Close()
			evid.Violation(t, "stress-play", i, "legal play dialogue refused in round %d: %v", i, err)
		}
		if i%3 == 2 {
			c.Close() // plain disconnect
		} else {
			r, err := c.Do("TEARDOWN", w.s.RTSP(pathLive), nil, nil)
			if err != nil || r.Status != 200 {
				c.Close()
				evid.Violation(t, "stress-teardown", i, "TEARDOWN while playing in round %d: %v %+v", i, err, r)
			}
			c.Close()
		}
		evid.Eval(1)
	}
	if !srv.WaitFor(releaseBound, func() bool { return srv.Consumers(pathLive) == 0 && srv.RtspConns() == conns0 }) {
		evid.Violation(t, "stress-release", n, "after %d play sessions ended: %d consumers left on %s, RtspConns %d (before %d)", n, srv.Consumers(pathLive), pathLive, srv.RtspConns(), conns0)
	}
	if d := w.s.LogCount("session panic") - sp0; d != 0 {
		evid.Violation(t, "stress-session-panic", d, "%d RTSP session goroutines panicked:\n%s", d, tail(w.s.Logs(), 1500))
	}
	if d := w.s.LogCount("consume routine panic") - cp0; d != 0 {
		// beyond the statement (the panic is recovered and everything is released): reported, not judged
		evid.ClassN("observation: recovered panic in the delivery goroutine at session end", d)
		evid.Note("TestTeardownWhileMediaFlows: %d of %d session ends logged a recovered 'consume routine panic'", d, n)
		t.Logf("observation: %d of %d session ends logged a recovered 'consume routine panic'", d, n)
	}
	evid.ClassN("stress: play session ended while media flows", int64(n))
}

// INIT on the control channel, then JOIN on an already open data channel the
// moment the channel id is known. Before /repo's "fix: a WSP session is
// registered before its INIT is answered" about 2 % of the JOINs got 404. The
// handshake is not an RTSP request, so this stays an observation (counted in the
// evidence, never a verdict).
func TestWSPJoinRightAfterInit(t *testing.T) {
	w := getWorld(t)
	n, miss := 200, 0
	if evid.Thorough() {
		n = 1000
	}
	for i := 0; i < n; i++ {
		url := w.s.WS(pathLive)
		ctl, err := retry("ws dial", func() (*websocket.Conn, error) {
			c, _, e := (&websocket.Dialer{Subprotocols: []string{"control"}, HandshakeTimeout: ioBound}).Dial(url, nil)
			return c, e
		})
		if err != nil {
			t.Fatalf("machinery: %v", err)
		}
		data, err := retry("ws dial", func() (*websocket.Conn, error) {
			c, _, e := (&websocket.Dialer{Subprotocols: []string{"data"}, HandshakeTimeout: ioBound}).Dial(url, nil)
			return c, e
		})
		if err != nil {
			ctl.Close()
			t.Fatalf("machinery: %v", err)
		}
		st, hdr, _, err := wspExchange(ctl, "WSP/1.1 INIT\r\nproto: rtsp\r\nhost: h\r\nport: 554\r\nseq: 1\r\n\r\n", ioBound)
		if err == nil && st == 200 {
			st, _, _, err = wspExchange(data, "WSP/1.1 JOIN\r\nchannel: "+hdr["channel"]+"\r\nseq: 2\r\n\r\n", ioBound)
			if err == nil && st == 404 {
				miss++
			}
		}
		ctl.Close()
		data.Close()
		evid.Eval(1)
	}
	evid.ClassN("wsp: JOIN right after INIT", int64(n))
	if miss > 0 {
		evid.ClassN("observation: wsp JOIN right after INIT answered 404", int64(miss))
		evid.Note("TestWSPJoinRightAfterInit: %d of %d JOINs sent right after INIT were answered 404", miss, n)
		t.Logf("observation: %d of %d JOINs sent right after INIT were answered 404", miss, n)
	}
	srv.WaitFor(releaseBound, func() bool { return srv.WspConns() == 0 })
}

// A TCP player that has stopped reading: small SO_RCVBUF, the client's reader
// held, the publisher floods until the delivery goroutine is blocked in its
// write to the full socket (state-based: between two flood batches nothing was
// handed to the consumer and its backlog is not empty). Then the session ends in
// one of the ways the statement names — the client half-closes (FIN, socket kept
// open), sends TEARDOWN without reading and closes, closes, or resets — and
// whatever the session held must be released: consumer count and RTSP
// connection counter back at their prior values within a generous bound.
func TestStalledPlayerIsReleased(t *testing.T) {
	w := getWorld(t)
	if err := w.heal(); err != nil {
		t.Fatalf("machinery: %v", err)
	}
	evid.Rule("stalled players: TCP player with SO_RCVBUF 4 KiB that stops reading, flood until the server's delivery goroutine is blocked in write, then half-close / TEARDOWN+close / close / reset; oracle: consumers and RtspConns back to baseline (bounded polling). Non-trivial = the writer was observed blocked")
	payload := make([]byte, 1400)
	payload[0] = 0x41
	seq := uint16(0)
	flood := func(n int) {
		for i := 0; i < n; i++ {
			seq++
			pk := rtppack.Sequence([][]byte{payload}, true, 96, uint32(seq)*3000, seq, 0xF100D)[0].Marshal()
			w.live.WriteRtpPacket(rtppack.ToIpchub(rtp.ChannelVideo, pk))
		}
	}
	rounds := 1
	if evid.Thorough() {
		rounds = 4
	}
	for r := 0; r < rounds; r++ {
		for _, end := range []string{"halfclose", "teardown-then-close", "close", "reset"} {
			srv.WaitFor(releaseBound, func() bool { return srv.Consumers(pathLive) == 0 })
			conns0 := srv.RtspConns()
			var mu sync.Mutex
			var cid media.CID
			have := false
			media.VerifSetSched(func(point string, obj interface{}) {
				if point == "join.registered" && media.VerifConsumptionStream(obj) == w.live {
					if id, ok := media.VerifConsumptionCID(obj); ok {
						mu.Lock()
						cid, have = id, true
						mu.Unlock()
					}
				}
			})
			c, err := retry("tcp dial", func() (*rtspc.Client, error) { return rtspc.DialRcvBuf(w.s.Addr(), ioBound, 4096) })
			if err != nil {
				media.VerifSetSched(nil)
				t.Fatalf("machinery: %v", err)
			}
			_, err = c.Play(w.s.RTSP(pathLive))
			media.VerifSetSched(nil)
			if err != nil {
				c.Close()
				evid.Violation(t, "stalled-play", end, "legal play dialogue refused: %v", err)
			}
			mu.Lock()
			id, ok := cid, have
			mu.Unlock()
			c.StopReading()
			blocked := false
			if ok {
				_, lastOut, _ := media.VerifFlow(w.live, id)
				for batch := 0; batch < 60 && !blocked; batch++ {
					flood(1000)
					_, out, found := media.VerifFlow(w.live, id)
					blocked = found && out == lastOut && media.VerifQueueLen(w.live, id) > 0
					lastOut = out
				}
			}
			switch end {
			case "halfclose":
				c.CloseWrite() // FIN; the socket stays open and unread
			case "teardown-then-close":
				c.Send(c.Build("TEARDOWN", w.s.RTSP(pathLive), nil, nil))
				c.Close()
			case "close":
				c.Close()
			case "reset":
				c.Abort()
			}
			released := srv.WaitFor(releaseBound, func() bool { return srv.Consumers(pathLive) == 0 && srv.RtspConns() == conns0 })
			evid.Eval(1)
			evid.Class(fmt.Sprintf("stalled player ended by %s (writer blocked: %v)", end, blocked))
			if blocked {
				evid.Nontrivial(evid.FP("stalled", end, r))
			}
			if !released {
				n, k := srv.Consumers(pathLive), srv.RtspConns()
				c.Close()
				evid.Violation(t, "stalled-release", end, "a TCP player that had stopped reading (writer blocked: %v) ended by %s: %d consumers left on %s, RtspConns %d (before the session %d) after %v", blocked, end, n, pathLive, k, conns0, releaseBound)
			}
			c.Close()
		}
	}
}
