package c12

import (
	"sync"
	"testing"
	"time"

	"github.com/gorilla/websocket"
	"verif/harness/lib/evid"
	"verif/harness/lib/rtspc"
	"verif/harness/lib/srv"
)

// TEARDOWN while media is flowing, many times: the session goroutine tears the
// session down while the delivery goroutine is inside tcpConsumer.Consume.
// Before /repo's "fix: the RTSP session keeps its connection reference …" the
// teardown set s.conn = nil under the delivery goroutine's feet and 3–10 % of
// these session ends logged a recovered nil-pointer panic ("consume routine
// panic"); the statement's own claim — everything is released — is checked too.
// Free-running (not schedulable from outside), so the counts are the evidence.
func TestTeardownWhileMediaFlows(t *testing.T) {
	w := getWorld(t)
	n := 300
	if evid.Thorough() {
		n = 1500
	}
	srv.WaitFor(2*time.Second, func() bool { return srv.Consumers(pathLive) == 0 })
	conns0 := srv.RtspConns()
	stop := make(chan struct{})
	var wg sync.WaitGroup
	wg.Add(1)
	go func() {
		defer wg.Done()
		for {
			select {
			case <-stop:
				return
			default:
			}
			w.pump(1)
		}
	}()
	defer func() { close(stop); wg.Wait() }()
	sp0, cp0 := w.s.LogCount("session panic"), w.s.LogCount("consume routine panic")
	for i := 0; i < n; i++ {
		c, err := retry("tcp dial", func() (*rtspc.Client, error) { return rtspc.Dial(w.s.Addr(), ioBound) })
		if err != nil {
			t.Fatalf("machinery: %v", err)
		}
		if _, err := c.Play(w.s.RTSP(pathLive)); err != nil {
			c.Close()
			evid.Violation(t, "stress-play", i, "legal play dialogue refused in round %d: %v", i, err)
		}
		if i%3 == 2 {
			c.Close() // plain disconnect
		} else {
			r, err := c.Do("TEARDOWN", w.s.RTSP(pathLive), nil, nil)
			if err != nil || r.Status != 200 {
				c.Close()
				evid.Violation(t, "stress-teardown", i, "TEARDOWN while playing in round %d: %v %+v", i, err, r)
			}
			c.Close()
		}
		evid.Eval(1)
	}
	if !srv.WaitFor(releaseBound, func() bool { return srv.Consumers(pathLive) == 0 && srv.RtspConns() == conns0 }) {
		evid.Violation(t, "stress-release", n, "after %d play sessions ended: %d consumers left on %s, RtspConns %d (before %d)", n, srv.Consumers(pathLive), pathLive, srv.RtspConns(), conns0)
	}
	if d := w.s.LogCount("session panic") - sp0; d != 0 {
		evid.Violation(t, "stress-session-panic", d, "%d RTSP session goroutines panicked:\n%s", d, tail(w.s.Logs(), 1500))
	}
	if d := w.s.LogCount("consume routine panic") - cp0; d != 0 {
		// beyond the statement (the panic is recovered and everything is released): reported, not judged
		evid.ClassN("observation: recovered panic in the delivery goroutine at session end", d)
		evid.Note("TestTeardownWhileMediaFlows: %d of %d session ends logged a recovered 'consume routine panic'", d, n)
		t.Logf("observation: %d of %d session ends logged a recovered 'consume routine panic'", d, n)
	}
	evid.ClassN("stress: play session ended while media flows", int64(n))
}

// INIT on the control channel, then JOIN on an already open data channel the
// moment the channel id is known. Before /repo's "fix: a WSP session is
// registered before its INIT is answered" about 2 % of the JOINs got 404. The
// handshake is not an RTSP request, so this stays an observation (counted in the
// evidence, never a verdict).
func TestWSPJoinRightAfterInit(t *testing.T) {
	w := getWorld(t)
	n, miss := 200, 0
	if evid.Thorough() {
		n = 1000
	}
	for i := 0; i < n; i++ {
		url := w.s.WS(pathLive)
		ctl, err := retry("ws dial", func() (*websocket.Conn, error) {
			c, _, e := (&websocket.Dialer{Subprotocols: []string{"control"}, HandshakeTimeout: ioBound}).Dial(url, nil)
			return c, e
		})
		if err != nil {
			t.Fatalf("machinery: %v", err)
		}
		data, err := retry("ws dial", func() (*websocket.Conn, error) {
			c, _, e := (&websocket.Dialer{Subprotocols: []string{"data"}, HandshakeTimeout: ioBound}).Dial(url, nil)
			return c, e
		})
		if err != nil {
			ctl.Close()
			t.Fatalf("machinery: %v", err)
		}
		st, hdr, _, err := wspExchange(ctl, "WSP/1.1 INIT\r\nproto: rtsp\r\nhost: h\r\nport: 554\r\nseq: 1\r\n\r\n", ioBound)
		if err == nil && st == 200 {
			st, _, _, err = wspExchange(data, "WSP/1.1 JOIN\r\nchannel: "+hdr["channel"]+"\r\nseq: 2\r\n\r\n", ioBound)
			if err == nil && st == 404 {
				miss++
			}
		}
		ctl.Close()
		data.Close()
		evid.Eval(1)
	}
	evid.ClassN("wsp: JOIN right after INIT", int64(n))
	if miss > 0 {
		evid.ClassN("observation: wsp JOIN right after INIT answered 404", int64(miss))
		evid.Note("TestWSPJoinRightAfterInit: %d of %d JOINs sent right after INIT were answered 404", miss, n)
		t.Logf("observation: %d of %d JOINs sent right after INIT were answered 404", miss, n)
	}
	srv.WaitFor(releaseBound, func() bool { return srv.WspConns() == 0 })
}
