// C12 — RTSP sessions answer every request once and follow the legal method
// order.
//
// rapid draws request sequences over {OPTIONS, DESCRIBE, ANNOUNCE, SETUP(video|
// audio × tcp|udp|multicast × default|play|record × valid|malformed transport),
// PLAY, RECORD, PAUSE, GET/SET_PARAMETER, TEARDOWN, unknown methods} × paths
// {live, live with multicast source, missing, fresh publish path} × SDP bodies
// {valid, video only, no a=control, garbage, m= line without format, empty}; a
// scripted client runs them over a real TCP connection, a ws-rtsp WebSocket
// (lib/rtspc, written from RFC 2326) or a WSP control + data channel pair
// (wsp_test.go) against the in-process server (lib/srv) that carries two live
// streams. Every request is followed by a pipelined OPTIONS probe, so "no
// response" and "two responses" are observed by order, never by a timeout. The
// reference automaton of model_test.go judges every status; registry, consumer
// counts and the RTSP/WSP connection counters are compared with the model after
// every step and after the connection ended (TEARDOWN, close, half-close).
// witness_test.go holds fixed plans (legal dialogues and the minimal witnesses
// of the defects this check found, all repaired in /repo); stress_test.go ends
// play sessions while media flows.
package c12

import (
	"bytes"
	"encoding/json"
	"errors"
	"fmt"
	"io"
	"net"
	"os"
	"strconv"
	"strings"
	"sync"
	"sync/atomic"
	"syscall"
	"testing"
	"time"

	"github.com/cnotch/ipchub/av/format/rtp"
	"github.com/cnotch/ipchub/media"
	"github.com/cnotch/ipchub/service/rtsp"
	"pgregory.net/rapid"
	"verif/harness/lib/evid"
	"verif/harness/lib/mediah"
	"verif/harness/lib/rtppack"
	"verif/harness/lib/rtppack/esgen"
	"verif/harness/lib/rtspc"
	"verif/harness/lib/srv"
)

func TestMain(m *testing.M) { evid.Main(m, "C12") }

const (
	ioBound      = 30 * time.Second // a wait that only ends this way means the server hung
	releaseBound = 20 * time.Second
	pathLive     = "/c12/live"
	pathMLive    = "/c12/mlive"
	pathMissing  = "/c12/missing"
)

// ---------------------------------------------------------------- world

type world struct {
	s      *srv.Server
	live   *media.Stream
	pub    *rtspc.Client // keeps /c12/mlive published through a real RECORD session (gives it a multicast source)
	seq    uint32
	pubSeq int64
	env    env

	idleConns     int64 // RTSP sessions open when no case runs (the helper publisher)
	panicOnce     sync.Once
	sessionPanics int64
}

var (
	theWorld  *world
	worldOnce sync.Once
)

var (
	sdpAV        = mediah.SDP(esgen.H264, true)
	sdpVideoOnly = mediah.SDP(esgen.H264, false)
	sdpNoControl = strings.ReplaceAll(strings.ReplaceAll(mediah.SDP(esgen.H264, true), "a=control:streamid=0\r\n", ""), "a=control:streamid=1\r\n", "")
	sdpGarbage   = "\x00\x01\x02 this is not a session description \xff\xfe\r\n===\r\n"
	sdpNoFormat  = "v=0\r\no=- 0 0 IN IP4 127.0.0.1\r\ns=verif\r\nc=IN IP4 127.0.0.1\r\nt=0 0\r\nm=video 0 RTP/AVP\r\na=control:streamid=0\r\n"
)

func sdpBody(kind string) string {
	switch kind {
	case "valid":
		return sdpAV
	case "videoonly":
		return sdpVideoOnly
	case "nocontrol":
		return sdpNoControl
	case "garbage":
		return sdpGarbage
	case "noformat":
		return sdpNoFormat
	}
	return ""
}

func getWorld(t evid.TB) *world {
	worldOnce.Do(func() {
		w := &world{}
		// a long net timeout: the helper publisher's session must survive a starved machine
		w.s = srv.Start(srv.Options{NetTimeout: 30 * time.Minute})
		w.live = srv.PublishStream(pathLive, sdpAV)
		if err := w.publishMLive(); err != nil {
			t.Fatalf("machinery: %v", err)
		}
		w.idleConns = srv.RtspConns()
		w.env = env{Live: map[string]bool{pathLive: true, pathMLive: true}, Multicast: map[string]bool{pathMLive: true}}
		theWorld = w
	})
	if theWorld == nil {
		t.Fatalf("machinery: world failed to start")
	}
	return theWorld
}

// retry repeats a connection attempt that failed for reasons of the machine (ephemeral
// ports in TIME_WAIT, a starved accept loop …) for up to three minutes; what is
// judged starts only once the connection exists.
func retry[T any](what string, f func() (T, error)) (T, error) {
	deadline := time.Now().Add(3 * time.Minute)
	wait := time.Millisecond
	for {
		v, err := f()
		if err == nil || time.Now().After(deadline) {
			if err != nil {
				err = fmt.Errorf("%s still failing after 3 minutes: %w", what, err)
			}
			return v, err
		}
		time.Sleep(wait)
		if wait < 200*time.Millisecond {
			wait *= 2
		}
	}
}

// publishMLive (re)creates the helper publisher of /c12/mlive.
func (w *world) publishMLive() error {
	c, err := retry("dial publisher", func() (*rtspc.Client, error) { return rtspc.Dial(w.s.Addr(), ioBound) })
	if err != nil {
		return err
	}
	if _, err := c.Record(w.s.RTSP(pathMLive), sdpAV); err != nil {
		c.Close()
		return fmt.Errorf("publishing %s through RECORD failed: %v", pathMLive, err)
	}
	if old := w.pub; old != nil {
		old.Close()
	}
	w.pub = c
	st := media.Get(pathMLive)
	if st == nil || st.Multicastable() == nil {
		return fmt.Errorf("%s is not multicast-capable", pathMLive)
	}
	return nil
}

// heal puts the two live streams back if the machine (not a case) lost them, e.g. the
// publisher's session timed out while the process was starved.
func (w *world) heal() error {
	if media.Get(pathLive) != w.live {
		w.live = srv.PublishStream(pathLive, sdpAV)
		evid.Class("machinery: live stream re-published")
	}
	if media.Get(pathMLive) == nil {
		evid.Class("machinery: multicast live stream re-published")
		if err := w.publishMLive(); err != nil {
			return err
		}
		w.idleConns = srv.RtspConns() + srv.WspConns()
	}
	return nil
}

// pump publishes k small video and k small audio packets on both live streams.
func (w *world) pump(k int) {
	for i := 0; i < k; i++ {
		n := atomic.AddUint32(&w.seq, 1)
		nal := append([]byte{0x41}, []byte(fmt.Sprintf("C12PUMP!%08x", n))...)
		pk := rtppack.Sequence([][]byte{nal}, true, 96, n*3000, uint16(n), 0xC12)[0].Marshal()
		w.live.WriteRtpPacket(rtppack.ToIpchub(rtp.ChannelVideo, pk))
		w.pub.WriteFrame(0, pk)
		// and one AAC access unit on the audio track (a session may have set up audio only)
		au := rtppack.AacHbr([][]byte{[]byte(fmt.Sprintf("C12AUDIO%08x", n))})
		ak := rtppack.Sequence([][]byte{au}, true, 97, n*1024, uint16(n), 0xA12)[0].Marshal()
		w.live.WriteRtpPacket(rtppack.ToIpchub(rtp.ChannelAudio, ak))
		w.pub.WriteFrame(2, ak)
	}
}

// ---------------------------------------------------------------- plan

type step struct {
	Method    string `json:"method"`
	PathSym   string `json:"path"`                // live | mlive | missing | pub | pub2
	Track     string `json:"track,omitempty"`     // video | audio
	Trans     string `json:"trans,omitempty"`     // tcp | udp | mcast
	Mode      string `json:"mode,omitempty"`      // "" (default = play) | play | record
	ModeText  string `json:"mode_text,omitempty"` // literal spelling of the mode parameter
	Malformed string `json:"malformed,omitempty"` // kind of malformed Transport
	SDP       string `json:"sdp,omitempty"`
	CSeq      string `json:"cseq,omitempty"`          // "" = next automatic
	Deco      string `json:"uri_octets,omitempty"`    // percent-encoded octets that are dangerous once decoded
	DecoAt    string `json:"uri_octets_at,omitempty"` // segment (extra path segment) | control (behind SETUP's control) | query
	HdrDeco   string `json:"header_octets,omitempty"` // range | session | transport | require: such octets in a header value the server may echo

	Path string `json:"-"` // resolved path as the model sees it
	base string // resolved path of PathSym (what the URL is built from)
	// every SETUP of a plan announces its own interleaved pair / client port, so that what a
	// REFUSED SETUP carried can be told from what an accepted one negotiated
	chanBase int
	udpPort  int
}

type plan struct {
	Transport   string `json:"transport"` // tcp | ws
	WSPathSym   string `json:"ws_path,omitempty"`
	Steps       []step `json:"steps"`
	End         string `json:"end"` // close | halfclose | reset (TCP RST)
	CheckFrames bool   `json:"check_frames"`
	WSPData     bool   `json:"wsp_data_channel,omitempty"` // wsp: also open the data channel
	Window      bool   `json:"window_at_play"`             // tcp/ws: publish inside the window "player attached, PLAY not yet answered"
}

var muxKnown = map[string]bool{"OPTIONS": true, "DESCRIBE": true, "ANNOUNCE": true, "SETUP": true, "PLAY": true, "PAUSE": true,
	"TEARDOWN": true, "GET_PARAMETER": true, "SET_PARAMETER": true, "RECORD": true, "REDIRECT": true}

// percent-encoded octets that are dangerous once a server decodes them and
// puts them into a response (legal URI syntax, RFC 2396 §2.4.1)
var uriOctets = []string{"%0D%0A", "%0A", "%0D", "%00", "%20", "%25", "%3A", "%0D%0ACSeq:%2099", "%0D%0A%0D%0ARTSP/1.0%20200%20OK", "%0D%0A%0D%0A", "%09%7F"}

// the same idea inside a header value the server may echo (Transport, Range) or
// look at (Session, Require); raw CR / LF cannot be written there without breaking
// the request itself, the escaped forms can
const hdrOctets = "%0D%0ACSeq:%2099%0D%0A%0D%0A"

func decorate(t *rapid.T, s *step, happy bool) {
	if happy {
		if s.Method != "SETUP" && s.Method != "ANNOUNCE" && rapid.IntRange(0, 7).Draw(t, "decoHappy") == 0 {
			s.Deco, s.DecoAt = rapid.SampledFrom(uriOctets).Draw(t, "octets"), "query"
		}
	} else if rapid.IntRange(0, 4).Draw(t, "deco") == 0 {
		s.Deco = rapid.SampledFrom(uriOctets).Draw(t, "octets")
		switch s.Method {
		case "SETUP":
			s.DecoAt = rapid.SampledFrom([]string{"control", "control", "control", "segment", "query"}).Draw(t, "octetsAt")
		case "ANNOUNCE":
			s.DecoAt = "query"
		default:
			s.DecoAt = rapid.SampledFrom([]string{"segment", "query"}).Draw(t, "octetsAt")
		}
	}
	if rapid.IntRange(0, 9).Draw(t, "hdrDeco") == 0 {
		switch s.Method {
		case "SETUP":
			s.HdrDeco = rapid.SampledFrom([]string{"transport", "transport", "session", "require"}).Draw(t, "hdrOctetsIn")
		case "PLAY", "RECORD":
			s.HdrDeco = rapid.SampledFrom([]string{"range", "range", "session", "require"}).Draw(t, "hdrOctetsIn")
		default:
			s.HdrDeco = rapid.SampledFrom([]string{"session", "require"}).Draw(t, "hdrOctetsIn")
		}
	}
}

var malformedKinds = []string{"garbage", "noproto", "badprofile", "badinterleaved", "badport", "badafterinterleaved", "badafterinterleaved", "missing", "empty", "hugeport", "hugeport"}

func modeText(t *rapid.T, mode string) string {
	switch mode {
	case "record":
		// RFC 2326 §12.39 writes mode="RECORD"; common clients send mode=record
		return rapid.SampledFrom([]string{"mode=record", "mode=record", "mode=record", "mode=RECORD", "mode=\"RECORD\""}).Draw(t, "modeText")
	case "play":
		return rapid.SampledFrom([]string{"mode=play", "mode=PLAY", "mode=\"PLAY\""}).Draw(t, "modeText")
	}
	return ""
}

func genSetup(t *rapid.T, path, sessionMode string, faithful bool) step {
	s := step{Method: "SETUP", PathSym: path}
	s.Track = rapid.SampledFrom([]string{"video", "video", "audio"}).Draw(t, "track")
	s.Trans = rapid.SampledFrom([]string{"tcp", "tcp", "tcp", "udp", "mcast"}).Draw(t, "trans")
	if faithful {
		if sessionMode == "record" {
			s.Mode = "record"
			if rapid.IntRange(0, 5).Draw(t, "recTrans") > 0 {
				s.Trans = "tcp"
			}
		} else if rapid.Bool().Draw(t, "explicitPlay") {
			s.Mode = "play"
		}
	} else {
		s.Mode = rapid.SampledFrom([]string{"", "play", "record"}).Draw(t, "mode")
		if rapid.IntRange(0, 3).Draw(t, "malformed") == 0 {
			s.Malformed = rapid.SampledFrom(malformedKinds).Draw(t, "malformedKind")
		}
	}
	s.ModeText = modeText(t, s.Mode)
	return s
}

func genPlan(t *rapid.T, transport string) *plan {
	maxLen := 10
	if evid.Thorough() {
		maxLen = 14
	}
	p := &plan{Transport: transport}
	if transport != "tcp" {
		p.WSPathSym = rapid.SampledFrom([]string{"live", "live", "mlive", "missing"}).Draw(t, "wsPath")
	}
	if transport == "wsp" {
		p.WSPData = rapid.IntRange(0, 3).Draw(t, "dataChannel") > 0
	}
	goals := []string{"play", "play", "play", "record", "record", "none", "play-unusable-port"}
	if transport == "wsp" {
		goals = []string{"play", "play", "play", "play", "record", "none"} // the endpoint is play-only
	}
	goal := rapid.SampledFrom(goals).Draw(t, "goal")
	playPath := rapid.SampledFrom([]string{"live", "live", "mlive"}).Draw(t, "playPath")
	if transport != "tcp" && p.WSPathSym != "missing" {
		playPath = p.WSPathSym
	}
	// the happy path towards the goal, consumed step by step
	var happy []func() step
	switch goal {
	case "play":
		happy = []func() step{
			func() step { return step{Method: "DESCRIBE", PathSym: playPath} },
			func() step { return genSetup(t, playPath, "play", true) },
			func() step { return step{Method: "PLAY", PathSym: playPath} },
		}
	case "play-unusable-port":
		// a transport that parses but names no UDP port, then PLAY, then a corrective SETUP
		// and PLAY: whichever of the first two the server refuses must have changed nothing
		goal = "play"
		happy = []func() step{
			func() step { return step{Method: "DESCRIBE", PathSym: playPath} },
			func() step {
				return step{Method: "SETUP", PathSym: playPath, Track: "video", Trans: "udp", Malformed: "hugeport"}
			},
			func() step { return step{Method: "PLAY", PathSym: playPath} },
			func() step { return step{Method: "SETUP", PathSym: playPath, Track: "video", Trans: "tcp"} },
			func() step { return step{Method: "PLAY", PathSym: playPath} },
		}
	case "record":
		happy = []func() step{
			func() step {
				return step{Method: "ANNOUNCE", PathSym: "pub", SDP: rapid.SampledFrom([]string{"valid", "valid", "videoonly"}).Draw(t, "sdp")}
			},
			func() step { return genSetup(t, "pub", "record", true) },
			func() step { return step{Method: "RECORD", PathSym: "pub"} },
		}
	}
	cur := "live" // the path the client believes the session is about
	if goal == "record" {
		cur = "pub"
	} else if goal == "play" {
		cur = playPath
	}
	sessMode := goal
	n := rapid.IntRange(1, maxLen).Draw(t, "len")
	for len(p.Steps) < n {
		if len(happy) > 0 && rapid.IntRange(0, 9).Draw(t, "follow") < 6 {
			// an extra SETUP for the second track now and then
			hs := happy[0]()
			decorate(t, &hs, true)
			p.Steps = append(p.Steps, hs)
			happy = happy[1:]
			continue
		}
		pathOr := func(other ...string) string {
			if rapid.IntRange(0, 9).Draw(t, "samePath") < 8 {
				return cur
			}
			return rapid.SampledFrom(other).Draw(t, "otherPath")
		}
		var s step
		switch rapid.SampledFrom([]string{"OPTIONS", "DESCRIBE", "DESCRIBE", "ANNOUNCE", "ANNOUNCE", "SETUP", "SETUP", "SETUP", "SETUP",
			"PLAY", "PLAY", "PLAY", "RECORD", "RECORD", "RECORD", "PAUSE", "GET_PARAMETER", "TEARDOWN", "UNKNOWN"}).Draw(t, "method") {
		case "OPTIONS":
			s = step{Method: "OPTIONS", PathSym: pathOr("live", "missing")}
		case "DESCRIBE":
			s = step{Method: "DESCRIBE", PathSym: rapid.SampledFrom([]string{"live", "live", "live", "mlive", "missing", "missing"}).Draw(t, "describePath")}
			if s.PathSym != "missing" {
				cur, sessMode = s.PathSym, "play"
			}
		case "ANNOUNCE":
			s = step{Method: "ANNOUNCE", PathSym: rapid.SampledFrom([]string{"pub", "pub", "pub", "pub2"}).Draw(t, "announcePath"),
				SDP: rapid.SampledFrom([]string{"valid", "valid", "valid", "videoonly", "nocontrol", "garbage", "noformat", "empty"}).Draw(t, "sdp")}
			if s.SDP == "valid" || s.SDP == "videoonly" {
				cur, sessMode = s.PathSym, "record"
			}
		case "SETUP":
			s = genSetup(t, pathOr("live", "missing", "pub"), sessMode, rapid.Bool().Draw(t, "faithful"))
		case "PLAY":
			s = step{Method: "PLAY", PathSym: pathOr("live", "missing", "pub")}
		case "RECORD":
			s = step{Method: "RECORD", PathSym: pathOr("live", "missing", "pub")}
		case "PAUSE":
			s = step{Method: "PAUSE", PathSym: pathOr("live", "missing")}
		case "GET_PARAMETER":
			s = step{Method: rapid.SampledFrom([]string{"GET_PARAMETER", "GET_PARAMETER", "SET_PARAMETER"}).Draw(t, "param"), PathSym: pathOr("live", "missing")}
		case "TEARDOWN":
			s = step{Method: "TEARDOWN", PathSym: pathOr("live", "missing")}
		default:
			s = step{Method: rapid.SampledFrom([]string{"FOOBAR", "play", "Describe", "REDIRECT", "X-1_2"}).Draw(t, "unknown"), PathSym: pathOr("live", "missing")}
		}
		decorate(t, &s, false)
		if rapid.IntRange(0, 11).Draw(t, "oddCSeq") == 0 {
			s.CSeq = rapid.SampledFrom([]string{"0", "4294967295", "18446744073709551616", "007", "99999"}).Draw(t, "cseq")
		}
		p.Steps = append(p.Steps, s)
	}
	// the port multiplexer only hands a TCP connection to RTSP when it starts
	// with a method it knows (property C19); keep the first request inside that set
	if transport == "tcp" && !muxKnown[p.Steps[0].Method] {
		p.Steps = append([]step{{Method: "OPTIONS", PathSym: "live"}}, p.Steps...)
	}
	p.End = rapid.SampledFrom([]string{"close", "close", "halfclose", "reset", "reset"}).Draw(t, "end")
	p.CheckFrames = rapid.IntRange(0, 2).Draw(t, "checkFrames") == 0
	p.Window = transport != "wsp" && rapid.Bool().Draw(t, "windowAtPlay")
	return p
}

// ---------------------------------------------------------------- run

type exchange struct {
	Req      string `json:"request"`
	Expect   string `json:"expect"`
	Status   int    `json:"status"`
	Reason   string `json:"reason,omitempty"`
	Model    string `json:"model_after"`
	Problems string `json:"problem,omitempty"`
}

type report struct {
	Plan       *plan      `json:"plan"`
	Transcript []exchange `json:"transcript"`
}

type outcome struct {
	reachedPlaying, reachedRecording bool
	refused, n455                    int
	framesSeen                       int
	closedByTeardown                 bool
	windows, udpSeen                 int
	refusedWithChannels              int
	relayChecked                     bool
	consumePanics                    int
}

func (w *world) resolve(sym string, pubN int64) string {
	switch sym {
	case "live":
		return pathLive
	case "mlive":
		return pathMLive
	case "missing":
		return pathMissing
	case "pub":
		return fmt.Sprintf("/c12/pub/%d", pubN)
	case "pub2":
		return fmt.Sprintf("/c12/pub/%db", pubN)
	}
	return "/" + sym
}

func transportHeader(s *step) (string, bool) {
	ch, udpPort := s.chanBase, s.udpPort
	mode := ""
	if s.ModeText != "" {
		mode = ";" + s.ModeText
	}
	switch s.Malformed {
	case "garbage":
		return "xyz", true
	case "noproto":
		return fmt.Sprintf(";unicast;interleaved=%d-%d%s", ch, ch+1, mode), true
	case "badprofile":
		return fmt.Sprintf("RTP/XYZ/TCP;unicast;interleaved=%d-%d%s", ch, ch+1, mode), true
	case "badinterleaved":
		return "RTP/AVP/TCP;unicast;interleaved=abc" + mode, true
	case "badport":
		return "RTP/AVP;unicast;client_port=x-y" + mode, true
	case "badafterinterleaved":
		// a well-formed interleaved pair followed by a parameter no grammar derives
		return fmt.Sprintf("RTP/AVP/TCP;unicast;interleaved=%d-%d;client_port=x-y%s", ch, ch+1, mode), true
	case "hugeport":
		// well-formed integers, but no UDP port: a server may refuse the SETUP or fail the
		// PLAY later; either way a refused request must leave the session as it was
		return fmt.Sprintf("RTP/AVP;unicast;client_port=%d-%d%s", 70000+ch, 70001+ch, mode), true
	case "missing":
		return "", false
	case "empty":
		return "", true
	}
	switch s.Trans {
	case "udp":
		return fmt.Sprintf("RTP/AVP;unicast;client_port=%d-%d%s", udpPort, udpPort+1, mode), true
	case "mcast":
		return "RTP/AVP;multicast" + mode, true
	}
	return fmt.Sprintf("RTP/AVP/TCP;unicast;interleaved=%d-%d%s", ch, ch+1, mode), true
}

type failure struct {
	check string
	msg   string
}

// runPlan executes one plan; a non-nil failure is a property violation (the
// caller renders it), an error is harness machinery trouble.
func (w *world) runPlan(p *plan) (out outcome, rep *report, fail *failure, err error) {
	rep = &report{Plan: p}
	pubN := atomic.AddInt64(&w.pubSeq, 1)
	for i := range p.Steps {
		st := &p.Steps[i]
		st.Path = w.resolve(st.PathSym, pubN)
		st.base = st.Path
		switch {
		case st.Deco != "" && st.DecoAt == "segment":
			// an extra path segment: whatever the octets decode to, this is another path than
			// the one the session is about and carries no stream
			st.Path += "/x<" + st.Deco + ">y"
		case st.Deco != "" && st.DecoAt == "control" && st.Method == "SETUP":
			st.Track = "no-such-track" // behind the control: no track of any description
		}
	}
	pubPaths := []string{w.resolve("pub", pubN), w.resolve("pub2", pubN)}
	wsPath := ""
	if p.Transport != "tcp" {
		wsPath = w.resolve(p.WSPathSym, pubN)
	}
	m := newModel(wsPath)
	m.WSP = p.Transport == "wsp"

	if err := w.heal(); err != nil {
		return out, rep, nil, fmt.Errorf("machinery: %v", err)
	}
	// a case that failed half-way (e.g. while rapid shrinks) may still be closing: give the
	// server a moment to get back to the idle world before the baseline is taken
	srv.WaitFor(2*time.Second, func() bool {
		return srv.RtspConns()+srv.WspConns() == w.idleConns && srv.Consumers(pathLive) == 0 && srv.Consumers(pathMLive) == 0
	})
	// baseline of everything the statement says is given back
	base := map[string]int{pathLive: srv.Consumers(pathLive), pathMLive: srv.Consumers(pathMLive)}
	conns := func() int64 { return srv.RtspConns() + srv.WspConns() }
	conns0 := conns()
	streams0, _ := srv.Streams()
	// session panics are counted against a process-wide baseline, so that one logged after a
	// case's last look is still reported (by the next case)
	w.panicOnce.Do(func() { w.sessionPanics = w.s.LogCount("session panic") })
	panics0 := w.sessionPanics
	cpanics0 := w.s.LogCount("consume routine panic")

	var c link
	var wl *wspLink
	switch p.Transport {
	case "ws":
		c, err = retry("ws dial", func() (*rtspc.Client, error) { return rtspc.DialWS(w.s.WS(wsPath), ioBound, nil) })
	case "wsp":
		wl, err = retry("wsp dial", func() (*wspLink, error) { return dialWSP(w.s.WS(wsPath), ioBound, p.WSPData) })
		c = wl
	default:
		c, err = retry("tcp dial", func() (*rtspc.Client, error) { return rtspc.Dial(w.s.Addr(), ioBound) })
	}
	if err != nil {
		return out, rep, nil, fmt.Errorf("machinery: dial: %v", err)
	}
	defer c.Close()
	// frames of a WSP session travel on its data channel: whatever is there before a
	// PLAY succeeded was sent too early
	dataFrames := func() *failure {
		if wl == nil {
			return nil
		}
		n, derr := wl.dataFrames()
		if derr != nil {
			return &failure{"framing", derr.Error()}
		}
		out.framesSeen = n
		return nil
	}

	playOK := false                    // a PLAY was answered 2xx on this connection
	refusedChans := map[string][]int{} // track → interleaved pairs that only refused SETUPs announced
	playOKp := func() bool { return playOK }
	// Every SETUP of the plan gets its own interleaved pair (4k / 4k+1 for the k-th SETUP,
	// +2 on the audio track) and, over UDP, its own bound client port: what a refused SETUP
	// announced can then be told from what an accepted one negotiated. The sockets also catch
	// media that is sent before PLAY succeeded. Without a socket (machine out of ports) the
	// case still runs, unobserved on that port.
	type dgram struct {
		port int
		kind string
	}
	var udps []*net.UDPConn
	var dgrams []dgram
	nSetup := 0
	for i := range p.Steps {
		st := &p.Steps[i]
		if st.Method != "SETUP" {
			continue
		}
		st.chanBase = 4 * nSetup
		if st.Track == "audio" {
			st.chanBase += 2
		}
		st.udpPort = 40000 + 4*nSetup
		nSetup++
		if st.Trans != "udp" {
			continue
		}
		for try := 0; try < 200; try++ {
			u, e := net.ListenUDP("udp4", &net.UDPAddr{IP: net.IPv4(127, 0, 0, 1)})
			if e != nil {
				time.Sleep(time.Millisecond)
				continue
			}
			if port := u.LocalAddr().(*net.UDPAddr).Port; port < 65000 {
				st.udpPort = port
				udps = append(udps, u)
				defer u.Close()
				break
			}
			u.Close()
		}
		if len(udps) == 0 || udps[len(udps)-1].LocalAddr().(*net.UDPAddr).Port != st.udpPort {
			evid.Class("machinery: no UDP socket, media on that client port not observed in this case")
		}
	}
	payloadKind := func(b []byte) string {
		switch {
		case bytes.Contains(b, []byte("C12PUMP!")):
			return "video"
		case bytes.Contains(b, []byte("C12AUDIO")):
			return "audio"
		}
		return ""
	}
	udpGot := func() int {
		n := 0
		buf := make([]byte, 2048)
		for _, u := range udps {
			// non-blocking drain (a read deadline that has already passed would make Go
			// return a timeout without even looking at the socket)
			rc, e := u.SyscallConn()
			if e != nil {
				continue
			}
			for more := true; more; {
				more = false
				rc.Read(func(fd uintptr) bool {
					if k, _, e := syscall.Recvfrom(int(fd), buf, syscall.MSG_DONTWAIT); e == nil && k >= 0 {
						more = true
						n++
						if len(dgrams) < 4096 {
							dgrams = append(dgrams, dgram{u.LocalAddr().(*net.UDPAddr).Port, payloadKind(buf[:k])})
						}
					}
					return true
				})
			}
		}
		return n
	}
	// after a successful PLAY media may only use what the last ACCEPTED SETUP of its track
	// negotiated: the interleaved channel on TCP / ws / the WSP data channel, the client port
	// over UDP
	wrongFrame := func(f *rtspc.Frame) string {
		kind := payloadKind(f.Payload)
		if kind == "" {
			return ""
		}
		if m.Setup[kind] != "tcp" {
			if m.WasChan[kind][int(f.Channel)] {
				evid.Class("frames: a track accepted over tcp and later over " + m.Setup[kind] + " is played on its earlier accepted channel (D16, tolerated)")
				return ""
			}
			return fmt.Sprintf("a %s packet arrives interleaved (channel %d) although the accepted SETUPs are %v and no accepted SETUP of that track negotiated this channel", kind, f.Channel, m.Setup)
		}
		if int(f.Channel) != m.Chan[kind] {
			return fmt.Sprintf("a %s RTP packet arrives on interleaved channel %d, the last accepted SETUP of that track negotiated %d-%d", kind, f.Channel, m.Chan[kind], m.Chan[kind]+1)
		}
		return ""
	}
	wspChannels := func() *failure {
		if wl == nil {
			return nil
		}
		fresh := wl.takeFrames()
		if m.Released {
			return nil // after TEARDOWN: frames still in flight on the other socket belong to the session that ended
		}
		for _, f := range fresh {
			f := f
			if why := wrongFrame(&f); why != "" && playOKp() {
				return &failure{"media-channel", "WSP data channel: " + why}
			}
		}
		return nil
	}
	wrongDgrams := func() string {
		defer func() { dgrams = dgrams[:0] }()
		if m.Released {
			return "" // after TEARDOWN: what is still in flight belongs to the session that ended
		}
		for _, d := range dgrams {
			if d.kind == "" {
				continue
			}
			if m.Setup[d.kind] != "udp" && m.WasPort[d.kind][d.port] {
				evid.Class("datagrams: a track accepted over udp and later over " + m.Setup[d.kind] + " is played on its earlier accepted client port (D16, tolerated)")
				continue
			}
			if m.Setup[d.kind] != "udp" || m.Port[d.kind] != d.port {
				return fmt.Sprintf("a %s RTP datagram arrives on client port %d; accepted SETUPs %v, negotiated ports %v", d.kind, d.port, m.Setup, m.Port)
			}
		}
		return ""
	}

	// The window "player attached to its stream, 200 to PLAY not yet written" is owned
	// through the schedule point play.before-answer (build tag verif): the callback runs in
	// the session's goroutine right before the answer is written, publishes a packet on both
	// live streams and gives it a moment to be delivered. On a correct server the delivery
	// is held back until the answer is out, so nothing may have reached the UDP client port
	// when the callback returns (for TCP / ws the frame would sit in front of the 200 in the
	// byte stream, which the reader below flags). Only what actually arrived is judged.
	var earlyUDP, windows int32
	if rc, ok := c.(*rtspc.Client); ok && p.Window {
		mine := rc.LocalAddr().String()
		rtsp.VerifSetSched(func(point string, obj interface{}) {
			if point != "play.before-answer" || rtsp.VerifSessionAddr(obj) != mine {
				return
			}
			atomic.AddInt32(&windows, 1)
			w.pump(1)
			deadline := time.Now().Add(8 * time.Millisecond)
			for time.Now().Before(deadline) {
				if n := udpGot(); n > 0 {
					atomic.AddInt32(&earlyUDP, int32(n))
					return
				}
				time.Sleep(100 * time.Microsecond)
			}
		})
		defer rtsp.VerifSetSched(nil)
	}

	session := ""
	bad := func(check, format string, a ...any) *failure {
		return &failure{check, fmt.Sprintf(format, a...)}
	}
	// resources must match the model after every step
	checkResources := func(when string) *failure {
		for _, lp := range []string{pathLive, pathMLive} {
			want := base[lp]
			if m.St == stPlaying && m.Path == lp {
				want++
			}
			if m.Paused && m.Path == lp {
				continue // D14: a paused session may keep its attachment
			}
			if !srv.WaitFor(releaseBound, func() bool { return srv.Consumers(lp) == want }) {
				return bad("consumers", "%s: %s has %d consumers, the model (%s) says %d (baseline %d)", when, lp, srv.Consumers(lp), m, want, base[lp])
			}
		}
		for _, pp := range pubPaths {
			wantPub := m.St == stRecording && m.Path == pp
			if !srv.WaitFor(releaseBound, func() bool { return (media.Get(pp) != nil) == wantPub }) {
				return bad("published", "%s: media.Get(%s) published=%v, the model (%s) says %v", when, pp, media.Get(pp) != nil, m, wantPub)
			}
		}
		return nil
	}

	alive := true
	for i := range p.Steps {
		s := &p.Steps[i]
		url := w.s.RTSP(s.base)
		if s.Deco != "" && s.DecoAt == "segment" {
			url += "/x" + s.Deco + "y"
		}
		hdr := map[string]string{}
		var body []byte
		switch s.Method {
		case "DESCRIBE":
			hdr["Accept"] = "application/sdp"
		case "ANNOUNCE":
			hdr["Content-Type"] = "application/sdp"
			body = []byte(sdpBody(s.SDP))
		case "SETUP":
			if s.Track == "audio" {
				url += "/streamid=1"
			} else {
				url += "/streamid=0"
			}
			if s.Deco != "" && s.DecoAt == "control" {
				url += s.Deco + "x"
			}
			if v, present := transportHeader(s); present {
				if s.HdrDeco == "transport" && s.Malformed == "" {
					v += ";x-verif=" + hdrOctets
				}
				hdr["Transport"] = v
			}
		case "PLAY", "RECORD":
			hdr["Range"] = "npt=0.000-"
			if s.HdrDeco == "range" {
				hdr["Range"] = "npt=0.000-;x=" + hdrOctets
			}
		}
		if s.Deco != "" && s.DecoAt == "query" {
			url += "?a=" + s.Deco
		}
		switch s.HdrDeco {
		case "session":
			hdr["Session"] = "verif" + hdrOctets
		case "require":
			hdr["Require"] = "x.verif" + hdrOctets
		}
		if s.CSeq != "" {
			hdr["CSeq"] = s.CSeq
		}
		reqCSeq := s.CSeq
		if reqCSeq == "" {
			reqCSeq = strconv.Itoa(c.NextCSeq())
		}
		req := c.Build(s.Method, url, hdr, body)
		x := m.expect(&w.env, s)
		if s.Method == "SETUP" && s.Deco != "" && s.DecoAt == "query" {
			// whether a track URL with a query still names the track is the server's business
			x = expectation{Kind: expAny, Why: "SETUP with a query behind the track URL", apply: x.apply}
		}
		ex := exchange{Req: strings.SplitN(string(req), "\r\n", 2)[0], Expect: x.Kind.String()}
		if x.Or455 {
			ex.Expect += " or 455"
		}
		if v, ok := hdr["Transport"]; ok {
			ex.Req += " [Transport: " + v + "]"
		}
		if s.Method == "ANNOUNCE" {
			ex.Req += " [sdp " + s.SDP + "]"
		}
		if s.HdrDeco != "" {
			ex.Req += " [octets in " + s.HdrDeco + " header]"
		}
		withProbe := s.Method != "TEARDOWN"
		probeCSeq := ""
		var probe []byte
		if withProbe {
			probeCSeq = "7" + strconv.Itoa(c.NextCSeq()) + "7" // distinct from every request CSeq of the plan
			probe = c.Build("OPTIONS", w.s.RTSP(pathLive), map[string]string{"CSeq": probeCSeq}, nil)
		}
		// while a PLAY or SETUP is being handled media keeps flowing on both live streams, so a
		// consumer attached too early shows up as a frame in front of the response (stimulus
		// only: the verdict is the order of items in the byte stream)
		stopPump := func() {}
		if (s.Method == "PLAY" || s.Method == "SETUP") && !(p.Window && p.Transport != "wsp") {
			stop, done := make(chan struct{}), make(chan struct{})
			go func() {
				defer close(done)
				for {
					select {
					case <-stop:
						return
					default:
					}
					w.pump(1)
					time.Sleep(20 * time.Microsecond)
				}
			}()
			var once sync.Once
			stopPump = func() { once.Do(func() { close(stop); <-done }) }
		}
		fin := func(f *failure) (outcome, *report, *failure, error) {
			stopPump()
			ex.Problems = f.msg
			ex.Model = m.String()
			rep.Transcript = append(rep.Transcript, ex)
			return out, rep, f, nil
		}
		var serr error
		if f := wspChannels(); f != nil {
			return fin(f)
		}
		if f := dataFrames(); f != nil {
			return fin(f)
		} else if out.framesSeen > 0 && !playOK {
			return fin(bad("media-before-play", "step %d (%s): %d frames on the WSP data channel before any successful PLAY", i, ex.Req, out.framesSeen))
		}
		if p.Transport != "tcp" {
			serr = c.Send(req)
			if serr == nil && withProbe {
				serr = c.Send(probe)
			}
		} else {
			serr = c.Send(append(req, probe...))
		}
		if serr != nil {
			return fin(bad("connection-lost", "step %d (%s): the connection does not accept the request: %v", i, ex.Req, serr))
		}
		// read up to the probe's response
		var got []*rtspc.Response
		probed := false
		for !probed {
			it, rerr := c.ReadItem()
			if rerr != nil {
				if withProbe || len(got) == 0 {
					var fe *rtspc.FramingError
					if errors.As(rerr, &fe) {
						return fin(bad("framing", "step %d (%s): %v", i, ex.Req, rerr))
					}
					if len(got) == 0 {
						return fin(bad("no-response", "step %d (%s): no response, the connection ended with: %v", i, ex.Req, rerr))
					}
					return fin(bad("connection-lost", "step %d (%s): answered %d but the connection was not usable afterwards (probe unanswered: %v)", i, ex.Req, got[0].Status, rerr))
				}
				break
			}
			if it.Frame != nil {
				out.framesSeen++
				if !playOK {
					return fin(bad("media-before-play", "step %d (%s): interleaved frame (channel %d, %d bytes) before any successful PLAY", i, ex.Req, it.Frame.Channel, len(it.Frame.Payload)))
				}
				if why := wrongFrame(it.Frame); why != "" {
					return fin(bad("media-channel", "step %d (%s): %s", i, ex.Req, why))
				}
				continue
			}
			r := it.Response
			switch {
			case withProbe && r.CSeq() == probeCSeq:
				probed = true
				if r.Status < 200 || r.Status > 299 {
					return fin(bad("probe-refused", "step %d: the OPTIONS probe after %s was answered %d", i, ex.Req, r.Status))
				}
			case r.CSeq() == reqCSeq:
				got = append(got, r)
				if s.Method == "PLAY" && r.Status >= 200 && r.Status < 300 {
					playOK = true // media may follow the 200 immediately, before the probe is answered
				}
				if !withProbe {
					probed = true
				}
			default:
				return fin(bad("cseq", "step %d (%s, CSeq %s): a response carries CSeq %q", i, ex.Req, reqCSeq, r.CSeq()))
			}
			if id := r.SessionID(); id == "" {
				return fin(bad("session-header", "step %d (%s): response %d carries no Session header", i, ex.Req, r.Status))
			} else if session == "" {
				session = id
			} else if id != session {
				return fin(bad("session-header", "step %d (%s): Session id changed from %q to %q on one connection", i, ex.Req, session, id))
			}
		}
		stopPump()
		if n := atomic.LoadInt32(&earlyUDP); n > 0 {
			return fin(bad("media-before-play", "step %d (%s): %d RTP datagrams reached the client's UDP port while the player was attached but the answer to PLAY had not been written yet", i, ex.Req, n))
		}
		if len(got) != 1 {
			return fin(bad("response-count", "step %d (%s, CSeq %s): %d responses before the probe's response, want exactly 1", i, ex.Req, reqCSeq, len(got)))
		}
		r := got[0]
		ex.Status, ex.Reason = r.Status, r.Reason
		problem, take := x.judge(r.Status)
		if s.HdrDeco == "require" && r.Status == 551 {
			problem, take = "", false // RFC 2326 §12.32: an unsupported Require option is answered 551
		}
		if problem != "" {
			return fin(bad("status", "step %d (%s) in model state %s: %s", i, ex.Req, m, problem))
		}
		if r.Status >= 400 {
			out.refused++
			if r.Status == 455 {
				out.n455++
			}
		}
		if f := wspChannels(); f != nil { // judged against the model the frames were sent under
			return fin(f)
		}
		if take && x.apply != nil {
			x.apply(m)
		}
		if s.Method == "SETUP" && r.Status >= 400 && s.Trans == "tcp" {
			switch s.Malformed {
			case "", "noproto", "badprofile", "badafterinterleaved": // these carried interleaved=chanBase
				refusedChans[s.Track] = append(refusedChans[s.Track], s.chanBase)
				out.refusedWithChannels++
			}
		}
		if take && s.Method == "PLAY" {
			playOK = true
		}
		ex.Model = m.String()
		rep.Transcript = append(rep.Transcript, ex)
		if m.St == stPlaying {
			out.reachedPlaying = true
		}
		if m.St == stRecording {
			out.reachedRecording = true
		}
		if s.Method == "TEARDOWN" && take {
			// D2: everything is released now, whether or not the server closes the connection
			if f := checkResources(fmt.Sprintf("after TEARDOWN (step %d)", i)); f != nil {
				return out, rep, f, nil
			}
			if !srv.WaitFor(releaseBound, func() bool { return conns() <= conns0+1 }) {
				return out, rep, bad("conns", "after TEARDOWN: %d RTSP+WSP connections, baseline %d", conns(), conns0), nil
			}
			// is the connection still there? (either answer is fine)
			pr := c.Build("OPTIONS", w.s.RTSP(pathLive), nil, nil)
			if c.Send(pr) != nil {
				alive = false
			} else if it, e := c.ReadItem(); e != nil || it.Response == nil {
				var fe *rtspc.FramingError
				if errors.As(e, &fe) {
					return out, rep, bad("framing", "after TEARDOWN: %v", e), nil
				}
				if errors.Is(e, rtspc.ErrTimeout) {
					return out, rep, bad("hang", "after TEARDOWN the connection neither answers nor closes"), nil
				}
				alive = false
			}
			if !alive {
				out.closedByTeardown = true
				break
			}
			continue
		}
		// stimulus: media flows on both live streams all the time
		w.pump(2)
		if !playOK {
			if n := udpGot(); n > 0 {
				return out, rep, bad("media-before-play", "step %d (%s): %d UDP datagrams arrived on the announced client port before any successful PLAY", i, ex.Req, n), nil
			}
		} else {
			out.udpSeen += udpGot()
			if why := wrongDgrams(); why != "" {
				return out, rep, bad("media-channel", "after step %d (%s): %s", i, ex.Req, why), nil
			}
		}
		if f := checkResources(fmt.Sprintf("after step %d (%s → %d)", i, ex.Req, r.Status)); f != nil {
			return out, rep, f, nil
		}
	}

	// optional liveness evidence: media does arrive after a successful PLAY over TCP
	if f := wspChannels(); f != nil {
		return out, rep, f, nil
	}
	if f := dataFrames(); f != nil {
		return out, rep, f, nil
	} else if wl != nil && out.framesSeen > 0 && !playOK {
		return out, rep, bad("media-before-play", "%d frames on the WSP data channel although no PLAY succeeded", out.framesSeen), nil
	}
	if alive && p.CheckFrames && wl != nil && wl.data != nil && m.St == stPlaying {
		srv.WaitFor(2*time.Second, func() bool { w.pump(1); dataFrames(); return out.framesSeen > 0 })
		if f := wspChannels(); f != nil {
			return out, rep, f, nil
		}
	}
	if alive && p.CheckFrames && wl == nil && m.St == stPlaying && !m.hasSetup("udp") && !m.hasSetup("mcast") {
		deadline := time.Now().Add(2 * time.Second)
		for out.framesSeen == 0 && time.Now().Before(deadline) {
			w.pump(1)
			it, e := c.ReadItemTimeout(10 * time.Millisecond)
			if e == nil && it.Frame != nil {
				out.framesSeen++
				if why := wrongFrame(it.Frame); why != "" {
					return out, rep, bad("media-channel", "while playing: %s", why), nil
				}
			} else if e != nil && !errors.Is(e, rtspc.ErrTimeout) {
				return out, rep, bad("framing", "while playing: %v", e), nil
			}
		}
	}

	// recording: what the publisher sends on the channel its last ACCEPTED SETUP negotiated is
	// relayed to a consumer of the stream, what it sends on a channel that only a refused
	// SETUP announced (or on no channel of the session at all) is not
	if rc, ok := c.(*rtspc.Client); ok && alive && m.St == stRecording {
		track := ""
		for _, tr := range []string{"video", "audio"} {
			if m.Setup[tr] == "tcp" {
				track = tr
				break
			}
		}
		if pubSt := media.Get(m.Path); track != "" && pubSt != nil {
			badCh := 250
			if n := len(refusedChans[track]); n > 0 {
				badCh = refusedChans[track][n-1]
			}
			mk := func(tag string, seq uint16) []byte {
				if track == "audio" {
					return rtppack.Sequence([][]byte{rtppack.AacHbr([][]byte{[]byte(tag)})}, true, 97, 1024*uint32(seq), seq, 0xAE1A)[0].Marshal()
				}
				return rtppack.Sequence([][]byte{append([]byte{0x41}, tag...)}, true, 96, 3000*uint32(seq), seq, 0xAE1A)[0].Marshal()
			}
			rec := mediah.NewRec("c12-relay")
			cid := pubSt.StartConsume(rec, media.RTPPacket, "c12-relay")
			has := func(tag string) bool {
				for _, pk := range rec.Got() {
					if rp, ok := pk.(*rtp.Packet); ok && bytes.Contains(rp.Data, []byte(tag)) {
						return true
					}
				}
				return false
			}
			rc.WriteFrame(byte(badCh), mk("C12-RELAY-WRONG-CHANNEL", 1))
			rc.WriteFrame(byte(m.Chan[track]), mk("C12-RELAY-RIGHT-CHANNEL", 2))
			relayed := srv.WaitFor(releaseBound/2, func() bool { return has("C12-RELAY-RIGHT-CHANNEL") })
			wrong := has("C12-RELAY-WRONG-CHANNEL")
			pubSt.StopConsume(cid)
			out.relayChecked = true
			if !relayed {
				return out, rep, bad("record-channel", "recording (%s): an RTP packet sent on interleaved channel %d, which the last accepted SETUP of the %s track negotiated, did not reach a consumer of %s", m, m.Chan[track], track, m.Path), nil
			}
			if wrong {
				return out, rep, bad("record-channel", "recording (%s): an RTP packet sent on interleaved channel %d, which no accepted SETUP negotiated, was relayed to a consumer of %s", m, badCh, m.Path), nil
			}
		}
	}

	out.windows = int(atomic.LoadInt32(&windows))
	if alive && p.CheckFrames && m.St == stPlaying && m.hasSetup("udp") {
		srv.WaitFor(300*time.Millisecond, func() bool { w.pump(1); out.udpSeen += udpGot(); return out.udpSeen > 0 })
	}
	if playOK {
		out.udpSeen += udpGot() // also the evidence that the UDP observation is not vacuous
		if why := wrongDgrams(); why != "" {
			return out, rep, bad("media-channel", "while playing: %s", why), nil
		}
	}
	// disconnect: everything the session held is released
	if alive {
		if p.End == "halfclose" && p.Transport == "tcp" {
			c.CloseWrite()
			deadline := time.Now().Add(ioBound)
			for {
				_, e := c.ReadItemTimeout(time.Until(deadline))
				if e != nil {
					var fe *rtspc.FramingError
					if errors.As(e, &fe) && !fe.Truncated { // a last frame cut off by the close is not a malformed stream
						return out, rep, bad("framing", "after half-close: %v", e), nil
					}
					if errors.Is(e, rtspc.ErrTimeout) {
						return out, rep, bad("hang", "the server does not close a connection whose client half-closed"), nil
					}
					break
				}
			}
		}
		if rc, ok := c.(*rtspc.Client); ok && p.End == "reset" {
			rc.Abort() // disconnect by RST
		} else {
			c.Close()
		}
	}
	*m = *newModel(wsPath)
	if f := checkResources("after the connection ended"); f != nil {
		return out, rep, f, nil
	}
	if !srv.WaitFor(releaseBound, func() bool { return conns() == conns0 }) {
		return out, rep, bad("conns", "after the connection ended: %d RTSP+WSP connections, before the case %d", conns(), conns0), nil
	}
	if st, _ := srv.Streams(); st != streams0 {
		return out, rep, bad("registry", "after the connection ended: %d streams registered, before the case %d", st, streams0), nil
	}
	if n := w.s.LogCount("session panic"); n != panics0 {
		w.sessionPanics = n
		return out, rep, bad("panic", "the RTSP session goroutine panicked during the case:\n%s", tail(w.s.Logs(), 1500)), nil
	}
	if n := w.s.LogCount("consume routine panic"); n != cpanics0 {
		// outside the statement (the panic is recovered and the consumer is released, which is
		// checked above); kept as an observation: process() sets s.conn = nil while the delivery
		// goroutine may still be inside tcpConsumer.Consume
		out.consumePanics = int(n - cpanics0)
	}
	return out, rep, nil, nil
}

func tail(s string, n int) string {
	if len(s) > n {
		return s[len(s)-n:]
	}
	return s
}

func methodClass(m string) string {
	if muxKnown[m] {
		return m
	}
	return "unknown-method"
}

func record(p *plan, out outcome) {
	evid.Eval(1)
	evid.Class("transport " + p.Transport)
	evid.Class("end " + p.End)
	for _, s := range p.Steps {
		evid.Class("req " + methodClass(s.Method))
		if s.Method == "SETUP" {
			if s.Malformed != "" {
				evid.Class("setup malformed:" + s.Malformed)
			} else {
				evid.Class("setup " + s.Trans + "/" + map[string]string{"": "default", "play": "play", "record": "record"}[s.Mode])
			}
		}
		if s.Method == "ANNOUNCE" {
			evid.Class("announce sdp:" + s.SDP)
		}
		if s.Deco != "" {
			evid.Class("uri octets in " + s.DecoAt + " (" + methodClass(s.Method) + ")")
		}
		if s.HdrDeco != "" {
			evid.Class("octets in header " + s.HdrDeco)
		}
	}
	if out.reachedPlaying {
		evid.Class("reached playing")
	}
	if out.reachedRecording {
		evid.Class("reached recording")
	}
	if out.refused > 0 {
		evid.Class("has refused request")
	}
	if out.n455 > 0 {
		evid.Class("has 455")
	}
	if out.framesSeen > 0 {
		evid.Class("interleaved frames seen after PLAY")
	}
	if out.closedByTeardown {
		evid.Class("ended by TEARDOWN")
	}
	if out.relayChecked {
		evid.Class("recording: relay of the accepted channel checked")
	}
	if out.refusedWithChannels > 0 && (out.framesSeen > 0 || out.udpSeen > 0 || out.relayChecked) {
		evid.Class("media observed after a refused SETUP that carried its own channels")
	}
	if out.udpSeen > 0 {
		evid.Class("UDP datagrams seen on the client port after PLAY")
	}
	if out.windows > 0 {
		w := "tcp/ws"
		for _, st := range p.Steps {
			if st.Method == "SETUP" && st.Trans == "udp" {
				w = "udp"
			}
		}
		evid.Class("window owned: packet published between attach and PLAY answer (" + w + " in plan)")
	}
	if out.consumePanics > 0 {
		evid.Class("observation: recovered nil-conn panic in the delivery goroutine at session end")
	}
	if (out.reachedPlaying || out.reachedRecording) && out.refused > 0 {
		b, _ := json.Marshal(p)
		evid.Nontrivial(evid.FP(string(b)))
		evid.Class("non-trivial: reached playing/recording with >= 1 refused request")
		evid.Sample("nontrivial-"+p.Transport, p)
	}
}

const ruleText = "rapid: request sequences (len <= 10 quick / 14 thorough) over {OPTIONS, DESCRIBE, ANNOUNCE, SETUP(video|audio x tcp|udp|multicast x default|play|record x valid|7 malformed transports), PLAY, RECORD, PAUSE, GET/SET_PARAMETER, TEARDOWN, unknown methods} x paths {live, live+multicast, missing, fresh publish path} x SDP {valid, video only, no control, garbage, no format, empty}; 60% of the steps follow the legal dialogue towards a drawn goal (play/record), the rest is free; on TCP, ws-rtsp and WSP (control + data channel); each request is followed by a pipelined OPTIONS probe; judged by the reference automaton of model_test.go (RFC 2326 A.2 + statement) and by consumer counts / registry / RtspConns after every step and after disconnect. Non-trivial = the sequence reaches playing or recording and contains >= 1 refused request; distinct = distinct plan"

func runRapid(t *testing.T, transport string, quick, thorough int) {
	w := getWorld(t)
	evid.Rule(ruleText)
	evid.Assume("lib/rtspc strict reader and lib/srv in-process server are trusted (self-tested in their packages)")
	evid.Checks(quick, thorough)
	rapid.Check(t, func(t *rapid.T) {
		p := genPlan(t, transport)
		out, rep, fail, err := w.runPlan(p)
		if err != nil {
			t.Fatalf("%v", err)
		}
		if fail != nil {
			evid.Violation(t, fail.check+"-"+transport, rep, "%s", fail.msg)
		}
		record(p, out)
	})
}

func TestSequencesTCP(t *testing.T) { runRapid(t, "tcp", 1500, 16000) }

func TestSequencesWS(t *testing.T) { runRapid(t, "ws", 600, 6000) }

func TestSequencesWSP(t *testing.T) { runRapid(t, "wsp", 500, 5000) }

// TestReplayFile re-runs the plan of a saved violation without rapid.
func TestReplayFile(t *testing.T) {
	f := os.Getenv("VERIF_REPLAY_FILE")
	if f == "" {
		t.Skip("no replay file")
	}
	b, err := os.ReadFile(f)
	if err != nil {
		t.Fatal(err)
	}
	var doc struct {
		Case report `json:"case"`
	}
	if err := json.Unmarshal(b, &doc); err != nil || doc.Case.Plan == nil {
		t.Fatalf("replay file: %v", err)
	}
	w := getWorld(t)
	_, rep, fail, err := w.runPlan(doc.Case.Plan)
	if err != nil {
		t.Fatal(err)
	}
	if fail != nil {
		tr, _ := json.MarshalIndent(rep.Transcript, "", " ")
		t.Fatalf("%s: %s\n%s", fail.check, fail.msg, tr)
	}
}

var _ = io.EOF
