// Reference automaton for C12, written from the property statement and
// RFC 2326 (§10 method definitions, §12.39 Transport, Appendix A.2 server state
// machine). It never looks at ipchub's code or data structures.
//
// What the model fixes for a request, given its own state:
//
//	expOK        the response must be 2xx, then the transition is taken
//	expRefuse    the response must be 4xx/5xx (any code), nothing changes
//	expIllegal   the response must be 455, nothing changes
//	expNot455    any status except 455 (a method that IS legal in this state may be
//	             refused for another reason, but not as "not valid in this state")
//	expAny       the statement and the RFC leave the outcome to the server; a 2xx
//	             takes the transition, anything else changes nothing
//	or455        wrapper: 455 is accepted (nothing changes), otherwise the inner
//	             expectation judges — used where RFC 2326 lets a server choose between
//	             serving a request in a non-initial state and refusing it with 455
//
// Decisions on doubtful cases (each from the statement + RFC 2326):
//
//	D1 OPTIONS is legal in every state (RFC A: "does not affect state") → 2xx.
//	D2 TEARDOWN is legal in every state (A.2 lists it in Init, Ready, Playing,
//	   Recording) → 2xx; afterwards everything the session held is released; the
//	   server may or may not close the connection.
//	D3 PLAY is illegal (455) unless a description was obtained by DESCRIBE and
//	   a SETUP in play mode succeeded ("playing can only be reached through
//	   DESCRIBE then SETUP then PLAY"); in Playing it is legal again (A.2:
//	   Playing --PLAY--> Playing), so it must be answered and not with 455. RECORD is
//	   the mirror image with ANNOUNCE / SETUP(mode=record) / Recording.
//	D4 PLAY in a record session and RECORD in a play session are illegal (455).
//	D5 PAUSE, GET_PARAMETER, SET_PARAMETER and unknown methods: the statement is
//	   silent and the server does not advertise them in Public; any status is
//	   accepted (455, 501, 405, 200 …). Only a 2xx to PAUSE while playing /
//	   recording moves the model (to Ready, §10.6). They still must be answered
//	   exactly once and must not disturb the session.
//	D6 DESCRIBE / ANNOUNCE after a successful SETUP (Ready, Playing, Recording):
//	   RFC lists neither in the state table; a server may serve them or refuse
//	   them with 455 → or455(the Init rule).
//	D7 SETUP while Playing / Recording: §10.4 — the server MAY allow a transport
//	   change, otherwise it MUST answer 455 → or455(expAny).
//	D8 SETUP without any description, for a track that the current description
//	   does not contain, with a transport the RFC grammar cannot derive, with
//	   mode=record in a play session or mode=play (the default, §12.39) in a
//	   record session → refused, any code (455 included). Exception: once a
//	   SETUP(mode=record) was accepted, a further SETUP that carries no mode parameter
//	   may inherit the session's mode (left to the server).
//	D9 SETUP for a track URL under another path than the described one, SETUP
//	   when the description has no a=control, record over UDP / multicast: outcome
//	   left to the server (expAny).
//	D10 multicast SETUP on a stream that has no multicast source must be refused;
//	   on one that has, it must be accepted.
//	D11 a refused request changes nothing (stated for 455; for other refusals this
//	   is what "keeps the connection usable after any refused request" means
//	   here: the legal dialogue can still be completed afterwards).
//	D12 over ws-rtsp the path of a DESCRIBE is the path of the WebSocket URL
//	   (the endpoint is /streams/<path>), not the one in the request line; once an
//	   ANNOUNCE succeeded on the connection the outcome of a DESCRIBE is left open.
//	D13 the WSP control channel is a play-only proxy (DESCRIBE / SETUP over the
//	   WebSocket / PLAY / PAUSE): ANNOUNCE and RECORD must be refused there (any
//	   code), UDP and multicast transports are left to the server.
//	D14 after a PAUSE answered 2xx the model is in Ready (§10.6), the stream
//	   attachment may be kept (PAUSE keeps resources), and a SETUP may still be
//	   answered 455 by a server that treats the paused session as playing.
//	D15 a transport whose client_port is above 65535 may be accepted or refused.
//	D16 ipchub keeps one transport kind per session (the last accepted SETUP's); a
//	   track accepted over tcp, then accepted over udp, in a session whose last
//	   SETUP is tcp again is played on the channel of its EARLIER accepted tcp
//	   SETUP (and the mirror image for client ports). Every request of such a
//	   history was accepted, and the statement does not say which of a track's
//	   accepted transports wins: tolerated and counted as a class. Channels /
//	   ports that only a refused SETUP carried stay forbidden.
package c12

import "fmt"

type mstate int

const (
	stInit mstate = iota
	stReady
	stPlaying
	stRecording
)

func (s mstate) String() string { return [...]string{"init", "ready", "playing", "recording"}[s] }

type expKind int

const (
	expOK expKind = iota
	expRefuse
	expIllegal
	expNot455
	expAny
)

func (k expKind) String() string {
	return [...]string{"2xx", "4xx/5xx", "455", "not-455", "any"}[k]
}

type expectation struct {
	Kind  expKind
	Or455 bool
	Why   string
	apply func(m *model) // transition on 2xx (nil = none)
}

// env is what the model may know about the world outside the session.
type env struct {
	Live      map[string]bool // canonical paths with a live stream
	Multicast map[string]bool // live paths whose stream can be multicast
}

type model struct {
	St        mstate
	Mode      string            // "" | "play" | "record": set by the last successful DESCRIBE / ANNOUNCE
	Path      string            // path of the current description
	Tracks    map[string]bool   // media kinds of the current description that carry an a=control
	NoCtl     bool              // the current description has media without a=control
	Setup     map[string]string // media kind → transport kind of accepted SETUPs
	Chan      map[string]int    // media kind → RTP interleaved channel of the last ACCEPTED tcp SETUP (RTCP = +1)
	Port      map[string]int    // media kind → RTP client port of the last ACCEPTED udp SETUP
	Released  bool              // after a successful TEARDOWN
	WSPath    string            // != "": ws-rtsp connection to this path (D12)
	WSP       bool              // WSP control channel: a play-only proxy endpoint (D13)
	Paused    bool              // a PAUSE was answered 2xx and no PLAY since (D14)
	Announced string            // path of the last successful ANNOUNCE on this connection
	Unusable  bool              // an accepted SETUP carried a client_port above 65535 (D15)
	// D16: every interleaved channel / client port an ACCEPTED SETUP of a track has negotiated in
	// this session. ipchub keeps ONE transport kind per session (that of the last accepted
	// SETUP); after a track was accepted over tcp, accepted again over udp, and the session's
	// last SETUP is tcp once more, the track is played on the channel of its earlier accepted
	// tcp SETUP. Nothing was refused in such a history and the statement does not say which of a
	// track's accepted transports wins, so these are tolerated; a channel / port that only a
	// REFUSED SETUP carried is never in here.
	WasChan map[string]map[int]bool
	WasPort map[string]map[int]bool
}

func newModel(wsPath string) *model {
	return &model{Tracks: map[string]bool{}, Setup: map[string]string{}, Chan: map[string]int{}, Port: map[string]int{}, WSPath: wsPath,
		WasChan: map[string]map[int]bool{}, WasPort: map[string]map[int]bool{}}
}

func (m *model) String() string {
	return fmt.Sprintf("%s/mode=%q/path=%q/setup=%v", m.St, m.Mode, m.Path, m.Setup)
}

// playingVia reports the transport kinds in use while playing.
func (m *model) hasSetup(kind string) bool {
	for _, k := range m.Setup {
		if k == kind {
			return true
		}
	}
	return false
}

func (m *model) describe(e *env, s *step) expectation {
	path := s.Path
	if m.WSPath != "" {
		path = m.WSPath // D12
	}
	if m.WSPath != "" && m.Announced != "" {
		// D12: which path a ws-rtsp connection describes after an ANNOUNCE re-targeted it is
		// not defined anywhere; the outcome is left to the server
		if !e.Live[path] {
			path = m.Announced
		}
		return expectation{Kind: expAny, Why: "DESCRIBE over ws-rtsp after an ANNOUNCE on the same connection (D12)", apply: func(m *model) {
			m.Mode, m.Path = "play", path
			m.Tracks = map[string]bool{"video": true, "audio": true}
			m.NoCtl = false
		}}
	}
	if !e.Live[path] {
		return expectation{Kind: expRefuse, Why: "DESCRIBE of a path without a stream"}
	}
	return expectation{Kind: expOK, Why: "DESCRIBE of a live path", apply: func(m *model) {
		m.Mode, m.Path = "play", path
		m.Tracks = map[string]bool{"video": true, "audio": true}
		m.NoCtl = false
	}}
}

func (m *model) announce(e *env, s *step) expectation {
	switch s.SDP {
	case "garbage", "noformat", "empty":
		return expectation{Kind: expRefuse, Why: "ANNOUNCE with an SDP that is not valid (" + s.SDP + ")"}
	}
	path := s.Path
	return expectation{Kind: expOK, Why: "ANNOUNCE with a valid SDP", apply: func(m *model) {
		m.Mode, m.Path = "record", path
		m.Announced = path
		m.Tracks = map[string]bool{}
		m.NoCtl = false
		switch s.SDP {
		case "valid":
			m.Tracks["video"], m.Tracks["audio"] = true, true
		case "videoonly":
			m.Tracks["video"] = true
		case "nocontrol":
			m.NoCtl = true
		}
	}}
}

func (m *model) setup(e *env, s *step) expectation {
	took := func(m *model) {
		m.Setup[s.Track] = s.Trans
		delete(m.Chan, s.Track)
		delete(m.Port, s.Track)
		switch s.Trans {
		case "tcp":
			m.Chan[s.Track] = s.chanBase
			if m.WasChan[s.Track] == nil {
				m.WasChan[s.Track] = map[int]bool{}
			}
			m.WasChan[s.Track][s.chanBase] = true
		case "udp":
			m.Port[s.Track] = s.udpPort
			if m.WasPort[s.Track] == nil {
				m.WasPort[s.Track] = map[int]bool{}
			}
			m.WasPort[s.Track][s.udpPort] = true
		}
		if m.St == stInit {
			m.St = stReady
		}
	}
	if m.St == stPlaying || m.St == stRecording {
		return expectation{Kind: expAny, Or455: true, Why: "SETUP while " + m.St.String() + " (D7)"}
	}
	if m.Paused {
		return expectation{Kind: expAny, Or455: true, Why: "SETUP in a paused session (D14)", apply: took}
	}
	if m.Mode == "" {
		return expectation{Kind: expRefuse, Why: "SETUP without a description (D8)"}
	}
	if s.Malformed != "" && s.Malformed != "hugeport" {
		return expectation{Kind: expRefuse, Why: "SETUP with malformed transport " + s.Malformed + " (D8)"}
	}
	want := s.Mode
	if want == "" {
		want = "play" // §12.39: "If not provided, the default is PLAY"
	}
	if s.Mode == "" && m.Mode == "record" && len(m.Setup) > 0 {
		// D8: the session's record mode was already stated by an accepted SETUP(mode=record);
		// a server may let a further SETUP without mode parameter inherit it
		return expectation{Kind: expAny, Why: "SETUP without mode parameter after an accepted SETUP(mode=record) (D8)", apply: took}
	}
	if want != m.Mode {
		return expectation{Kind: expRefuse, Why: fmt.Sprintf("SETUP mode=%s in a %s session (D8)", want, m.Mode)}
	}
	if s.Malformed == "hugeport" {
		// D15: client_port above 65535 is syntactically a transport but names no UDP port: the
		// SETUP may be accepted or refused; once accepted, the following PLAY / RECORD may fail
		// (nowhere to send to) or succeed - but whatever is refused changes nothing
		return expectation{Kind: expAny, Why: "SETUP with client_port above 65535 (D15)", apply: func(m *model) { took(m); m.Unusable = true }}
	}
	if m.NoCtl {
		return expectation{Kind: expAny, Why: "SETUP against a description without a=control (D9)", apply: took}
	}
	if !m.Tracks[s.Track] {
		return expectation{Kind: expRefuse, Why: "SETUP of a track the description does not contain (D8)"}
	}
	if s.Path != m.Path {
		return expectation{Kind: expAny, Why: "SETUP with a track URL under another path (D9)", apply: took}
	}
	if m.WSP && s.Trans != "tcp" {
		return expectation{Kind: expAny, Why: s.Trans + " transport through the WSP proxy (D13)", apply: took}
	}
	if m.Mode == "record" {
		if s.Trans != "tcp" {
			return expectation{Kind: expAny, Why: "record over " + s.Trans + " (D9)", apply: took}
		}
		return expectation{Kind: expOK, Why: "SETUP mode=record over TCP after ANNOUNCE", apply: took}
	}
	if s.Trans == "mcast" {
		if e.Multicast[m.Path] {
			return expectation{Kind: expOK, Why: "multicast SETUP on a multicast-capable stream (D10)", apply: took}
		}
		return expectation{Kind: expRefuse, Why: "multicast SETUP on a stream without multicast source (D10)"}
	}
	return expectation{Kind: expOK, Why: "SETUP " + s.Trans + " after DESCRIBE", apply: took}
}

// expect returns what the reference automaton demands for step s in state m.
func (m *model) expect(e *env, s *step) expectation {
	switch s.Method {
	case "OPTIONS":
		return expectation{Kind: expOK, Why: "OPTIONS is legal in every state (D1)"}
	case "TEARDOWN":
		return expectation{Kind: expOK, Why: "TEARDOWN is legal in every state (D2)", apply: func(m *model) {
			wsp := m.WSP
			*m = *newModel(m.WSPath)
			m.WSP = wsp
			m.Released = true
		}}
	case "DESCRIBE":
		x := m.describe(e, s)
		if m.St != stInit {
			x.Or455 = true // D6
			x.Why += " in state " + m.St.String() + " (D6)"
		}
		return x
	case "ANNOUNCE":
		if m.WSP {
			return expectation{Kind: expRefuse, Why: "ANNOUNCE on the play-only WSP endpoint (D13)"}
		}
		x := m.announce(e, s)
		if m.St != stInit {
			x.Or455 = true
			x.Why += " in state " + m.St.String() + " (D6)"
		}
		return x
	case "SETUP":
		return m.setup(e, s)
	case "PLAY":
		switch {
		case m.St == stPlaying:
			return expectation{Kind: expNot455, Why: "PLAY while playing is legal (A.2) (D3)"}
		case m.St == stReady && m.Mode == "play":
			if s.Path != m.Path {
				return expectation{Kind: expAny, Why: "PLAY with a URL under another path than the session's", apply: func(m *model) { m.St, m.Paused = stPlaying, false }}
			}
			if m.Unusable {
				return expectation{Kind: expAny, Why: "PLAY after a SETUP whose client_port is no UDP port (D15)", apply: func(m *model) { m.St, m.Paused = stPlaying, false }}
			}
			return expectation{Kind: expOK, Why: "PLAY after DESCRIBE and SETUP", apply: func(m *model) { m.St, m.Paused = stPlaying, false }}
		case s.Path != m.Path && m.Path != "":
			return expectation{Kind: expRefuse, Why: "PLAY in state " + m.String() + " with a foreign URL"}
		default:
			return expectation{Kind: expIllegal, Why: "PLAY in state " + m.String() + " (D3/D4)"}
		}
	case "RECORD":
		if m.WSP {
			return expectation{Kind: expRefuse, Why: "RECORD on the play-only WSP endpoint (D13)"}
		}
		switch {
		case m.St == stRecording:
			return expectation{Kind: expNot455, Why: "RECORD while recording is legal (A.2) (D3)"}
		case m.St == stReady && m.Mode == "record":
			if s.Path != m.Path {
				return expectation{Kind: expAny, Why: "RECORD with a URL under another path than the session's", apply: func(m *model) { m.St = stRecording }}
			}
			if m.Unusable {
				return expectation{Kind: expAny, Why: "RECORD after a SETUP whose client_port is no UDP port (D15)", apply: func(m *model) { m.St = stRecording }}
			}
			if !m.hasSetup("tcp") {
				return expectation{Kind: expAny, Why: "RECORD with only non-TCP transports set up (D9)", apply: func(m *model) { m.St = stRecording }}
			}
			return expectation{Kind: expOK, Why: "RECORD after ANNOUNCE and SETUP(record)", apply: func(m *model) { m.St = stRecording }}
		case s.Path != m.Path && m.Path != "":
			return expectation{Kind: expRefuse, Why: "RECORD in state " + m.String() + " with a foreign URL"}
		default:
			return expectation{Kind: expIllegal, Why: "RECORD in state " + m.String() + " (D3/D4)"}
		}
	case "PAUSE":
		if m.St == stPlaying || m.St == stRecording {
			return expectation{Kind: expAny, Why: "PAUSE (D5)", apply: func(m *model) { m.St, m.Paused = stReady, true }}
		}
		return expectation{Kind: expAny, Why: "PAUSE outside playing/recording (D5)"}
	default: // GET_PARAMETER, SET_PARAMETER, unknown methods
		return expectation{Kind: expAny, Why: s.Method + " (D5)"}
	}
}

// judge compares a status code with the expectation; it returns "" when the
// status is acceptable and tells whether the transition is to be taken.
func (x expectation) judge(status int) (problem string, take bool) {
	ok2 := status >= 200 && status < 300
	refused := status >= 400 && status < 600
	if !ok2 && !refused {
		return fmt.Sprintf("status %d is neither 2xx nor 4xx/5xx", status), false
	}
	if x.Or455 && status == 455 {
		return "", false
	}
	switch x.Kind {
	case expOK:
		if !ok2 {
			return fmt.Sprintf("reference automaton expects success (%s), server refused with %d", x.Why, status), false
		}
	case expRefuse:
		if !refused {
			return fmt.Sprintf("reference automaton expects a refusal (%s), server answered %d", x.Why, status), false
		}
	case expIllegal:
		if status != 455 {
			return fmt.Sprintf("reference automaton expects 455 (%s), server answered %d", x.Why, status), false
		}
	case expNot455:
		if status == 455 {
			return fmt.Sprintf("method is legal here (%s) but was refused with 455", x.Why), false
		}
	}
	return "", ok2
}
