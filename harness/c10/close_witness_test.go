package c10

import (
	"bytes"
	"io"
	"sync/atomic"
	"testing"
	"time"

	"github.com/cnotch/ipchub/av/codec"
	"github.com/cnotch/ipchub/av/format/hls"
	"verif/harness/lib/evid"
	"verif/harness/lib/tsdemux"
)

// A stream is closed (Stream.close -> SegmentGenerator.Close) while its TS
// muxer goroutine is in the middle of writing a frame into the open in-memory
// segment, and another stream opens a segment right afterwards. The other
// stream's segment must hold its own packets only.
//
// The schedule point hls "segment.write" (build tag verif) stops stream A in
// front of the second transport packet of a three-packet frame; a second
// goroutine closes A and starts stream B, then A's write goes on. The wait for
// that goroutine is bounded (a Close that waits for the write in flight cannot
// finish inside the window); the verdict is B's first segment, nothing else.
func TestWitnessCloseDuringWriteDoesNotReachOtherStreams(t *testing.T) {
	defer hls.VerifSetSched(nil)
	rounds := 12
	for round := 0; round < rounds; round++ {
		a := newTiny(t, 1)
		var b *tiny
		var armed, hits atomic.Int32
		done := make(chan struct{})
		hls.VerifSetSched(func(string) {
			if armed.Load() == 0 || hits.Add(1) != 2 { // the frame's second packet
				return
			}
			armed.Store(0)
			go func() {
				a.sg.Close()
				a.pl.Close()
				b = newTiny(t, 1)
				b.n = 100
				b.video(t, 0x65, 0)
				b.video(t, 0x41, 400)
				close(done)
			}()
			select {
			case <-done:
			case <-time.After(150 * time.Millisecond):
			}
		})
		a.video(t, 0x65, 0)
		armed.Store(1)
		a.n++
		p := int64(500) * 1000000
		big := append([]byte{0x41, 0x88, a.n}, bytes.Repeat([]byte{0xA5}, 420)...) // three packets
		if err := a.vp.Packetize(&codec.Frame{MediaType: codec.MediaTypeVideo, Payload: big, Pts: p, Dts: p}); err != nil {
			t.Fatal(err)
		}
		<-done
		hls.VerifSetSched(nil)
		// B goes on in this goroutine and completes its first segment
		b.video(t, 0x41, 800)
		b.video(t, 0x41, 1100)
		b.video(t, 0x65, 1500)
		r, _, err := b.pl.Segment(1)
		if err != nil {
			t.Fatalf("stream B: segment 1 should be complete: %v", err)
		}
		ts, _ := io.ReadAll(r)
		b.sg.Close()
		b.pl.Close()
		evid.Eval(1)
		res, derr := tsdemux.Demux(ts)
		foreign := bytes.Count(ts, []byte{0xA5, 0xA5, 0xA5, 0xA5, 0xA5, 0xA5, 0xA5, 0xA5})
		if derr != nil || foreign > 0 || len(res.PES[videoPID]) != 4 {
			n := -1
			if res != nil {
				n = len(res.PES[videoPID])
			}
			evid.Violation(t, "witness/close-during-write", map[string]any{"round": round, "segment": evid.Hex(ts), "bytes": len(ts)},
				"stream A is closed while its muxer goroutine writes a three-packet frame, stream B opens its first segment: B's segment 1 (%d bytes, 4 frames written) holds %d video PES, demultiplexer says %v, bytes of A's frame found: %v - A's writer went on writing into the pooled buffer that Close had released and B had taken", len(ts), n, derr, foreign > 0)
		}
	}
	evid.Class("witness:close-during-write-leaves-other-streams-alone")
}
