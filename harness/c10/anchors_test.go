package c10

import (
	"bytes"
	"testing"

	"verif/harness/lib/tsdemux"
)

// The harness's own parser against the example playlists of RFC 8216 section 8
// (hand-checked golden vectors; the repository ships no playlist), and its
// frame generator against the Annex-B splitter.
func TestAnchors(t *testing.T) {
	// 8.1 Simple Media Playlist
	pl, err := parseM3U8([]byte("#EXTM3U\n#EXT-X-TARGETDURATION:10\n#EXT-X-VERSION:3\n#EXTINF:9.009,\nhttp://media.example.com/first.ts\n#EXTINF:9.009,\nhttp://media.example.com/second.ts\n#EXTINF:3.003,\nhttp://media.example.com/third.ts\n#EXT-X-ENDLIST\n"))
	if err != nil {
		t.Fatal(err)
	}
	if pl.Target != 10 || pl.Version != 3 || pl.HasMediaSeq || !pl.EndList || len(pl.Entries) != 3 ||
		pl.Entries[0].Dur != 9.009 || pl.Entries[2].Dur != 3.003 || pl.Entries[1].URI != "http://media.example.com/second.ts" {
		t.Fatalf("RFC 8216 8.1 parsed as %+v", pl)
	}
	// 8.2 Live Media Playlist Using HTTPS
	pl, err = parseM3U8([]byte("#EXTM3U\r\n#EXT-X-VERSION:3\r\n#EXT-X-TARGETDURATION:8\r\n#EXT-X-MEDIA-SEQUENCE:2680\r\n\r\n#EXTINF:7.975,\r\nhttps://priv.example.com/fileSequence2680.ts\r\n#EXTINF:7.941,\r\nhttps://priv.example.com/fileSequence2681.ts\r\n#EXTINF:7.975,\r\nhttps://priv.example.com/fileSequence2682.ts\r\n"))
	if err != nil {
		t.Fatal(err)
	}
	if pl.Target != 8 || !pl.HasMediaSeq || pl.MediaSeq != 2680 || len(pl.Entries) != 3 || pl.Entries[1].Dur != 7.941 ||
		pl.Entries[2].URI != "https://priv.example.com/fileSequence2682.ts" {
		t.Fatalf("RFC 8216 8.2 parsed as %+v", pl)
	}
	// 8.3 style discontinuity + integer durations + title
	pl, err = parseM3U8([]byte("#EXTM3U\n#EXT-X-TARGETDURATION:10\n# a comment\n#EXT-X-UNKNOWN-TAG:1\n#EXTINF:10,title, with comma\na.ts\n#EXT-X-DISCONTINUITY\n#EXTINF:8,\nb.ts"))
	if err != nil || len(pl.Entries) != 2 || pl.Entries[0].Dur != 10 || pl.Entries[0].Discontinuity || !pl.Entries[1].Discontinuity || pl.Entries[1].URI != "b.ts" {
		t.Fatalf("discontinuity playlist parsed as %+v, %v", pl, err)
	}
	for _, bad := range []string{
		"",                                     // nothing
		"#EXT-X-VERSION:3\n#EXTM3U\n",          // EXTM3U not first
		"\n#EXTM3U\n#EXT-X-TARGETDURATION:1\n", // blank line first
		"#EXTM3U\n#EXTINF:1.0,\na.ts\n",        // no target duration
		"#EXTM3U\n#EXT-X-TARGETDURATION:1.5\n#EXTINF:1.0,\na.ts\n", // target duration must be an integer
		"#EXTM3U\n#EXT-X-TARGETDURATION:2\na.ts\n",                 // segment without EXTINF
		"#EXTM3U\n#EXT-X-TARGETDURATION:2\n#EXTINF:-1,\na.ts\n",    // signed duration
		"#EXTM3U\n#EXT-X-TARGETDURATION:2\n#EXTINF:1e0,\na.ts\n",   // exponent
		"#EXTM3U\n#EXT-X-TARGETDURATION:2\n#EXTINF:1.0\na.ts\n",    // comma missing
		"#EXTM3U\n#EXT-X-TARGETDURATION:2\n#EXT-X-TARGETDURATION:2\n#EXTINF:1,\na.ts\n",
		"#EXTM3U\n#EXT-X-TARGETDURATION:2\n#EXTINF:1,\na.ts\n#EXT-X-MEDIA-SEQUENCE:4\n",
		"#EXTM3U\n#EXT-X-TARGETDURATION:2\n#EXTINF:1,\n",
	} {
		if pl, err := parseM3U8([]byte(bad)); err == nil {
			t.Fatalf("malformed playlist %q accepted as %+v", bad, pl)
		}
	}

	// URIs as ipchub's router takes them apart (service/streamapis.go extractStreamPathAndExt + service/hls GetTS)
	p, seq, tok, has, err := resolveURI("/streams/live/cam_1/17.ts?token=abc-._~")
	if err != nil || p != "/live/cam_1" || seq != 17 || tok != "abc-._~" || !has {
		t.Fatalf("resolveURI: %q %d %q %v %v", p, seq, tok, has, err)
	}
	p, seq, _, has, err = resolveURI("/streams/a/3.ts")
	if err != nil || p != "/a" || seq != 3 || has {
		t.Fatalf("resolveURI: %q %d %v %v", p, seq, has, err)
	}
	for _, bad := range []string{"/other/a/3.ts", "/streams/a/3.m3u8", "/streams/a/x3.ts", "http://h/streams/a/3.ts", "/streams/a/.ts"} {
		if _, _, _, _, err := resolveURI(bad); err == nil {
			t.Fatalf("URI %q accepted", bad)
		}
	}

	// generated frames: distinct, legal Annex-B content, unchanged by framing
	seen := map[string]bool{}
	for idx := 0; idx < 3000; idx++ {
		for _, size := range []int{5, 6, 17, 188, 1500} {
			v := payload(idx, false, 0x65, size)
			ns, err := tsdemux.SplitAnnexB(append([]byte{0, 0, 0, 1}, v...))
			if err != nil || len(ns) != 1 || !bytes.Equal(ns[0], v) {
				t.Fatalf("generated NAL %x does not survive Annex-B framing: %v", v, err)
			}
			ns, err = tsdemux.SplitAnnexB(append(append([]byte{0, 0, 0, 1}, v...), 0, 0, 1, 9, 0xf0))
			if err != nil || len(ns) != 2 || !bytes.Equal(ns[0], v) {
				t.Fatalf("generated NAL %x merges with the next start code: %v", v, err)
			}
		}
		k := string(payload(idx, false, 0x41, 5)[1:4])
		if seen[k] {
			t.Fatalf("frame tag of index %d repeats", idx)
		}
		seen[k] = true
		if !bytes.Equal(payload(idx, true, 0, 9)[1:4], []byte(k)) {
			t.Fatalf("audio and video tags differ for index %d", idx)
		}
	}
	// parameter sets are SPS / PPS
	for _, ps := range repoParamSets {
		if mustHex(b64hex(ps[0]))[0]&0x1f != 7 || mustHex(b64hex(ps[1]))[0]&0x1f != 8 {
			t.Fatalf("parameter set %v is not SPS/PPS", ps)
		}
	}
	if encodeASC(2, 3, 2) != "1190" { // av/codec/aac/asc_test.go
		t.Fatalf("ASC encoder: LC/48000/2 -> %s, repository test says 1190", encodeASC(2, 3, 2))
	}
}
