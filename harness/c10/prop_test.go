// C10 — HLS playlist and segments are consistent, bounded and independently
// decodable.
//
// codec.Frame sequences (GOPs shorter and longer than the fragment length,
// audio-only gaps, key frames < 100 ms apart, audio present or not) go through
// mpegts.NewH264Packetizer / NewAacPacketizer -> hls.SegmentGenerator ->
// hls.Playlist (memory and disk mode) and, in stream_test.go, through
// media.Stream (mpegts.Muxer goroutine) and the HTTP handlers of service/hls.
// The harness owns the schedule: writes are interleaved with playlist
// requests, segment fetches (the reader is kept) and reads of kept readers that
// happen after further writes, i.e. while and after the window rolls over.
//
// The oracle shares no code with ipchub: an M3U8 parser written from RFC 8216,
// lib/tsdemux (ISO/IEC 13818-1 demultiplexer, Annex-B splitter, ADTS parser)
// and a byte-level model "what Segment(seq) returned right after seq was
// completed".
package c10

import (
	"bytes"
	"encoding/binary"
	"encoding/hex"
	"encoding/json"
	"fmt"
	"io"
	"net/http/httptest"
	"net/url"
	"os"
	"path/filepath"
	"runtime"
	"strconv"
	"strings"
	"sync/atomic"
	"testing"
	"time"

	"github.com/cnotch/ipchub/av/codec"
	"github.com/cnotch/ipchub/av/format/hls"
	"github.com/cnotch/ipchub/av/format/mpegts"
	"github.com/cnotch/ipchub/av/format/rtp"
	"github.com/cnotch/ipchub/media"
	svchls "github.com/cnotch/ipchub/service/hls"
	"github.com/cnotch/xlog"
	"verif/harness/lib/evid"
	"verif/harness/lib/rtppack"
	"verif/harness/lib/tsdemux"
)

func TestMain(m *testing.M) {
	xlog.ReplaceGlobal(xlog.New(xlog.NewNopCore())) // media.Stream and the HTTP handlers log every request
	evid.Main(m, "C10")
}

const (
	videoPID = 0x100
	audioPID = 0x101
	tsMask   = uint64(1)<<33 - 1

	// the one open finding this check knows (see witness_test.go)
	sigAudioCut = "audio-cut-mid-gop"

	ruleText = "rapid-generated schedules over hls.SegmentGenerator+hls.Playlist (fragment 1,2,3,5 s and the constructor-only value 0; memory and disk mode) and over media.Stream+service/hls: blocks of GOPs (key frames <100 ms apart, shorter than / about / longer than / more than twice the fragment length, optional SEI, two-slice IDR, PTS!=DTS, start without a key frame) with AAC at 8-48 kHz in bursts, sparse, dense (with jitter and drift) or absent, audio-only gaps, interleaved with m3u8(token), fetch(seq) keeping the reader, partial reads of kept readers after further writes, close, reads after close. " +
		"Oracle: own RFC 8216 parser (EXTM3U, 3 most recent segments, consecutive numbers, MEDIA-SEQUENCE, TARGETDURATION >= EXTINF, token, every URI resolves to the bytes recorded when the segment completed), readers stay byte-identical to those bytes, earlier playlist bytes stay unchanged, every segment passes lib/tsdemux with PAT/PMT first, segments after the first start their video with SPS+PPS+IDR, segments concatenated = source frames exactly once in order (audio PES PTS within the 100 ms jitter correction), disk mode holds <= 3+1 .ts files. " +
		"A case is non-trivial when >= 5 segments completed and >= 1 read was made through a reader whose segment had already left the window."
)

// ---------------------------------------------------------------- case model

// op is one step of a schedule; every field is concrete, so a case replays
// without any generator.
type op struct {
	K     string `json:"k"` // v | a | m3u8 | fetch | read | sync | close
	Hdr   byte   `json:"hdr,omitempty"`
	Size  int    `json:"size,omitempty"`
	PTS   int64  `json:"pts,omitempty"` // 90 kHz
	DTS   int64  `json:"dts,omitempty"` // video only
	Token string `json:"token,omitempty"`
	Back  int    `json:"back,omitempty"` // fetch: seq = last completed - back; sync: absolute seq expected to exist
	Rd    int    `json:"rd,omitempty"`   // read: index into the kept readers (modulo)
	PS    int    `json:"ps,omitempty"`   // v with hdr 0x67/0x68: in-band SPS/PPS, the 1-based pair of repoParamSets it is taken from
	N     int    `json:"n,omitempty"`    // read: byte count, < 0 = to EOF
}

type caseSpec struct {
	Fragment int  `json:"fragment"`
	Disk     bool `json:"disk"`
	Stream   bool `json:"through_media_stream,omitempty"`
	Rtp      bool `json:"published_as_rtp,omitempty"`  // Stream only: every frame is an RTP packet through Stream.WriteRtpPacket (the real depacketizer keeps the metadata)
	NoSprop  bool `json:"sdp_without_sprop,omitempty"` // the SDP / the metadata the pipeline is built with carry no SPS/PPS: they arrive in band
	// Disk mode, the history of the HLS directory before this stream starts:
	// "killed": an earlier life of the same path died without clean-up and left
	// its (longer) segment files under the names this life will use;
	// "republished": the same path was published and closed before, in the same
	// directory. Sequence numbers restart at 1 either way.
	Earlier string `json:"earlier_life,omitempty"`
	// Twin: the same frames also run in memory mode; every segment served must
	// equal the memory-mode one byte for byte.
	Twin bool `json:"memory_twin,omitempty"`
	// Spin: a second goroutine asks for the next sequence number in a tight loop
	// and reads each segment the moment it resolves, while this one writes.
	Spin    bool   `json:"spinning_reader,omitempty"`
	Path    string `json:"path"`
	SPS     string `json:"sps_hex"`
	PPS     string `json:"pps_hex"`
	ASC     string `json:"asc_hex"`
	Rate    int    `json:"audio_rate"`
	FlushAt int    `json:"flush_at"` // index of the first op of the closing key-frame train, -1 = none
	Ops     []op   `json:"ops"`
}

func mustHex(s string) []byte {
	b, err := hex.DecodeString(s)
	if err != nil {
		panic(err)
	}
	return b
}

// ns converts a 90 kHz stamp to the smallest nanosecond value that the
// packetizers' ns*90000/1e9 maps back onto it.
func ns(v int64) int64 { return (v*100000 + 8) / 9 }

// payload builds the bytes of source frame idx. Video: a NAL unit that is legal
// Annex-B content (H.264 7.4.1: no 0x000000/0x000001/0x000002 inside, last byte
// not 0) with zero runs and emulation-prevention bytes kept frequent. Audio:
// arbitrary bytes. Bytes 1..3 carry idx, so two frames of a case never agree.
func payload(idx int, audio bool, hdr byte, size int) []byte {
	if size < 5 {
		size = 5
	}
	b := make([]byte, size)
	x := uint32(idx+1)*2654435761 + 0x9e3779b9
	for i := range b {
		x ^= x << 13
		x ^= x >> 17
		x ^= x << 5
		switch {
		case x>>8&7 == 0:
			b[i] = 0
		case x>>8&63 == 1:
			b[i] = 0xFF
		case x>>8&63 == 2:
			b[i] = 0xF1
		default:
			b[i] = byte(x)
		}
	}
	b[1] = 0x20 + byte(idx%200)
	b[2] = 0x20 + byte(idx/200%200)
	b[3] = 0x20 + byte(idx/40000%200)
	if audio {
		return b
	}
	b[0] = hdr
	zeros := 0
	for i := 1; i < len(b); i++ {
		if zeros >= 2 && b[i] <= 2 {
			b[i] = 3 // emulation_prevention_three_byte
		}
		if b[i] == 0 {
			zeros++
		} else {
			zeros = 0
		}
	}
	if n := len(b); b[n-1] == 0 {
		b[n-1] = 0x80
	}
	return b
}

// ---------------------------------------------------------------- M3U8 (RFC 8216)

type plEntry struct {
	Dur           float64
	URI           string
	Discontinuity bool
}

type playlist struct {
	Version     int
	Target      int
	MediaSeq    int64
	HasMediaSeq bool
	EndList     bool
	Entries     []plEntry
}

func decimalInteger(s string) (int64, bool) { // 4.2: decimal-integer = 1..20 digits
	if len(s) == 0 || len(s) > 20 {
		return 0, false
	}
	for _, c := range s {
		if c < '0' || c > '9' {
			return 0, false
		}
	}
	v, err := strconv.ParseInt(s, 10, 64)
	return v, err == nil
}

func decimalFloat(s string) (float64, bool) { // 4.2: decimal-floating-point = digits [ "." digits ], no sign, no exponent
	if s == "" {
		return 0, false
	}
	dots := 0
	for i, c := range s {
		switch {
		case c >= '0' && c <= '9':
		case c == '.' && dots == 0 && i > 0 && i < len(s)-1:
			dots++
		default:
			return 0, false
		}
	}
	v, err := strconv.ParseFloat(s, 64)
	return v, err == nil
}

// parseM3U8 reads a Media Playlist (RFC 8216 section 4). Unknown tags are
// ignored as clients must (6.3.1); what the tags this check judges must look
// like is enforced.
func parseM3U8(b []byte) (*playlist, error) {
	pl := &playlist{Target: -1}
	if !bytes.HasSuffix(b, []byte("\n")) && len(b) > 0 {
		// 4.1 lines are terminated by LF or CRLF; a last line without terminator
		// is tolerated by every client, accept it
		b = append(append([]byte(nil), b...), '\n')
	}
	lines := strings.Split(string(b), "\n")
	lines = lines[:len(lines)-1]
	var pending *plEntry
	for i, ln := range lines {
		ln = strings.TrimSuffix(ln, "\r")
		if i == 0 {
			if ln != "#EXTM3U" { // 4.3.1.1: MUST be the first line
				return nil, fmt.Errorf("first line is %q, not #EXTM3U", ln)
			}
			continue
		}
		if ln == "" { // 4.1: blank lines are ignored
			continue
		}
		if strings.TrimSpace(ln) != ln || strings.ContainsAny(ln, "\x00\t") {
			return nil, fmt.Errorf("line %d %q has surrounding white space or control characters (4.1)", i+1, ln)
		}
		if !strings.HasPrefix(ln, "#") { // a URI line
			if pending == nil {
				return nil, fmt.Errorf("line %d: media segment %q without EXTINF (4.3.2.1)", i+1, ln)
			}
			pending.URI = ln
			pl.Entries = append(pl.Entries, *pending)
			pending = nil
			continue
		}
		if !strings.HasPrefix(ln, "#EXT") { // comment
			continue
		}
		tag, val := ln[1:], ""
		if k := strings.IndexByte(tag, ':'); k >= 0 {
			tag, val = tag[:k], tag[k+1:]
		}
		switch tag {
		case "EXTM3U":
			return nil, fmt.Errorf("line %d: second #EXTM3U", i+1)
		case "EXT-X-VERSION":
			v, ok := decimalInteger(val)
			if !ok {
				return nil, fmt.Errorf("line %d: EXT-X-VERSION %q is not a decimal-integer", i+1, val)
			}
			pl.Version = int(v)
		case "EXT-X-TARGETDURATION": // 4.3.3.1
			v, ok := decimalInteger(val)
			if !ok {
				return nil, fmt.Errorf("line %d: EXT-X-TARGETDURATION %q is not a decimal-integer", i+1, val)
			}
			if pl.Target >= 0 {
				return nil, fmt.Errorf("line %d: EXT-X-TARGETDURATION appears twice", i+1)
			}
			pl.Target = int(v)
		case "EXT-X-MEDIA-SEQUENCE": // 4.3.3.2
			v, ok := decimalInteger(val)
			if !ok {
				return nil, fmt.Errorf("line %d: EXT-X-MEDIA-SEQUENCE %q is not a decimal-integer", i+1, val)
			}
			if pl.HasMediaSeq {
				return nil, fmt.Errorf("line %d: EXT-X-MEDIA-SEQUENCE appears twice", i+1)
			}
			if len(pl.Entries) > 0 || pending != nil {
				return nil, fmt.Errorf("line %d: EXT-X-MEDIA-SEQUENCE behind the first media segment", i+1)
			}
			pl.MediaSeq, pl.HasMediaSeq = v, true
		case "EXTINF": // 4.3.2.1: <duration>,[<title>]
			k := strings.IndexByte(val, ',')
			if k < 0 {
				return nil, fmt.Errorf("line %d: EXTINF %q lacks the comma", i+1, val)
			}
			d, ok := decimalFloat(val[:k])
			if !ok {
				return nil, fmt.Errorf("line %d: EXTINF duration %q is neither decimal-integer nor decimal-floating-point", i+1, val[:k])
			}
			if pending == nil {
				pending = &plEntry{}
			}
			pending.Dur = d
		case "EXT-X-DISCONTINUITY": // 4.3.2.3, applies to the next segment
			if pending == nil {
				pending = &plEntry{}
			}
			pending.Discontinuity = true
		case "EXT-X-ENDLIST":
			pl.EndList = true
		}
	}
	if pending != nil && pending.Dur != 0 {
		return nil, fmt.Errorf("EXTINF without a media segment behind it")
	}
	if pl.Target < 0 {
		return nil, fmt.Errorf("EXT-X-TARGETDURATION is missing (4.3.3.1: REQUIRED)")
	}
	return pl, nil
}

// resolveURI does what a client and then ipchub's router do with a playlist
// line: path[?query]; /streams/<stream path>/<seq>.ts. It returns the stream
// path, the sequence number and the token parameter.
func resolveURI(u string) (streamPath string, seq int, token string, hasToken bool, err error) {
	pu, err := url.Parse(u)
	if err != nil {
		return "", 0, "", false, err
	}
	if pu.Scheme != "" || pu.Host != "" || pu.Fragment != "" {
		return "", 0, "", false, fmt.Errorf("URI %q is not an absolute path on the serving host", u)
	}
	p := pu.Path
	if !strings.HasPrefix(p, "/streams/") {
		return "", 0, "", false, fmt.Errorf("URI path %q is outside /streams/", p)
	}
	p = strings.TrimPrefix(p, "/streams")
	if !strings.HasSuffix(p, ".ts") {
		return "", 0, "", false, fmt.Errorf("URI path %q does not end in .ts", p)
	}
	p = strings.TrimSuffix(p, ".ts")
	k := strings.LastIndexByte(p, '/')
	n, ok := decimalInteger(p[k+1:])
	if !ok {
		return "", 0, "", false, fmt.Errorf("URI %q: %q is not a sequence number", u, p[k+1:])
	}
	q, err := url.ParseQuery(pu.RawQuery)
	if err != nil {
		return "", 0, "", false, fmt.Errorf("URI %q: %v", u, err)
	}
	_, hasToken = q["token"]
	return p[:k], int(n), q.Get("token"), hasToken, nil
}

// ---------------------------------------------------------------- the engine

type failure struct {
	Check string
	Msg   string
}

func fail(check, format string, a ...any) *failure {
	return &failure{check, fmt.Sprintf(format, a...)}
}

type srcFrame struct {
	hdr     byte
	payload []byte
	pts     int64
	dts     int64
	arrival int
	sps     []byte // the parameter sets in force when the frame was written: the
	pps     []byte // last ones delivered in band, else the SDP's
	nSPS    int    // how many of engine.seenSPS / seenPPS the stream had carried
	nPPS    int    // when the frame was written
}

func (f *srcFrame) key() bool { return f.hdr&0x1f == 5 }

// inband: SPS / PPS / AUD delivered as a frame of its own. The TS packetizer
// may carry or omit it (C09); what counts here is what precedes the key pictures.
func (f *srcFrame) inband() bool { t := f.hdr & 0x1f; return t >= 7 && t <= 9 }

type opener struct {
	audio   bool
	pts     int64
	arrival int
}

type keptReader struct {
	seq    int
	r      io.Reader
	size   int
	got    int
	eof    bool
	rolled bool // a read happened after seq left the window
}

type heldPlaylist struct {
	b    []byte // what M3u8 returned (the caller's slice)
	copy []byte // its content at that moment
	tok  string
}

type hlsable interface {
	M3u8(token string) ([]byte, error)
	Segment(seq int) (io.Reader, int, error)
}

type result struct {
	segments        int
	readsAfterRoll  int
	readsInWindow   int
	readsAfterClose int
	playlists       int
	classes         []string
	knownSkips      int
	staleFiles      int // files an earlier life left behind when this one started
	segs            map[int][]byte
	stalePairs      int // segments whose key picture carries a pair the stream had carried earlier, not the last one (observed only)
	infra           string
}

func (r *result) class(s string) { r.classes = append(r.classes, s) }

type engine struct {
	c   *caseSpec
	res *result

	pl  hlsable
	sg  *hls.SegmentGenerator
	hpl *hls.Playlist
	vp  mpegts.Packetizer
	ap  mpegts.Packetizer
	st  *media.Stream
	dir string

	sps, pps []byte           // the SDP's parameter sets (nil when it has none)
	seenSPS  [][]byte         // every SPS / PPS the stream has carried so far: the SDP's
	seenPPS  [][]byte         // sprop sets and each one published in band, in order
	curSPS   []byte           // in force now
	curPPS   []byte           //
	vm       *codec.VideoMeta // direct mode: the metadata the packetizer was built on
	rtpSeq   [2]uint16

	srcV, srcA []srcFrame
	arrivals   int
	curV, curA int
	properV    int
	properA    int
	flushed    bool

	segs     map[int][]byte
	openedBy map[int]opener // the write after which segment seq-1 was first seen complete: it opened seq
	allPTS   []int64        // stamp of every written frame, by arrival
	cur      opener         // the write in progress
	lastSeq  int
	spin     *spinner
	closed   bool

	readers []*keptReader
	held    []heldPlaylist
}

func readAllClose(r io.Reader) ([]byte, error) {
	b, err := io.ReadAll(r)
	if c, ok := r.(io.Closer); ok {
		c.Close()
	}
	return b, err
}

// run executes a case against ipchub and judges it. work is a directory the
// case may create its HLS directory in.
func run(c *caseSpec, work string) (res *result, f *failure) {
	e := &engine{c: c, res: &result{}, segs: map[int][]byte{}, openedBy: map[int]opener{}, sps: mustHex(c.SPS), pps: mustHex(c.PPS), properV: -1}
	res = e.res
	if c.NoSprop {
		e.sps, e.pps = nil, nil
	}
	if c.Disk {
		d, err := os.MkdirTemp(work, "c10-")
		if err != nil {
			res.infra = err.Error()
			return res, nil
		}
		e.dir = d
		defer os.RemoveAll(d)
	}
	defer e.cleanup()
	if c.Disk && c.Earlier != "" && !c.Stream {
		if f := e.earlierLife(); f != nil {
			return res, f
		}
	}
	if c.Stream {
		if f := e.openStream(); f != nil {
			return res, f
		}
	} else {
		e.hpl = hls.NewPlaylist()
		sg, err := hls.NewSegmentGenerator(e.hpl, c.Path, c.Fragment, e.dir, c.Rate, xlog.L())
		if err != nil {
			return res, fail("open", "NewSegmentGenerator: %v", err)
		}
		e.sg, e.pl = sg, e.hpl
		vm := &codec.VideoMeta{Codec: "H264", Sps: e.sps, Pps: e.pps}
		e.vm = vm
		am := &codec.AudioMeta{Codec: "AAC", Sps: mustHex(c.ASC), SampleRate: c.Rate}
		e.vp = mpegts.NewH264Packetizer(vm, sg)
		e.ap = mpegts.NewAacPacketizer(am, sg)
		if c.Spin {
			e.startSpinner()
		}
	}
	for i := range c.Ops {
		o := &c.Ops[i]
		if i == c.FlushAt {
			e.properV, e.properA = len(e.srcV), len(e.srcA)
		}
		var f *failure
		switch o.K {
		case "v", "a":
			f = e.write(i, o)
		case "m3u8":
			f = e.m3u8(o.Token)
		case "fetch":
			f = e.fetch(e.lastSeq - o.Back)
		case "read":
			f = e.read(o.Rd, o.N)
		case "nop":
		case "sync":
			f = e.sync(o.Back)
		case "close":
			f = e.close()
		default:
			panic("unknown op " + o.K)
		}
		if f != nil {
			f.Msg = fmt.Sprintf("op %d (%s): %s", i, o.K, f.Msg)
			return res, f
		}
		if res.infra != "" {
			return res, nil
		}
	}
	if !e.closed {
		if f := e.close(); f != nil {
			return res, f
		}
	}
	// whatever is still held must read to the end unchanged
	for k := range e.readers {
		if f := e.read(k, -1); f != nil {
			f.Msg = "final drain: " + f.Msg
			return res, f
		}
	}
	if f := e.checkHeld(); f != nil {
		return res, f
	}
	res.segments = e.lastSeq
	res.segs = e.segs
	if f := e.judgeSpinner(); f != nil {
		return res, f
	}
	if (c.Disk && c.Earlier != "" || c.Twin) && !c.Stream {
		return res, e.compareWithMemoryTwin(work)
	}
	return res, nil
}

// ---------------------------------------------------------------- spinning reader

type spinRecord struct {
	seq   int
	size  int
	bytes []byte
	err   error
}

type spinner struct {
	stop atomic.Bool
	done chan struct{}
	recs []spinRecord // owned by the goroutine until done is closed
}

// startSpinner: a reader that wants every segment as early as it can be had.
func (e *engine) startSpinner() {
	sp := &spinner{done: make(chan struct{})}
	e.spin = sp
	pl := e.pl
	go func() {
		defer close(sp.done)
		next := 1
		for !sp.stop.Load() {
			r, size, err := pl.Segment(next)
			if err != nil {
				runtime.Gosched()
				continue
			}
			b, rerr := readAllClose(r)
			sp.recs = append(sp.recs, spinRecord{seq: next, size: size, bytes: b, err: rerr})
			next++
		}
	}()
}

func (e *engine) stopSpinner() {
	if e.spin != nil && !e.spin.stop.Swap(true) {
		<-e.spin.done
	}
}

// judgeSpinner: what the spinning reader got the moment a segment resolved is
// the transport stream of that sequence number, all of it.
func (e *engine) judgeSpinner() *failure {
	if e.spin == nil {
		return nil
	}
	e.stopSpinner()
	<-e.spin.done
	for _, rec := range e.spin.recs {
		want, ok := e.segs[rec.seq]
		switch {
		case rec.err != nil:
			return fail("segment-read", "spinning reader, segment %d: %v", rec.seq, rec.err)
		case !ok:
			return fail("segment-unknown", "spinning reader got a segment %d (%d bytes) the writer never saw complete", rec.seq, len(rec.bytes))
		case rec.size != len(rec.bytes):
			return fail("segment-size", "spinning reader: Segment(%d) announced %d bytes the moment it resolved, the reader delivered %d (the segment has %d)", rec.seq, rec.size, len(rec.bytes), len(want))
		case !bytes.Equal(rec.bytes, want):
			return fail("segment-bytes", "spinning reader: segment %d read the moment it resolved has %d bytes, the transport stream produced for it %d; first difference at %d", rec.seq, len(rec.bytes), len(want), firstDiff(rec.bytes, want))
		}
	}
	e.res.class(fmt.Sprintf("spinning-reader:segments-caught=%s", bucket(len(e.spin.recs))))
	return nil
}

// earlierLife gives the HLS directory a history: the same path is published
// by a first generator (large frames: its segment files are longer than most
// of what follows) and ended. "republished": ended by Close. "killed": its
// files are what a process that dies leaves behind - they are read before the
// Close and put back afterwards under the names <prefix>_1.ts ... _N.ts the
// new life is going to use (the prefix is learnt from the files, not computed).
func (e *engine) earlierLife() *failure {
	pl := hls.NewPlaylist()
	sg, err := hls.NewSegmentGenerator(pl, e.c.Path, e.c.Fragment, e.dir, e.c.Rate, xlog.L())
	if err != nil {
		return fail("open", "earlier life: NewSegmentGenerator: %v", err)
	}
	vp := mpegts.NewH264Packetizer(&codec.VideoMeta{Codec: "H264", Sps: mustHex(e.c.SPS), Pps: mustHex(e.c.PPS)}, sg)
	F := int64(max(e.c.Fragment, 1)) * 90000
	idx := 900000
	for g := int64(0); g < 3; g++ {
		for k := int64(0); k < 4; k++ {
			hdr := byte(0x41)
			if k == 0 {
				hdr = 0x65
			}
			t := g*(F+18000) + k*(F+9000)/3
			idx++
			if err := vp.Packetize(&codec.Frame{MediaType: codec.MediaTypeVideo, Payload: payload(idx, false, hdr, 2400), Pts: ns(t), Dts: ns(t)}); err != nil {
				return fail("write-error", "earlier life: %v", err)
			}
		}
	}
	names, _ := filepath.Glob(filepath.Join(e.dir, "*.ts"))
	var stale []byte
	prefix := ""
	for _, n := range names {
		b, _ := os.ReadFile(n)
		if len(b) > len(stale) {
			stale = b
		}
		base := filepath.Base(n)
		if k := strings.LastIndexByte(base, '_'); k > 0 {
			prefix = base[:k]
		}
	}
	sg.Close()
	pl.Close()
	if left, _ := filepath.Glob(filepath.Join(e.dir, "*.ts")); len(left) > 0 {
		return fail("storage-bound", "%d .ts files are left after the earlier stream on this path was closed: %v", len(left), baseNames(left))
	}
	if e.c.Earlier != "killed" {
		e.res.class("disk:path-published-before(closed)")
		return nil
	}
	if prefix == "" || len(stale) < 188*20 {
		e.res.infra = fmt.Sprintf("earlier life left nothing usable (%d files, %d bytes)", len(names), len(stale))
		return nil
	}
	n := 3
	for _, o := range e.c.Ops {
		if o.K == "v" && o.Hdr&0x1f == 5 {
			n++
		}
	}
	n = min(n, 40)
	for k := 1; k <= n; k++ {
		if err := os.WriteFile(filepath.Join(e.dir, fmt.Sprintf("%s_%d.ts", prefix, k)), stale, 0o644); err != nil {
			e.res.infra = err.Error()
			return nil
		}
	}
	e.res.staleFiles = n
	e.res.class("disk:stale-files-of-a-killed-earlier-life")
	return nil
}

// compareWithMemoryTwin: what this life's muxer produced for each sequence
// number is what the same frames produce in memory mode, where no directory
// and no history exist.
func (e *engine) compareWithMemoryTwin(work string) *failure {
	twin := *e.c
	twin.Disk, twin.Earlier, twin.Twin, twin.Spin, twin.Ops = false, "", false, false, nil
	for i, o := range e.c.Ops {
		if o.K == "v" || o.K == "a" {
			twin.Ops = append(twin.Ops, o)
		} else {
			twin.Ops = append(twin.Ops, op{K: "nop"}) // keeps the op indexes, which seed the payloads
		}
		if i == e.c.FlushAt {
			twin.FlushAt = len(twin.Ops) - 1
		}
	}
	res, f := run(&twin, work)
	if f != nil {
		f.Msg = "memory twin: " + f.Msg
		return f
	}
	if len(res.segs) != len(e.segs) {
		return fail("segment-bytes", "disk mode completed %d segments, the same frames in memory mode %d", len(e.segs), len(res.segs))
	}
	for seq := 1; seq <= len(e.segs); seq++ {
		if !bytes.Equal(e.segs[seq], res.segs[seq]) {
			return fail("segment-bytes", "segment %d served from the directory (%d bytes) differs from the transport stream the same frames produce in memory mode (%d bytes), first difference at %d", seq, len(e.segs[seq]), len(res.segs[seq]), firstDiff(e.segs[seq], res.segs[seq]))
		}
	}
	e.res.class("disk:segments-equal-memory-twin")
	return nil
}

func (e *engine) cleanup() {
	e.stopSpinner()
	for _, r := range e.readers {
		if c, ok := r.r.(io.Closer); ok {
			c.Close()
		}
	}
	if !e.closed {
		if e.st != nil {
			media.Unregist(e.st)
		} else if e.sg != nil {
			e.sg.Close()
			e.hpl.Close()
		}
	}
}

func (e *engine) write(i int, o *op) *failure {
	if e.closed {
		return nil
	}
	audio := o.K == "a"
	fr := srcFrame{hdr: o.Hdr, payload: payload(i, audio, o.Hdr, o.Size), pts: o.PTS, dts: o.DTS, arrival: e.arrivals}
	if e.curSPS == nil && e.curPPS == nil {
		e.curSPS, e.curPPS = e.sps, e.pps
		if len(e.sps) > 0 {
			e.seenSPS = append(e.seenSPS, e.sps)
		}
		if len(e.pps) > 0 {
			e.seenPPS = append(e.seenPPS, e.pps)
		}
	}
	if !audio && o.PS > 0 {
		ps := repoParamSets[(o.PS-1)%len(repoParamSets)]
		if o.Hdr&0x1f == 7 {
			fr.payload = mustHex(b64hex(ps[0]))
			e.curSPS = fr.payload
			e.seenSPS = append(e.seenSPS, fr.payload)
		} else {
			fr.payload = mustHex(b64hex(ps[1]))
			e.curPPS = fr.payload
			e.seenPPS = append(e.seenPPS, fr.payload)
		}
	}
	fr.sps, fr.pps = e.curSPS, e.curPPS
	fr.nSPS, fr.nPPS = len(e.seenSPS), len(e.seenPPS)
	if e.c.Rtp {
		// rtp.ptsDelay: the depacketizers stamp every frame 0.5 s later
		fr.pts += 45000
		fr.dts += 45000
	}
	e.cur = opener{audio: audio, pts: fr.pts, arrival: e.arrivals}
	e.allPTS = append(e.allPTS, fr.pts)
	e.arrivals++
	cf := &codec.Frame{MediaType: codec.MediaTypeVideo, Payload: fr.payload, Pts: ns(o.PTS), Dts: ns(o.DTS)}
	if audio {
		fr.dts = fr.pts
		cf.MediaType, cf.Dts = codec.MediaTypeAudio, cf.Pts
		e.srcA = append(e.srcA, fr)
	} else {
		e.srcV = append(e.srcV, fr)
	}
	if e.st != nil && e.c.Rtp {
		return e.writeRTP(o, &fr, audio)
	}
	if e.st != nil {
		if err := e.st.WriteFrame(cf); err != nil {
			return fail("write-error", "Stream.WriteFrame: %v", err)
		}
		return nil // the muxer goroutine works on it; "sync" ops collect the result
	}
	if !audio && o.PS > 0 && e.vm != nil {
		// direct mode has no depacketizer: the harness keeps the metadata the way
		// one that follows the publisher does - an in-band set replaces the stored
		// one before the frame is handed on
		if o.Hdr&0x1f == 7 {
			e.vm.Sps = fr.payload
		} else {
			e.vm.Pps = fr.payload
		}
	}
	var err error
	if audio {
		err = e.ap.Packetize(cf)
	} else {
		err = e.vp.Packetize(cf)
	}
	if err != nil {
		return fail("write-error", "writing frame returned %v", err)
	}
	return e.afterWrite()
}

// writeRTP publishes the frame as one RTP packet (RFC 6184 single NAL unit
// packet; RFC 3640 AAC-hbr with one AU) through Stream.WriteRtpPacket.
func (e *engine) writeRTP(o *op, fr *srcFrame, audio bool) *failure {
	ch, pt, ts := byte(rtp.ChannelVideo), byte(96), uint32(o.PTS)
	body := fr.payload
	if audio {
		ch, pt = rtp.ChannelAudio, 97
		ts = uint32((o.PTS*int64(e.c.Rate) + 45000) / 90000)
		n := len(fr.payload)
		body = append([]byte{0, 16, byte(n >> 5), byte(n << 3)}, fr.payload...) // AU-headers-length 16 bits; AU-size(13) AU-Index(3)
	}
	k := 0
	if audio {
		k = 1
	}
	e.rtpSeq[k]++
	raw := make([]byte, 12, 12+len(body))
	raw[0], raw[1] = 0x80, pt|0x80
	binary.BigEndian.PutUint16(raw[2:], e.rtpSeq[k])
	binary.BigEndian.PutUint32(raw[4:], ts)
	binary.BigEndian.PutUint32(raw[8:], 0x10101010+uint32(k))
	raw = append(raw, body...)
	if err := e.st.WriteRtpPacket(rtppack.ToIpchub(ch, raw)); err != nil {
		return fail("write-error", "Stream.WriteRtpPacket: %v", err)
	}
	return nil
}

// afterWrite records a segment the last write completed, and the storage bound.
func (e *engine) afterWrite() *failure {
	for n := 0; ; n++ {
		r, size, err := e.pl.Segment(e.lastSeq + 1)
		if err != nil {
			break
		}
		if n == 1 && !e.c.Stream {
			if c, ok := r.(io.Closer); ok {
				c.Close()
			}
			return fail("segment-numbering", "one written frame completed segments %d and %d", e.lastSeq, e.lastSeq+1)
		}
		if f := e.capture(e.lastSeq+1, r, size); f != nil {
			return f
		}
	}
	if e.c.Stream {
		// another goroutine is creating and deleting files: see quiescentFiles
		return nil
	}
	return e.checkFiles()
}

// quiescentFiles lists the stream's files while the muxer goroutine may still
// be at work. A directory listing is not a snapshot: one that overlaps the
// roll-over "delete segment N-3, create segment N+1" can report both files
// although they never existed together (seen on ext4 under load: [2 3 4 5 6]
// with 4 segments complete). The listing is therefore repeated until two in a
// row agree and hold the file of the open segment, i.e. until the roll-over the
// schedule waited for is over; nothing else touches the directory before the
// next key frame, which the schedule has not written yet. No agreement within
// the bound: not judged.
func (e *engine) quiescentFiles() ([]string, bool) {
	var prev []string
	for try := 0; try < 400; try++ {
		cur := baseNames(e.myFiles())
		open := false
		for _, n := range cur {
			if strings.HasSuffix(n, fmt.Sprintf("_%d.ts", e.lastSeq+1)) {
				open = true
			}
		}
		if (open || e.closed) && prev != nil && strings.Join(prev, " ") == strings.Join(cur, " ") {
			return cur, true
		}
		prev = cur
		runtime.Gosched()
		if try > 20 {
			time.Sleep(50 * time.Microsecond)
		}
	}
	return prev, false
}

func (e *engine) checkFiles() *failure {
	if e.dir == "" {
		return nil
	}
	names := e.myFiles()
	if e.c.Stream {
		var ok bool
		if names, ok = e.quiescentFiles(); !ok {
			e.res.class("storage:not-judged(no-quiescent-listing)")
			return nil
		}
		e.res.class("storage:judged-at-quiescent-point")
	}
	if len(names) > 3+1 {
		return fail("storage-bound", "%d .ts files on disk for one stream after %d completed segments (window 3 + the open one): %v", len(names), e.lastSeq, baseNames(names))
	}
	return nil
}

// myFiles lists the stream's .ts files. Files an earlier life left under
// numbers this life has not reached yet are not this stream's storage.
func (e *engine) myFiles() []string {
	names, _ := filepath.Glob(filepath.Join(e.dir, "*.ts"))
	if e.res.staleFiles == 0 {
		return names
	}
	mine := names[:0]
	for _, n := range names {
		base := strings.TrimSuffix(filepath.Base(n), ".ts")
		k, _ := strconv.Atoi(base[strings.LastIndexByte(base, '_')+1:])
		if k <= e.lastSeq+1 {
			mine = append(mine, n)
		}
	}
	return mine
}

func baseNames(p []string) []string {
	out := make([]string, len(p))
	for i := range p {
		out[i] = filepath.Base(p[i])
	}
	return out
}

func (e *engine) capture(seq int, r io.Reader, size int) *failure {
	b, err := readAllClose(r)
	if err != nil {
		return fail("segment-read", "reading segment %d right after completion: %v", seq, err)
	}
	if len(b) != size {
		return fail("segment-size", "Segment(%d) announced %d bytes, reader delivered %d", seq, size, len(b))
	}
	e.segs[seq] = append([]byte(nil), b...)
	e.lastSeq = seq
	if !e.c.Stream {
		e.openedBy[seq+1] = e.cur
	}
	return e.judgeSegment(seq, e.segs[seq])
}

func inWindow(seq, last int) bool { return seq >= 1 && seq <= last && seq > last-3 }

// ---------------------------------------------------------------- segment oracle

func nalTypes(ns [][]byte) []int {
	out := make([]int, len(ns))
	for i := range ns {
		out[i] = int(ns[i][0] & 0x1f)
	}
	return out
}

// locate says where a payload that is not the expected next source frame
// belongs, for the message.
func locate(src []srcFrame, cur int, got []byte) string {
	for k := range src {
		if bytes.Equal(src[k].payload, got) {
			switch {
			case k < cur:
				return fmt.Sprintf("it is source frame %d again (duplicate)", k)
			default:
				return fmt.Sprintf("it is source frame %d: frames %d..%d are missing", k, cur, k-1)
			}
		}
	}
	return "no source frame has these bytes (invented or corrupted)"
}

func (e *engine) judgeSegment(seq int, ts []byte) *failure {
	// "is a valid TS per C09": packet layer, continuity, PSI + CRC, PES syntax
	r, err := tsdemux.Demux(ts)
	if err != nil {
		return fail("segment-ts", "segment %d (%d bytes) is not a valid transport stream: %v", seq, len(ts), err)
	}
	if len(r.Packets) < 2 || r.Packets[0].PID != 0 || r.PAT.PacketIndex != 0 || r.PMT().PacketIndex != 1 {
		return fail("segment-psi", "segment %d does not begin with PAT and PMT", seq)
	}
	var haveV, haveA bool
	for _, s := range r.PMT().Streams {
		switch {
		case s.StreamType == 0x1B && s.PID == videoPID:
			haveV = true
		case s.StreamType == 0x0F && s.PID == audioPID:
			haveA = true
		default:
			return fail("segment-psi", "segment %d: PMT announces stream_type 0x%02x on PID 0x%04x", seq, s.StreamType, s.PID)
		}
	}
	if !haveV || !haveA {
		return fail("segment-psi", "segment %d: PMT lacks H.264 on 0x100 (%v) or AAC on 0x101 (%v)", seq, haveV, haveA)
	}

	firstVideo := true
	keyStart, sawVideo := false, false
	var firstVideoSrc *srcFrame
	firstVideoIdx := 0
	for _, p := range r.All {
		switch p.PID {
		case videoPID:
			nals, err := tsdemux.SplitAnnexB(p.Payload)
			if err != nil || len(nals) == 0 {
				return fail("segment-annexb", "segment %d: video PES in packet %d: %v", seq, p.FirstPacket, err)
			}
			got := nals[len(nals)-1]
			for _, u := range nals[:len(nals)-1] {
				if t := u[0] & 0x1f; t < 7 || t > 9 {
					return fail("frame-invented", "segment %d: video PES in packet %d carries NAL types %v: only AUD/SPS/PPS may accompany the source frame", seq, p.FirstPacket, nalTypes(nals))
				}
			}
			// in-band SPS/PPS frames may be omitted from the elementary stream
			skipInband := func() {
				for e.curV < len(e.srcV) && e.srcV[e.curV].inband() && !bytes.Equal(e.srcV[e.curV].payload, got) {
					e.curV++
					e.res.class("frame:in-band-set-omitted")
				}
			}
			skipInband()
			if firstVideo {
				// frames that fell into a discarded < 100 ms segment are exempt: a run
				// that starts where a segment can start (a key frame, or the very first
				// frame) and spans < 100 ms may be absent between two segments
				for e.curV < len(e.srcV) && !bytes.Equal(e.srcV[e.curV].payload, got) {
					s := e.curV
					if !(e.srcV[s].key() || s == 0) {
						break
					}
					end := s + 1
					for end < len(e.srcV) && !e.srcV[end].key() {
						end++
					}
					if end >= len(e.srcV) || e.srcV[end-1].pts-e.srcV[s].pts >= 9000 {
						break
					}
					e.curV = end
					e.res.class("exempt:discarded-short-segment")
				}
			}
			skipInband()
			if e.curV >= len(e.srcV) {
				return fail("frame-invented", "segment %d: a video frame beyond the %d written (%s)", seq, len(e.srcV), locate(e.srcV, e.curV, got))
			}
			src := &e.srcV[e.curV]
			if !bytes.Equal(src.payload, got) {
				return fail("frame-accounting", "segment %d: video PES in packet %d should carry source video frame %d (NAL type %d, pts %d) but %s; got %s", seq, p.FirstPacket, e.curV, src.hdr&0x1f, src.pts, locate(e.srcV, e.curV, got), evid.Hex(got))
			}
			e.curV++
			if e.c.Rtp {
				// the depacketizer converts RTP ticks to ns and the packetizer back, each
				// rounding down; its decode stamps are its own (frame counter or wall clock)
				if p.PTS == nil || (*p.PTS != uint64(src.pts)&tsMask && *p.PTS != uint64(src.pts-1)&tsMask) {
					return fail("frame-pts", "segment %d: video frame %d has PTS %v, RTP timestamp + 0.5 s is %d", seq, e.curV-1, deref(p.PTS), src.pts)
				}
			} else {
				if p.PTS == nil || *p.PTS != uint64(src.pts)&tsMask {
					return fail("frame-pts", "segment %d: video frame %d has PTS %v, source %d", seq, e.curV-1, deref(p.PTS), src.pts)
				}
				if (p.DTS != nil && *p.DTS != uint64(src.dts)&tsMask) || (p.DTS == nil && src.dts != src.pts) {
					return fail("frame-dts", "segment %d: video frame %d has DTS %v, source %d (pts %d)", seq, e.curV-1, deref(p.DTS), src.dts, src.pts)
				}
			}
			if firstVideo {
				firstVideo, sawVideo, firstVideoSrc, firstVideoIdx = false, true, src, e.curV-1
				// "begins its video with a key frame preceded by SPS/PPS"
				if got[0]&0x1f == 5 {
					// preceded by an SPS and a PPS, each byte-equal to one the stream has
					// carried up to this picture (the SDP's sprop sets or any set published
					// in band before it). Which of them is not fixed by the statement:
					// ipchub's "the stream's sets" is the pair its metadata holds.
					var gotSPS, gotPPS []byte
					for _, u := range nals[:len(nals)-1] {
						switch u[0] & 0x1f {
						case 7:
							for _, k := range e.seenSPS[:src.nSPS] {
								if gotSPS == nil && len(u) > 0 && bytes.Equal(u, k) {
									gotSPS = u
								}
							}
						case 8:
							for _, k := range e.seenPPS[:src.nPPS] {
								if gotPPS == nil && len(u) > 0 && bytes.Equal(u, k) {
									gotPPS = u
								}
							}
						}
					}
					keyStart = gotSPS != nil && gotPPS != nil
					if !keyStart && seq > 1 {
						var found []string
						for _, u := range nals[:len(nals)-1] {
							found = append(found, evid.Hex(u))
						}
						return fail("segment-start", "segment %d begins its video with an IDR (source frame %d) that is not preceded by an SPS and a PPS the stream has carried (%d SPS and %d PPS were announced or published before it; the publisher's last were SPS %s PPS %s): the access unit carries NAL types %v = %v", seq, e.curV-1, src.nSPS, src.nPPS, evid.Hex(src.sps), evid.Hex(src.pps), nalTypes(nals), found)
					}
					if keyStart && seq > 1 {
						// observed, not judged
						if bytes.Equal(gotSPS, src.sps) && bytes.Equal(gotPPS, src.pps) {
							e.res.class("observed:segment-starts-with-the-pair-in-force")
						} else {
							e.res.class("observed:segment-starts-with-an-earlier-pair(metadata pair kept after an in-band change)")
							e.res.stalePairs++
						}
					}
				}
			}
		case audioPID:
			frames, err := tsdemux.ParseADTS(p.Payload)
			if err != nil || len(frames) == 0 {
				return fail("segment-adts", "segment %d: audio PES in packet %d: %v", seq, p.FirstPacket, err)
			}
			for k, fr := range frames {
				if e.curA >= len(e.srcA) {
					return fail("frame-invented", "segment %d: an audio frame beyond the %d written (%s)", seq, len(e.srcA), locate(e.srcA, e.curA, fr.Payload))
				}
				src := &e.srcA[e.curA]
				if !bytes.Equal(src.payload, fr.Payload) {
					return fail("frame-accounting", "segment %d: audio PES in packet %d, ADTS frame %d should be source audio frame %d (pts %d) but %s", seq, p.FirstPacket, k, e.curA, src.pts, locate(e.srcA, e.curA, fr.Payload))
				}
				e.curA++
				if k == 0 {
					// aac_jitter.go: the PES stamp is the source stamp or an estimate within +-100 ms of it
					if p.PTS == nil {
						return fail("frame-pts", "segment %d: audio PES without PTS", seq)
					}
					d := int64(*p.PTS) - int64(uint64(src.pts)&tsMask)
					tol := int64(9000)
					if e.c.Rtp {
						tol += 16 // RTP audio ticks are 1/rate s: the stamp is rounded to them and back
					}
					if d < -tol || d > tol {
						return fail("frame-pts", "segment %d: audio PES starting with source frame %d has PTS %d, source %d: off by more than the 100 ms jitter correction", seq, e.curA-1, *p.PTS, src.pts)
					}
				}
			}
		}
	}

	switch {
	case seq == 1:
		e.res.class("segment:first")
	case keyStart:
		e.res.class("segment:starts-with-SPS+PPS+IDR")
	case !sawVideo:
		e.res.class("segment:audio-only")
	}
	if seq > 1 && sawVideo && !keyStart {
		// The segment was cut in the middle of a GOP. The one way ipchub is known
		// to do that: an audio frame arrived when the previous segment had lasted
		// >= 2x the fragment length (SegmentGenerator.WriteMpegtsFrame, "absolutely
		// overflow"). The harness saw which write completed the previous segment
		// (= opened this one) and which write had opened that one, so the class is
		// told from observations: opened by an audio write, and some frame written
		// into the previous segment (the cached audio is stamped up to 100 ms off)
		// lies >= 2x fragment behind the stamp that segment was opened with.
		// Exactly that class is skipped when listed; anything else fails.
		why := "the write that completed the previous segment was a video frame"
		known := false
		if by, ok := e.openedBy[seq]; ok && by.audio && e.c.Fragment > 0 {
			prev := e.openedBy[seq-1] // zero value for segment 1: opened at stamp 0 before any frame
			reach := int64(-1)
			for k := prev.arrival; k <= by.arrival && k < len(e.allPTS); k++ {
				reach = max(reach, e.allPTS[k])
			}
			if reach+9000-prev.pts >= int64(2*e.c.Fragment)*90000 {
				known = true
				why = fmt.Sprintf("the audio frame with pts %d completed the previous segment, which had been opened at %d and had seen stamps up to %d", by.pts, prev.pts, reach)
			} else {
				why = fmt.Sprintf("the audio frame with pts %d completed the previous segment although that one, opened at %d, had seen stamps up to %d only: less than twice the fragment length", by.pts, prev.pts, reach)
			}
		}
		if known && evid.Known(sigAudioCut) {
			evid.Excluded(sigAudioCut)
			e.res.knownSkips++
			e.res.class("segment:cut-mid-GOP-by-audio(known)")
		} else {
			return fail("segment-start", "segment %d begins its video with source frame %d, NAL type %d, not a key frame: the GOP that began in an earlier segment continues here (%s)", seq, firstVideoIdx, firstVideoSrc.hdr&0x1f, why)
		}
	}
	return nil
}

func deref(p *uint64) any {
	if p == nil {
		return "absent"
	}
	return *p
}

// ---------------------------------------------------------------- playlist oracle

func (e *engine) checkHeld() *failure {
	for k := range e.held {
		h := &e.held[k]
		if !bytes.Equal(h.b, h.copy) {
			return fail("playlist-aliased", "the bytes M3u8(%q) returned earlier changed in the caller's hands after a later call: were %q, now %q", h.tok, h.copy, h.b)
		}
	}
	return nil
}

func (e *engine) m3u8(token string) *failure {
	b, err := e.pl.M3u8(token)
	defer func() {
		if len(e.held) > 8 {
			e.held = e.held[len(e.held)-8:]
		}
	}()
	if f := e.checkHeld(); f != nil {
		return f
	}
	if err != nil {
		if e.lastSeq >= 3 && !e.closed {
			return fail("playlist-unavailable", "%d segments are complete but M3u8 says %v", e.lastSeq, err)
		}
		e.res.class("m3u8:not-yet")
		return nil
	}
	e.held = append(e.held, heldPlaylist{b: b, copy: append([]byte(nil), b...), tok: token})
	e.res.playlists++
	if token == "" {
		e.res.class("m3u8:served-without-token")
	} else {
		e.res.class("m3u8:served-with-token")
	}
	if f := e.judgePlaylist(b, token); f != nil {
		return f
	}
	if e.st != nil && e.lastSeq >= 3 {
		// the same request through the HTTP handler (it waits when < 3 segments exist)
		rec := httptest.NewRecorder()
		svchls.GetM3u8(xlog.L(), e.c.Path, token, "harness", rec)
		if rec.Code != 200 {
			return fail("http-playlist", "GET %s.m3u8 answers %d %q although the playlist is available", e.c.Path, rec.Code, rec.Body.String())
		}
		if !bytes.Equal(rec.Body.Bytes(), b) {
			return fail("http-playlist", "GET %s.m3u8 body differs from Hlsable.M3u8 at the same moment: %q vs %q", e.c.Path, rec.Body.String(), b)
		}
		if cl := rec.Header().Get("Content-Length"); cl != strconv.Itoa(len(b)) {
			return fail("http-playlist", "Content-Length %q for a %d byte playlist", cl, len(b))
		}
		e.res.class("http:m3u8")
	}
	return nil
}

func (e *engine) judgePlaylist(b []byte, token string) *failure {
	pl, err := parseM3U8(b)
	if err != nil {
		return fail("playlist-syntax", "%v in %q", err, b)
	}
	want := 3
	if e.lastSeq < 3 {
		want = e.lastSeq
	}
	if len(pl.Entries) != want {
		return fail("playlist-window", "playlist lists %d segments, %d are complete (expected the %d most recent): %q", len(pl.Entries), e.lastSeq, want, b)
	}
	for k, en := range pl.Entries {
		path, seq, tok, hasTok, err := resolveURI(en.URI)
		if err != nil {
			return fail("playlist-uri", "%v", err)
		}
		if path != e.c.Path {
			return fail("playlist-uri", "URI %q names stream %q, the stream is %q", en.URI, path, e.c.Path)
		}
		if wantSeq := e.lastSeq - want + 1 + k; seq != wantSeq {
			return fail("playlist-window", "entry %d is segment %d, expected %d (most recent complete: %d; numbers must be consecutive): %q", k, seq, wantSeq, e.lastSeq, b)
		}
		if k == 0 && (!pl.HasMediaSeq && seq != 0 || pl.HasMediaSeq && pl.MediaSeq != int64(seq)) {
			return fail("playlist-media-sequence", "EXT-X-MEDIA-SEQUENCE %d (present=%v), first listed segment %d", pl.MediaSeq, pl.HasMediaSeq, seq)
		}
		if float64(pl.Target) < en.Dur {
			return fail("playlist-targetduration", "EXT-X-TARGETDURATION %d is below EXTINF %v of segment %d", pl.Target, en.Dur, seq)
		}
		if token != "" && (!hasTok || tok != token) {
			return fail("playlist-token", "URI %q does not carry the caller's token %q", en.URI, token)
		}
		// "each resolves to a segment", and to the transport stream produced for that number
		r, size, err := e.pl.Segment(seq)
		if err != nil {
			return fail("playlist-resolve", "listed segment %d does not resolve: %v", seq, err)
		}
		got, err := readAllClose(r)
		if err != nil || len(got) != size {
			return fail("segment-size", "Segment(%d): announced %d bytes, read %d (%v)", seq, size, len(got), err)
		}
		if !bytes.Equal(got, e.segs[seq]) {
			return fail("segment-bytes", "segment %d fetched through the playlist differs from the bytes it had when it was completed (%d vs %d bytes, first difference at %d)", seq, len(got), len(e.segs[seq]), firstDiff(got, e.segs[seq]))
		}
	}
	return nil
}

func firstDiff(a, b []byte) int {
	n := min(len(a), len(b))
	for i := 0; i < n; i++ {
		if a[i] != b[i] {
			return i
		}
	}
	return n
}

// ---------------------------------------------------------------- fetch / read

func (e *engine) fetch(seq int) *failure {
	r, size, err := e.pl.Segment(seq)
	if err != nil {
		if inWindow(seq, e.lastSeq) && !e.closed {
			return fail("playlist-resolve", "segment %d is one of the three most recent (last complete %d) but Segment says %v", seq, e.lastSeq, err)
		}
		e.res.class("fetch:outside-window-refused")
		return nil
	}
	want, ok := e.segs[seq]
	if !ok {
		if c, ok := r.(io.Closer); ok {
			c.Close()
		}
		return fail("segment-unknown", "Segment(%d) resolves although no such segment was completed (last complete %d)", seq, e.lastSeq)
	}
	if size != len(want) {
		if c, ok := r.(io.Closer); ok {
			c.Close()
		}
		return fail("segment-size", "Segment(%d) announces %d bytes, the segment had %d when it was completed", seq, size, len(want))
	}
	if inWindow(seq, e.lastSeq) {
		e.res.class("fetch:in-window")
	} else {
		e.res.class("fetch:outside-window-served")
	}
	e.readers = append(e.readers, &keptReader{seq: seq, r: r, size: size})
	if e.st != nil {
		rec := httptest.NewRecorder()
		svchls.GetTS(xlog.L(), e.c.Path+"/"+strconv.Itoa(seq), "harness", rec)
		if rec.Code != 200 || !bytes.Equal(rec.Body.Bytes(), want) {
			return fail("http-segment", "GET %s/%d.ts answers %d with %d bytes, the segment has %d bytes (first difference at %d)", e.c.Path, seq, rec.Code, rec.Body.Len(), len(want), firstDiff(rec.Body.Bytes(), want))
		}
		if cl := rec.Header().Get("Content-Length"); cl != strconv.Itoa(len(want)) {
			return fail("http-segment", "Content-Length %q for a %d byte segment", cl, len(want))
		}
		e.res.class("http:ts")
	}
	return nil
}

func (e *engine) read(idx, n int) *failure {
	if len(e.readers) == 0 {
		return nil
	}
	// idx counts among the readers that have not reached their end, oldest first
	var open []*keptReader
	for _, r := range e.readers {
		if !r.eof {
			open = append(open, r)
		}
	}
	if len(open) == 0 {
		return nil
	}
	kr := open[((idx%len(open))+len(open))%len(open)]
	want := e.segs[kr.seq]
	var buf []byte
	if n < 0 {
		b, err := io.ReadAll(kr.r)
		if err != nil {
			return fail("segment-read", "reader of segment %d: %v", kr.seq, err)
		}
		buf, kr.eof = b, true
	} else {
		buf = make([]byte, n)
		m, err := io.ReadFull(kr.r, buf)
		buf = buf[:m]
		if err == io.EOF || err == io.ErrUnexpectedEOF {
			kr.eof = true
		} else if err != nil {
			return fail("segment-read", "reader of segment %d: %v", kr.seq, err)
		}
	}
	state := "in the window"
	switch {
	case e.closed:
		state = "after close"
		e.res.readsAfterClose++
		e.res.class("read:after-close")
	case !inWindow(kr.seq, e.lastSeq):
		state = fmt.Sprintf("after the window rolled to %d..%d", e.lastSeq-2, e.lastSeq)
		e.res.readsAfterRoll++
		e.res.class("read:after-rollover")
	default:
		e.res.readsInWindow++
		e.res.class("read:in-window")
	}
	if kr.got+len(buf) > len(want) || !bytes.Equal(buf, want[kr.got:kr.got+len(buf)]) {
		off := kr.got
		if kr.got+len(buf) <= len(want) {
			off += firstDiff(buf, want[kr.got:kr.got+len(buf)])
		}
		return fail("segment-bytes", "reader obtained for segment %d, read %s: bytes %d..%d differ from the transport stream that segment had when it was completed (first difference at offset %d of %d)", kr.seq, state, kr.got, kr.got+len(buf), off, len(want))
	}
	kr.got += len(buf)
	if kr.eof {
		if c, ok := kr.r.(io.Closer); ok {
			c.Close()
		}
		if kr.got != len(want) {
			return fail("segment-bytes", "reader obtained for segment %d ended after %d of %d bytes (read %s)", kr.seq, kr.got, len(want), state)
		}
	}
	return nil
}

func (e *engine) close() *failure {
	if e.closed {
		return nil
	}
	// every proper source frame must have reached a completed segment once the
	// closing key-frame train has pushed the last open segment out
	if e.properV >= 0 && !e.c.Stream {
		if e.curV < e.properV {
			f := &e.srcV[e.curV]
			return fail("frame-lost", "source video frame %d (NAL type %d, pts %d) is in no completed segment although %d later key frames, each more than a fragment length apart, were written (completed segments: %d)", e.curV, f.hdr&0x1f, f.pts, 4, e.lastSeq)
		}
		if e.curA < e.properA {
			f := &e.srcA[e.curA]
			return fail("frame-lost", "source audio frame %d (pts %d) is in no completed segment although the segments around it were completed (completed segments: %d)", e.curA, f.pts, e.lastSeq)
		}
		e.res.class("accounting:complete-after-flush")
	}
	e.stopSpinner()
	e.closed = true
	if e.st != nil {
		media.Unregist(e.st)
	} else {
		e.sg.Close()
		e.hpl.Close()
	}
	if e.dir != "" {
		names := e.myFiles()
		if e.c.Stream {
			names, _ = e.quiescentFiles() // the muxer goroutine may still be winding down
		}
		if len(names) > 3+1 {
			return fail("storage-bound", "%d .ts files left after close", len(names))
		}
		e.res.class(fmt.Sprintf("disk:files-after-close=%d", len(names)))
	}
	return nil
}

// ---------------------------------------------------------------- media.Stream mode

func (e *engine) openStream() *failure {
	setStreamConfig(e.dir, e.c.Fragment)
	st := media.NewStream(e.c.Path, streamSDP(e.c))
	if st.Hlsable() == nil {
		return fail("open", "media.NewStream(H264+AAC) offers no HLS")
	}
	media.Regist(st)
	e.st, e.pl = st, st.Hlsable()
	return nil
}

var syncTimeouts atomic.Int32

// sync waits until the muxer goroutine has completed segment seq (the case
// generator knows from the construction of its GOPs that it must). Waiting is
// not a verdict: a case that does not get there is dropped as infrastructure.
func (e *engine) sync(seq int) *failure {
	if syncTimeouts.Load() >= 3 {
		// segments do not show up in this process: do not spend the budget waiting
		e.res.infra = "earlier cases already waited in vain for their segments"
		return nil
	}
	deadline := time.Now().Add(5 * time.Second)
	for e.lastSeq < seq {
		if f := e.afterWrite(); f != nil {
			return f
		}
		if e.lastSeq >= seq {
			break
		}
		if time.Now().After(deadline) {
			syncTimeouts.Add(1)
			e.res.infra = fmt.Sprintf("segment %d did not appear within 5 s (last complete %d)", seq, e.lastSeq)
			return nil
		}
		// keep asking for the playlist while the muxer goroutine rolls the window
		if b, err := e.pl.M3u8("poll"); err == nil {
			if _, perr := parseM3U8(b); perr != nil {
				return fail("playlist-syntax", "while the window rolls: %v in %q", perr, b)
			}
		}
		runtime.Gosched()
	}
	return e.checkFiles()
}

// ---------------------------------------------------------------- evidence + replay

// TB is what check needs from *testing.T / *rapid.T.
type TB interface {
	evid.TB
	Logf(format string, args ...any)
}

func bucket(n int) string {
	switch {
	case n == 0:
		return "0"
	case n < 3:
		return "1-2"
	case n < 5:
		return "3-4"
	case n < 10:
		return "5-9"
	default:
		return "10+"
	}
}

// check runs one case end to end and records evidence.
func check(t TB, c *caseSpec, work, test string) *result {
	res, f := run(c, work)
	if res.infra != "" {
		evid.Class("infrastructure:case-dropped")
		evid.Note("%s: %s (case dropped, not a verdict)", test, res.infra)
		return res
	}
	evid.Eval(1)
	for _, cl := range res.classes {
		evid.Class(cl)
	}
	mode := "memory"
	if c.Disk {
		mode = "disk"
	}
	if c.Stream {
		mode += "+media.Stream"
		if c.Rtp {
			mode += "(RTP)"
		}
	}
	evid.Class("mode:" + mode)
	evid.Class(fmt.Sprintf("fragment:%d", c.Fragment))
	evid.Class("segments-completed:" + bucket(res.segments))
	if f != nil {
		evid.Violation(t, test+"/"+f.Check, c, "%s", f.Msg)
	}
	if res.segments >= 5 && res.readsAfterRoll >= 1 {
		b, _ := json.Marshal(c)
		evid.Nontrivial(evid.FP(b))
		evid.Class("non-trivial")
		if evid.WantSample("non-trivial:" + mode) {
			evid.Sample("non-trivial:"+mode, map[string]any{"fragment": c.Fragment, "ops": len(c.Ops), "segments": res.segments, "reads_after_rollover": res.readsAfterRoll, "playlists": res.playlists})
		}
	}
	return res
}

// TestReplayFile re-runs one saved case.
func TestReplayFile(t *testing.T) {
	p := os.Getenv("VERIF_REPLAY_FILE")
	if p == "" {
		t.Skip("no replay file")
	}
	b, err := os.ReadFile(p)
	if err != nil {
		t.Fatal(err)
	}
	var doc struct {
		Case caseSpec `json:"case"`
	}
	if err := json.Unmarshal(b, &doc); err != nil {
		t.Fatal(err)
	}
	res, f := run(&doc.Case, workDir(t))
	if res.infra != "" {
		t.Skipf("infrastructure: %s", res.infra)
	}
	if f != nil {
		t.Fatalf("%s: %s", f.Check, f.Msg)
	}
}

func workDir(t *testing.T) string {
	if w := os.Getenv("VERIF_WORK"); w != "" {
		d := filepath.Join(w, "c10")
		if os.MkdirAll(d, 0o755) == nil {
			return d
		}
	}
	return t.TempDir()
}
