package c10

import (
	"encoding/base64"
	"fmt"
	"strings"
	"testing"

	"github.com/cnotch/ipchub/config"
	"pgregory.net/rapid"
	"verif/harness/lib/evid"
)

// streamSDP describes the case's H.264 + AAC stream the way a publisher would.
func streamSDP(c *caseSpec) string {
	b64 := base64.StdEncoding.EncodeToString
	sprop := "; sprop-parameter-sets=" + b64(mustHex(c.SPS)) + "," + b64(mustHex(c.PPS))
	if c.NoSprop {
		sprop = ""
	}
	ch := 2
	if c.Rate <= 16000 {
		ch = 1
	}
	return "v=0\r\no=- 0 0 IN IP4 127.0.0.1\r\ns=verif\r\nc=IN IP4 127.0.0.1\r\nt=0 0\r\n" +
		"m=video 0 RTP/AVP 96\r\na=rtpmap:96 H264/90000\r\n" +
		"a=fmtp:96 packetization-mode=1" + sprop + "\r\n" +
		"a=control:streamid=0\r\n" +
		fmt.Sprintf("m=audio 0 RTP/AVP 97\r\na=rtpmap:97 MPEG4-GENERIC/%d/%d\r\n", c.Rate, ch) +
		"a=fmtp:97 profile-level-id=1;mode=AAC-hbr;sizelength=13;indexlength=3;indexdeltalength=3; config=" + c.ASC + "\r\n" +
		"a=control:streamid=1\r\n"
}

// setStreamConfig installs the configuration media.NewStream reads: HLS
// directory ("" = memory) and fragment length (the verif hook lifts the >= 5 s clamp).
func setStreamConfig(dir string, fragment int) {
	config.VerifSet(":0", false, false, dir, fragment)
}

// genStreamCase: GOPs that each last longer than the fragment length (last
// frame of the GOP >= fragment behind its key frame) and shorter than twice
// it, so the key frame of GOP g completes segment g; after writing that key
// frame the schedule waits for the muxer goroutine (sync) and then reads.
func genStreamCase(rt *rapid.T, n int) (*caseSpec, []string) {
	c := &caseSpec{Stream: true, FlushAt: -1}
	c.Disk = rapid.Bool().Draw(rt, "disk")
	c.Fragment = rapid.SampledFrom([]int{1, 1, 2}).Draw(rt, "fragment")
	base := rapid.IntRange(0, len(repoParamSets)-1).Draw(rt, "paramSet")
	ps := repoParamSets[base]
	c.SPS, c.PPS = b64hex(ps[0]), b64hex(ps[1])
	// half of the cases publish RTP packets (Stream.WriteRtpPacket -> depacketizer
	// -> muxer), the only way in-band parameter sets reach the metadata for real
	c.Rtp = rapid.Bool().Draw(rt, "rtp")
	ac := audioConfigs[rapid.IntRange(0, len(audioConfigs)-1).Draw(rt, "audioConfig")]
	c.ASC, c.Rate = ac.asc, ac.rate
	c.Path = fmt.Sprintf("/c10/s%d", n)
	g := &caseGen{rt: rt, c: c, F: int64(c.Fragment) * 90000, cad: 1024 * 90000 / int64(ac.rate)}
	g.paramSetMode(base, c.Rtp, 4) // the RTP path is the one that keeps the metadata for real: half of its cases
	// the first segment counts its duration from 0: a start stamp beyond twice the
	// fragment length would let the first audio frame cut it (the open finding),
	// and the schedule below could no longer tell which key frame completes what
	g.now = rapid.SampledFrom([]int64{0, 1, 4500, 45000}).Draw(rt, "t0")
	if c.Rtp && g.now > 4500 {
		g.now = 4500 // the depacketizer adds 0.5 s
	}
	g.ta = g.now
	gops := rapid.IntRange(5, 12).Draw(rt, "gops")
	for k := 0; k < gops; k++ {
		t0 := g.now
		d := rapid.Int64Range(g.F+9000, g.F*19/10).Draw(rt, "d")
		for _, x := range g.paramSets(t0) {
			c.Ops = append(c.Ops, x.o)
		}
		c.Ops = append(c.Ops, op{K: "v", Hdr: 0x65, Size: g.size(false), PTS: t0, DTS: t0})
		if k >= 1 {
			c.Ops = append(c.Ops, op{K: "sync", Back: k})
			for r := rapid.IntRange(0, 3).Draw(rt, "reads"); r > 0; r-- {
				g.reads()
			}
		}
		var ts []timed
		nf := rapid.IntRange(2, 5).Draw(rt, "gopFrames")
		for f := 1; f < nf; f++ {
			dts := t0 + (d-3600)*int64(f)/int64(nf-1)
			ts = append(ts, timed{t: dts, o: op{K: "v", Hdr: 0x41, Size: g.size(false), PTS: dts, DTS: dts}, vk: 2})
		}
		if rapid.Bool().Draw(rt, "audio") {
			if g.ta < t0 {
				g.ta = t0
			}
			for a := rapid.IntRange(1, 8).Draw(rt, "burst"); a > 0; a-- {
				ts = append(ts, timed{t: g.ta, o: op{K: "a", Size: g.size(true), PTS: g.ta}, vk: 1})
				g.ta += g.cad
			}
		}
		g.push(ts)
		g.now = t0 + d
	}
	c.Ops = append(c.Ops, op{K: "close"}, op{K: "read", Rd: rapid.IntRange(0, 5).Draw(rt, "reader"), N: -1})
	return c, g.stats
}

// TestThroughMediaStream drives media.Stream (its mpegts.Muxer goroutine feeds
// the segment generator while this goroutine asks for playlists and segments)
// and the HTTP handlers service/hls.GetM3u8 / GetTS for the registered stream.
func TestThroughMediaStream(t *testing.T) {
	evid.Rule(ruleText)
	work := workDir(t)
	n, synced := 0, 0
	evid.Checks(120, 1200)
	rapid.Check(t, func(rt *rapid.T) {
		n++
		c, stats := genStreamCase(rt, n)
		res := check(rt, c, work, "media-stream")
		if res.infra == "" {
			synced++
			for _, s := range stats {
				if strings.HasPrefix(s, "ps:") {
					evid.Class("media.Stream:" + s)
				}
			}
		}
	})
	if synced*10 < n*8 {
		t.Fatalf("harness problem: only %d of %d media.Stream cases reached their segments", synced, n)
	}
}
