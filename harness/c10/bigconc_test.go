package c10

import (
	"bytes"
	"fmt"
	"io"
	"runtime"
	"sync"
	"sync/atomic"
	"testing"
	"time"

	"pgregory.net/rapid"
	"verif/harness/lib/evid"
)

// Free-running counterpart of genBigCase: one goroutine writes GOPs whose
// segments exceed the capacity of a pooled segment buffer (512 KiB), memory
// mode; reader goroutines open the oldest listed segment, wait until the
// writer has completed one to three more segments and gone on writing, and
// only then read their reader to the end. Every body must be the transport
// stream the writer recorded for that number when it was completed.
type bigShared struct {
	mu      sync.RWMutex
	rec     map[int][]byte
	last    atomic.Int32 // completed segments, published after rec
	ops     atomic.Int32 // write ops done
	stopped atomic.Bool
	failed  atomic.Pointer[failure]
}

func TestBigSegmentReadersFreeRunning(t *testing.T) {
	t.Parallel()
	evid.Rule(ruleText)
	evid.Checks(4, 40)
	rapid.Check(t, func(rt *rapid.T) {
		c := &caseSpec{FlushAt: -1, Fragment: 1, Path: "/big/free", ASC: audioConfigs[0].asc, Rate: audioConfigs[0].rate}
		ps := repoParamSets[rapid.IntRange(0, len(repoParamSets)-1).Draw(rt, "paramSet")]
		c.SPS, c.PPS = b64hex(ps[0]), b64hex(ps[1])
		g := &caseGen{rt: rt, c: c, F: 90000, cad: 1920, psMode: "sprop"}
		for k := rapid.IntRange(7, 10).Draw(rt, "gops"); k > 0; k-- {
			g.bigGop(rapid.SampledFrom([]int{1, 1, 0, 2}).Draw(rt, "class"))
		}
		readers := rapid.IntRange(2, 4).Draw(rt, "readers")
		rolls := make([]int, readers)
		for i := range rolls {
			rolls[i] = rapid.IntRange(1, 3).Draw(rt, "rolls")
		}
		e, err := newDirectEngine(c, "")
		if err != nil {
			rt.Fatalf("open: %v", err)
		}
		defer e.cleanup()
		sh := &bigShared{rec: map[int][]byte{}}
		var wg sync.WaitGroup
		held := make([]int, readers)
		for i := 0; i < readers; i++ {
			wg.Add(1)
			go func(i int) {
				defer wg.Done()
				for !sh.stopped.Load() && sh.failed.Load() == nil {
					cur := int(sh.last.Load())
					if cur < 3 {
						time.Sleep(20 * time.Microsecond)
						continue
					}
					seq := cur - 2 // the oldest one listed
					r, size, err := e.hpl.Segment(seq)
					if err != nil {
						continue // rolled out meanwhile
					}
					// wait for the window to roll past it and the writer to go on writing
					for int(sh.last.Load()) < cur+rolls[i] && !sh.stopped.Load() {
						time.Sleep(20 * time.Microsecond) // a state-based wait; sleeping only keeps it from burning a core
					}
					at := sh.ops.Load()
					for sh.ops.Load() == at && !sh.stopped.Load() {
						time.Sleep(20 * time.Microsecond)
					}
					got, rerr := io.ReadAll(r)
					sh.mu.RLock()
					want := sh.rec[seq]
					sh.mu.RUnlock()
					held[i]++
					if rerr != nil || size != len(got) || !bytes.Equal(got, want) {
						sh.failed.CompareAndSwap(nil, fail("segment-bytes", "reader %d opened segment %d (%d bytes announced) while it was the oldest listed, read it after the writer had completed segment %d: %d bytes, the transport stream produced for it has %d, first difference at %d (err %v)", i, seq, size, sh.last.Load(), len(got), len(want), firstDiff(got, want), rerr))
						return
					}
				}
			}(i)
		}
		var wf *failure
		for i := range c.Ops {
			if wf = e.write(i, &c.Ops[i]); wf != nil || sh.failed.Load() != nil {
				break
			}
			if n := e.lastSeq; n > int(sh.last.Load()) {
				sh.mu.Lock()
				for s := int(sh.last.Load()) + 1; s <= n; s++ {
					sh.rec[s] = e.segs[s]
				}
				sh.mu.Unlock()
				sh.last.Store(int32(n))
			}
			sh.ops.Add(1)
			runtime.Gosched()
		}
		sh.stopped.Store(true)
		wg.Wait()
		evid.Eval(1)
		total := 0
		for _, h := range held {
			total += h
		}
		evid.Class("big-free-running:readers-held-across-rollover=" + bucket(total))
		if wf != nil {
			evid.Violation(rt, "big-free-running/"+wf.Check, c, "%s", wf.Msg)
		}
		if f := sh.failed.Load(); f != nil {
			evid.Violation(rt, "big-free-running/"+f.Check, c, "%s", f.Msg)
		}
		if total > 0 {
			evid.Nontrivial(evid.FP(fmt.Sprint(c.Ops), rolls))
		}
	})
}
