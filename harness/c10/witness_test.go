package c10

import (
	"bytes"
	"io"
	"testing"

	"github.com/cnotch/ipchub/av/codec"
	"github.com/cnotch/ipchub/av/format/hls"
	"github.com/cnotch/ipchub/av/format/mpegts"
	"github.com/cnotch/xlog"
	"verif/harness/lib/evid"
)

// The witnesses are the minimal cases of the three defects this check found
// on the original tree, run without generator, model or demultiplexer: the
// bytes are compared / read by hand.

type tiny struct {
	pl *hls.Playlist
	sg *hls.SegmentGenerator
	vp mpegts.Packetizer
	ap mpegts.Packetizer
	n  byte
}

func newTiny(t *testing.T, fragment int) *tiny {
	pl := hls.NewPlaylist()
	sg, err := hls.NewSegmentGenerator(pl, "/live/a", fragment, "", 44100, xlog.L())
	if err != nil {
		t.Fatal(err)
	}
	vm := &codec.VideoMeta{Codec: "H264", Sps: []byte{0x67, 0x42, 0x00, 0x1e}, Pps: []byte{0x68, 0xce, 0x3c, 0x80}}
	am := &codec.AudioMeta{Codec: "AAC", Sps: []byte{0x12, 0x10}, SampleRate: 44100}
	return &tiny{pl: pl, sg: sg, vp: mpegts.NewH264Packetizer(vm, sg), ap: mpegts.NewAacPacketizer(am, sg)}
}

func (x *tiny) video(t *testing.T, hdr byte, ms int64) {
	x.n++
	p := ms * 1000000
	if err := x.vp.Packetize(&codec.Frame{MediaType: codec.MediaTypeVideo, Payload: []byte{hdr, 0x88, x.n, 0x80}, Pts: p, Dts: p}); err != nil {
		t.Fatal(err)
	}
}

func (x *tiny) audio(t *testing.T, ms int64) {
	x.n++
	p := ms * 1000000
	if err := x.ap.Packetize(&codec.Frame{MediaType: codec.MediaTypeAudio, Payload: []byte{0x21, x.n, 0x55}, Pts: p, Dts: p}); err != nil {
		t.Fatal(err)
	}
}

// gops writes n GOPs of three frames (key, +0.5 s, +1.1 s), 1.5 s apart: with
// fragment 1 every key frame after the first completes a segment.
func (x *tiny) gops(t *testing.T, from, n int) {
	for g := from; g < from+n; g++ {
		base := int64(g) * 1500
		x.video(t, 0x65, base)
		x.video(t, 0x41, base+500)
		x.video(t, 0x41, base+1100)
	}
}

// (i) A reader handed out for a segment must keep delivering that segment
// while later segments are completed and the window rolls past it.
func TestWitnessReaderSurvivesRollover(t *testing.T) {
	x := newTiny(t, 1)
	defer func() { x.sg.Close(); x.pl.Close() }()
	x.gops(t, 0, 2) // segment 1 complete
	r, size, err := x.pl.Segment(1)
	if err != nil {
		t.Fatalf("segment 1 should be complete: %v", err)
	}
	ref, _, _ := x.pl.Segment(1)
	want, _ := io.ReadAll(ref)
	if len(want) != size || size == 0 {
		t.Fatalf("segment 1: size %d, read %d", size, len(want))
	}
	want = append([]byte(nil), want...)
	x.gops(t, 2, 6) // segments 2..7: the window is now 5..7
	evid.Eval(1)
	if _, _, err := x.pl.Segment(1); err == nil {
		t.Fatalf("segment 1 should have left the window")
	}
	got, err := io.ReadAll(r)
	if err != nil || !bytes.Equal(got, want) {
		evid.Violation(t, "witness/reader-after-rollover", map[string]any{"first_difference": firstDiff(got, want), "size": size},
			"a reader obtained for segment 1 delivers other bytes after the window rolled to 5..7 (read %d bytes, first difference at %d of %d, err %v): the segment's buffer went back to the pool and a later segment was written into it", len(got), firstDiff(got, want), len(want), err)
	}
	evid.Class("witness:reader-survives-rollover")
}

// (ii) The bytes one caller got from M3u8 must not change when the next
// caller asks with another token.
func TestWitnessPlaylistBytesAreTheCallers(t *testing.T) {
	x := newTiny(t, 1)
	defer func() { x.sg.Close(); x.pl.Close() }()
	x.gops(t, 0, 4) // segments 1..3
	a, err := x.pl.M3u8("first-caller")
	if err != nil {
		t.Fatalf("three segments are complete: %v", err)
	}
	want := string(a)
	evid.Eval(1)
	for k := 0; k < 4; k++ {
		if _, err := x.pl.M3u8("other"); err != nil {
			t.Fatal(err)
		}
		if string(a) != want {
			evid.Violation(t, "witness/playlist-aliased", map[string]any{"was": want, "now": string(a)},
				"the playlist returned to the first caller changed after another caller's request: was %q, now %q", want, string(a))
		}
	}
	evid.Class("witness:playlist-bytes-stable")
}

// (iii) listed as open finding "audio-cut-mid-gop": with audio in the stream a
// GOP that lasts longer than twice the fragment length is cut by the first
// audio frame behind that point, and the next segment starts with a P frame.
func TestWitnessAudioCutsGop(t *testing.T) {
	x := newTiny(t, 1)
	defer func() { x.sg.Close(); x.pl.Close() }()
	x.video(t, 0x65, 10000) // segment 1 (counts from 0, so it is long already)
	x.video(t, 0x41, 10500)
	x.video(t, 0x65, 12000) // completes segment 1, opens segment 2 at 12.0 s
	x.video(t, 0x41, 12500)
	x.video(t, 0x41, 13500)
	x.video(t, 0x41, 14100) // 2.1 s into the GOP
	x.audio(t, 14120)       // the audio frame that cuts
	x.video(t, 0x41, 14200) // same GOP, lands in segment 3
	x.video(t, 0x65, 15500)
	x.video(t, 0x41, 16600)
	x.video(t, 0x65, 17000) // completes segment 3
	evid.Eval(1)
	r, _, err := x.pl.Segment(3)
	if err != nil {
		// no third segment: the GOP was not cut at the audio frame
		evid.Class("witness:audio-does-not-cut-gop")
		return
	}
	ts, _ := io.ReadAll(r)
	// first video PES of the segment: first packet with PID 0x100 and payload_unit_start
	var first []byte
	for off := 0; off+188 <= len(ts); off += 188 {
		pk := ts[off : off+188]
		if pk[1]&0x40 != 0 && (int(pk[1]&0x1f)<<8|int(pk[2])) == 0x100 {
			first = pk
			break
		}
	}
	if first == nil {
		t.Fatalf("segment 3 has no video")
	}
	idr := bytes.Contains(first, []byte{0x65, 0x88}) && bytes.Contains(first, []byte{0, 0, 0, 1, 0x67, 0x42, 0x00, 0x1e})
	p := bytes.Contains(first, []byte{0, 0, 1, 0x41, 0x88})
	switch {
	case idr:
		evid.Class("witness:audio-does-not-cut-gop")
	case p:
		if evid.Known(sigAudioCut) {
			evid.Hit(sigAudioCut)
			evid.Class("witness:audio-cuts-gop(known)")
			t.Logf("KNOWN-FINDING %s: segment 3 begins its video with a P frame", sigAudioCut)
			return
		}
		evid.Violation(t, "witness/segment-start", map[string]any{"first_video_packet": evid.Hex(first)},
			"fragment 1 s, GOP of 3.5 s with one audio frame 2.12 s into it: the segment is cut at the audio frame and segment 3 begins its video with a P frame, no SPS/PPS/IDR")
	default:
		t.Fatalf("cannot read the first video packet of segment 3: % x", first[:32])
	}
}

// The SDP announces SPS/PPS pair A, the publisher sends pair B in band before
// every IDR (published as RTP through the real depacketizer). The statement
// asks for "a key frame preceded by SPS/PPS": every segment after the first
// must start with an SPS and a PPS the stream has carried. Which pair is not
// fixed - ipchub keeps the metadata pair (the first complete one, see ea42bf3
// in /repo); what it does is logged as an observation.
func TestWitnessInbandSetsOtherThanSprop(t *testing.T) {
	a := repoParamSets[0]
	c := &caseSpec{Stream: true, Rtp: true, Fragment: 1, Path: "/c10/witness-inband", SPS: b64hex(a[0]), PPS: b64hex(a[1]),
		ASC: audioConfigs[0].asc, Rate: audioConfigs[0].rate, FlushAt: -1}
	for g := int64(0); g < 4; g++ {
		t0 := g * 135000 // GOPs of 1.5 s
		c.Ops = append(c.Ops,
			op{K: "v", Hdr: 0x67, PS: 2, PTS: t0, DTS: t0}, op{K: "v", Hdr: 0x68, PS: 2, PTS: t0, DTS: t0}, // pair B in band
			op{K: "v", Hdr: 0x65, Size: 20, PTS: t0, DTS: t0})
		if g >= 1 {
			c.Ops = append(c.Ops, op{K: "sync", Back: int(g)})
		}
		c.Ops = append(c.Ops, op{K: "v", Hdr: 0x41, Size: 20, PTS: t0 + 99000, DTS: t0 + 99000})
	}
	c.Ops = append(c.Ops, op{K: "close"})
	res, f := run(c, t.TempDir())
	if res.infra != "" {
		t.Skipf("infrastructure: %s", res.infra)
	}
	evid.Eval(1)
	if f != nil {
		evid.Violation(t, "witness/inband-sets/"+f.Check, c, "SDP announces SPS/PPS pair A, the publisher sends pair B in band before every IDR: %s", f.Msg)
	}
	if res.segments < 3 {
		t.Fatalf("witness no longer completes three segments (%d)", res.segments)
	}
	if res.stalePairs > 0 {
		evid.Class("witness:segments-start-with-the-SDP-pair-although-another-was-sent-in-band(observed)")
		evid.Note("observed, not judged: SDP pair A, pair B in band before every IDR -> %d segments start with pair A (the metadata pair is kept after an in-band change)", res.stalePairs)
		t.Logf("observation: %d segments start with the SDP's pair, not with the pair sent in band", res.stalePairs)
	} else {
		evid.Class("witness:segments-start-with-the-pair-sent-in-band(observed)")
	}
}
