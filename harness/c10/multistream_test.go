package c10

// Two or three streams that keep their segments in ONE hls directory, as every
// stream of a server does (config hls.path). Their paths come from a small
// alphabet in which look-alikes are frequent: /live/cam_1 and /live_cam/1,
// /a/b and /a_b, /a/b/1 and /a/b_1 (equal once '/' and '_' are confused),
// /a and /a/b (one a prefix of the other), /a/1 and /live/1 (same last
// component). The harness owns the interleaving of their writes, playlist
// requests, fetches, reads and closes.
//
// Oracle: a metamorphic twin. Every stream has a memory-mode generator of the
// same path that is fed the same frames at the same moments and shares
// nothing with anybody; the disk stream must behave exactly like it: the same
// segments complete after the same writes, every segment fetched from the
// directory through the stream's own playlist equals the twin's segment of
// that number byte for byte (checked for every stream's whole window after
// every step, so damage done by a neighbour's write, rollover or close is seen
// when it happens), the playlist text equals the twin's and names only the
// stream's own path (engine.judgePlaylist), and each disk stream on its own
// passes the segment oracle of the sequential tests. The directory holds at
// most (3+1) x streams *.ts files at any time and none after all are closed.

import (
	"bytes"
	"encoding/json"
	"fmt"
	"os"
	"path/filepath"
	"sort"
	"strings"
	"testing"

	"github.com/cnotch/ipchub/utils"
	"pgregory.net/rapid"
	"verif/harness/lib/evid"
)

const multiRule = "Multi-stream: 2-3 disk-mode SegmentGenerator+Playlist pairs with different canonical stream paths share one hls directory; paths are built from {a, b, a_b, 1, cam_1, b_1, live_cam, live} at depth 1-3 so that pairs equal under '/'~'_' (/live/cam_1 vs /live_cam/1), prefix-related pairs (/a vs /a/b) and pairs with the same last component are frequent; a harness-owned schedule interleaves their writes (3-9 GOPs + closing train each), m3u8(token), fetch keeping the reader, reads after the neighbours rolled over, and closes in any order. " +
	"Oracle: each stream equals its memory-mode twin of the same path fed the same frames (same completions, window segments byte-identical after every step, same playlist text), passes the single-stream oracles, lists only its own path; <= (3+1) x streams .ts files, 0 after all are closed. " +
	"Non-trivial here: two of the streams have paths that are equal under '/'~'_' or prefix-related and both completed >= 3 segments."

// ---------------------------------------------------------------- path pool

var pathAlphabet = []string{"a", "b", "a_b", "1", "cam_1", "b_1", "live_cam", "live"}

type pathPool struct {
	all     []string
	flat    map[string][]string // '/' -> '_' image -> paths with that image (only images shared by >= 2 paths)
	inFlat  []string            // paths that have a look-alike under '/'~'_'
	hasPref []string            // paths that have a longer path below them
}

func flatten(p string) string { return strings.ReplaceAll(p, "/", "_") }

func prefixRelated(p, q string) bool {
	return strings.HasPrefix(q, p+"/") || strings.HasPrefix(p, q+"/")
}

func lastComponent(p string) string { return p[strings.LastIndexByte(p, '/')+1:] }

var pool = func() *pathPool {
	pp := &pathPool{flat: map[string][]string{}}
	var rec func(prefix string, depth int)
	rec = func(prefix string, depth int) {
		for _, s := range pathAlphabet {
			p := prefix + "/" + s
			pp.all = append(pp.all, p)
			if depth < 3 {
				rec(p, depth+1)
			}
		}
	}
	rec("", 1)
	sort.Strings(pp.all)
	by := map[string][]string{}
	for _, p := range pp.all {
		by[flatten(p)] = append(by[flatten(p)], p)
	}
	for k, v := range by {
		if len(v) >= 2 {
			pp.flat[k] = v
			pp.inFlat = append(pp.inFlat, v...)
		}
	}
	sort.Strings(pp.inFlat)
	for _, p := range pp.all {
		if strings.Count(p, "/") < 3 {
			pp.hasPref = append(pp.hasPref, p)
		}
	}
	return pp
}()

func (pp *pathPool) related(kind, p string, taken map[string]bool) []string {
	var out []string
	for _, q := range pp.all {
		if taken[q] {
			continue
		}
		switch kind {
		case "slash-vs-underscore":
			if flatten(q) == flatten(p) {
				out = append(out, q)
			}
		case "prefix":
			if prefixRelated(p, q) {
				out = append(out, q)
			}
		case "same-last-component":
			if lastComponent(q) == lastComponent(p) {
				out = append(out, q)
			}
		default:
			out = append(out, q)
		}
	}
	return out
}

var pairKinds = []string{"slash-vs-underscore", "slash-vs-underscore", "slash-vs-underscore", "prefix", "prefix", "same-last-component", "free"}

func genPaths(rt *rapid.T, n int) []string {
	kind := rapid.SampledFrom(pairKinds).Draw(rt, "pairKind")
	var first string
	switch kind {
	case "slash-vs-underscore":
		first = rapid.SampledFrom(pool.inFlat).Draw(rt, "path0")
	case "prefix":
		first = rapid.SampledFrom(pool.hasPref).Draw(rt, "path0")
	default:
		first = rapid.SampledFrom(pool.all).Draw(rt, "path0")
	}
	paths := []string{first}
	taken := map[string]bool{first: true}
	for len(paths) < n {
		base := paths[rapid.IntRange(0, len(paths)-1).Draw(rt, "relativeTo")]
		cand := pool.related(kind, base, taken)
		if len(cand) == 0 {
			cand = pool.related("free", base, taken)
		}
		p := rapid.SampledFrom(cand).Draw(rt, "path")
		paths = append(paths, p)
		taken[p] = true
		kind = rapid.SampledFrom(pairKinds).Draw(rt, "nextKind")
	}
	// which stream is opened first must not depend on how the pair was built
	perm := rapid.Permutation(paths).Draw(rt, "order")
	return perm
}

// ---------------------------------------------------------------- case

type multiStep struct {
	S     int    `json:"s"`           // stream
	K     string `json:"k"`           // w (write the stream's next N frame ops) | m3u8 | fetch | read | close
	N     int    `json:"n,omitempty"` // w: frames; read: byte count
	Token string `json:"token,omitempty"`
	Back  int    `json:"back,omitempty"`
	Rd    int    `json:"rd,omitempty"`
}

type multiCase struct {
	Streams []*caseSpec `json:"streams"` // Ops hold the frames only
	Steps   []multiStep `json:"steps"`
}

func genMultiCase(rt *rapid.T) *multiCase {
	n := rapid.SampledFrom([]int{2, 2, 3}).Draw(rt, "streams")
	paths := genPaths(rt, n)
	fragment := rapid.SampledFrom([]int{0, 1, 1, 2}).Draw(rt, "fragment")
	mc := &multiCase{}
	var tok *caseGen
	for _, p := range paths {
		c, g, audio := newRollingCase(rt, true, fragment, p)
		genRolling(rt, g, rapid.IntRange(3, 9).Draw(rt, "gops"), audio)
		mc.Streams = append(mc.Streams, c)
		tok = g
	}
	left := make([]int, n)
	closed := make([]bool, n)
	for i, c := range mc.Streams {
		left[i] = len(c.Ops)
	}
	open := func() []int {
		var o []int
		for i := range closed {
			if !closed[i] {
				o = append(o, i)
			}
		}
		return o
	}
	for len(open()) > 0 {
		o := open()
		s := o[rapid.IntRange(0, len(o)-1).Draw(rt, "stream")]
		switch k := rapid.IntRange(0, 9).Draw(rt, "step"); {
		case left[s] == 0 && k < 6:
			mc.Steps = append(mc.Steps, multiStep{S: s, K: "close"})
			closed[s] = true
		case k < 6 && left[s] > 0:
			w := min(left[s], rapid.SampledFrom([]int{1, 1, 2, 3, 3, 8}).Draw(rt, "frames"))
			mc.Steps = append(mc.Steps, multiStep{S: s, K: "w", N: w})
			left[s] -= w
		case k < 8:
			mc.Steps = append(mc.Steps, multiStep{S: s, K: "m3u8", Token: tok.token()})
		case k < 9:
			mc.Steps = append(mc.Steps, multiStep{S: s, K: "fetch", Back: rapid.SampledFrom([]int{0, 0, 1, 2, 2, 3}).Draw(rt, "back")})
		default:
			mc.Steps = append(mc.Steps, multiStep{S: s, K: "read", Rd: rapid.IntRange(0, 5).Draw(rt, "reader"),
				N: rapid.SampledFrom([]int{1, 188, 400, 1000, -1}).Draw(rt, "n")})
		}
	}
	return mc
}

// ---------------------------------------------------------------- execution

type multiStream struct {
	disk, twin *engine
	next       int // next frame op
}

type multiResult struct {
	segments []int
	classes  []string
	maxFiles int
	infra    string
}

func tsFiles(dir string) []string {
	names, _ := filepath.Glob(filepath.Join(dir, "*.ts"))
	return baseNames(names)
}

func runMulti(mc *multiCase, work string) (res *multiResult, f *failure) {
	res = &multiResult{}
	dir, err := os.MkdirTemp(work, "c10m-")
	if err != nil {
		res.infra = err.Error()
		return res, nil
	}
	defer os.RemoveAll(dir)
	var ss []*multiStream
	defer func() {
		for _, s := range ss {
			s.disk.cleanup()
			s.twin.cleanup()
		}
	}()
	for _, c := range mc.Streams {
		// e.dir stays empty: the engine's own file bound is that of a stream alone in its directory
		d, err := newDiskEngineIn(c, dir)
		if err != nil {
			return res, fail("open", "NewSegmentGenerator(%q) in a directory shared with %d other streams: %v", c.Path, len(ss), err)
		}
		tw, err := newDirectEngine(c, "")
		if err != nil {
			return res, fail("open", "NewSegmentGenerator(%q), memory: %v", c.Path, err)
		}
		ss = append(ss, &multiStream{disk: d, twin: tw})
	}
	// verify: every open stream's window, fetched from the directory, is its twin's
	verify := func(when string) *failure {
		for _, s := range ss {
			if s.disk.closed {
				continue
			}
			last := s.disk.lastSeq
			for seq := max(1, last-2); seq <= last; seq++ {
				r, size, err := s.disk.pl.Segment(seq)
				if err != nil {
					return fail("multistream-resolve", "%s: segment %d of %s (window %d..%d) does not resolve any more: %v; directory: %v", when, seq, s.disk.c.Path, max(1, last-2), last, err, tsFiles(dir))
				}
				got, rerr := readAllClose(r)
				want := s.twin.segs[seq]
				if rerr != nil || len(got) != size || !bytes.Equal(got, want) {
					return fail("multistream-bytes", "%s: segment %d of %s read from the shared directory (%d bytes announced, %d read, %v) differs from the segment the same frames produce for a stream that is alone (%d bytes), first difference at %d; directory: %v", when, seq, s.disk.c.Path, size, len(got), rerr, len(want), firstDiff(got, want), tsFiles(dir))
				}
			}
		}
		n := len(tsFiles(dir))
		res.maxFiles = max(res.maxFiles, n)
		if n > (3+1)*len(ss) {
			return fail("storage-bound", "%s: %d .ts files in the directory of %d streams (3 listed + 1 open each): %v", when, n, len(ss), tsFiles(dir))
		}
		return nil
	}
	for k, st := range mc.Steps {
		s := ss[st.S]
		when := fmt.Sprintf("step %d (%s on %s)", k, st.K, s.disk.c.Path)
		var f *failure
		switch st.K {
		case "w":
			for j := 0; j < st.N && f == nil; j++ {
				i := s.next
				s.next++
				o := &s.disk.c.Ops[i]
				for _, e := range []*engine{s.twin, s.disk} {
					if i == e.c.FlushAt {
						e.properV, e.properA = len(e.srcV), len(e.srcA)
					}
				}
				if f = s.twin.write(i, o); f != nil {
					f.Msg = "memory twin: " + f.Msg // the stream alone already breaks a single-stream oracle
					break
				}
				if f = s.disk.write(i, o); f != nil {
					break
				}
				if s.disk.lastSeq != s.twin.lastSeq {
					f = fail("multistream-completions", "after frame %d of %s the disk stream has %d complete segments, the same frames alone give %d", i, s.disk.c.Path, s.disk.lastSeq, s.twin.lastSeq)
					break
				}
				f = verify(fmt.Sprintf("%s, frame %d", when, i))
			}
		case "m3u8":
			if f = s.disk.m3u8(st.Token); f == nil {
				got, gerr := s.disk.pl.M3u8(st.Token)
				want, werr := s.twin.pl.M3u8(st.Token)
				if (gerr == nil) != (werr == nil) || !bytes.Equal(got, want) {
					f = fail("multistream-playlist", "playlist of %s is %q (%v), the same frames alone give %q (%v)", s.disk.c.Path, got, gerr, want, werr)
				}
			}
		case "fetch":
			f = s.disk.fetch(s.disk.lastSeq - st.Back)
		case "read":
			f = s.disk.read(st.Rd, st.N)
		case "close":
			if f = s.disk.close(); f == nil {
				f = s.twin.close()
			}
		}
		if f == nil && st.K != "w" {
			f = verify(when)
		}
		if f != nil {
			if !strings.HasPrefix(f.Msg, "step ") {
				f.Msg = when + ": " + f.Msg
			}
			return res, f
		}
	}
	for _, s := range ss {
		for k := range s.disk.readers {
			if f := s.disk.read(k, -1); f != nil {
				f.Msg = fmt.Sprintf("final drain of %s: %s", s.disk.c.Path, f.Msg)
				return res, f
			}
		}
		if f := s.disk.checkHeld(); f != nil {
			return res, f
		}
		res.segments = append(res.segments, s.disk.lastSeq)
		res.classes = append(res.classes, s.disk.res.classes...)
	}
	if left := tsFiles(dir); len(left) != 0 {
		return res, fail("storage-bound", "%d .ts files are left in the directory after all %d streams were closed: %v", len(left), len(ss), left)
	}
	return res, nil
}

// newDiskEngineIn: a disk-mode engine whose generator writes into dir, while
// the engine's own per-directory file bound stays off (e.dir == "").
func newDiskEngineIn(c *caseSpec, dir string) (*engine, error) {
	e, err := newDirectEngine(c, dir)
	if err != nil {
		return nil, err
	}
	e.dir = ""
	return e, nil
}

func TestDiskStreamsDoNotInterfere(t *testing.T) {
	t.Parallel()
	evid.Rule(multiRule)
	for _, p := range pool.all {
		if utils.CanonicalPath(p) != p {
			t.Fatalf("harness: generated path %q is not canonical (%q)", p, utils.CanonicalPath(p))
		}
	}
	if len(pool.flat["_live_cam_1"]) < 2 || len(pool.flat["_a_b"]) < 2 || len(pool.flat["_a_b_1"]) < 3 {
		t.Fatalf("harness: the look-alike groups are missing: %v", pool.flat)
	}
	work := workDir(t)
	evid.Checks(300, 3000)
	rapid.Check(t, func(rt *rapid.T) {
		mc := genMultiCase(rt)
		res, f := runMulti(mc, work)
		if res.infra != "" {
			evid.Class("infrastructure:case-dropped")
			return
		}
		evid.Eval(1)
		if f != nil {
			evid.Violation(rt, "multistream/"+f.Check, mc, "%s", f.Msg)
		}
		evid.Class(fmt.Sprintf("multistream:streams:%d", len(mc.Streams)))
		evid.Class(fmt.Sprintf("multistream:max-files:%d", res.maxFiles))
		for _, cl := range res.classes {
			if strings.HasPrefix(cl, "read:") || strings.HasPrefix(cl, "fetch:") || strings.HasPrefix(cl, "m3u8:") {
				evid.Class("multistream:" + cl)
			}
		}
		nt := false
		for i := range mc.Streams {
			for j := i + 1; j < len(mc.Streams); j++ {
				p, q := mc.Streams[i].Path, mc.Streams[j].Path
				both := res.segments[i] >= 3 && res.segments[j] >= 3
				kind := "unrelated"
				switch {
				case flatten(p) == flatten(q):
					kind = "slash-vs-underscore"
				case prefixRelated(p, q):
					kind = "prefix"
				case lastComponent(p) == lastComponent(q):
					kind = "same-last-component"
				}
				if both {
					evid.Class("multistream:pair:" + kind)
					if kind == "slash-vs-underscore" || kind == "prefix" {
						nt = true
						if evid.WantSample("multistream:" + kind) {
							evid.Sample("multistream:"+kind, map[string]any{"paths": []string{p, q}, "segments": []int{res.segments[i], res.segments[j]}, "steps": len(mc.Steps), "fragment": mc.Streams[i].Fragment})
						}
					}
				} else {
					evid.Class("multistream:pair:fewer-than-3-segments")
				}
			}
		}
		if nt {
			b, _ := json.Marshal(mc)
			evid.Nontrivial(evid.FP(b))
			evid.Class("multistream:non-trivial")
		}
	})
}
