package c10

import (
	"encoding/base64"
	"encoding/hex"
	"sort"
	"sync"
	"testing"

	"pgregory.net/rapid"
	"verif/harness/lib/evid"
)

// parameter sets that ship in ipchub's own tests (media/stream_test.go,
// service/rtsp/sdp_test.go, av/codec/h264/sps_test.go)
var repoParamSets = [][2]string{
	{"Z2QAH6zZQFAFuhAAAAMAEAAAAwPI8YMZYA==", "aO+8sA=="},
	{"Z3oAH7y0AoAt0IAAAAMAgAAAHkeMGVA=", "aO8Pyw=="},
	{"Z01AH6sSB4CL9wgAAAMACAAAAwGUeMGMTA==", "aO+8sA=="},
}

func b64hex(s string) string {
	b, err := base64.StdEncoding.DecodeString(s)
	if err != nil {
		panic(err)
	}
	return hex.EncodeToString(b)
}

// encodeASC writes the 2-byte AudioSpecificConfig of ISO/IEC 14496-3 1.6.2.1
// (audioObjectType 5 bits, samplingFrequencyIndex 4, channelConfiguration 4,
// GASpecificConfig flags 0).
func encodeASC(aot, idx, ch byte) string {
	return hex.EncodeToString([]byte{aot<<3 | idx>>1, idx<<7 | ch<<3})
}

// audio configurations: AudioSpecificConfig and the rate it announces
// (ISO/IEC 14496-3 Table 1.18). The first is the repository's own capture
// (av/codec/aac/asc_test.go).
var audioConfigs = []struct {
	asc  string
	rate int
}{
	{"121056e500", 44100},
	{encodeASC(2, 3, 2), 48000}, // "1190", also in asc_test.go
	{encodeASC(2, 5, 2), 32000},
	{encodeASC(2, 8, 1), 16000},
	{encodeASC(2, 11, 1), 8000},
}

type timed struct {
	t  int64 // arrival time (video: DTS, audio: PTS)
	o  op
	vk int // tie-break: video key first, then audio, then other video
}

// caseGen draws one schedule. All randomness comes from rt.
type caseGen struct {
	rt     *rapid.T
	c      *caseSpec
	F      int64 // fragment length in ticks used for sizing (1 s when the fragment is 0)
	now    int64 // time of the latest frame
	ta     int64 // next audio stamp
	cad    int64 // audio frame duration in ticks
	frames int
	noKey  bool
	stats  []string

	// parameter sets: "sprop" (in the SDP only), "inband" (SDP without sprop, the
	// sets arrive in band ahead of the first IDR), "differ" (the SDP announces one
	// pair, the publisher sends another in band)
	psMode    string
	psPair    int  // 1-based pair of repoParamSets the publisher currently uses
	psPending bool // not yet delivered in band
	psChanges bool // the publisher switches pairs now and then
}

// paramSetMode draws the class for a case whose SDP pair is base (0-based).
func (g *caseGen) paramSetMode(base int, allow bool, outOf int) {
	g.psMode, g.psPair = "sprop", base+1
	if !allow {
		return
	}
	switch rapid.IntRange(0, outOf-1).Draw(g.rt, "paramSetMode") {
	case 0:
		g.psMode, g.psPending = "inband", true
		g.c.NoSprop = true
		g.stats = append(g.stats, "ps:SDP-without-sprop,sets-in-band")
	case 1:
		g.psMode, g.psPending = "differ", true
		g.psPair = (base+1)%len(repoParamSets) + 1
		g.stats = append(g.stats, "ps:in-band-sets-differ-from-sprop")
	default:
		g.stats = append(g.stats, "ps:sprop-only")
		return
	}
	g.psChanges = rapid.Bool().Draw(g.rt, "paramSetsChange")
}

// paramSets returns the in-band SPS+PPS frames the publisher sends ahead of the
// key picture at t, if it sends any there.
func (g *caseGen) paramSets(t int64) []timed {
	if g.psMode == "sprop" || g.psMode == "" {
		return nil
	}
	emit := g.psPending
	if !emit && g.psChanges && rapid.IntRange(0, 3).Draw(g.rt, "switchSets") == 0 {
		g.psPair = g.psPair%len(repoParamSets) + 1
		emit = true
		g.stats = append(g.stats, "ps:changed-mid-stream")
	}
	if !emit && rapid.IntRange(0, 2).Draw(g.rt, "repeatSets") == 0 {
		emit = true
		g.stats = append(g.stats, "ps:repeated-in-band")
	}
	if !emit {
		return nil
	}
	g.psPending = false
	return []timed{
		{t: t, o: op{K: "v", Hdr: 0x67, PS: g.psPair, PTS: t, DTS: t}, vk: 0},
		{t: t, o: op{K: "v", Hdr: 0x68, PS: g.psPair, PTS: t, DTS: t}, vk: 0},
	}
}

func (g *caseGen) size(audio bool) int {
	switch rapid.IntRange(0, 19).Draw(g.rt, "sizeClass") {
	case 0:
		return rapid.IntRange(150, 190).Draw(g.rt, "size") // around one packet
	case 1:
		return rapid.IntRange(300, 1500).Draw(g.rt, "size")
	case 2:
		if !audio {
			return rapid.IntRange(4000, 9000).Draw(g.rt, "size")
		}
	}
	return rapid.IntRange(5, 60).Draw(g.rt, "size")
}

// audio produces audio frames for the interval [from, to) in the drawn mode.
func (g *caseGen) audio(from, to int64, allowDense bool) []timed {
	if g.c.Fragment == 0 {
		// fragment 0 exists only at the constructor; there every audio frame cuts
		// the segment by construction of the "absolutely overflow" rule
		return nil
	}
	modes := []string{"none", "none", "burst", "burst", "sparse", "sparse", "dense"}
	mode := rapid.SampledFrom(modes).Draw(g.rt, "audioMode")
	if mode == "dense" && (!allowDense || (to-from)/g.cad > 120) {
		mode = "burst"
	}
	g.stats = append(g.stats, "audio:"+mode)
	if mode == "none" {
		return nil
	}
	jitter := rapid.SampledFrom([]int64{0, 0, 90, 900}).Draw(g.rt, "audioJitter")
	cad := g.cad
	if rapid.IntRange(0, 5).Draw(g.rt, "drift") == 0 {
		cad = cad * 102 / 100 // a clock 2 % off: the estimate runs away until it resyncs
		g.stats = append(g.stats, "audio:drifting-clock")
	}
	var out []timed
	emit := func(t int64) {
		if t < g.ta {
			t = g.ta
		}
		p := t
		if jitter > 0 {
			p += rapid.Int64Range(-jitter, jitter).Draw(g.rt, "j")
			if p < g.ta {
				p = g.ta
			}
		}
		g.ta = p + 1
		out = append(out, timed{t: p, o: op{K: "a", Size: g.size(true), PTS: p}, vk: 1})
	}
	start := from + rapid.Int64Range(0, 4500).Draw(g.rt, "audioOffset")
	if g.ta > start-2*g.cad && g.ta < start+2*g.cad {
		start = g.ta // continue the running cadence
	}
	switch mode {
	case "burst":
		n := rapid.IntRange(1, 8).Draw(g.rt, "burst")
		if rapid.Bool().Draw(g.rt, "burstLate") && to-from > 4*g.cad {
			start = from + rapid.Int64Range(0, to-from-1).Draw(g.rt, "burstAt")
		}
		for k := 0; k < n; k++ {
			emit(start + int64(k)*cad)
		}
	case "sparse":
		step := rapid.Int64Range(13500, 108000).Draw(g.rt, "sparseStep") // 150 ms .. 1.2 s
		for t := start; t < to && len(out) < 40; t += step {
			emit(t)
		}
	case "dense":
		for t := start; t < to; t += cad {
			emit(t)
		}
	}
	return out
}

func (g *caseGen) push(ts []timed) {
	sort.SliceStable(ts, func(a, b int) bool {
		if ts[a].t != ts[b].t {
			return ts[a].t < ts[b].t
		}
		return ts[a].vk < ts[b].vk
	})
	for _, x := range ts {
		g.c.Ops = append(g.c.Ops, x.o)
		g.frames++
	}
}

var gopClasses = []string{"tiny<100ms", "short", "short", "about-fragment", "about-fragment", "about-fragment", "about-fragment", "long", "long", "long", ">2x-fragment", ">2x-fragment"}

func (g *caseGen) gop() {
	class := rapid.SampledFrom(gopClasses).Draw(g.rt, "gopClass")
	var d int64
	F := g.F
	switch class {
	case "tiny<100ms":
		d = rapid.Int64Range(300, 8900).Draw(g.rt, "d")
	case "short":
		d = rapid.Int64Range(F*15/100, F*9/10).Draw(g.rt, "d")
	case "about-fragment":
		d = rapid.Int64Range(F*95/100, F*14/10).Draw(g.rt, "d")
	case "long":
		d = rapid.Int64Range(F*14/10, F*195/100).Draw(g.rt, "d")
	default:
		d = rapid.Int64Range(F*205/100, F*32/10).Draw(g.rt, "d")
	}
	g.stats = append(g.stats, "gop:"+class)
	n := rapid.IntRange(1, 7).Draw(g.rt, "gopFrames")
	step := d / int64(n)
	if step < 1 {
		step = 1
	}
	reorder := rapid.IntRange(0, 5).Draw(g.rt, "reorder") == 0
	var ts []timed
	t0 := g.now
	key := byte(0x65)
	if g.noKey {
		key = 0x41 // the publisher joined mid-GOP: no key frame yet
		g.noKey = false
		g.stats = append(g.stats, "gop:stream-starts-without-key")
	}
	if key == 0x65 {
		ts = append(ts, g.paramSets(t0)...)
	}
	if rapid.IntRange(0, 7).Draw(g.rt, "sei") == 0 {
		ts = append(ts, timed{t: t0, o: op{K: "v", Hdr: 0x06, Size: g.size(false), PTS: t0, DTS: t0}, vk: 0})
		g.stats = append(g.stats, "gop:SEI-before-key")
	}
	ts = append(ts, timed{t: t0, o: op{K: "v", Hdr: key, Size: g.size(false), PTS: t0, DTS: t0}, vk: 0})
	if key == 0x65 && rapid.IntRange(0, 9).Draw(g.rt, "slices") == 0 {
		ts = append(ts, timed{t: t0, o: op{K: "v", Hdr: 0x65, Size: g.size(false), PTS: t0, DTS: t0}, vk: 0})
		g.stats = append(g.stats, "gop:two-slice-IDR")
	}
	for k := 1; k < n; k++ {
		dts := t0 + int64(k)*step
		pts := dts
		if reorder && k%2 == 1 {
			// presentation after decoding by one to three frame periods of a 25 Hz
			// stream, as B-frame reordering produces; never more than the frame step
			pts += min(step, int64(3600*(1+k%3)))
		}
		hdr := byte(0x41)
		if k%3 == 2 {
			hdr = 0x01 // nal_ref_idc 0
		}
		ts = append(ts, timed{t: dts, o: op{K: "v", Hdr: hdr, Size: g.size(false), PTS: pts, DTS: dts}, vk: 2})
	}
	if reorder {
		g.stats = append(g.stats, "gop:PTS!=DTS")
	}
	ts = append(ts, g.audio(t0, t0+d, true)...)
	g.push(ts)
	g.now = t0 + d
}

// gap: no video for a while; audio may go on.
func (g *caseGen) gap() {
	F := g.F
	d := rapid.Int64Range(F*3/10, F*35/10).Draw(g.rt, "gap")
	a := g.audio(g.now, g.now+d, true)
	if len(a) > 0 {
		g.stats = append(g.stats, "gap:audio-only")
	} else {
		g.stats = append(g.stats, "gap:silent")
	}
	g.push(a)
	g.now += d
	if g.c.Fragment > 0 && rapid.IntRange(0, 9).Draw(g.rt, "resumeMidGop") == 0 {
		g.noKey = true // the video comes back in the middle of its GOP
	}
}

var tokenAlphabet = []rune("abcdefghijklmnopqrstuvwxyzABCDEFGHIJKLMNOPQRSTUVWXYZ0123456789-_.~")

func (g *caseGen) token() string {
	switch rapid.IntRange(0, 5).Draw(g.rt, "tokenKind") {
	case 0:
		return ""
	case 1:
		return "tokA"
	case 2:
		return "a-rather-longer-token-of-another-length-0123456789"
	default:
		return rapid.StringOfN(rapid.SampledFrom(tokenAlphabet), 1, 48, -1).Draw(g.rt, "token")
	}
}

func (g *caseGen) reads() {
	switch rapid.IntRange(0, 10).Draw(g.rt, "readKind") {
	case 0, 1:
		g.c.Ops = append(g.c.Ops, op{K: "m3u8", Token: g.token()})
	case 2: // two callers, one after the other
		g.c.Ops = append(g.c.Ops, op{K: "m3u8", Token: g.token()}, op{K: "m3u8", Token: g.token()})
	case 3, 4, 5:
		g.c.Ops = append(g.c.Ops, op{K: "fetch", Back: rapid.SampledFrom([]int{0, 0, 1, 1, 2, 2, 2, 3, 4, -1}).Draw(g.rt, "back")})
	default:
		g.c.Ops = append(g.c.Ops, op{K: "read", Rd: rapid.IntRange(0, 5).Draw(g.rt, "reader"),
			N: rapid.SampledFrom([]int{1, 7, 188, 188, 400, 1000, 1000, -1}).Draw(g.rt, "n")})
	}
}

// bigGop appends one GOP of three frames to c.Ops: it lasts longer than the
// fragment length, so the next GOP's key frame completes its segment. class
// 2: the segment exceeds 1 MiB, 1: it exceeds 512 KiB (the capacity of a
// pooled segment buffer), 0: small.
func (g *caseGen) bigGop(class int) {
	t0 := g.now
	d := rapid.Int64Range(g.F+9000, g.F*18/10).Draw(g.rt, "d")
	sz := func() int {
		switch class {
		case 2:
			return rapid.IntRange(360000, 450000).Draw(g.rt, "size")
		case 1:
			return rapid.IntRange(180000, 300000).Draw(g.rt, "size")
		}
		return g.size(false)
	}
	if class == 3 {
		// a high bit rate stream WITH audio: ten pictures of 450-900 KB (4.5-9 MB in the
		// segment), AAC frames at their exact cadence between them. The GOP lasts less
		// than twice the fragment length, so no audio frame may cut it (after seeded
		// change C10-R6B: a byte limit consulted when audio arrives)
		for k := int64(0); k < 10; k++ {
			pts := t0 + k*(d-300)/9
			for g.ta < pts {
				g.c.Ops = append(g.c.Ops, op{K: "a", Size: g.size(true), PTS: g.ta})
				g.ta += g.cad
			}
			hdr := byte(0x41)
			if k == 0 {
				hdr = 0x65
			}
			g.c.Ops = append(g.c.Ops, op{K: "v", Hdr: hdr, Size: rapid.IntRange(450000, 900000).Draw(g.rt, "size"), PTS: pts, DTS: pts})
		}
		g.now = t0 + d
		g.stats = append(g.stats, "big:gop>4MiB-with-audio")
		return
	}
	g.c.Ops = append(g.c.Ops,
		op{K: "v", Hdr: 0x65, Size: sz(), PTS: t0, DTS: t0},
		op{K: "v", Hdr: 0x41, Size: sz(), PTS: t0 + d/2, DTS: t0 + d/2},
		op{K: "v", Hdr: 0x01, Size: sz(), PTS: t0 + d - 300, DTS: t0 + d - 300})
	g.now = t0 + d
	if g.ta < g.now {
		g.ta = g.now + g.cad - (g.now % g.cad) // audio, if any follows, resumes on its cadence
	}
	g.stats = append(g.stats, []string{"big:gop-small", "big:gop>512KiB", "big:gop>1MiB"}[class])
}

// genBigCase: memory mode, segments larger than a pooled buffer. A reader is
// opened for a big segment while it is the oldest one listed, the window then
// rolls past it one to three times (its successor segments are completed and
// the open segment has received frames), and only then the reader is read to
// its end.
func genBigCase(rt *rapid.T) (*caseSpec, []string) {
	c := &caseSpec{FlushAt: -1, Fragment: rapid.SampledFrom([]int{1, 1, 2}).Draw(rt, "fragment")}
	ps := repoParamSets[rapid.IntRange(0, len(repoParamSets)-1).Draw(rt, "paramSet")]
	c.SPS, c.PPS = b64hex(ps[0]), b64hex(ps[1])
	c.ASC, c.Rate = audioConfigs[0].asc, audioConfigs[0].rate
	c.Path = "/big/" + rapid.StringMatching(`[a-z0-9]{1,6}`).Draw(rt, "path")
	g := &caseGen{rt: rt, c: c, F: int64(c.Fragment) * 90000, cad: 1024 * 90000 / int64(c.Rate), psMode: "sprop"}
	g.stats = append(g.stats, "big:case")
	// segment 1 is the big one (> 1 MiB in a third of the cases); two small GOPs
	// fill the window
	big := 1
	if rapid.IntRange(0, 2).Draw(rt, "over1MiB") == 0 {
		big = 2
	}
	if rapid.IntRange(0, 2).Draw(rt, "over4MiBWithAudio") == 0 {
		big = 3
		g.now = 10 * g.cad * 40 // on the audio cadence, well past the start-up of the time-stamp estimator
		g.ta = g.now
	}
	g.bigGop(big)
	g.bigGop(0)
	g.bigGop(0)
	// the key frame of the fourth GOP completes segment 3: segment 1 is the oldest
	// one listed; the reader is opened right behind that key frame
	g.bigGop(0)
	at := len(c.Ops) - 2
	ins := []op{{K: "fetch", Back: 2}}
	if rapid.Bool().Draw(rt, "startReading") {
		ins = append(ins, op{K: "read", Rd: 0, N: rapid.SampledFrom([]int{188, 1000, 70000}).Draw(rt, "n")})
	}
	c.Ops = append(c.Ops[:at], append(ins, c.Ops[at:]...)...)
	// the window rolls past segment 1 one to three times; the open segment has
	// received the frames of its GOP each time
	for rolls := rapid.IntRange(1, 3).Draw(rt, "rolls"); rolls > 0; rolls-- {
		cl := 0
		if rapid.IntRange(0, 5).Draw(rt, "bigAgain") == 0 {
			cl = 1
		}
		g.bigGop(cl)
	}
	if rapid.IntRange(0, 3).Draw(rt, "playlist") == 0 {
		c.Ops = append(c.Ops, op{K: "m3u8", Token: g.token()})
	}
	c.Ops = append(c.Ops, op{K: "read", Rd: 0, N: -1})
	g.stats = append(g.stats, "big:reader-held-across-rollover")
	c.FlushAt = len(c.Ops)
	t := g.now
	for k := 0; k < 4; k++ {
		t += g.F + 90000
		c.Ops = append(c.Ops, op{K: "v", Hdr: 0x65, Size: 9, PTS: t, DTS: t}, op{K: "v", Hdr: 0x41, Size: 9, PTS: t + 45000, DTS: t + 45000})
	}
	c.Ops = append(c.Ops, op{K: "close"})
	return c, g.stats
}

func genCase(rt *rapid.T, disk bool, salt int) (*caseSpec, []string) {
	c := &caseSpec{Disk: disk, FlushAt: -1}
	for k := 0; k < salt; k++ {
		// the driver hands every rapid.Check of the run the same seed: sibling
		// tests shift the random stream so that they do not repeat each other
		rapid.Uint64().Draw(rt, "salt")
	}
	if !disk && rapid.Uint64().Draw(rt, "bigSegments")%64 == 37 {
		// a few memory cases with segments beyond the pooled buffer's capacity
		// (they cost memory bandwidth)
		return genBigCase(rt)
	}
	c.Fragment = rapid.SampledFrom([]int{1, 1, 1, 1, 1, 2, 2, 2, 3, 5, 0}).Draw(rt, "fragment")
	base := rapid.IntRange(0, len(repoParamSets)-1).Draw(rt, "paramSet")
	ps := repoParamSets[base]
	c.SPS, c.PPS = b64hex(ps[0]), b64hex(ps[1])
	ac := audioConfigs[rapid.IntRange(0, len(audioConfigs)-1).Draw(rt, "audioConfig")]
	c.ASC, c.Rate = ac.asc, ac.rate
	c.Path = "/" + rapid.StringMatching(`[a-z0-9]{1,6}(/[a-z0-9_]{1,6}){0,2}`).Draw(rt, "path")
	g := &caseGen{rt: rt, c: c, F: int64(c.Fragment) * 90000, cad: 1024 * 90000 / int64(ac.rate)}
	g.paramSetMode(base, c.Fragment > 0, 8)
	if disk {
		// about a fifth of the disk cases start in a directory with a history
		// a reader that spins on the next sequence number while the writer writes; the
		// memory-mode twin of the same frames
		c.Spin = rapid.IntRange(0, 5).Draw(rt, "spinningReader") == 0
		c.Twin = rapid.IntRange(0, 3).Draw(rt, "memoryTwin") == 0
		c.Earlier = rapid.SampledFrom([]string{"", "killed", "killed", "republished", "", "", "", "", "", "", "", "", "", "", "", ""}).Draw(rt, "earlierLife")
	}
	g.now = rapid.SampledFrom([]int64{0, 0, 1, 2999, 90000, 12345678, 1 << 31, 8000000000}).Draw(rt, "t0")
	g.ta = g.now
	g.noKey = rapid.IntRange(0, 7).Draw(rt, "startsMidGop") == 0
	blocks := rapid.IntRange(4, 34).Draw(rt, "blocks")
	for b := 0; b < blocks && g.frames < 400; b++ {
		switch k := rapid.IntRange(0, 19).Draw(rt, "block"); {
		case k < 9:
			g.gop()
		case k < 11:
			g.gap()
		default:
			g.reads()
		}
	}
	if rapid.IntRange(0, 9).Draw(rt, "flush") < 9 {
		// closing train: four key frames, each more than a fragment length behind
		// the previous one, push every earlier frame into a completed segment
		c.FlushAt = len(c.Ops)
		t := g.now
		if g.ta > t {
			t = g.ta
		}
		for k := 0; k < 4; k++ {
			t += g.F + 90000
			if g.psPending {
				for _, x := range g.paramSets(t) {
					c.Ops = append(c.Ops, x.o)
				}
			}
			c.Ops = append(c.Ops, op{K: "v", Hdr: 0x65, Size: 9, PTS: t, DTS: t})
			if k < 3 {
				// half a second behind its key frame, so that with fragment 0 the train's own
				// segments are not < 100 ms ones
				c.Ops = append(c.Ops, op{K: "v", Hdr: 0x41, Size: 9, PTS: t + 45000, DTS: t + 45000})
			}
			if k >= 1 && rapid.Bool().Draw(rt, "readInFlush") {
				g.reads()
			}
		}
	}
	c.Ops = append(c.Ops, op{K: "close"})
	for k := rapid.IntRange(0, 2).Draw(rt, "readsAfterClose"); k > 0; k-- {
		c.Ops = append(c.Ops, op{K: "read", Rd: rapid.IntRange(0, 5).Draw(rt, "reader"), N: -1})
	}
	return c, g.stats
}

func stateMachine(t *testing.T, disk bool, salt, quick, thorough int) {
	evid.Rule(ruleText)
	evid.Assume("fragment 0 is reachable only through the constructor (config.HlsFragment yields >= 5, the verif hook > 0); it is generated without audio, because with it every audio frame cuts the segment by construction")
	evid.Assume("time stamps stay below 2^33 (no wrap inside a case) and arrive in decode order")
	work := workDir(t)
	name := "state-machine-memory"
	if disk {
		name = "state-machine-disk"
	}
	var mu sync.Mutex
	evid.Checks(quick, thorough)
	rapid.Check(t, func(rt *rapid.T) {
		c, stats := genCase(rt, disk, salt)
		check(rt, c, work, name)
		mu.Lock()
		for _, s := range stats {
			evid.Class(s)
		}
		mu.Unlock()
	})
}

func TestStateMachineMemory(t *testing.T) {
	t.Parallel()
	stateMachine(t, false, 0, 2000, 20000)
}

func TestStateMachineMemoryB(t *testing.T) {
	t.Parallel()
	stateMachine(t, false, 1, 2000, 20000)
}

func TestStateMachineDisk(t *testing.T) {
	t.Parallel()
	stateMachine(t, true, 2, 1500, 15000)
}

func TestStateMachineDiskB(t *testing.T) {
	t.Parallel()
	stateMachine(t, true, 3, 1500, 15000)
}
