package c10

// Free-running interleavings of playlist requests and segment fetches with
// segment rollover. The state-machine tests own their schedule and are
// sequential; here one goroutine feeds a real SegmentGenerator + Playlist so
// that the window rolls a few hundred times while 4..8 goroutines ask for the
// playlist (each with a token of its own) and fetch what it lists.
//
// The writer is the engine of prop_test.go (so every completed segment is
// captured, demultiplexed and accounted against the source frames as in the
// sequential tests) plus a time line the readers can consult without touching
// the engine: how many writes have begun / are done and how many segments were
// complete after each of them. With it a reader knows, for the interval of one
// of its calls, a lower and an upper bound of "the most recent complete
// segment", and whether a rollover happened entirely inside the interval.
// Every served playlist is judged by engine.judgePlaylist (the oracle of the
// sequential tests) as the window ending at the number it lists last; the
// harness adds that this number lies within the bounds.
//
// rapid draws the shape only (storage mode, fragment, GOPs, readers, pacing);
// the interleaving is the Go scheduler's and cannot be shrunk or replayed bit
// for bit, so a violation carries the whole observation.

import (
	"bytes"
	"encoding/json"
	"fmt"
	"hash/fnv"
	"io"
	"os"
	"runtime/debug"
	"sync"
	"sync/atomic"
	"testing"

	"github.com/cnotch/ipchub/av/codec"
	"github.com/cnotch/ipchub/av/format/hls"
	"github.com/cnotch/ipchub/av/format/mpegts"
	"github.com/cnotch/xlog"
	"pgregory.net/rapid"
	"verif/harness/lib/evid"
)

const concRule = "Concurrent: one goroutine writes 120-400 GOPs (each completes a segment; fragment 0, 1, 2; memory and disk mode; optional AAC bursts, GOPs < 100 ms, 2-4 frames per GOP) through the state-machine engine while 4-8 free-running goroutines call M3u8(own token) and Segment(listed numbers, and the number behind the last listed one). " +
	"Every served playlist goes through the playlist oracle of the sequential tests as the window ending at its last listed number, which must lie between the number of segments complete before the call and the number that can be complete after it; a listed segment may be refused only when the window can have moved past it, served bytes must equal the bytes recorded by the writer when that number was completed; playlist bytes handed out earlier must not change; a panic is a violation. " +
	"Every served playlist that was judged counts as one evaluation. Non-trivial here: a playlist whose request and return enclose at least one complete rollover (time line read before and after the call); at most 64 fingerprints per reader and case are kept, the class histogram has the full count."

// ---------------------------------------------------------------- time line

type concFailure struct {
	Check string
	Msg   string
	Obs   map[string]any
}

// timeline is what the writer publishes. seqAfter[k] = number of complete
// segments after k writes; entry k is written before done becomes k, so a
// reader that loaded done >= k may read it.
type timeline struct {
	begun    atomic.Int64
	done     atomic.Int64
	seqAfter []int32
	stop     atomic.Bool // the writer will not write any more
	wroteAll atomic.Bool // ... because it wrote every frame
	failed   atomic.Pointer[concFailure]

	mu  sync.RWMutex
	rec map[int][]byte // seq -> bytes captured by the writer right after completion
}

func (tl *timeline) fail(check string, obs map[string]any, format string, a ...any) {
	tl.failed.CompareAndSwap(nil, &concFailure{Check: check, Msg: fmt.Sprintf(format, a...), Obs: obs})
}

// lower: that many segments are complete for sure (published by the writer).
func (tl *timeline) lower() int { return int(tl.seqAfter[tl.done.Load()]) }

// upper: no more than that many segments can be complete now. A write that
// has begun may have completed one more than its predecessor left (the engine
// refuses a write that completes two).
func (tl *timeline) upper() int {
	d := tl.done.Load()
	b := tl.begun.Load()
	switch {
	case b == 0:
		return 0
	case d == b: // read in this order: no write was in progress in between
		return int(tl.seqAfter[b])
	default:
		return int(tl.seqAfter[b-1]) + 1
	}
}

// recorded returns the bytes the writer recorded for seq, if it has published
// them already (it does so before its next write).
func (tl *timeline) recorded(seq int) ([]byte, bool) {
	if tl.lower() < seq {
		return nil, false
	}
	tl.mu.RLock()
	b, ok := tl.rec[seq]
	tl.mu.RUnlock()
	return b, ok
}

// completed renders what the writer had completed, newest 8, for a violation.
func (tl *timeline) completed() map[string]any {
	last := tl.lower()
	var rows []map[string]any
	tl.mu.RLock()
	for s := max(1, last-7); s <= last; s++ {
		h := fnv.New64a()
		h.Write(tl.rec[s])
		rows = append(rows, map[string]any{"seq": s, "bytes": len(tl.rec[s]), "fnv64a": fmt.Sprintf("%016x", h.Sum64())})
	}
	tl.mu.RUnlock()
	return map[string]any{"writes_begun": tl.begun.Load(), "writes_done": tl.done.Load(), "segments_published": last, "newest": rows}
}

// ---------------------------------------------------------------- writer

func newDirectEngine(c *caseSpec, dir string) (*engine, error) {
	e := &engine{c: c, res: &result{}, segs: map[int][]byte{}, openedBy: map[int]opener{}, sps: mustHex(c.SPS), pps: mustHex(c.PPS), properV: -1, dir: dir}
	e.hpl = hls.NewPlaylist()
	sg, err := hls.NewSegmentGenerator(e.hpl, c.Path, c.Fragment, dir, c.Rate, xlog.L())
	if err != nil {
		return nil, err
	}
	e.sg, e.pl = sg, e.hpl
	e.vp = mpegts.NewH264Packetizer(&codec.VideoMeta{Codec: "H264", Sps: e.sps, Pps: e.pps}, sg)
	e.ap = mpegts.NewAacPacketizer(&codec.AudioMeta{Codec: "AAC", Sps: mustHex(c.ASC), SampleRate: c.Rate}, sg)
	return e, nil
}

// writeAll runs the frame ops of the case through the engine and publishes the
// time line. It returns the engine's own verdict (segment oracle).
func writeAll(e *engine, tl *timeline) (f *failure) {
	defer tl.stop.Store(true) // runs last: wroteAll is set before
	defer func() {
		if p := recover(); p != nil {
			f = fail("panic", "the writing goroutine panicked: %v\n%s", p, debug.Stack())
		}
	}()
	published := 0
	for i := range e.c.Ops {
		if tl.failed.Load() != nil {
			return nil
		}
		o := &e.c.Ops[i]
		if i == e.c.FlushAt {
			e.properV, e.properA = len(e.srcV), len(e.srcA)
		}
		tl.begun.Store(int64(i + 1))
		if f := e.write(i, o); f != nil {
			f.Msg = fmt.Sprintf("op %d (%s): %s", i, o.K, f.Msg)
			return f
		}
		if e.lastSeq > published {
			tl.mu.Lock()
			for s := published + 1; s <= e.lastSeq; s++ {
				tl.rec[s] = e.segs[s]
			}
			tl.mu.Unlock()
			published = e.lastSeq
		}
		tl.seqAfter[i+1] = int32(e.lastSeq)
		tl.done.Store(int64(i + 1))
	}
	tl.wroteAll.Store(true)
	return nil
}

// ---------------------------------------------------------------- readers

type concReader struct {
	idx   int
	tok   string
	pace  int
	probe bool // also ask for the number behind the last listed one
	e     *engine
	tl    *timeline

	prev, prevCopy []byte

	pending []pendingFetch

	playlists, across, notYet, fetched, gone, probed, settled int
	fps                                                       []uint64
	spin                                                      int64
}

// shadowStore is the Hlsable the playlist oracle resolves URIs through: the
// real Playlist, with the one legitimate refusal (the window moved on while
// the caller was still reading the playlist) told apart by the time line.
type shadowStore struct {
	rd *concReader
	sh *engine
}

func (s *shadowStore) M3u8(string) ([]byte, error) { panic("not used") }

func (s *shadowStore) Segment(seq int) (io.Reader, int, error) {
	rd := s.rd
	r, size, err := rd.e.hpl.Segment(seq)
	hi := rd.tl.upper()
	if err != nil {
		if hi >= seq+3 {
			rd.gone++
			s.sh.segs[seq] = nil
			return bytes.NewReader(nil), 0, nil // nothing to compare
		}
		return nil, 0, fmt.Errorf("%v, although at most %d segments can be complete, so %d is still one of the three most recent", err, hi, seq)
	}
	got, rerr := readAllClose(r)
	if rerr != nil {
		return nil, 0, fmt.Errorf("reading it: %v", rerr)
	}
	rd.fetched++
	if want, ok := rd.tl.recorded(seq); ok {
		s.sh.segs[seq] = want
	} else {
		// the writer has not come round to publishing seq yet: compare later
		s.sh.segs[seq] = got
		rd.pending = append(rd.pending, pendingFetch{seq: seq, got: got, how: "through the playlist"})
	}
	return bytes.NewReader(got), size, nil
}

type pendingFetch struct {
	seq int
	got []byte
	how string
}

// settle compares fetches that were ahead of the writer's bookkeeping.
func (rd *concReader) settle(final bool) {
	keep := rd.pending[:0]
	for _, p := range rd.pending {
		want, ok := rd.tl.recorded(p.seq)
		if !ok {
			if !final {
				keep = append(keep, p)
			} else if rd.tl.wroteAll.Load() {
				rd.tl.fail("segment-unknown", rd.obs(map[string]any{"segment": p.seq}), "Segment(%d) was served %s (%d bytes) but the writer never completed that number (it completed %d)", p.seq, p.how, len(p.got), rd.tl.lower())
				return
			}
			continue // final and the writer stopped early: it failed itself
		}
		rd.settled++
		if !bytes.Equal(p.got, want) {
			rd.tl.fail("segment-bytes", rd.obs(map[string]any{"segment": p.seq}), "segment %d fetched %s right after its completion differs from the bytes the writer read then (%d vs %d bytes, first difference at %d)", p.seq, p.how, len(p.got), len(want), firstDiff(p.got, want))
			return
		}
	}
	rd.pending = keep
}

func (rd *concReader) obs(extra map[string]any) map[string]any {
	o := map[string]any{"reader": rd.idx, "token": rd.tok, "writer": rd.tl.completed()}
	for k, v := range extra {
		o[k] = v
	}
	return o
}

func (rd *concReader) loop(wg *sync.WaitGroup) {
	defer wg.Done()
	defer func() {
		if p := recover(); p != nil {
			rd.tl.fail("panic", rd.obs(nil), "reader %d panicked: %v\n%s", rd.idx, p, debug.Stack())
		}
	}()
	for {
		last := rd.tl.stop.Load()
		if rd.tl.failed.Load() != nil {
			return
		}
		rd.settle(false)
		rd.once()
		if last {
			rd.settle(true)
			return
		}
		for k := 0; k < rd.pace*200; k++ { // busy pacing: shifts this reader's phase against the others
			rd.spin += rd.tl.done.Load()
		}
	}
}

func (rd *concReader) once() {
	tl := rd.tl
	lo := tl.lower()
	begun0 := tl.begun.Load()
	b, err := rd.e.hpl.M3u8(rd.tok)
	done1 := tl.done.Load()
	hi := tl.upper()

	if rd.prev != nil && !bytes.Equal(rd.prev, rd.prevCopy) {
		tl.fail("playlist-aliased", rd.obs(map[string]any{"was": string(rd.prevCopy), "now": string(rd.prev)}),
			"the playlist reader %d received earlier changed in its hands: was %q, now %q", rd.idx, rd.prevCopy, rd.prev)
		return
	}
	if err != nil {
		if lo >= 3 {
			tl.fail("playlist-unavailable", rd.obs(map[string]any{"complete_before_call": lo}), "%d segments were complete before the call but M3u8 says %v", lo, err)
			return
		}
		rd.notYet++
		return
	}
	rd.prev, rd.prevCopy = b, append(rd.prevCopy[:0], b...)
	rd.playlists++
	ob := map[string]any{"playlist": string(b), "complete_before_call": lo, "complete_after_call_at_most": hi}

	pl, perr := parseM3U8(b)
	if perr != nil {
		tl.fail("playlist-syntax", rd.obs(ob), "%v in %q", perr, b)
		return
	}
	if len(pl.Entries) == 0 || len(pl.Entries) > 3 {
		tl.fail("playlist-window", rd.obs(ob), "playlist lists %d segments: %q", len(pl.Entries), b)
		return
	}
	var listed []int
	for _, en := range pl.Entries {
		_, seq, _, hasTok, uerr := resolveURI(en.URI)
		if uerr != nil {
			tl.fail("playlist-uri", rd.obs(ob), "%v in %q", uerr, b)
			return
		}
		if rd.tok == "" && hasTok {
			tl.fail("playlist-token", rd.obs(ob), "URI %q carries a token, the caller gave none: %q", en.URI, b)
			return
		}
		listed = append(listed, seq)
	}
	ob["listed"] = listed
	n := listed[len(listed)-1]
	// "lists the most recent complete segments": at some moment of the call n was the newest
	if n < lo || n > hi {
		tl.fail("playlist-window", rd.obs(ob), "playlist ends with segment %d, but %d segments were complete before the call and at most %d after it: %q", n, lo, hi, b)
		return
	}
	sh := &engine{c: rd.e.c, res: &result{}, lastSeq: n, segs: map[int][]byte{}}
	sh.pl = &shadowStore{rd: rd, sh: sh}
	if f := sh.judgePlaylist(b, rd.tok); f != nil {
		tl.fail(f.Check, rd.obs(ob), "%s", f.Msg)
		return
	}
	// a rollover that lies entirely inside the call: caused by a write that had
	// not begun before the call and was done after it
	if done1 > begun0 && tl.seqAfter[done1] > tl.seqAfter[begun0] {
		rd.across++
		if len(rd.fps) < 64 {
			rd.fps = append(rd.fps, evid.FP("across", rd.idx, rd.playlists, b, lo, hi))
		}
	}
	if rd.probe {
		rd.fetch(n+1, ob)
	}
}

// fetch asks for a number the playlist did not list (yet).
func (rd *concReader) fetch(seq int, ob map[string]any) {
	tl := rd.tl
	lo := tl.lower()
	r, size, err := rd.e.hpl.Segment(seq)
	hi := tl.upper()
	if err != nil {
		if lo >= seq && hi <= seq+2 {
			tl.fail("playlist-resolve", rd.obs(ob), "Segment(%d) says %v although %d segments were complete before the call and at most %d after it", seq, err, lo, hi)
		}
		return
	}
	got, rerr := readAllClose(r)
	if seq > hi {
		tl.fail("segment-unknown", rd.obs(ob), "Segment(%d) resolves (%d bytes) although at most %d segments can be complete", seq, size, hi)
		return
	}
	rd.probed++
	if rerr != nil || len(got) != size {
		tl.fail("segment-size", rd.obs(ob), "Segment(%d): announced %d bytes, read %d (%v)", seq, size, len(got), rerr)
		return
	}
	rd.pending = append(rd.pending, pendingFetch{seq: seq, got: got, how: "by its number, before any playlist listed it,"})
	rd.settle(false)
}

// ---------------------------------------------------------------- case

type concCase struct {
	caseSpec
	Readers []concReaderSpec `json:"readers"`
}

type concReaderSpec struct {
	Token string `json:"token"`
	Pace  int    `json:"pace"`
	Probe bool   `json:"probe"`
}

// genRolling appends gops GOPs to c.Ops; each lasts longer than the fragment
// length and less than twice it, so its successor's key frame completes a
// segment and no audio frame does (the open finding stays out of the way).
// Some GOPs span < 100 ms: with fragment 0 their segment is discarded and the
// number reused, otherwise they join the following GOP's segment.
func genRolling(rt *rapid.T, g *caseGen, gops int, audio bool) {
	c := g.c
	F := g.F
	for k := 0; k < gops; k++ {
		t0 := g.now
		var d int64
		nf := rapid.IntRange(2, 4).Draw(rt, "gopFrames")
		switch {
		case k > 0 && rapid.IntRange(0, 11).Draw(rt, "tiny") == 0:
			d = rapid.Int64Range(600, 8900).Draw(rt, "d")
			g.stats = append(g.stats, "gop:tiny<100ms")
		case c.Fragment == 0:
			d = rapid.Int64Range(13500, 60000).Draw(rt, "d")
		default:
			d = rapid.Int64Range(F+9000, F*18/10).Draw(rt, "d")
		}
		ts := []timed{{t: t0, o: op{K: "v", Hdr: 0x65, Size: g.size(false), PTS: t0, DTS: t0}, vk: 0}}
		for f := 1; f < nf; f++ {
			dts := t0 + (d-300)*int64(f)/int64(nf-1)
			hdr := byte(0x41)
			if f%3 == 2 {
				hdr = 0x01
			}
			ts = append(ts, timed{t: dts, o: op{K: "v", Hdr: hdr, Size: g.size(false), PTS: dts, DTS: dts}, vk: 2})
		}
		if audio && rapid.IntRange(0, 2).Draw(rt, "audio") == 0 {
			if g.ta < t0 {
				g.ta = t0
			}
			for a := rapid.IntRange(1, 6).Draw(rt, "burst"); a > 0 && g.ta < t0+d; a-- {
				ts = append(ts, timed{t: g.ta, o: op{K: "a", Size: g.size(true), PTS: g.ta}, vk: 1})
				g.ta += g.cad
			}
		}
		g.push(ts)
		g.now = t0 + d
	}
	// closing train as in genCase: pushes every earlier frame into a completed segment
	c.FlushAt = len(c.Ops)
	t := max(g.now, g.ta)
	for k := 0; k < 4; k++ {
		t += F + 90000
		c.Ops = append(c.Ops, op{K: "v", Hdr: 0x65, Size: 9, PTS: t, DTS: t})
		if k < 3 {
			c.Ops = append(c.Ops, op{K: "v", Hdr: 0x41, Size: 9, PTS: t + 45000, DTS: t + 45000})
		}
	}
}

func newRollingCase(rt *rapid.T, disk bool, fragment int, path string) (*caseSpec, *caseGen, bool) {
	c := &caseSpec{Disk: disk, FlushAt: -1, Fragment: fragment, Path: path}
	ps := repoParamSets[rapid.IntRange(0, len(repoParamSets)-1).Draw(rt, "paramSet")]
	c.SPS, c.PPS = b64hex(ps[0]), b64hex(ps[1])
	ac := audioConfigs[rapid.IntRange(0, len(audioConfigs)-1).Draw(rt, "audioConfig")]
	c.ASC, c.Rate = ac.asc, ac.rate
	g := &caseGen{rt: rt, c: c, F: int64(fragment) * 90000, cad: 1024 * 90000 / int64(ac.rate)}
	if fragment == 0 {
		g.F = 90000
	}
	audio := fragment > 0 && rapid.Bool().Draw(rt, "withAudio")
	if audio {
		// the first segment counts from stamp 0: keep it below twice the fragment length
		g.now = rapid.SampledFrom([]int64{0, 1, 4500}).Draw(rt, "t0")
	} else {
		g.now = rapid.SampledFrom([]int64{0, 1, 2999, 90000, 12345678, 1 << 31, 8000000000}).Draw(rt, "t0")
	}
	g.ta = g.now
	return c, g, audio
}

func genConcCase(rt *rapid.T) *concCase {
	disk := rapid.Bool().Draw(rt, "disk")
	fragment := rapid.SampledFrom([]int{0, 1, 1, 2}).Draw(rt, "fragment")
	path := "/" + rapid.StringMatching(`[a-z0-9]{1,6}(/[a-z0-9_]{1,6}){0,2}`).Draw(rt, "path")
	c, g, audio := newRollingCase(rt, disk, fragment, path)
	lo, hi := 120, 400
	if evid.Thorough() {
		lo, hi = 300, 1200
	}
	genRolling(rt, g, rapid.IntRange(lo, hi).Draw(rt, "gops"), audio)
	cc := &concCase{caseSpec: *c}
	n := rapid.IntRange(4, 8).Draw(rt, "readers")
	for i := 0; i < n; i++ {
		tok := g.token()
		if tok != "" {
			tok = fmt.Sprintf("%s.r%d", tok, i) // every caller has a token of its own
		}
		cc.Readers = append(cc.Readers, concReaderSpec{Token: tok, Pace: rapid.SampledFrom([]int{0, 0, 1, 3}).Draw(rt, "pace"), Probe: rapid.Bool().Draw(rt, "probe")})
	}
	return cc
}

// runConc executes one case. Evidence is returned, not recorded, so that the
// caller decides (a failing case is a violation, not an evaluation class).
type concResult struct {
	playlists, across, notYet, fetched, gone, probed, settled, segments int
	fps                                                                 []uint64
	classes                                                             []string
}

func runConc(cc *concCase, work string) (*concResult, *concFailure) {
	c := &cc.caseSpec
	dir := ""
	if c.Disk {
		d, err := os.MkdirTemp(work, "c10c-")
		if err != nil {
			return nil, nil
		}
		dir = d
		defer os.RemoveAll(d)
	}
	e, err := newDirectEngine(c, dir)
	if err != nil {
		return nil, &concFailure{Check: "open", Msg: err.Error()}
	}
	defer e.cleanup()
	tl := &timeline{seqAfter: make([]int32, len(c.Ops)+1), rec: map[int][]byte{}}
	var wg sync.WaitGroup
	readers := make([]*concReader, len(cc.Readers))
	for i, rs := range cc.Readers {
		readers[i] = &concReader{idx: i, tok: rs.Token, pace: rs.Pace, probe: rs.Probe, e: e, tl: tl}
		wg.Add(1)
		go readers[i].loop(&wg)
	}
	wf := writeAll(e, tl)
	wg.Wait()
	if wf != nil {
		return nil, &concFailure{Check: wf.Check, Msg: wf.Msg, Obs: map[string]any{"writer": tl.completed()}}
	}
	if cf := tl.failed.Load(); cf != nil {
		return nil, cf
	}
	if f := e.close(); f != nil {
		return nil, &concFailure{Check: f.Check, Msg: f.Msg, Obs: map[string]any{"writer": tl.completed()}}
	}
	res := &concResult{segments: e.lastSeq, classes: e.res.classes}
	for _, rd := range readers {
		if rd.prev != nil && !bytes.Equal(rd.prev, rd.prevCopy) {
			return nil, &concFailure{Check: "playlist-aliased", Msg: fmt.Sprintf("the last playlist of reader %d changed in its hands: was %q, now %q", rd.idx, rd.prevCopy, rd.prev), Obs: rd.obs(nil)}
		}
		res.playlists += rd.playlists
		res.across += rd.across
		res.notYet += rd.notYet
		res.fetched += rd.fetched
		res.gone += rd.gone
		res.probed += rd.probed
		res.settled += rd.settled
		res.fps = append(res.fps, rd.fps...)
	}
	return res, nil
}

func TestPlaylistAndFetchConcurrentWithRollover(t *testing.T) {
	t.Parallel()
	evid.Rule(concRule)
	work := workDir(t)
	// Every memory segment draws a 512 KiB buffer from a sync.Pool that each
	// collection empties; with the default pacing the collector runs every few
	// rollovers and writer and readers spend their time assisting it instead of
	// meeting each other. Pacing only, no influence on any verdict.
	defer debug.SetGCPercent(debug.SetGCPercent(800))
	evid.Checks(100, 600)
	rapid.Check(t, func(rt *rapid.T) {
		cc := genConcCase(rt)
		res, cf := runConc(cc, work)
		if cf != nil {
			evid.Violation(rt, "concurrent/"+cf.Check, map[string]any{"shape": cc, "observation": cf.Obs,
				"note": "free-running interleaving: re-running the shape (rapid fail file) repeats the load, not the schedule"}, "%s", cf.Msg)
		}
		if res == nil {
			evid.Class("infrastructure:case-dropped")
			return
		}
		mode := "memory"
		if cc.Disk {
			mode = "disk"
		}
		evid.Eval(int64(res.playlists))
		evid.Class("concurrent:cases:" + mode)
		evid.Class(fmt.Sprintf("concurrent:fragment:%d", cc.Fragment))
		evid.Class(fmt.Sprintf("concurrent:readers:%d", len(cc.Readers)))
		evid.ClassN("concurrent:rollovers", int64(res.segments))
		evid.ClassN("concurrent:m3u8:served:"+mode, int64(res.playlists))
		evid.ClassN("concurrent:m3u8:across-rollover:"+mode, int64(res.across))
		evid.ClassN("concurrent:m3u8:not-yet", int64(res.notYet))
		evid.ClassN("concurrent:fetch:listed-served:"+mode, int64(res.fetched))
		evid.ClassN("concurrent:fetch:listed-gone(window-moved):"+mode, int64(res.gone))
		evid.ClassN("concurrent:fetch:behind-last-listed-served", int64(res.probed))
		evid.ClassN("concurrent:fetch:ahead-of-the-writer's-record(compared-later)", int64(res.settled))
		for _, cl := range res.classes {
			evid.Class("concurrent:writer:" + cl)
		}
		b, _ := json.Marshal(&cc.caseSpec)
		cfp := evid.FP(b)
		for _, fp := range res.fps {
			evid.Nontrivial(evid.FP("conc", cfp, fp))
		}
		if res.across > 0 && evid.WantSample("concurrent:"+mode) {
			evid.Sample("concurrent:"+mode, map[string]any{"fragment": cc.Fragment, "frames": len(cc.Ops), "rollovers": res.segments, "readers": len(cc.Readers),
				"playlists": res.playlists, "playlists_across_a_rollover": res.across, "listed_fetches_served": res.fetched, "listed_fetches_gone": res.gone})
		}
	})
}
