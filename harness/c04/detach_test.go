package c04

import (
	"fmt"
	"sync/atomic"
	"testing"
	"time"

	"github.com/cnotch/ipchub/config"
	"github.com/cnotch/ipchub/media"
	"pgregory.net/rapid"
	"verif/harness/lib/evid"
	"verif/harness/lib/mediah"
	"verif/harness/lib/rtppack/esgen"
	"verif/harness/lib/sched"
)

// selfStopper is a consumer whose Consume "fails" on its FailAt-th pack and that
// then stops itself on the stream from inside Consume, the way an adapter does
// whose write to the client returned an error.
type selfStopper struct {
	*mediah.Rec
	failAt int
	stop   func()
}

func (c *selfStopper) Consume(p media.Pack) {
	c.Rec.Consume(p)
	if c.Rec.Len() == c.failAt {
		c.stop()
	}
}

type leaver struct {
	Who    int    `json:"consumer"` // position in join order
	How    string `json:"how"`      // panic | selfstop | stopped | stopped-while-parked
	ParkAt int    `json:"parked_from_packet"`
	Packet int    `json:"leaves_during_broadcast_of_packet"`
	After  int    `json:"after_consumers_served"`
}

type detachCase struct {
	Codec     string           `json:"codec"`
	CacheGop  bool             `json:"cache_gop"`
	Consumers int              `json:"consumers"`
	G         int              `json:"key_spacing_packets"`
	Packets   int              `json:"packets"`
	Leavers   []leaver         `json:"leavers"`
	Fired     []string         `json:"windows_fired,omitempty"`
	Healthy   map[string][]int `json:"healthy_received,omitempty"`
}

// A consumer that leaves (it panics, it fails and stops itself, or its owner
// stops it) exactly while the publisher is in the middle of handing one packet to
// the stream's consumers - some already served, others still to be served - does
// not disturb the others: every healthy consumer is given the published sequence,
// each packet once, in order. The window is owned: schedule point
// "broadcast.sent" (after one consumer has been served), at the generated packet
// and the generated number of consumers served; the leaving runs to completion
// (the stream no longer counts the consumer) inside the window, then the
// publisher continues its broadcast.
func TestConsumerLeavesInsideBroadcast(t *testing.T) {
	evid.Checks(120, 1500)
	rapid.Check(t, func(t *rapid.T) {
		c := &detachCase{}
		h265 := rapid.IntRange(0, 2).Draw(t, "h265") == 0
		cdc := esgen.H264
		if h265 {
			cdc = esgen.H265
		}
		c.Codec = cdc.String()
		c.CacheGop = rapid.Bool().Draw(t, "cacheGop")
		c.Consumers = rapid.IntRange(3, 8).Draw(t, "consumers")
		c.G = rapid.IntRange(2, 30).Draw(t, "G")
		c.Packets = rapid.IntRange(20, 120).Draw(t, "packets")
		nl := rapid.IntRange(1, 2).Draw(t, "leavers")
		if nl > c.Consumers-2 {
			nl = c.Consumers - 2
		}
		who := rapid.Permutation(seqInts(c.Consumers)).Draw(t, "who")[:nl]
		at := 0
		for k := 0; k < nl; k++ {
			lv := leaver{Who: who[k]}
			lv.How = rapid.SampledFrom([]string{"panic", "panic", "selfstop", "stopped", "stopped-while-parked"}).Draw(t, "how")
			lv.Packet = rapid.IntRange(at+1, c.Packets-(nl-k)*3).Draw(t, "packet")
			lv.ParkAt = -1
			if lv.How != "stopped" {
				lv.ParkAt = rapid.IntRange(0, lv.Packet-1).Draw(t, "parkAt")
			}
			attached := c.Consumers - k
			lv.After = rapid.IntRange(1, attached-1).Draw(t, "afterServed")
			at = lv.Packet
			c.Leavers = append(c.Leavers, lv)
		}
		evid.Eval(1)

		config.VerifSet(":0", false, c.CacheGop, "", 5)
		s := media.NewStream("/c04/leave", mediah.SDP(cdc, false))
		defer s.Close()
		tr := mediah.NewTracker(s)
		in := sched.New(10 * time.Second)
		var cur int32 = -1
		media.VerifSetSched(func(p string, o interface{}) {
			tr.Observe(p, o)
			if p == "broadcast.sent" && tr.Mine(o) {
				in.Hook(p, o)
			}
		})
		defer media.VerifSetSched(nil)

		recs := make([]*mediah.Rec, c.Consumers)
		cids := make([]media.CID, c.Consumers)
		leaves := map[int]*leaver{}
		for k := range c.Leavers {
			leaves[c.Leavers[k].Who] = &c.Leavers[k]
		}
		cidOf := make([]atomic.Value, c.Consumers)
		for i := range recs {
			recs[i] = mediah.NewRec(fmt.Sprintf("consumer-%d", i))
			var cons media.Consumer = recs[i]
			if lv := leaves[i]; lv != nil {
				switch lv.How {
				case "panic":
					recs[i].PanicAt = lv.ParkAt + 1
				case "selfstop":
					i := i
					cons = &selfStopper{Rec: recs[i], failAt: lv.ParkAt + 1, stop: func() { s.StopConsume(cidOf[i].Load().(media.CID)) }}
				}
			}
			cids[i] = s.StartConsume(cons, media.RTPPacket, recs[i].Name)
			cidOf[i].Store(cids[i])
		}
		expected := int32(c.Consumers)
		var notGone int32
		for k := range c.Leavers {
			lv := &c.Leavers[k]
			in.Add(&sched.Directive{Point: "broadcast.sent", Occ: lv.After, Label: fmt.Sprintf("consumer %d %s", lv.Who, lv.How),
				Filter: func(interface{}) bool { return int(atomic.LoadInt32(&cur)) == lv.Packet },
				Do: func() {
					want := int(atomic.AddInt32(&expected, -1))
					switch lv.How {
					case "panic", "selfstop":
						recs[lv.Who].Release() // it goes on with the pack in its hands, and fails on it
					default:
						s.StopConsume(cids[lv.Who])
					}
					if !mediah.WaitFor(8*time.Second, func() bool { return s.ConsumerCount() <= want }) {
						atomic.AddInt32(&notGone, 1)
					}
				}})
		}

		index := map[interface{}]int{}
		var healthyCids []media.CID
		for i := range recs {
			if leaves[i] == nil {
				healthyCids = append(healthyCids, cids[i])
			}
		}
		for n := 0; n < c.Packets; n++ {
			for k := range c.Leavers {
				if lv := &c.Leavers[k]; lv.ParkAt == n {
					// it has been given the first ParkAt packets, and holds on to the next one
					if !tr.WaitIdle(s, []media.CID{cids[lv.Who]}, bound) {
						evid.Violation(t, "stuck", c, "consumer %d did not work off its packets before it is parked", lv.Who)
					}
					recs[lv.Who].Block()
				}
			}
			p := latePkt(h265, n%c.G == 0, n)
			index[p] = n
			atomic.StoreInt32(&cur, int32(n))
			s.WriteRtpPacket(p)
			if n%40 == 39 {
				tr.WaitIdle(s, healthyCids, bound) // pacing only
			}
		}
		in.Wait(bound)
		c.Fired = append([]string(nil), in.Fired...)
		for _, r := range recs {
			r.Release()
		}
		if in.FiredCount() != len(c.Leavers) {
			t.Fatalf("harness: %d of %d windows were reached: %v (case %+v)", in.FiredCount(), len(c.Leavers), in.Fired, c)
		}
		if !tr.WaitIdle(s, healthyCids, bound) {
			evid.Violation(t, "isolation-stuck", c, "healthy consumers did not receive what was published after others left: %s", tr.Describe(s, healthyCids))
		}
		// the leavers: detached and closed
		want := c.Consumers - len(c.Leavers)
		if !mediah.WaitFor(bound, func() bool {
			if s.ConsumerCount() != want {
				return false
			}
			for _, lv := range c.Leavers {
				if recs[lv.Who].Closed() == 0 {
					return false
				}
			}
			return true
		}) {
			evid.Violation(t, "leaver-not-detached", c, "after %d consumers left the stream counts %d consumers (want %d); Close calls of the leavers: %v", len(c.Leavers), s.ConsumerCount(), want, closedOf(recs, c.Leavers))
		}
		// the healthy ones: the published sequence, each packet once, in order
		c.Healthy = map[string][]int{}
		bad := ""
		for i, r := range recs {
			if leaves[i] != nil {
				// what a leaver was given is a gap-free run from the first packet on
				for k, g := range r.Got() {
					if index[g] != k {
						evid.Violation(t, "leaver-delivery", c, "consumer %d (leaves) was given packet %d at position %d", i, index[g], k)
					}
				}
				continue
			}
			got := r.Got()
			ok := len(got) == c.Packets
			for k, g := range got {
				if k >= c.Packets || index[g] != k {
					ok = false
				}
			}
			if !ok {
				seqs := make([]int, len(got))
				for k, g := range got {
					seqs[k] = index[g]
				}
				c.Healthy[r.Name] = seqs
				if bad == "" {
					bad = fmt.Sprintf("healthy consumer %d (join order) was given %d packets, published %d", i, len(got), c.Packets)
					for k, q := range seqs {
						if q != k {
							bad += fmt.Sprintf("; position %d holds packet %d", k, q)
							break
						}
					}
				}
			}
		}
		if bad != "" {
			evid.Violation(t, "isolation-leave-inside-broadcast", c, "%s (consumers left inside broadcasts: %v)", bad, c.Fired)
		}
		for _, lv := range c.Leavers {
			evid.Class("inside a broadcast a consumer leaves: " + lv.How)
		}
		if atomic.LoadInt32(&notGone) > 0 {
			evid.Class("the leaving did not complete inside the window")
		} else {
			evid.Nontrivial(evid.FP("leave", c.Codec, c.CacheGop, c.Consumers, c.G, c.Packets, fmt.Sprint(c.Leavers)))
			if evid.WantSample("leave-inside-broadcast") {
				evid.Sample("leave-inside-broadcast", c)
			}
		}
	})
}

func seqInts(n int) []int {
	out := make([]int, n)
	for i := range out {
		out[i] = i
	}
	return out
}

func closedOf(recs []*mediah.Rec, ls []leaver) []int {
	var out []int
	for _, lv := range ls {
		out = append(out, recs[lv.Who].Closed())
	}
	return out
}
