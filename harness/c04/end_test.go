package c04

import (
	"fmt"
	"testing"
	"time"

	"github.com/cnotch/ipchub/av/format/rtp"
	"github.com/cnotch/ipchub/config"
	"github.com/cnotch/ipchub/media"
	"pgregory.net/rapid"
	"verif/harness/lib/evid"
	"verif/harness/lib/mediah"
	"verif/harness/lib/rtppack"
	"verif/harness/lib/rtppack/esgen"
)

// Isolation has to hold at the END of a stream as well: while one consumer is
// stuck inside Consume (its client has stopped reading), the stream is ended —
// publisher gone, administrative close, replacement. Ending it must not wait for
// the stuck consumer: Close returns, every other consumer is closed, and the
// stuck one is closed as soon as its client lets go. The stuck consumer here
// behaves like the real adapters whose Close takes the lock their Consume holds
// while it writes (service/wsp.Session): closing it from any goroutine other
// than its own delivery goroutine blocks for as long as the client stalls.
const endBound = 8 * time.Second // ending a stream is a matter of microseconds; the bound only has to tell it from "never"

func TestStreamEndsBesideStalledConsumer(t *testing.T) {
	evid.Checks(40, 600)
	rapid.Check(t, func(t *rapid.T) {
		h265 := rapid.Bool().Draw(t, "h265")
		healthy := rapid.IntRange(1, 4).Draw(t, "healthy")
		stalled := rapid.IntRange(1, 2).Draw(t, "stalled")
		npk := rapid.IntRange(3, 1600).Draw(t, "packets")
		keyEvery := rapid.SampledFrom([]int{5, 40, 300}).Draw(t, "keyEvery")
		stalledFirst := rapid.Bool().Draw(t, "stalledFirst")
		flvToo := rapid.Bool().Draw(t, "flvConsumerToo")
		how := rapid.SampledFrom([]string{"close", "unregist", "replace"}).Draw(t, "how")
		cdc := esgen.H264
		if h265 {
			cdc = esgen.H265
		}
		evid.Eval(1)
		config.VerifSet(":0", false, rapid.Bool().Draw(t, "cacheGop"), "", 5)
		path := "/c04/end"
		s := media.NewStream(path, mediah.SDP(cdc, false))
		if how != "close" {
			media.Regist(s)
		}
		var hs, ss []*mediah.Rec
		attachStalled := func() {
			for i := 0; i < stalled; i++ {
				r := mediah.NewRec(fmt.Sprint("stalled", i))
				r.CloseWaitsForConsume = true
				r.Block()
				s.StartConsume(r, media.RTPPacket, "stalled")
				ss = append(ss, r)
			}
		}
		if stalledFirst {
			attachStalled()
		}
		for i := 0; i < healthy; i++ {
			r := mediah.NewRec(fmt.Sprint("healthy", i))
			r.CloseWaitsForConsume = true
			pt := media.RTPPacket
			if flvToo && i == 0 {
				pt = media.FLVPacket
			}
			s.StartConsume(r, pt, "healthy")
			hs = append(hs, r)
		}
		if !stalledFirst {
			attachStalled()
		}
		defer func() {
			for _, r := range ss {
				r.Release()
			}
			s.Close()
			media.Unregist(s)
		}()
		for i := 0; i < npk; i++ {
			key := i%keyEvery == 0
			var nalu []byte
			switch {
			case !h265 && key:
				nalu = []byte{0x65, byte(i >> 8), byte(i), 1, 2, 3, 4}
			case !h265:
				nalu = []byte{0x41, byte(i >> 8), byte(i), 1, 2, 3, 4}
			case key:
				nalu = []byte{19 << 1, 1, byte(i >> 8), byte(i), 1, 2, 3}
			default:
				nalu = []byte{1 << 1, 1, byte(i >> 8), byte(i), 1, 2, 3}
			}
			s.WriteRtpPacket(rtppack.ToIpchub(rtp.ChannelVideo, rtppack.Pkt{PT: 96, Seq: uint16(i), TS: uint32(1000 + i*3000), SSRC: 5, Marker: true, Payload: nalu}.Marshal()))
		}
		// every stalled consumer is inside Consume now (it was handed at least one packet)
		for _, r := range ss {
			if !mediah.WaitFor(bound, r.Parked) {
				t.Fatalf("machinery: a blocked recorder never parked")
			}
		}
		desc := map[string]any{"codec": cdc.String(), "healthy": healthy, "stalled": stalled, "packets": npk, "key_every": keyEvery, "stalled_first": stalledFirst, "flv_consumer": flvToo, "ended_by": how}
		done := make(chan struct{})
		go func() {
			switch how {
			case "close":
				s.Close()
			case "unregist":
				media.Unregist(s)
			default:
				s2 := media.NewStream(path, mediah.SDP(cdc, false))
				media.Regist(s2) // retires s (it has consumers, so it is closed by the caller or the idle task) ...
				s.Close()        // ... and the old publisher's clean-up closes it
				defer func() { media.Unregist(s2) }()
			}
			close(done)
		}()
		select {
		case <-done:
		case <-time.After(endBound):
			evid.Violation(t, "end-blocked-by-stalled-consumer", desc, "ending the stream (%s) had not returned after %v while %d consumer(s) were stuck inside Consume: the end of a stream waits for a consumer that does not read", how, endBound, stalled)
		}
		for i, r := range hs {
			if !mediah.WaitFor(bound, func() bool { return r.Closed() > 0 }) {
				evid.Violation(t, "healthy-not-closed-at-end", desc, "healthy consumer %d was not closed within %v after the stream ended (%s) beside %d stalled consumer(s)", i, bound, how, stalled)
			}
		}
		if !mediah.WaitFor(bound, func() bool { return s.ConsumerCount() == 0 }) {
			evid.Violation(t, "count-after-end", desc, "the ended stream still reports %d consumers", s.ConsumerCount())
		}
		for _, r := range ss {
			r.Release()
		}
		for i, r := range ss {
			if !mediah.WaitFor(bound, func() bool { return r.Closed() > 0 }) {
				evid.Violation(t, "stalled-not-closed-after-release", desc, "stalled consumer %d was not closed within %v after its client let go (stream ended by %s)", i, bound, how)
			}
		}
		evid.Class("stream ended (" + how + ") beside a consumer stuck in Consume")
		evid.Nontrivial(evid.FP("end", h265, healthy, stalled, npk, keyEvery, stalledFirst, flvToo, how))
	})
}
