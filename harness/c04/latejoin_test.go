package c04

import (
	"fmt"
	"testing"
	"time"

	"github.com/cnotch/ipchub/av/format/rtp"
	"github.com/cnotch/ipchub/config"
	"github.com/cnotch/ipchub/media"
	"pgregory.net/rapid"
	"verif/harness/lib/evid"
	"verif/harness/lib/mediah"
	"verif/harness/lib/rtppack"
	"verif/harness/lib/rtppack/esgen"
	"verif/harness/lib/sched"
)

func lateNal(h265, key bool, i int) []byte {
	switch {
	case !h265 && key:
		return []byte{0x65, byte(i >> 8), byte(i), 1, 2, 3, 4}
	case !h265:
		return []byte{0x41, byte(i >> 8), byte(i), 1, 2, 3, 4}
	case key:
		return []byte{19 << 1, 1, byte(i >> 8), byte(i), 1, 2, 3}
	}
	return []byte{1 << 1, 1, byte(i >> 8), byte(i), 1, 2, 3}
}

func latePkt(h265, key bool, i int) *rtp.Packet {
	return rtppack.ToIpchub(rtp.ChannelVideo, rtppack.Pkt{PT: 96, Seq: uint16(i), TS: uint32(1000 + i*3000), SSRC: 5, Marker: true, Payload: lateNal(h265, key, i)}.Marshal())
}

// A consumer that panics on the very first packet it is handed — which, for a
// late joiner, comes from the join replay (cached parameter sets, and the cached
// GOP with cache_gop) — "is detached and closed" like any other: afterwards the
// stream does not count it, queues nothing for it, and its Close was called. The
// joiner is slowed down between its snapshot and its registration (schedule
// points join.snapshotted / join.registered), so that anything the join has
// already started on another goroutine gets the chance to run first.
func TestLateJoinerThatPanicsAtOnce(t *testing.T) {
	evid.Checks(40, 600)
	rapid.Check(t, func(t *rapid.T) {
		h265 := rapid.Bool().Draw(t, "h265")
		cacheGop := rapid.Bool().Draw(t, "cacheGop")
		inband := rapid.Bool().Draw(t, "inBandParameterSets")
		before := rapid.IntRange(1, 40).Draw(t, "packetsBeforeJoin")
		point := rapid.SampledFrom([]string{"join.snapshotted", "join.registered", "none"}).Draw(t, "slowAt")
		closePanics := rapid.Bool().Draw(t, "closePanicsToo")
		flvConsumer := rapid.IntRange(0, 2).Draw(t, "panickingConsumerIsFLV") == 0
		panicAt := 1
		if flvConsumer {
			// an FLV consumer is handed tags (metadata, sequence headers, then media): it
			// panics on the k-th of them
			panicAt = rapid.IntRange(1, 5).Draw(t, "panicAtTag")
		}
		cdc := esgen.H264
		if h265 {
			cdc = esgen.H265
		}
		evid.Eval(1)
		config.VerifSet(":0", false, cacheGop, "", 5)
		s := media.NewStream("/c04/late", mediah.SDP(cdc, false))
		defer s.Close()
		healthy := mediah.NewRec("healthy")
		s.StartConsume(healthy, media.RTPPacket, "healthy")
		seq := 0
		if inband { // parameter-set packets are always replayed to a joiner
			sets := [][]byte{esgen.RealH264SPS, esgen.RealH264PPS}
			if h265 {
				sets = [][]byte{esgen.RealH265VPS, esgen.RealH265SPS, esgen.RealH265PPS}
			}
			for _, ps := range sets {
				seq++
				s.WriteRtpPacket(rtppack.ToIpchub(rtp.ChannelVideo, rtppack.Pkt{PT: 96, Seq: uint16(seq), TS: 1000, SSRC: 5, Payload: ps}.Marshal()))
			}
		}
		for i := 0; i < before; i++ {
			seq++
			s.WriteRtpPacket(latePkt(h265, i%10 == 0, seq))
		}
		base := s.ConsumerCount()
		bad := mediah.NewRec("panics-at-once")
		bad.PanicAt = panicAt
		bad.ClosePanics = closePanics
		pt := media.RTPPacket
		if flvConsumer {
			pt = media.FLVPacket
		}
		in := sched.New(25 * time.Millisecond)
		if point != "none" {
			in.Add(&sched.Directive{Point: point, Occ: 1, Do: func() {
				// whatever the join has already set in motion may run now
				mediah.WaitFor(20*time.Millisecond, func() bool { return bad.Closed() > 0 })
			}})
		}
		media.VerifSetSched(func(p string, o interface{}) {
			if media.VerifConsumptionStream(o) == s {
				in.Hook(p, o)
			}
		})
		cid := s.StartConsume(bad, pt, "panics-at-once")
		in.Wait(bound)
		media.VerifSetSched(nil)
		replayed := inband || cacheGop
		// some more live packets: a consumer that was handed nothing (or too little) at the join panics on one of them
		for i := 0; i < 12; i++ {
			seq++
			s.WriteRtpPacket(latePkt(h265, i == 5, seq))
		}
		if flvConsumer {
			// the FLV converter runs on its own goroutines: keep publishing until the consumer has been handed its k-th tag
			for i := 0; i < 400 && bad.Len() < panicAt && bad.Closed() == 0; i++ {
				seq++
				s.WriteRtpPacket(latePkt(h265, i%10 == 0, seq))
				time.Sleep(500 * time.Microsecond)
			}
		}
		desc := map[string]any{"codec": cdc.String(), "cache_gop": cacheGop, "in_band_sets": inband, "packets_before_join": before, "slowed_at": point, "close_panics": closePanics, "flv_consumer": flvConsumer, "panics_at": panicAt}
		if !mediah.WaitFor(bound, func() bool { return bad.Closed() > 0 }) {
			evid.Violation(t, "late-panic-not-closed", desc, "a consumer that panicked on its first packet was never closed (received %d)", bad.Len())
		}
		if !mediah.WaitFor(bound, func() bool { return s.ConsumerCount() == base && media.VerifQueueLen(s, cid) < 0 }) {
			evid.Violation(t, "late-panic-still-attached", desc, "a late joiner panicked on its first packet and was closed, but the stream counts %d consumers (want %d) and still has a queue of %d packets for it", s.ConsumerCount(), base, media.VerifQueueLen(s, cid))
		}
		if n := healthy.Len(); n != seq {
			mediah.WaitFor(bound, func() bool { return healthy.Len() == seq })
			if healthy.Len() != seq {
				evid.Violation(t, "late-panic-isolation", desc, "the healthy consumer received %d of %d packets", healthy.Len(), seq)
			}
		}
		evid.Class(fmt.Sprintf("late joiner panics at once (replay at join: %v, slowed at %s, flv: %v)", replayed, point, flvConsumer))
		if (replayed && point != "none") || flvConsumer {
			evid.Nontrivial(evid.FP("latepanic", h265, cacheGop, inband, before, point, closePanics, flvConsumer, panicAt))
		}
	})
}

// A joiner whose join replay alone is longer than the backlog limit (cache_gop
// on, a GOP of more than 1000 packets so far) and that reads as fast as packets
// arrive: "dropping begins and ends only at the start of a key frame" — it may
// not lose the rest of the running GOP just because it joined late. Everything
// from the key picture on must arrive, contiguous, as long as the consumer keeps
// up (the publisher is paced to it).
func TestLateJoinerWithLongReplayKeepsUp(t *testing.T) {
	evid.Checks(8, 120)
	rapid.Check(t, func(t *rapid.T) {
		h265 := rapid.Bool().Draw(t, "h265")
		gopSoFar := rapid.IntRange(1001, 2600).Draw(t, "gopPacketsAtJoin")
		rest := rapid.IntRange(50, 900).Draw(t, "restOfGop")
		more := rapid.IntRange(1, 2).Draw(t, "moreGops")
		cdc := esgen.H264
		if h265 {
			cdc = esgen.H265
		}
		evid.Eval(1)
		config.VerifSet(":0", false, true, "", 5)
		s := media.NewStream("/c04/longreplay", mediah.SDP(cdc, false))
		defer s.Close()
		index := map[interface{}]int{}
		n := 0
		keyAt := map[int]bool{}
		pub := func(key bool) {
			p := latePkt(h265, key, n)
			index[p] = n
			keyAt[n] = key
			n++
			s.WriteRtpPacket(p)
		}
		pub(true)
		for i := 1; i < gopSoFar; i++ {
			pub(false)
		}
		joiner := mediah.NewRec("joiner")
		s.StartConsume(joiner, media.RTPPacket, "joiner")
		// pacing: wait until the joiner has everything published so far; give up (and let
		// the judgement below speak) when it makes no progress for 3 s - it will never
		// catch up if packets were dropped for it
		behind := false
		wait := func() {
			if behind {
				return
			}
			last, since := joiner.Len(), time.Now()
			for joiner.Len() < n {
				if l := joiner.Len(); l != last {
					last, since = l, time.Now()
				} else if time.Since(since) > 3*time.Second {
					behind = true
					return
				}
				time.Sleep(200 * time.Microsecond)
			}
		}
		wait()
		for i := 0; i < rest && !behind; i++ {
			pub(false)
			if i%50 == 49 {
				wait()
			}
		}
		for g := 0; g < more && !behind; g++ {
			pub(true)
			for i := 0; i < 120; i++ {
				pub(false)
				if i%50 == 49 {
					wait()
				}
			}
		}
		wait()
		got := joiner.Got()
		desc := map[string]any{"codec": cdc.String(), "gop_packets_at_join": gopSoFar, "rest_of_gop": rest, "more_gops": more, "received": len(got), "published": n}
		prev := -1
		for _, g := range got {
			i := index[g]
			if prev >= 0 && i != prev+1 && !keyAt[i] {
				evid.Violation(t, "long-replay-drop-mid-gop", desc, "a joiner that keeps up (join replay of %d packets) was given packet %d after packet %d: %d packets dropped, and the drop does not end at the start of a key frame", gopSoFar, i, prev, i-prev-1)
			}
			if prev >= 0 && i != prev+1 && !keyAt[prev+1] {
				evid.Violation(t, "long-replay-drop-mid-gop", desc, "a joiner that keeps up (join replay of %d packets) was given packet %d after packet %d: the drop begins at packet %d, in the middle of a GOP", gopSoFar, i, prev, prev+1)
			}
			prev = i
		}
		if len(got) == 0 || index[got[0]] != 0 {
			evid.Violation(t, "long-replay-start", desc, "the joiner's first packet is not the key picture of the running GOP")
		}
		if prev != n-1 {
			evid.Violation(t, "long-replay-tail", desc, "the joiner keeps up but its last packet is %d of %d", prev, n-1)
		}
		evid.Class("late joiner with a replay over the backlog limit")
		evid.Nontrivial(evid.FP("longreplay", h265, gopSoFar, rest, more))
	})
}
