package c04

import (
	"fmt"
	"testing"

	"github.com/cnotch/ipchub/av/format/flv"
	"github.com/cnotch/ipchub/av/format/rtp"
	"github.com/cnotch/ipchub/config"
	"github.com/cnotch/ipchub/media"
	"pgregory.net/rapid"
	"verif/harness/lib/evid"
	"verif/harness/lib/mediah"
	"verif/harness/lib/rtppack"
	"verif/harness/lib/rtppack/esgen"
)

// The same bound for FLV consumers (HTTP-FLV / ws-flv players): their backlog
// is counted in tags, and whether dropping may start or stop is decided by the
// key-frame flag the FLV converter gives a tag. Every kind of key picture must
// therefore work as a drop boundary: H.264 IDR, and for H.265 every IRAP type
// (BLA_W_LP 16, BLA_W_RADL 17, BLA_N_LP 18, IDR_W_RADL 19, IDR_N_LP 20, CRA 21 —
// open-GOP encoders send nothing but CRA). One FLV consumer is parked inside
// Consume, one keeps reading (the publisher is paced to it, so that consumer never
// has a backlog of its own).
//
//	(a) the reading consumer receives every video tag, in order;
//	(b) the parked consumer's backlog never exceeds limit + key spacing + the tags
//	    replayed at its join (headers) + 1;
//	(c) after release it resumes with a tag flagged key frame.
func TestFlvStallBounded(t *testing.T) {
	evid.Checks(14, 200)
	rapid.Check(t, func(t *rapid.T) {
		keyType := rapid.SampledFrom([]int{5, 16, 17, 18, 19, 20, 21}).Draw(t, "keyNalType") // 5 = H.264 IDR, others H.265
		keyEvery := rapid.SampledFrom([]int{8, 50, 170}).Draw(t, "keyEvery")
		frames := limit + 3*keyEvery + rapid.IntRange(50, 400).Draw(t, "extraFrames")
		stallAt := rapid.IntRange(0, 2*keyEvery).Draw(t, "stallAfterFrames")
		cdc := esgen.H265
		if keyType == 5 {
			cdc = esgen.H264
		}
		evid.Eval(1)
		config.VerifSet(":0", false, rapid.Bool().Draw(t, "cacheGop"), "", 5)
		s := media.NewStream("/c04/flv", mediah.SDP(cdc, false))
		defer s.Close()
		reading, stalled := mediah.NewRec("reading"), mediah.NewRec("stalled")
		tagNo := func(p media.Pack) (int, bool, bool) { // frame number carried in the payload, key flag, is a video media tag
			tg := p.(*flv.Tag)
			if tg.TagType != 9 || len(tg.Data) < 12 || tg.Data[1] == 0 {
				return 0, false, false
			}
			// data: frame/codec byte, packet type, cts(3), 4-byte NAL length, NAL header (1 or 2 bytes), frame number (2)
			off := 5 + 4 + 1
			if cdc == esgen.H265 {
				off++
			}
			if len(tg.Data) < off+2 {
				return 0, false, false
			}
			return int(tg.Data[off])<<8 | int(tg.Data[off+1]), tg.Data[0]>>4 == 1, true
		}
		rcid := s.StartConsume(reading, media.FLVPacket, "reading")
		scid := s.StartConsume(stalled, media.FLVPacket, "stalled")
		if rcid == 0 || scid == 0 {
			t.Fatalf("machinery: FLV consumption refused")
		}
		desc := map[string]any{"codec": cdc.String(), "key_nal_type": keyType, "key_every": keyEvery, "frames": frames, "stall_after": stallAt}
		videoTags := func(r *mediah.Rec) (n int) {
			for _, p := range r.Got() {
				if _, _, ok := tagNo(p); ok {
					n++
				}
			}
			return
		}
		maxBack := 0
		for i := 0; i < frames; i++ {
			if i == stallAt {
				stalled.Block()
			}
			key := i%keyEvery == 0
			var nalu []byte
			switch {
			case cdc == esgen.H264 && key:
				nalu = []byte{0x65, byte(i >> 8), byte(i), 1, 2, 3, 4, 5}
			case cdc == esgen.H264:
				nalu = []byte{0x41, byte(i >> 8), byte(i), 1, 2, 3, 4, 5}
			case key:
				nalu = []byte{byte(keyType) << 1, 1, byte(i >> 8), byte(i), 1, 2, 3, 4}
			default:
				nalu = []byte{1 << 1, 1, byte(i >> 8), byte(i), 1, 2, 3, 4}
			}
			s.WriteRtpPacket(rtppack.ToIpchub(rtp.ChannelVideo, rtppack.Pkt{PT: 96, Seq: uint16(i), TS: uint32(90000 + i*3000), SSRC: 5, Marker: true, Payload: nalu}.Marshal()))
			// pace to the converter and the reading consumer: one video tag per frame
			if !mediah.WaitFor(bound, func() bool { return videoTags(reading) >= i+1 }) {
				evid.Violation(t, "flv-isolation", desc, "frame %d: the reading FLV consumer has %d video tags while another FLV consumer is parked (the converter or the fan-out stopped)", i, videoTags(reading))
			}
			if q := media.VerifQueueLen(s, scid); q > maxBack {
				maxBack = q
			}
			if q := media.VerifQueueLen(s, scid); i >= stallAt && q > limit+keyEvery+4 {
				evid.Violation(t, "flv-backlog", desc, "after frame %d the parked FLV consumer's backlog is %d tags > %d (limit) + %d (key spacing) + 4 (headers, rounding): key pictures of NAL type %d do not bound an FLV consumer's backlog", i, q, limit, keyEvery, keyType)
			}
		}
		// (a)
		want := 0
		for _, p := range reading.Got() {
			if n, _, ok := tagNo(p); ok {
				if n != want {
					evid.Violation(t, "flv-isolation", desc, "the reading FLV consumer's video tag %d carries frame %d", want, n)
				}
				want++
			}
		}
		// (c)
		before := len(stalled.Got())
		stalled.Release()
		mediah.WaitFor(bound, func() bool { return media.VerifQueueLen(s, scid) <= 0 })
		got := stalled.Got()
		dropped := false
		prev := -1
		for k, p := range got {
			n, isKey, ok := tagNo(p)
			if !ok {
				continue
			}
			if prev >= 0 && n != prev+1 {
				dropped = true
				if !isKey {
					evid.Violation(t, "flv-resume", desc, "the parked FLV consumer received frame %d after frame %d (tag %d of %d, %d before the release): delivery resumed with a tag that is not flagged key frame", n, prev, k, len(got), before)
				}
			}
			prev = n
		}
		evid.Class(fmt.Sprintf("flv stall: key pictures of NAL type %d", keyType))
		if dropped && maxBack >= limit {
			evid.Nontrivial(evid.FP("flvstall", keyType, keyEvery, frames, stallAt))
		}
	})
}
