// C04 — stalled or failing consumers are isolated; backlog bounded; drops align
// to GOPs.
//
// A publish log with generated key-frame spacing G is written to one stream
// while one consumer follows a generated stall script (parked inside Consume on a
// gate the harness controls — no sleeps), optionally one consumer panics at a
// generated packet, and one healthy consumer just records.
//
//	(a) isolation: the healthy consumer receives the whole log in order whatever
//	    the others do, and every WriteRtpPacket call returns while a consumer is
//	    parked (the test goroutine itself is the publisher);
//	(b) a panicking consumer is closed and leaves the consumer count;
//	(c) bound: after every publish the stalled consumer's backlog is at most
//	    1000 + G (+1 packet in flight) - as the queue length, and as measured at
//	    the consumer (accepted for it so far minus given to it so far);
//	(d) alignment: what the stalled consumer finally received is the log minus
//	    runs that each start at a key-frame start packet and end just before a
//	    key-frame start packet.
package c04

import (
	"fmt"
	"sort"
	"testing"
	"time"

	"github.com/cnotch/ipchub/av/format/rtp"
	"github.com/cnotch/ipchub/config"
	"github.com/cnotch/ipchub/media"
	"pgregory.net/rapid"
	"verif/harness/lib/evid"
	"verif/harness/lib/mediah"
	"verif/harness/lib/rtppack"
	"verif/harness/lib/rtppack/esgen"
)

func TestMain(m *testing.M) { evid.Main(m, "C04") }

const bound = 20 * time.Second
const limit = 1000 // the documented backlog limit

type plan struct {
	Codec     string   `json:"codec"`
	CacheGop  bool     `json:"cache_gop"`
	GopFrames int      `json:"gop_frames"`
	Frames    int      `json:"frames"`
	Packets   int      `json:"packets"`
	MaxG      int      `json:"max_key_spacing_packets"`
	Stalls    [][2]int `json:"stalls"` // [park when the consumer has received n packets, release after the publisher has written m packets]
	// Resume[i][1] > 0: at the end of stall i the consumer is not released but reads only until
	// Resume[i][0] packets are left in its backlog, then stalls again while Resume[i][1] more packets are published
	Resume      [][2]int `json:"partial_resume,omitempty"`
	PanicAt     int      `json:"panic_at"`
	ClosePanics bool     `json:"close_panics_too,omitempty"`
	KeyShape    string   `json:"key_shape"`

	cdc  esgen.Codec
	pubs []*mediah.Pub
}

func nal(cdc esgen.Codec, typ byte, tag int, size int) []byte {
	var b []byte
	if cdc == esgen.H264 {
		b = []byte{0x60 | typ}
	} else {
		b = []byte{typ << 1, 1}
	}
	for len(b) < size {
		b = append(b, byte(0x80|(tag>>(8*(uint(len(b))%3)))&0x7f))
	}
	return b
}

func genPlan(t *rapid.T) *plan {
	pl := &plan{cdc: esgen.H264}
	if rapid.IntRange(0, 2).Draw(t, "h265") == 0 {
		pl.cdc = esgen.H265
	}
	pl.Codec = pl.cdc.String()
	pl.CacheGop = rapid.Bool().Draw(t, "cacheGop")
	// key-frame spacing in frames; one class beyond the limit
	switch rapid.IntRange(0, 5).Draw(t, "gopClass") {
	case 0:
		pl.GopFrames = rapid.IntRange(1, 5).Draw(t, "gop")
	case 1, 2:
		pl.GopFrames = rapid.IntRange(6, 60).Draw(t, "gop")
	case 3, 4:
		pl.GopFrames = rapid.IntRange(61, 400).Draw(t, "gop")
	default:
		pl.GopFrames = rapid.IntRange(1001, 1300).Draw(t, "gop")
	}
	keyShape := rapid.SampledFrom([]string{"idr", "sps,pps,idr", "stap(sps,pps),idr", "stap(sps,pps,idr)", "idr x3 slices", "sps,pps,idr(fu)"}).Draw(t, "keyShape")
	pl.KeyShape = keyShape
	want := limit + 3*pl.GopFrames + rapid.IntRange(50, 600).Draw(t, "extra")
	if rapid.Bool().Draw(t, "longLog") {
		want += limit + 3*pl.GopFrames // room for "stall, partial resume, stall again"
	}
	if want > 7500 {
		want = 7500
	}
	idr, slice, sps, pps := byte(esgen.H264IDR), byte(esgen.H264Slice), byte(esgen.H264SPS), byte(esgen.H264PPS)
	single, agg, fu := rtppack.H264Single, rtppack.H264StapA, rtppack.H264FuA
	if pl.cdc == esgen.H265 {
		idr, slice, sps, pps = 19, 1, esgen.H265SPS, esgen.H265PPS
		single, agg, fu = rtppack.H265Single, rtppack.H265AP, rtppack.H265FU
	}
	psBytes := func(typ byte) []byte {
		if pl.cdc == esgen.H264 {
			if typ == sps {
				return esgen.RealH264SPS
			}
			return esgen.RealH264PPS
		}
		if typ == sps {
			return esgen.RealH265SPS
		}
		return esgen.RealH265PPS
	}
	seq := uint16(rapid.IntRange(0, 65535).Draw(t, "seq"))
	ts := uint32(1000)
	type meta struct {
		keyStart, anyKey, vcl bool
		ps                    map[byte]bool
		desc                  string
	}
	add := func(payload []byte, m meta, marker bool) {
		pk := rtppack.Pkt{PT: 96, Seq: seq, TS: ts, SSRC: 9, Marker: marker, Payload: payload}
		seq++
		pb := &mediah.Pub{P: rtppack.ToIpchub(rtp.ChannelVideo, pk.Marshal()), Channel: rtp.ChannelVideo, CarriesPS: m.ps, CarriesVCL: m.vcl, KeyStart: m.keyStart, AnyKeyData: m.anyKey, TS: ts, Desc: m.desc, Index: len(pl.pubs)}
		if pb.CarriesPS == nil {
			pb.CarriesPS = map[byte]bool{}
		}
		pl.pubs = append(pl.pubs, pb)
	}
	for f := 0; len(pl.pubs) < want; f++ {
		ts += 3000
		if f%pl.GopFrames == 0 {
			switch keyShape {
			case "idr":
				add(single(nal(pl.cdc, idr, f, 9)), meta{keyStart: true, anyKey: true, vcl: true, desc: "idr"}, true)
			case "sps,pps,idr":
				add(single(psBytes(sps)), meta{ps: map[byte]bool{sps: true}, desc: "sps"}, false)
				add(single(psBytes(pps)), meta{ps: map[byte]bool{pps: true}, desc: "pps"}, false)
				add(single(nal(pl.cdc, idr, f, 9)), meta{keyStart: true, anyKey: true, vcl: true, desc: "idr"}, true)
			case "stap(sps,pps),idr":
				add(agg([][]byte{psBytes(sps), psBytes(pps)}), meta{ps: map[byte]bool{sps: true, pps: true}, desc: "agg(sps,pps)"}, false)
				add(single(nal(pl.cdc, idr, f, 9)), meta{keyStart: true, anyKey: true, vcl: true, desc: "idr"}, true)
			case "stap(sps,pps,idr)":
				add(agg([][]byte{psBytes(sps), psBytes(pps), nal(pl.cdc, idr, f, 9)}), meta{ps: map[byte]bool{sps: true, pps: true}, keyStart: true, anyKey: true, vcl: true, desc: "agg(sps,pps,idr)"}, true)
			case "idr x3 slices":
				add(single(nal(pl.cdc, idr, f, 9)), meta{keyStart: true, anyKey: true, vcl: true, desc: "idr.1"}, false)
				add(single(nal(pl.cdc, idr, f, 8)), meta{anyKey: true, vcl: true, desc: "idr.2"}, false)
				add(single(nal(pl.cdc, idr, f, 7)), meta{anyKey: true, vcl: true, desc: "idr.3"}, true)
			default:
				add(single(psBytes(sps)), meta{ps: map[byte]bool{sps: true}, desc: "sps"}, false)
				add(single(psBytes(pps)), meta{ps: map[byte]bool{pps: true}, desc: "pps"}, false)
				fr := fu(nal(pl.cdc, idr, f, 40), 14)
				for i, p := range fr {
					add(p, meta{keyStart: i == 0, anyKey: i == 0, vcl: true, desc: fmt.Sprintf("idr.fu%d", i)}, i == len(fr)-1)
				}
			}
		} else {
			add(single(nal(pl.cdc, slice, f, 8)), meta{vcl: true, desc: "p"}, true)
		}
	}
	pl.Frames = 0
	pl.Packets = len(pl.pubs)
	last := -1
	for i, p := range pl.pubs {
		if p.KeyStart {
			if last >= 0 && i-last > pl.MaxG {
				pl.MaxG = i - last
			}
			last = i
		}
	}
	if pl.MaxG == 0 {
		pl.MaxG = len(pl.pubs)
	}
	// stall script
	ns := rapid.IntRange(1, 2).Draw(t, "stalls")
	at := 0
	for i := 0; i < ns; i++ {
		park := at + rapid.IntRange(0, 40).Draw(t, "parkAfter")
		var hold int
		if rapid.IntRange(0, 3).Draw(t, "short?") == 0 {
			hold = rapid.IntRange(1, 900).Draw(t, "hold") // stays under the limit: nothing may be dropped
		} else {
			hold = limit + pl.MaxG + rapid.IntRange(1, 2*pl.MaxG+50).Draw(t, "hold")
		}
		rel := park + hold
		if rel >= len(pl.pubs)-pl.MaxG-2 {
			break
		}
		pl.Stalls = append(pl.Stalls, [2]int{park, rel})
		var res [2]int
		if hold > limit && rapid.IntRange(0, 1).Draw(t, "partialResume") == 0 {
			// reads a little (down to a backlog below the limit), then stalls again for long
			res = [2]int{rapid.IntRange(1, limit-1).Draw(t, "leaveInBacklog"), limit + pl.MaxG + rapid.IntRange(1, pl.MaxG+200).Draw(t, "hold2")}
			if rel+res[1] >= len(pl.pubs)-pl.MaxG-2 {
				res = [2]int{}
			}
		}
		pl.Resume = append(pl.Resume, res)
		rel += res[1]
		at = rel + pl.MaxG + 2
	}
	if rapid.IntRange(0, 2).Draw(t, "panic?") == 0 {
		pl.PanicAt = rapid.IntRange(1, len(pl.pubs)/2).Draw(t, "panicAt")
		pl.ClosePanics = rapid.Bool().Draw(t, "closePanicsToo")
	}
	return pl
}

type result struct {
	Plan     *plan    `json:"plan"`
	Received int      `json:"stalled_received"`
	Gaps     [][2]int `json:"dropped_runs"`
	MaxBack  int      `json:"max_backlog"`
	BackAt   int      `json:"max_backlog_after_packet"`
	// the backlog measured at the consumer: accepted for it so far (= what it is finally
	// given) minus what it had been given at that moment
	MaxOwed int `json:"max_accepted_not_yet_given,omitempty"`
	OwedAt  int `json:"max_accepted_not_yet_given_after_packet,omitempty"`
}

func TestStallIsolationAndGopAlignedDrops(t *testing.T) {
	evid.Rule("rapid: publish logs of up to 5500 small video packets (H.264/H.265) with key-frame spacing G drawn from 1..400 frames and a class above 1000, six key-frame shapes (IDR alone, SPS,PPS,IDR, STAP(SPS,PPS)+IDR, STAP(SPS,PPS,IDR), three-slice IDR, fragmented IDR), cache_gop on/off; one consumer parked inside Consume by a generated stall script (1-2 stalls, short and long), optionally one consumer that panics, one healthy recorder. Oracle: isolation (healthy list = whole log; publisher never waits), panic => closed and uncounted, backlog <= 1000 + G + 1 after every publish, dropped runs start at a key-frame start packet and end just before one. Non-trivial = at least one run was dropped and the consumer resumed and received later packets; distinct = distinct (codec, G, key shape, stall script, packets)")
	evid.Checks(150, 1500)
	rapid.Check(t, func(t *rapid.T) {
		pl := genPlan(t)
		evid.Eval(1)
		config.VerifSet(":0", false, pl.CacheGop, "", 5)
		s := media.NewStream("/c04/live", mediah.SDP(pl.cdc, false))
		defer s.Close()
		tr := mediah.NewTracker(s)
		media.VerifSetSched(tr.Observe)
		defer media.VerifSetSched(nil)

		healthy, stalled := mediah.NewRec("healthy"), mediah.NewRec("stalled")
		hcid := s.StartConsume(healthy, media.RTPPacket, "healthy")
		scid := s.StartConsume(stalled, media.RTPPacket, "stalled")
		var bad *mediah.Rec
		before := s.ConsumerCount()
		if pl.PanicAt > 0 {
			bad = mediah.NewRec("panics")
			bad.PanicAt = pl.PanicAt
			bad.ClosePanics = pl.ClosePanics
			s.StartConsume(bad, media.RTPPacket, "panics")
		}
		res := &result{Plan: pl}
		si := 0
		parked := false
		resumed := false
		resumeUntil := 0
		var given [][2]int // while parked: [after packet i, packs the consumer has been given so far]
		for i, p := range pl.pubs {
			if si < len(pl.Stalls) && !parked && i == pl.Stalls[si][0] {
				// park the consumer: the gate is armed once it has drained what it had, so the
				// backlog we measure from here on is exactly what the publisher adds
				if !tr.WaitIdle(s, []media.CID{scid}, bound) {
					evid.Violation(t, "stuck", res, "stalled consumer did not drain before parking")
				}
				stalled.Block()
				parked = true
			}
			s.WriteRtpPacket(p.P) // returning at all, with a consumer parked, is observation (a)
			if i%200 == 199 {
				// pacing only: a publisher that outruns even a healthy recorder by 1000 packets
				// would make ITS backlog drop legitimately, which is not what (a) is about
				if !tr.WaitIdle(s, []media.CID{hcid}, bound) {
					evid.Violation(t, "isolation-stuck", res, "healthy consumer stopped receiving while another consumer is parked (after packet %d): %s", i, tr.Describe(s, []media.CID{hcid}))
				}
				if !parked {
					// the same pacing for the other recorder while it is not parked: on a loaded
					// machine its goroutine may otherwise fall 1000 packets behind all by itself
					tr.WaitIdle(s, []media.CID{scid}, bound)
				}
			}
			if parked {
				given = append(given, [2]int{i, stalled.Len()})
				if q := media.VerifQueueLen(s, scid); q > res.MaxBack {
					res.MaxBack, res.BackAt = q, i
				}
				if q := media.VerifQueueLen(s, scid); q > limit+pl.MaxG+1 {
					evid.Violation(t, "backlog", res, "after packet %d the stalled consumer's backlog is %d > %d (limit) + %d (key spacing) + 1", i, q, limit, pl.MaxG)
				}
			}
			if parked && i == pl.Stalls[si][1] && si < len(pl.Resume) && pl.Resume[si][1] > 0 && !resumed {
				// partial resume: read until only Resume[si][0] packets are left, then stall on
				resumed = true
				if q := media.VerifQueueLen(s, scid); q > pl.Resume[si][0] {
					stalled.Allow(q - pl.Resume[si][0])
				}
				resumeUntil = i + pl.Resume[si][1]
				evid.Class("stall, partial resume, stall again")
			}
			if parked && ((resumed && i == resumeUntil) || (!resumed && i == pl.Stalls[si][1])) {
				stalled.Release()
				parked = false
				resumed = false
				si++
				if !tr.WaitIdle(s, []media.CID{scid}, bound) {
					evid.Violation(t, "stuck", res, "stalled consumer did not drain after release")
				}
			}
		}
		if parked {
			stalled.Release()
		}
		if !tr.WaitIdle(s, []media.CID{scid, hcid}, bound) {
			evid.Violation(t, "stuck", res, "consumers did not drain at the end: %s", tr.Describe(s, []media.CID{scid, hcid}))
		}
		idx := map[interface{}]int{}
		for _, p := range pl.pubs {
			idx[p.P] = p.Index
		}
		// (a) healthy: the whole log, in order
		hg := healthy.Got()
		if len(hg) != len(pl.pubs) {
			evid.Violation(t, "isolation", res, "healthy consumer received %d of %d packets", len(hg), len(pl.pubs))
		}
		for i, g := range hg {
			if idx[g] != i {
				evid.Violation(t, "isolation", res, "healthy consumer: position %d holds packet %d", i, idx[g])
			}
		}
		// (b) panicking consumer
		if bad != nil {
			if !mediah.WaitFor(bound, func() bool { return bad.Closed() > 0 && s.ConsumerCount() == before }) {
				evid.Violation(t, "panic-not-detached", res, "consumer that panicked at packet %d: Close calls=%d, stream consumer count=%d (want %d)", pl.PanicAt, bad.Closed(), s.ConsumerCount(), before)
			}
			if n := bad.Len(); n != pl.PanicAt {
				evid.Violation(t, "panic-delivery", res, "consumer that panicked at packet %d received %d packets", pl.PanicAt, n)
			}
			evid.Class("with a panicking consumer")
			if pl.ClosePanics {
				evid.Class("with a consumer that panics in Consume and in Close")
			}
		}
		// (d) alignment
		sg := stalled.Got()
		res.Received = len(sg)
		prev := -1
		for _, g := range sg {
			i := idx[g]
			if i <= prev {
				evid.Violation(t, "order", res, "stalled consumer received packet %d after %d", i, prev)
			}
			if i > prev+1 {
				res.Gaps = append(res.Gaps, [2]int{prev + 1, i - 1})
				if !pl.pubs[prev+1].KeyStart {
					evid.Violation(t, "drop-start", res, "packets %d..%d were dropped; dropping began at packet %d (%s), which does not start a key frame", prev+1, i-1, prev+1, pl.pubs[prev+1].Desc)
				}
				if !pl.pubs[i].KeyStart {
					evid.Violation(t, "drop-end", res, "packets %d..%d were dropped; the next packet given is %d (%s), which does not start a key frame", prev+1, i-1, i, pl.pubs[i].Desc)
				}
			}
			prev = i
		}
		if prev < len(pl.pubs)-1 {
			res.Gaps = append(res.Gaps, [2]int{prev + 1, len(pl.pubs) - 1})
			if !pl.pubs[prev+1].KeyStart {
				evid.Violation(t, "drop-start", res, "the tail %d.. was dropped; dropping began at packet %d (%s), which does not start a key frame", prev+1, prev+1, pl.pubs[prev+1].Desc)
			}
		}
		// (c) at the consumer: whatever was accepted for it is what it finally received, so
		// "accepted up to packet i" minus "given when packet i had been published" is its
		// backlog wherever those packs were held on the way (queue, delivery goroutine)
		for _, g := range given {
			acc := sort.Search(len(sg), func(k int) bool { return idx[sg[k]] > g[0] })
			if owed := acc - g[1]; owed > res.MaxOwed {
				res.MaxOwed, res.OwedAt = owed, g[0]
			}
		}
		if res.MaxOwed > limit+pl.MaxG+2 {
			evid.Violation(t, "backlog-at-consumer", res, "after packet %d, %d packets had been accepted for the stalled consumer and not yet given to it > %d (limit) + %d (key spacing) + 2 (one in its hands, one in flight)", res.OwedAt, res.MaxOwed, limit, pl.MaxG)
		}
		// a stall that stays under the limit must not lose anything
		long := false
		for _, st := range pl.Stalls {
			if st[1]-st[0] > limit {
				long = true
			}
		}
		if !long && len(res.Gaps) > 0 {
			evid.Violation(t, "early-drop", res, "no stall exceeded the backlog limit, yet runs %v were dropped", res.Gaps)
		}
		evid.Class(fmt.Sprintf("key shape %s", pl.KeyShape))
		switch {
		case pl.GopFrames > 1000:
			evid.Class("G > 1000 frames")
		case pl.GopFrames > 60:
			evid.Class("G 61..400 frames")
		default:
			evid.Class("G <= 60 frames")
		}
		if len(res.Gaps) > 0 && prev > res.Gaps[0][1] {
			evid.Class("a run was dropped and delivery resumed")
			evid.Nontrivial(evid.FP(pl.Codec, pl.GopFrames, pl.KeyShape, fmt.Sprint(pl.Stalls), pl.Packets, pl.CacheGop))
			if evid.WantSample("drop") {
				evid.Sample("drop", res)
			}
		} else if len(res.Gaps) == 0 {
			evid.Class("nothing dropped")
		}
	})
}
