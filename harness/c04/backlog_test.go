package c04

import (
	"fmt"
	"sort"
	"testing"

	"github.com/cnotch/ipchub/config"
	"github.com/cnotch/ipchub/media"
	"pgregory.net/rapid"
	"verif/harness/lib/evid"
	"verif/harness/lib/mediah"
	"verif/harness/lib/rtppack/esgen"
)

// One cycle of the consumer's history: it keeps up for Before packets, then is
// parked inside Consume while Stall packets are published, then handles Resume
// packs one at a time (the publisher writes PubPerPack packets per pack handled:
// relative speed) and the next cycle parks it again. After the last cycle it is
// released for good.
type cycle struct {
	Before     int `json:"keeps_up_for"`
	Stall      int `json:"published_while_parked"`
	Resume     int `json:"then_handles"`
	PubPerPack int `json:"published_per_pack_handled"`
}

type backlogCase struct {
	Codec    string  `json:"codec"`
	CacheGop bool    `json:"cache_gop"`
	G        int     `json:"key_spacing_packets"`
	JoinAt   int     `json:"joins_after_packets"`
	Replay   int     `json:"join_replay_at_most"`
	Cycles   []cycle `json:"cycles"`
	// results
	Published int      `json:"published"`
	Received  int      `json:"received"`
	Gaps      [][2]int `json:"dropped_runs,omitempty"`
	MaxOwed   int      `json:"max_accepted_not_yet_given"`
	OwedAt    int      `json:"max_accepted_not_yet_given_after_packet"`
}

// The backlog bound over stall / brief resume / stall-again histories, measured
// AT THE CONSUMER: every pack accepted for the consumer is finally given to it,
// so "accepted among the first i packets" (known at the end) minus "given when
// packet i had just been published" (sampled by the publisher, which is the test
// goroutine, while the consumer is parked in Consume or handles packs one at a
// time under the harness's control) is what is held for it anywhere between the
// publisher and the consumer - the queue, the delivery goroutine's own hands, a
// hand-over buffer. Statement: at most 1000 + one GOP + the join replay.
func TestBacklogOverStallResumeStall(t *testing.T) {
	evid.Checks(36, 400)
	rapid.Check(t, func(t *rapid.T) {
		c := &backlogCase{}
		h265 := rapid.IntRange(0, 2).Draw(t, "h265") == 0
		cdc := esgen.H264
		if h265 {
			cdc = esgen.H265
		}
		c.Codec = cdc.String()
		c.CacheGop = rapid.Bool().Draw(t, "cacheGop")
		switch rapid.IntRange(0, 3).Draw(t, "gopClass") {
		case 0:
			c.G = rapid.IntRange(1, 5).Draw(t, "G")
		case 1, 2:
			c.G = rapid.IntRange(6, 60).Draw(t, "G")
		default:
			c.G = rapid.IntRange(61, 300).Draw(t, "G")
		}
		c.JoinAt = rapid.IntRange(0, 2*c.G).Draw(t, "joinAfter")
		if c.CacheGop && c.JoinAt > 0 {
			c.Replay = c.JoinAt - (c.JoinAt-1)/c.G*c.G // the running GOP so far
		}
		nc := rapid.IntRange(2, 3).Draw(t, "cycles")
		// a lower bound of what the consumer is owed when a stall ends, so that a resume never
		// asks for more packs than there are (it would simply wait): nothing is dropped below
		// the limit except up to one GOP after an earlier drop
		lb := 0
		for k := 0; k < nc; k++ {
			cy := cycle{Before: rapid.IntRange(0, 40).Draw(t, "before")}
			if k > 0 {
				cy.Before = 0 // the history is stall, resume (Resume packs), stall again
			}
			if rapid.IntRange(0, 4).Draw(t, "shortStall") == 0 {
				cy.Stall = rapid.IntRange(1, 900).Draw(t, "stall")
			} else {
				cy.Stall = limit + c.G + rapid.IntRange(1, 2*c.G+200).Draw(t, "stall")
			}
			lb += cy.Stall - c.G
			if lb > limit {
				lb = limit
			}
			if k < nc-1 {
				switch rapid.IntRange(0, 5).Draw(t, "resumeClass") {
				case 0, 1:
					cy.Resume = rapid.IntRange(1, 5).Draw(t, "resume")
				case 2, 3:
					cy.Resume = rapid.IntRange(6, 80).Draw(t, "resume")
				case 4:
					cy.Resume = c.G + rapid.IntRange(0, 3).Draw(t, "resume")
				default:
					cy.Resume = rapid.IntRange(81, 1200).Draw(t, "resume")
				}
				if cy.Resume > lb-1 {
					cy.Resume = lb - 1
				}
				if cy.Resume < 0 {
					cy.Resume = 0
				}
				lb -= cy.Resume
				cy.PubPerPack = rapid.SampledFrom([]int{0, 0, 0, 1, 2}).Draw(t, "pubPerPack")
			}
			c.Cycles = append(c.Cycles, cy)
		}
		evid.Eval(1)

		config.VerifSet(":0", false, c.CacheGop, "", 5)
		s := media.NewStream("/c04/backlog", mediah.SDP(cdc, false))
		defer s.Close()
		tr := mediah.NewTracker(s)
		media.VerifSetSched(tr.Observe)
		defer media.VerifSetSched(nil)

		index := map[interface{}]int{}
		var keyAt []bool
		n := 0
		pub := func() {
			key := n%c.G == 0
			p := latePkt(h265, key, n)
			index[p] = n
			keyAt = append(keyAt, key)
			n++
			s.WriteRtpPacket(p)
		}
		for n < c.JoinAt {
			pub()
		}
		rec := mediah.NewRec("stalls-resumes-stalls")
		cid := s.StartConsume(rec, media.RTPPacket, "stalls-resumes-stalls")
		var given [][2]int // [after packet i, packs given to the consumer by then]
		sample := func() { given = append(given, [2]int{n - 1, rec.Len()}) }
		idle := func(when string) {
			if !tr.WaitIdle(s, []media.CID{cid}, bound) {
				c.Published, c.Received = n, rec.Len()
				evid.Violation(t, "stuck", c, "the consumer did not work off its backlog %s: %s", when, tr.Describe(s, []media.CID{cid}))
			}
		}
		parked := false
		for k, cy := range c.Cycles {
			if !parked {
				for i := 0; i < cy.Before; i++ {
					pub()
					if i%50 == 49 {
						idle("while it keeps up")
					}
				}
				idle("before it is parked")
				rec.Block()
				parked = true
			}
			for i := 0; i < cy.Stall; i++ {
				pub()
				sample()
			}
			if k == len(c.Cycles)-1 {
				break
			}
			for i := 0; i < cy.Resume; i++ {
				rec.Allow(1)
				for j := 0; j < cy.PubPerPack; j++ {
					pub()
				}
				sample()
			}
		}
		rec.Release()
		idle("after its last stall")
		c.Published = n

		got := rec.Got()
		c.Received = len(got)
		prev := -1
		first := true
		for _, g := range got {
			i, ok := index[g]
			if !ok {
				evid.Violation(t, "invented", c, "the consumer was given a pack that was never published")
			}
			if i <= prev {
				evid.Violation(t, "order", c, "the consumer was given packet %d after packet %d", i, prev)
			}
			if first {
				// the join: replayed packets of the running GOP (cache_gop), then live ones
				first = false
				if i > c.JoinAt || i < c.JoinAt-c.Replay {
					evid.Violation(t, "join", c, "the consumer joined after %d packets (replay at most %d) and its first packet is %d", c.JoinAt, c.Replay, i)
				}
			} else if i > prev+1 {
				c.Gaps = append(c.Gaps, [2]int{prev + 1, i - 1})
				if !keyAt[prev+1] {
					evid.Violation(t, "drop-start", c, "packets %d..%d were dropped; dropping began at packet %d, which does not start a key frame", prev+1, i-1, prev+1)
				}
				if !keyAt[i] {
					evid.Violation(t, "drop-end", c, "packets %d..%d were dropped; the next packet given is %d, which does not start a key frame", prev+1, i-1, i)
				}
			}
			prev = i
		}
		if prev < n-1 {
			c.Gaps = append(c.Gaps, [2]int{prev + 1, n - 1})
			if !keyAt[prev+1] {
				evid.Violation(t, "drop-start", c, "the tail %d.. was dropped; dropping began at packet %d, which does not start a key frame", prev+1, prev+1)
			}
		}
		for _, g := range given {
			acc := sort.Search(len(got), func(k int) bool { return index[got[k]] > g[0] })
			if owed := acc - g[1]; owed > c.MaxOwed {
				c.MaxOwed, c.OwedAt = owed, g[0]
			}
		}
		if max := limit + c.G + c.Replay + 2; c.MaxOwed > max {
			evid.Violation(t, "backlog-at-consumer", c, "after packet %d, %d packets had been accepted for the consumer and not yet given to it > %d = %d (limit) + %d (one GOP) + %d (join replay) + 2 (one in its hands, one in flight)", c.OwedAt, c.MaxOwed, max, limit, c.G, c.Replay)
		}
		// short stalls that never add up to the limit lose nothing
		total := c.Replay
		for _, cy := range c.Cycles {
			total += cy.Stall + cy.Resume*cy.PubPerPack
		}
		if total <= limit && len(c.Gaps) > 0 {
			evid.Violation(t, "early-drop", c, "the consumer was never owed more than %d packets, yet runs %v were dropped", total, c.Gaps)
		}

		long, brief := 0, false
		for k, cy := range c.Cycles {
			if cy.Stall > limit {
				long++
				if k > 0 && c.Cycles[k-1].Stall > limit && c.Cycles[k-1].Resume > 0 && c.Cycles[k-1].Resume < limit/2 {
					brief = true
				}
			}
		}
		switch {
		case brief:
			evid.Class("long stall, brief resume, long stall again")
		case long >= 2:
			evid.Class("two long stalls, long resume between")
		case long == 1:
			evid.Class("one long stall among short ones")
		default:
			evid.Class("short stalls only")
		}
		if c.Replay > 0 {
			evid.Class("stalling consumer joined with a replay")
		}
		if brief && len(c.Gaps) > 0 {
			evid.Nontrivial(evid.FP("backlog", c.Codec, c.CacheGop, c.G, c.JoinAt, fmt.Sprint(c.Cycles)))
			if evid.WantSample("stall-resume-stall") {
				evid.Sample("stall-resume-stall", c)
			}
		}
	})
}
