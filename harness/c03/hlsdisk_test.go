package c03

import (
	"fmt"
	"os"
	"path/filepath"
	"testing"
	"time"

	"github.com/cnotch/ipchub/av/format/rtp"
	"github.com/cnotch/ipchub/config"
	"github.com/cnotch/ipchub/media"
	"verif/harness/lib/evid"
	"verif/harness/lib/mediah"
	"verif/harness/lib/rtppack"
	"verif/harness/lib/rtppack/esgen"
)

// Streams that keep their HLS fragments on disk (the documented hlspath option)
// end like any other stream: every consumer is closed, the count is zero —
// whatever happens to the fragment files. Enumerated histories on one path:
// the stream is replaced by a reconnecting publisher (both write the same file
// names, the replaced one deletes them when it is closed) and the successor ends
// within its first fragment; the fragment file is removed by somebody else
// before the stream ends; the cache directory disappears altogether; a plain end
// as control. H.264 + AAC (the only shape that has HLS).
func TestStreamEndWithHlsFragmentsOnDisk(t *testing.T) {
	base := os.Getenv("VERIF_WORK")
	if base == "" {
		base = os.TempDir()
	}
	n := 0
	for _, history := range []string{"plain", "replaced-then-ended", "fragment-file-removed", "cache-directory-removed", "replaced-twice"} {
		for _, how := range []string{"close", "unregist"} {
			for _, published := range []int{0, 3, 40} {
				n++
				evid.Eval(1)
				dir, err := os.MkdirTemp(base, "c03-hls-")
				if err != nil {
					t.Fatalf("machinery: %v", err)
				}
				config.VerifSet(":0", false, false, dir, 5)
				path := fmt.Sprintf("/c03/hlsdisk/%d", n)
				seq := 0
				feed := func(s *media.Stream, k int) {
					for i := 0; i < k; i++ {
						seq++
						nal := []byte{0x41, byte(seq), 1, 2, 3, 4, 5}
						if i%10 == 0 {
							nal[0] = 0x65
						}
						s.WriteRtpPacket(rtppack.ToIpchub(rtp.ChannelVideo, rtppack.Pkt{PT: 96, Seq: uint16(seq), TS: uint32(90000 + seq*3000), SSRC: 4, Marker: true, Payload: nal}.Marshal()))
					}
				}
				type attached struct {
					s    *media.Stream
					recs []*mediah.Rec
				}
				start := func() *attached {
					a := &attached{s: media.NewStream(path, mediah.SDP(esgen.H264, true))}
					media.Regist(a.s)
					for _, pt := range []media.PacketType{media.RTPPacket, media.FLVPacket, media.RTPPacket} {
						r := mediah.NewRec(pt.String())
						a.s.StartConsume(r, pt, "hlsdisk")
						a.recs = append(a.recs, r)
					}
					feed(a.s, published)
					return a
				}
				var all []*attached
				cur := start()
				all = append(all, cur)
				switch history {
				case "replaced-then-ended":
					next := start() // retires cur (it has consumers: it stays open until closed)
					cur.s.Close()   // the old publisher's clean-up
					cur = next
					all = append(all, cur)
				case "replaced-twice":
					for i := 0; i < 2; i++ {
						next := start()
						cur.s.Close()
						cur = next
						all = append(all, cur)
					}
				case "fragment-file-removed":
					time.Sleep(20 * time.Millisecond) // let the ts muxer open its first fragment
					files, _ := filepath.Glob(filepath.Join(dir, "*"))
					for _, f := range files {
						os.Remove(f)
					}
				case "cache-directory-removed":
					time.Sleep(20 * time.Millisecond)
					os.RemoveAll(dir)
				}
				done := make(chan struct{})
				go func() {
					if how == "close" {
						cur.s.Close()
					}
					media.Unregist(cur.s)
					close(done)
				}()
				desc := map[string]any{"history": history, "ended_by": how, "packets_per_stream": published}
				select {
				case <-done:
				case <-time.After(10 * time.Second):
					evid.Violation(t, "hls-disk-end-stuck", desc, "ending a stream with HLS fragments on disk (%s, %s) did not return within 10 s", history, how)
				}
				for si, a := range all {
					for ri, r := range a.recs {
						r := r
						if !mediah.WaitFor(10*time.Second, func() bool { return r.Closed() > 0 }) {
							evid.Violation(t, "hls-disk-consumer-not-closed", desc, "history %q, ended by %s: consumer %d of stream #%d (of %d on the path) was not closed within 10 s; that stream counts %d consumers", history, how, ri, si, len(all), a.s.ConsumerCount())
						}
					}
					if c := a.s.ConsumerCount(); c != 0 {
						evid.Violation(t, "hls-disk-count", desc, "history %q, ended by %s: stream #%d still counts %d consumers", history, how, si, c)
					}
				}
				if media.Get(path) != nil {
					evid.Violation(t, "hls-disk-still-registered", desc, "history %q: the path still resolves to a stream after its last stream ended", history)
				}
				os.RemoveAll(dir)
				evid.Nontrivial(evid.FP("hlsdisk", history, how, published))
			}
		}
	}
	config.VerifSet(":0", false, false, "", 5)
	evid.Class("stream end with HLS fragments on disk (enumerated histories)")
}
