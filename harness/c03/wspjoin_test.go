package c03

import (
	"bytes"
	"fmt"
	"strings"
	"sync/atomic"
	"testing"
	"time"

	wspsvc "github.com/cnotch/ipchub/service/wsp"
	"verif/harness/lib/evid"
	"verif/harness/lib/mediah"
	"verif/harness/lib/rtppack/esgen"
	"verif/harness/lib/rtspc"
	"verif/harness/lib/srv"
)

// "… every consumer attached to it, including one that is attaching at that very
// moment, has its connection closed": a WSP player has two connections, and the
// second one (the data channel) can be attaching while the stream ends. The
// player is playing on its control channel; its data channel's JOIN has been
// answered and is held at the schedule point join.answered (not yet attached to
// the session) when the stream ends; then the JOIN goroutine is released. Both
// WebSocket connections must be closed by the server, the consumer count and
// the WSP connection counter must return to their baseline.
func TestWireWspJoinInFlightWhenStreamEnds(t *testing.T) {
	s := srv.Start(srv.Options{})
	defer wspsvc.VerifSetSched(nil)
	base := srv.WspConns()
	rounds := 6
	if evid.Thorough() {
		rounds = 60
	}
	for r := 0; r < rounds; r++ {
		path := fmt.Sprintf("/c03w/j%d", atomic.AddUint64(&wireCases, 1))
		st := srv.PublishStream(path, mediah.SDP(esgen.H264, false))
		how := []string{"unregist", "close"}[r%2]
		ctl, err := dialPeer(s.WS(path), "control")
		if err != nil {
			t.Fatalf("machinery: control dial: %v", err)
		}
		ctl.sendText("WSP/1.1 INIT\r\nproto: rtsp\r\nhost: 127.0.0.1\r\nport: 554\r\nseq: 1\r\n\r\n")
		m, err := ctl.wait(1)
		channel := ""
		for _, l := range strings.Split(string(m), "\r\n") {
			if strings.HasPrefix(l, "channel:") {
				channel = strings.TrimSpace(l[len("channel:"):])
			}
		}
		if err != nil || channel == "" {
			t.Fatalf("machinery: INIT: %v %q", err, m)
		}
		seq, sess := 1, ""
		wrap := func(method, u, hdr string) *rtspc.Response {
			seq++
			req := fmt.Sprintf("%s %s RTSP/1.0\r\nCSeq: %d\r\n%s", method, u, seq, hdr)
			if sess != "" {
				req += "Session: " + sess + "\r\n"
			}
			msgs, _ := ctl.snapshot()
			ctl.sendText(fmt.Sprintf("WSP/1.1 WRAP\r\nseq: %d\r\n\r\n%s\r\n", seq, req))
			m, err := ctl.wait(len(msgs) + 1)
			i := bytes.Index(m, []byte("\r\n\r\n"))
			if err != nil || i < 0 {
				t.Fatalf("machinery: %s: %v %q", method, err, m)
			}
			it, _, err := rtspc.ParseItem(m[i+4:])
			if err != nil || it.Response == nil || it.Response.Status != 200 {
				t.Fatalf("machinery: %s answered %q", method, m)
			}
			if id := it.Response.SessionID(); id != "" {
				sess = id
			}
			return it.Response
		}
		url := s.RTSP(path)
		d := wrap("DESCRIBE", url, "Accept: application/sdp\r\n")
		ctlTracks := rtspc.Controls(string(d.Body))
		wrap("SETUP", rtspc.TrackURL(url, ctlTracks[0].Control), "Transport: RTP/AVP/TCP;unicast;interleaved=0-1\r\n")
		wrap("PLAY", url, "Range: npt=0.000-\r\n")
		if !srv.WaitFor(wireBound(), func() bool { return st.ConsumerCount() == 1 }) {
			t.Fatalf("machinery: the WSP player never attached")
		}
		held := make(chan struct{})
		release := make(chan struct{})
		var fired int32
		wspsvc.VerifSetSched(func(name string, obj interface{}) {
			if name == "join.answered" && atomic.AddInt32(&fired, 1) == 1 {
				close(held)
				<-release
			}
		})
		data, err := dialPeer(s.WS(path), "data")
		if err != nil {
			t.Fatalf("machinery: data dial: %v", err)
		}
		data.sendText("WSP/1.1 JOIN\r\nchannel: " + channel + "\r\nseq: 2\r\n\r\n")
		select {
		case <-held:
		case <-time.After(wireBound()):
			t.Fatalf("machinery: the JOIN never reached join.answered")
		}
		// the stream ends while the data channel is between "answered" and "attached"
		ended := make(chan struct{})
		go func() {
			if how == "close" {
				st.Close()
			}
			srv.Unpublish(st)
			close(ended)
		}()
		time.Sleep(30 * time.Millisecond) // let the end get as far as it can (it may wait for the JOIN)
		close(release)
		<-ended
		wspsvc.VerifSetSched(nil)
		evid.Eval(1)
		desc := map[string]any{"round": r, "ended_by": how}
		if !srv.WaitFor(wireBound(), func() bool { return ctl.ended() != nil && data.ended() != nil }) {
			evid.Violation(t, "wire-wsp-join-in-flight", desc, "round %d: the stream ended (%s) while the player's data channel was between its JOIN answer and its attachment; %v later: control channel closed by the server: %v, data channel closed: %v (consumer count %d)", r, how, wireBound(), ctl.ended() != nil, data.ended() != nil, st.ConsumerCount())
		}
		if !srv.WaitFor(wireBound(), func() bool { return srv.WspConns() <= base && st.ConsumerCount() == 0 }) {
			evid.Violation(t, "wire-wsp-join-in-flight", desc, "round %d: after the stream ended the WSP connection counter is %d (baseline %d), consumer count %d", r, srv.WspConns(), base, st.ConsumerCount())
		}
		ctl.ws.Close()
		data.ws.Close()
		evid.Nontrivial(evid.FP("wsp-join-in-flight", r))
	}
	evid.Class("wire witness: WSP data channel attaching while the stream ends")
}
