package c03

import (
	"fmt"
	"sync"
	"sync/atomic"
	"testing"

	"verif/harness/lib/evid"
	"verif/harness/lib/mediah"
	"verif/harness/lib/rtppack/esgen"
	"verif/harness/lib/srv"
)

// TestWireEndAndDisconnectTogether: a player is released from two sides at once —
// its stream ends (the delivery goroutine closes the session's consumer) while
// the client goes away (the session's clean-up closes it too). Both releases
// must be harmless together: the server keeps running, the connection counter
// and the consumer count return to their baseline. Found by the thorough tier
// under load as a server crash (nil stream in tcpConsumer.Close when both
// callers passed the closed check); the window is a few instructions wide, so
// this is a free-running stress over many rounds, not an owned schedule.
func TestWireEndAndDisconnectTogether(t *testing.T) {
	s := srv.Start(srv.Options{})
	rounds := 120
	if evid.Thorough() {
		rounds = 1500
	}
	kinds := []string{"tcp", "udp", "ws"}
	base := srv.RtspConns()
	for r := 0; r < rounds; r++ {
		path := fmt.Sprintf("/c03w/x%d", atomic.AddUint64(&wireCases, 1))
		st := srv.PublishStream(path, mediah.SDP(esgen.H264, false))
		var cs []*wclient
		for i := 0; i < 3; i++ {
			c := &wclient{kind: kinds[(r+i)%len(kinds)]}
			if err := c.attach(s, path); err != nil {
				srv.Unpublish(st)
				t.Fatalf("machinery: %s attach: %v", c.kind, err)
			}
			cs = append(cs, c)
		}
		var wg sync.WaitGroup
		start := make(chan struct{})
		wg.Add(1 + len(cs))
		go func() { defer wg.Done(); <-start; srv.Unpublish(st) }()
		for _, c := range cs {
			c := c
			go func() { defer wg.Done(); <-start; c.disconnect() }()
		}
		close(start)
		wg.Wait()
		evid.Eval(1)
		if !srv.WaitFor(wireBound(), func() bool { return srv.RtspConns() <= base }) {
			evid.Violation(t, "wire-end-and-disconnect", map[string]any{"round": r}, "round %d: stream end and client disconnect at the same time: %d RTSP connections are still counted (baseline %d)", r, srv.RtspConns(), base)
		}
		if r < 4 {
			evid.Nontrivial(evid.FP("end+disconnect", r))
		}
	}
	evid.Class("wire witness: stream end and client disconnect at the same time")
}
