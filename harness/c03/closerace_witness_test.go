package c03

import (
	"fmt"
	"sync/atomic"
	"testing"
	"time"

	"github.com/cnotch/ipchub/av/format/rtp"
	rtspsvc "github.com/cnotch/ipchub/service/rtsp"
	"verif/harness/lib/evid"
	"verif/harness/lib/mediah"
	"verif/harness/lib/rtppack"
	"verif/harness/lib/rtppack/esgen"
	"verif/harness/lib/srv"
)

// TestWireCloseFromBothSides owns the schedule of the defect behind
// TestWireEndAndDisconnectTogether: the first caller of a TCP / UDP player's
// consumer Close (the session's clean-up after the client went away) is held at
// the schedule point right after the already-closed test; while it is held the
// publisher keeps publishing: the delivery goroutine's write to the closed
// connection fails and it calls Close as well. Then the first caller is released. With the defect the second caller got past the test too,
// both released the consumer, and the one that came second dereferenced the
// stream the other had just forgotten: the whole server process died. The
// witness requires that the server survives (a crash here is reported by the
// driver as a violation with the log as replay), that both connections are
// accounted for and that the stream's consumer count is back to zero.
func TestWireCloseFromBothSides(t *testing.T) {
	s := srv.Start(srv.Options{})
	defer rtspsvc.VerifSetSched(nil)
	base := srv.RtspConns()
	for r, kind := range []string{"tcp", "udp", "tcp", "udp"} {
		path := fmt.Sprintf("/c03w/y%d", atomic.AddUint64(&wireCases, 1))
		st := srv.PublishStream(path, mediah.SDP(esgen.H264, false))
		c := &wclient{kind: kind}
		if err := c.attach(s, path); err != nil {
			srv.Unpublish(st)
			t.Fatalf("machinery: %s attach: %v", kind, err)
		}
		held := make(chan struct{})
		release := make(chan struct{})
		var fired int32
		rtspsvc.VerifSetSched(func(name string, obj interface{}) {
			if name != "consumer.close.checked" || rtspsvc.VerifSessionAddr(obj) != c.local {
				return
			}
			if atomic.AddInt32(&fired, 1) == 1 { // the first caller only
				close(held)
				<-release
			}
		})
		c.disconnect() // the session's clean-up becomes the first caller
		select {
		case <-held:
		case <-time.After(wireBound()):
			rtspsvc.VerifSetSched(nil)
			srv.Unpublish(st)
			t.Fatalf("machinery: the session clean-up never reached the consumer's Close")
		}
		// media keeps flowing while the first caller is inside Close: the delivery
		// goroutine's write to the connection that has just been closed fails and it
		// closes the consumer too (it either returns at once, waits for the first caller,
		// or — the defect — runs the release a second time)
		second := false
		for i := 0; i < 200 && !second; i++ {
			nal := []byte{0x41, byte(i), 1, 2, 3, 4, 5}
			st.WriteRtpPacket(rtppack.ToIpchub(rtp.ChannelVideo, rtppack.Pkt{PT: 96, Seq: uint16(i), TS: uint32(1000 + i*3000), SSRC: 9, Marker: true, Payload: nal}.Marshal()))
			second = srv.WaitFor(10*time.Millisecond, func() bool { return atomic.LoadInt32(&fired) >= 2 })
		}
		time.Sleep(20 * time.Millisecond)
		close(release)
		if second {
			evid.Class("wire witness: second caller reached the release while the first was inside it")
		}
		srv.Unpublish(st)
		evid.Eval(1)
		if !srv.WaitFor(wireBound(), func() bool { return srv.RtspConns() <= base }) {
			evid.Violation(t, "wire-close-from-both-sides", map[string]any{"round": r, "kind": kind}, "round %d (%s): after the consumer was closed from both sides %d RTSP connections are still counted (baseline %d)", r, kind, srv.RtspConns(), base)
		}
		if n := st.ConsumerCount(); n != 0 {
			evid.Violation(t, "wire-close-from-both-sides", map[string]any{"round": r, "kind": kind}, "round %d (%s): the ended stream still reports %d consumers", r, kind, n)
		}
		rtspsvc.VerifSetSched(nil)
		evid.Nontrivial(evid.FP("close-both-sides", r, kind))
	}
	evid.Class("wire witness: consumer closed by the session clean-up and by the delivery goroutine at once")
}
