//go:build verif

// C03, layer C (wire): release of real clients of the in-process server
// (lib/srv) when their stream ends or when one of them is stopped.
//
// A generated history runs over one path: clients attach over RTSP/TCP,
// RTSP/UDP, ws-rtsp, WSP (control + data WebSocket), HTTP-FLV and ws-flv; the
// stream is fed directly (srv.PublishStream) or by a scripted RTSP RECORD session;
// single clients are stopped (TEARDOWN / disconnect); a second RECORD session
// takes the path (replacement: the retired stream keeps serving the clients it
// has until its own publisher goes); streams end by publisher disconnect /
// srv.Unpublish, by the administrative DELETE /api/v1/streams/{path}, and while a
// client is attaching at that very moment.
//
// Oracle, from the statement of C03:
//   - when a stream ends, every client attached to it observes its connection
//     closed (EOF / close / HTTP body end; WSP: both channels) within a bounded
//     wait, and clients of another stream on the same path stay open;
//   - stopping one client releases that client only: the stream's consumer count
//     follows the reference count (bounded wait), every other client stays open
//     and keeps receiving what is published next;
//   - afterwards the ended stream has 0 consumers and is no longer the registered
//     one, and after the case the per-protocol connection counters
//     (stats.RtspConns / FlvConns / WspConns), media.Count() and the goroutine
//     profile (consume, rtp demuxer, flv muxer, ts muxer, rtsp / wsp session,
//     http-flv / ws-flv handler) are back at their values before the case.
package c03

import (
	"bytes"
	"context"
	"encoding/json"
	"errors"
	"fmt"
	"io"
	"net"
	"net/http"
	"os"
	"runtime"
	"strings"
	"sync"
	"sync/atomic"
	"testing"
	"time"

	"github.com/cnotch/ipchub/media"
	"github.com/cnotch/ipchub/utils"
	"github.com/gorilla/websocket"
	"pgregory.net/rapid"
	"verif/harness/lib/evid"
	"verif/harness/lib/mediah"
	"verif/harness/lib/rtppack"
	"verif/harness/lib/rtppack/esgen"
	"verif/harness/lib/rtspc"
	"verif/harness/lib/srv"
)

func wireBound() time.Duration {
	if evid.Thorough() {
		return 10 * time.Second
	}
	return 5 * time.Second
}

var wireCases uint64

// goroutine kinds of the wire layer: those of layer A plus the per-connection ones
var wireGoroutineKinds = append(append([]string(nil), goroutineKinds...),
	"service/rtsp.(*Session).process",
	"service/wsp.(*Session).process",
	"service/flv.ConsumeByHTTP",
	"service/flv.ConsumeByWebsocket",
)

func wireGoroutines() (map[string]int, string) {
	buf := make([]byte, 1<<20)
	for {
		n := runtime.Stack(buf, true)
		if n < len(buf) {
			buf = buf[:n]
			break
		}
		buf = make([]byte, 2*len(buf))
	}
	out := map[string]int{}
	var sample []string
	for _, g := range strings.Split(string(buf), "\n\n") {
		for _, k := range wireGoroutineKinds {
			if strings.Contains(g, k) {
				out[k]++
				if len(sample) < 6 {
					lines := strings.Split(g, "\n")
					if len(lines) > 9 {
						lines = lines[:9]
					}
					sample = append(sample, strings.Join(lines, " | "))
				}
				break
			}
		}
	}
	return out, strings.Join(sample, "\n")
}

// ---------------------------------------------------------------- plan

type wop struct {
	Op   string `json:"op"`             // attach | stop | publish | replace | end | end+attach | attach-after-end
	Kind string `json:"kind,omitempty"` // attach: tcp | udp | ws | wsp | httpflv | wsflv
	Who  int    `json:"who"`            // stop: which client (creation order)
	How  string `json:"how,omitempty"`  // stop: teardown | disconnect; end: publisher | delete | shutdown
	Old  bool   `json:"old,omitempty"`  // end: the oldest live stream instead of the registered one
	N    int    `json:"n,omitempty"`    // publish: packets
	Spin int    `json:"spin,omitempty"` // end+attach: how long the end waits after the attach started (x 20 µs)
}

type wplan struct {
	H265      bool   `json:"h265"`
	Audio     bool   `json:"audio"`
	Publisher string `json:"publisher"` // direct | record
	Ops       []wop  `json:"ops"`
}

var wireKinds = []string{"tcp", "udp", "mcast", "ws", "wsp", "httpflv", "wsflv"}

// mcast: a member of the multicast proxy that every RECORD-published stream
// carries (SETUP RTP/AVP;multicast). Usable only where multicast loops back.
var (
	wireMcastOnce sync.Once
	wireMcastErr  error
)

func wireMulticast() bool {
	wireMcastOnce.Do(func() {
		wireMcastErr = rtspc.MulticastProbe()
		if wireMcastErr != nil {
			evid.Note("multicast unavailable on this host, multicast-proxy members are skipped: %v", wireMcastErr)
			return
		}
		// ipchub hands out groups 235.0.0.0+n and ports 16666+n from a per-process counter:
		// give this process a region of its own, other check processes share the host
		h := uint32(os.Getpid())*2654435761 + uint32(time.Now().UnixNano())
		for i := uint32(0); i < h%(1<<24); i++ {
			utils.Multicast.NextIP()
		}
		for i := uint32(0); i < (h>>8)%15000; i++ {
			utils.Multicast.NextPort()
		}
	})
	return wireMcastErr == nil
}

// wireSafeMulticastPorts is called before a RECORD creates a stream (ipchub then
// takes the next four ports of its pool 16666..39999 for the stream's multicast
// proxy): it moves the pool on until those ports lie below the host's ephemeral
// range (32768+), where the OS-chosen ports of every unicast UDP socket on this
// host come from.
func wireSafeMulticastPorts() {
	if !wireMulticast() {
		return
	}
	for utils.Multicast.NextPort() >= 31990 {
	}
}

var wireJoinCount uint64

// joinMulticast is rtspc.JoinMulticast (with a development switch that makes every
// third join fail the way a port held by another process does).
func joinMulticast(group string, port int) (*net.UDPConn, error) {
	if os.Getenv("VERIF_WIRE_FAKE_PORT_TAKEN") != "" && atomic.AddUint64(&wireJoinCount, 1)%3 == 0 {
		return nil, &rtspc.MulticastJoinError{Group: group, Port: port, Err: errors.New("bind: address already in use (simulated)")}
	}
	return rtspc.JoinMulticast(group, port)
}

const wireClassPortTaken = "wire: multicast port taken by another process on this host (member skipped)"

func genWirePlan(t *rapid.T) *wplan {
	pl := &wplan{H265: rapid.IntRange(0, 2).Draw(t, "h265") == 0, Audio: rapid.Bool().Draw(t, "audio")}
	pl.Publisher = rapid.SampledFrom([]string{"direct", "record"}).Draw(t, "publisher")
	var kinds []string
	for _, k := range wireKinds {
		if only := os.Getenv("VERIF_WIRE_KINDS"); only == "" || strings.Contains(","+only+",", ","+k+",") {
			if k == "mcast" && !wireMulticast() {
				evid.Class("wire: multicast unavailable - multicast-proxy members skipped")
				continue
			}
			kinds = append(kinds, k)
		}
	}
	var kindsNoMcast []string
	for _, k := range kinds {
		if k != "mcast" {
			kindsNoMcast = append(kindsNoMcast, k)
		}
	}
	if len(kindsNoMcast) == 0 {
		kindsNoMcast = []string{"tcp"}
	}
	genRecord := map[int]bool{0: pl.Publisher == "record"} // only RECORD-published streams have a multicast proxy
	kindsFor := func(g int) []string {
		if genRecord[g] {
			return kinds
		}
		return kindsNoMcast
	}
	// a small simulation keeps the history meaningful: stops address clients that are
	// attached, ends address streams that are live
	type simClient struct {
		gen   int
		alive bool
		kind  string
	}
	var clients []simClient // creation order = index the run uses
	live := []int{0}        // live stream generations, oldest first
	cur, nextGen := 0, 1    // the registered generation (-1: the path is free)
	on := func(g int) (idx []int) {
		for i, c := range clients {
			if c.alive && c.gen == g {
				idx = append(idx, i)
			}
		}
		return
	}
	endGen := func(g int) {
		for _, i := range on(g) {
			clients[i].alive = false
		}
		for k, x := range live {
			if x == g {
				live = append(live[:k], live[k+1:]...)
				break
			}
		}
		if cur == g {
			cur = -1
		}
	}
	pickEnd := func(old bool) int {
		if old || cur < 0 {
			if old {
				return live[0]
			}
			return live[len(live)-1]
		}
		return cur
	}
	// "shutdown" = ipchub's own Service.Close(). It ends every REGISTERED stream; a retired
	// stream that still has clients is not in the registry any more (in a real shutdown the
	// process exits right afterwards), so it is drawn only while the registered stream is
	// the only live one.
	endHows := func(label string) string {
		hows := []string{"publisher", "delete"}
		if cur >= 0 && len(live) == 1 && os.Getenv("VERIF_WIRE_NO_SHUTDOWN") == "" {
			hows = append(hows, "shutdown")
		}
		return rapid.SampledFrom(hows).Draw(t, label)
	}
	n := rapid.IntRange(3, 12).Draw(t, "ops")
	for i := 0; i < n && len(live) > 0; i++ {
		var aliveIdx []int
		for j, c := range clients {
			if c.alive {
				aliveIdx = append(aliveIdx, j)
			}
		}
		k := rapid.IntRange(0, 15).Draw(t, "op")
		switch {
		case cur >= 0 && (k <= 5 || len(aliveIdx) == 0):
			kind := rapid.SampledFrom(kindsFor(cur)).Draw(t, "kind")
			for _, j := range on(cur) { // multicast members come in groups: they share one proxy
				if clients[j].kind == "mcast" && rapid.IntRange(0, 9).Draw(t, "anotherMember") < 5 {
					kind = "mcast"
					break
				}
			}
			pl.Ops = append(pl.Ops, wop{Op: "attach", Kind: kind})
			clients = append(clients, simClient{cur, true, kind})
		case k <= 8 && len(aliveIdx) > 0:
			who := rapid.SampledFrom(aliveIdx).Draw(t, "who")
			pl.Ops = append(pl.Ops, wop{Op: "stop", Who: who, How: rapid.SampledFrom([]string{"teardown", "disconnect"}).Draw(t, "how")})
			clients[who].alive = false
		case k <= 10:
			pl.Ops = append(pl.Ops, wop{Op: "publish", N: rapid.IntRange(1, 8).Draw(t, "n")})
		case k <= 12 && cur >= 0 && len(live) < 3:
			pl.Ops = append(pl.Ops, wop{Op: "replace"})
			if len(on(cur)) == 0 {
				endGen(cur) // a retired stream without clients is closed at once
			}
			cur = nextGen
			genRecord[cur] = true
			live = append(live, nextGen)
			nextGen++
		case k == 13 && cur >= 0:
			pl.Ops = append(pl.Ops, wop{Op: "end+attach", Kind: rapid.SampledFrom(kindsFor(cur)).Draw(t, "kind"), How: endHows("endHow"), Spin: rapid.IntRange(0, 40).Draw(t, "spin")})
			clients = append(clients, simClient{cur, false, ""}) // whatever becomes of it, it ends with the stream
			endGen(cur)
		case k >= 14:
			old := rapid.Bool().Draw(t, "old")
			pl.Ops = append(pl.Ops, wop{Op: "end", How: endHows("endHow"), Old: old})
			endGen(pickEnd(old))
		default:
			pl.Ops = append(pl.Ops, wop{Op: "publish", N: rapid.IntRange(1, 4).Draw(t, "n")})
		}
	}
	// every stream still live ends in the end, one by one
	for len(live) > 0 {
		old := rapid.Bool().Draw(t, "finalOld")
		pl.Ops = append(pl.Ops, wop{Op: "end", How: endHows("finalEndHow"), Old: old})
		endGen(pickEnd(old))
	}
	if rapid.IntRange(0, 2).Draw(t, "attachAfterEnd") == 0 {
		pl.Ops = append(pl.Ops, wop{Op: "attach-after-end", Kind: rapid.SampledFrom(kinds).Draw(t, "kind")})
	}
	return pl
}

// ---------------------------------------------------------------- clients

type wsPeer struct {
	ws   *websocket.Conn
	mu   sync.Mutex
	msgs [][]byte
	n    int // bytes received
	err  error
}

func dialPeer(url, proto string) (*wsPeer, error) {
	d := websocket.Dialer{HandshakeTimeout: wireBound()}
	if proto != "" {
		d.Subprotocols = []string{proto}
	}
	ws, _, err := d.Dial(url, nil)
	if err != nil {
		return nil, err
	}
	if ws.Subprotocol() != proto {
		ws.Close()
		return nil, fmt.Errorf("server chose sub-protocol %q, asked for %q", ws.Subprotocol(), proto)
	}
	p := &wsPeer{ws: ws}
	go func() {
		for {
			_, data, err := ws.ReadMessage()
			p.mu.Lock()
			if err != nil {
				p.err = err
				p.mu.Unlock()
				return
			}
			p.msgs = append(p.msgs, data)
			p.n += len(data)
			p.mu.Unlock()
		}
	}()
	return p, nil
}

func (p *wsPeer) snapshot() ([][]byte, error) {
	p.mu.Lock()
	defer p.mu.Unlock()
	return append([][]byte(nil), p.msgs...), p.err
}

func (p *wsPeer) ended() error { p.mu.Lock(); defer p.mu.Unlock(); return p.err }

func (p *wsPeer) contains(b []byte) bool {
	p.mu.Lock()
	defer p.mu.Unlock()
	for i := len(p.msgs) - 1; i >= 0; i-- {
		if bytes.Contains(p.msgs[i], b) {
			return true
		}
	}
	return false
}

func (p *wsPeer) wait(n int) ([]byte, error) {
	srv.WaitFor(wireBound(), func() bool { m, e := p.snapshot(); return len(m) >= n || e != nil })
	m, e := p.snapshot()
	if len(m) >= n {
		return m[n-1], nil
	}
	if e == nil {
		e = fmt.Errorf("no message within %v", wireBound())
	}
	return nil, e
}

func (p *wsPeer) sendText(s string) error {
	p.ws.SetWriteDeadline(time.Now().Add(wireBound()))
	return p.ws.WriteMessage(websocket.TextMessage, []byte(s))
}

type wclient struct {
	id    int
	kind  string
	audio bool
	gen   int    // the stream generation it attached to
	local string // local address of the media connection

	rc        *rtspc.Client
	udp       [4]*net.UDPConn
	udpMu     sync.Mutex
	udpGot    [][]byte
	ctl, data *wsPeer
	ctlSeq    int
	rtspSess  string
	flvWS     *wsPeer
	httpConn  net.Conn

	mu      sync.Mutex
	flv     []byte
	status  int
	endErr  error // http-flv: the body ended
	rcEnded error // tcp / ws / udp control connection ended

	attached bool
	stopped  bool // the script stopped it (TEARDOWN / disconnect)
	closedBy string
	framing  string // malformed server output met by the strict reader
}

func (c *wclient) String() string {
	return fmt.Sprintf("client %d (%s, stream #%d)", c.id, c.kind, c.gen)
}

func (c *wclient) tracks() int {
	if c.audio {
		return 2
	}
	return 1
}

// readUDP collects the datagrams of one socket until it is closed.
func (c *wclient) readUDP(u *net.UDPConn) {
	buf := make([]byte, 70000)
	for {
		n, _, err := u.ReadFromUDP(buf)
		if err != nil {
			return
		}
		c.udpMu.Lock()
		c.udpGot = append(c.udpGot, append([]byte(nil), buf[:n]...))
		c.udpMu.Unlock()
	}
}

func (c *wclient) transportHeader(track int) (string, error) {
	if c.kind == "mcast" {
		return "RTP/AVP;multicast", nil // group and ports come with the answer
	}
	if c.kind == "udp" {
		for k := 0; k < 2; k++ {
			u, err := net.ListenUDP("udp4", &net.UDPAddr{IP: net.IPv4(127, 0, 0, 1)})
			if err != nil {
				return "", err
			}
			u.SetReadBuffer(4 << 20)
			c.udp[2*track+k] = u
			go c.readUDP(u)
		}
		return fmt.Sprintf("RTP/AVP;unicast;client_port=%d-%d", c.udp[2*track].LocalAddr().(*net.UDPAddr).Port, c.udp[2*track+1].LocalAddr().(*net.UDPAddr).Port), nil
	}
	return fmt.Sprintf("RTP/AVP/TCP;unicast;interleaved=%d-%d", 2*track, 2*track+1), nil
}

// attach runs the dialogue until the client is attached: the 200 to PLAY has
// been read (RTSP family) / the stream lists the consumer (FLV family).
func (c *wclient) attach(s *srv.Server, path string) error {
	switch c.kind {
	case "tcp", "udp", "mcast", "ws":
		return c.attachRTSP(s, path)
	case "wsp":
		return c.attachWSP(s, path)
	case "httpflv":
		return c.attachHTTPFlv(s, path)
	case "wsflv":
		return c.attachWSFlv(s, path)
	}
	return errors.New("unknown client kind " + c.kind)
}

func (c *wclient) attachRTSP(s *srv.Server, path string) (err error) {
	if c.kind == "ws" {
		c.rc, err = rtspc.DialWS(s.WS(path), wireBound(), nil)
	} else {
		c.rc, err = rtspc.Dial(s.Addr(), wireBound())
	}
	if err != nil {
		return err
	}
	c.local = c.rc.LocalAddr().String()
	url := s.RTSP(path)
	do := func(method, u string, h map[string]string) (*rtspc.Response, error) {
		r, err := c.rc.Do(method, u, h, nil)
		if err != nil {
			return nil, fmt.Errorf("%s: %w", method, err)
		}
		if r.Status != 200 {
			return r, fmt.Errorf("%s answered %d %s", method, r.Status, r.Reason)
		}
		return r, nil
	}
	d, err := do("DESCRIBE", url, map[string]string{"Accept": "application/sdp"})
	if err != nil {
		return err
	}
	ctl := rtspc.Controls(string(d.Body))
	if len(ctl) < c.tracks() {
		c.audio = false
	}
	for tr := 0; tr < c.tracks(); tr++ {
		th, err := c.transportHeader(tr)
		if err != nil {
			return err
		}
		r, err := do("SETUP", rtspc.TrackURL(url, ctl[tr].Control), map[string]string{"Transport": th})
		if err != nil {
			return err
		}
		if c.kind == "mcast" { // join what the answer names, before PLAY
			group, rtp, rtcp, err := rtspc.MulticastTarget(r.Get("Transport"))
			if err != nil {
				return err
			}
			for k, port := range []int{rtp, rtcp} {
				if port <= 0 {
					continue
				}
				u, err := joinMulticast(group, port)
				if err != nil {
					return err
				}
				c.udp[2*tr+k] = u
				go c.readUDP(u)
			}
		}
	}
	_, err = do("PLAY", url, map[string]string{"Range": "npt=0.000-"})
	return err
}

func (c *wclient) attachWSP(s *srv.Server, path string) (err error) {
	if c.ctl, err = dialPeer(s.WS(path), "control"); err != nil {
		return fmt.Errorf("control dial: %w", err)
	}
	if err = c.ctl.sendText("WSP/1.1 INIT\r\nproto: rtsp\r\nhost: 127.0.0.1\r\nport: 554\r\nseq: 1\r\n\r\n"); err != nil {
		return err
	}
	m, err := c.ctl.wait(1)
	if err != nil {
		return fmt.Errorf("INIT response: %w", err)
	}
	channel := ""
	for _, l := range strings.Split(string(m), "\r\n") {
		if strings.HasPrefix(l, "channel:") {
			channel = strings.TrimSpace(l[len("channel:"):])
		}
	}
	if !strings.HasPrefix(string(m), "WSP/1.1 200 ") || channel == "" {
		return fmt.Errorf("INIT response %q", m)
	}
	// a JOIN that overtakes the registration of the session is answered 404 (a
	// handshake matter): join again on a fresh data connection
	for try := 0; ; try++ {
		if c.data, err = dialPeer(s.WS(path), "data"); err != nil {
			return fmt.Errorf("data dial: %w", err)
		}
		if err = c.data.sendText("WSP/1.1 JOIN\r\nchannel: " + channel + "\r\nseq: 2\r\n\r\n"); err != nil {
			return err
		}
		if m, err = c.data.wait(1); err != nil {
			return fmt.Errorf("JOIN response: %w", err)
		}
		if strings.HasPrefix(string(m), "WSP/1.1 404 ") && try < 100 {
			c.data.ws.Close()
			time.Sleep(time.Millisecond)
			continue
		}
		if !strings.HasPrefix(string(m), "WSP/1.1 200 ") {
			return fmt.Errorf("JOIN response %q", m)
		}
		break
	}
	c.local = c.data.ws.LocalAddr().String()
	c.ctlSeq = 2
	url := s.RTSP(path)
	wrap := func(method, u, hdr string) (*rtspc.Response, error) {
		c.ctlSeq++
		req := fmt.Sprintf("%s %s RTSP/1.0\r\nCSeq: %d\r\n%s", method, u, c.ctlSeq, hdr)
		if c.rtspSess != "" {
			req += "Session: " + c.rtspSess + "\r\n"
		}
		msgs, _ := c.ctl.snapshot()
		if err := c.ctl.sendText(fmt.Sprintf("WSP/1.1 WRAP\r\nseq: %d\r\n\r\n%s\r\n", c.ctlSeq, req)); err != nil {
			return nil, err
		}
		m, err := c.ctl.wait(len(msgs) + 1)
		if err != nil {
			return nil, fmt.Errorf("%s response: %w", method, err)
		}
		i := bytes.Index(m, []byte("\r\n\r\n"))
		if i < 0 || !bytes.HasPrefix(m, []byte("WSP/1.1 200 ")) {
			return nil, fmt.Errorf("%s: WSP response %q", method, m)
		}
		it, k, err := rtspc.ParseItem(m[i+4:])
		if err != nil || k != len(m[i+4:]) || it.Response == nil {
			return nil, fmt.Errorf("%s: wrapped bytes are not one RTSP response: %q", method, m[i+4:])
		}
		if it.Response.Status != 200 {
			return it.Response, fmt.Errorf("%s answered %d %s", method, it.Response.Status, it.Response.Reason)
		}
		if id := it.Response.SessionID(); id != "" {
			c.rtspSess = id
		}
		return it.Response, nil
	}
	d, err := wrap("DESCRIBE", url, "Accept: application/sdp\r\n")
	if err != nil {
		return err
	}
	ctl := rtspc.Controls(string(d.Body))
	if len(ctl) < c.tracks() {
		c.audio = false
	}
	for tr := 0; tr < c.tracks(); tr++ {
		th, _ := c.transportHeader(tr)
		if _, err := wrap("SETUP", rtspc.TrackURL(url, ctl[tr].Control), "Transport: "+th+"\r\n"); err != nil {
			return err
		}
	}
	_, err = wrap("PLAY", url, "Range: npt=0.000-\r\n")
	return err
}

// registered reports whether the stream lists a consumer for this address.
func registered(st *media.Stream, addr string) bool {
	if st == nil || addr == "" {
		return false
	}
	for _, ci := range st.Info(true).Consumptions {
		if strings.HasSuffix(ci.Extra, ","+addr) {
			return true
		}
	}
	return false
}

func (c *wclient) attachHTTPFlv(s *srv.Server, path string) error {
	conn, err := net.DialTimeout("tcp", s.Addr(), wireBound())
	if err != nil {
		return err
	}
	c.httpConn = conn
	c.local = conn.LocalAddr().String()
	used := int32(0)
	tr := &http.Transport{DisableKeepAlives: true, DisableCompression: true,
		DialContext: func(ctx context.Context, network, addr string) (net.Conn, error) {
			if !atomic.CompareAndSwapInt32(&used, 0, 1) {
				return nil, errors.New("second connection not expected")
			}
			return conn, nil
		}}
	go func() {
		// the response header arrives with the first ~2 KiB of media (net/http buffers):
		// the GET runs beside the script
		resp, err := (&http.Client{Transport: tr}).Get(s.HTTP() + "/streams" + path + ".flv")
		if err != nil {
			c.mu.Lock()
			c.endErr = err
			c.mu.Unlock()
			return
		}
		c.mu.Lock()
		c.status = resp.StatusCode
		c.mu.Unlock()
		buf := make([]byte, 32<<10)
		for {
			n, err := resp.Body.Read(buf)
			c.mu.Lock()
			c.flv = append(c.flv, buf[:n]...)
			if err != nil {
				c.endErr = err
			}
			c.mu.Unlock()
			if err != nil {
				return
			}
		}
	}()
	st := media.Get(path)
	srv.WaitFor(wireBound(), func() bool { return registered(st, c.local) || c.closed() != "" })
	if !registered(st, c.local) {
		c.mu.Lock()
		defer c.mu.Unlock()
		return fmt.Errorf("http-flv consumer %s not registered (status %d, ended %v)", c.local, c.status, c.endErr)
	}
	return nil
}

func (c *wclient) attachWSFlv(s *srv.Server, path string) (err error) {
	if c.flvWS, err = dialPeer(s.WS(path+".flv"), ""); err != nil {
		return err
	}
	c.local = c.flvWS.ws.LocalAddr().String()
	st := media.Get(path)
	srv.WaitFor(wireBound(), func() bool { return registered(st, c.local) || c.flvWS.ended() != nil })
	if !registered(st, c.local) {
		return fmt.Errorf("ws-flv consumer %s not registered (connection: %v)", c.local, c.flvWS.ended())
	}
	return nil
}

// closed reports how the client observed the end of its connection ("" = still open).
func (c *wclient) closed() string {
	switch c.kind {
	case "tcp", "ws", "udp", "mcast":
		if c.rc == nil {
			return "never connected"
		}
		if c.rcEnded == nil {
			for {
				_, err := c.rc.ReadItemTimeout(10 * time.Microsecond)
				if err == nil {
					continue // a frame (or the TEARDOWN response): content is C01's / C13's business
				}
				var fe *rtspc.FramingError
				if errors.As(err, &fe) {
					if fe.Truncated {
						c.rcEnded = fmt.Errorf("connection ended inside an item: %s", fe.What)
					} else if fe.What == "empty ws message" {
						continue // the reader skipped it
					} else {
						// malformed output (C13's business): the strict reader stays there and
						// cannot tell any more whether the connection ended
						c.framing = fe.Error()
					}
					break
				}
				if !errors.Is(err, rtspc.ErrTimeout) {
					c.rcEnded = err
				}
				break
			}
		}
		if c.rcEnded != nil {
			return c.rcEnded.Error()
		}
	case "wsp":
		var e1, e2 error
		if c.ctl != nil {
			e1 = c.ctl.ended()
		}
		if c.data != nil {
			e2 = c.data.ended()
		}
		if e1 != nil && (e2 != nil || c.data == nil) {
			return fmt.Sprintf("control: %v; data: %v", e1, e2)
		}
	case "httpflv":
		c.mu.Lock()
		defer c.mu.Unlock()
		if c.endErr != nil {
			return fmt.Sprintf("body ended: %v (status %d)", c.endErr, c.status)
		}
	case "wsflv":
		if c.flvWS == nil {
			return "never connected"
		}
		if e := c.flvWS.ended(); e != nil {
			return e.Error()
		}
	}
	return ""
}

// halfClosed describes a WSP session of which only one channel ended (diagnostics).
func (c *wclient) halfClosed() string {
	if c.framing != "" {
		return "(the client's strict reader is stuck at malformed server output: " + c.framing + ")"
	}
	if c.kind == "wsp" && c.ctl != nil && c.data != nil {
		return fmt.Sprintf("control ended: %v, data ended: %v", c.ctl.ended(), c.data.ended())
	}
	return ""
}

// has reports whether the marker bytes arrived (liveness of the media path).
func (c *wclient) has(marker []byte) bool {
	switch c.kind {
	case "tcp", "ws":
		return bytes.Contains(c.rc.Captured(), marker)
	case "udp", "mcast":
		c.udpMu.Lock()
		defer c.udpMu.Unlock()
		for i := len(c.udpGot) - 1; i >= 0; i-- {
			if bytes.Contains(c.udpGot[i], marker) {
				return true
			}
		}
	case "wsp":
		return c.data.contains(marker)
	case "httpflv":
		c.mu.Lock()
		defer c.mu.Unlock()
		return bytes.Contains(c.flv, marker)
	case "wsflv":
		return c.flvWS.contains(marker)
	}
	return false
}

func (c *wclient) teardown(s *srv.Server, path string) {
	switch c.kind {
	case "tcp", "udp", "mcast", "ws":
		c.rc.Send(c.rc.Build("TEARDOWN", s.RTSP(path), nil, nil))
	case "wsp":
		c.ctlSeq++
		c.ctl.sendText(fmt.Sprintf("WSP/1.1 WRAP\r\nseq: %d\r\n\r\nTEARDOWN %s RTSP/1.0\r\nCSeq: %d\r\nSession: %s\r\n\r\n", c.ctlSeq, s.RTSP(path), c.ctlSeq, c.rtspSess))
	}
}

func (c *wclient) disconnect() {
	if c.rc != nil {
		c.rc.Close()
	}
	for _, u := range c.udp {
		if u != nil {
			u.Close()
		}
	}
	if c.ctl != nil {
		c.ctl.ws.Close()
	}
	if c.data != nil {
		c.data.ws.Close()
	}
	if c.flvWS != nil {
		c.flvWS.ws.Close()
	}
	if c.httpConn != nil {
		c.httpConn.Close()
	}
}

// ---------------------------------------------------------------- streams

type wgen struct {
	st    *media.Stream
	rec   *rtspc.Client // nil: fed directly
	ended bool
	seq   uint16
	ts    uint32
}

func (g *wgen) publish(data []byte) error {
	if g.rec != nil {
		return g.rec.WriteFrame(0, data)
	}
	return g.st.WriteRtpPacket(rtppack.ToIpchub(0, data))
}

var wireMarker uint64

// packet builds one video packet (single NAL unit, ~700 bytes) carrying a unique marker.
func (g *wgen) packet(h265 bool, key bool) (data, marker []byte) {
	hl := 1
	if h265 {
		hl = 2
	}
	nal := make([]byte, hl+700)
	switch {
	case !h265 && key:
		nal[0] = 0x65
	case !h265:
		nal[0] = 0x41
	case key:
		nal[0], nal[1] = esgen.H265IdrWRadl<<1, 1
	default:
		nal[0], nal[1] = esgen.H265TrailR<<1, 1
	}
	m := atomic.AddUint64(&wireMarker, 1)
	for i := hl; i < len(nal); i++ {
		nal[i] = 0x81 + byte(i%111)
	}
	for i := 0; i < 8; i++ {
		nal[hl+i] = 0x80 | byte(m>>(7*uint(7-i)))&0x7f
	}
	copy(nal[hl+8:], []byte{0xc3, 0xa5, 0x96, 0xf1})
	g.seq++
	g.ts += 3000
	pk := rtppack.Pkt{PT: 96, Marker: true, Seq: g.seq, TS: g.ts, SSRC: 0x5eed, Payload: nal}
	return pk.Marshal(), nal[hl : hl+12]
}

// ---------------------------------------------------------------- one case

type wworld struct {
	t       evid.TB
	s       *srv.Server
	pl      *wplan
	path    string
	sdp     string
	gens    []*wgen
	clients []*wclient
	log     []string

	endsWithMixedAudience int
	stopsWithOthers       int
	portTaken             bool // a multicast member was left out for want of a local socket
}

func (w *wworld) detail(extra map[string]any) map[string]any {
	streams, consumers := srv.Streams()
	g, sample := wireGoroutines()
	m := map[string]any{"plan": w.pl, "path": w.path, "history": w.log,
		"counters":   map[string]any{"rtsp_conns": srv.RtspConns(), "flv_conns": srv.FlvConns(), "wsp_conns": srv.WspConns(), "streams": streams, "consumers": consumers},
		"goroutines": g, "goroutine_sample": sample}
	for k, v := range extra {
		m[k] = v
	}
	return m
}

func (w *wworld) note(format string, a ...any) { w.log = append(w.log, fmt.Sprintf(format, a...)) }

func (w *wworld) cur() *wgen { // the registered stream, nil when the path is free
	st := media.Get(w.path)
	for _, g := range w.gens {
		if g.st == st && st != nil && !g.ended {
			return g
		}
	}
	return nil
}

func (w *wworld) newGen(kind string) *wgen {
	g := &wgen{seq: uint16(1000 * (len(w.gens) + 1)), ts: 90000}
	if kind == "direct" {
		g.st = srv.PublishStream(w.path, w.sdp)
	} else {
		wireSafeMulticastPorts()
		rc, err := rtspc.Dial(w.s.Addr(), wireBound())
		if err != nil {
			w.t.Fatalf("machinery: publisher dial: %v", err)
		}
		g.rec = rc
		if _, err := rc.Record(w.s.RTSP(w.path), w.sdp); err != nil {
			w.t.Fatalf("machinery: RECORD dialogue: %v", err)
		}
		g.st = media.Get(w.path)
	}
	if g.st == nil {
		w.t.Fatalf("machinery: stream %s not registered", w.path)
	}
	w.gens = append(w.gens, g)
	w.note("stream #%d published (%s)", len(w.gens)-1, kind)
	return g
}

func (w *wworld) genIndex(g *wgen) int {
	for i, x := range w.gens {
		if x == g {
			return i
		}
	}
	return -1
}

// want is the reference consumer count of a stream generation.
func (w *wworld) want(gi int) int {
	n, members := 0, 0
	for _, c := range w.clients {
		if c.attached && !c.stopped && c.gen == gi && !w.gens[gi].ended {
			if c.kind == "mcast" {
				members++ // the members of a stream share one consumer: its multicast proxy
			} else {
				n++
			}
		}
	}
	if members > 0 {
		n++
	}
	return n
}

func (w *wworld) members(gi int) int {
	n := 0
	for _, c := range w.alive(gi) {
		if c.kind == "mcast" {
			n++
		}
	}
	return n
}

// proxyListed reports whether the stream lists its multicast proxy as a consumer.
func proxyListed(st *media.Stream) bool {
	for _, ci := range st.Info(true).Consumptions {
		if strings.Contains(ci.Extra, "rtsp-multicast") {
			return true
		}
	}
	return false
}

func (w *wworld) alive(gi int) []*wclient {
	var out []*wclient
	for _, c := range w.clients {
		if c.attached && !c.stopped && c.gen == gi && !w.gens[gi].ended {
			out = append(out, c)
		}
	}
	return out
}

func (w *wworld) checkCounts(after string) {
	for gi, g := range w.gens {
		gi, g := gi, g
		if !srv.WaitFor(wireBound(), func() bool { return g.st.ConsumerCount() == w.want(gi) }) {
			evid.Violation(w.t, "wire-consumer-count", w.detail(map[string]any{"stream": gi}), "after %s: stream #%d reports %d consumers, the reference says %d (waited %v)", after, gi, g.st.ConsumerCount(), w.want(gi), wireBound())
		}
		// the multicast proxy consumes exactly while the stream has members
		if !srv.WaitFor(wireBound(), func() bool { return proxyListed(g.st) == (w.members(gi) > 0) }) {
			evid.Violation(w.t, "wire-multicast-proxy", w.detail(map[string]any{"stream": gi}), "after %s: stream #%d has %d multicast members and lists its multicast proxy as a consumer: %v (waited %v)", after, gi, w.members(gi), proxyListed(g.st), wireBound())
		}
	}
}

// stillOpen: nobody who should be attached has lost its connection.
func (w *wworld) stillOpen(after string) {
	for _, c := range w.clients {
		if c.attached && !c.stopped && !w.gens[c.gen].ended {
			if how := c.closed(); how != "" {
				evid.Violation(w.t, "wire-closed-wrongly", w.detail(map[string]any{"client": c.id}), "after %s: %s lost its connection (%s) although it was not stopped and its stream is live", after, c, how)
			}
			if hc := c.halfClosed(); c.kind == "wsp" && (c.ctl.ended() != nil || c.data.ended() != nil) {
				evid.Violation(w.t, "wire-closed-wrongly", w.detail(map[string]any{"client": c.id}), "after %s: %s lost one of its channels (%s) although it was not stopped and its stream is live", after, c, hc)
			}
		}
	}
}

// flows publishes a marker and fillers on stream gi until every client that is
// attached to it has received the marker.
func (w *wworld) flows(gi int, after string) {
	g := w.gens[gi]
	cl := w.alive(gi)
	if len(cl) == 0 {
		return
	}
	data, marker := g.packet(w.pl.H265, true)
	if err := g.publish(data); err != nil {
		evid.Violation(w.t, "wire-publish-refused", w.detail(nil), "after %s: publishing on live stream #%d failed: %v", after, gi, err)
	}
	deadline := time.Now().Add(wireBound())
	for {
		all := true
		var missing []string
		for _, c := range cl {
			if !c.has(marker) {
				all = false
				missing = append(missing, c.String())
			}
		}
		if all {
			return
		}
		if time.Now().After(deadline) {
			evid.Violation(w.t, "wire-others-disturbed", w.detail(map[string]any{"missing": missing}), "after %s: a packet published on stream #%d (and the fillers behind it) did not reach %v within %v", after, gi, missing, wireBound())
		}
		f, _ := g.packet(w.pl.H265, false)
		g.publish(f)
		time.Sleep(2 * time.Millisecond)
	}
}

func (w *wworld) attach(kind string, mustWork bool) *wclient {
	c := &wclient{id: len(w.clients), kind: kind, audio: w.pl.Audio && len(w.clients)%2 == 0, gen: -1}
	w.clients = append(w.clients, c)
	g := w.cur()
	if g != nil {
		c.gen = w.genIndex(g)
	}
	err := c.attach(w.s, w.path)
	var je *rtspc.MulticastJoinError
	if errors.As(err, &je) {
		// the server names group and port; whether this host can give the member a socket
		// there is neither ipchub's nor the property's business: the member is left out
		evid.Class(wireClassPortTaken)
		w.portTaken = true
		w.note("%s: left out, %v", c, err)
		c.teardown(w.s, w.path)
		c.disconnect()
		return c
	}
	if err != nil {
		if mustWork {
			w.t.Fatalf("machinery: %s could not attach: %v", c, err)
		}
		w.note("%s: attach refused / failed: %v", c, err)
		c.disconnect()
		return c
	}
	c.attached = true
	w.note("%s attached", c)
	return c
}

func (w *wworld) end(g *wgen, how string) {
	gi := w.genIndex(g)
	switch how {
	case "delete", "shutdown":
		if media.Get(w.path) != g.st {
			how = "publisher" // the API and the shutdown address the registered stream only
		}
	}
	w.note("stream #%d ends by %s", gi, how)
	switch how {
	case "delete":
		req, _ := http.NewRequest(http.MethodDelete, w.s.HTTP()+"/api/v1/streams"+w.path+"?token="+wireAdminToken(w.t, w.s), nil)
		tr := &http.Transport{DisableKeepAlives: true}
		resp, err := (&http.Client{Transport: tr, Timeout: wireBound()}).Do(req)
		if err != nil {
			w.t.Fatalf("machinery: DELETE: %v", err)
		}
		io.Copy(io.Discard, resp.Body)
		resp.Body.Close()
		if resp.StatusCode != 200 {
			evid.Violation(w.t, "wire-delete-refused", w.detail(nil), "DELETE /api/v1/streams%s with an administrator's token answered %d", w.path, resp.StatusCode)
		}
	case "shutdown":
		srv.Shutdown() // Service.Close(): jobs cancelled, every registered stream unregistered and closed, tables flushed
	default:
		if g.rec != nil {
			g.rec.Close()
		} else {
			srv.Unpublish(g.st)
		}
	}
	g.ended = true
}

var wireToken string

// wireAdminToken logs an administrator in once (the management API asks for a
// token whether or not stream access is authenticated).
func wireAdminToken(t evid.TB, s *srv.Server) string {
	if wireToken != "" {
		return wireToken
	}
	srv.ResetUsers()
	if err := srv.SaveUser("c03wire", "c03wire-pw", true, "*", "*"); err != nil {
		t.Fatalf("machinery: cannot create the administrator: %v", err)
	}
	resp, err := http.Post(s.HTTP()+"/api/v1/login", "application/json", strings.NewReader(`{"username":"c03wire","password":"c03wire-pw"}`))
	if err != nil {
		t.Fatalf("machinery: login: %v", err)
	}
	defer resp.Body.Close()
	var tp struct {
		A string `json:"access_token"`
	}
	b, _ := io.ReadAll(resp.Body)
	if resp.StatusCode != 200 || json.Unmarshal(b, &tp) != nil || tp.A == "" {
		t.Fatalf("machinery: login answered %d %s", resp.StatusCode, b)
	}
	wireToken = tp.A
	return wireToken
}

// released: every client of an ended stream observes the end of its connection.
func (w *wworld) released(gi int, how string) {
	for _, c := range w.clients {
		if !c.attached || c.gen != gi || c.stopped {
			continue
		}
		c := c
		if !srv.WaitFor(wireBound(), func() bool { return c.closed() != "" }) {
			evid.Violation(w.t, "wire-not-released", w.detail(map[string]any{"client": c.id, "half": c.halfClosed()}),
				"stream #%d ended (%s) but %s still has its connection open after %v %s", gi, how, c, wireBound(), c.halfClosed())
		}
		c.closedBy = "stream end"
	}
	g := w.gens[gi]
	if !srv.WaitFor(wireBound(), func() bool { return g.st.ConsumerCount() == 0 }) {
		evid.Violation(w.t, "wire-consumer-count", w.detail(map[string]any{"stream": gi}), "stream #%d ended (%s) and still reports %d consumers after %v", gi, how, g.st.ConsumerCount(), wireBound())
	}
	if !srv.WaitFor(wireBound(), func() bool { return media.Get(w.path) != g.st }) {
		evid.Violation(w.t, "wire-stream-still-registered", w.detail(map[string]any{"stream": gi}), "stream #%d ended (%s) but the path still resolves to it after %v", gi, how, wireBound())
	}
}

func runWireCase(t evid.TB, pl *wplan) {
	s := srv.Start(srv.Options{})
	s.SetCacheGop(len(pl.Ops)%2 == 0)
	// baseline once earlier cases have wound down
	var base map[string]int
	srv.WaitFor(wireBound(), func() bool {
		base, _ = wireGoroutines()
		for _, v := range base {
			if v != 0 {
				return false
			}
		}
		return true
	})
	rtsp0, flv0, wsp0 := srv.RtspConns(), srv.FlvConns(), srv.WspConns()
	streams0, consumers0 := srv.Streams()
	cdc := esgen.H264
	if pl.H265 {
		cdc = esgen.H265
	}
	w := &wworld{t: t, s: s, pl: pl, path: fmt.Sprintf("/c03w/s%d", atomic.AddUint64(&wireCases, 1)), sdp: mediah.SDP(cdc, pl.Audio)}
	defer func() { // also after a failed case: leave nothing behind
		for _, c := range w.clients {
			c.disconnect()
		}
		for _, g := range w.gens {
			if g.rec != nil {
				g.rec.Close()
			}
			srv.Unpublish(g.st)
		}
	}()
	w.newGen(pl.Publisher)

	for _, o := range pl.Ops {
		evid.Eval(1)
		switch o.Op {
		case "attach":
			if w.cur() == nil {
				continue
			}
			w.attach(o.Kind, true)
			w.checkCounts("attach")
		case "stop":
			var c *wclient
			if o.Who < len(w.clients) {
				c = w.clients[o.Who]
			}
			if c == nil || !c.attached || c.stopped || w.gens[c.gen].ended {
				continue
			}
			w.stop(c, o.How)
		case "publish":
			for gi, g := range w.gens {
				if g.ended {
					continue
				}
				for i := 0; i < o.N; i++ {
					d, _ := g.packet(pl.H265, i == 0)
					g.publish(d)
				}
				w.flows(gi, "publishing")
			}
			w.stillOpen("publishing")
		case "replace":
			old := w.cur()
			if old == nil {
				continue
			}
			oi := w.genIndex(old)
			had := w.want(oi)
			w.newGen("record")
			if had == 0 {
				// a retired stream without consumers is closed at once
				w.note("stream #%d had no clients: retired and closed at once", oi)
				old.ended = true
				if old.rec != nil {
					old.rec.Close()
				}
			}
			w.checkCounts("replacement")
			w.stillOpen("replacement")
			if had > 0 {
				w.flows(oi, "replacement (retired stream)")
			}
		case "end", "end+attach":
			var g *wgen
			if o.Old {
				for _, x := range w.gens {
					if !x.ended {
						g = x
						break
					}
				}
			} else if g = w.cur(); g == nil {
				for i := len(w.gens) - 1; i >= 0; i-- {
					if !w.gens[i].ended {
						g = w.gens[i]
						break
					}
				}
			}
			if g == nil {
				continue
			}
			gi := w.genIndex(g)
			kinds := map[string]bool{}
			for _, c := range w.alive(gi) {
				kinds[c.kind] = true
			}
			var racer *wclient
			if o.Op == "end+attach" && w.cur() == g {
				done := make(chan struct{})
				go func() {
					defer close(done)
					racer = w.attachRacing(o.Kind, gi)
				}()
				for i := 0; i < o.Spin; i++ {
					time.Sleep(20 * time.Microsecond)
				}
				w.end(g, o.How)
				<-done
				if racer.attached {
					evid.Class("wire: a client completed its attach while the stream was ending")
				} else {
					evid.Class("wire: a client attaching while the stream was ending was refused")
				}
			} else {
				w.end(g, o.How)
			}
			w.released(gi, o.How)
			w.checkCounts("the end of stream #" + fmt.Sprint(gi))
			w.stillOpen("the end of stream #" + fmt.Sprint(gi))
			for oi, og := range w.gens {
				if !og.ended {
					w.flows(oi, "the end of stream #"+fmt.Sprint(gi))
				}
			}
			if len(kinds) >= 2 {
				w.endsWithMixedAudience++
			}
		case "attach-after-end":
			if w.cur() != nil {
				continue
			}
			c := w.attach(o.Kind, false)
			if c.attached {
				evid.Violation(t, "wire-attached-to-nothing", w.detail(map[string]any{"client": c.id}), "%s completed its attach although no stream is published on the path", c)
			}
			evid.Class("wire: attach after the stream ended is refused")
		}
	}
	// everything ended; whatever is left open is closed by the script, then the books must balance
	for _, c := range w.clients {
		c.disconnect()
	}
	for _, g := range w.gens {
		if g.rec != nil {
			g.rec.Close()
		}
		if !g.ended {
			srv.Unpublish(g.st)
			g.ended = true
		}
	}
	if !srv.WaitFor(wireBound(), func() bool {
		return srv.RtspConns() == rtsp0 && srv.FlvConns() == flv0 && srv.WspConns() == wsp0
	}) {
		evid.Violation(t, "wire-connection-counters", w.detail(map[string]any{"before": []int64{rtsp0, flv0, wsp0}}),
			"after the case the active-connection counters are rtsp=%d flv=%d wsp=%d, before it they were rtsp=%d flv=%d wsp=%d (waited %v)", srv.RtspConns(), srv.FlvConns(), srv.WspConns(), rtsp0, flv0, wsp0, wireBound())
	}
	if !srv.WaitFor(wireBound(), func() bool { a, b := srv.Streams(); return a == streams0 && b == consumers0 }) {
		a, b := srv.Streams()
		evid.Violation(t, "wire-registry-left", w.detail(nil), "after the case media.Count() = (%d, %d), before it (%d, %d)", a, b, streams0, consumers0)
	}
	var left map[string]int
	if !srv.WaitFor(wireBound(), func() bool {
		left, _ = wireGoroutines()
		for k, v := range left {
			if v > base[k] {
				return false
			}
		}
		return true
	}) {
		evid.Violation(t, "wire-goroutine-leak", w.detail(map[string]any{"baseline": base}), "after the case these goroutines remain: %v (baseline %v)", left, base)
	}
	// classes
	kinds := map[string]bool{}
	for _, c := range w.clients {
		if c.attached {
			kinds[c.kind] = true
			evid.Class("wire: client over " + c.kind)
		}
	}
	evid.Class("wire: publisher " + pl.Publisher)
	for gi := range w.gens {
		mc := 0
		for _, c := range w.clients {
			if c.attached && c.gen == gi && c.kind == "mcast" {
				mc++
			}
		}
		if mc >= 2 {
			evid.Class("wire: a stream had >=2 multicast members")
		}
	}
	for _, o := range pl.Ops {
		switch o.Op {
		case "end", "end+attach":
			evid.Class("wire: op " + o.Op + " by " + o.How)
		case "stop":
			evid.Class("wire: op stop by " + o.How)
		default:
			evid.Class("wire: op " + o.Op)
		}
	}
	if w.endsWithMixedAudience > 0 {
		evid.Class("wire: stream end with >=2 clients of different protocols attached")
	}
	if w.stopsWithOthers > 0 {
		evid.Class("wire: one client stopped while others keep receiving")
	}
	if w.endsWithMixedAudience > 0 || w.stopsWithOthers > 0 {
		evid.Nontrivial(evid.FP("wire", fmt.Sprint(*pl)))
		if evid.WantSample("wire") {
			evid.Sample("wire", map[string]any{"plan": pl, "history": w.log})
		}
	}
}

// stop ends one client (TEARDOWN / disconnect) and judges that it alone is released.
func (w *wworld) stop(c *wclient, how string) {
	others := 0
	for _, x := range w.alive(c.gen) {
		if x != c {
			others++
		}
	}
	if how == "teardown" && (c.kind == "httpflv" || c.kind == "wsflv") {
		how = "disconnect"
	}
	w.note("%s stopped by %s", c, how)
	c.stopped = true
	if how == "teardown" {
		c.teardown(w.s, w.path)
		if !srv.WaitFor(wireBound(), func() bool { return c.closed() != "" }) {
			evid.Violation(w.t, "wire-not-released", w.detail(map[string]any{"client": c.id}), "%s sent TEARDOWN and its connection is still open after %v %s", c, wireBound(), c.halfClosed())
		}
	}
	c.disconnect()
	w.checkCounts("stopping " + c.String())
	w.stillOpen("stopping " + c.String())
	w.flows(c.gen, "stopping "+c.String())
	if others > 0 {
		w.stopsWithOthers++
	}
}

// attachRacing attaches while the stream may be ending: any outcome of the
// dialogue is fine; a client that completed it belongs to stream gi.
func (w *wworld) attachRacing(kind string, gi int) *wclient {
	c := &wclient{id: len(w.clients), kind: kind, gen: gi}
	w.clients = append(w.clients, c)
	if err := c.attach(w.s, w.path); err != nil {
		c.disconnect()
		return c
	}
	c.attached = true
	return c
}

func TestWireRelease(t *testing.T) {
	evid.Rule("wire (layer C): rapid histories over one path of the in-process server: attach over {RTSP/TCP, RTSP/UDP, ws-rtsp, WSP, HTTP-FLV, ws-flv}, stop(i) by TEARDOWN | disconnect, publish, replacement by a second RECORD session, stream end by publisher disconnect / srv.Unpublish | DELETE /api/v1/streams/{path}, stream end racing an attach, attach after the end; publisher = stream fed directly | RTSP RECORD session. Oracle: clients of an ended stream see their connection closed within the bound, nobody else does, consumer counts follow the reference, the others keep receiving, and connection counters / media.Count() / goroutine profile return to their values before the case. Non-trivial = a stream end with >=2 clients of different protocols attached, or a stop of one client while others keep receiving")
	evid.Assume("wire: 'promptly' = within 5 s (quick) / 10 s (thorough) on loopback; a miss is reported with the server's counters and a goroutine summary")
	evid.Checks(200, 3000)
	rapid.Check(t, func(t *rapid.T) {
		pl := genWirePlan(t)
		runWireCase(t, pl)
	})
}

// TestWireQuietDisconnect is the minimal witness for "stopping a single consumer
// releases it" when nothing is being published: on a silent stream the server can
// learn of a disconnect only by watching the connection, not from a failing
// write. One round per transport, no generator.
func TestWireQuietDisconnect(t *testing.T) {
	s := srv.Start(srv.Options{})
	for _, kind := range wireKinds {
		path := fmt.Sprintf("/c03w/q%d", atomic.AddUint64(&wireCases, 1))
		var st *media.Stream
		g := &wgen{seq: 1, ts: 90000}
		if kind == "mcast" { // a multicast proxy exists only on a RECORD-published stream
			if !wireMulticast() {
				continue
			}
			wireSafeMulticastPorts()
			rc, err := rtspc.Dial(s.Addr(), wireBound())
			if err != nil {
				t.Fatalf("machinery: publisher dial: %v", err)
			}
			defer rc.Close()
			if _, err := rc.Record(s.RTSP(path), mediah.SDP(esgen.H264, false)); err != nil {
				t.Fatalf("machinery: RECORD dialogue: %v", err)
			}
			g.rec, st = rc, media.Get(path)
		} else {
			st = srv.PublishStream(path, mediah.SDP(esgen.H264, false))
		}
		g.st = st
		rtsp0, flv0, wsp0 := srv.RtspConns(), srv.FlvConns(), srv.WspConns()
		c := &wclient{kind: kind}
		if err := c.attach(s, path); err != nil {
			c.disconnect()
			srv.Unpublish(st)
			var je *rtspc.MulticastJoinError
			if errors.As(err, &je) {
				evid.Class(wireClassPortTaken)
				continue
			}
			t.Fatalf("machinery: %s attach: %v", kind, err)
		}
		// some media first, so that the client has seen the stream running
		data, marker := g.packet(false, true)
		g.publish(data)
		srv.WaitFor(wireBound(), func() bool {
			if c.has(marker) {
				return true
			}
			f, _ := g.packet(false, false)
			g.publish(f)
			time.Sleep(2 * time.Millisecond)
			return false
		})
		if !c.has(marker) {
			srv.Unpublish(st)
			t.Fatalf("machinery: %s received nothing", kind)
		}
		// silence, then the client goes away
		c.disconnect()
		evid.Eval(1)
		ok := srv.WaitFor(wireBound(), func() bool {
			return st.ConsumerCount() == 0 && srv.RtspConns() == rtsp0 && srv.FlvConns() == flv0 && srv.WspConns() == wsp0
		})
		cc, r, f, w := st.ConsumerCount(), srv.RtspConns(), srv.FlvConns(), srv.WspConns()
		srv.Unpublish(st)
		evid.Class("wire witness: disconnect on a silent stream over " + kind)
		if !ok {
			g, sample := wireGoroutines()
			evid.Violation(t, "wire-quiet-disconnect", map[string]any{"transport": kind, "goroutines": g, "goroutine_sample": sample},
				"%s client disconnected from a silent stream: after %v the stream still reports %d consumers; counters rtsp=%d (before %d) flv=%d (before %d) wsp=%d (before %d)", kind, wireBound(), cc, r, rtsp0, f, flv0, w, wsp0)
		}
	}
}

// TestWireEndClosesBothWspChannels is the minimal witness for the WSP adapter:
// when the stream ends, the session's control AND data WebSocket must be closed.
// No generator: rounds of attach / end on a silent stream.
func TestWireEndClosesBothWspChannels(t *testing.T) {
	s := srv.Start(srv.Options{})
	rounds := 150
	if evid.Thorough() {
		rounds = 1000
	}
	for r := 0; r < rounds; r++ {
		path := fmt.Sprintf("/c03w/e%d", atomic.AddUint64(&wireCases, 1))
		st := srv.PublishStream(path, mediah.SDP(esgen.H264, false))
		c := &wclient{kind: "wsp"}
		if err := c.attach(s, path); err != nil {
			srv.Unpublish(st)
			t.Fatalf("machinery: wsp attach: %v", err)
		}
		srv.Unpublish(st)
		evid.Eval(1)
		ok := srv.WaitFor(wireBound(), func() bool { return c.closed() != "" })
		half := c.halfClosed()
		c.disconnect()
		if !ok {
			evid.Violation(t, "wire-wsp-half-closed", map[string]any{"round": r}, "round %d: the stream ended and after %v the WSP client has: %s", r, wireBound(), half)
		}
	}
	evid.Class("wire witness: stream end closes both WSP channels")
}

// ---------------------------------------------------------------- a player that dies inside PLAY

// rawPlayer is a minimal RTSP player over a connection the test owns, so that it
// can be reset (SO_LINGER 0 + close: the peer gets an RST and its next write
// fails) at a chosen moment. Responses are parsed with rtspc.ParseItem.
type rawPlayer struct {
	kind string // tcp | udp | ws
	tcp  *net.TCPConn
	ws   *websocket.Conn
	buf  []byte
	cseq int
	sess string
	udp  []*net.UDPConn
}

func dialRawPlayer(s *srv.Server, kind, path string) (*rawPlayer, error) {
	p := &rawPlayer{kind: kind}
	if kind == "ws" {
		d := websocket.Dialer{Subprotocols: []string{"rtsp"}, HandshakeTimeout: wireBound(),
			NetDial: func(network, addr string) (net.Conn, error) {
				c, err := net.DialTimeout(network, addr, wireBound())
				if err == nil {
					p.tcp = c.(*net.TCPConn)
				}
				return c, err
			}}
		ws, _, err := d.Dial(s.WS(path), nil)
		if err != nil {
			return nil, err
		}
		p.ws = ws
		return p, nil
	}
	c, err := net.DialTimeout("tcp", s.Addr(), wireBound())
	if err != nil {
		return nil, err
	}
	p.tcp = c.(*net.TCPConn)
	return p, nil
}

func (p *rawPlayer) send(method, url string, hdr map[string]string) error {
	p.cseq++
	req := fmt.Sprintf("%s %s RTSP/1.0\r\nCSeq: %d\r\nUser-Agent: verif-raw\r\n", method, url, p.cseq)
	if p.sess != "" {
		req += "Session: " + p.sess + "\r\n"
	}
	for k, v := range hdr {
		req += k + ": " + v + "\r\n"
	}
	req += "\r\n"
	if p.ws != nil {
		p.ws.SetWriteDeadline(time.Now().Add(wireBound()))
		return p.ws.WriteMessage(websocket.BinaryMessage, []byte(req))
	}
	p.tcp.SetWriteDeadline(time.Now().Add(wireBound()))
	_, err := p.tcp.Write([]byte(req))
	return err
}

func (p *rawPlayer) do(method, url string, hdr map[string]string) (*rtspc.Response, error) {
	if err := p.send(method, url, hdr); err != nil {
		return nil, err
	}
	for {
		if p.ws != nil {
			p.ws.SetReadDeadline(time.Now().Add(wireBound()))
			_, m, err := p.ws.ReadMessage()
			if err != nil {
				return nil, err
			}
			it, n, err := rtspc.ParseItem(m)
			if err != nil || n != len(m) {
				return nil, fmt.Errorf("ws message is not one item: %v", err)
			}
			if it.Response == nil {
				continue
			}
			return p.note(method, it.Response)
		}
		it, n, err := rtspc.ParseItem(p.buf)
		if err != nil {
			return nil, err
		}
		if n > 0 {
			p.buf = p.buf[n:]
			if it.Response == nil {
				continue
			}
			return p.note(method, it.Response)
		}
		tmp := make([]byte, 8192)
		p.tcp.SetReadDeadline(time.Now().Add(wireBound()))
		k, err := p.tcp.Read(tmp)
		if err != nil {
			return nil, err
		}
		p.buf = append(p.buf, tmp[:k]...)
	}
}

func (p *rawPlayer) note(method string, r *rtspc.Response) (*rtspc.Response, error) {
	if id := r.SessionID(); id != "" {
		p.sess = id
	}
	if r.Status != 200 {
		return r, fmt.Errorf("%s answered %d %s", method, r.Status, r.Reason)
	}
	return r, nil
}

// reset drops the connection abruptly: the server receives an RST.
func (p *rawPlayer) reset() {
	p.tcp.SetLinger(0)
	p.tcp.Close()
}

func (p *rawPlayer) closeUDP() {
	for _, u := range p.udp {
		u.Close()
	}
}

// serverSideState returns the st column of /proc/self/net/tcp for the server's
// end of a loopback connection ("" = no such row).
func serverSideState(serverPort, clientPort int) string {
	b, err := os.ReadFile("/proc/self/net/tcp")
	if err != nil {
		return "?"
	}
	want := fmt.Sprintf("0100007F:%04X 0100007F:%04X", serverPort, clientPort)
	for _, l := range strings.Split(string(b), "\n") {
		if i := strings.Index(l, want); i >= 0 {
			f := strings.Fields(l[i+len(want):])
			if len(f) > 0 {
				return f[0]
			}
		}
	}
	return ""
}

// udpSocketsOfProcess counts the UDP sockets this process holds (its fds whose
// socket inode is listed in /proc/self/net/udp or udp6); -1 when /proc is not usable.
func udpSocketsOfProcess() int {
	inodes := map[string]bool{}
	for _, f := range []string{"/proc/self/net/udp", "/proc/self/net/udp6"} {
		b, err := os.ReadFile(f)
		if err != nil {
			continue
		}
		for i, l := range strings.Split(string(b), "\n") {
			fs := strings.Fields(l)
			if i == 0 || len(fs) < 10 {
				continue
			}
			inodes[fs[9]] = true
		}
	}
	ents, err := os.ReadDir("/proc/self/fd")
	if err != nil {
		return -1
	}
	n := 0
	for _, e := range ents {
		l, err := os.Readlink("/proc/self/fd/" + e.Name())
		if err == nil && strings.HasPrefix(l, "socket:[") && inodes[strings.TrimSuffix(l[len("socket:["):], "]")] {
			n++
		}
	}
	return n
}

type diePlan struct {
	Kind     string `json:"kind"`    // tcp | udp | ws: the player that dies
	Point    string `json:"point"`   // join.registered | join.snapshotted
	Active   bool   `json:"active"`  // the publisher keeps sending while PLAY is handled
	Healthy  string `json:"healthy"` // "" or the transport of a second player attached throughout
	H265     bool   `json:"h265"`
	Audio    bool   `json:"audio"`
	CacheGop bool   `json:"cache_gop"`
}

type dieSnapshot struct {
	Consumers  int            `json:"consumers"`
	RtspConns  int64          `json:"rtsp_conns"`
	UDPSockets int            `json:"udp_sockets"`
	Goroutines map[string]int `json:"goroutines"`
}

func takeDieSnapshot(st *media.Stream) dieSnapshot {
	g, _ := wireGoroutines()
	d := dieSnapshot{Consumers: -1, RtspConns: srv.RtspConns(), UDPSockets: udpSocketsOfProcess(), Goroutines: map[string]int{}}
	if st != nil {
		d.Consumers = st.ConsumerCount()
	}
	for _, k := range []string{"media.(*consumption).consume", "service/rtsp.(*Session).process"} {
		d.Goroutines[k] = g[k]
	}
	return d
}

func (a dieSnapshot) equal(b dieSnapshot) bool {
	if a.Consumers != b.Consumers || a.RtspConns != b.RtspConns || a.UDPSockets != b.UDPSockets {
		return false
	}
	for k, v := range a.Goroutines {
		if b.Goroutines[k] != v {
			return false
		}
	}
	return true
}

// dieInsidePlay runs one round: a player sets itself up, and while the server
// handles its PLAY — at the schedule point p.Point of the join of its consumer,
// i.e. after fix 0f6ec8b between the registration and the PLAY response — the
// player's connection is reset, so that the response cannot be written. All that
// the session held must be released: its consumer, its connection slot, its
// goroutines, and for UDP the server's sending socket; once more after the stream
// has ended. A second, healthy player must keep receiving.
func dieInsidePlay(t evid.TB, p diePlan) {
	s := srv.Start(srv.Options{})
	s.SetCacheGop(p.CacheGop)
	srv.WaitFor(wireBound(), func() bool {
		g, _ := wireGoroutines()
		for _, v := range g {
			if v != 0 {
				return false
			}
		}
		return true
	})
	cdc := esgen.H264
	if p.H265 {
		cdc = esgen.H265
	}
	path := fmt.Sprintf("/c03w/d%d", atomic.AddUint64(&wireCases, 1))
	before := takeDieSnapshot(nil)
	streams0, _ := srv.Streams()
	st := srv.PublishStream(path, mediah.SDP(cdc, p.Audio))
	g := &wgen{st: st, seq: 7, ts: 90000}
	ended := false
	defer func() {
		media.VerifSetSched(nil)
		if !ended {
			srv.Unpublish(st)
		}
	}()
	receives := func(c *wclient) bool { // the marker and fillers behind it, bounded
		data, marker := g.packet(p.H265, true)
		g.publish(data)
		return srv.WaitFor(wireBound(), func() bool {
			if c.has(marker) {
				return true
			}
			f, _ := g.packet(p.H265, false)
			g.publish(f)
			time.Sleep(2 * time.Millisecond)
			return false
		})
	}
	var healthy *wclient
	if p.Healthy != "" {
		healthy = &wclient{kind: p.Healthy, audio: p.Audio}
		if err := healthy.attach(s, path); err != nil {
			t.Fatalf("machinery: the healthy %s player could not attach: %v", p.Healthy, err)
		}
		defer healthy.disconnect()
		if !srv.WaitFor(wireBound(), func() bool { return st.ConsumerCount() == 1 }) || !receives(healthy) {
			t.Fatalf("machinery: the healthy %s player receives nothing", p.Healthy)
		}
	}
	prior := takeDieSnapshot(st)

	// the player that will die: everything up to PLAY is ordinary
	dp, err := dialRawPlayer(s, p.Kind, path)
	if err != nil {
		t.Fatalf("machinery: dial: %v", err)
	}
	defer dp.closeUDP()
	url := s.RTSP(path)
	fail := func(step string, err error) {
		dp.reset()
		t.Fatalf("machinery: dying %s player, %s: %v", p.Kind, step, err)
	}
	if _, err := dp.do("OPTIONS", url, nil); err != nil {
		fail("OPTIONS", err)
	}
	d, err := dp.do("DESCRIBE", url, map[string]string{"Accept": "application/sdp"})
	if err != nil {
		fail("DESCRIBE", err)
	}
	for tr, ctl := range rtspc.Controls(string(d.Body)) {
		th := fmt.Sprintf("RTP/AVP/TCP;unicast;interleaved=%d-%d", 2*tr, 2*tr+1)
		if p.Kind == "udp" {
			var ports [2]int
			for k := 0; k < 2; k++ {
				u, err := net.ListenUDP("udp4", &net.UDPAddr{IP: net.IPv4(127, 0, 0, 1)})
				if err != nil {
					fail("udp socket", err)
				}
				dp.udp = append(dp.udp, u)
				ports[k] = u.LocalAddr().(*net.UDPAddr).Port
			}
			th = fmt.Sprintf("RTP/AVP;unicast;client_port=%d-%d", ports[0], ports[1])
		}
		if _, err := dp.do("SETUP", rtspc.TrackURL(url, ctl.Control), map[string]string{"Transport": th}); err != nil {
			fail("SETUP", err)
		}
	}
	serverPort := 0
	if a, ok := dp.tcp.RemoteAddr().(*net.TCPAddr); ok {
		serverPort = a.Port
	}
	clientPort := dp.tcp.LocalAddr().(*net.TCPAddr).Port

	// the reset lands inside the join of this stream's next consumer
	var fired int32
	firedCh := make(chan string, 1)
	media.VerifSetSched(func(point string, obj interface{}) {
		if point != p.Point || media.VerifConsumptionStream(obj) != st || !atomic.CompareAndSwapInt32(&fired, 0, 1) {
			return
		}
		dp.reset()
		// let the server go on only when its end of the connection has seen the RST
		state := serverSideState(serverPort, clientPort)
		deadline := time.Now().Add(time.Second)
		for state == "01" && time.Now().Before(deadline) {
			time.Sleep(50 * time.Microsecond)
			state = serverSideState(serverPort, clientPort)
		}
		firedCh <- state
	})
	stop := make(chan struct{})
	var pubDone sync.WaitGroup
	if p.Active {
		pubDone.Add(1)
		go func() {
			defer pubDone.Done()
			for i := 0; ; i++ {
				select {
				case <-stop:
					return
				default:
				}
				data, _ := g.packet(p.H265, i%10 == 0)
				g.publish(data)
				time.Sleep(200 * time.Microsecond)
			}
		}()
	}
	if err := dp.send("PLAY", url, map[string]string{"Range": "npt=0.000-"}); err != nil {
		close(stop)
		pubDone.Wait()
		fail("sending PLAY", err)
	}
	var state string
	select {
	case state = <-firedCh:
	case <-time.After(wireBound()):
		close(stop)
		pubDone.Wait()
		media.VerifSetSched(nil)
		dp.reset()
		t.Fatalf("machinery: the %s player's PLAY never reached %s within %v", p.Kind, p.Point, wireBound())
	}
	media.VerifSetSched(nil)
	if state == "01" {
		evid.Class("wire die-inside-PLAY: the server's socket had not seen the reset when the join went on")
	} else {
		evid.Class("wire die-inside-PLAY: the server's socket had seen the reset before the PLAY response was written")
	}
	dp.closeUDP()

	// (1) everything the dead session held is released while the stream lives on
	var now dieSnapshot
	ok := srv.WaitFor(wireBound(), func() bool { now = takeDieSnapshot(st); return now.equal(prior) })
	close(stop)
	pubDone.Wait()
	detail := map[string]any{"plan": p, "path": path, "before_the_player": prior, "after_it_died": now, "server_socket_state_at_reset": state}
	if !ok {
		_, sample := wireGoroutines()
		detail["goroutine_sample"] = sample
		evid.Violation(t, "wire-player-died-inside-play", detail,
			"a %s player was reset at %s of its PLAY; %v later the server still holds what the session had: before the player {consumers %d, rtsp connections %d, udp sockets %d, goroutines %v}, now {consumers %d, rtsp connections %d, udp sockets %d, goroutines %v}",
			p.Kind, p.Point, wireBound(), prior.Consumers, prior.RtspConns, prior.UDPSockets, prior.Goroutines, now.Consumers, now.RtspConns, now.UDPSockets, now.Goroutines)
	}
	// (2) the bystander is untouched
	if healthy != nil {
		if how := healthy.closed(); how != "" {
			evid.Violation(t, "wire-closed-wrongly", detail, "the healthy %s player lost its connection (%s) when another player died inside PLAY", p.Healthy, how)
		}
		if !receives(healthy) {
			evid.Violation(t, "wire-others-disturbed", detail, "the healthy %s player stopped receiving after another player died inside PLAY", p.Healthy)
		}
	}
	// (3) and nothing of it outlives the stream
	srv.Unpublish(st)
	ended = true
	if healthy != nil {
		if !srv.WaitFor(wireBound(), func() bool { return healthy.closed() != "" }) {
			evid.Violation(t, "wire-not-released", detail, "the stream ended and the healthy %s player's connection is still open after %v", p.Healthy, wireBound())
		}
		healthy.disconnect()
	}
	var after dieSnapshot
	if !srv.WaitFor(wireBound(), func() bool {
		after = takeDieSnapshot(nil)
		n, _ := srv.Streams()
		return after.equal(before) && n == streams0
	}) {
		_, sample := wireGoroutines()
		detail["before_the_case"], detail["after_the_stream_ended"], detail["goroutine_sample"] = before, after, sample
		evid.Violation(t, "wire-player-died-inside-play", detail,
			"a %s player was reset at %s of its PLAY; after the stream ended the server still holds: rtsp connections %d (before the case %d), udp sockets %d (%d), goroutines %v (%v)",
			p.Kind, p.Point, after.RtspConns, before.RtspConns, after.UDPSockets, before.UDPSockets, after.Goroutines, before.Goroutines)
	}
	evid.Class(fmt.Sprintf("wire die-inside-PLAY: %s at %s, publisher active=%v, healthy bystander=%q", p.Kind, p.Point, p.Active, p.Healthy))
	evid.Nontrivial(evid.FP("wire-die", fmt.Sprint(p)))
}

// TestWirePlayerDiesInsidePlay: the window between the registration of a
// player's consumer and the writing of its PLAY response, at wire level.
// Deterministic rounds over {tcp, udp, ws} x {join.registered, join.snapshotted}
// x {silent, active publisher}, then rapid-drawn combinations with a healthy
// bystander, codec, audio track and cache_gop.
func TestWirePlayerDiesInsidePlay(t *testing.T) {
	evid.Rule("wire die-inside-PLAY: a player (RTSP/TCP, RTSP/UDP, ws-rtsp) is reset (SO_LINGER 0) at the schedule point join.registered | join.snapshotted of its own consumer's join while the server handles its PLAY, so that the PLAY response cannot be written; silent | actively publishing stream, optional healthy bystander; afterwards consumer count, RTSP connection counter, session / delivery goroutines and the process's UDP sockets must be back, before and after the stream ends")
	if udpSocketsOfProcess() < 0 {
		evid.Assume("wire die-inside-PLAY: /proc/self/fd is not readable here; UDP sockets are not counted")
	}
	for _, kind := range []string{"tcp", "udp", "ws"} {
		if only := os.Getenv("VERIF_DIE_KINDS"); only != "" && !strings.Contains(","+only+",", ","+kind+",") {
			continue // development aid
		}
		for _, point := range []string{"join.registered", "join.snapshotted"} {
			for _, active := range []bool{false, true} {
				evid.Eval(1)
				dieInsidePlay(t, diePlan{Kind: kind, Point: point, Active: active})
			}
		}
	}
	evid.Checks(25, 400)
	rapid.Check(t, func(t *rapid.T) {
		p := diePlan{
			Kind:     rapid.SampledFrom([]string{"tcp", "udp", "udp", "ws"}).Draw(t, "kind"),
			Point:    rapid.SampledFrom([]string{"join.registered", "join.registered", "join.snapshotted"}).Draw(t, "point"),
			Active:   rapid.Bool().Draw(t, "active"),
			Healthy:  rapid.SampledFrom([]string{"", "tcp", "udp", "ws", "wsp", "httpflv"}).Draw(t, "healthy"),
			H265:     rapid.Bool().Draw(t, "h265"),
			Audio:    rapid.Bool().Draw(t, "audio"),
			CacheGop: rapid.Bool().Draw(t, "cacheGop"),
		}
		evid.Eval(1)
		dieInsidePlay(t, p)
	})
}

// TestWireMulticastMembers is the minimal witness for the multicast proxy (one
// media consumer per RECORD-published stream, shared by all players that SETUP
// RTP/AVP;multicast): (a) of two members one leaves: the other keeps receiving
// and the proxy keeps consuming; the stream ends: every member's RTSP connection
// is closed; (b) the last member of a REPLACED stream leaves: the retired stream
// loses its proxy consumer and a player of the successor stream is not touched.
func TestWireMulticastMembers(t *testing.T) {
	if !wireMulticast() {
		evid.Class("wire: multicast unavailable - multicast-proxy members skipped")
		t.Skip("multicast unavailable on this host")
	}
	s := srv.Start(srv.Options{})
	newWorld := func() *wworld {
		pl := &wplan{Publisher: "record"}
		w := &wworld{t: t, s: s, pl: pl, path: fmt.Sprintf("/c03w/m%d", atomic.AddUint64(&wireCases, 1)), sdp: mediah.SDP(esgen.H264, false)}
		w.newGen("record")
		return w
	}
	cleanup := func(w *wworld) {
		for _, c := range w.clients {
			c.disconnect()
		}
		for _, g := range w.gens {
			if g.rec != nil {
				g.rec.Close()
			}
		}
		srv.WaitFor(wireBound(), func() bool { return media.Get(w.path) == nil })
	}
	for _, how := range []string{"teardown", "disconnect"} {
		// a witness round is abandoned when this host cannot give a member its socket
		func() { // (a) first member leaves, second stays
			w := newWorld()
			defer cleanup(w)
			evid.Eval(1)
			m1 := w.attach("mcast", true)
			w.attach("mcast", true)
			if w.portTaken {
				return
			}
			w.checkCounts("two members attached")
			w.flows(0, "two members attached")
			w.stop(m1, how) // judges: proxy still consuming, the other member open and receiving
			w.end(w.gens[0], "publisher")
			w.released(0, "publisher")
		}()
		func() { // the stream ends under two members
			w := newWorld()
			defer cleanup(w)
			evid.Eval(1)
			w.attach("mcast", true)
			w.attach("mcast", true)
			w.attach("tcp", true)
			if w.portTaken {
				return
			}
			w.flows(0, "two members and a tcp player attached")
			w.end(w.gens[0], "delete")
			w.released(0, "delete")
		}()
		func() { // (b) the last member of a replaced stream leaves
			w := newWorld()
			defer cleanup(w)
			evid.Eval(1)
			m := w.attach("mcast", true) // the proxy is consumer #1 of stream #0
			if w.portTaken {
				return
			}
			w.newGen("record")
			w.attach("tcp", true) // consumer #1 of stream #1
			w.checkCounts("replacement")
			w.flows(0, "replacement")
			w.flows(1, "replacement")
			w.stop(m, how)
		}()
	}
	evid.Class("wire witness: multicast members leave / stream ends / replaced stream")
}

// TestWireMulticastRestart is the deterministic witness for a multicast proxy
// that is stopped and started again: member A leaves (last member: the proxy
// stops its consumption), A's old delivery goroutine is held where it has just
// been woken by the stop (media schedule point consume.after-pop), member B joins
// (the proxy starts a new consumption), the old goroutine goes on and, on its
// way out, closes "its" consumer. B is not part of what ended: it must stay
// connected and keep receiving, and the stream must keep its proxy consumer.
func TestWireMulticastRestart(t *testing.T) {
	if !wireMulticast() {
		evid.Class("wire: multicast unavailable - multicast-proxy members skipped")
		t.Skip("multicast unavailable on this host")
	}
	s := srv.Start(srv.Options{})
	for _, how := range []string{"teardown", "disconnect"} {
		evid.Eval(1)
		w := &wworld{t: t, s: s, pl: &wplan{Publisher: "record"}, path: fmt.Sprintf("/c03w/r%d", atomic.AddUint64(&wireCases, 1)), sdp: mediah.SDP(esgen.H264, false)}
		g := w.newGen("record")
		a := w.attach("mcast", true)
		if w.portTaken { // this host cannot give the member its socket: no verdict from this round
			g.rec.Close()
			continue
		}
		w.checkCounts("the first member attached")
		w.flows(0, "the first member attached")
		// from now on the stream is silent: the next wake-up of the proxy's delivery
		// goroutine is the one caused by stopping it
		var armed int32 = 1
		var old atomic.Value
		release := make(chan struct{})
		heldCh := make(chan struct{}, 1)
		media.VerifSetSched(func(point string, obj interface{}) {
			if point != "consume.after-pop" || media.VerifConsumptionStream(obj) != g.st {
				return
			}
			if atomic.CompareAndSwapInt32(&armed, 1, 2) {
				old.Store(obj)
				heldCh <- struct{}{}
				<-release
			}
		})
		finish := func() {
			select {
			case <-release:
			default:
				close(release)
			}
			media.VerifSetSched(nil)
		}
		a.stopped = true
		w.note("%s stopped by %s", a, how)
		if how == "teardown" {
			a.teardown(s, w.path)
		}
		a.disconnect()
		select {
		case <-heldCh:
		case <-time.After(wireBound()):
			finish()
			t.Fatalf("machinery: the proxy's delivery goroutine was not woken within %v after the last member left", wireBound())
		}
		// the proxy has stopped (consumer count 0) while its old goroutine is still on its way out
		if !srv.WaitFor(wireBound(), func() bool { return g.st.ConsumerCount() == 0 }) {
			finish()
			evid.Violation(t, "wire-consumer-count", w.detail(nil), "the last multicast member left and the stream still reports %d consumers after %v", g.st.ConsumerCount(), wireBound())
		}
		b := w.attach("mcast", true)
		if w.portTaken {
			finish()
			g.rec.Close()
			continue
		}
		w.checkCounts("a new member joined the stopped proxy")
		w.flows(0, "a new member joined the stopped proxy")
		finish() // the old goroutine winds down now
		time.Sleep(20 * time.Millisecond)
		w.checkCounts("the old delivery goroutine of the proxy ended")
		w.stillOpen("the old delivery goroutine of the proxy ended")
		w.flows(0, "the old delivery goroutine of the proxy ended")
		_ = b
		w.end(g, "publisher")
		w.released(0, "publisher")
		for _, c := range w.clients {
			c.disconnect()
		}
		srv.WaitFor(wireBound(), func() bool { return media.Get(w.path) == nil })
	}
	evid.Class("wire witness: multicast proxy restarted while its old delivery goroutine winds down")
}
