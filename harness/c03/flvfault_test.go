package c03

import (
	"errors"
	"fmt"
	"net"
	"net/http"
	"sync"
	"testing"
	"time"

	"github.com/cnotch/ipchub/av/format/rtp"
	"github.com/cnotch/ipchub/config"
	"github.com/cnotch/ipchub/media"
	"github.com/cnotch/ipchub/network/websocket"
	flvsvc "github.com/cnotch/ipchub/service/flv"
	"github.com/cnotch/ipchub/stats"
	"github.com/cnotch/xlog"
	"verif/harness/lib/evid"
	"verif/harness/lib/mediah"
	"verif/harness/lib/rtppack"
	"verif/harness/lib/rtppack/esgen"
)

// Fault enumeration over the FLV adapters: the player's connection breaks at the
// k-th write the handler makes (k = 1 is the 13-byte FLV header, before the
// consumer is even attached; k = 2.. are the replayed headers and the media
// tags), for HTTP-FLV (service/flv.ConsumeByHTTP with a ResponseWriter whose
// k-th Write fails) and WebSocket-FLV (ConsumeByWebsocket with a Conn whose k-th
// Write fails). Whatever k: the handler returns, the stream does not count the
// player any more, and the FLV connection counter is back at exactly its prior
// value — not above, and not below (a release without a matching add).

var errPeerGone = errors.New("write: connection reset by peer")

type failingWriter struct {
	mu     sync.Mutex
	failAt int // 1-based; 0 = never
	writes int
	h      http.Header
}

func (w *failingWriter) Header() http.Header { return w.h }
func (w *failingWriter) WriteHeader(int)     {}
func (w *failingWriter) Write(p []byte) (int, error) {
	w.mu.Lock()
	defer w.mu.Unlock()
	w.writes++
	if w.failAt > 0 && w.writes >= w.failAt {
		return 0, errPeerGone
	}
	return len(p), nil
}

type failingWsConn struct {
	failingWriter
	closed chan struct{}
	once   sync.Once
}

func (c *failingWsConn) Read([]byte) (int, error) { <-c.closed; return 0, errPeerGone }
func (c *failingWsConn) Close() error             { c.once.Do(func() { close(c.closed) }); return nil }
func (c *failingWsConn) LocalAddr() net.Addr {
	return &net.TCPAddr{IP: net.IPv4(127, 0, 0, 1), Port: 1}
}
func (c *failingWsConn) RemoteAddr() net.Addr {
	return &net.TCPAddr{IP: net.IPv4(127, 0, 0, 1), Port: 2}
}
func (c *failingWsConn) SetDeadline(time.Time) error      { return nil }
func (c *failingWsConn) SetReadDeadline(time.Time) error  { return nil }
func (c *failingWsConn) SetWriteDeadline(time.Time) error { return nil }
func (c *failingWsConn) Subprotocol() string              { return "" }
func (c *failingWsConn) TextTransport() websocket.Conn    { return c }
func (c *failingWsConn) Path() string                     { return "/c03/flvfault" }
func (c *failingWsConn) Username() string                 { return "" }

func TestFlvPlayerConnectionBreaksAtEveryWrite(t *testing.T) {
	config.VerifSet(":0", false, true, "", 5)
	maxK := 8
	if evid.Thorough() {
		maxK = 40
	}
	n := 0
	for _, transport := range []string{"http-flv", "ws-flv"} {
		for _, cdc := range []esgen.Codec{esgen.H264, esgen.H265} {
			for k := 1; k <= maxK; k++ {
				n++
				evid.Eval(1)
				path := fmt.Sprintf("/c03/flvfault/%d", n)
				s := media.NewStream(path, mediah.SDP(cdc, true))
				media.Regist(s)
				base := stats.FlvConns.GetSample().Active
				baseCons := s.ConsumerCount()
				done := make(chan struct{})
				var wrote func() int
				go func() {
					defer close(done)
					if transport == "http-flv" {
						w := &failingWriter{failAt: k, h: http.Header{}}
						wrote = func() int { w.mu.Lock(); defer w.mu.Unlock(); return w.writes }
						flvsvc.ConsumeByHTTP(xlog.L(), path, "127.0.0.1:2", w)
					} else {
						c := &failingWsConn{failingWriter: failingWriter{failAt: k, h: http.Header{}}, closed: make(chan struct{})}
						wrote = func() int { c.mu.Lock(); defer c.mu.Unlock(); return c.writes }
						flvsvc.ConsumeByWebsocket(xlog.L(), path, "127.0.0.1:2", c)
					}
				}()
				// media keeps flowing until the handler has made its k-th write (or has returned)
				seq := 0
				deadline := time.Now().Add(20 * time.Second)
			feed:
				for time.Now().Before(deadline) {
					select {
					case <-done:
						break feed
					default:
					}
					seq++
					nal := []byte{0x65, byte(seq), 1, 2, 3, 4, 5}
					if cdc == esgen.H265 {
						nal = []byte{19 << 1, 1, byte(seq), 1, 2, 3, 4}
					}
					s.WriteRtpPacket(rtppack.ToIpchub(rtp.ChannelVideo, rtppack.Pkt{PT: 96, Seq: uint16(seq), TS: uint32(90000 + seq*3000), SSRC: 3, Marker: true, Payload: nal}.Marshal()))
					time.Sleep(500 * time.Microsecond)
				}
				desc := map[string]any{"transport": transport, "codec": cdc.String(), "write_that_fails": k}
				select {
				case <-done:
				case <-time.After(10 * time.Second):
					evid.Violation(t, "flv-write-fault-handler-stuck", desc, "%s: the player's connection broke at write %d (the handler has made %d writes) and the handler has not returned 10 s later", transport, k, wrote())
				}
				if !mediah.WaitFor(10*time.Second, func() bool { return s.ConsumerCount() == baseCons }) {
					evid.Violation(t, "flv-write-fault-consumer-left", desc, "%s: after the player's connection broke at write %d the stream counts %d consumers (had %d)", transport, k, s.ConsumerCount(), baseCons)
				}
				if a := stats.FlvConns.GetSample().Active; a != base {
					evid.Violation(t, "flv-write-fault-counter", desc, "%s: the player's connection broke at write %d (1 = the FLV file header): active FLV connections were %d before the player came and are %d after it left", transport, k, base, a)
				}
				media.Unregist(s)
				evid.Nontrivial(evid.FP("flvfault", transport, cdc.String(), k))
			}
		}
	}
	evid.Class("FLV player's connection breaks at the k-th write (enumerated)")
}
