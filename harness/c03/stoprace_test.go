package c03

import (
	"fmt"
	"testing"
	"time"

	"github.com/cnotch/ipchub/config"
	"github.com/cnotch/ipchub/media"
	"verif/harness/lib/evid"
	"verif/harness/lib/mediah"
	"verif/harness/lib/rtppack/esgen"
	"verif/harness/lib/sched"
)

// A consumer stops by itself at the very moment its stream ends — enumerated,
// not sampled: for 2..5 consumers (RTP and FLV tables), for each of them as the
// one that stops, the stream end (close / unregister / replacement) runs inside
// the window of that consumer's removal (schedule point remove.loaded: the entry
// has been found in the table and not yet deleted; the sweep of the ending stream
// meets the same entry). Every consumer — not only those the sweep happened to
// visit before the contested entry — must be closed, the count must be zero and
// no delivery goroutine may remain. Each configuration is repeated because the
// sweep's iteration order is random.
func TestStopInsideStreamEnd(t *testing.T) {
	reps := 6
	if evid.Thorough() {
		reps = 120
	}
	config.VerifSet(":0", false, false, "", 5)
	n := 0
	for k := 2; k <= 5; k++ {
		for who := 0; who < k; who++ {
			for _, how := range []string{"close", "unregist", "replace"} {
				for _, flvMix := range []bool{false, true} {
					for rep := 0; rep < reps; rep++ {
						n++
						evid.Eval(1)
						path := fmt.Sprintf("/c03/stoprace/%d", n)
						s := media.NewStream(path, mediah.SDP(esgen.H264, false))
						media.Regist(s)
						recs := make([]*mediah.Rec, k)
						cids := make([]media.CID, k)
						for i := range recs {
							recs[i] = mediah.NewRec(fmt.Sprint(i))
							pt := media.RTPPacket
							if flvMix && i%2 == 1 && i != who && who%2 == 0 { // the contested table keeps >= 2 entries when possible
								pt = media.FLVPacket
							}
							cids[i] = s.StartConsume(recs[i], pt, fmt.Sprint(i))
						}
						in := sched.New(15 * time.Millisecond)
						ended := make(chan struct{})
						in.Add(&sched.Directive{Point: "remove.loaded", Occ: 1, Filter: func(o interface{}) bool {
							cid, ok := media.VerifConsumptionCID(o)
							return ok && cid == cids[who] && media.VerifConsumptionStream(o) == s
						}, Do: func() {
							defer close(ended)
							switch how {
							case "close":
								s.Close()
							case "unregist":
								media.Unregist(s)
							default:
								s2 := media.NewStream(path, mediah.SDP(esgen.H264, false))
								media.Regist(s2)
								s.Close()
								media.Unregist(s2)
							}
						}})
						media.VerifSetSched(in.Hook)
						s.StopConsume(cids[who]) // the window opens inside this call
						ok := in.Wait(20 * time.Second)
						media.VerifSetSched(nil)
						desc := map[string]any{"consumers": k, "stops": who, "ended_by": how, "flv_mix": flvMix, "rep": rep}
						if !ok {
							evid.Violation(t, "stop-inside-end-stuck", desc, "the stream end started while consumer %d of %d was being removed never finished", who, k)
						}
						select {
						case <-ended:
						default:
							s.Close() // the window was not reached (cannot happen: StopConsume of a registered consumer loads it)
							media.Unregist(s)
						}
						for i, r := range recs {
							r := r
							if !mediah.WaitFor(10*time.Second, func() bool { return r.Closed() > 0 }) {
								evid.Violation(t, "stop-inside-end-not-closed", desc, "%d consumers, consumer %d stopped itself while the stream was ended (%s): consumer %d was never closed (stream counts %d consumers)", k, who, how, i, s.ConsumerCount())
							}
						}
						if c := s.ConsumerCount(); c != 0 {
							evid.Violation(t, "stop-inside-end-count", desc, "%d consumers, consumer %d stopped itself while the stream was ended (%s): the ended stream counts %d consumers", k, who, how, c)
						}
						if rep == 0 {
							evid.Nontrivial(evid.FP("stoprace", k, who, how, flvMix))
						}
					}
				}
			}
		}
	}
	evid.Class("a consumer's own stop inside the stream's end (enumerated)")
}
