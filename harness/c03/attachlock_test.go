package c03

import (
	"fmt"
	"sync"
	"testing"
	"time"

	"github.com/cnotch/ipchub/config"
	"github.com/cnotch/ipchub/media"
	"verif/harness/lib/evid"
	"verif/harness/lib/mediah"
	"verif/harness/lib/rtppack/esgen"
)

// lockedConsumer is a consumer whose Close takes a lock that the caller of
// StartConsume holds while it attaches — the shape of the multicast proxy, whose
// AddMember attaches the proxy to the stream under the proxy's lock and whose
// Close takes the same lock.
type lockedConsumer struct {
	mu     *sync.Mutex
	closed chan struct{}
	once   sync.Once
}

func (c *lockedConsumer) Consume(p media.Pack) {}
func (c *lockedConsumer) Close() error {
	c.mu.Lock()
	c.mu.Unlock()
	c.once.Do(func() { close(c.closed) })
	return nil
}

// "… including one that is attaching at that very moment": a consumer that
// attaches to a stream which has just ended is closed — but attaching must
// return to its caller first. An adapter may attach while holding a lock its own
// Close needs (the multicast proxy does); if the attach closes the consumer on
// the caller's goroutine, the caller dead-locks and the session that asked never
// comes back. Enumerated over RTP / FLV and over the ways a stream ends.
func TestAttachToEndedStreamWhileHoldingTheConsumersLock(t *testing.T) {
	config.VerifSet(":0", false, false, "", 5)
	n := 0
	for _, how := range []string{"close", "unregist", "replace"} {
		for _, pt := range []media.PacketType{media.RTPPacket, media.FLVPacket} {
			for _, bystanders := range []int{0, 2} {
				n++
				evid.Eval(1)
				path := fmt.Sprintf("/c03/attachlock/%d", n)
				s := media.NewStream(path, mediah.SDP(esgen.H264, false))
				media.Regist(s)
				for i := 0; i < bystanders; i++ {
					s.StartConsume(mediah.NewRec("bystander"), media.RTPPacket, "bystander")
				}
				switch how {
				case "close":
					s.Close()
				case "unregist":
					media.Unregist(s)
				default:
					s2 := media.NewStream(path, mediah.SDP(esgen.H264, false))
					media.Regist(s2)
					s.Close()
					defer media.Unregist(s2)
				}
				var mu sync.Mutex
				c := &lockedConsumer{mu: &mu, closed: make(chan struct{})}
				returned := make(chan struct{})
				go func() {
					mu.Lock() // the adapter's own lock, held across the attach
					s.StartConsume(c, pt, "late")
					mu.Unlock()
					close(returned)
				}()
				desc := map[string]any{"ended_by": how, "packet_type": pt.String(), "bystanders": bystanders}
				select {
				case <-returned:
				case <-time.After(8 * time.Second):
					evid.Violation(t, "attach-to-ended-stream-blocks", desc, "attaching a consumer to a stream that has ended (%s) did not return to its caller within 8 s: the consumer's Close was run on the attaching goroutine, which holds the lock that Close needs", how)
				}
				select {
				case <-c.closed:
				case <-time.After(8 * time.Second):
					evid.Violation(t, "attach-to-ended-stream-not-closed", desc, "a consumer attached to a stream that has ended (%s) was not closed within 8 s", how)
				}
				if cnt := s.ConsumerCount(); cnt != 0 {
					evid.Violation(t, "attach-to-ended-stream-count", desc, "the ended stream counts %d consumers", cnt)
				}
				evid.Nontrivial(evid.FP("attachlock", how, pt.String(), bystanders))
			}
		}
	}
	evid.Class("attach to an ended stream while holding the lock the consumer's Close needs")
}
