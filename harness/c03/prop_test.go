// C03 — every consumer is released when its stream ends or it is stopped.
//
// Histories of attach / stop / publish / stream-end (Close, replacement by a new
// Regist, Unregist, idle close, UnregistAll) / attach-after-end run against
// media.Stream with recording consumers; generated window directives place a stop
// or a stream end inside the windows the property names: between a delivery
// goroutine's closed-check and its blocking pop, inside Close between flag and
// signal, between load and delete of a detach, between the close mark and the
// sweeps, inside a join, and before the blocking pop of the three converter
// goroutines. Invariants once the history has quiesced:
//   - every consumer of an ended stream had Close called (bounded wait; the
//     verdict is state-based: the end ran to completion inside the window, so the
//     signal was sent and the waiter is past its check);
//   - stopping consumer i closes i and nobody else;
//   - ConsumerCount equals the model after every step and is never negative;
//   - no delivery or converter goroutine of the streams of this case remains.
package c03

import (
	"fmt"
	"runtime"
	"strings"
	"sync"
	"testing"
	"time"

	"github.com/cnotch/ipchub/av/format/flv"
	"github.com/cnotch/ipchub/av/format/mpegts"
	"github.com/cnotch/ipchub/av/format/rtp"
	"github.com/cnotch/ipchub/config"
	"github.com/cnotch/ipchub/media"
	"pgregory.net/rapid"
	"verif/harness/lib/evid"
	"verif/harness/lib/mediah"
	"verif/harness/lib/rtppack"
	"verif/harness/lib/rtppack/esgen"
	"verif/harness/lib/sched"
)

func TestMain(m *testing.M) { evid.Main(m, "C03") }

func bound() time.Duration {
	if evid.Thorough() {
		return 10 * time.Second
	}
	return 4 * time.Second
}

type op struct {
	Op   string `json:"op"`
	Cons int    `json:"consumer,omitempty"`
	FLV  bool   `json:"flv,omitempty"`
	N    int    `json:"n,omitempty"`
	How  string `json:"how,omitempty"`
}

type window struct {
	Point string `json:"point"`
	Occ   int    `json:"occurrence"`
	Who   int    `json:"consumer,omitempty"` // for consumer-scoped points: which consumer
	Do    string `json:"do"`
}

type plan struct {
	Audio   bool     `json:"audio"`
	H265    bool     `json:"h265"`
	Ops     []op     `json:"ops"`
	Windows []window `json:"windows,omitempty"`
}

var goroutineKinds = []string{
	"media.(*consumption).consume",
	"rtp.(*Demuxer).process",
	"flv.(*Muxer).process",
	"mpegts.(*Muxer).process",
}

func goroutineCounts() map[string]int {
	buf := make([]byte, 1<<20)
	for {
		n := runtime.Stack(buf, true)
		if n < len(buf) {
			buf = buf[:n]
			break
		}
		buf = make([]byte, 2*len(buf))
	}
	out := map[string]int{}
	for _, g := range strings.Split(string(buf), "\n\n") {
		for _, k := range goroutineKinds {
			if strings.Contains(g, k) {
				out[k]++
			}
		}
	}
	return out
}

func packets(cdc esgen.Codec, n int, seq *uint16, ts *uint32) []*rtp.Packet {
	var out []*rtp.Packet
	for i := 0; i < n; i++ {
		*ts += 3000
		var nal []byte
		if cdc == esgen.H264 {
			nal = []byte{0x65, 1, 2, 3, byte(i), 5, 6}
			if i%3 != 0 {
				nal[0] = 0x41
			}
		} else {
			nal = []byte{19 << 1, 1, 2, 3, byte(i), 5, 6}
			if i%3 != 0 {
				nal[0] = 1 << 1
			}
		}
		pk := rtppack.Pkt{PT: 96, Seq: *seq, TS: *ts, SSRC: 3, Marker: true, Payload: nal}
		*seq++
		out = append(out, rtppack.ToIpchub(rtp.ChannelVideo, pk.Marshal()))
	}
	return out
}

type cons struct {
	rec     *mediah.Rec
	cid     media.CID
	stream  int
	flv     bool
	stopped bool
	ended   bool // its stream ended (or it attached to an ended stream)
}

type world struct {
	pubMu    sync.Mutex
	mu       sync.Mutex // guards the model fields; never held across a call into ipchub
	pl       *plan
	streams  []*media.Stream
	ended    []bool
	cur      int // index of the stream new consumers attach to
	cons     map[int]*cons
	joins    map[int]int // StartConsume calls per stream
	trackers []*mediah.Tracker
	nextCons int
	seq      uint16
	ts       uint32
	cdc      esgen.Codec
	path     string
}

func (w *world) newStream() int {
	s := media.NewStream(w.path, mediah.SDP(w.cdc, w.pl.Audio))
	w.mu.Lock()
	defer w.mu.Unlock()
	w.streams = append(w.streams, s)
	w.ended = append(w.ended, false)
	w.trackers = append(w.trackers, mediah.NewTracker(s))
	return len(w.streams) - 1
}

func (w *world) attach(flv bool) {
	w.mu.Lock()
	id := w.nextCons
	w.nextCons++
	c := &cons{rec: mediah.NewRec(fmt.Sprint(id)), stream: w.cur, flv: flv}
	pt := media.RTPPacket
	if flv {
		pt = media.FLVPacket
	}
	w.cons[id] = c
	if w.ended[w.cur] {
		c.ended = true
	}
	s := w.streams[w.cur]
	// consumer ids are a per-stream sequence: predict it so that window filters know
	// the consumer from its very first schedule point (verified below)
	w.joins[w.cur]++
	c.cid = media.CID(uint32(pt)<<30 | uint32(w.joins[w.cur]))
	w.mu.Unlock()
	cid := s.StartConsume(c.rec, pt, fmt.Sprint(id))
	w.mu.Lock()
	if cid != c.cid {
		w.mu.Unlock()
		panic(fmt.Sprintf("harness assumption broken: predicted consumer id %x, got %x", uint32(c.cid), uint32(cid)))
	}
	w.mu.Unlock()
}

func (w *world) stop(id int) {
	w.mu.Lock()
	c := w.cons[id]
	if c == nil || c.stopped || c.cid == 0 {
		w.mu.Unlock()
		return
	}
	c.stopped = true
	s, cid := w.streams[c.stream], c.cid
	w.mu.Unlock()
	s.StopConsume(cid)
}

func (w *world) markEnded(si int) {
	w.mu.Lock()
	defer w.mu.Unlock()
	w.ended[si] = true
	for _, c := range w.cons {
		if c.stream == si {
			c.ended = true
		}
	}
}

func (w *world) aliveOn(si int) int {
	w.mu.Lock()
	defer w.mu.Unlock()
	n := 0
	for _, c := range w.cons {
		if c.stream == si && !c.stopped {
			n++
		}
	}
	return n
}

// publish writes n packets to the current stream (one publisher at a time).
func (w *world) publish(n int) {
	w.pubMu.Lock()
	defer w.pubMu.Unlock()
	w.mu.Lock()
	s, done := w.streams[w.cur], w.ended[w.cur]
	pk := packets(w.cdc, n, &w.seq, &w.ts)
	w.mu.Unlock()
	if done {
		return
	}
	for _, p := range pk {
		s.WriteRtpPacket(p)
	}
}

// end finishes the current stream in one of the ways the property lists.
func (w *world) end(how string) {
	w.mu.Lock()
	si := w.cur
	s := w.streams[si]
	done := w.ended[si]
	w.mu.Unlock()
	if done {
		return
	}
	switch how {
	case "close": // publisher disconnect / administrative delete
		s.Close()
		w.markEnded(si)
	case "unregist":
		media.Unregist(s)
		w.markEnded(si)
	case "unregist-all": // server shutdown
		media.UnregistAll()
		w.markEnded(si)
	case "replace": // a new publisher takes the path
		alive := w.aliveOn(si)
		ni := w.newStream()
		w.mu.Lock()
		ns := w.streams[ni]
		w.mu.Unlock()
		media.Regist(ns)
		w.mu.Lock()
		w.cur = ni
		w.mu.Unlock()
		if alive == 0 {
			w.markEnded(si) // retired and closed at once
		} else {
			// retired but still serving its consumers; the idle decision ends it when they left.
			// Here: one decision now (consumers still there: must stay open) …
			media.VerifIdleCloseTick(s, time.Nanosecond, media.StreamReplaced)
		}
	case "idle": // idle close: only when nobody is attached
		alive := w.aliveOn(si)
		media.VerifIdleCloseTick(s, time.Nanosecond, media.StreamNoConsumer)
		if alive == 0 {
			w.markEnded(si)
		}
	}
}

func genPlan(t *rapid.T, windows bool) *plan {
	pl := &plan{Audio: rapid.Bool().Draw(t, "audio"), H265: rapid.IntRange(0, 3).Draw(t, "h265") == 0}
	n := rapid.IntRange(2, 12).Draw(t, "ops")
	attached := 0
	for i := 0; i < n; i++ {
		k := rapid.IntRange(0, 11).Draw(t, "op")
		switch {
		case k <= 3 || attached == 0:
			pl.Ops = append(pl.Ops, op{Op: "attach", FLV: rapid.IntRange(0, 2).Draw(t, "flv") == 0})
			attached++
		case k <= 5:
			pl.Ops = append(pl.Ops, op{Op: "stop", Cons: rapid.IntRange(0, attached-1).Draw(t, "who")})
		case k <= 8:
			pl.Ops = append(pl.Ops, op{Op: "publish", N: rapid.IntRange(1, 6).Draw(t, "n")})
		default:
			pl.Ops = append(pl.Ops, op{Op: "end", How: rapid.SampledFrom([]string{"close", "unregist", "unregist-all", "replace", "idle"}).Draw(t, "how")})
		}
	}
	// always end with a real end so that every consumer has to be released
	pl.Ops = append(pl.Ops, op{Op: "end", How: rapid.SampledFrom([]string{"close", "unregist", "unregist-all"}).Draw(t, "finalEnd")})
	if rapid.Bool().Draw(t, "attachAfterEnd") {
		pl.Ops = append(pl.Ops, op{Op: "attach", FLV: rapid.Bool().Draw(t, "flv")})
	}
	if windows {
		nAttach := 0
		for _, o := range pl.Ops {
			if o.Op == "attach" {
				nAttach++
			}
		}
		nw := rapid.IntRange(1, 3).Draw(t, "windows")
		for i := 0; i < nw; i++ {
			pt := rapid.SampledFrom([]string{
				"consume.before-pop", "consume.before-pop", "cclose.flagged", "remove.loaded", "close.marked",
				"join.snapshotted", "join.registered", "demux.before-pop", "flvmux.before-pop", "tsmux.before-pop",
			}).Draw(t, "point")
			w := window{Point: pt, Occ: rapid.IntRange(1, 3).Draw(t, "occ"), Who: rapid.IntRange(0, nAttach-1).Draw(t, "who")}
			switch pt {
			case "consume.before-pop":
				w.Do = rapid.SampledFrom([]string{"stop-it", "end:close", "end:unregist"}).Draw(t, "do")
			case "cclose.flagged":
				w.Do = rapid.SampledFrom([]string{"publish", "end:close"}).Draw(t, "do")
			case "remove.loaded":
				w.Do = rapid.SampledFrom([]string{"end:close", "stop-it"}).Draw(t, "do")
			case "close.marked":
				w.Do = rapid.SampledFrom([]string{"attach", "stop-it"}).Draw(t, "do")
			case "join.snapshotted", "join.registered":
				w.Do = rapid.SampledFrom([]string{"end:close", "end:unregist"}).Draw(t, "do")
			default:
				// converter windows: the stream ends, half of the time while its publisher is
				// still sending (the demuxer in front of the muxers is working off packets when
				// the muxers are closed; after seeded change C03-R6B)
				w.Do = rapid.SampledFrom([]string{"end:close", "publish+end:close"}).Draw(t, "do")
			}
			pl.Windows = append(pl.Windows, w)
		}
	}
	return pl
}

func run(t evid.TB, pl *plan, label string) {
	config.VerifSet(":0", false, rapid_bool(pl), "", 5)
	media.UnregistAll()
	// baseline AFTER earlier cases have wound down
	var base map[string]int
	mediah.WaitFor(bound(), func() bool {
		base = goroutineCounts()
		for _, v := range base {
			if v != 0 {
				return false
			}
		}
		return true
	})
	w := &world{pl: pl, cons: map[int]*cons{}, joins: map[int]int{}, cdc: esgen.H264, path: "/c03/live", seq: 100, ts: 1000}
	if pl.H265 {
		w.cdc = esgen.H265
	}
	w.cur = w.newStream()
	media.Regist(w.streams[w.cur])
	defer func() { // also after a failed case: nothing of it may leak into the next one
		w.mu.Lock()
		streams := append([]*media.Stream(nil), w.streams...)
		w.mu.Unlock()
		for _, s := range streams {
			s.Close()
		}
		media.UnregistAll()
	}()

	in := sched.New(15 * time.Millisecond)
	inWindow := 0
	var opMu sync.Mutex                // held by the script while it executes one operation
	mine := func(o interface{}) bool { // events of this case only
		w.mu.Lock()
		streams := append([]*media.Stream(nil), w.streams...)
		w.mu.Unlock()
		if st, ok := o.(*media.Stream); ok {
			for _, s := range streams {
				if s == st {
					return true
				}
			}
			return false
		}
		if cs := media.VerifConsumptionStream(o); cs != nil {
			for _, s := range streams {
				if cs == s {
					return true
				}
			}
			return false
		}
		for _, s := range streams {
			d, f, ts := media.VerifConverters(s)
			if o == d || o == f || (ts != nil && o == ts) {
				return true
			}
		}
		return false
	}
	for _, wd := range pl.Windows {
		wd := wd
		d := &sched.Directive{Point: wd.Point, Occ: wd.Occ, Label: wd.Do}
		if strings.HasPrefix(wd.Point, "consume.") || wd.Point == "cclose.flagged" || wd.Point == "remove.loaded" {
			d.Filter = func(o interface{}) bool {
				cid, ok := media.VerifConsumptionCID(o)
				if !ok {
					return false
				}
				w.mu.Lock()
				c := w.cons[wd.Who]
				ok = c != nil && c.cid == cid && c.cid != 0
				w.mu.Unlock()
				return ok
			}
		}
		async := strings.HasPrefix(wd.Point, "consume.") || strings.HasSuffix(wd.Point, "mux.before-pop") || wd.Point == "demux.before-pop"
		d.Do = func() {
			if async {
				// the point is reached on a delivery / converter goroutine at any time: the
				// competing operation runs inside that goroutine's window, but between two
				// operations of the script, so that model and implementation move together
				opMu.Lock()
				defer opMu.Unlock()
			}
			inWindow++
			switch wd.Do {
			case "stop-it":
				w.stop(wd.Who)
			case "attach":
				w.attach(false)
			case "publish":
				w.publish(1)
			case "end:close":
				w.end("close")
			case "publish+end:close":
				w.publish(24)
				w.end("close")
			case "end:unregist":
				w.end("unregist")
			}
		}
		in.Add(d)
	}
	hook := func(p string, o interface{}) {
		// consumptions whose stream pointer is already cleared (exiting) cannot be attributed; they are past every window anyway
		w.mu.Lock()
		trs := append([]*mediah.Tracker(nil), w.trackers...)
		w.mu.Unlock()
		for _, tr := range trs {
			tr.Observe(p, o)
		}
		if !mine(o) {
			return
		}
		in.Hook(p, o)
	}
	media.VerifSetSched(hook)
	rtp.VerifSetSched(hook)
	flv.VerifSetSched(hook)
	mpegts.VerifSetSched(hook)
	defer func() {
		media.VerifSetSched(nil)
		rtp.VerifSetSched(nil)
		flv.VerifSetSched(nil)
		mpegts.VerifSetSched(nil)
	}()

	wantCount := func(si int) int {
		w.mu.Lock()
		defer w.mu.Unlock()
		want := 0
		for _, c := range w.cons {
			if c.stream == si && !c.stopped && !c.ended {
				want++
			}
		}
		return want
	}
	snapshot := func() (map[int]*cons, []*media.Stream, []bool) {
		w.mu.Lock()
		defer w.mu.Unlock()
		cm := map[int]*cons{}
		for k, v := range w.cons {
			cc := *v
			cm[k] = &cc
		}
		return cm, append([]*media.Stream(nil), w.streams...), append([]bool(nil), w.ended...)
	}
	settle := func() {
		// let the delivery goroutines catch up with the script (pacing only): otherwise the
		// script ends the stream before they have run at all and no window is ever reached
		cm, streams, ended := snapshot()
		for si, s := range streams {
			if ended[si] {
				continue
			}
			var cids []media.CID
			for _, c := range cm {
				if c.stream == si && !c.stopped && !c.ended {
					cids = append(cids, c.cid)
				}
			}
			w.mu.Lock()
			tr := w.trackers[si]
			w.mu.Unlock()
			if !tr.WaitIdle(s, cids, 500*time.Millisecond) {
				evid.Class(label + ": pacing wait hit its bound: " + tr.Describe(s, cids))
			}
		}
	}
	stepCheck := func(after op) {
		settle()
		_, streams, _ := snapshot()
		for si, s := range streams {
			si, s := si, s
			// counts settle once delivery goroutines of released consumers have detached: bounded wait
			if !mediah.WaitFor(bound(), func() bool { return s.ConsumerCount() == wantCount(si) }) {
				evid.Violation(t, "consumer-count", pl, "after %+v: stream #%d reports %d consumers, reference %d (windows fired: %v)", after, si, s.ConsumerCount(), wantCount(si), in.Fired)
			}
			if s.ConsumerCount() < 0 {
				evid.Violation(t, "negative-count", pl, "after %+v: stream #%d reports %d consumers", after, si, s.ConsumerCount())
			}
		}
	}
	for _, o := range pl.Ops {
		opMu.Lock()
		switch o.Op {
		case "attach":
			w.attach(o.FLV)
		case "stop":
			w.stop(o.Cons)
		case "publish":
			w.publish(o.N)
		case "end":
			w.end(o.How)
		}
		opMu.Unlock()
		if !in.Wait(bound()) {
			evid.Violation(t, "stuck", pl, "an operation started inside a window never finished (after %+v)", o)
		}
		stepCheck(o)
		evid.Eval(1)
	}
	// quiesce: every released consumer must have been closed
	// "nobody else is closed" is judged while no window operation can run (they
	// take opMu), against the model state of this very moment
	opMu.Lock()
	consNow, streamsNow, endedNow := snapshot()
	for id, c := range consNow {
		if !(c.stopped || c.ended) && c.rec.Closed() != 0 {
			opMu.Unlock()
			evid.Violation(t, "closed-wrongly", pl, "consumer %d was closed although it was neither stopped nor its stream ended (windows fired: %v)", id, in.Fired)
		}
	}
	opMu.Unlock()
	for id, c := range consNow {
		c := c
		if c.stopped || c.ended {
			if !mediah.WaitFor(bound(), func() bool { return c.rec.Closed() >= 1 }) {
				why := "its stream ended"
				if c.stopped {
					why = "it was stopped"
				}
				evid.Violation(t, "not-released", pl, "consumer %d (flv=%v) was never closed although %s (waited %v; windows fired: %v)", id, c.flv, why, bound(), in.Fired)
			}
		}
	}
	for si, s := range streamsNow {
		if endedNow[si] && media.VerifStatus(s) == media.StreamOK {
			evid.Violation(t, "stream-not-ended", pl, "stream #%d should have ended", si)
		}
	}
	// end whatever is still open (a replacement stream) and require all goroutines of this case gone
	opMu.Lock()
	_, streamsNow, endedNow = snapshot()
	for si, s := range streamsNow {
		if !endedNow[si] {
			media.Unregist(s)
			w.markEnded(si)
		}
	}
	opMu.Unlock()
	if !in.Wait(bound()) {
		evid.Violation(t, "stuck", pl, "an operation started inside a window never finished (final)")
	}
	consNow, _, _ = snapshot()
	for id, c := range consNow {
		c := c
		if !mediah.WaitFor(bound(), func() bool { return c.rec.Closed() >= 1 }) {
			evid.Violation(t, "not-released", pl, "consumer %d (flv=%v) was never closed after its stream ended at the end of the case (windows fired: %v)", id, c.flv, in.Fired)
		}
	}
	var left map[string]int
	if !mediah.WaitFor(bound(), func() bool {
		left = goroutineCounts()
		for _, v := range left {
			if v != 0 {
				return false
			}
		}
		return true
	}) {
		evid.Violation(t, "goroutine-leak", pl, "after every stream of the case ended these goroutines remain: %v (windows fired: %v)", left, in.Fired)
	}
	if sc, cc := media.Count(); sc != 0 || cc != 0 {
		evid.Violation(t, "registry-left", pl, "after the case media.Count() = (%d, %d)", sc, cc)
	}
	// classes
	for _, wd := range pl.Windows {
		evid.Class(label + ": directive generated at " + wd.Point)
	}
	if inWindow > 0 {
		for _, f := range in.Fired {
			evid.Class(label + ": window " + f[:strings.Index(f, "#")] + " -> " + f[strings.Index(f, ":")+1:])
		}
		evid.Nontrivial(evid.FP(label, fmt.Sprint(pl.Ops), fmt.Sprint(pl.Windows)))
		if evid.WantSample(label + "-window") {
			evid.Sample(label+"-window", map[string]any{"plan": pl, "fired": in.Fired})
		}
	}
	afterEnd := false
	endSeen := false
	for _, o := range pl.Ops {
		if o.Op == "end" && o.How != "idle" && o.How != "replace" {
			endSeen = true
		}
		if o.Op == "attach" && endSeen {
			afterEnd = true
		}
	}
	if afterEnd {
		evid.Class(label + ": attach after the stream ended")
		evid.Nontrivial(evid.FP(label, "after-end", fmt.Sprint(pl.Ops)))
		if evid.WantSample(label + "-after-end") {
			evid.Sample(label+"-after-end", pl)
		}
	}
}

func rapid_bool(pl *plan) bool { return len(pl.Ops)%2 == 0 } // cache_gop on for half of the cases

func TestReleaseHistories(t *testing.T) {
	evid.Rule("rapid: histories (<=14 ops) of attach(RTP|FLV) / stop(i) / publish / end(Close, Unregist, UnregistAll, replacement by a new Regist, idle decision) / attach-after-end over one path, with recording consumers that count Close calls; window directives put a stop or a stream end inside: consume.before-pop (between closed-check and blocking pop), cclose.flagged, remove.loaded, close.marked, join.snapshotted/registered and the before-pop points of the rtp demuxer, flv muxer and ts muxer. Invariants: released consumers are closed within a bounded wait, nobody else is, ConsumerCount = model after every step and never negative, no consume/demux/flvmux/tsmux goroutine remains, registry empty. Non-trivial = a stop or end landed inside a named window, or an attach after the stream ended; distinct = distinct (history, windows)")
	evid.Checks(1200, 8000)
	rapid.Check(t, func(t *rapid.T) {
		pl := genPlan(t, false)
		run(t, pl, "history")
	})
}

func TestReleaseWindows(t *testing.T) {
	evid.Checks(1800, 12000)
	rapid.Check(t, func(t *rapid.T) {
		pl := genPlan(t, true)
		run(t, pl, "windows")
	})
}
