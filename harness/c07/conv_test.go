package c07

import (
	"fmt"
	"reflect"
	"runtime"
	"strings"
	"sync"
	"time"

	"github.com/cnotch/ipchub/av/format/flv"
	"github.com/cnotch/ipchub/av/format/mpegts"
	"github.com/cnotch/ipchub/av/format/rtp"
	"github.com/cnotch/ipchub/media"
	"verif/harness/lib/mediah"
)

// State instead of wall clock. A verdict "conversion stopped" is only given once
// the converter goroutines of the stream have WORKED OFF everything that was
// published and the probe units are still missing. The converters report, through
// schedule points (build tag verif), every time they come back to their queue:
//
//	demux.before-pop                      the RTP demuxer
//	flvmux.pushed / flvmux.before-pop     a frame queued for / the FLV muxer back at its queue
//	tsmux.pushed  / tsmux.before-pop      the same for the MPEG-TS muxer
//
// The demuxer has worked off n packets when it has come back n+1 times; a muxer
// when it has come back once more than frames were queued for it (that number is
// final once the demuxer is done). A panic recovered inside a converter still
// brings it back to its queue, so the counters keep moving; a converter that
// never comes back (dead after a panic, spinning, parked) is what the generous
// bound is for — that IS a containment failure, and on a healthy tree the bound
// is never reached, however busy the host is.
//
// One process-wide callback serves all streams of the package (tests run in
// parallel). Objects are keyed by address without keeping them alive; bind()
// normalises the count to "arrived once" (before the first packet that is the
// only possible state), so a stale count under a reused address cannot matter.

const generous = 120 * time.Second

type convCount struct{ seen, pushed int }

type convWatch struct {
	mu      sync.Mutex
	bound   map[uintptr]*convCount
	unbound map[uintptr]*pending // arrivals of converters not (or no longer) bound
}

type pending struct {
	n  int
	at time.Time
}

var watch = &convWatch{bound: map[uintptr]*convCount{}, unbound: map[uintptr]*pending{}}

func ptrOf(obj interface{}) uintptr {
	if obj == nil {
		return 0
	}
	if v := reflect.ValueOf(obj); v.Kind() == reflect.Ptr {
		return v.Pointer()
	}
	return 0 // the empty placeholders (emptyRtpDemuxer{} …) are values: no goroutine behind them
}

func (w *convWatch) install() {
	cb := func(name string, obj interface{}) {
		p := ptrOf(obj)
		if p == 0 {
			return
		}
		arrive := strings.HasSuffix(name, ".before-pop")
		push := strings.HasSuffix(name, ".pushed")
		if !arrive && !push {
			return
		}
		w.mu.Lock()
		if cc := w.bound[p]; cc != nil {
			if arrive {
				cc.seen++
			} else {
				cc.pushed++
			}
		} else if arrive {
			if u := w.unbound[p]; u != nil {
				u.n++
			} else {
				w.unbound[p] = &pending{1, time.Now()}
			}
		}
		w.mu.Unlock()
	}
	rtp.VerifSetSched(cb)
	flv.VerifSetSched(cb)
	mpegts.VerifSetSched(cb)
}

// convSet are the converters of one stream.
type convSet struct {
	demux, flv, ts uintptr
}

// bind must be called before the first packet is published to s. It waits until
// each converter goroutine has reached its queue for the first time.
func (w *convWatch) bind(s *media.Stream) (*convSet, error) {
	d, f, t := media.VerifConverters(s)
	cs := &convSet{ptrOf(d), ptrOf(f), ptrOf(t)}
	for _, p := range []uintptr{cs.demux, cs.flv, cs.ts} {
		if p == 0 {
			continue
		}
		if !mediah.WaitFor(generous, func() bool { w.mu.Lock(); defer w.mu.Unlock(); return w.unbound[p] != nil }) {
			return nil, fmt.Errorf("a converter goroutine of the new stream did not reach its queue within %v", generous)
		}
		w.mu.Lock()
		delete(w.unbound, p)
		w.bound[p] = &convCount{seen: 1}
		w.mu.Unlock()
	}
	return cs, nil
}

func (w *convWatch) release(cs *convSet) {
	if cs == nil {
		return
	}
	w.mu.Lock()
	for _, p := range []uintptr{cs.demux, cs.flv, cs.ts} {
		delete(w.bound, p)
	}
	if len(w.unbound) > 4096 { // stale arrivals of converters that were closing (addresses only): drop the old ones
		for p, u := range w.unbound {
			if time.Since(u.at) > 4*generous {
				delete(w.unbound, p)
			}
		}
	}
	w.mu.Unlock()
}

// done reports whether the converters have worked off `published` packets.
func (w *convWatch) done(cs *convSet, published int) bool {
	w.mu.Lock()
	defer w.mu.Unlock()
	if cs.demux != 0 && w.bound[cs.demux].seen < published+1 {
		return false
	}
	for _, p := range []uintptr{cs.flv, cs.ts} {
		if p != 0 {
			if cc := w.bound[p]; cc.seen < cc.pushed+1 {
				return false
			}
		}
	}
	return true
}

func (w *convWatch) describe(cs *convSet, published int) string {
	w.mu.Lock()
	defer w.mu.Unlock()
	get := func(p uintptr) convCount {
		if cc := w.bound[p]; cc != nil {
			return *cc
		}
		return convCount{}
	}
	d, f, t := get(cs.demux), get(cs.flv), get(cs.ts)
	return fmt.Sprintf("%d packets published; demuxer back at its queue %d times (needs %d); flv muxer: %d frames queued, back %d times; ts muxer: %d queued, back %d times", published, d.seen, published+1, f.pushed, f.seen, t.pushed, t.seen)
}

// waitDone waits (generous bound) for the converters; "" when they are done,
// otherwise what did not come back.
func (w *convWatch) waitDone(cs *convSet, published int) string {
	if mediah.WaitFor(generous, func() bool { return w.done(cs, published) }) {
		return ""
	}
	return fmt.Sprintf("a converter goroutine has not come back to its queue for %v: %s", generous, w.describe(cs, published))
}

// consumerDrained: nothing is queued for the consumer and nothing is in flight
// between its queue and the consumer (bytes in == bytes out).
func consumerDrained(s *media.Stream, cid media.CID) bool {
	if media.VerifQueueLen(s, cid) > 0 {
		return false
	}
	in, out, ok := media.VerifFlow(s, cid)
	return !ok || in == out
}

// stacksOf returns the stacks of the goroutines whose stack mentions needle.
func stacksOf(needle string) []string {
	buf := make([]byte, 8<<20)
	buf = buf[:runtime.Stack(buf, true)]
	var out []string
	for _, g := range strings.Split(string(buf), "\n\n") {
		if strings.Contains(g, needle) {
			out = append(out, g)
		}
	}
	return out
}
