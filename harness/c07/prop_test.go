package c07

import (
	"encoding/hex"
	"encoding/json"
	"fmt"
	"testing"

	"github.com/cnotch/ipchub/av/format/rtp"
	"pgregory.net/rapid"
	"verif/harness/lib/evid"
	"verif/harness/lib/mediah"
	"verif/harness/lib/rtppack"
	"verif/harness/lib/rtppack/esgen"
)

const ruleText = "structured (rapid): a valid stream (H.264 or H.265 with any legal packetisation, ± AAC, optional leading sender reports, SDP with or without sprop parameter sets, GOP cache on/off) receives at a generated position one hostile packet (sometimes a burst of up to 3) of a generated class: hostile payload constants, payloads of 0..3 bytes, STAP-A / AP with truncated, zero, off-by-one or oversized size fields and trailing bytes, FU with header bytes only / contradictory S,E bits / nested types, never-ending fragmentation units (start + up to 40 middle fragments of 1..65520 bytes, ended late or abandoned; separately enumerated up to 5.3 MiB, thorough 16 MiB, followed by a start fragment / a single NAL unit / an end fragment), RTP padding (P bit with pad counts 0, 1, len(payload)±1, len(payload), len(packet), 255 and correctly padded packets, payloads of 1..8 bytes and normal ones, video and audio), AAC-hbr with bad AU-headers-length or AU sizes beyond the payload, RTCP of 0..28 bytes with packet type 200 and other types, RTP headers cut below 12 bytes or with lying CC / X / P fields, and single-byte corruptions / truncations of a valid packet of the stream at a generated offset; plus an enumeration of every truncation length and every byte offset of reference packets. Every packet goes through rtp.ReadPacket exactly as the publisher's session builds it. Oracle: no panic reaches the caller of WriteRtpPacket and the call returns; afterwards K well-formed key-frame access units written to the same stream are relayed to its RTP consumer (same objects, in order), come out as FLV tags, and (H.264+AAC) appear in an HLS segment; a twin stream in the same process gives the same RTP list and FLV tags as in a control run without the injection. Non-trivial = the hostile packet was accepted by ReadPacket and reached a GOP-cache classifier + depacketiser (video channel of an H.264/H.265 stream), the AAC depacketiser (audio channel of a stream with AAC), or the sync clock (control channel whose clock had not been set); distinct = distinct (stream parameters, position, hostile bytes)"

// ---------------------------------------------------------------- generation

type genState struct {
	codec    esgen.Codec
	audio    bool
	vseq     uint16
	aseq     uint16
	lastVTS  uint32
	lastATS  uint32
	prefix   []pkt
	valid    []rtppack.Pkt // the valid media packets by prefix index (zero value for RTCP)
	validSet []bool
	classLo  int
	classHi  int
}

// variant makes the parallel campaigns different under one -rapid.seed.
type variant struct {
	name             string
	codec            string // "", "H264", "H265"
	forceAudio       bool
	fu               bool // never-ending fragmentation units
	classLo, classHi int  // range of the class draw in genHostile
}

func genCase(t *rapid.T, v variant) *caseSpec {
	c := &caseSpec{}
	g := &genState{codec: esgen.H264, classLo: v.classLo, classHi: v.classHi}
	switch v.codec {
	case "H265":
		g.codec = esgen.H265
	case "":
		if rapid.IntRange(0, 2).Draw(t, "h265") == 0 {
			g.codec = esgen.H265
		}
	}
	c.Codec = g.codec.String()
	g.audio = v.forceAudio || rapid.IntRange(0, 3).Draw(t, "audio") != 0
	c.Audio = g.audio
	c.CacheGop = rapid.Bool().Draw(t, "cacheGop")
	c.NoSprop = rapid.IntRange(0, 5).Draw(t, "noSprop") == 0
	// a stream description that lies about its audio: every audio frame then makes
	// the TS AAC packetizer panic; the well-formed video must still reach HLS
	c.BadAac = g.audio && g.codec == esgen.H264 && rapid.IntRange(0, 9).Draw(t, "badAacConfig") == 0

	cfg := esgen.Config{Codec: g.codec, MaxNAL: 900, Tags: true, RealParamSets: true, MaxAUs: 5, MaxGOP: 3, MaxUnits: 14}
	aus := cfg.DrawSequence(t)
	base := rapid.SampledFrom([]uint32{0, 1, 3000, 90000, 123456789, 1 << 31}).Draw(t, "tsBase")
	step := rapid.SampledFrom([]uint32{1, 3000, 3600, 45000, 90000}).Draw(t, "tsStep")
	for i := range aus {
		aus[i].TS = base + uint32(i)*step
	}
	mediah.PadTinySlices(g.codec, aus)
	vs := esgen.Packetise(t, g.codec, aus, esgen.PackConfig{MaxPacket: 1400, MaxFrags: 5, SSRC: 0x11111111})
	var as *esgen.Stream
	if g.audio {
		ac := esgen.AacConfig{MaxAUs: 4, MaxAUSize: 300, Tags: true}
		units := ac.DrawAacAUs(t)
		abase := uint32(uint64(base) * 44100 / 90000)
		for i := range units {
			units[i].TS = abase + uint32(i)*esgen.AacSamplesPerAU
		}
		as = esgen.PacketiseAac(t, ac, units, esgen.PackConfig{SSRC: 0x22222222})
	}
	add := func(ch byte, p rtppack.Pkt, note string) {
		g.prefix = append(g.prefix, mkPkt(ch, p.Marshal(), note))
		g.valid = append(g.valid, p)
		g.validSet = append(g.validSet, true)
	}
	addRaw := func(ch byte, raw []byte, note string) {
		g.prefix = append(g.prefix, mkPkt(ch, raw, note))
		g.valid = append(g.valid, rtppack.Pkt{})
		g.validSet = append(g.validSet, false)
	}
	nLead := 0
	if rapid.IntRange(0, 2).Draw(t, "srFirst") == 0 {
		// as real senders do: the sender report precedes the first media packet
		addRaw(rtp.ChannelVideoControl, rtppack.SenderReport(0x11111111, 3900000000, 0, base, 0, 0), "valid SR")
		nLead++
		if g.audio {
			addRaw(rtp.ChannelAudioControl, rtppack.SenderReport(0x22222222, 3900000000, 0, uint32(uint64(base)*44100/90000), 0, 0), "valid SR")
			nLead++
		}
	}
	if c.NoSprop {
		// without sprop parameter sets the converters start with the first in-band ones
		for _, p := range plainPrefix(g.codec, false, 1, base) {
			addRaw(p.Ch, p.bytes(), "valid: in-band parameter sets + key frame")
		}
	}
	vi, ai := 0, 0
	for vi < len(vs.Pkts) || (as != nil && ai < len(as.Pkts)) {
		if as != nil && ai < len(as.Pkts) && (vi >= len(vs.Pkts) || rapid.IntRange(0, 3).Draw(t, "src") == 0) {
			add(rtp.ChannelAudio, as.Pkts[ai], "valid aac")
			ai++
		} else {
			m := vs.Meta[vi]
			add(rtp.ChannelVideo, vs.Pkts[vi], fmt.Sprintf("valid %s au%d", m.Kind, m.AU))
			vi++
		}
		if len(g.prefix) >= 60 {
			break
		}
	}
	c.Prefix = g.prefix
	c.Pos = rapid.IntRange(0, len(c.Prefix)).Draw(t, "pos")
	// header fields a hostile packet continues with
	g.vseq, g.aseq = 1000, 2000
	g.lastVTS, g.lastATS = base, uint32(uint64(base)*44100/90000)
	for i := 0; i < c.Pos; i++ {
		if !g.validSet[i] {
			continue
		}
		if c.Prefix[i].Ch == rtp.ChannelVideo {
			g.vseq, g.lastVTS = g.valid[i].Seq+1, g.valid[i].TS
		} else {
			g.aseq, g.lastATS = g.valid[i].Seq+1, g.valid[i].TS
		}
	}
	n := 1
	if rapid.IntRange(0, 7).Draw(t, "burst") == 0 {
		n = rapid.IntRange(2, 3).Draw(t, "burstLen")
	}
	if v.fu && rapid.IntRange(0, 9).Draw(t, "neverEndingFU") == 0 {
		// a fragmentation unit that never ends (or ends late): start + many middle
		// fragments, sizes from 1 byte to the largest interleaved frame
		n = 0
		middles := rapid.SampledFrom([]int{1, 2, 5, 17, 40}).Draw(t, "fuMiddles")
		size := rapid.SampledFrom([]int{1, 2, 100, 1400, 65000, 65520}).Draw(t, "fuFragSize")
		ended := rapid.Bool().Draw(t, "fuEnded")
		key := rapid.Bool().Draw(t, "fuKey")
		c.ProbeRot = rapid.IntRange(0, 2).Draw(t, "probeRot")
		c.Class = fmt.Sprintf("never-ending-fu:ended=%v:%dx%dB", ended, middles+1, size)
		for _, raw := range neverEndingFU(g.codec, middles, size, g.vseq, g.lastVTS, key, ended) {
			c.Hostile = append(c.Hostile, mkPkt(rtp.ChannelVideo, raw, ""))
		}
		if c.Pos < nLead {
			c.Pos = nLead
		}
		if (middles+1)*size > 1<<20 {
			c.BoundScale = 8 // megabytes through the converters: be patient on a loaded machine
		}
	}
	for i := 0; i < n; i++ {
		class, h := genHostile(t, g, c)
		if i == 0 {
			c.Class = class
		} else {
			c.Class += " + " + class
		}
		c.Hostile = append(c.Hostile, h)
		if (h.Ch == rtp.ChannelVideo || h.Ch == rtp.ChannelAudio) && c.Pos < nLead {
			// media ahead of the leading sender reports would itself re-anchor the
			// presentation timeline (valid input, C06/C10 territory): keep it behind them
			c.Pos = nLead
		}
	}
	// what the stream legitimately carries: the whole, well-formed parameter-set units of the valid packets
	seenPS := map[string]bool{}
	for _, u := range vs.Units {
		if t := g.codec.NalType(u.Bytes); (g.codec == esgen.H264 && (t == esgen.H264SPS || t == esgen.H264PPS)) || (g.codec == esgen.H265 && t >= esgen.H265VPS && t <= esgen.H265PPS) {
			if h := hex.EncodeToString(u.Bytes); !seenPS[h] {
				seenPS[h] = true
				c.LegitPS = append(c.LegitPS, h)
			}
		}
	}
	if c.NoSprop && c.Pos <= nLead {
		for _, h := range c.Hostile {
			if h.Ch == rtp.ChannelVideo {
				c.PSNotJudged = "hostile video packet ahead of the first good in-band parameter sets of a stream without sprop sets"
			}
		}
	}
	c.SettleMs = rapid.SampledFrom([]int{0, 0, 0, 0, 0, 1, 5}).Draw(t, "settleMs")
	planProbe(c)
	return c
}

func genHostile(t *rapid.T, g *genState, c *caseSpec) (string, pkt) {
	marker := rapid.Bool().Draw(t, "marker")
	seqV, seqA := g.vseq, g.aseq
	if rapid.IntRange(0, 3).Draw(t, "seqJump") == 0 {
		seqV, seqA = rapid.Uint16().Draw(t, "seqV"), rapid.Uint16().Draw(t, "seqA")
	}
	video := func(class string, payload []byte) (string, pkt) {
		return class, mkPkt(rtp.ChannelVideo, mediaPacket(96, marker, seqV, g.lastVTS, payload), class)
	}
	audio := func(class string, payload []byte) (string, pkt) {
		return class, mkPkt(rtp.ChannelAudio, mediaPacket(97, marker, seqA, g.lastATS, payload), class)
	}
	table := hostileH264
	if g.codec == esgen.H265 {
		table = hostileH265
	}
	switch k := rapid.IntRange(g.classLo, g.classHi).Draw(t, "class"); {
	case k <= 2:
		h := rapid.SampledFrom(table).Draw(t, "const")
		return video("payload-const:"+h.Name, h.B)
	case k == 3:
		if rapid.IntRange(0, 2).Draw(t, "hostilePS?") > 0 {
			return video(hostileParameterSet(t, g.codec))
		}
		b := rapid.SliceOfN(rapid.Byte(), 0, 3).Draw(t, "short")
		return video(fmt.Sprintf("payload-short:%d", len(b)), b)
	case k <= 6:
		return video(aggregateMutant(t, g.codec))
	case k <= 8:
		return video(fuMutant(t, g.codec))
	case k <= 10:
		if rapid.Bool().Draw(t, "aacConst") {
			h := rapid.SampledFrom(hostileAac).Draw(t, "aac")
			return audio("aac-const:"+h.Name, h.B)
		}
		return audio(aacMutant(t))
	case k <= 13:
		ch := byte(rtp.ChannelVideoControl)
		if rapid.Bool().Draw(t, "audioCtl") {
			ch = rtp.ChannelAudioControl
		}
		var b []byte
		var class string
		switch rapid.IntRange(0, 2).Draw(t, "rtcpKind") {
		case 0:
			h := rapid.SampledFrom(hostileRtcp()).Draw(t, "rtcp")
			b, class = h.B, "rtcp-const:"+h.Name
		case 1:
			b = rapid.SliceOfN(rapid.Byte(), 0, 28).Draw(t, "rtcpBytes")
			if len(b) >= 2 {
				b[1] = 200
			}
			class = fmt.Sprintf("rtcp-pt200-random:len%d", len(b))
		default:
			// a sender report cut after the RTP timestamp, carrying a timestamp near the stream's
			ts := g.lastVTS
			if ch == rtp.ChannelAudioControl {
				ts = g.lastATS
			}
			ts += uint32(rapid.IntRange(0, 90000).Draw(t, "srTsDelta"))
			b = rtppack.SenderReport(9, rapid.Uint32().Draw(t, "ntp"), rapid.Uint32().Draw(t, "ntpFrac"), ts, 1, 1)[:rapid.IntRange(20, 28).Draw(t, "srCut")]
			class = fmt.Sprintf("rtcp-sr-cut:len%d", len(b))
		}
		return class, mkPkt(ch, b, class)
	case k <= 15:
		ch, pt, seq, ts := byte(rtp.ChannelVideo), byte(96), seqV, g.lastVTS
		payload := []byte{0x41, 0x9a, 0x00, 0x11}
		if g.codec == esgen.H265 {
			payload = []byte{0x02, 0x01, 0xd0, 0x11}
		}
		if g.audio && rapid.IntRange(0, 2).Draw(t, "hdrAudio") == 0 {
			ch, pt, seq, ts = rtp.ChannelAudio, 97, seqA, g.lastATS
			payload = rtppack.AacHbr([][]byte{{0x21, 0x10, 0x04}})
		}
		if rapid.IntRange(0, 2).Draw(t, "padding?") == 0 {
			// RTP padding: P bit with lying / correct pad counts, on short and normal payloads
			if rapid.Bool().Draw(t, "padShort") {
				payload = payload[:rapid.IntRange(1, min(8, len(payload))).Draw(t, "padPayloadLen")]
			}
			h := rapid.SampledFrom(paddingVariants(pt, marker, seq, ts, payload)).Draw(t, "pad")
			class := "rtp-padding:" + h.Name
			return class, mkPkt(ch, h.B, class)
		}
		h := rapid.SampledFrom(hostileRtpHeaders(pt, seq, ts, payload)).Draw(t, "hdr")
		class := "rtp-header:" + h.Name
		return class, mkPkt(ch, h.B, class)
	default:
		// corruption / truncation of a valid packet of this very stream
		var idx []int
		for i, ok := range g.validSet {
			if ok {
				idx = append(idx, i)
			}
		}
		if len(idx) == 0 {
			return video("payload-short:0", nil)
		}
		i := rapid.SampledFrom(idx).Draw(t, "victim")
		raw := append([]byte{}, c.Prefix[i].bytes()...)
		where := "header"
		if rapid.IntRange(0, 3).Draw(t, "truncate") == 0 {
			n := rapid.IntRange(0, len(raw)-1).Draw(t, "cutTo")
			if n > 12 {
				where = "payload"
			}
			class := fmt.Sprintf("truncate-valid:%s:%s", channelName(c.Prefix[i].Ch), where)
			return class, mkPkt(c.Prefix[i].Ch, raw[:n], fmt.Sprintf("%s packet %d cut to %d of %d bytes", class, i, n, len(raw)))
		}
		o := rapid.IntRange(0, len(raw)-1).Draw(t, "offset")
		if rapid.Bool().Draw(t, "inPayloadHead") && len(raw) > 12 {
			o = 12 + rapid.IntRange(0, min(7, len(raw)-13)).Draw(t, "offsetHead")
		}
		v := rapid.Byte().Draw(t, "value")
		if v == raw[o] {
			v ^= 0x80
		}
		raw[o] = v
		if o >= 12 {
			where = "payload"
		}
		class := fmt.Sprintf("corrupt-valid:%s:%s", channelName(c.Prefix[i].Ch), where)
		return class, mkPkt(c.Prefix[i].Ch, raw, fmt.Sprintf("%s packet %d byte %d := %02x", class, i, o, v))
	}
}

func min(a, b int) int {
	if a < b {
		return a
	}
	return b
}

// hostileParameterSet: a damaged SPS / PPS (/ VPS) unit — the real one cut at a
// generated length, with one bit flipped, or 1..3 bytes long — as a single NAL
// unit packet, alone in an aggregate, or in an aggregate behind / in front of a
// good slice.
func hostileParameterSet(t *rapid.T, codec esgen.Codec) (string, []byte) {
	reals := [][]byte{esgen.RealH264SPS, esgen.RealH264PPS}
	if codec == esgen.H265 {
		reals = [][]byte{esgen.RealH265VPS, esgen.RealH265SPS, esgen.RealH265PPS}
	}
	real := rapid.SampledFrom(reals).Draw(t, "psWhich")
	typ := codec.NalType(real)
	var ps []byte
	var how string
	switch rapid.IntRange(0, 2).Draw(t, "psDamage") {
	case 0:
		ps = append([]byte{}, real[:rapid.IntRange(codec.HeaderLen(), len(real)-1).Draw(t, "psCut")]...)
		how = "truncated"
	case 1:
		ps = append([]byte{}, real...)
		o := rapid.IntRange(codec.HeaderLen(), len(real)-1).Draw(t, "psFlipAt")
		ps[o] ^= 1 << uint(rapid.IntRange(0, 7).Draw(t, "psFlipBit"))
		how = "bit-flipped"
	default:
		ps = append([]byte{}, real[:codec.HeaderLen()]...)
		ps = append(ps, rapid.SliceOfN(rapid.Byte(), 0, 3-codec.HeaderLen()+1).Draw(t, "psTiny")...)
		how = "tiny"
	}
	slice := []byte{0x41, 0x9a, 0x02, 0x81, 0x82}
	agg := rtppack.H264StapA
	if codec == esgen.H265 {
		slice = []byte{0x02, 0x01, 0xd0, 0x81, 0x82}
		agg = rtppack.H265AP
		if len(ps) < 2 {
			ps = append(ps, 0x01)
		}
	}
	switch rapid.IntRange(0, 3).Draw(t, "psCarrier") {
	case 0:
		return fmt.Sprintf("hostile-parameter-set:%s:type%d:single", how, typ), ps
	case 1:
		return fmt.Sprintf("hostile-parameter-set:%s:type%d:alone-in-aggregate", how, typ), agg([][]byte{ps})
	case 2:
		return fmt.Sprintf("hostile-parameter-set:%s:type%d:aggregate-before-slice", how, typ), agg([][]byte{ps, slice})
	default:
		return fmt.Sprintf("hostile-parameter-set:%s:type%d:aggregate-after-slice", how, typ), agg([][]byte{slice, ps})
	}
}

// aggregateMutant builds a valid STAP-A / AP over real parameter sets and a
// slice and then breaks one thing.
func aggregateMutant(t *rapid.T, codec esgen.Codec) (string, []byte) {
	var p []byte
	hdr := 1
	if codec == esgen.H264 {
		p = rtppack.H264StapA([][]byte{esgen.RealH264SPS, esgen.RealH264PPS, {0x65, 0x88, 0x84, 0x21, 0xa0}})
	} else {
		hdr = 2
		p = rtppack.H265AP([][]byte{esgen.RealH265VPS, esgen.RealH265SPS, esgen.RealH265PPS, {0x26, 0x01, 0xaf, 0x08, 0x42}})
	}
	// offsets of the size fields
	var sizes []int
	for o := hdr; o+2 <= len(p); {
		sizes = append(sizes, o)
		o += 2 + int(p[o])<<8 | int(p[o+1])
		if o >= len(p) {
			break
		}
	}
	switch rapid.IntRange(0, 4).Draw(t, "aggKind") {
	case 0:
		n := rapid.IntRange(0, len(p)-1).Draw(t, "aggCut")
		return fmt.Sprintf("aggregate-truncated:%s", cutWhere(n, hdr, sizes)), p[:n]
	case 1:
		o := rapid.SampledFrom(sizes).Draw(t, "aggSizeAt")
		real := int(p[o])<<8 | int(p[o+1])
		v := rapid.SampledFrom([]int{0, 1, real - 1, real + 1, real + 2, 0x7fff, 0xffff, len(p)}).Draw(t, "aggSize")
		q := append([]byte{}, p...)
		q[o], q[o+1] = byte(v>>8), byte(v)
		return "aggregate-size-lies", q
	case 2:
		extra := rapid.SliceOfN(rapid.Byte(), 1, 2).Draw(t, "aggTrail")
		return fmt.Sprintf("aggregate-trailing:%d", len(extra)), append(append([]byte{}, p...), extra...)
	case 3:
		// cut right after the k-th size field plus 0..1 bytes
		o := rapid.SampledFrom(sizes).Draw(t, "aggAfterSize")
		n := o + 2 + rapid.IntRange(0, 1).Draw(t, "aggPlus")
		if n > len(p) {
			n = len(p)
		}
		return "aggregate-ends-at-size-field", p[:n]
	default:
		// only sizes, no units
		q := append([]byte{}, p[:hdr]...)
		for i := rapid.IntRange(1, 4).Draw(t, "aggEmptyUnits"); i > 0; i-- {
			q = append(q, 0, 0)
		}
		return "aggregate-zero-sizes", q
	}
}

func cutWhere(n, hdr int, sizes []int) string {
	if n < hdr {
		return "in-header"
	}
	for _, o := range sizes {
		if n == o || n == o+1 {
			return "in-size-field"
		}
		if n == o+2 {
			return "before-unit"
		}
	}
	return "in-unit"
}

func fuMutant(t *rapid.T, codec esgen.Codec) (string, []byte) {
	se := rapid.SampledFrom([]byte{0x00, 0x40, 0x80, 0xc0}).Draw(t, "fuSE")
	data := rapid.SliceOfN(rapid.Byte(), 0, 3).Draw(t, "fuData")
	if codec == esgen.H264 {
		typ := rapid.SampledFrom([]byte{0, 1, 5, 7, 8, 24, 28, 31}).Draw(t, "fuType")
		p := append([]byte{0x7c, se | typ}, data...)
		p = p[:rapid.IntRange(1, len(p)).Draw(t, "fuLen")]
		return fmt.Sprintf("fu-mutant:len%d", len(p)), p
	}
	typ := rapid.SampledFrom([]byte{0, 1, 19, 32, 33, 48, 49, 63}).Draw(t, "fuType")
	p := append([]byte{0x62, 0x01, se | typ}, data...)
	p = p[:rapid.IntRange(1, len(p)).Draw(t, "fuLen")]
	return fmt.Sprintf("fu-mutant:len%d", len(p)), p
}

func aacMutant(t *rapid.T) (string, []byte) {
	aus := [][]byte{{0x21, 0x10, 0x04, 0x60}, {0x21, 0x11}, {0x01}}
	p := rtppack.AacHbr(aus[:rapid.IntRange(1, 3).Draw(t, "aacAUs")])
	switch rapid.IntRange(0, 3).Draw(t, "aacKind") {
	case 0:
		n := rapid.IntRange(0, len(p)-1).Draw(t, "aacCut")
		return "aac-truncated", p[:n]
	case 1:
		v := rapid.SampledFrom([]int{0, 1, 8, 15, 17, 32, 48, 64, 0x7ff0, 0xffff}).Draw(t, "aacHdrLen")
		q := append([]byte{}, p...)
		q[0], q[1] = byte(v>>8), byte(v)
		return "aac-headers-length-lies", q
	case 2:
		q := append([]byte{}, p...)
		nh := (int(p[0])<<8 | int(p[1])) / 16
		h := rapid.IntRange(0, nh-1).Draw(t, "aacWhich")
		v := rapid.SampledFrom([]int{0, 1, 5, 0x1000, 0x1fff}).Draw(t, "aacSize")
		q[2+2*h], q[3+2*h] = byte(v>>5), byte(v<<3)
		return "aac-au-size-lies", q
	default:
		return "aac-random", rapid.SliceOfN(rapid.Byte(), 0, 6).Draw(t, "aacBytes")
	}
}

// planProbe chooses the probe's first video timestamp: past everything the
// video depacketiser has been shown, in the clock epoch it will be in. The
// epoch model is RFC 3550 §6.4.1 as a receiver uses it (srAccepted): the first
// sender report with a non-zero RTP timestamp on a control channel anchors
// presentation time 0 of that medium at that timestamp; ipchub takes one such
// anchor per medium. Presentation times before and after a re-anchoring are not
// comparable (C06 treats epochs separately), so the probe continues after the
// largest video presentation time seen, in the final epoch.
//
// It also notes (HLSJump) when the hostile packets move the presentation
// timeline in a way the probe cannot follow: an audio packet whose timestamp is
// more than a second away from its neighbours, an audio clock re-anchored after
// audio was already flowing, or a video timeline that cannot be continued
// inside 32 bits. That is the class of the listed finding sigHLSJump.
func planProbe(c *caseSpec) {
	var epoch int64
	anchored := false
	var maxPTS int64 = -1 << 62
	var maxTS uint32
	seen := false
	aAnchored, aSeen := false, false
	c.HLSJump = ""
	// audio timestamps of the valid packets, to place a hostile one among them
	var validATS []uint32
	var validAIdx []int
	for i := range c.Prefix {
		if c.Prefix[i].Ch == rtp.ChannelAudio {
			if ip, err := wire(rtp.ChannelAudio, c.Prefix[i].bytes()); err == nil {
				validATS = append(validATS, ip.Timestamp)
				validAIdx = append(validAIdx, i)
			}
		}
	}
	neighbour := func() (uint32, bool) { // timestamp of the valid audio packet nearest to the hostile position
		for k, i := range validAIdx {
			if i >= c.Pos {
				if k > 0 {
					return validATS[k-1], true
				}
				return validATS[k], true
			}
		}
		if len(validATS) > 0 {
			return validATS[len(validATS)-1], true
		}
		return 0, false
	}
	visit := func(p *pkt, hostile bool) {
		raw := p.bytes()
		switch p.Ch {
		case rtp.ChannelVideoControl:
			if x, ok := srAccepted(raw); ok && !anchored {
				epoch = int64(x)
				anchored = x != 0
			}
		case rtp.ChannelAudioControl:
			if x, ok := srAccepted(raw); ok && !aAnchored && x != 0 {
				aAnchored = true
				if aSeen && c.Audio {
					c.HLSJump = "audio clock anchored after audio packets had been converted"
				}
			}
		case rtp.ChannelAudio:
			if ip, err := wire(p.Ch, raw); err == nil {
				aSeen = true
				if n, ok := neighbour(); hostile && ok && c.Audio {
					d := int64(ip.Timestamp) - int64(n)
					if d < -44100 || d > 44100 {
						c.HLSJump = "audio packet with a timestamp more than a second off the stream's"
					}
				}
			}
		case rtp.ChannelVideo:
			if ip, err := wire(p.Ch, raw); err == nil {
				seen = true
				if pts := int64(ip.Timestamp) - epoch; pts > maxPTS {
					maxPTS = pts
				}
				if ip.Timestamp > maxTS {
					maxTS = ip.Timestamp
				}
			}
		}
	}
	for i := 0; i <= len(c.Prefix); i++ {
		if i == c.Pos {
			for h := range c.Hostile {
				visit(&c.Hostile[h], true)
			}
		}
		if i < len(c.Prefix) {
			visit(&c.Prefix[i], false)
		}
	}
	if !seen {
		maxPTS = -epoch
	}
	// continue after the largest presentation time seen, and not before
	// presentation time 0 of the final epoch (a sender whose report says "the clock
	// reads X now" goes on with timestamps from X, not with ones that lie before it)
	next := maxPTS + probeStep
	if next < 0 {
		next = 0
	}
	ts0 := epoch + next
	if ts0 < 0 || ts0+12*probeStep > 0xffffffff {
		// the final epoch cannot be continued inside the 32-bit timestamp range (an
		// anchor near the top of the range, or a corrupted timestamp near it):
		// wrap-around is outside the quantifier (as in C06); continue from the largest
		// timestamp of the valid stream instead and say so
		c.ProbeTS = maxTS + probeStep
		if uint64(maxTS)+13*probeStep > 0xffffffff {
			c.ProbeTS = 90000
		}
		c.HLSJump = "video presentation timeline cannot be continued inside the 32-bit timestamp range"
		return
	}
	c.ProbeTS = uint32(ts0)
}

// ---------------------------------------------------------------- evidence

func reachOf(c *caseSpec, res *result) []string {
	var out []string
	// which sync clocks are still unset when the hostile packets arrive
	vOpen, aOpen := true, true
	for i := 0; i < c.Pos && i < len(c.Prefix); i++ {
		if x, ok := srAccepted(c.Prefix[i].bytes()); ok && x != 0 {
			switch c.Prefix[i].Ch {
			case rtp.ChannelVideoControl:
				vOpen = false
			case rtp.ChannelAudioControl:
				aOpen = false
			}
		}
	}
	for h := range c.Hostile {
		if h >= len(res.Reached) || !res.Reached[h] {
			out = append(out, "stopped at input validation (ReadPacket)")
			continue
		}
		switch c.Hostile[h].Ch {
		case rtp.ChannelVideo:
			out = append(out, "reached cache classifier + "+c.Codec+" depacketiser")
		case rtp.ChannelAudio:
			if c.Audio {
				out = append(out, "reached AAC depacketiser")
			} else {
				out = append(out, "audio channel of a stream without audio")
			}
		case rtp.ChannelVideoControl:
			if vOpen {
				out = append(out, "reached sync clock (video)")
			} else {
				out = append(out, "control packet after the clock was set")
			}
		case rtp.ChannelAudioControl:
			if aOpen && c.Audio {
				out = append(out, "reached sync clock (audio)")
			} else {
				out = append(out, "control packet after the clock was set / no audio")
			}
		}
	}
	return out
}

func record(c *caseSpec, res *result, label string) {
	nt := false
	for _, r := range reachOf(c, res) {
		evid.Class(label + ": " + r)
		if len(r) > 7 && r[:7] == "reached" {
			nt = true
		}
	}
	evid.Class(label + ": class " + classHead(c.Class))
	outs := "RTP"
	if res.HasFLV {
		outs += "+FLV"
	}
	if res.HasHLS {
		outs += "+HLS"
	}
	evid.Class(label + ": continuation judged on " + outs)
	if c.BadAac {
		evid.Class(label + ": SDP with undecodable AAC config")
	}
	if nt {
		parts := []any{c.Codec, c.Audio, c.CacheGop, c.NoSprop, c.BadAac, c.Pos, len(c.Prefix)}
		for h := range c.Hostile {
			parts = append(parts, c.Hostile[h].Ch, c.Hostile[h].bytes())
		}
		evid.Nontrivial(evid.FP(parts...))
		if evid.WantSample(classHead(c.Class)) {
			var hs []string
			for h := range c.Hostile {
				hs = append(hs, fmt.Sprintf("%s %s", channelName(c.Hostile[h].Ch), evid.Hex(c.Hostile[h].bytes())))
			}
			evid.Sample(classHead(c.Class), map[string]any{"codec": c.Codec, "audio": c.Audio, "cache_gop": c.CacheGop, "sdp_sprop": !c.NoSprop, "prefix_packets": len(c.Prefix), "position": c.Pos, "class": c.Class, "hostile": hs, "reach": reachOf(c, res)})
		}
	}
}

func classHead(s string) string {
	for i := 0; i < len(s); i++ {
		if s[i] == ':' || s[i] == ' ' {
			return s[:i]
		}
	}
	return s
}

// ---------------------------------------------------------------- tests

func structured(t *testing.T, v variant, quick, thorough int) {
	evid.Rule(ruleText)
	evid.Assume("the interleaved-frame reader rtp.ReadPacket (with pion/rtp's header parser) decides which frames reach a stream; frames it refuses are judged in layer C only")
	evid.Checks(quick, thorough) // process-wide flag: set (to the same value) before going parallel
	t.Parallel()
	rapid.Check(t, func(t *rapid.T) {
		c := genCase(t, v)
		evid.Eval(1)
		res := judge(t, "structured-"+v.name, c)
		record(c, res, "structured")
	})
}

// Four rapid campaigns run in parallel (rapid itself is single-threaded). They
// differ in their generator configuration, which also makes their case streams
// different under one -rapid.seed.
func TestContainmentH264(t *testing.T) {
	structured(t, variant{name: "h264", codec: "H264", classLo: 0, classHi: 19, fu: true}, 1200, 20000)
}
func TestContainmentH265(t *testing.T) {
	structured(t, variant{name: "h265", codec: "H265", classLo: 0, classHi: 19, fu: true}, 1200, 20000)
}
func TestContainmentAudioControlHeader(t *testing.T) {
	structured(t, variant{name: "audio-control-header", codec: "H264", forceAudio: true, classLo: 9, classHi: 15}, 1200, 20000)
}
func TestContainmentCorruptions(t *testing.T) {
	structured(t, variant{name: "corruptions", classLo: 16, classHi: 19}, 1200, 20000)
}

// TestReplayFile re-runs the case of a violation file written by this package.
func TestReplayFile(t *testing.T) {
	b := replayOrSkip(t)
	var doc struct {
		Check string `json:"check"`
		Case  struct {
			Case *caseSpec `json:"case"`
		} `json:"case"`
	}
	if err := json.Unmarshal(b, &doc); err != nil || doc.Case.Case == nil {
		t.Fatalf("replay file does not hold a C07 case: %v", err)
	}
	judge(t, "replay", doc.Case.Case)
}
