package c07

import (
	"encoding/binary"
	"fmt"

	"github.com/cnotch/ipchub/av/format/rtp"
	"verif/harness/lib/rtppack"
	"verif/harness/lib/rtppack/esgen"
)

// Hostile constants: each is an RTP *payload* (media channels) or a whole RTCP
// packet (control channels). They seed the structured classes and the native
// fuzz corpora.

type hostile struct {
	Name string
	B    []byte
}

func hx(b ...byte) []byte { return b }

// H.264 payloads (RFC 6184): type 24 STAP-A, 25 STAP-B, 26/27 MTAP, 28 FU-A, 29 FU-B.
var hostileH264 = []hostile{
	{"empty", hx()},
	{"one-byte-idr", hx(0x65)},
	{"one-byte-stapa", hx(0x78)},
	{"one-byte-fua", hx(0x7c)},
	{"stapa-no-size", hx(0x78, 0x00)},
	{"stapa-size1-no-unit", hx(0x78, 0x00, 0x01)},                                  // DESIGN C07-i
	{"stapa-size-beyond", hx(0x78, 0x00, 0x05, 0x67)},                              // size 5, 1 byte present
	{"stapa-size-ffff", hx(0x78, 0xff, 0xff, 0x67, 0x42)},                          // oversized
	{"stapa-size0", hx(0x78, 0x00, 0x00, 0x67)},                                    // zero-size unit
	{"stapa-trailing-byte", hx(0x78, 0x00, 0x01, 0x67, 0x00)},                      // one byte where a size is due
	{"stapa-second-size-cut", hx(0x78, 0x00, 0x02, 0x67, 0x42, 0x00)},              // second size field cut in half
	{"stapa-second-unit-missing", hx(0x78, 0x00, 0x02, 0x68, 0xce, 0x00, 0x04)},    // second size, no unit
	{"stapa-exact-then-size-at-end", hx(0x78, 0x00, 0x01, 0x65, 0x00, 0x01)},       // second unit of size 1 absent
	{"stapb", hx(0x79, 0x00, 0x01, 0x00, 0x02, 0x65, 0x88)},                        // STAP-B (DON)
	{"stapb-short", hx(0x79, 0x00, 0x01)},                                          // classified like STAP-A by the cache
	{"mtap16-short", hx(0x7a, 0x00, 0x01)},                                         //
	{"mtap24-short", hx(0x7b, 0xff, 0xff, 0x00)},                                   //
	{"fua-indicator-only", hx(0x7c)},                                               //
	{"fua-header-only", hx(0x7c, 0x85)},                                            // start, type 5, no data
	{"fua-header-only-end", hx(0x7c, 0x45)},                                        // end, no data
	{"fua-start-and-end", hx(0x7c, 0xc5, 0x88)},                                    // S and E both
	{"fua-end-without-start", hx(0x7c, 0x45, 0x88, 0x99)},                          //
	{"fua-type0", hx(0x7c, 0x80, 0x11)},                                            // fragmented unit of type 0
	{"fua-type-sps", hx(0x7c, 0x87, 0x42)},                                         // fragment of an SPS
	{"fub-short", hx(0x7d, 0x85)},                                                  //
	{"reserved30", hx(0x7e, 0x00, 0x01)},                                           //
	{"reserved31", hx(0x7f, 0xff, 0xff, 0xff)},                                     //
	{"forbidden-bit", hx(0xe5, 0x88, 0x80)},                                        // F=1
	{"sps-one-byte", hx(0x67)},                                                     // SPS header only
	{"sps-truncated", esgen.RealH264SPS[:5]},                                       //
	{"pps-one-byte", hx(0x68)},                                                     //
	{"idr-two-bytes", hx(0x65, 0x88)},                                              //
	{"filler", hx(0x0c, 0xff, 0xff, 0x80)},                                         // type 12
	{"type0", hx(0x00, 0x00, 0x00)},                                                //
	{"stapa-holding-stapa", hx(0x78, 0x00, 0x04, 0x78, 0x00, 0x01, 0x65)},          // nested aggregate
	{"stapa-holding-fua", hx(0x78, 0x00, 0x03, 0x7c, 0x85, 0x88)},                  //
	{"stapa-holding-one-byte-units", hx(0x78, 0x00, 0x01, 0x67, 0x00, 0x01, 0x68)}, //
}

// H.265 payloads (RFC 7798): type 48 AP, 49 FU, 50 PACI. Payload header byte 0 =
// F(1) Type(6) LayerId-high(1).
var hostileH265 = []hostile{
	{"empty", hx()},
	{"one-byte", hx(0x26)},
	{"header-only-idr", hx(0x26, 0x01)},
	{"ap-header-only", hx(0x60, 0x01)},
	{"ap-half-size", hx(0x60, 0x01, 0x00)},
	{"ap-size1-no-unit", hx(0x60, 0x01, 0x00, 0x01)},
	{"ap-size-beyond", hx(0x60, 0x01, 0x00, 0x09, 0x40, 0x01)},
	{"ap-size-ffff", hx(0x60, 0x01, 0xff, 0xff, 0x40, 0x01, 0x0c)},
	{"ap-size0", hx(0x60, 0x01, 0x00, 0x00, 0x40)},
	{"ap-trailing-byte", hx(0x60, 0x01, 0x00, 0x02, 0x40, 0x01, 0x00)},
	{"ap-unit-of-one-byte", hx(0x60, 0x01, 0x00, 0x01, 0x42, 0x00, 0x01, 0x44)},
	{"ap-second-unit-missing", hx(0x60, 0x01, 0x00, 0x02, 0x44, 0x01, 0x00, 0x03)},
	{"fu-header-only", hx(0x62, 0x01)},
	{"fu-no-data-start", hx(0x62, 0x01, 0x93)},
	{"fu-no-data-end", hx(0x62, 0x01, 0x53)},
	{"fu-start-and-end", hx(0x62, 0x01, 0xd3, 0x88)},
	{"fu-end-without-start", hx(0x62, 0x01, 0x53, 0x88, 0x99)},
	{"fu-type-vps", hx(0x62, 0x01, 0xa0, 0x0c)},
	{"paci", hx(0x64, 0x01, 0x00, 0x00, 0x26, 0x01)},
	{"type63", hx(0x7e, 0x01, 0x00)},
	{"forbidden-bit", hx(0xa6, 0x01, 0x88)},
	{"vps-header-only", hx(0x40, 0x01)},
	{"sps-truncated", esgen.RealH265SPS[:6]},
	{"pps-one-byte-body", hx(0x44, 0x01, 0xc1)},
	{"ap-holding-ap", hx(0x60, 0x01, 0x00, 0x05, 0x60, 0x01, 0x00, 0x01, 0x26)},
	{"ap-holding-fu", hx(0x60, 0x01, 0x00, 0x03, 0x62, 0x01, 0x93)},
}

// AAC-hbr payloads (RFC 3640 §3.2.1, §3.3.6): 16-bit AU-headers-length in bits,
// then 16-bit AU headers (13-bit size, 3-bit index), then the AUs.
var hostileAac = []hostile{
	{"empty", hx()}, // DESIGN C07-iii
	{"one-byte", hx(0x00)},
	{"headers-length-only", hx(0x00, 0x10)},
	{"headers-length-zero", hx(0x00, 0x00)},
	{"headers-length-zero-with-data", hx(0x00, 0x00, 0x21, 0x10, 0x04)},
	{"headers-length-beyond", hx(0xff, 0xff, 0x00, 0x08)},
	{"headers-length-8-bits", hx(0x00, 0x08, 0x20, 0x11)},
	{"headers-length-odd", hx(0x00, 0x11, 0x00, 0x08, 0x21)},
	{"au-size-beyond", hx(0x00, 0x10, 0xff, 0xf8)}, // size 8191, no data — DESIGN C07-iii
	{"au-size-beyond-by-one", hx(0x00, 0x10, 0x00, 0x10, 0x21)},
	{"au-size-zero", hx(0x00, 0x10, 0x00, 0x00)},
	{"second-au-beyond", hx(0x00, 0x20, 0x00, 0x08, 0x00, 0x10, 0x21)},
	{"second-header-missing", hx(0x00, 0x20, 0x00, 0x08, 0x21)},
	{"three-headers-one-byte", hx(0x00, 0x30, 0x00)},
}

// RTCP on the control channels. Sender report = PT 200 (RFC 3550 §6.4.1), 28
// bytes without report blocks; ipchub's sync clock reads bytes 1 and 8..19.
func hostileRtcp() []hostile {
	full := rtppack.SenderReport(7, 3900000000, 0, 90000, 1, 100)
	out := []hostile{}
	for n := 0; n <= 28; n++ {
		out = append(out, hostile{Name: "sr-cut-" + itoa(n), B: append([]byte{}, full[:n]...)})
	}
	for _, pt := range []byte{201, 202, 203, 204, 0, 96} {
		b := append([]byte{}, full...)
		b[1] = pt
		out = append(out, hostile{Name: "pt" + itoa(int(pt)), B: b}, hostile{Name: "pt" + itoa(int(pt)) + "-4bytes", B: append([]byte{}, b[:4]...)})
	}
	out = append(out,
		hostile{"sr-4-bytes", hx(0x80, 0xc8, 0x00, 0x00)}, // DESIGN C07-ii
		hostile{"sr-length-lies", append(hx(0x80, 0xc8, 0xff, 0xff), full[4:12]...)},
		hostile{"sr-rtptime-zero", rtppack.SenderReport(7, 3900000000, 0, 0, 1, 100)},
		hostile{"sr-ntp-before-1970", rtppack.SenderReport(7, 1, 0, 90000, 1, 100)},
		hostile{"sr-ntp-max", rtppack.SenderReport(7, 0xffffffff, 0xffffffff, 0xffffffff, 1, 100)},
	)
	return out
}

func itoa(n int) string {
	if n == 0 {
		return "0"
	}
	s := ""
	for n > 0 {
		s = string(rune('0'+n%10)) + s
		n /= 10
	}
	return s
}

// rtpHeader renders the 12-byte fixed header (RFC 3550 §5.1).
func rtpHeader(pt byte, marker bool, seq uint16, ts, ssrc uint32) []byte {
	return rtppack.Pkt{PT: pt, Marker: marker, Seq: seq, TS: ts, SSRC: ssrc}.Marshal()
}

// mediaPacket puts payload behind a valid fixed header.
func mediaPacket(pt byte, marker bool, seq uint16, ts uint32, payload []byte) []byte {
	return append(rtpHeader(pt, marker, seq, ts, probeSSRC+2), payload...)
}

// Header-level hostile packets for a media channel: these are whole RTP packets.
// RFC 3550 §5.1: V(2) P X CC(4) | M PT | seq | ts | ssrc | CC x CSRC; §5.3.1:
// X=1 adds a 16-bit profile, a 16-bit length in 32-bit words, then the data.
func hostileRtpHeaders(pt byte, seq uint16, ts uint32, payload []byte) []hostile {
	base := mediaPacket(pt, true, seq, ts, payload)
	mod := func(f func(b []byte) []byte) []byte { return f(append([]byte{}, base...)) }
	out := []hostile{}
	for n := 0; n < 12; n++ {
		out = append(out, hostile{"header-cut-" + itoa(n), append([]byte{}, base[:n]...)})
	}
	out = append(out,
		hostile{"version-0", mod(func(b []byte) []byte { b[0] &= 0x3f; return b })},
		hostile{"version-3", mod(func(b []byte) []byte { b[0] |= 0xc0; return b })},
		hostile{"padding-bit-no-padding", mod(func(b []byte) []byte { b[0] |= 0x20; return b })},
		hostile{"padding-count-beyond", mod(func(b []byte) []byte { b[0] |= 0x20; b[len(b)-1] = 0xff; return b })},
		hostile{"csrc-15-missing", mod(func(b []byte) []byte { b[0] |= 0x0f; return b })},
		hostile{"csrc-1-eats-payload", mod(func(b []byte) []byte { b[0] |= 0x01; return append(b, 1, 2, 3, 4) })},
		hostile{"csrc-exactly-fills", mod(func(b []byte) []byte { b = b[:12]; b[0] |= 0x02; return append(b, 1, 2, 3, 4, 5, 6, 7, 8) })},
		hostile{"extension-bit-nothing-follows", mod(func(b []byte) []byte { b = b[:12]; b[0] |= 0x10; return b })},
		hostile{"extension-length-beyond", mod(func(b []byte) []byte { b = b[:12]; b[0] |= 0x10; return append(b, 0xbe, 0xde, 0xff, 0xff, 0x10) })},
		hostile{"extension-eats-all", mod(func(b []byte) []byte { b = b[:12]; b[0] |= 0x10; return append(b, 0x12, 0x34, 0x00, 0x01, 9, 9, 9, 9) })},
		hostile{"extension-onebyte-runs-over", mod(func(b []byte) []byte {
			b = b[:12]
			b[0] |= 0x10
			return append(b, 0xbe, 0xde, 0x00, 0x01, 0x1f, 0x00, 0x00, 0x00, 0x65, 0x88)
		})},
		hostile{"extension-twobyte-runs-over", mod(func(b []byte) []byte {
			b = b[:12]
			b[0] |= 0x10
			return append(b, 0x10, 0x00, 0x00, 0x01, 0x01, 0xff, 0x00, 0x00)
		})},
		hostile{"extension-then-payload", mod(func(b []byte) []byte {
			p := append([]byte{}, b[12:]...)
			b = b[:12]
			b[0] |= 0x10
			b = append(b, 0x12, 0x34, 0x00, 0x01, 9, 9, 9, 9)
			return append(b, p...)
		})},
		hostile{"payload-type-other", mod(func(b []byte) []byte { b[1] = b[1]&0x80 | 0x7f; return b })},
	)
	return out
}

// srAccepted applies RFC 3550 §6.4.1 the way a receiver that only wants the
// timestamp pair needs it: packet type 200 and at least the 20 bytes up to and
// including the RTP timestamp. It returns that RTP timestamp.
func srAccepted(b []byte) (rtpTS uint32, ok bool) {
	if len(b) >= 20 && b[1] == 200 {
		return binary.BigEndian.Uint32(b[16:]), true
	}
	return 0, false
}

func channelName(ch byte) string {
	switch ch {
	case rtp.ChannelVideo:
		return "video"
	case rtp.ChannelVideoControl:
		return "video-control"
	case rtp.ChannelAudio:
		return "audio"
	case rtp.ChannelAudioControl:
		return "audio-control"
	}
	return "unknown-channel"
}

// ---------------------------------------------------------------- never-ending fragmentation units

// neverEndingFU builds whole RTP packets: one start fragment and `middles`
// middle fragments (neither S nor E set) of fragSize payload bytes each, with
// consecutive sequence numbers and one timestamp; with end=true a final
// fragment with the E bit closes the unit. RFC 6184 §5.8 (FU-A: indicator type
// 28, header S|E|R|type) / RFC 7798 §4.4.3 (FU: payload header type 49, FU
// header S|E|type). The fragmented unit is an IDR slice (key) or a non-key slice.
func neverEndingFU(codec esgen.Codec, middles, fragSize int, seq uint16, ts uint32, key, end bool) [][]byte {
	if fragSize < 1 {
		fragSize = 1
	}
	data := make([]byte, fragSize)
	for i := range data {
		data[i] = 0x80 | byte(i*5+i>>7)&0x7f
	}
	var hdr func(s, e bool) []byte
	if codec == esgen.H264 {
		typ := byte(1)
		if key {
			typ = 5
		}
		hdr = func(s, e bool) []byte {
			h := typ
			if s {
				h |= 0x80
			}
			if e {
				h |= 0x40
			}
			return []byte{0x60 | 28, h}
		}
	} else {
		typ := byte(1)
		if key {
			typ = 19
		}
		hdr = func(s, e bool) []byte {
			h := typ
			if s {
				h |= 0x80
			}
			if e {
				h |= 0x40
			}
			return []byte{49 << 1, 0x01, h}
		}
	}
	var out [][]byte
	add := func(s, e bool) {
		pl := append(hdr(s, e), data...)
		out = append(out, rtppack.Pkt{PT: 96, Marker: e, Seq: seq, TS: ts, SSRC: probeSSRC + 2, Payload: pl}.Marshal())
		seq++
	}
	add(true, false)
	for i := 0; i < middles; i++ {
		add(false, false)
	}
	if end {
		add(false, true)
	}
	return out
}

// ---------------------------------------------------------------- RTP padding

// paddingVariants: RFC 3550 §5.1 — with the P bit set the last octet of the
// packet says how many padding octets (itself included) are to be ignored. The
// variants set the P bit on header+payload and put every interesting count into
// the last octet (0, 1, len(payload)±1, len(payload), len(packet)-12,
// len(packet), 255), and also build correctly padded packets (payload followed
// by c-1 zero octets and the count c).
func paddingVariants(pt byte, marker bool, seq uint16, ts uint32, payload []byte) []hostile {
	base := mediaPacket(pt, marker, seq, ts, payload)
	base[0] |= 0x20
	var out []hostile
	seen := map[int]bool{}
	if len(payload) > 0 {
		for _, c := range []int{0, 1, len(payload) - 1, len(payload), len(payload) + 1, len(base) - 12, len(base), 255} {
			if c < 0 || seen[c&0xff] {
				continue
			}
			seen[c&0xff] = true
			b := append([]byte{}, base...)
			b[len(b)-1] = byte(c)
			out = append(out, hostile{fmt.Sprintf("p-bit-last-octet-%d-payload-%d", c&0xff, len(payload)), b})
		}
	} else {
		out = append(out, hostile{"p-bit-no-payload", append([]byte{}, base...)})
	}
	for _, c := range []int{1, 2, 4, 255} {
		b := append([]byte{}, base...)
		b = append(b, make([]byte, c-1)...)
		b = append(b, byte(c))
		out = append(out, hostile{fmt.Sprintf("correctly-padded-%d-payload-%d", c, len(payload)), b})
	}
	return out
}

// ---------------------------------------------------------------- the other RFC 6184 / RFC 7798 payload structures

// Well-formed packets of the payload structures real encoders hardly ever send
// but a receiver must survive: RFC 6184 §5.7.1 STAP-B (type 25: 16-bit DON after
// the header), §5.7.2 MTAP16 / MTAP24 (types 26 / 27: 16-bit DONB, then per unit
// a 16-bit size that covers DOND(8) + TS offset(16 / 24) + the NAL unit), §5.8
// FU-B (type 29: FU-A plus a 16-bit DON after the FU header); RFC 7798 §4.4.4
// PACI (type 50: payload header, then A(1) cType(6) PHSsize(5) F0..2(3) Y(1),
// PHSsize octets of extension, then the payload of the carried packet) and the
// reserved payload header types 51..63.

func h264StapB(don uint16, nals [][]byte) []byte {
	p := []byte{0x60 | 25, byte(don >> 8), byte(don)}
	for _, n := range nals {
		p = append(p, byte(len(n)>>8), byte(len(n)))
		p = append(p, n...)
	}
	return p
}

func h264Mtap(tsOffsetBytes int, donb uint16, nals [][]byte) []byte {
	typ := byte(26)
	if tsOffsetBytes == 3 {
		typ = 27
	}
	p := []byte{0x60 | typ, byte(donb >> 8), byte(donb)}
	for i, n := range nals {
		size := 1 + tsOffsetBytes + len(n)
		p = append(p, byte(size>>8), byte(size), byte(i)) // size, DOND
		for k := 0; k < tsOffsetBytes; k++ {
			p = append(p, byte(0x10*i+k)) // TS offset
		}
		p = append(p, n...)
	}
	return p
}

func h264FuB(nal []byte, don uint16, start, end bool) []byte {
	h := nal[0] & 0x1f
	if start {
		h |= 0x80
	}
	if end {
		h |= 0x40
	}
	return append([]byte{nal[0]&0xe0 | 29, h, byte(don >> 8), byte(don)}, nal[1:]...)
}

func h265Paci(nal []byte, phes []byte) []byte {
	ctype := nal[0] >> 1 & 0x3f
	v := uint16(ctype)<<9 | uint16(len(phes)&0x1f)<<4
	p := []byte{nal[0]&0x81 | 50<<1, nal[1], byte(v >> 8), byte(v)}
	p = append(p, phes...)
	return append(p, nal[2:]...)
}

var (
	refIdr264 = append([]byte{0x65, 0x88, 0x84}, bytesOf(0x91, 20)...)
	refIdr265 = append([]byte{19 << 1, 0x01, 0xaf}, bytesOf(0x91, 20)...)
)

func bytesOf(b byte, n int) []byte {
	out := make([]byte, n)
	for i := range out {
		out[i] = b
	}
	return out
}

// otherStructures returns well-formed-looking packets of those types.
func otherStructures(codec esgen.Codec) []hostile {
	if codec == esgen.H264 {
		return []hostile{
			{"stapb-sps-pps-idr", h264StapB(7, [][]byte{esgen.RealH264SPS, esgen.RealH264PPS, refIdr264})},
			{"mtap16-sps-pps-idr", h264Mtap(2, 7, [][]byte{esgen.RealH264SPS, esgen.RealH264PPS, refIdr264})},
			{"mtap24-sps-pps-idr", h264Mtap(3, 7, [][]byte{esgen.RealH264SPS, esgen.RealH264PPS, refIdr264})},
			{"mtap16-one-unit", h264Mtap(2, 0xffff, [][]byte{refIdr264})},
			{"mtap24-one-unit", h264Mtap(3, 0, [][]byte{{0x41, 0x9a}})},
			{"fub-start", h264FuB(refIdr264, 9, true, false)},
			{"fub-whole", h264FuB(refIdr264, 9, true, true)},
			{"fub-end", h264FuB(refIdr264, 9, false, true)},
			// the seeded-change shapes: an MTAP cut inside DOND / TS offset after a non-zero size
			{"mtap16-cut-after-size", hx(0x7a, 0x00, 0x01, 0x00, 0x08)},
			{"mtap16-cut-in-dond", hx(0x7a, 0x00, 0x01, 0x00, 0x08, 0x00)},
			{"mtap16-cut-in-ts-offset", hx(0x7a, 0x00, 0x01, 0x00, 0x08, 0x00, 0x00)},
			{"mtap24-cut-in-ts-offset", hx(0x7b, 0x00, 0x01, 0x00, 0x08, 0x00, 0x00, 0x00)},
			{"stapb-cut-after-don", hx(0x79, 0x00, 0x01, 0x00)},
		}
	}
	out := []hostile{
		{"paci-idr", h265Paci(refIdr265, nil)},
		{"paci-with-extension", h265Paci(refIdr265, []byte{0x80, 0x01, 0x02})},
		{"paci-phssize-beyond", append(append([]byte{}, h265Paci(refIdr265, make([]byte, 31))[:4]...), 0x80, 0x01)}, // PHSsize 31, 2 octets present
		{"paci-header-only", hx(0x64, 0x01)},
		{"paci-three-bytes", hx(0x64, 0x01, 0x26)},
		{"paci-carrying-ap", h265Paci(append([]byte{0x60, 0x01}, 0x00, 0x03, 0x26, 0x01, 0xaf), nil)},
	}
	for typ := byte(51); typ <= 63; typ++ {
		out = append(out, hostile{fmt.Sprintf("reserved-type-%d", typ), append([]byte{typ << 1, 0x01}, refIdr265[2:]...)})
	}
	out = append(out, hostile{"reserved-type-63-two-bytes", hx(63<<1, 0x01)}, hostile{"reserved-type-51-three-bytes", hx(51<<1, 0x01, 0x00)})
	return out
}

func init() {
	hostileH264 = append(hostileH264, otherStructures(esgen.H264)...)
	hostileH265 = append(hostileH265, otherStructures(esgen.H265)...)
}
