package c07

import (
	"fmt"
	"testing"

	"github.com/cnotch/ipchub/av/format/rtp"
	"verif/harness/lib/evid"
	"verif/harness/lib/rtppack"
	"verif/harness/lib/rtppack/esgen"
)

// Never-ending and huge fragmentation units: a start fragment followed by many
// consecutive middle fragments without an end bit, so that the unit under
// reassembly grows to megabytes; then the unit is (a) finally ended by an end
// fragment, (b) abandoned and followed by the start fragment of a well-formed
// fragmented key picture, (c) abandoned and followed by a single NAL unit
// packet. Afterwards the usual probe runs; its fragmented key pictures must be
// converted like the others (RTP, FLV, and one of them in an HLS segment).

type fuShape struct {
	middles, fragSize int
}

func fuCase(codec esgen.Codec, sh fuShape, variant string, key bool) *caseSpec {
	c := &caseSpec{Codec: codec.String(), Audio: true, CacheGop: true}
	c.Prefix = plainPrefix(codec, true, 1, 90000)
	c.Pos = len(c.Prefix)
	total := (sh.middles + 1) * sh.fragSize
	c.Class = fmt.Sprintf("never-ending-fu:%s:%dx%dB=%.1fMiB", variant, sh.middles+1, sh.fragSize, float64(total)/(1<<20))
	c.FU = &fuRecipe{Middles: sh.middles, FragSize: sh.fragSize, Seq: 5000, TS: 90000 + probeStep, Key: key, Ended: variant == "ended"}
	c.materialize()
	if (sh.middles+1)*sh.fragSize > 1<<20 {
		c.BoundScale = 8 // megabytes through demuxer, FLV and TS muxers: be patient on a loaded machine
	}
	switch variant {
	case "abandoned-then-start-fragment":
		c.ProbeRot = 2
	case "abandoned-then-single-nal":
		c.ProbeRot = 1
	}
	planProbe(c)
	return c
}

func TestNeverEndingFragmentationUnits(t *testing.T) {
	evid.Rule(ruleText)
	shapes := []fuShape{{300, 1}, {60, 1400}, {84, 65000}} // the last one: 85 fragments of 65 000 bytes = 5.3 MiB under reassembly
	// One unit of 301 x 65 000 bytes = 18.7 MiB per codec in the quick tier, as a KEY
	// picture with ONE timestamp (no jump of the presentation timeline): ended, it
	// becomes a single 18.7 MiB frame that lands in one FLV tag and one HLS
	// segment; on odd seeds the abandoned variants carry it too.
	huge := []fuShape{{300, 65000}}
	if evid.Thorough() {
		shapes = append(shapes, fuShape{2000, 3}, fuShape{128, 65500}, fuShape{257, 65500}) // 8 MiB and 16.1 MiB
		huge = append(huge, fuShape{390, 65500}, fuShape{640, 65500})                       // 24.4 MiB and 40 MiB
	}
	for _, codec := range []esgen.Codec{esgen.H264, esgen.H265} {
		for vi, variant := range []string{"ended", "abandoned-then-start-fragment", "abandoned-then-single-nal"} {
			codec, variant, vi := codec, variant, vi
			t.Run(codec.String()+"/"+variant, func(t *testing.T) {
				t.Parallel()
				for i, sh := range shapes {
					evid.Eval(1)
					c := fuCase(codec, sh, variant, i%2 == 0)
					record(c, judge(t, "never-ending-fu", c), "never-ending-fu")
				}
				if variant == "ended" || (evid.Seed()+int64(vi))%2 == 0 || evid.Thorough() {
					for _, sh := range huge {
						evid.Eval(1)
						c := fuCase(codec, sh, variant, true)
						record(c, judge(t, "never-ending-fu-huge", c), "never-ending-fu")
					}
				}
			})
		}
	}
}

// RTP padding, enumerated: P bit with every interesting pad count in the last
// octet, and correctly padded packets, on payloads of 1..8 bytes and on normal
// packets (single NAL unit, aggregate, last fragment of an open fragmented
// unit, AAC), video and audio channel.
func TestEnumeratePadding(t *testing.T) {
	evid.Rule(ruleText)
	for _, codec := range []esgen.Codec{esgen.H264, esgen.H265} {
		codec := codec
		t.Run(codec.String(), func(t *testing.T) {
			t.Parallel()
			const ts = 90000 + probeStep
			ats := uint32(uint64(ts) * 44100 / 90000)
			type src struct {
				name    string
				ch      byte
				pt      byte
				ts      uint32
				payload []byte
				context []pkt
			}
			var srcs []src
			hdr := []byte{0x65}
			if codec == esgen.H265 {
				hdr = []byte{19 << 1, 0x01}
			}
			for n := 1; n <= 8; n++ {
				pl := append([]byte{}, hdr...)
				for len(pl) < n {
					pl = append(pl, 0x80|byte(len(pl)))
				}
				srcs = append(srcs, src{fmt.Sprintf("video-%d-bytes", n), rtp.ChannelVideo, 96, ts, pl[:n], nil})
				srcs = append(srcs, src{fmt.Sprintf("audio-%d-bytes", n), rtp.ChannelAudio, 97, ats, rtppack.AacHbr([][]byte{{0x21, 0x10, 0x04, 0x60}})[:n], nil})
			}
			aus := buildProbe(codec, false, 3, ts, 400, 0)
			srcs = append(srcs, src{"video-aggregate", rtp.ChannelVideo, 96, ts, aus[0].pkts[0].Payload(), nil})
			srcs = append(srcs, src{"video-single", rtp.ChannelVideo, 96, ts, aus[1].pkts[0].Payload(), nil})
			var ctx []pkt
			for _, p := range aus[2].pkts[:len(aus[2].pkts)-1] {
				ctx = append(ctx, mkPkt(rtp.ChannelVideo, p.Data, "valid fragment"))
			}
			lastFrag := aus[2].pkts[len(aus[2].pkts)-1]
			srcs = append(srcs, src{"video-last-fragment", rtp.ChannelVideo, 96, ts, lastFrag.Payload(), ctx})
			srcs = append(srcs, src{"audio-two-aus", rtp.ChannelAudio, 97, ats, rtppack.AacHbr([][]byte{{0x21, 0x10, 0x04, 0x60, 0x8c}, {0x21, 0x11, 0x45}}), nil})
			for _, sc := range srcs {
				seq := uint16(900)
				if sc.name == "video-last-fragment" {
					seq = lastFrag.SequenceNumber // continues the open unit
				}
				for _, h := range paddingVariants(sc.pt, true, seq, sc.ts, sc.payload) {
					evid.Eval(1)
					c := &caseSpec{Codec: codec.String(), Audio: true, CacheGop: true, Class: "padding:" + sc.name + ":" + h.Name}
					c.Prefix = append(plainPrefix(codec, true, 1, 90000), sc.context...)
					c.Pos = len(c.Prefix)
					c.Hostile = []pkt{mkPkt(sc.ch, h.B, c.Class)}
					planProbe(c)
					record(c, judge(t, "enum-padding", c), "enum-padding")
				}
			}
		})
	}
}

// Hostile parameter-set units, enumerated: the real SPS / PPS (/ VPS) cut at
// EVERY length, with one bit flipped at every byte, and 1..3 bytes long; as a
// single NAL unit packet and inside an aggregate with a slice; as the very first
// packet of the stream and at a later position, where the stream's metadata is
// complete (from the SDP's sprop sets, or — third variant — from in-band sets of
// a stream without sprop sets). Besides continuation, the converted output must
// keep carrying the legitimate sets (parameterSetIdentity).
func TestEnumerateHostileParameterSets(t *testing.T) {
	evid.Rule(ruleText)
	for _, codec := range []esgen.Codec{esgen.H264, esgen.H265} {
		reals := [][]byte{esgen.RealH264SPS, esgen.RealH264PPS}
		slice := []byte{0x41, 0x9a, 0x02, 0x81, 0x82}
		agg := rtppack.H264StapA
		if codec == esgen.H265 {
			reals = [][]byte{esgen.RealH265VPS, esgen.RealH265SPS, esgen.RealH265PPS}
			slice = []byte{0x02, 0x01, 0xd0, 0x81, 0x82}
			agg = rtppack.H265AP
		}
		for _, real := range reals {
			codec, real := codec, real
			typ := codec.NalType(real)
			t.Run(fmt.Sprintf("%s/type%d", codec, typ), func(t *testing.T) {
				t.Parallel()
				var units []hostile
				for n := 1; n < len(real); n++ {
					units = append(units, hostile{fmt.Sprintf("cut-to-%d", n), real[:n]})
				}
				for o := codec.HeaderLen(); o < len(real); o++ {
					bits := []byte{0x80}
					if evid.Thorough() {
						bits = []byte{0x80, 0x01, 0x10}
					}
					for _, bit := range bits {
						b := append([]byte{}, real...)
						b[o] ^= bit
						units = append(units, hostile{fmt.Sprintf("byte%d-xor-%02x", o, bit), b})
					}
				}
				for _, tail := range [][]byte{{0x00}, {0xff, 0xff}, {0x42, 0x00}} {
					units = append(units, hostile{fmt.Sprintf("tiny-%d", codec.HeaderLen()+len(tail)), append(append([]byte{}, real[:codec.HeaderLen()]...), tail...)})
				}
				for _, u := range units {
					carriers := []hostile{{"single", u.B}}
					if len(u.B) >= codec.HeaderLen() {
						carriers = append(carriers, hostile{"aggregate-with-slice", agg([][]byte{u.B, slice})})
					}
					for _, cr := range carriers {
						for _, where := range []string{"first-packet", "later", "later-no-sprop"} {
							evid.Eval(1)
							c := &caseSpec{Codec: codec.String(), Audio: true, CacheGop: true, NoSprop: where == "later-no-sprop"}
							c.Class = fmt.Sprintf("hostile-parameter-set-enum:type%d:%s:%s:%s", typ, u.Name, cr.Name, where)
							c.Prefix = plainPrefix(codec, true, 2, 90000)
							c.Pos = len(c.Prefix)
							if where == "first-packet" {
								c.Pos = 0
							}
							c.Hostile = []pkt{mkPkt(rtp.ChannelVideo, mediaPacket(96, true, 777, 90000+probeStep, cr.B), c.Class)}
							planProbe(c)
							record(c, judge(t, "enum-hostile-parameter-set", c), "enum-hostile-ps")
						}
					}
				}
			})
		}
	}
}
