package c07

import (
	"bytes"
	"fmt"
	"github.com/cnotch/ipchub/media"
	"net"
	"sync"
	"sync/atomic"
	"testing"
	"time"

	"verif/harness/lib/evid"
	"verif/harness/lib/mediah"
	"verif/harness/lib/rtppack"
	"verif/harness/lib/rtppack/esgen"
	"verif/harness/lib/rtspc"
	"verif/harness/lib/srv"
)

// Layer C, players of the SAME stream. A RECORD publisher feeds a stream that
// three players watch over the three RTSP transports: RTP over UDP (SETUP with
// client_port on 127.0.0.1 sockets of the harness), interleaved over TCP, and
// interleaved over ws-rtsp. The publisher sends one good key access unit, one
// hostile or extreme frame, then K good key access units. Every player must
// receive the packets of the K access units, in order, after the hostile one
// (TCP / ws are flushed lazily by ipchub: fillers are published until the last
// probe packet has arrived; UDP: datagrams on the negotiated ports), and its
// RTSP connection must stay usable (OPTIONS answered 200).
//
// Extreme classes besides the hostile ones of the other wire tests: well-formed
// RTP packets too large for one UDP datagram (65508..65535 bytes: sendto fails
// with EMSGSIZE for the UDP player, who must merely miss that packet), packets
// of exactly 65507 bytes (the largest UDP payload), zero-length RTP data on a
// media channel.

const playersK = 3

type udpSink struct {
	conn *net.UDPConn
	mu   sync.Mutex
	got  [][]byte
}

func newUDPSink(t *testing.T) *udpSink {
	c, err := net.ListenUDP("udp4", &net.UDPAddr{IP: net.IPv4(127, 0, 0, 1)})
	if err != nil {
		t.Fatalf("machinery: udp listen: %v", err)
	}
	c.SetReadBuffer(4 << 20)
	u := &udpSink{conn: c}
	go func() {
		buf := make([]byte, 1<<16)
		for {
			n, _, err := c.ReadFromUDP(buf)
			if err != nil {
				return
			}
			u.mu.Lock()
			u.got = append(u.got, append([]byte{}, buf[:n]...))
			u.mu.Unlock()
		}
	}()
	return u
}

func (u *udpSink) port() int { return u.conn.LocalAddr().(*net.UDPAddr).Port }
func (u *udpSink) snapshot() [][]byte {
	u.mu.Lock()
	defer u.mu.Unlock()
	return append([][]byte{}, u.got...)
}
func (u *udpSink) has(b []byte) bool {
	for _, g := range u.snapshot() {
		if bytes.Equal(g, b) {
			return true
		}
	}
	return false
}

// playUDP runs OPTIONS, DESCRIBE, SETUP (RTP/AVP;unicast;client_port=a-b) per
// track and PLAY. sinks: video RTP, video RTCP, audio RTP, audio RTCP.
func playUDP(c *rtspc.Client, url string, sinks [4]*udpSink) error {
	if r, err := c.Do("OPTIONS", url, nil, nil); err != nil || r.Status != 200 {
		return fmt.Errorf("OPTIONS: %v %v", r, err)
	}
	d, err := c.Do("DESCRIBE", url, map[string]string{"Accept": "application/sdp"}, nil)
	if err != nil || d.Status != 200 {
		return fmt.Errorf("DESCRIBE: %v %v", d, err)
	}
	base := url
	if cb := d.Get("Content-Base"); cb != "" {
		base = cb
	}
	for i, ct := range rtspc.Controls(string(d.Body)) {
		if i > 1 {
			break
		}
		tr := fmt.Sprintf("RTP/AVP;unicast;client_port=%d-%d", sinks[2*i].port(), sinks[2*i+1].port())
		r, err := c.Do("SETUP", rtspc.TrackURL(base, ct.Control), map[string]string{"Transport": tr}, nil)
		if err != nil || r.Status != 200 {
			return fmt.Errorf("SETUP %s: %v %v", tr, r, err)
		}
	}
	r, err := c.Do("PLAY", url, map[string]string{"Range": "npt=0.000-"}, nil)
	if err != nil || r.Status != 200 {
		return fmt.Errorf("PLAY: %v %v", r, err)
	}
	return nil
}

// bigPacket is a well-formed RTP packet of exactly total bytes carrying one
// non-key slice NAL unit (single NAL unit packet, RFC 6184 §5.6).
func bigPacket(total int, seq uint16, ts uint32) []byte {
	payload := make([]byte, total-12)
	payload[0] = 0x41
	for i := 1; i < len(payload); i++ {
		payload[i] = 0x80 | byte(i*7+i>>8)&0x7f
	}
	return rtppack.Pkt{PT: 96, Marker: true, Seq: seq, TS: ts, SSRC: probeSSRC, Payload: payload}.Marshal()
}

func extremeWireCases() []wireCase {
	vts := uint32(90000 + probeStep)
	var out []wireCase
	for _, n := range []int{65507, 65508, 65509, 65520, 65535} {
		note := "larger than any UDP datagram"
		if n == 65507 {
			note = "the largest UDP payload"
		}
		out = append(out, wireCase{fmt.Sprintf("well-formed video packet of %d bytes (%s)", n, note), []wireFrame{wf(0, bigPacket(n, 9, vts), note)}, 0})
	}
	out = append(out, wireCase{"three packets of 65535 bytes in a row", []wireFrame{wf(0, bigPacket(65535, 9, vts), ""), wf(0, bigPacket(65535, 10, vts), ""), wf(0, bigPacket(65535, 11, vts), "")}, 0})
	return out
}

type playerOutcome struct {
	Transport string `json:"transport"`
	Missing   string `json:"probe_packets,omitempty"`
	Conn      string `json:"rtsp_connection,omitempty"`
}

func inOrder(got, want [][]byte) int {
	k := 0
	for _, g := range got {
		if k < len(want) && bytes.Equal(g, want[k]) {
			k++
		}
	}
	return k
}

func runPlayersCase(t *testing.T, w wireCase) {
	s := startServer()
	n := atomic.AddUint64(&wireCounter, 1)
	path := fmt.Sprintf("/c07/players/p%d", n)
	url := s.RTSP(path)
	pub, err := rtspc.Dial(s.Addr(), wireTimeout)
	if err != nil {
		t.Fatalf("machinery: dial: %v", err)
	}
	defer pub.Close()
	if _, err := pub.Record(url, mediah.SDP(esgen.H264, true)); err != nil {
		t.Fatalf("machinery: RECORD dialogue: %v", err)
	}
	tcp, err := rtspc.Dial(s.Addr(), wireTimeout)
	if err != nil {
		t.Fatalf("machinery: dial: %v", err)
	}
	defer tcp.Close()
	if _, err := tcp.Play(url); err != nil {
		t.Fatalf("machinery: PLAY over tcp: %v", err)
	}
	ws, err := rtspc.DialWS(s.WS(path), wireTimeout, nil)
	if err != nil {
		t.Fatalf("machinery: ws dial: %v", err)
	}
	defer ws.Close()
	if _, err := ws.Play(url); err != nil {
		t.Fatalf("machinery: PLAY over ws-rtsp: %v", err)
	}
	var sinks [4]*udpSink
	for i := range sinks {
		sinks[i] = newUDPSink(t)
		defer sinks[i].conn.Close()
	}
	udp, err := rtspc.Dial(s.Addr(), wireTimeout)
	if err != nil {
		t.Fatalf("machinery: dial: %v", err)
	}
	defer udp.Close()
	if err := playUDP(udp, url, sinks); err != nil {
		t.Fatalf("machinery: PLAY over udp: %v", err)
	}
	if !srv.WaitFor(wireTimeout, func() bool { return srv.Consumers(path) == 3 }) {
		t.Fatalf("machinery: %d of 3 players registered on %s", srv.Consumers(path), path)
	}

	// good key access unit, the hostile / extreme frames, K good key access units
	for _, p := range plainPrefix(esgen.H264, true, 1, 90000) {
		if err := pub.WriteFrame(p.Ch, p.bytes()); err != nil {
			t.Fatalf("machinery: writing the first access unit: %v", err)
		}
	}
	for _, h := range w.fr {
		pub.WriteFrame(h.Ch, h.raw) // a failure shows below: nothing of the probe arrives
	}
	// let a burst of large datagrams drain first: the UDP sockets of the harness have
	// a finite kernel buffer, and what is judged is the probe, not the burst
	if len(w.fr) > 3 {
		last, since := -1, time.Now()
		mediah.WaitFor(2*time.Second, func() bool {
			if n := len(sinks[0].snapshot()); n != last {
				last, since = n, time.Now()
			}
			return time.Since(since) > 30*time.Millisecond
		})
	}
	probe := buildProbeRot(esgen.H264, true, playersK, 90000+2*probeStep, 20000, 30000, w.rot)
	var want, wantV, wantA [][]byte
	for _, au := range probe {
		for _, p := range au.pkts {
			pub.WriteFrame(p.Channel, p.Data)
			want = append(want, p.Data)
			if p.Channel == 0 {
				wantV = append(wantV, p.Data)
			} else {
				wantA = append(wantA, p.Data)
			}
		}
	}
	last := want[len(want)-1]

	// collect: TCP and ws need fillers (lazy flush); UDP arrives by itself
	var gotTCP, gotWS [][]byte
	seen := func(l [][]byte) bool {
		for i := len(l) - 1; i >= 0; i-- {
			if bytes.Equal(l[i], last) {
				return true
			}
		}
		return false
	}
	drain := func(c *rtspc.Client, into *[][]byte) {
		for {
			it, err := c.ReadItemTimeout(15 * time.Millisecond)
			if err != nil {
				return
			}
			if it.Frame != nil {
				*into = append(*into, it.Frame.Payload)
			}
		}
	}
	fseq, fts := uint16(40000), uint32(90000+9*probeStep)
	collect := wireTimeout // generous; the loop ends as soon as the last probe packet is there
	deadline := time.Now().Add(collect)
	for time.Now().Before(deadline) && !(seen(gotTCP) && seen(gotWS)) {
		pub.WriteFrame(0, rtppack.Pkt{PT: 96, Marker: true, Seq: fseq, TS: fts, SSRC: probeSSRC, Payload: []byte{0x41, 0x9a, 0x02, 0x80, 0x80}}.Marshal())
		fseq++
		fts += 3000
		drain(tcp, &gotTCP)
		drain(ws, &gotWS)
	}
	mediah.WaitFor(collect, func() bool { return sinks[0].has(wantV[len(wantV)-1]) && sinks[2].has(wantA[len(wantA)-1]) })

	var outs []playerOutcome
	judgeList := func(transport string, got, want [][]byte, what string) string {
		if k := inOrder(got, want); k != len(want) {
			return fmt.Sprintf("%d of %d %s packets of the %d good access units arrived in order after the hostile frame (%d packets received in all)", k, len(want), what, playersK, len(got))
		}
		return ""
	}
	oTCP := playerOutcome{Transport: "tcp", Missing: judgeList("tcp", gotTCP, want, "probe")}
	oWS := playerOutcome{Transport: "ws-rtsp", Missing: judgeList("ws", gotWS, want, "probe")}
	oUDP := playerOutcome{Transport: "udp", Missing: judgeList("udp", sinks[0].snapshot(), wantV, "video")}
	if oUDP.Missing == "" {
		oUDP.Missing = judgeList("udp", sinks[2].snapshot(), wantA, "audio")
	}
	for _, pc := range []struct {
		c *rtspc.Client
		o *playerOutcome
	}{{tcp, &oTCP}, {ws, &oWS}, {udp, &oUDP}} {
		pc.c.Timeout = generous
		r, err := pc.c.Do("OPTIONS", url, nil, nil)
		switch {
		case err != nil:
			pc.o.Conn = "no answer to OPTIONS: " + err.Error()
		case r.Status != 200:
			pc.o.Conn = fmt.Sprintf("OPTIONS answered %d", r.Status)
		}
		outs = append(outs, *pc.o)
	}
	still := srv.Consumers(path)
	if st := media.Get(path); st != nil && !allConsumersDrained(st) {
		missing := false
		for _, o := range outs {
			missing = missing || o.Missing != ""
		}
		if missing {
			// the server still holds packets for a player at the generous bound: no verdict
			evid.Class("wire-players: inconclusive (packets still queued in the server at the bound)")
			return
		}
	}
	for _, o := range outs {
		if o.Missing != "" || o.Conn != "" {
			evid.Violation(t, "wire-players/"+o.Transport, map[string]any{"class": w.class, "hostile_frames": briefFrames(w.fr), "players": outs, "consumers_now": still},
				"%s player (%s): %s %s; consumers still attached: %d of 3", o.Transport, w.class, o.Missing, o.Conn, still)
		}
	}
	if still != 3 {
		evid.Violation(t, "wire-players/detached", map[string]any{"class": w.class, "hostile_frames": briefFrames(w.fr), "players": outs, "consumers_now": still},
			"(%s): %d of 3 players are still attached to the stream", w.class, still)
	}
	// the publisher's session goroutine is not stuck: it answers a request; and when
	// the publisher leaves, every player sees the end of the stream within the bound
	pub.Timeout = generous
	if r, err := pub.Do("OPTIONS", url, nil, nil); err != nil || r.Status != 200 {
		evid.Violation(t, "wire-players/publisher", map[string]any{"class": w.class, "frames": len(w.fr)}, "(%s): the publisher's session does not answer OPTIONS after the frames: %v %v", w.class, r, err)
	}
	pub.Close()
	if !srv.WaitFor(wireTimeout, func() bool { return srv.Consumers(path) < 0 }) {
		evid.Violation(t, "wire-players/stream-not-ended", map[string]any{"class": w.class, "frames": len(w.fr)}, "(%s): %v after the publisher disconnected its stream is still registered", w.class, wireTimeout)
	}
	for _, pc := range []struct {
		name string
		c    *rtspc.Client
	}{{"tcp", tcp}, {"ws-rtsp", ws}, {"udp", udp}} {
		ended := false
		for dl := time.Now().Add(wireTimeout); time.Now().Before(dl); {
			_, err := pc.c.ReadItemTimeout(50 * time.Millisecond)
			if err != nil && err != rtspc.ErrTimeout {
				ended = true
				break
			}
		}
		if !ended {
			evid.Violation(t, "wire-players/no-end-of-stream", map[string]any{"class": w.class, "frames": len(w.fr), "player": pc.name}, "(%s): the %s player's connection is still open %v after the publisher disconnected", w.class, pc.name, wireTimeout)
		}
	}
	// how the UDP player fared with the extreme packet itself (not demanded)
	for _, h := range w.fr {
		if h.Ch == 0 && len(h.raw) >= 65507 {
			if sinks[0].has(h.raw) {
				evid.Class(fmt.Sprintf("wire-players: udp player received the %d-byte packet", len(h.raw)))
			} else {
				evid.Class(fmt.Sprintf("wire-players: udp player missed the %d-byte packet", len(h.raw)))
			}
		}
	}
	evid.Class("wire-players: " + w.class)
	evid.Nontrivial(evid.FP("wire-players", w.class, len(w.fr)))
}

func TestWirePlayersSurviveHostileInput(t *testing.T) {
	evid.Rule("wire-players: a RECORD publisher and three players of the same stream (RTP/UDP with client_port sockets of the harness, interleaved TCP, ws-rtsp); good key access unit, one hostile / refused / extreme frame (the hostile constants of the other wire tests, RTP packets of 65507 and 65508..65535 bytes, zero-length RTP data), then 3 good key access units; every player receives their packets in order and still answers OPTIONS; non-trivial = a UDP and a ws player were attached when the frame arrived")
	var cases []wireCase
	cases = append(cases, extremeWireCases()...)
	cases = append(cases, refusedWireCases()...)
	// 24 middle fragments (1.6 MB) here: ipchub paces what it writes to TCP / ws
	// players, and three players times 5 MiB would only test the harness's patience;
	// the 5.3 MiB units go through the publisher-side wire test and the in-process check
	cases = append(cases, hostileWireCases(24)...)
	sem := make(chan struct{}, 6) // a few cases at a time: each holds 5 connections and 4 UDP sockets
	for i, c := range cases {
		c := c
		t.Run(fmt.Sprintf("case%02d", i), func(t *testing.T) {
			t.Parallel()
			sem <- struct{}{}
			defer func() { <-sem }()
			evid.Eval(1)
			runPlayersCase(t, c)
		})
	}
}

// briefFrames keeps violation files small: at most four frames in full.
func briefFrames(fr []wireFrame) any {
	if len(fr) <= 4 {
		return fr
	}
	return map[string]any{"count": len(fr), "first": fr[0], "last": fr[len(fr)-1], "bytes_each": len(fr[1].raw)}
}
