package c07

import (
	"bytes"
	"encoding/hex"
	"strings"
	"testing"
	"verif/harness/lib/mediah"
	"verif/harness/lib/rtppack"

	"github.com/cnotch/ipchub/av/format/rtp"
	"verif/harness/lib/evid"
	"verif/harness/lib/rtppack/esgen"
)

// plainPrefix is a small valid stream built without a generator: n key access
// units in the probe's three packetisations (and an AAC packet each), starting
// at video timestamp ts0.
func plainPrefix(codec esgen.Codec, audio bool, n int, ts0 uint32) []pkt {
	var out []pkt
	for _, au := range buildProbe(codec, audio, n, ts0, 100, 200) {
		for _, p := range au.pkts {
			out = append(out, mkPkt(p.Channel, p.Data, "valid"))
		}
	}
	return out
}

func witnessCase(codec esgen.Codec, audio bool, class string, ch byte, raw []byte, prefixAUs int) *caseSpec {
	c := &caseSpec{Codec: codec.String(), Audio: audio, CacheGop: true, Class: class}
	c.Prefix = plainPrefix(codec, audio, prefixAUs, 90000)
	c.Pos = len(c.Prefix)
	c.Hostile = []pkt{mkPkt(ch, raw, class)}
	c.ProbeTS = 90000 + uint32(prefixAUs)*probeStep
	return c
}

// Minimal witnesses of the root causes the DESIGN lists for C07 (replay tier).
// Each runs the full oracle: no escaping panic, continuation on the same
// stream, twin stream unchanged.

// (i) the GOP-cache classifiers index past a short STAP-A / AP.
func TestWitnessCacheClassifierShortAggregate(t *testing.T) {
	for _, w := range []struct {
		codec esgen.Codec
		name  string
		pl    []byte
	}{
		{esgen.H264, "h264 stap-a 78 00 01", hx(0x78, 0x00, 0x01)},
		{esgen.H264, "h264 stap-a trailing byte", hx(0x78, 0x00, 0x01, 0x67, 0x00)},
		{esgen.H264, "h264 stap-a size beyond", hx(0x78, 0x00, 0x05, 0x67)},
		{esgen.H265, "h265 ap 60 01 00 01", hx(0x60, 0x01, 0x00, 0x01)},
		{esgen.H265, "h265 ap trailing byte", hx(0x60, 0x01, 0x00, 0x02, 0x40, 0x01, 0x00)},
		{esgen.H265, "h265 fu 62 01 (two bytes)", hx(0x62, 0x01)},
	} {
		evid.Eval(1)
		c := witnessCase(w.codec, true, "witness: "+w.name, rtp.ChannelVideo, mediaPacket(96, true, 500, 90000+2*probeStep, w.pl), 2)
		judge(t, "witness-cache-classifier", c)
	}
}

// (ii) the sync clock reads RTCP bytes without a length check — inside the
// demuxer goroutine.
func TestWitnessSyncClockShortRtcp(t *testing.T) {
	for _, ch := range []byte{rtp.ChannelVideoControl, rtp.ChannelAudioControl} {
		for _, raw := range [][]byte{hx(0x80, 0xc8, 0x00, 0x00), hx(0x80), hx(), hx(0x80, 0xc8, 0, 6, 0, 0, 0, 7, 1, 2, 3, 4, 5, 6, 7, 8, 9, 9, 9)} {
			evid.Eval(1)
			c := witnessCase(esgen.H264, true, "witness: short rtcp", ch, raw, 2)
			judge(t, "witness-sync-clock", c)
		}
	}
}

// (iii) the AAC depacketiser slices without checks — inside the demuxer
// goroutine.
func TestWitnessAacDepacketizer(t *testing.T) {
	for _, h := range hostileAac {
		evid.Eval(1)
		c := witnessCase(esgen.H264, true, "witness: aac "+h.Name, rtp.ChannelAudio, mediaPacket(97, true, 700, 44100, h.B), 2)
		judge(t, "witness-aac", c)
	}
}

// depacketiser-side twins of (i): the aggregate parsers of the demuxer.
func TestWitnessDepacketizerAggregates(t *testing.T) {
	for _, h := range hostileH264 {
		evid.Eval(1)
		judge(t, "witness-h264-payload", witnessCase(esgen.H264, true, "witness: h264 "+h.Name, rtp.ChannelVideo, mediaPacket(96, true, 500, 90000+2*probeStep, h.B), 2))
	}
	for _, h := range hostileH265 {
		evid.Eval(1)
		judge(t, "witness-h265-payload", witnessCase(esgen.H265, true, "witness: h265 "+h.Name, rtp.ChannelVideo, mediaPacket(96, true, 500, 90000+2*probeStep, h.B), 2))
	}
}

// Converter loops: a frame that makes the MPEG-TS muxer goroutine panic must
// cost that frame only. Witness: the SDP announces AAC with an
// AudioSpecificConfig that does not decode (config=00: audio object type 0), so
// the TS AAC packetizer has no ADTS template and panics on every audio frame;
// the video of the same stream is well-formed and must still reach HLS.
func TestWitnessTsMuxerSurvivesBadAudioConfig(t *testing.T) {
	evid.Eval(1)
	c := &caseSpec{Codec: "H264", Audio: true, CacheGop: true, Class: "witness: sdp with undecodable AAC config"}
	c.SDP = strings.Replace(mediah.SDP(esgen.H264, true), "config="+hex.EncodeToString(esgen.RealAacASC), "config=00", 1)
	if c.SDP == mediah.SDP(esgen.H264, true) {
		t.Fatal("harness: config= not found in the SDP template")
	}
	c.Prefix = plainPrefix(esgen.H264, true, 2, 90000)
	c.Pos = len(c.Prefix)
	c.ProbeTS = 90000 + 2*probeStep
	res := runCase(c, true)
	if !res.HasHLS {
		t.Fatal("harness: the stream has no HLS output at all")
	}
	if f := res.failure(); f != "" {
		evid.Violation(t, "witness-ts-muxer/"+f, map[string]any{"case": c, "result": res}, "%s: %s", f, describe(res))
	}
}

// Listed finding sigHLSJump. A well-formed IDR packet whose RTP timestamp field
// is corrupted (2^30 ticks ahead: a single-field corruption of a valid packet)
// arrives when the current HLS segment has reached its target duration: the
// segmenter cuts and opens the next segment at that far presentation time.
// Every later frame lies before the segment start, the segment's duration stays
// 0, no segment is cut any more and the playlist stops growing, although the
// publisher goes on sending well-formed key frames on the original timeline.
// RTP relay and FLV are not affected. (An AAC packet far ahead does the same
// when it arrives with an empty audio cache and a segment of twice the target
// duration; a sender report that re-anchors a clock mid-stream likewise.)
// Passes either way; records a hit while the defect is there.
func TestWitnessHlsTimelineJump(t *testing.T) {
	evid.Eval(1)
	c := &caseSpec{Codec: "H264", Audio: true, CacheGop: true, Class: "witness: key frame with timestamp 2^30 ahead"}
	c.Prefix = plainPrefix(esgen.H264, true, 1, 90000)
	c.Pos = len(c.Prefix)
	idr := append([]byte{0x65, 0x88, 0x84}, bytes.Repeat([]byte{0x91}, 30)...)
	c.Hostile = []pkt{mkPkt(rtp.ChannelVideo, mediaPacket(96, true, 300, 90000+probeStep+1<<30, idr), "valid IDR packet, timestamp field +2^30")}
	c.ProbeTS = 90000 + 2*probeStep // the original timeline
	c.HLSWaitMs = 1500              // the control run needs milliseconds
	res := runCase(c, true)
	ctl := runCase(c, false)
	if f := ctl.failure(); f != "" {
		t.Fatalf("harness: control run fails: %s: %s", f, describe(ctl))
	}
	switch f := res.failure(); f {
	case "":
		t.Log("HLS followed the timeline jump: the listed finding no longer reproduces")
	case "hls-conversion-stopped":
		evid.Hit(sigHLSJump)
		if !evid.Known(sigHLSJump) {
			evid.Violation(t, "witness-hls-timeline-jump", map[string]any{"case": c, "result": res}, "%s", describe(res))
		}
	default:
		evid.Violation(t, "witness-hls-timeline-jump/"+f, map[string]any{"case": c, "result": res}, "%s: %s", f, describe(res))
	}
}

// In-band parameter-set poisoning (fixed in /repo by the C06 work: 8ded303,
// ea42bf3; kept as a regression witness). The SDP carries no sprop parameter
// sets (legal: they are optional, RFC 6184 §8.1 / RFC 7798 §7.1). The first
// video packet is a hostile aggregate that announces a parameter-set unit longer
// than what it holds, or a one-byte SPS. It used to be stored as the stream's
// SPS and never replaced, so the well-formed in-band parameter sets and key
// frames that followed were withheld for ever.
func TestWitnessInbandParameterSetPoisoning(t *testing.T) {
	for _, w := range []struct {
		codec esgen.Codec
		name  string
		pl    []byte
	}{
		{esgen.H264, "h264 stap-a 78 00 05 67", hx(0x78, 0x00, 0x05, 0x67)},
		{esgen.H264, "h264 single 67", hx(0x67)},
		{esgen.H264, "h264 stap-a 78 00 01 67 00", hx(0x78, 0x00, 0x01, 0x67, 0x00)},
		{esgen.H265, "h265 ap 60 01 00 09 42 01", hx(0x60, 0x01, 0x00, 0x09, 0x42, 0x01)},
		{esgen.H265, "h265 single 42 01", hx(0x42, 0x01)},
		{esgen.H265, "h265 single vps 40 01", hx(0x40, 0x01)},
	} {
		evid.Eval(1)
		c := &caseSpec{Codec: w.codec.String(), Audio: true, CacheGop: true, NoSprop: true, Class: "witness: " + w.name + " ahead of the in-band parameter sets"}
		c.Prefix = plainPrefix(w.codec, true, 2, 90000)
		c.Pos = 0
		c.Hostile = []pkt{mkPkt(rtp.ChannelVideo, mediaPacket(96, true, 50, 90000, w.pl), w.name)}
		c.ProbeTS = 90000 + 2*probeStep
		judge(t, "witness-parameter-set-poisoning", c) // incl. identity: ea42bf3 lets the good sets replace the damaged one
	}
}

// Converter loops: the FLV muxer goroutine. The SDP carries no sprop parameter
// sets and the first packet that yields a frame is an AAC packet (valid, or a
// hostile one that still yields a frame): the FLV muxer builds its sequence
// headers with the first frame, the AVC configuration record indexes into the
// SPS that is not there yet and panics. The goroutine used to recover once and
// exit: no FLV tag ever, for anything sent later. Now that frame is dropped and
// the sequence headers are built once the in-band parameter sets have arrived.
func TestWitnessFlvMuxerSurvivesEarlyAudio(t *testing.T) {
	for _, codec := range []esgen.Codec{esgen.H264, esgen.H265} {
		evid.Eval(1)
		c := &caseSpec{Codec: codec.String(), Audio: true, CacheGop: true, NoSprop: true, Class: "witness: audio frame ahead of the in-band parameter sets"}
		c.Prefix = plainPrefix(codec, true, 2, 90000)
		c.Pos = 0
		aac := rtppack.AacHbr([][]byte{{0x21, 0x10, 0x04, 0x60, 0x8c, 0x1c}})
		c.Hostile = []pkt{
			mkPkt(rtp.ChannelAudio, mediaPacket(97, true, 10, 44100, aac[:len(aac)-2]), "AAC packet cut by two bytes"),
			mkPkt(rtp.ChannelAudio, mediaPacket(97, true, 11, 44100, aac), "well-formed AAC packet"),
		}
		c.ProbeTS = 90000 + 2*probeStep
		c.SettleMs = 300 // let the FLV muxer meet the audio frame before the parameter sets arrive
		res := runCase(c, true)
		if f := res.failure(); f != "" {
			evid.Violation(t, "witness-flv-muxer/"+f, map[string]any{"case": c, "result": res}, "%s: %s", f, describe(res))
		}
	}
}
