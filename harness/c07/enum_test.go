package c07

import (
	"fmt"
	"testing"

	"github.com/cnotch/ipchub/av/format/rtp"
	"verif/harness/lib/evid"
	"verif/harness/lib/rtppack"
	"verif/harness/lib/rtppack/esgen"
)

// Enumeration: "all single-field corruptions and truncations of valid packets
// at every offset". For each reference packet of a running stream — the three
// packetisations of a key frame (aggregate with parameter sets, single NAL unit,
// first / middle / last fragment with the earlier fragments of the unit already
// delivered), an AAC packet with two access units, and a sender report on a
// control channel whose clock is not yet set — EVERY truncation length and
// EVERY byte offset (with several replacement values) is injected, and the full
// oracle (no escaping panic, continuation on RTP / FLV / HLS, twin stream) runs.

type refPacket struct {
	name    string
	ch      byte
	raw     []byte
	context []pkt // valid packets delivered right before it (after the running prefix)
}

func referencePackets(codec esgen.Codec) []refPacket {
	const ts = 90000 + probeStep
	var out []refPacket
	aus := buildProbe(codec, false, 3, ts, 400, 0) // same timestamp scheme as the probe; j=0 aggregate, 1 single, 2 fragments
	out = append(out, refPacket{name: "aggregate", ch: rtp.ChannelVideo, raw: aus[0].pkts[0].Data})
	out = append(out, refPacket{name: "single", ch: rtp.ChannelVideo, raw: aus[1].pkts[0].Data})
	var ctx []pkt
	for i, p := range aus[2].pkts {
		out = append(out, refPacket{name: fmt.Sprintf("fragment-%d-of-%d", i+1, len(aus[2].pkts)), ch: rtp.ChannelVideo, raw: p.Data, context: append([]pkt{}, ctx...)})
		ctx = append(ctx, mkPkt(rtp.ChannelVideo, p.Data, "valid fragment"))
	}
	// the other payload structures of RFC 6184 (STAP-B, MTAP16, MTAP24, FU-B) / RFC 7798
	// (PACI, reserved types): well-formed reference packets, cut and corrupted everywhere
	for _, h := range otherStructures(codec) {
		switch h.Name {
		case "stapb-sps-pps-idr", "mtap16-sps-pps-idr", "mtap24-sps-pps-idr", "mtap16-one-unit", "mtap24-one-unit", "fub-start", "fub-whole",
			"paci-idr", "paci-with-extension", "paci-carrying-ap", "reserved-type-51", "reserved-type-63":
			out = append(out, refPacket{name: h.Name, ch: rtp.ChannelVideo, raw: mediaPacket(96, true, 450, ts, h.B)})
		}
	}
	// FU-B / FU end fragment with the start of the unit delivered before it
	if codec == esgen.H264 {
		out = append(out, refPacket{name: "fub-end-after-start", ch: rtp.ChannelVideo, raw: mediaPacket(96, true, 451, ts, h264FuB(refIdr264, 9, false, true)),
			context: []pkt{mkPkt(rtp.ChannelVideo, mediaPacket(96, false, 450, ts, h264FuB(refIdr264, 9, true, false)), "FU-B start")}})
	}
	aac := rtppack.Pkt{PT: 97, Marker: true, Seq: 900, TS: uint32(uint64(ts) * 44100 / 90000), SSRC: probeSSRC + 1,
		Payload: rtppack.AacHbr([][]byte{{0x21, 0x10, 0x04, 0x60, 0x8c}, {0x21, 0x11, 0x45}})}.Marshal()
	out = append(out, refPacket{name: "aac-two-aus", ch: rtp.ChannelAudio, raw: aac})
	out = append(out, refPacket{name: "sender-report-video", ch: rtp.ChannelVideoControl, raw: rtppack.SenderReport(probeSSRC, 3900000000, 0x80000000, ts, 3, 300)})
	out = append(out, refPacket{name: "sender-report-audio", ch: rtp.ChannelAudioControl, raw: rtppack.SenderReport(probeSSRC+1, 3900000000, 0x80000000, uint32(uint64(ts)*44100/90000), 3, 300)})
	return out
}

func enumCase(codec esgen.Codec, ref refPacket, class string, raw []byte) *caseSpec {
	c := &caseSpec{Codec: codec.String(), Audio: true, CacheGop: true, Class: class}
	c.Prefix = plainPrefix(codec, true, 1, 90000)
	c.Prefix = append(c.Prefix, ref.context...)
	c.Pos = len(c.Prefix)
	c.Hostile = []pkt{mkPkt(ref.ch, raw, class)}
	planProbe(c)
	return c
}

func TestEnumerateTruncationsAndCorruptions(t *testing.T) {
	evid.Rule(ruleText)
	for _, codec := range []esgen.Codec{esgen.H264, esgen.H265} {
		for _, ref := range referencePackets(codec) {
			codec, ref := codec, ref
			t.Run(codec.String()+"/"+ref.name, func(t *testing.T) {
				t.Parallel()
				// sanity: the reference packet itself is valid (control = no violation)
				judge(t, "enum-reference", enumCase(codec, ref, "reference:"+ref.name, ref.raw))
				for n := 0; n < len(ref.raw); n++ {
					evid.Eval(1)
					c := enumCase(codec, ref, fmt.Sprintf("enum-truncate:%s:%d-of-%d", ref.name, n, len(ref.raw)), ref.raw[:n])
					record(c, judge(t, "enum-truncate", c), "enum")
				}
				for o := 0; o < len(ref.raw); o++ {
					b := ref.raw[o]
					vals := []byte{b ^ 0x80, b ^ 0xff}
					if evid.Thorough() {
						vals = append(vals, b^0x01, b+1, 0x00, 0xff, b^0x40, b^0x20, b^0x10, b^0x08)
					}
					seen := map[byte]bool{b: true}
					for _, v := range vals {
						if seen[v] {
							continue
						}
						seen[v] = true
						evid.Eval(1)
						raw := append([]byte{}, ref.raw...)
						raw[o] = v
						c := enumCase(codec, ref, fmt.Sprintf("enum-corrupt:%s:byte%d=%02x", ref.name, o, v), raw)
						record(c, judge(t, "enum-corrupt", c), "enum")
					}
				}
			})
		}
	}
}
