package c07

import (
	"bytes"
	"fmt"
	"strings"
	"sync/atomic"
	"testing"
	"time"

	"github.com/cnotch/ipchub/av/format/flv"
	"github.com/cnotch/ipchub/av/format/rtp"
	"github.com/cnotch/ipchub/media"
	"verif/harness/lib/evid"
	"verif/harness/lib/mediah"
	"verif/harness/lib/rtppack"
	"verif/harness/lib/rtppack/esgen"
	"verif/harness/lib/rtspc"
	"verif/harness/lib/srv"
)

// Layer C — through a real RECORD session of the in-process server (one per test
// binary, lib/srv) with an independent RTSP client (lib/rtspc). A publisher
// ANNOUNCEs, SETUPs (interleaved 0-1 video, 2-3 audio) and RECORDs, sends a
// valid prefix, then hostile interleaved frames — including the two classes
// that never reach a stream: a frame on a channel nobody set up, and a media
// frame whose RTP header is shorter than 12 bytes — then the continuation
// probe. Observables: the publisher's connection still answers OPTIONS, its
// stream is still the registered one and converts the probe (RTP / FLV / HLS at
// in-process consumers), and a second publisher + player session in the same
// server is served exactly what its publisher sent.

// sigFrameFatal: listed finding while unrepaired — a frame that the interleaved
// reader refuses (unknown channel, unparsable RTP header) is returned as a
// fatal read error and ends the publisher's session.
const sigFrameFatal = "interleaved-frame-error-ends-session"

type wireFrame struct {
	Ch   byte   `json:"channel"`
	Hex  string `json:"hex"`
	Note string `json:"note"`
	raw  []byte
}

func wf(ch byte, raw []byte, note string) wireFrame {
	h := evid.Hex(raw)
	if len(raw) <= 256 {
		h = fmt.Sprintf("%x", raw)
	}
	return wireFrame{Ch: ch, Hex: h, Note: note, raw: raw}
}

var wireCounter uint64

// wireTimeout guards every network wait. It is the generous bound: no verdict is
// "nothing within N seconds" — a miss only counts once the server-side state
// shows that nothing more can come (converters done, consumer queues drained).
const wireTimeout = generous

type wireOutcome struct {
	SessionDied   string `json:"publisher_session,omitempty"`
	StreamGone    string `json:"stream,omitempty"`
	RTPMiss       string `json:"rtp_continuation,omitempty"`
	FLVMiss       string `json:"flv_continuation,omitempty"`
	HLSMiss       string `json:"hls_continuation,omitempty"`
	OtherSession  string `json:"other_session,omitempty"`
	refusedFrames int
}

func (o *wireOutcome) failure() string {
	switch {
	case o.SessionDied != "":
		return "publisher-session-ended"
	case o.StreamGone != "":
		return "stream-gone"
	case o.RTPMiss != "":
		return "rtp-relay-stopped"
	case o.FLVMiss != "":
		return "flv-conversion-stopped"
	case o.HLSMiss != "":
		return "hls-conversion-stopped"
	case o.OtherSession != "":
		return "other-session-disturbed"
	}
	return ""
}

func (o *wireOutcome) String() string {
	return fmt.Sprint(o.SessionDied, " ", o.StreamGone, " ", o.RTPMiss, " ", o.FLVMiss, " ", o.HLSMiss, " ", o.OtherSession)
}

func startServer() *srv.Server {
	return srv.Start(srv.Options{CacheGop: true, HlsFragment: 1})
}

// runWire executes one wire case. machinery problems (cannot connect, the
// dialogue of the VALID part fails) are reported through t.Fatalf with a
// "machinery:" prefix, never as violations.
func runWire(t *testing.T, hostile []wireFrame, rot int) *wireOutcome {
	s := startServer()
	n := atomic.AddUint64(&wireCounter, 1)
	path := fmt.Sprintf("/c07/wire/a%d", n)
	path2 := fmt.Sprintf("/c07/wire/b%d", n)
	sdp := mediah.SDP(esgen.H264, true)
	out := &wireOutcome{}

	pub, err := rtspc.Dial(s.Addr(), wireTimeout)
	if err != nil {
		t.Fatalf("machinery: dial: %v", err)
	}
	defer pub.Close()
	if _, err := pub.Record(s.RTSP(path), sdp); err != nil {
		t.Fatalf("machinery: RECORD dialogue of the publisher: %v", err)
	}
	pub2, err := rtspc.Dial(s.Addr(), wireTimeout)
	if err != nil {
		t.Fatalf("machinery: dial: %v", err)
	}
	defer pub2.Close()
	if _, err := pub2.Record(s.RTSP(path2), sdp); err != nil {
		t.Fatalf("machinery: RECORD dialogue of the second publisher: %v", err)
	}
	st := media.Get(path)
	if st == nil {
		t.Fatalf("machinery: stream %s not registered after RECORD", path)
	}
	conv, err := watch.bind(st) // before the first frame is sent
	if err != nil {
		t.Fatalf("machinery: %v", err)
	}
	defer watch.release(conv)
	rtpRec, flvRec := mediah.NewRec("wire-rtp"), mediah.NewRec("wire-flv")
	rtpCID := st.StartConsume(rtpRec, media.RTPPacket, "c07-wire")
	flvCID := st.StartConsume(flvRec, media.FLVPacket, "c07-wire")
	published := 0 // frames the interleaved reader hands to the stream
	count := func(ch byte, raw []byte) {
		if _, err := wire(ch, raw); err == nil {
			published++
		}
	}
	player, err := rtspc.Dial(s.Addr(), wireTimeout)
	if err != nil {
		t.Fatalf("machinery: dial: %v", err)
	}
	defer player.Close()
	if _, err := player.Play(s.RTSP(path2)); err != nil {
		t.Fatalf("machinery: PLAY dialogue of the second session: %v", err)
	}
	// ipchub answers PLAY before it registers the consumer: publish only once it is there
	if !srv.WaitFor(wireTimeout, func() bool { return srv.Consumers(path2) >= 1 }) {
		t.Fatalf("machinery: the player was not registered as a consumer of %s within %v", path2, wireTimeout)
	}

	send := func(c *rtspc.Client, ch byte, raw []byte) error { return c.WriteFrame(ch, raw) }
	prefix := plainPrefix(esgen.H264, true, 2, 90000)
	for i := range prefix {
		if err := send(pub, prefix[i].Ch, prefix[i].bytes()); err != nil {
			t.Fatalf("machinery: writing the valid prefix: %v", err)
		}
		count(prefix[i].Ch, prefix[i].bytes())
		send(pub2, prefix[i].Ch, prefix[i].bytes())
	}
	for _, h := range hostile {
		if _, err := wire(h.Ch, h.raw); err != nil {
			out.refusedFrames++
		}
		count(h.Ch, h.raw)
		if err := send(pub, h.Ch, h.raw); err != nil {
			out.SessionDied = "writing a hostile frame failed: " + err.Error()
		}
	}
	pa := buildProbeRot(esgen.H264, true, 9, 90000+2*probeStep, 20000, 30000, rot)
	pb := buildProbeRot(esgen.H264, true, 9, 90000+2*probeStep, 20000, 30000, rot)
	var wantA, wantB [][]byte
	for j := range pa {
		for _, p := range pa[j].pkts {
			send(pub, p.Channel, p.Data) // errors show up in the oracle below
			published++
			wantA = append(wantA, p.Data)
		}
		for _, p := range pb[j].pkts {
			send(pub2, p.Channel, p.Data)
			wantB = append(wantB, p.Data)
		}
	}

	// (a) the publisher's session is alive: it answers a request
	if out.SessionDied == "" {
		pub.Timeout = generous // only a closed connection or a wedged session goroutine fail this
		r, err := pub.Do("OPTIONS", s.RTSP(path), nil, nil)
		switch {
		case err != nil:
			out.SessionDied = "no answer to OPTIONS after the hostile frames: " + err.Error()
		case r.Status != 200:
			out.SessionDied = fmt.Sprintf("OPTIONS answered %d", r.Status)
		}
	}
	// (b) its stream is still the registered one
	if now := media.Get(path); now != st {
		out.StreamGone = fmt.Sprintf("the path now resolves to %p, the publisher's stream was %p", now, st)
	}
	// (c) continuation, judged on bytes (the server re-parses the frames). The
	// OPTIONS above was answered by the session goroutine that also feeds the
	// stream, so every frame sent before it has been handed to the stream; the
	// verdicts wait for the state in which nothing more can come.
	if out.SessionDied != "" || out.StreamGone != "" {
		return out
	}
	lastA := wantA[len(wantA)-1]
	mediah.WaitFor(generous, func() bool {
		got := rtpRec.Got()
		return (len(got) > 0 && bytes.Equal(got[len(got)-1].(*rtp.Packet).Data, lastA)) || (rtpRec.Len() >= published || consumerDrained(st, rtpCID))
	})
	var gotData [][]byte
	for _, g := range rtpRec.Got() {
		gotData = append(gotData, g.(*rtp.Packet).Data)
	}
	if len(gotData) < len(wantA) {
		out.RTPMiss = fmt.Sprintf("RTP consumer received %d packets, the probe alone has %d (consumer queue drained: %v)", len(gotData), len(wantA), consumerDrained(st, rtpCID))
	} else {
		tail := gotData[len(gotData)-len(wantA):]
		for i := range wantA {
			if !bytes.Equal(tail[i], wantA[i]) {
				out.RTPMiss = fmt.Sprintf("RTP consumer: probe packet %d of %d is not at its place at the end of the delivered list (consumer queue drained: %v)", i, len(wantA), consumerDrained(st, rtpCID))
				break
			}
		}
	}
	if wedged := watch.waitDone(conv, published); wedged != "" {
		out.FLVMiss = wedged
		return out
	}
	flvHas := func(tag []byte) bool {
		for _, g := range flvRec.Got() {
			if tg, ok := g.(*flv.Tag); ok && len(tg.Data) <= probeTagMax && bytes.Contains(tg.Data, tag) {
				return true
			}
		}
		return false
	}
	mediah.WaitFor(generous, func() bool {
		return (flvHas(pa[len(pa)-1].vtag) && flvHas(pa[len(pa)-1].atag)) || consumerDrained(st, flvCID)
	})
	miss := 0
	for _, au := range pa {
		if !flvHas(au.vtag) {
			miss++
		}
		if !flvHas(au.atag) {
			miss++
		}
	}
	if miss > 0 {
		out.FLVMiss = fmt.Sprintf("FLV consumer: after the converters had worked off all %d packets, %d of %d probe units are missing (%s)", published, miss, 2*len(pa), watch.describe(conv, published))
	}
	r := &rig{s: st}
	var look [][]byte
	for _, au := range pa {
		if au.fragmented {
			look = append(look, au.vtag)
		}
	}
	if !r.hlsHasAny(look, nil) { // the segmenter runs inside the TS muxer goroutine, which is done: one look
		out.HLSMiss = "HLS: after the TS muxer had worked off its queue, no segment holds one of the probe's fragmented key frames"
	}
	// (d) the other session: the player receives what the second publisher sent, in order
	var played [][]byte
	deadline := time.Now().Add(wireTimeout)
	for _, f := range player.TakeFrames() {
		played = append(played, f.Payload)
	}
	// ipchub flushes interleaved media lazily (at most 30 flushes a second, on a
	// later write): keep publishing filler packets on the other stream until its
	// last probe packet has arrived; the unflushed tail is never judged.
	seenLast := func() bool {
		for i := len(played) - 1; i >= 0; i-- {
			if bytes.Equal(played[i], wantB[len(wantB)-1]) {
				return true
			}
		}
		return false
	}
	fseq, fts := uint16(40000), uint32(90000+9*probeStep)
	for time.Now().Before(deadline) && !seenLast() {
		filler := rtppack.Pkt{PT: 96, Marker: true, Seq: fseq, TS: fts, SSRC: probeSSRC, Payload: []byte{0x41, 0x9a, 0x02, 0x80, 0x80, 0x80, 0x80}}.Marshal()
		fseq++
		fts += 3000
		send(pub2, 0, filler)
		for {
			it, err := player.ReadItemTimeout(40 * time.Millisecond)
			if err != nil {
				break
			}
			if it.Frame != nil {
				played = append(played, it.Frame.Payload)
			}
		}
	}
	// every probe packet of the second publisher, in order, as a subsequence of what was played
	k := 0
	for _, p := range played {
		if k < len(wantB) && bytes.Equal(p, wantB[k]) {
			k++
		}
	}
	if k != len(wantB) {
		if st2 := media.Get(path2); st2 != nil && !allConsumersDrained(st2) {
			// the server still holds packets for the player: no verdict from this case
			evid.Class("wire: inconclusive (other session's packets still queued in the server at the bound)")
			return out
		}
		out.OtherSession = fmt.Sprintf("the player of the other stream received %d of its publisher's %d probe packets in order (%d frames in all); the server's queues for it are drained", k, len(wantB), len(played))
	}
	return out
}

// allConsumersDrained: every consumer of s has an empty queue and nothing in
// flight between queue and consumer.
func allConsumersDrained(s *media.Stream) bool {
	for _, ci := range s.Info(true).Consumptions {
		if !consumerDrained(s, media.CID(ci.ID)) {
			return false
		}
	}
	return true
}

func judgeWire(t *testing.T, name, class string, hostile []wireFrame, refusedClass bool, rot int) {
	evid.Eval(1)
	out := runWire(t, hostile, rot)
	f := out.failure()
	if f == "publisher-session-ended" || f == "stream-gone" {
		if refusedClass && evid.Known(sigFrameFatal) {
			evid.Hit(sigFrameFatal)
			evid.Class("wire: " + class + " — session ended (listed finding)")
			return
		}
	}
	if f != "" {
		evid.Violation(t, name+"/"+f, map[string]any{"class": class, "hostile_frames": briefFrames(hostile), "outcome": out}, "%s (%s): %s", f, class, out)
	}
	evid.Class("wire: " + class)
	if out.refusedFrames < len(hostile) {
		evid.Nontrivial(evid.FP("wire", class, len(hostile)))
	}
}

type wireCase struct {
	class string
	fr    []wireFrame
	rot   int // probe rotation (see caseSpec.ProbeRot)
}

// refusedWireCases: frames the interleaved reader refuses.
func refusedWireCases() []wireCase {
	valid := rtppack.Pkt{PT: 96, Marker: true, Seq: 1, TS: 90000, SSRC: 5, Payload: []byte{0x41, 0x9a, 0x00}}.Marshal()
	return []wireCase{
		{"unknown channel 9", []wireFrame{wf(9, valid, "valid RTP packet on channel 9")}, 0},
		{"unknown channel 255, empty", []wireFrame{wf(255, nil, "empty frame on channel 255")}, 0},
		{"unknown channel 4 (first beyond the set-up ones)", []wireFrame{wf(4, []byte{0x80, 0xc8, 0, 6}, "rtcp on channel 4")}, 0},
		{"video frame with 0-byte RTP packet", []wireFrame{wf(0, nil, "empty")}, 0},
		{"audio frame with 0-byte RTP packet", []wireFrame{wf(2, nil, "empty")}, 0},
		{"video frame with 3-byte RTP header", []wireFrame{wf(0, valid[:3], "3 bytes")}, 0},
		{"video frame with 11-byte RTP header", []wireFrame{wf(0, valid[:11], "11 bytes")}, 0},
		{"audio frame with 5-byte RTP header", []wireFrame{wf(2, valid[:5], "5 bytes")}, 0},
		{"video frame whose CSRC count exceeds the packet", []wireFrame{wf(0, append([]byte{0x8f}, valid[1:]...), "CC=15")}, 0},
		{"video frame whose header extension exceeds the packet", []wireFrame{wf(0, append(append([]byte{0x90}, valid[1:12]...), 0xbe, 0xde, 0xff, 0xff), "X=1, length 65535 words")}, 0},
	}
}

// hostileWireCases: frames that reach the stream — the same hostile constants as
// in the structured check, a few per class.
func hostileWireCases(fuMiddles int) []wireCase {
	mp := func(pt byte, ts uint32, pl []byte) []byte { return mediaPacket(pt, true, 7, ts, pl) }
	var cases []wireCase
	add := func(class string, fr ...wireFrame) { cases = append(cases, wireCase{class, fr, 0}) }
	vts, ats := uint32(90000+probeStep), uint32((90000+probeStep)*441/900)
	for _, h := range hostileH264 {
		switch h.Name {
		case "empty", "stapa-size1-no-unit", "stapa-trailing-byte", "stapa-size-beyond", "fua-header-only", "fua-end-without-start", "stapb-short", "sps-one-byte":
			add("h264 payload "+h.Name, wf(0, mp(96, vts, h.B), h.Name))
		}
	}
	// the other RFC 6184 payload structures (STAP-B, MTAP16, MTAP24, FU-B), whole and cut
	for _, h := range otherStructures(esgen.H264) {
		add("h264 payload "+h.Name, wf(0, mp(96, vts, h.B), h.Name))
	}
	for _, name := range []string{"mtap16-sps-pps-idr", "mtap24-sps-pps-idr", "stapb-sps-pps-idr"} {
		for _, h := range otherStructures(esgen.H264) {
			if h.Name != name {
				continue
			}
			for _, cut := range []int{4, 5, 6, 7, 8, len(h.B) - 1} {
				add(fmt.Sprintf("h264 payload %s cut to %d bytes", name, cut), wf(0, mp(96, vts, h.B[:cut]), name))
			}
		}
	}
	for _, h := range hostileAac {
		switch h.Name {
		case "empty", "headers-length-beyond", "au-size-beyond", "second-header-missing":
			add("aac payload "+h.Name, wf(2, mp(97, ats, h.B), h.Name))
		}
	}
	for _, n := range []int{0, 1, 2, 4, 8, 19, 20, 27} {
		b := rtppack.SenderReport(7, 3900000000, 0, vts, 1, 100)[:n]
		add(fmt.Sprintf("rtcp sender report cut to %d bytes (video control)", n), wf(1, b, "sr cut"))
		add(fmt.Sprintf("rtcp sender report cut to %d bytes (audio control)", n), wf(3, b, "sr cut"))
	}
	// RTP padding (P bit): lying and correct pad counts, short and normal payloads
	for _, pv := range paddingVariants(96, true, 7, vts, []byte{0x65, 0x88, 0x84}) {
		add("rtp padding video "+pv.Name, wf(0, pv.B, pv.Name))
	}
	for _, pv := range paddingVariants(96, true, 7, vts, append([]byte{0x65}, bytes.Repeat([]byte{0x91}, 40)...)) {
		switch {
		case strings.Contains(pv.Name, "octet-255"), strings.Contains(pv.Name, "octet-0-"), strings.Contains(pv.Name, "octet-42"), strings.Contains(pv.Name, "octet-53"), strings.Contains(pv.Name, "correctly-padded-4"):
			add("rtp padding video "+pv.Name, wf(0, pv.B, pv.Name))
		}
	}
	for _, pv := range paddingVariants(97, true, 7, ats, rtppack.AacHbr([][]byte{{0x21, 0x10, 0x04}})) {
		add("rtp padding audio "+pv.Name, wf(2, pv.B, pv.Name))
	}
	add("rtp padding video p-bit on a one-byte payload", wf(0, paddingVariants(96, true, 7, vts, []byte{0x65})[0].B, ""))
	// a fragmentation unit that never ends: start + fuMiddles middle fragments of 65 000 bytes (84: 5.3 MiB under reassembly)
	for rot, name := range []string{"then an aggregate", "then a single NAL unit", "then a start fragment"} {
		var fr []wireFrame
		for _, raw := range neverEndingFU(esgen.H264, fuMiddles, 65000, 5000, vts, rot != 1, false) {
			fr = append(fr, wf(0, raw, ""))
		}
		cases = append(cases, wireCase{fmt.Sprintf("never-ending FU-A of %d x 65000 bytes, abandoned, %s", fuMiddles+1, name), fr, rot})
	}
	{
		var fr []wireFrame
		for _, raw := range neverEndingFU(esgen.H264, fuMiddles, 65000, 5000, vts, true, true) {
			fr = append(fr, wf(0, raw, ""))
		}
		cases = append(cases, wireCase{fmt.Sprintf("huge FU-A of %d x 65000 bytes, finally ended", fuMiddles+2), fr, 2})
	}
	add("burst: every class in a row",
		wf(0, mp(96, vts, hx(0x78, 0x00, 0x01)), "stapa"), wf(2, mp(97, ats, hx()), "aac empty"),
		wf(1, hx(0x80, 0xc8, 0x00, 0x00), "rtcp 4 bytes"), wf(3, hx(), "rtcp empty"), wf(0, mp(96, vts, hx(0x7c)), "fu-a 1 byte"))
	return cases
}

// manyRefused: n frames the interleaved reader refuses (four kinds in rotation),
// with a well-formed video packet after every `every` of them (0: none). The
// statement sets no budget for damaged packets: the publisher's later good data
// must convert however many were refused before, in a row or over the
// connection's life (after seeded change C07-R5A: a skipped-frame budget that is
// never reset by good media).
func manyRefused(n, every int) []wireFrame {
	valid := rtppack.Pkt{PT: 96, Marker: true, Seq: 1, TS: 90000, SSRC: 5, Payload: []byte{0x41, 0x9a, 0x00}}.Marshal()
	kinds := []wireFrame{
		wf(9, valid, "valid RTP packet on channel 9"),
		wf(0, valid[:3], "3 bytes"),
		wf(2, nil, "empty"),
		wf(0, append([]byte{0x8f}, valid[1:]...), "CC=15"),
	}
	vts := uint32(90000 + probeStep)
	var fr []wireFrame
	for i := 0; i < n; i++ {
		fr = append(fr, kinds[i%len(kinds)])
		if every > 0 && i%every == every-1 {
			fr = append(fr, wf(0, mediaPacket(96, true, uint16(100+i/every), vts, []byte{0x41, 0x9a, 0x02, 0x80, 0x80, 0x80, 0x80}), "good slice"))
		}
	}
	return fr
}

// Frames the interleaved reader refuses: the session must survive them.
func TestWireRefusedFrames(t *testing.T) {
	for _, w := range refusedWireCases() {
		judgeWire(t, "wire-refused", w.class, w.fr, true, w.rot)
	}
	many := [][2]int{{300, 0}, {1500, 7}, {5000, 1}}
	if evid.Thorough() {
		many = append(many, [2]int{70000, 0}, [2]int{70000, 3})
	}
	for _, m := range many {
		class := fmt.Sprintf("%d refused frames on one connection, a good packet after every %d", m[0], m[1])
		judgeWire(t, "wire-refused", class, manyRefused(m[0], m[1]), true, 0)
	}
}

// Frames that reach the stream, through the real session.
func TestWireHostileFrames(t *testing.T) {
	for _, c := range hostileWireCases(84) {
		judgeWire(t, "wire-hostile", c.class, c.fr, false, c.rot)
	}
}
