// C07 — malformed media input is contained and never stops conversion of later
// good data.
//
// This file holds the rig every C07 check shares:
//
//   - wire(): a packet reaches media.Stream.WriteRtpPacket only the way the
//     publisher's session (service/rtsp/session.go process → receive →
//     rtp.ReadPacket → Session.onPack → tcpPushStream.WritePacket) or the pull
//     client (pull_client.go playStream → receive → onPack) builds it: an
//     interleaved frame "$ channel length16 data" (RFC 2326 §10.12) parsed by
//     rtp.ReadPacket with the channel table of the session. Frames that
//     ReadPacket refuses never reach a stream and are counted as "stopped at
//     input validation" (trivial for this property; layer C looks at what the
//     session does with them).
//   - runCase(): stream A receives prefix ++ [hostile] ++ probe, stream B (the
//     twin in the same process) receives prefix ++ probe at the same time.
//   - the CONTINUATION probe: K well-formed key-frame access units (parameter
//     sets + IDR/IRAP in an aggregation packet, a single NAL unit packet, a
//     fragmented unit; plus one AAC packet each when the stream has audio)
//     carrying process-unique tags. They must come out (1) at an RTP consumer,
//     the same packet objects in order, (2) at an FLV consumer as tags whose
//     data hold the tagged units, in order, (3) for H.264+AAC streams in an HLS
//     segment served by stream.Hlsable(). Waiting is polling with a bound, never
//     a fixed sleep.
package c07

import (
	"bufio"
	"bytes"
	"encoding/binary"
	"encoding/hex"
	"encoding/json"
	"fmt"
	"io"
	"os"
	"reflect"
	"runtime"
	"strings"
	"sync"
	"sync/atomic"
	"testing"
	"time"

	"github.com/cnotch/ipchub/av/format/flv"
	"github.com/cnotch/ipchub/av/format/rtp"
	"github.com/cnotch/ipchub/config"
	"github.com/cnotch/ipchub/media"
	"github.com/cnotch/xlog"
	"verif/harness/lib/evid"
	"verif/harness/lib/mediah"
	"verif/harness/lib/rtppack"
	"verif/harness/lib/rtppack/esgen"
)

func TestMain(m *testing.M) {
	// Streams log through the global logger; keep the run quiet but count what
	// the converter goroutines report at error level ("... routine panic").
	xlog.ReplaceGlobal(xlog.New(&logCore{}))
	// every converter goroutine of every stream reports when it is back at its queue (conv_test.go)
	watch.install()
	// 1-second HLS fragments (config hook), memory segments, GOP cache per case.
	config.VerifSet(":0", false, true, "", 1)
	evid.Main(m, "C07")
}

type logCore struct{}

var loggedPanics int64

func (c *logCore) Enabled(l xlog.Level) bool { return l >= xlog.ErrorLevel }
func (c *logCore) Sync() error               { return nil }
func (c *logCore) Write(e xlog.Entry) error {
	if strings.Contains(e.Message, "panic") {
		atomic.AddInt64(&loggedPanics, 1)
		if os.Getenv("C07_SHOW_PANICS") != "" {
			fmt.Fprintln(os.Stderr, "LOGGED:", firstLines(e.Message, 14))
		}
	}
	return nil
}

func firstLines(s string, n int) string {
	l := strings.SplitN(s, "\n", n+1)
	if len(l) > n {
		l = l[:n]
	}
	return strings.Join(l, "\n")
}

// bound is only used where no verdict depends on it (short settling waits).
// Verdicts wait on STATE (converters done, consumer queues drained) under the
// generous bound of conv_test.go, which a healthy tree never reaches.
const bound = 5 * time.Second

// ---------------------------------------------------------------- wire

// wire renders the interleaved frame a publisher would put on its RTSP
// connection and lets ipchub's own frame reader turn it into the packet value
// the session hands to the stream. err != nil: the frame is refused before any
// stream sees it.
func wire(channel byte, data []byte) (*rtp.Packet, error) {
	if len(data) > 0xffff {
		panic("c07: interleaved frame longer than 65535 bytes")
	}
	b := make([]byte, 4+len(data))
	b[0] = '$'
	b[1] = channel
	binary.BigEndian.PutUint16(b[2:], uint16(len(data)))
	copy(b[4:], data)
	return rtp.ReadPacket(bufio.NewReader(bytes.NewReader(b)), rtp.DefaultChannelConfig)
}

// pkt is one packet of a case, printable for replay files.
type pkt struct {
	Ch   byte   `json:"ch"`
	Hex  string `json:"hex"`
	Note string `json:"note,omitempty"`
	raw  []byte
}

func mkPkt(ch byte, raw []byte, note string) pkt {
	return pkt{Ch: ch, Note: note, raw: raw}
}

// MarshalJSON renders the bytes as hex only when a case is written out (cases
// may hold megabytes of fragments).
func (p pkt) MarshalJSON() ([]byte, error) {
	h := p.Hex
	if h == "" && p.raw != nil {
		h = hex.EncodeToString(p.raw)
	}
	return json.Marshal(struct {
		Ch   byte   `json:"ch"`
		Hex  string `json:"hex"`
		Note string `json:"note,omitempty"`
	}{p.Ch, h, p.Note})
}

func (p *pkt) bytes() []byte {
	if p.raw == nil && p.Hex != "" {
		p.raw, _ = hex.DecodeString(p.Hex)
	}
	return p.raw
}

// caseSpec is everything needed to re-run one case.
type caseSpec struct {
	Codec    string `json:"codec"` // H264 | H265
	Audio    bool   `json:"audio"`
	CacheGop bool   `json:"cache_gop"`
	NoSprop  bool   `json:"sdp_without_parameter_sets,omitempty"`
	BadAac   bool   `json:"sdp_aac_config_undecodable,omitempty"` // config=00: the TS AAC packetizer has no ADTS template
	SDP      string `json:"sdp,omitempty"`                        // overrides the built SDP (FuzzSdp)
	Class    string `json:"class"`
	Prefix   []pkt  `json:"prefix"`
	Pos      int    `json:"hostile_before_prefix_index"`
	Hostile  []pkt  `json:"hostile"`
	ProbeTS  uint32 `json:"probe_first_video_timestamp"`
	ProbeK   int    `json:"probe_access_units"`
	HLSJump  string `json:"presentation_timeline_jump,omitempty"`
	// ProbeRot rotates the probe's packetisations: unit j is carried as kind
	// (j+ProbeRot)%3 (0 aggregate with parameter sets, 1 single NAL unit, 2 three
	// fragments), so that the first probe packet can be a start fragment (2), a
	// single NAL unit (1) or an aggregate (0).
	ProbeRot int `json:"probe_rotation,omitempty"`
	// FU, when set, says how the hostile packets are generated (a never-ending
	// fragmentation unit): replay files then carry this recipe instead of megabytes of hex.
	FU *fuRecipe `json:"hostile_fragmentation_unit,omitempty"`
	// BoundScale multiplies the wait bound (cases that push tens of megabytes through the converters).
	BoundScale int `json:"bound_scale,omitempty"`
	// LegitPS: parameter-set NAL units (hex) the stream legitimately carries besides
	// the repository's real ones (SDP / probe): whole, well-formed units of valid
	// packets of the generated prefix. Never a unit of a hostile packet.
	LegitPS []string `json:"legitimate_parameter_sets,omitempty"`
	// PSNotJudged (a reason) switches the parameter-set identity check off: a
	// stream without sprop sets whose hostile packets arrive before its first
	// good in-band sets — ipchub documents that the first sets that make the
	// metadata ready are kept.
	PSNotJudged string `json:"parameter_set_identity_not_judged,omitempty"`
	HLSWaitMs   int    `json:"hls_wait_ms,omitempty"` // 0 = the default bound
	// SettleMs > 0 lets the converter goroutines work off the hostile packets before
	// the next packet is published (state-based: until they are back at their
	// queues). It only varies the schedule, it is no oracle.
	SettleMs int `json:"settle_ms_after_hostile,omitempty"`
}

// sigHLSJump: listed finding — the HLS segmenter cannot follow a jump of the
// presentation timeline (see TestWitnessHlsTimelineJump).
const sigHLSJump = "hls-stalls-after-presentation-time-jump"

type fuRecipe struct {
	Middles  int    `json:"middle_fragments"`
	FragSize int    `json:"fragment_payload_bytes"`
	Seq      uint16 `json:"first_sequence_number"`
	TS       uint32 `json:"timestamp"`
	Key      bool   `json:"key_picture"`
	Ended    bool   `json:"ended_by_an_end_fragment"`
}

// materialize rebuilds the hostile packets from the recipe (replay files).
func (c *caseSpec) materialize() {
	if c.FU != nil && len(c.Hostile) == 0 {
		for _, raw := range neverEndingFU(c.codec(), c.FU.Middles, c.FU.FragSize, c.FU.Seq, c.FU.TS, c.FU.Key, c.FU.Ended) {
			c.Hostile = append(c.Hostile, mkPkt(rtp.ChannelVideo, raw, ""))
		}
	}
}

// forReplay is the case as written into a violation file.
func (c *caseSpec) forReplay() *caseSpec {
	if c.FU == nil {
		return c
	}
	cc := *c
	cc.Hostile = nil
	return &cc
}

func (c *caseSpec) codec() esgen.Codec {
	if c.Codec == "H265" {
		return esgen.H265
	}
	return esgen.H264
}

func buildSDP(c *caseSpec) string {
	if c.SDP != "" {
		return c.SDP
	}
	if c.BadAac && c.Audio {
		cc := *c
		cc.BadAac = false
		return strings.Replace(buildSDP(&cc), "config="+hex.EncodeToString(esgen.RealAacASC), "config=00", 1)
	}
	if !c.NoSprop {
		return mediah.SDP(c.codec(), c.Audio)
	}
	s := "v=0\r\no=- 0 0 IN IP4 127.0.0.1\r\ns=verif\r\nc=IN IP4 127.0.0.1\r\nt=0 0\r\n"
	if c.codec() == esgen.H264 {
		s += "m=video 0 RTP/AVP 96\r\na=rtpmap:96 H264/90000\r\na=fmtp:96 packetization-mode=1\r\na=control:streamid=0\r\n"
	} else {
		s += "m=video 0 RTP/AVP 96\r\na=rtpmap:96 H265/90000\r\na=control:streamid=0\r\n"
	}
	if c.Audio {
		s += "m=audio 0 RTP/AVP 97\r\na=rtpmap:97 MPEG4-GENERIC/44100/2\r\n" +
			"a=fmtp:97 profile-level-id=1;mode=AAC-hbr;sizelength=13;indexlength=3;indexdeltalength=3; config=" + hex.EncodeToString(esgen.RealAacASC) + "\r\n" +
			"a=control:streamid=1\r\n"
	}
	return s
}

// ---------------------------------------------------------------- probe

var tagCounter uint64

// newTag returns 8 process-unique bytes without zero bytes (so no start code or
// emulation-prevention pattern can arise) and without 0xff.
func newTag() []byte {
	n := atomic.AddUint64(&tagCounter, 1)
	t := []byte{0xC7, 0x7C, 0, 0, 0, 0, 0, 0}
	for i := 0; i < 6; i++ {
		t[2+i] = 0x80 | byte(n>>(7*uint(i)))&0x7f
	}
	return t
}

type probeAU struct {
	fragmented bool // the key picture is carried as three fragments
	vtag, atag []byte
	pkts       []*rtp.Packet // in publish order, video then audio
}

const probeSSRC = 0x0C070C07
const probeStep = 54000 // 0.6 s at 90 kHz: two intervals close a 1-second HLS fragment

// buildProbe makes k key access units starting at video timestamp ts0. Unit j
// is carried as j%3==0: parameter sets + key slice in one aggregation packet
// (RFC 6184 §5.7.1 / RFC 7798 §4.4.2); 1: single NAL unit packet; 2: three
// fragments (RFC 6184 §5.8 / RFC 7798 §4.4.3).
func buildProbe(codec esgen.Codec, audio bool, k int, ts0 uint32, vseq, aseq uint16) []probeAU {
	return buildProbeRot(codec, audio, k, ts0, vseq, aseq, 0)
}

// buildProbeRot is buildProbe with the packetisation of unit j chosen by (j+rot)%3.
func buildProbeRot(codec esgen.Codec, audio bool, k int, ts0 uint32, vseq, aseq uint16, rot int) []probeAU {
	var out []probeAU
	for j := 0; j < k; j++ {
		au := probeAU{vtag: newTag(), fragmented: (j+rot)%3 == 2}
		var nal []byte
		if codec == esgen.H264 {
			nal = []byte{0x65} // nal_ref_idc 3, type 5 (IDR)
		} else {
			nal = []byte{19 << 1, 0x01} // IDR_W_RADL, layer 0, tid 1
		}
		nal = append(nal, au.vtag...)
		for i := 0; i < 30+7*j; i++ {
			nal = append(nal, 0x80|byte(i&0x3f))
		}
		var payloads [][]byte
		switch (j + rot) % 3 {
		case 0:
			if codec == esgen.H264 {
				payloads = [][]byte{rtppack.H264StapA([][]byte{esgen.RealH264SPS, esgen.RealH264PPS, nal})}
			} else {
				payloads = [][]byte{rtppack.H265AP([][]byte{esgen.RealH265VPS, esgen.RealH265SPS, esgen.RealH265PPS, nal})}
			}
		case 1:
			payloads = [][]byte{nal}
		default:
			if codec == esgen.H264 {
				payloads = rtppack.H264FuA(nal, (len(nal)-1+2)/3)
			} else {
				payloads = rtppack.H265FU(nal, (len(nal)-2+2)/3)
			}
		}
		ts := ts0 + uint32(j)*probeStep
		for _, p := range rtppack.Sequence(payloads, true, 96, ts, vseq, probeSSRC) {
			ip, err := wire(rtp.ChannelVideo, p.Marshal())
			if err != nil {
				panic("c07: probe packet refused by ReadPacket: " + err.Error())
			}
			au.pkts = append(au.pkts, ip)
		}
		vseq += uint16(len(payloads))
		if audio {
			au.atag = newTag()
			a := append(append([]byte{}, au.atag...), bytes.Repeat([]byte{0x5a}, 40+j)...)
			ats := uint32(uint64(ts) * 44100 / 90000)
			ip, err := wire(rtp.ChannelAudio, rtppack.Pkt{PT: 97, Marker: true, Seq: aseq, TS: ats, SSRC: probeSSRC + 1, Payload: rtppack.AacHbr([][]byte{a})}.Marshal())
			if err != nil {
				panic("c07: probe audio packet refused by ReadPacket: " + err.Error())
			}
			aseq++
			au.pkts = append(au.pkts, ip)
		}
		out = append(out, au)
	}
	return out
}

// ---------------------------------------------------------------- rig

type rig struct {
	name   string
	s      *media.Stream
	rtpRec *mediah.Rec
	flvRec *mediah.Rec
	sent   []*rtp.Packet
	paced  int // len(sent) at the last pacing point
	conv   *convSet
	rtpCID media.CID
	flvCID media.CID
	done   int64 // packets whose WriteRtpPacket has returned (atomic; progress of the publisher)
}

var rigCounter uint64

func newRig(c *caseSpec, name string) *rig {
	n := atomic.AddUint64(&rigCounter, 1)
	r := &rig{name: name}
	r.s = media.NewStream(fmt.Sprintf("/c07/%s%d", name, n), buildSDP(c))
	r.rtpRec = mediah.NewRec(name + "-rtp")
	r.flvRec = mediah.NewRec(name + "-flv")
	var err error
	if r.conv, err = watch.bind(r.s); err != nil {
		panic("c07 machinery: " + err.Error())
	}
	r.rtpCID = r.s.StartConsume(r.rtpRec, media.RTPPacket, "c07")
	r.flvCID = r.s.StartConsume(r.flvRec, media.FLVPacket, "c07")
	return r
}

// escaped describes a panic that reached the caller of WriteRtpPacket — in the
// server that is the publisher's session goroutine (or the pull goroutine).
type escaped struct {
	Value string `json:"panic"`
	Pkt   string `json:"packet"`
}

func (r *rig) write(p *rtp.Packet) (esc *escaped) {
	defer func() {
		if v := recover(); v != nil {
			esc = &escaped{Value: fmt.Sprint(v), Pkt: fmt.Sprintf("ch%d %s", p.Channel, evid.Hex(p.Data))}
		}
	}()
	r.sent = append(r.sent, p)
	r.s.WriteRtpPacket(p)
	atomic.AddInt64(&r.done, 1)
	// Pace the publisher to the recording RTP consumer: ipchub lets a consumer fall
	// 1000 packets behind and then drops, from a key picture on, until it has caught
	// up (property C04's documented backlog rule) — a recorder that a long burst has
	// left behind would legitimately lose packets, which is not what C07 judges.
	// State-based: every 400 packets wait until the recorder is within 100 of what
	// was published, or its queue is drained (then nothing more is coming).
	if len(r.sent)-r.paced >= 400 {
		r.paced = len(r.sent)
		mediah.WaitFor(generous, func() bool {
			return r.rtpRec.Len() >= len(r.sent)-100 || consumerDrained(r.s, r.rtpCID)
		})
	}
	return nil
}

// feed sends one case packet through the frame reader. reached=false: refused
// at input validation.
func (r *rig) feed(p *pkt) (reached bool, esc *escaped) {
	ip, err := wire(p.Ch, p.bytes())
	if err != nil {
		return false, nil
	}
	return true, r.write(ip)
}

// flvSnapshot renders the FLV tags received so far without the fields that
// depend on the wall clock (tag timestamps, composition times, the creation
// date inside onMetaData).
func (r *rig) flvSnapshot() []string {
	var out []string
	for _, g := range r.flvRec.Got() {
		t, ok := g.(*flv.Tag)
		if !ok {
			out = append(out, fmt.Sprintf("%T", g))
			continue
		}
		switch t.TagType {
		case flv.TagTypeVideo:
			d := t.Data
			if len(d) >= 5 {
				out = append(out, fmt.Sprintf("V %02x%02x %x", d[0], d[1], d[5:]))
			} else {
				out = append(out, fmt.Sprintf("V short %x", d))
			}
		case flv.TagTypeAudio:
			out = append(out, fmt.Sprintf("A %x", t.Data))
		default:
			out = append(out, fmt.Sprintf("S type=%d", t.TagType))
		}
	}
	return out
}

func (r *rig) flvHas(tag []byte) bool {
	for _, g := range r.flvRec.Got() {
		if t, ok := g.(*flv.Tag); ok && len(t.Data) <= probeTagMax && bytes.Contains(t.Data, tag) {
			return true
		}
	}
	return false
}

// probeTagMax: an FLV tag made from a probe unit is a few hundred bytes; larger
// tags (a hostile unit of megabytes) are not searched for the probe's marks.
const probeTagMax = 64 << 10

// flvOrder returns the positions of the tags holding each probe tag (-1 when
// missing).
func (r *rig) flvPositions(tags [][]byte) []int {
	got := r.flvRec.Got()
	pos := make([]int, len(tags))
	for i, tg := range tags {
		pos[i] = -1
		for j, g := range got {
			if t, ok := g.(*flv.Tag); ok && len(t.Data) <= probeTagMax && bytes.Contains(t.Data, tg) {
				pos[i] = j
				break
			}
		}
	}
	return pos
}

// tsPayload concatenates the payload bytes of all transport packets of one PID
// (ISO/IEC 13818-1 §2.4.3.2: 188-byte packets, sync byte 0x47, 13-bit PID,
// adaptation_field_control in bits 5..4 of byte 3; §2.4.3.4: an adaptation field
// starts with its own length byte). Consecutive PES packets of a PID are
// therefore contiguous in the result, and a byte pattern inside one elementary
// stream unit can be searched for without a full demultiplexer.
func tsPayload(b []byte, pid uint16) []byte {
	out := make([]byte, 0, len(b)/188*184)
	for ; len(b) >= 188; b = b[188:] {
		if b[0] != 0x47 {
			continue
		}
		if uint16(b[1]&0x1f)<<8|uint16(b[2]) != pid {
			continue
		}
		afc := b[3] >> 4 & 3
		off := 4
		if afc&2 != 0 {
			off += 1 + int(b[4])
		}
		if afc&1 == 0 || off >= 188 {
			continue
		}
		out = append(out, b[off:188]...)
	}
	return out
}

// hlsOf returns the stream's HLS access, nil when it has none. (Hlsable()
// returns a *hls.Playlist typed nil inside a non-nil interface for streams
// without HLS, so the interface value alone does not tell.)
func hlsOf(s *media.Stream) media.Hlsable {
	h := s.Hlsable()
	if h == nil {
		return nil
	}
	if v := reflect.ValueOf(h); v.Kind() == reflect.Ptr && v.IsNil() {
		return nil
	}
	return h
}

// hlsHas reports whether any segment the playlist still serves holds tag in any
// elementary stream.
func (r *rig) hlsHas(tag []byte) bool { return r.hlsHasAny([][]byte{tag}, nil) }

// hlsHasAny reads every served segment once and reports whether one of the tags
// lies in one of its elementary streams. scanned (optional) remembers the
// segments already searched in vain for this tag set (sequence number → size),
// so that a polling caller does not read megabytes again and again.
func (r *rig) hlsHasAny(tags [][]byte, scanned map[int]int) bool {
	h := hlsOf(r.s)
	if h == nil {
		return false
	}
	for seq := 1; seq <= 64; seq++ {
		rd, size, err := h.Segment(seq)
		if err != nil || rd == nil {
			continue
		}
		if scanned != nil && scanned[seq] == size+1 {
			continue
		}
		b, err := io.ReadAll(rd)
		if err != nil {
			continue
		}
		if scanned != nil {
			scanned[seq] = size + 1
		}
		pids := map[uint16]bool{}
		for o := 0; o+188 <= len(b); o += 188 {
			pids[uint16(b[o+1]&0x1f)<<8|uint16(b[o+2])] = true
		}
		for pid := range pids {
			es := tsPayload(b, pid)
			for _, tag := range tags {
				if bytes.Contains(es, tag) {
					return true
				}
			}
		}
	}
	return false
}

// ---------------------------------------------------------------- running a case

type result struct {
	Reached    []bool   `json:"hostile_reached_stream"`
	Escaped    *escaped `json:"escaped_panic,omitempty"`
	Hang       string   `json:"hang,omitempty"`
	RTPMiss    string   `json:"rtp_continuation,omitempty"`
	FLVMiss    string   `json:"flv_continuation,omitempty"`
	HLSMiss    string   `json:"hls_continuation,omitempty"`
	PSWrong    string   `json:"parameter_sets_in_output,omitempty"`
	HasFLV     bool     `json:"-"`
	HasHLS     bool     `json:"-"`
	HLSSkipped bool     `json:"hls_subcheck_skipped_listed_finding,omitempty"`
	TwinRTP    []int    `json:"-"`
	TwinFLV    []string `json:"-"`
	TwinMiss   string   `json:"twin_continuation,omitempty"`
	VideoMeta  string   `json:"-"`
}

func (res *result) failure() string {
	switch {
	case res.Escaped != nil:
		return "panic-escapes-to-publisher"
	case res.Hang != "":
		return "publisher-blocked"
	case res.RTPMiss != "":
		return "rtp-relay-stopped"
	case res.FLVMiss != "":
		return "flv-conversion-stopped"
	case res.HLSMiss != "":
		return "hls-conversion-stopped"
	case res.PSWrong != "":
		return "hostile-parameter-set-in-output"
	case res.TwinMiss != "":
		return "twin-stream-disturbed"
	}
	return ""
}

var cfgMu sync.Mutex

// runCase executes the case once. inject=false leaves the hostile packets out
// (the control run of the metamorphic comparison).
func runCase(c *caseSpec, inject bool) *result {
	cfgMu.Lock()
	config.VerifSet(":0", false, c.CacheGop, "", 1)
	a := newRig(c, "a")
	b := newRig(c, "b")
	cfgMu.Unlock()
	res := &result{}
	defer func() {
		// A panic that escaped from WriteRtpPacket may have left a stream lock held
		// (Close would then block for ever): close in the background and wait only
		// briefly, the verdict does not depend on it.
		for _, s := range []*media.Stream{a.s, b.s} {
			done := make(chan struct{})
			go func(s *media.Stream) { defer close(done); defer func() { recover() }(); s.Close() }(s)
			wait := 2 * time.Second
			if res.Escaped != nil || res.Hang != "" {
				wait = 10 * time.Millisecond
			}
			select {
			case <-done:
			case <-time.After(wait):
			}
		}
		watch.release(a.conv)
		watch.release(b.conv)
	}()
	res.HasFLV = a.s.Video.Codec == "H264" || a.s.Video.Codec == "H265"
	hlsStream := hlsOf(a.s) != nil
	res.HasHLS = hlsStream
	if res.HasHLS && inject && c.HLSJump != "" && evid.Known(sigHLSJump) {
		evid.Excluded(sigHLSJump)
		res.HasHLS = false
		res.HLSSkipped = true
	}
	k := c.ProbeK
	if k <= 0 {
		k = 3
		if hlsStream {
			k = 9
		}
	}
	var vseq, aseq uint16 = 20000, 30000
	pa := buildProbeRot(c.codec(), c.Audio, k, c.ProbeTS, vseq, aseq, c.ProbeRot)
	pb := buildProbeRot(c.codec(), c.Audio, k, c.ProbeTS, vseq, aseq, c.ProbeRot)

	done := make(chan struct{})
	var pubGoroutine atomic.Value // "goroutine N [" of the publishing goroutine
	go func() {
		defer close(done)
		hdr := make([]byte, 64)
		hdr = hdr[:runtime.Stack(hdr, false)]
		if i := bytes.IndexByte(hdr, '['); i > 0 {
			pubGoroutine.Store(string(hdr[:i+1]))
		}
		for i := 0; i <= len(c.Prefix); i++ {
			if i == c.Pos && inject {
				for h := range c.Hostile {
					reached, esc := a.feed(&c.Hostile[h])
					res.Reached = append(res.Reached, reached)
					if esc != nil {
						res.Escaped = esc
						return
					}
				}
				if c.SettleMs > 0 {
					// let the converters work off the hostile packets before the next one is published
					mediah.WaitFor(generous, func() bool { return watch.done(a.conv, len(a.sent)) })
				}
			}
			if i == len(c.Prefix) {
				break
			}
			if _, esc := a.feed(&c.Prefix[i]); esc != nil {
				res.Escaped = esc
				return
			}
			if _, esc := b.feed(&c.Prefix[i]); esc != nil {
				res.Escaped = esc
				return
			}
		}
		for j := range pa {
			for _, p := range pa[j].pkts {
				if esc := a.write(p); esc != nil {
					res.Escaped = esc
					return
				}
			}
			for _, p := range pb[j].pkts {
				if esc := b.write(p); esc != nil {
					res.Escaped = esc
					return
				}
			}
		}
	}()
	// "publisher blocked" is a state, not a deadline: no packet has completed for a
	// long while AND two goroutine dumps a second apart show the publishing
	// goroutine parked at the same place inside Stream.WriteRtpPacket.
	if hang := waitPublisher(done, &pubGoroutine, a, b); hang != "" {
		res.Hang = hang
		return res
	}
	if res.Escaped != nil {
		return res
	}
	res.RTPMiss, res.FLVMiss, res.HLSMiss = continuation(a, pa, res.HasFLV, res.HasHLS)
	if inject && c.PSNotJudged == "" && res.RTPMiss+res.FLVMiss+res.HLSMiss == "" {
		res.PSWrong = parameterSetIdentity(c, a, pa, res.HasFLV, res.HasHLS)
	}
	r2, f2, h2 := continuation(b, pb, res.HasFLV, hlsStream)
	if r2+f2+h2 != "" {
		res.TwinMiss = strings.TrimSpace(r2 + " " + f2 + " " + h2)
	}
	// twin outputs: everything up to and including the probe (the queues are FIFO,
	// so once the last probe unit is out nothing earlier is still in flight)
	idx := map[*rtp.Packet]int{}
	for i, p := range b.sent {
		idx[p] = i
	}
	for _, g := range b.rtpRec.Got() {
		if p, ok := g.(*rtp.Packet); ok {
			if i, ok := idx[p]; ok {
				res.TwinRTP = append(res.TwinRTP, i)
				continue
			}
		}
		res.TwinRTP = append(res.TwinRTP, -1)
	}
	res.TwinFLV = b.flvSnapshot()
	return res
}

// waitPublisher waits for the publishing goroutine. It returns "" when the
// goroutine has finished, or the evidence that it is blocked inside ipchub.
func waitPublisher(done chan struct{}, gid *atomic.Value, rigs ...*rig) string {
	progress := func() (n int64) {
		for _, r := range rigs {
			n += atomic.LoadInt64(&r.done)
		}
		return
	}
	last, since := progress(), time.Now()
	for {
		select {
		case <-done:
			return ""
		case <-time.After(50 * time.Millisecond):
		}
		if p := progress(); p != last {
			last, since = p, time.Now()
			continue
		}
		if time.Since(since) < generous/2 {
			continue
		}
		// no packet completed for a minute: is the goroutine parked inside WriteRtpPacket?
		id, _ := gid.Load().(string)
		pick := func() string {
			for _, g := range stacksOf("media.(*Stream).WriteRtpPacket") {
				if id != "" && strings.HasPrefix(g, id) {
					return g
				}
			}
			return ""
		}
		s1 := pick()
		time.Sleep(time.Second)
		s2 := pick()
		if s1 != "" && s1 == s2 && progress() == last {
			return fmt.Sprintf("the publishing goroutine completed no packet for %v and is parked inside WriteRtpPacket (two identical stack samples a second apart):\n%s", time.Since(since).Round(time.Second), firstLines(s1, 16))
		}
		since = time.Now() // not inside ipchub (paced by the harness / descheduled): keep waiting
	}
}

// continuation says what of the probe is missing at r — after the STATE in which
// nothing more can arrive has been reached: the recording consumers' queues are
// drained and the converter goroutines have worked off everything published.
func continuation(r *rig, probe []probeAU, hasFLV, hasHLS bool) (rtpMiss, flvMiss, hlsMiss string) {
	var want []*rtp.Packet
	for _, au := range probe {
		want = append(want, au.pkts...)
	}
	// (1) RTP relay: the tail of what the consumer received is the probe, same objects, in order
	total := len(r.sent)
	settled := mediah.WaitFor(generous, func() bool { return r.rtpRec.Len() >= total || consumerDrained(r.s, r.rtpCID) })
	switch got := r.rtpRec.Got(); {
	case !settled:
		rtpMiss = fmt.Sprintf("RTP consumer: its delivery goroutine has not drained its queue for %v (%d of %d published packets delivered, %d queued)", generous, len(got), total, media.VerifQueueLen(r.s, r.rtpCID))
	case len(got) < total:
		rtpMiss = fmt.Sprintf("RTP consumer received %d of %d published packets, its queue is empty and nothing is in flight", len(got), total)
	default:
		tail := got[len(got)-len(want):]
		for i := range want {
			if p, ok := tail[i].(*rtp.Packet); !ok || p != want[i] {
				rtpMiss = fmt.Sprintf("RTP consumer: probe packet %d of %d is not at its place at the end of the delivered list", i, len(want))
				break
			}
		}
	}
	if !hasFLV && !hasHLS {
		return
	}
	// the converters have worked off everything that was published
	if wedged := watch.waitDone(r.conv, total); wedged != "" {
		flvMiss = wedged
		return
	}
	state := "after the demuxer and the muxers had worked off all " + fmt.Sprint(total) + " published packets"
	// (2) FLV
	if hasFLV {
		var tags [][]byte
		for _, au := range probe {
			tags = append(tags, au.vtag)
			if au.atag != nil {
				tags = append(tags, au.atag)
			}
		}
		last := tags[len(tags)-1]
		lastV := probe[len(probe)-1].vtag
		drained := mediah.WaitFor(generous, func() bool {
			return (r.flvHas(last) && r.flvHas(lastV)) || consumerDrained(r.s, r.flvCID)
		})
		pos := r.flvPositions(tags)
		missing := 0
		for _, p := range pos {
			if p < 0 {
				missing++
			}
		}
		switch {
		case missing > 0 && !drained:
			flvMiss = fmt.Sprintf("FLV consumer: its delivery goroutine has not drained its queue for %v (%d tags queued)", generous, media.VerifQueueLen(r.s, r.flvCID))
		case missing > 0:
			flvMiss = fmt.Sprintf("FLV consumer: %s, %d of %d probe units (key frames / AAC frames) are missing (its queue is empty); %d tags received in all; %s", state, missing, len(tags), r.flvRec.Len(), watch.describe(r.conv, total))
		default:
			// video order and audio order are each kept
			lv, la := -1, -1
			for i, p := range pos {
				isAudio := probe[0].atag != nil && i%2 == 1
				if isAudio {
					if p < la {
						flvMiss = "FLV consumer: probe audio tags out of order"
					}
					la = p
				} else {
					if p < lv {
						flvMiss = "FLV consumer: probe video tags out of order"
					}
					lv = p
				}
			}
		}
	}
	// (3) HLS. The segmenter runs inside the TS muxer goroutine, so once that has
	// worked off its queue the playlist is in its final state: one look, no wait.
	// A well-formed FRAGMENTED key picture must still reach HLS: one of the probe's
	// fragmented units (three of nine) has to be in a served segment. (Which units
	// lie in segments already cut when the probe ends depends on how audio and
	// video presentation times interleave; the last ones are in the open segment.)
	if hasHLS {
		frag := false
		for _, au := range probe {
			frag = frag || au.fragmented
		}
		var look [][]byte
		for _, au := range probe {
			if au.fragmented || !frag {
				look = append(look, au.vtag)
			}
		}
		if !r.hlsHasAny(look, nil) {
			what := fmt.Sprintf("any of the %d probe key frames", len(probe))
			if frag {
				what = "any of the fragmented probe key frames"
			}
			hlsMiss = fmt.Sprintf("HLS: %s, no segment served by the playlist holds %s", state, what)
		}
	}
	return
}

// ---------------------------------------------------------------- which parameter sets the output carries

// legit returns the parameter-set NAL units the stream legitimately carries, by
// NAL type: the repository's real sets (what the SDP and the probe carry) plus
// the well-formed in-band units of the generated prefix.
func legit(c *caseSpec) map[byte][][]byte {
	m := map[byte][][]byte{}
	add := func(n []byte) {
		if len(n) > 0 {
			t := c.codec().NalType(n)
			m[t] = append(m[t], n)
		}
	}
	if c.codec() == esgen.H264 {
		add(esgen.RealH264SPS)
		add(esgen.RealH264PPS)
	} else {
		add(esgen.RealH265VPS)
		add(esgen.RealH265SPS)
		add(esgen.RealH265PPS)
	}
	for _, h := range c.LegitPS {
		b, _ := hex.DecodeString(h)
		add(b)
	}
	return m
}

func isLegit(m map[byte][][]byte, typ byte, n []byte) bool {
	for _, l := range m[typ] {
		if bytes.Equal(l, n) {
			return true
		}
	}
	return false
}

// annexB splits a byte stream at start codes (ITU-T H.264 Annex B: 00 00 01, a
// preceding zero byte belongs to the start code) and returns the units with the
// offset of their first byte.
type nalAt struct {
	off int
	b   []byte
}

func annexB(es []byte) []nalAt {
	var out []nalAt
	start := -1
	for i := 0; i+3 <= len(es); i++ {
		if es[i] == 0 && es[i+1] == 0 && es[i+2] == 1 {
			if start >= 0 {
				end := i
				for end > start && es[end-1] == 0 {
					end--
				}
				out = append(out, nalAt{start, es[start:end]})
			}
			start = i + 3
			i += 2
		}
	}
	if start >= 0 && start < len(es) {
		out = append(out, nalAt{start, es[start:]})
	}
	return out
}

// flvSequenceHeader returns the record of the first video tag that is a
// sequence header (FLV video tag header: frame type / codec id, packet type 0,
// 24-bit composition time; then the decoder configuration record).
func flvSequenceHeader(got []media.Pack) (codecID byte, record []byte, ok bool) {
	for _, g := range got {
		t, isTag := g.(*flv.Tag)
		if !isTag || t.TagType != flv.TagTypeVideo || len(t.Data) < 5 || t.Data[1] != 0 {
			continue
		}
		return t.Data[0] & 0x0f, t.Data[5:], true
	}
	return 0, nil, false
}

// avcCSets reads the parameter sets out of an AVCDecoderConfigurationRecord
// (ISO/IEC 14496-15 §5.2.4.1: version, profile, compatibility, level,
// 6 bits reserved + lengthSizeMinusOne, 3 bits reserved + numOfSPS, then per SPS
// a 16-bit length and the unit, numOfPPS, per PPS a 16-bit length and the unit).
func avcCSets(r []byte) (sets [][]byte, err error) {
	if len(r) < 6 {
		return nil, fmt.Errorf("record of %d bytes", len(r))
	}
	o := 5
	for round := 0; round < 2; round++ {
		if o >= len(r) {
			return nil, fmt.Errorf("record ends before the parameter-set count")
		}
		n := int(r[o])
		if round == 0 {
			n &= 0x1f
		}
		o++
		for i := 0; i < n; i++ {
			if o+2 > len(r) {
				return nil, fmt.Errorf("record ends inside a length field")
			}
			l := int(r[o])<<8 | int(r[o+1])
			o += 2
			if o+l > len(r) {
				return nil, fmt.Errorf("parameter set of %d bytes announced, %d left", l, len(r)-o)
			}
			sets = append(sets, r[o:o+l])
			o += l
		}
	}
	return sets, nil
}

// checkSequenceHeader judges an FLV video sequence header against the legitimate sets.
func checkSequenceHeader(c *caseSpec, who string, got []media.Pack, lg map[byte][][]byte) string {
	_, rec, ok := flvSequenceHeader(got)
	if !ok {
		return "" // whether a joiner gets one at all is C02's / C08's business
	}
	if c.codec() == esgen.H264 {
		sets, err := avcCSets(rec)
		if err != nil {
			return fmt.Sprintf("%s: the FLV video sequence header does not parse as an AVCDecoderConfigurationRecord: %v (%s)", who, err, evid.Hex(rec))
		}
		seen := map[byte]bool{}
		for _, n := range sets {
			if len(n) == 0 {
				return who + ": the FLV video sequence header carries an empty parameter set"
			}
			typ := n[0] & 0x1f
			seen[typ] = true
			if !isLegit(lg, typ, n) {
				return fmt.Sprintf("%s: the FLV video sequence header carries the parameter set %s (type %d), which is none of the sets the stream legitimately carries", who, evid.Hex(n), typ)
			}
		}
		if !seen[esgen.H264SPS] || !seen[esgen.H264PPS] {
			return who + ": the FLV video sequence header lacks an SPS or a PPS"
		}
		return ""
	}
	// HEVCDecoderConfigurationRecord (ISO/IEC 14496-15 §8.3.3.1): each unit is stored
	// as nalUnitLength(16) + NAL unit inside its array; every type needs a legitimate unit
	for _, typ := range []byte{esgen.H265VPS, esgen.H265SPS, esgen.H265PPS} {
		found := false
		for _, l := range lg[typ] {
			if bytes.Contains(rec, append([]byte{byte(len(l) >> 8), byte(len(l))}, l...)) {
				found = true
			}
		}
		if !found {
			return fmt.Sprintf("%s: the FLV HEVC sequence header holds no legitimate parameter set of type %d (%s)", who, typ, evid.Hex(rec))
		}
	}
	return ""
}

// parameterSetIdentity: after the hostile input the converted output must carry
// parameter sets the stream legitimately carries, never a unit of a hostile
// packet: (1) in every served HLS segment that holds a probe key frame, the
// nearest SPS and PPS in front of that key frame (the TS muxer writes the
// stored sets before every IDR); (2) the sequence header of the FLV client that
// watched from the start; (3) the sequence header a late FLV joiner is handed
// after the hostile input.
func parameterSetIdentity(c *caseSpec, r *rig, probe []probeAU, hasFLV, hasHLS bool) string {
	lg := legit(c)
	if hasFLV {
		if m := checkSequenceHeader(c, "FLV client from the start", r.flvRec.Got(), lg); m != "" {
			return m
		}
		late := mediah.NewRec(r.name + "-late-flv")
		cid := r.s.StartConsume(late, media.FLVPacket, "c07-late")
		// what a joiner is handed is queued inside StartConsume: wait until its queue is drained
		mediah.WaitFor(generous, func() bool { return consumerDrained(r.s, cid) })
		m := checkSequenceHeader(c, "late FLV joiner", late.Got(), lg)
		r.s.StopConsume(cid)
		if m != "" {
			return m
		}
	}
	if hasHLS {
		h := hlsOf(r.s)
		judged := 0
		for seq := 1; seq <= 64 && h != nil; seq++ {
			rd, _, err := h.Segment(seq)
			if err != nil || rd == nil {
				continue
			}
			b, err := io.ReadAll(rd)
			if err != nil {
				continue
			}
			pids := map[uint16]bool{}
			for o := 0; o+188 <= len(b); o += 188 {
				pids[uint16(b[o+1]&0x1f)<<8|uint16(b[o+2])] = true
			}
			for pid := range pids {
				es := tsPayload(b, pid)
				var nals []nalAt
				for _, au := range probe {
					at := bytes.Index(es, au.vtag)
					if at < 0 {
						continue
					}
					if nals == nil {
						nals = annexB(es)
					}
					var sps, pps []byte
					for _, n := range nals {
						if n.off > at {
							break
						}
						if len(n.b) == 0 {
							continue
						}
						switch n.b[0] & 0x1f {
						case esgen.H264SPS:
							sps = n.b
						case esgen.H264PPS:
							pps = n.b
						}
					}
					judged++
					if sps == nil || pps == nil {
						return fmt.Sprintf("HLS segment %d: no SPS / PPS in front of a probe key frame", seq)
					}
					if !isLegit(lg, esgen.H264SPS, sps) {
						return fmt.Sprintf("HLS segment %d: the SPS in front of a probe key frame is %s, none of the sets the stream legitimately carries", seq, evid.Hex(sps))
					}
					if !isLegit(lg, esgen.H264PPS, pps) {
						return fmt.Sprintf("HLS segment %d: the PPS in front of a probe key frame is %s, none of the sets the stream legitimately carries", seq, evid.Hex(pps))
					}
				}
			}
		}
		_ = judged
	}
	return ""
}

// judge runs the case with and without the hostile packets, raises a violation
// for any broken part of the oracle, and returns the injected run's result.
func judge(t evid.TB, name string, c *caseSpec) *result {
	t.Helper()
	c.materialize()
	res := runCase(c, true)
	if f := res.failure(); f != "" {
		evid.Violation(t, name+"/"+f, map[string]any{"case": c.forReplay(), "result": res}, "%s (class %s): %s", f, c.Class, describe(res))
	}
	ctl := runCase(c, false)
	if f := ctl.failure(); f != "" {
		// the valid stream alone does not satisfy the probe: the harness left the
		// domain the converters handle, not a C07 matter — fail loudly as a harness problem
		evid.Violation(t, name+"/control-run-failed", map[string]any{"case": c.forReplay(), "result": ctl}, "control run (no hostile packet) failed: %s: %s", f, describe(ctl))
	}
	if fmt.Sprint(res.TwinRTP) != fmt.Sprint(ctl.TwinRTP) {
		evid.Violation(t, name+"/twin-rtp-differs", map[string]any{"case": c, "with": res.TwinRTP, "without": ctl.TwinRTP}, "the twin stream's RTP consumer received %v with the injection into the other stream and %v without", res.TwinRTP, ctl.TwinRTP)
	}
	if !sameProbeFree(res.TwinFLV, ctl.TwinFLV) {
		evid.Violation(t, name+"/twin-flv-differs", map[string]any{"case": c, "with": res.TwinFLV, "without": ctl.TwinFLV}, "the twin stream's FLV tags differ with and without the injection into the other stream (%d vs %d tags)", len(res.TwinFLV), len(ctl.TwinFLV))
	}
	return res
}

// sameProbeFree compares two FLV snapshots ignoring the process-unique probe
// tags (they differ between runs by construction).
func sameProbeFree(a, b []string) bool {
	if len(a) != len(b) {
		return false
	}
	for i := range a {
		if maskTags(a[i]) != maskTags(b[i]) {
			return false
		}
	}
	return true
}

func maskTags(s string) string {
	// a probe tag is c77c followed by six bytes with the top bit set
	for {
		i := strings.Index(s, "c77c")
		if i < 0 || i+16 > len(s) {
			return s
		}
		s = s[:i] + "<probe-tag------>" + s[i+16:]
	}
}

func describe(r *result) string {
	switch {
	case r.Escaped != nil:
		return fmt.Sprintf("panic %q escaped from WriteRtpPacket(%s)", r.Escaped.Value, r.Escaped.Pkt)
	case r.Hang != "":
		return r.Hang
	}
	return strings.TrimSpace(strings.Join([]string{r.RTPMiss, r.FLVMiss, r.HLSMiss, r.PSWrong, r.TwinMiss}, " "))
}

func replayOrSkip(t *testing.T) []byte {
	p := os.Getenv("VERIF_REPLAY_FILE")
	if p == "" {
		t.Skip("VERIF_REPLAY_FILE not set")
	}
	b, err := os.ReadFile(p)
	if err != nil {
		t.Fatal(err)
	}
	return b
}
