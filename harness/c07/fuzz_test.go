package c07

import (
	"bytes"
	"encoding/hex"
	"fmt"
	"strings"
	"testing"
	"time"

	"github.com/cnotch/ipchub/av/format/rtp"
	"github.com/cnotch/ipchub/media"
	"verif/harness/lib/evid"
	"verif/harness/lib/mediah"
	"verif/harness/lib/rtppack"
	"verif/harness/lib/rtppack/esgen"
)

// Byte-level native fuzz targets. Each input is (flags, bytes): the bytes become
// an RTP payload behind a valid fixed header on the video / audio channel, or a
// whole RTCP packet on a control channel, of an H.264+AAC (or H.265+AAC)
// stream; flags choose where in the stream it lands. The oracle is the same as
// in the structured check (no escaping panic, the publisher's call returns,
// continuation on RTP / FLV / HLS of the same stream and of the twin stream).
// The plain `go test` run replays the seed corpus (the hostile constants).
//
// flags: bit0 = a leading sender report on both control channels,
//        bit1 = marker bit of the hostile packet,
//        bits 2..3 = position: 0 first packet of the stream, 1 after one key
//        access unit, 2 after two, 3 after two plus the first fragment of a
//        fragmented key frame (the fragment buffer is open),
//        bit4 = GOP cache off,
//        bit5 = (media targets) the P bit of the RTP header is set — the last
//        payload octet then reads as a pad count (RFC 3550 §5.1); (FuzzRtcp) the
//        audio control channel,
//        bits 6..7 = the hostile packet is sent 1, 8, 40 or 90 times with
//        consecutive sequence numbers (a middle fragment repeated = a
//        fragmentation unit that never ends).

const maxFuzzPayload = 2048

func fuzzCase(codec esgen.Codec, flags byte, ch byte, data []byte, class string) *caseSpec {
	if len(data) > maxFuzzPayload {
		data = data[:maxFuzzPayload]
	}
	c := &caseSpec{Codec: codec.String(), Audio: true, CacheGop: flags&0x10 == 0, Class: class}
	const base = 90000
	if flags&1 != 0 {
		c.Prefix = append(c.Prefix,
			mkPkt(rtp.ChannelVideoControl, rtppack.SenderReport(probeSSRC, 3900000000, 0, base, 0, 0), "valid SR"),
			mkPkt(rtp.ChannelAudioControl, rtppack.SenderReport(probeSSRC+1, 3900000000, 0, base*441/900, 0, 0), "valid SR"))
	}
	pos := int(flags >> 2 & 3)
	n := pos
	if n > 2 {
		n = 2
	}
	c.Prefix = append(c.Prefix, plainPrefix(codec, true, n, base)...)
	ts := uint32(base + n*probeStep)
	if pos == 3 {
		frag := buildProbe(codec, false, 3, ts, 600, 0)[2].pkts[0] // first fragment of a fragmented key frame
		c.Prefix = append(c.Prefix, mkPkt(rtp.ChannelVideo, frag.Data, "valid first fragment"))
	}
	c.Pos = len(c.Prefix)
	repeat := []int{1, 8, 40, 90}[flags>>6]
	for i := 0; i < repeat; i++ {
		var raw []byte
		switch ch {
		case rtp.ChannelVideo:
			raw = mediaPacket(96, flags&2 != 0, 601+uint16(i), ts, data)
		case rtp.ChannelAudio:
			raw = mediaPacket(97, flags&2 != 0, 701+uint16(i), uint32(uint64(ts)*44100/90000), data)
		default:
			raw = data
		}
		if flags&0x20 != 0 && (ch == rtp.ChannelVideo || ch == rtp.ChannelAudio) {
			raw[0] |= 0x20
		}
		c.Hostile = append(c.Hostile, mkPkt(ch, raw, class))
	}
	c.ProbeRot = int(flags>>2) % 3
	planProbe(c)
	return c
}

func fuzzJudge(t *testing.T, name string, c *caseSpec) {
	evid.Eval(1)
	res := runCase(c, true)
	if f := res.failure(); f != "" {
		evid.Violation(t, name+"/"+f, map[string]any{"case": c, "result": res}, "%s: %s", f, describe(res))
	}
	record(c, res, name)
}

func FuzzH264Payload(f *testing.F) {
	for i, h := range hostileH264 {
		f.Add(byte(i*4+1), h.B)
		f.Add(byte(12), h.B)
	}
	f.Add(byte(8), rtppack.H264StapA([][]byte{esgen.RealH264SPS, esgen.RealH264PPS, {0x65, 0x88, 0x84}}))
	mid := append([]byte{0x7c, 0x05}, bytes.Repeat([]byte{0x91}, 2000)...) // FU-A middle fragment: neither S nor E
	for _, fl := range []byte{0x0c, 0x4c, 0x8c, 0xcc, 0xc8, 0xc4} {        // after an open start fragment / fresh; 1, 8, 40, 90 times
		f.Add(fl, mid)
	}
	f.Add(byte(0xcc), append([]byte{0x7c, 0x85}, bytes.Repeat([]byte{0x91}, 2000)...)) // 90 start fragments
	for _, last := range []byte{0, 1, 3, 4, 5, 16, 255} {                              // P bit, last octet = pad count
		f.Add(byte(0x24), []byte{0x65, 0x88, 0x84, last})
		f.Add(byte(0x28), []byte{last})
	}
	f.Fuzz(func(t *testing.T, flags byte, data []byte) {
		fuzzJudge(t, "fuzz-h264", fuzzCase(esgen.H264, flags, rtp.ChannelVideo, data, "fuzz-h264-payload"))
	})
}

func FuzzH265Payload(f *testing.F) {
	for i, h := range hostileH265 {
		f.Add(byte(i*4+1), h.B)
		f.Add(byte(12), h.B)
	}
	f.Add(byte(8), rtppack.H265AP([][]byte{esgen.RealH265VPS, esgen.RealH265SPS, esgen.RealH265PPS, {0x26, 0x01, 0xaf}}))
	mid := append([]byte{0x62, 0x01, 0x13}, bytes.Repeat([]byte{0x91}, 2000)...) // FU middle fragment: neither S nor E
	for _, fl := range []byte{0x0c, 0x4c, 0x8c, 0xcc, 0xc8, 0xc4} {
		f.Add(fl, mid)
	}
	f.Add(byte(0xcc), append([]byte{0x62, 0x01, 0x93}, bytes.Repeat([]byte{0x91}, 2000)...))
	for _, last := range []byte{0, 1, 3, 4, 5, 16, 255} {
		f.Add(byte(0x24), []byte{0x26, 0x01, 0x84, last})
		f.Add(byte(0x28), []byte{last})
	}
	f.Fuzz(func(t *testing.T, flags byte, data []byte) {
		fuzzJudge(t, "fuzz-h265", fuzzCase(esgen.H265, flags, rtp.ChannelVideo, data, "fuzz-h265-payload"))
	})
}

func FuzzAacPayload(f *testing.F) {
	for i, h := range hostileAac {
		f.Add(byte(i*4), h.B)
		f.Add(byte(9), h.B)
	}
	f.Add(byte(4), rtppack.AacHbr([][]byte{{0x21, 0x10, 0x04, 0x60}, {0x21, 0x11}}))
	for _, last := range []byte{0, 1, 5, 6, 7, 18, 255} { // P bit, last octet = pad count
		f.Add(byte(0x24), append(rtppack.AacHbr([][]byte{{0x21, 0x10, 0x04}}), last))
		f.Add(byte(0x28), []byte{last})
	}
	f.Fuzz(func(t *testing.T, flags byte, data []byte) {
		fuzzJudge(t, "fuzz-aac", fuzzCase(esgen.H264, flags, rtp.ChannelAudio, data, "fuzz-aac-payload"))
	})
}

// FuzzRtcp: flags bit5 chooses the audio control channel; bit0 (leading sender
// reports) is forced off so that the packet reaches the sync clock.
func FuzzRtcp(f *testing.F) {
	for i, h := range hostileRtcp() {
		f.Add(byte(i*4&0x1c), h.B)
		f.Add(byte(i*4&0x1c|0x20), h.B)
	}
	f.Fuzz(func(t *testing.T, flags byte, data []byte) {
		ch := byte(rtp.ChannelVideoControl)
		if flags&0x20 != 0 {
			ch = rtp.ChannelAudioControl
		}
		fuzzJudge(t, "fuzz-rtcp", fuzzCase(esgen.H264, flags&^1, ch, data, "fuzz-rtcp"))
	})
}

// FuzzSdp: bytes → SDP → media.NewStream → attach consumers → publish a few
// well-formed packets on every channel. Oracle: no panic reaches the caller of
// NewStream / StartConsume / WriteRtpPacket / Close (session or pull
// goroutine), every call returns, and RTP relay — which does not depend on the
// SDP — delivers everything published. What the converters make of a stream
// whose own description lies is not judged.
var sdpSeeds = []string{
	"",
	"v=0\r\n",
	"v=0\r\no=- 0 0 IN IP4 127.0.0.1\r\ns=x\r\nt=0 0\r\nm=video 0 RTP/AVP\r\n",
	"v=0\r\no=- 0 0 IN IP4 127.0.0.1\r\ns=x\r\nt=0 0\r\nm=video 0 udp 96\r\nm=audio 0 TCP 97\r\n",
	"v=0\r\no=- 0 0 IN IP4 127.0.0.1\r\ns=x\r\nt=0 0\r\nm=video 0 RTP/AVP 96\r\n",
	"v=0\r\no=- 0 0 IN IP4 127.0.0.1\r\ns=x\r\nt=0 0\r\nm=video 0 RTP/AVP 96\r\na=rtpmap:96 H264/0\r\na=fmtp:96 packetization-mode=1\r\nm=audio 0 RTP/AVP 97\r\na=rtpmap:97 MPEG4-GENERIC/0/0\r\na=fmtp:97 config=1210\r\n",
	"v=0\r\no=- 0 0 IN IP4 127.0.0.1\r\ns=x\r\nt=0 0\r\nm=video 0 RTP/AVP 96\r\na=rtpmap:96 H264/90000\r\na=fmtp:96 sprop-parameter-sets=Zw==,aA==\r\n",
	"v=0\r\no=- 0 0 IN IP4 127.0.0.1\r\ns=x\r\nt=0 0\r\nm=video 0 RTP/AVP 96\r\na=rtpmap:96 H264/90000\r\na=fmtp:96 sprop-parameter-sets=,\r\n",
	"v=0\r\no=- 0 0 IN IP4 127.0.0.1\r\ns=x\r\nt=0 0\r\nm=video 0 RTP/AVP 96\r\na=rtpmap:96 H264/90000\r\na=fmtp:96 sprop-parameter-sets=Z0IAKQ==\r\n",
	"v=0\r\no=- 0 0 IN IP4 127.0.0.1\r\ns=x\r\nt=0 0\r\nm=video 0 RTP/AVP 96\r\na=rtpmap:96 H265/90000\r\na=fmtp:96 sprop-vps=QA==; sprop-sps=Qg==; sprop-pps=RA==\r\n",
	"v=0\r\no=- 0 0 IN IP4 127.0.0.1\r\ns=x\r\nt=0 0\r\nm=video 0 RTP/AVP 96\r\na=rtpmap:96 H265/90000\r\na=fmtp:96 sprop-vps=;sprop-sps;=;sprop-pps==\r\n",
	"v=0\r\no=- 0 0 IN IP4 127.0.0.1\r\ns=x\r\nt=0 0\r\nm=audio 0 RTP/AVP 97\r\na=rtpmap:97 MPEG4-GENERIC/44100/2\r\na=fmtp:97 config=\r\n",
	"v=0\r\no=- 0 0 IN IP4 127.0.0.1\r\ns=x\r\nt=0 0\r\nm=audio 0 RTP/AVP 97\r\na=rtpmap:97 MPEG4-GENERIC/44100/2\r\na=fmtp:97 config=zz;\r\n",
	"v=0\r\no=- 0 0 IN IP4 127.0.0.1\r\ns=x\r\nt=0 0\r\nm=video 0 RTP/AVP 96\r\na=rtpmap:96 JPEG/90000\r\nm=audio 0 RTP/AVP 0\r\n",
	"v=0\r\no=- 0 0 IN IP4 127.0.0.1\r\ns=x\r\nt=0 0\r\nm=video 0 RTP/AVP 96\r\nb=AS:99999999999999999999\r\na=rtpmap:96 H264/99999999999999999999\r\n",
	"m=video\r\n", "m=\r\n", "m=video 0 RTP/AVP 96 97 98\r\na=rtpmap:98 H264/90000\r\n", "a=rtpmap:96\r\n", "a=fmtp:\r\n",
}

func FuzzSdp(f *testing.F) {
	for _, s := range sdpSeeds {
		f.Add([]byte(s))
	}
	f.Add([]byte(mediah.SDP(esgen.H264, true)))
	f.Add([]byte(mediah.SDP(esgen.H265, true)))
	f.Add([]byte(strings.Replace(mediah.SDP(esgen.H264, true), "config="+hex.EncodeToString(esgen.RealAacASC), "config=00", 1)))
	f.Add([]byte(strings.Replace(mediah.SDP(esgen.H264, true), "44100", "0", 1)))
	f.Add([]byte(strings.Replace(mediah.SDP(esgen.H264, true), "90000", "0", 1)))
	f.Fuzz(func(t *testing.T, data []byte) {
		if len(data) > 4096 {
			data = data[:4096]
		}
		evid.Eval(1)
		sdpCase(t, "fuzz-sdp", string(data))
	})
}

func sdpCase(t *testing.T, name, sdp string) {
	type outcome struct {
		esc   string
		sent  int
		got   int
		codec string
		audio string
		hls   bool
	}
	done := make(chan outcome, 1)
	go func() {
		var o outcome
		defer func() {
			if v := recover(); v != nil {
				o.esc = fmt.Sprint(v)
			}
			done <- o
		}()
		s := media.NewStream(fmt.Sprintf("/c07/sdp%d", time.Now().UnixNano()), sdp)
		defer s.Close()
		o.codec, o.audio, o.hls = s.Video.Codec, s.Audio.Codec, hlsOf(s) != nil
		rec := mediah.NewRec("rtp")
		cid := s.StartConsume(rec, media.RTPPacket, "c07")
		s.StartConsume(mediah.NewRec("flv"), media.FLVPacket, "c07")
		pkts := []pkt{
			mkPkt(rtp.ChannelVideoControl, rtppack.SenderReport(1, 3900000000, 0, 90000, 0, 0), ""),
			mkPkt(rtp.ChannelAudioControl, rtppack.SenderReport(2, 3900000000, 0, 44100, 0, 0), ""),
		}
		pkts = append(pkts, plainPrefix(esgen.H264, true, 3, 90000)...)
		pkts = append(pkts, plainPrefix(esgen.H265, true, 2, 90000+3*probeStep)...)
		for i := range pkts {
			ip, err := wire(pkts[i].Ch, pkts[i].bytes())
			if err != nil {
				panic("c07: valid packet refused: " + err.Error())
			}
			s.WriteRtpPacket(ip)
			o.sent++
		}
		// state, not time: everything delivered, or the consumer's queue drained with packets missing
		mediah.WaitFor(generous, func() bool { return rec.Len() >= o.sent || consumerDrained(s, cid) })
		o.got = rec.Len()
	}()
	select {
	case o := <-done:
		switch {
		case o.esc != "":
			evid.Violation(t, name+"/panic-escapes", map[string]any{"sdp": sdp}, "panic %q escaped to the goroutine that created / fed / closed the stream", o.esc)
		case o.got != o.sent:
			evid.Violation(t, name+"/rtp-relay-stopped", map[string]any{"sdp": sdp}, "RTP consumer received %d of %d packets", o.got, o.sent)
		}
		reach := "sdp: no codec recognised (parser refused or nothing usable)"
		if o.codec != "" || o.audio != "" {
			reach = fmt.Sprintf("sdp: reached the metadata parser, video=%q audio=%q hls=%v", o.codec, o.audio, o.hls)
			evid.Nontrivial(evid.FP("sdp", sdp))
		}
		evid.Class(name + ": " + reach)
	case <-time.After(3 * generous):
		evid.Violation(t, name+"/hang", map[string]any{"sdp": sdp}, "creating, feeding or closing the stream did not return within %v:\n%s", 3*generous, firstLines(strings.Join(stacksOf("c07.sdpCase"), "\n\n"), 40))
	}
}

// TestHostileSdpTable runs the SDP seeds through the same check in the quick
// tier (the fuzz target replays them too; this keeps them in the evidence
// statistics under their own name).
func TestHostileSdpTable(t *testing.T) {
	for _, s := range sdpSeeds {
		evid.Eval(1)
		sdpCase(t, "sdp-table", s)
	}
}
