package c09

import (
	"bytes"
	"testing"

	"github.com/cnotch/ipchub/av/codec"
	"github.com/cnotch/ipchub/av/format/mpegts"
	"verif/harness/lib/evid"
)

// The two witnesses below are the minimal cases of the defects this check
// found on the original tree, judged by reading the bytes directly (no
// demultiplexer involved), so that harness and hand decoding agree.

func tinyStream(t *testing.T, frames ...[]byte) []byte {
	var buf bytes.Buffer
	w, err := mpegts.NewWriter(&buf)
	if err != nil {
		t.Fatal(err)
	}
	vm := &codec.VideoMeta{Codec: "H264", Sps: []byte{0x67, 0x42, 0x00, 0x1e}, Pps: []byte{0x68, 0xce, 0x3c, 0x80}}
	vp := mpegts.NewH264Packetizer(vm, w)
	for _, f := range frames {
		if err := vp.Packetize(&codec.Frame{MediaType: codec.MediaTypeVideo, Payload: f, Pts: ns(1000), Dts: ns(1000)}); err != nil {
			t.Fatal(err)
		}
	}
	return buf.Bytes()[2*188:] // behind PAT and PMT
}

// An in-band SPS / PPS / AUD frame (the RTP depacketizer forwards them) must not
// put bytes into the video ES that no start code introduces.
func TestWitnessInbandUnitIsDelimitedOrOmitted(t *testing.T) {
	for _, unit := range [][]byte{{0x67, 0x42, 0x00, 0x1e, 0xaa}, {0x68, 0xce, 0x3c, 0x80}, {0x09, 0xf0}} {
		ts := tinyStream(t, unit)
		evid.Eval(1)
		if len(ts) == 0 {
			evid.Class("witness:in-band-unit-omitted")
			continue
		}
		pk := ts[:188]
		// payload-only or AF+payload packet; the PES header is 14 bytes (PTS only)
		off := 4
		if pk[3]&0x20 != 0 {
			off += 1 + int(pk[4])
		}
		es := pk[off+14:]
		if !bytes.HasPrefix(es, []byte{0, 0, 1}) && !bytes.HasPrefix(es, []byte{0, 0, 0, 1}) {
			evid.Violation(t, "witness/inband", map[string]any{"unit": evid.Hex(unit), "es": evid.Hex(es)},
				"in-band NAL type %d is written into the video ES without a start code: ES begins % x", unit[0]&0x1f, es[:min(len(es), 6)])
		}
		evid.Class("witness:in-band-unit-carried-delimited")
	}
}

// A key frame short enough to end in its first packet: the stuffing that is
// inserted behind the PCR must be 0xFF bytes (ISO/IEC 13818-1 2.4.3.5).
func TestWitnessKeyFrameStuffingIsFF(t *testing.T) {
	ts := tinyStream(t, []byte{0x65, 0x88, 0x84, 0x21})
	evid.Eval(1)
	if len(ts) != 188 {
		t.Fatalf("expected one packet, got %d bytes", len(ts))
	}
	if ts[3]&0x20 == 0 || ts[5] != 0x50 {
		t.Fatalf("expected adaptation field with random access + PCR, got % x", ts[:6])
	}
	afl := int(ts[4])
	stuffing := ts[12 : 5+afl] // behind flags (1) and PCR (6)
	if len(stuffing) == 0 {
		t.Fatalf("witness no longer reaches the stuffing path")
	}
	for i, x := range stuffing {
		if x != 0xFF {
			evid.Violation(t, "witness/stuffing", map[string]any{"packet": evid.Hex(ts)},
				"stuffing byte %d of %d behind the PCR is 0x%02x (stuffing begins % x)", i, len(stuffing), x, stuffing[:min(len(stuffing), 16)])
		}
	}
	if !bytes.Equal(ts[5+afl:5+afl+4], []byte{0, 0, 1, 0xe0}) {
		t.Fatalf("PES does not start behind the adaptation field")
	}
}
