// C09 — MPEG-TS output is structurally valid and carries the source frames
// faithfully.
//
// codec.Frame sequences are pushed through mpegts.NewH264Packetizer /
// NewAacPacketizer -> mpegts.Writer (the synchronous path the HLS segment files
// use) and through mpegts.NewMuxer (the asynchronous path media.Stream uses).
// The bytes written are judged by lib/tsdemux, a demultiplexer written from
// ISO/IEC 13818-1 that shares no code with ipchub, plus an Annex-B splitter
// and an ADTS parser.
package c09

import (
	"bytes"
	"encoding/base64"
	"encoding/hex"
	"encoding/json"
	"fmt"
	"os"
	"sync"
	"testing"
	"time"

	"github.com/cnotch/ipchub/av/codec"
	"github.com/cnotch/ipchub/av/format/mpegts"
	"github.com/cnotch/xlog"
	"verif/harness/lib/evid"
	"verif/harness/lib/tsdemux"
)

func TestMain(m *testing.M) { evid.Main(m, "C09") }

const (
	videoPID = 0x100
	audioPID = 0x101
	maxTS    = uint64(1)<<33 - 1
)

// ---------------------------------------------------------------- case model

// frameSpec describes one source frame completely: the payload is a
// deterministic function of (Hdr, Size, Seed).
type frameSpec struct {
	Audio bool   `json:"audio,omitempty"`
	Hdr   byte   `json:"nal_header,omitempty"` // video: first payload byte (nal_ref_idc, nal_unit_type)
	Size  int    `json:"size"`
	Seed  uint32 `json:"seed"`
	PTS   uint64 `json:"pts90"`
	DTS   uint64 `json:"dts90"` // video only; audio has PTS only
	// RawNs, when set, supplies nanosecond stamps directly (PTS/DTS then hold
	// the 90 kHz values they must come out as).
	PtsNs int64 `json:"pts_ns,omitempty"`
	DtsNs int64 `json:"dts_ns,omitempty"`
	// Tail (HLS route): an audio frame at the very end that may open a batch
	// which no later frame flushes into a finished segment; it may be absent.
	Tail bool `json:"may_stay_unflushed,omitempty"`
}

type caseSpec struct {
	SPS   string `json:"sps_hex"`
	PPS   string `json:"pps_hex"`
	ASC   string `json:"asc_hex"`
	Muxer bool   `json:"through_muxer"`
	// HLS: the frames go to hls.SegmentGenerator and the finished segments are judged.
	HLS bool `json:"through_hls_segment_generator,omitempty"`
	// ExactAudio (HLS route): the audio stamps are sample-exact and gapless
	// (pts_k = pts_0 + k*1024*90000/rate rounded or floored to a tick, pts_0 more
	// than 100 ms from zero): every audio PES must then carry the supplied stamp
	// of its first frame to within hlsExactTicks, for the whole history.
	ExactAudio bool `json:"audio_stamps_sample_exact,omitempty"`
	// LateParamSets: the packetizers / muxer are built while the stream's metadata
	// holds no SPS/PPS yet (SDP without sprop-parameter-sets); they are filled in
	// afterwards, before the first frame, the way the RTP depacketizer does when
	// it meets in-band parameter sets.
	LateParamSets bool        `json:"late_parameter_sets,omitempty"`
	Frames        []frameSpec `json:"frames"`
}

func (f frameSpec) nalType() byte { return f.Hdr & 0x1f }

// payload builds the frame bytes. Video: a NAL unit that is legal inside an
// Annex-B stream (H.264 7.4.1: no 0x000000/0x000001/0x000002 inside, last byte
// not 0x00 - emulation prevention has been applied by the encoder that made
// it), with single zeros, zero pairs and 0x000003 sequences kept frequent.
// Audio: arbitrary bytes, including things that look like ADTS syncwords.
func (f frameSpec) payload() []byte {
	b := make([]byte, f.Size)
	x := f.Seed*2654435761 + 0x9e3779b9
	next := func() uint32 { // xorshift32
		x ^= x << 13
		x ^= x >> 17
		x ^= x << 5
		return x
	}
	for i := range b {
		v := next()
		switch {
		case v>>8&7 == 0:
			b[i] = 0
		case v>>8&63 == 1:
			b[i] = 0xFF
		case v>>8&63 == 2:
			b[i] = 0xF1
		default:
			b[i] = byte(v)
		}
	}
	if f.Audio {
		return b
	}
	if f.Size > 0 {
		b[0] = f.Hdr
	}
	zeros := 0
	if len(b) > 0 && b[0] == 0 {
		zeros = 1
	}
	for i := 1; i < len(b); i++ {
		if zeros >= 2 && b[i] <= 2 {
			b[i] = 3 // emulation_prevention_three_byte
		}
		if b[i] == 0 {
			zeros++
		} else {
			zeros = 0
		}
	}
	if n := len(b); n > 1 && b[n-1] == 0 {
		b[n-1] = 0x80
	}
	return b
}

// ns converts a 90 kHz stamp to the smallest nanosecond value that the
// packetizers' ns*90000/1e9 maps back onto it.
func ns(v uint64) int64 { return int64((v*100000 + 8) / 9) }

func to90k(n int64) uint64 { return uint64(n) * 9 / 100000 } // floor(n * 90000 / 1e9)

func mustHex(s string) []byte {
	b, err := hex.DecodeString(s)
	if err != nil {
		panic(err)
	}
	return b
}

// ---------------------------------------------------------------- running ipchub

type tapWriter struct {
	w    mpegts.FrameWriter
	mu   sync.Mutex
	want []byte
	seen chan struct{}
	once sync.Once
}

func (tw *tapWriter) WriteMpegtsFrame(f *mpegts.Frame) error {
	err := tw.w.WriteMpegtsFrame(f)
	if tw.want != nil && bytes.Equal(f.Payload, tw.want) {
		tw.once.Do(func() { close(tw.seen) })
	}
	return err
}

var errInfra = fmt.Errorf("infrastructure")

// produce runs the case through ipchub and returns the transport stream.
func produce(c *caseSpec) (out []byte, err error) {
	vm := &codec.VideoMeta{Codec: "H264", Sps: mustHex(c.SPS), Pps: mustHex(c.PPS)}
	if c.LateParamSets {
		vm = &codec.VideoMeta{Codec: "H264"}
	}
	fill := func() {
		if c.LateParamSets {
			vm.Sps, vm.Pps = mustHex(c.SPS), mustHex(c.PPS)
		}
	}
	am := &codec.AudioMeta{Codec: "AAC", Sps: mustHex(c.ASC)}
	var buf bytes.Buffer
	w, err := mpegts.NewWriter(&buf)
	if err != nil {
		return nil, err
	}
	mk := func(f frameSpec) *codec.Frame {
		fr := &codec.Frame{MediaType: codec.MediaTypeVideo, Payload: f.payload()}
		if f.Audio {
			fr.MediaType = codec.MediaTypeAudio
		}
		fr.Pts, fr.Dts = ns(f.PTS), ns(f.DTS)
		if f.PtsNs != 0 || f.DtsNs != 0 {
			fr.Pts, fr.Dts = f.PtsNs, f.DtsNs
		}
		if f.Audio {
			fr.Dts = fr.Pts
		}
		return fr
	}
	rec := &recorder{w: w} // guards the FrameWriter boundary, see hls_test.go
	if !c.Muxer {
		vp := mpegts.NewH264Packetizer(vm, rec)
		ap := mpegts.NewAacPacketizer(am, rec)
		fill()
		for _, f := range c.Frames {
			fr := mk(f)
			if f.Audio {
				err = ap.Packetize(fr)
			} else {
				err = vp.Packetize(fr)
			}
			if err != nil {
				return buf.Bytes(), err
			}
		}
		return buf.Bytes(), rec.check()
	}
	// Muxer: frames are queued and written by its goroutine. A sentinel frame
	// (a non-IDR slice with a payload no generated frame has) is appended; once
	// the tap has seen it every earlier frame has been written.
	sentinel := append([]byte{0x21}, []byte("C09-END-OF-CASE-SENTINEL")...)
	tw := &tapWriter{w: rec, want: sentinel, seen: make(chan struct{})}
	mx, err := mpegts.NewMuxer(vm, am, tw, xlog.L())
	if err != nil {
		return nil, err
	}
	fill()
	for _, f := range c.Frames {
		mx.WriteFrame(mk(f))
	}
	mx.WriteFrame(&codec.Frame{MediaType: codec.MediaTypeVideo, Payload: sentinel, Pts: ns(7), Dts: ns(7)})
	select {
	case <-tw.seen:
	case <-time.After(60 * time.Second):
		mx.Close()
		return nil, errInfra
	}
	mx.Close()
	// the sentinel is the last PES: cut it off again (it is a whole number of
	// packets: 1 here, its 25+9 bytes fit one packet)
	b := buf.Bytes()
	if len(b) < 188 || len(b)%188 != 0 {
		return b, rec.check()
	}
	return b[:len(b)-188], rec.check()
}

// ---------------------------------------------------------------- the oracle

type failure struct {
	check string
	msg   string
}

func fail(check, format string, a ...any) *failure {
	return &failure{check, fmt.Sprintf(format, a...)}
}

type stats struct {
	stuffExistingAF int // PES whose stuffing went into the adaptation field that already carried the PCR
	stuffNewAF      int // PES whose stuffing created an adaptation field
	classes         []string
	frame           []uint8 // per source frame: bit 0 = its PES created an adaptation field for stuffing, bit 1 = it stuffed into the PCR's adaptation field
}

// ascFields decodes a plain 2-byte-form AudioSpecificConfig (ISO/IEC 14496-3
// 1.6.2.1: audioObjectType 5 bits, samplingFrequencyIndex 4, channelConfiguration 4).
func ascFields(asc []byte) (aot, idx, ch byte, plain bool) {
	if len(asc) < 2 {
		return 0, 0, 0, false
	}
	aot = asc[0] >> 3
	idx = asc[0]&7<<1 | asc[1]>>7
	ch = asc[1] >> 3 & 0x0f
	// plain = an object type ADTS can name (1..4), a tabulated rate, a channel
	// configuration ADTS can carry, and no extension signalled behind GASpecificConfig
	plain = aot >= 1 && aot <= 4 && idx <= 12 && ch >= 1 && ch <= 7 && asc[1]&7 == 0 && len(asc) == 2
	return
}

// psiCheck: "begins with PAT and PMT announcing H.264 and AAC on fixed PIDs".
func psiCheck(r *tsdemux.Result) *failure {
	// "begins with PAT and PMT announcing H.264 and AAC on fixed PIDs"
	if r.PAT.PacketIndex != 0 || r.Packets[0].PID != 0 {
		return fail("psi", "first packet is not the PAT (PID 0x%04x)", r.Packets[0].PID)
	}
	var progs []tsdemux.Program
	for _, p := range r.PAT.Programs {
		if p.Number != 0 {
			progs = append(progs, p)
		}
	}
	if len(progs) != 1 || len(r.PMTs) != 1 {
		return fail("psi", "PAT announces %d programs, %d PMTs found", len(progs), len(r.PMTs))
	}
	pmt := r.PMT()
	if pmt.PacketIndex != 1 || r.Packets[1].PID != progs[0].PID {
		return fail("psi", "second packet is not the PMT (PMT starts in packet %d)", pmt.PacketIndex)
	}
	var haveV, haveA bool
	for _, s := range pmt.Streams {
		switch {
		case s.StreamType == 0x1B && s.PID == videoPID: // Table 2-34: 0x1B AVC video
			haveV = true
		case s.StreamType == 0x0F && s.PID == audioPID: // 0x0F ISO/IEC 13818-7 audio with ADTS
			haveA = true
		default:
			return fail("psi", "PMT announces stream_type 0x%02x on PID 0x%04x", s.StreamType, s.PID)
		}
	}
	if !haveV || !haveA {
		return fail("psi", "PMT lacks H.264 on 0x100 (%v) or AAC on 0x101 (%v)", haveV, haveA)
	}
	if pmt.PCRPID != videoPID {
		return fail("psi", "PCR_PID 0x%04x, but PCRs are promised on the video PID", pmt.PCRPID)
	}

	return nil
}

// verify is the statement of C09, clause by clause, for one transport stream
// holding one PES per source frame.
func verify(c *caseSpec, ts []byte) (*stats, *failure) {
	return verifyParts(c, [][]byte{ts}, false)
}

// hlsAudioSync is the window (100 ms in 90 kHz ticks) within which the HLS
// segment generator replaces the stamp of an audio batch by the one it
// extrapolates from the sample count (av/format/hls/aac_jitter.go).
const hlsAudioSync = 9000

// hlsExactTicks: on a sample-exact gapless source the generator's estimate
// base + floor(n*1024*90000/rate) differs from the supplied stamp only by the
// rounding of the two terms (0 or 1 tick); 2 leaves room for a source that
// rounds to nearest.
const hlsExactTicks = 2

// verifyParts judges a sequence of transport streams (one, or the finished
// segments of an HLS stream in order) that together carry the source frames.
// With hls set, an audio PES is a batch: a chain of ADTS frames, one per source
// AAC frame in order, stamped for its first frame.
func verifyParts(c *caseSpec, parts [][]byte, hls bool) (*stats, *failure) {
	st := &stats{}
	owner := map[*tsdemux.PES]*tsdemux.Result{}
	var rs []*tsdemux.Result
	var vq, aq []*tsdemux.PES
	for k, ts := range parts {
		where := ""
		if len(parts) > 1 {
			where = fmt.Sprintf("segment %d of %d: ", k+1, len(parts))
		}
		// "whole 188-byte packets starting with the sync byte", "correct modulo-16
		// continuity counter per PID", PSI syntax + CRC, PES syntax, PTS/DTS coding:
		r, err := tsdemux.DemuxOpt(ts, tsdemux.Options{AllowNonFFStuffing: true})
		if err != nil {
			return st, fail("ts-structure", "%s%v", where, err)
		}
		if f := psiCheck(r); f != nil {
			f.msg = where + f.msg
			return st, f
		}
		rs = append(rs, r)
		for _, p := range r.PES[videoPID] {
			owner[p] = r
			vq = append(vq, p)
		}
		for _, p := range r.PES[audioPID] {
			owner[p] = r
			aq = append(aq, p)
		}
	}

	sps, pps, asc := mustHex(c.SPS), mustHex(c.PPS), mustHex(c.ASC)
	aot, sidx, ch, plain := ascFields(asc)

	classify := func(st *stats, p *tsdemux.PES) {
		exist, created := false, false
		for _, k := range p.PacketIndexes {
			pk := &owner[p].Packets[k]
			switch {
			case !pk.HasAF:
			case pk.PCR != nil && pk.Stuffing > 0:
				exist = true
				st.classes = append(st.classes, "stuffing:into-PCR-adaptation-field")
			case pk.PCR == nil && pk.AFLength == 0:
				created = true
				st.classes = append(st.classes, "stuffing:new-AF-1-byte")
			case pk.PCR == nil && pk.AFLength == 1:
				created = true
				st.classes = append(st.classes, "stuffing:new-AF-2-bytes")
			case pk.PCR == nil:
				created = true
				st.classes = append(st.classes, "stuffing:new-AF-3+bytes")
			}
		}
		var bits uint8
		if exist {
			st.stuffExistingAF++
			bits |= 2
		}
		if created {
			st.stuffNewAF++
			bits |= 1
		}
		st.frame[len(st.frame)-1] = bits
		if !exist && !created {
			st.classes = append(st.classes, "last-packet-exact-fit")
		}
		if p.PacketCount == 1 {
			st.classes = append(st.classes, "pes:1-packet")
		} else {
			st.classes = append(st.classes, "pes:multi-packet")
		}
		if p.PacketLength == 0 {
			st.classes = append(st.classes, "pes:length-0(>65535)")
		}
		if p.DTS != nil {
			st.classes = append(st.classes, "pes:PTS+DTS")
		} else {
			st.classes = append(st.classes, "pes:PTS-only")
		}
	}

	// The statement fixes neither that in-band parameter sets / access unit
	// delimiters (source NAL types 7, 8, 9) are carried nor that they are
	// omitted; every per-type policy whose PES count fits is tried, and the case
	// passes when one of them explains the whole stream.
	match := func(carry uint32) (*stats, *failure) {
		st := &stats{classes: append([]string(nil), st.classes...)}
		vi, ai := 0, 0
		audioSeen := 0
		var batch []tsdemux.ADTSFrame // hls: ADTS frames of the current audio PES not yet matched
		for n, f := range c.Frames {
			src := f.payload()
			wantPTS, wantDTS := f.PTS, f.DTS
			st.frame = append(st.frame, 0)
			if f.Audio && hls {
				// the frame is the next ADTS frame of the current batch, or opens the next batch
				if len(batch) == 0 {
					if ai >= len(aq) && f.Tail {
						st.classes = append(st.classes, "hls:tail-audio-frame-not-flushed")
						continue
					}
					if ai >= len(aq) {
						return st, fail("audio-lost", "frame %d (audio, %d bytes): no PES left on PID 0x101", n, len(src))
					}
					p := aq[ai]
					ai++
					classify(st, p)
					if p.StreamID&0xE0 != 0xC0 {
						return st, fail("stream-id", "frame %d: audio PES has stream_id 0x%02x", n, p.StreamID)
					}
					tol, why := uint64(hlsAudioSync), "more than the 100 ms by which the HLS audio resynchronisation may move the stamp of a source with jittery or gappy audio stamps"
					if c.ExactAudio {
						tol, why = hlsExactTicks, "the audio stamps of this source are sample-exact and gapless, the stamp the generator extrapolates from the sample count must coincide with the supplied one"
					}
					if p.PTS == nil || *p.PTS+tol < wantPTS || *p.PTS > wantPTS+tol {
						return st, fail("pts", "frame %d (first audio frame of batch %d, %d AAC frames into the stream): PES PTS decodes to %v, supplied %d (off by %d ticks; %s)", n, ai, audioSeen, deref(p.PTS), wantPTS, int64(derefU(p.PTS))-int64(wantPTS), why)
					}
					switch d := int64(*p.PTS) - int64(wantPTS); {
					case d == 0:
						st.classes = append(st.classes, "hls:audio-batch-stamp-exact")
					case d >= -hlsExactTicks && d <= hlsExactTicks:
						st.classes = append(st.classes, "hls:audio-batch-stamp-within-2-ticks")
					default:
						st.classes = append(st.classes, "hls:audio-batch-stamp-moved-up-to-100ms")
					}
					if p.DTS != nil && *p.DTS != *p.PTS {
						return st, fail("dts", "frame %d (audio): DTS %d differs from PTS %d", n, *p.DTS, *p.PTS)
					}
					fr, err := tsdemux.ParseADTS(p.Payload)
					if err != nil {
						return st, fail("adts", "audio batch %d (PES of %d ES bytes, first source frame %d of %d bytes): ADTS frames do not chain: %v", ai, len(p.Payload), n, len(src), err)
					}
					batch = fr
					st.classes = append(st.classes, fmt.Sprintf("hls:audio-batch-of-%s", bucket(len(fr))))
					if len(fr) >= 2 && len(fr[0].Payload) != len(fr[len(fr)-1].Payload) {
						st.classes = append(st.classes, "hls:audio-batch-first-and-last-frame-differ-in-size")
					}
				}
				st.classes = append(st.classes, "frame:audio")
				audioSeen++
				fr0 := batch[0]
				batch = batch[1:]
				if !bytes.Equal(fr0.Payload, src) {
					return st, fail("audio-payload", "frame %d: ADTS payload (%d bytes, at offset %d of batch %d) differs from the source AAC frame (%d bytes)", n, len(fr0.Payload), fr0.Offset, ai, len(src))
				}
				if plain && (fr0.Profile != aot-1 || fr0.SamplingIndex != sidx || fr0.ChannelConfig != ch) {
					return st, fail("adts-config", "frame %d: ADTS says profile %d rate index %d channels %d, AudioSpecificConfig %x says object type %d index %d channels %d",
						n, fr0.Profile, fr0.SamplingIndex, fr0.ChannelConfig, asc, aot, sidx, ch)
				}
				continue
			}
			if f.Audio {
				wantDTS = wantPTS
				if ai >= len(aq) {
					return st, fail("audio-lost", "frame %d (audio, %d bytes): no PES left on PID 0x101", n, len(src))
				}
				p := aq[ai]
				ai++
				classify(st, p)
				st.classes = append(st.classes, "frame:audio")
				if p.StreamID&0xE0 != 0xC0 { // Table 2-18: 110x xxxx audio stream
					return st, fail("stream-id", "frame %d: audio PES has stream_id 0x%02x", n, p.StreamID)
				}
				if p.PTS == nil || *p.PTS != wantPTS {
					return st, fail("pts", "frame %d (audio): PTS decodes to %v, supplied %d", n, deref(p.PTS), wantPTS)
				}
				if p.DTS != nil && *p.DTS != wantDTS {
					return st, fail("dts", "frame %d (audio): DTS decodes to %d, supplied %d", n, *p.DTS, wantDTS)
				}
				fr, err := tsdemux.ParseADTS(p.Payload)
				if err != nil {
					return st, fail("adts", "frame %d (audio, %d bytes): %v", n, len(src), err)
				}
				if len(fr) != 1 {
					return st, fail("adts", "frame %d: PES holds %d ADTS frames for one source frame", n, len(fr))
				}
				if !bytes.Equal(fr[0].Payload, src) {
					return st, fail("audio-payload", "frame %d: ADTS payload (%d bytes) differs from the source AAC frame (%d bytes)", n, len(fr[0].Payload), len(src))
				}
				if plain && (fr[0].Profile != aot-1 || fr[0].SamplingIndex != sidx || fr[0].ChannelConfig != ch) {
					return st, fail("adts-config", "frame %d: ADTS says profile %d rate index %d channels %d, AudioSpecificConfig %x says object type %d index %d channels %d",
						n, fr[0].Profile, fr[0].SamplingIndex, fr[0].ChannelConfig, asc, aot, sidx, ch)
				}
				continue
			}

			// video
			t := f.nalType()
			inband := t >= 7 && t <= 9
			optional, withAUD := !mustCarry(t), needsAUD(t)
			if optional && carry&(1<<t) == 0 {
				if inband {
					st.classes = append(st.classes, "frame:in-band-7..9:omitted")
				} else {
					st.classes = append(st.classes, fmt.Sprintf("frame:video-type-%d:omitted", t))
				}
				continue
			}
			if vi >= len(vq) {
				return st, fail("video-lost", "frame %d (NAL type %d, %d bytes): no PES left on PID 0x100", n, t, len(src))
			}
			p := vq[vi]
			vi++
			classify(st, p)
			key := t == 5
			if inband {
				st.classes = append(st.classes, "frame:in-band-7..9:carried")
			} else if key {
				st.classes = append(st.classes, "frame:video-key")
			} else {
				st.classes = append(st.classes, fmt.Sprintf("frame:video-type-%d", t))
			}
			if p.StreamID&0xF0 != 0xE0 { // Table 2-18: 1110 xxxx video stream
				return st, fail("stream-id", "frame %d: video PES has stream_id 0x%02x", n, p.StreamID)
			}
			if p.PTS == nil || *p.PTS != wantPTS {
				return st, fail("pts", "frame %d (video): PTS decodes to %v, supplied %d", n, deref(p.PTS), wantPTS)
			}
			switch {
			case p.DTS != nil && *p.DTS != wantDTS:
				return st, fail("dts", "frame %d (video): DTS decodes to %d, supplied %d", n, *p.DTS, wantDTS)
			case p.DTS == nil && wantDTS != wantPTS: // 2.4.3.7: absent DTS means DTS = PTS
				return st, fail("dts", "frame %d (video): no DTS field although DTS %d differs from PTS %d", n, wantDTS, wantPTS)
			}
			if key {
				if !p.RandomAccess {
					return st, fail("random-access", "frame %d: key frame without random_access_indicator", n)
				}
				if p.PCR == nil {
					return st, fail("pcr", "frame %d: key frame without PCR", n)
				}
				// the statement asks for a PCR on key frames; a clock reference later than the
				// picture's own decode time would make the picture undecodable on arrival, any
				// value up to the DTS is a legal choice
				if *p.PCR > wantDTS {
					return st, fail("pcr-base", "frame %d: key frame PCR base %d is later than its DTS %d", n, *p.PCR, wantDTS)
				}
			}
			nals, err := tsdemux.SplitAnnexBDetailed(p.Payload)
			if err != nil {
				if inband {
					return st, fail("annexb-inband", "frame %d (in-band NAL type %d, %d bytes) is carried in a PES that is not start-code delimited: %v", n, t, len(src), err)
				}
				return st, fail("annexb", "frame %d (NAL type %d, %d bytes): %v", n, t, len(src), err)
			}
			if !withAUD {
				// A unit of a type for which the statement promises no particular
				// framing: it must be the last unit of its PES, byte for byte, behind a
				// start code, and in front of it there may only be what the packetizer
				// itself adds - an access unit delimiter, the stream's SPS and PPS.
				last := nals[len(nals)-1]
				if !bytes.Equal(last.Data, src) || last.TrailingZeros != 0 {
					return st, fail("video-payload", "frame %d (NAL type %d, %d bytes): last unit of its PES (%d bytes, %d zero bytes behind it) differs from the source: got %s want %s", n, t, len(src), len(last.Data), last.TrailingZeros, evid.Hex(last.Data), evid.Hex(src))
				}
				for k, u := range nals[:len(nals)-1] {
					isAUD := u.Data[0]&0x9f == 9 && len(u.Data) == 2 && u.Data[1]&0x1f == 0x10
					if u.TrailingZeros != 0 || !(k == 0 && isAUD || len(sps) > 0 && bytes.Equal(u.Data, sps) || len(pps) > 0 && bytes.Equal(u.Data, pps)) {
						return st, fail("access-unit", "frame %d (NAL type %d): unit %d of its PES (%s) is neither the source nor an access unit delimiter / the stream's SPS / PPS", n, t, k, evid.Hex(u.Data))
					}
				}
				if len(nals) == 1 {
					st.classes = append(st.classes, fmt.Sprintf("policy:type-%d-carried-without-AUD", t))
				} else {
					st.classes = append(st.classes, fmt.Sprintf("policy:type-%d-carried-with-%d-units-in-front", t, len(nals)-1))
				}
				continue
			}
			want := [][]byte{nil} // AUD, judged by type
			if key {
				if len(sps) > 0 {
					want = append(want, sps)
				}
				if len(pps) > 0 {
					want = append(want, pps)
				}
			}
			want = append(want, src)
			if len(nals) != len(want) {
				return st, fail("access-unit", "frame %d (NAL type %d): PES holds %d NAL units %v, expected %d (AUD%s, source)", n, t, len(nals), nalTypes(nals), len(want), map[bool]string{true: ", SPS, PPS"}[key])
			}
			for k := range nals {
				if nals[k].TrailingZeros != 0 {
					return st, fail("access-unit", "frame %d: %d stray zero bytes after NAL unit %d", n, nals[k].TrailingZeros, k)
				}
				if k == 0 {
					if nals[0].Data[0]&0x1f != 9 || nals[0].Data[0]&0x80 != 0 {
						return st, fail("aud", "frame %d: first unit has header 0x%02x, not an access unit delimiter", n, nals[0].Data[0])
					}
					if len(nals[0].Data) != 2 || nals[0].Data[1]&0x1f != 0x10 { // 7.3.2.4: primary_pic_type u(3) + rbsp_trailing_bits
						return st, fail("aud", "frame %d: access unit delimiter body % x is not primary_pic_type + trailing bits", n, nals[0].Data[1:])
					}
					continue
				}
				if !bytes.Equal(nals[k].Data, want[k]) {
					what := "source NAL unit"
					if k < len(want)-1 {
						what = "parameter set"
					}
					return st, fail("video-payload", "frame %d (NAL type %d, %d bytes): unit %d (%s) differs: got %s want %s", n, t, len(src), k, what, evid.Hex(nals[k].Data), evid.Hex(want[k]))
				}
			}
		}
		// nothing invented
		if vi != len(vq) {
			return st, fail("video-invented", "%d PES on PID 0x100 beyond the %d source frames account for; first extra starts in packet %d", len(vq)-vi, len(c.Frames), vq[vi].FirstPacket)
		}
		if ai != len(aq) {
			return st, fail("audio-invented", "%d PES on PID 0x101 beyond what the source frames account for", len(aq)-ai)
		}
		if len(batch) != 0 {
			return st, fail("audio-invented", "last audio PES holds %d ADTS frames beyond the source frames", len(batch))
		}
		return st, nil
	}
	// carry/omit policies: one bit per optional NAL type present in the case
	var cnt [32]int
	base := 0
	var opts []byte
	for _, f := range c.Frames {
		if f.Audio {
			continue
		}
		if t := f.nalType(); mustCarry(t) {
			base++
		} else {
			if cnt[t] == 0 {
				opts = append(opts, t)
			}
			cnt[t]++
		}
	}
	var all, allBut789 uint32
	for _, t := range opts {
		all |= 1 << t
		if t < 7 || t > 9 {
			allBut789 |= 1 << t
		}
	}
	feasible := func(carry uint32) bool {
		n := base
		for _, t := range opts {
			if carry&(1<<t) != 0 {
				n += cnt[t]
			}
		}
		return n == len(vq)
	}
	var firstFail *failure
	var firstStats *stats
	matched := false
	tried := map[uint32]bool{}
	try := func(carry uint32) {
		if matched || tried[carry] || !feasible(carry) {
			return
		}
		tried[carry] = true
		s2, f := match(carry)
		if f == nil {
			st, matched = s2, true
		} else if firstFail == nil {
			firstFail, firstStats = f, s2
		}
	}
	try(allBut789) // what ipchub does today
	try(all)
	try(0)
	if len(opts) <= 12 {
		for m := 0; m < 1<<len(opts) && !matched; m++ {
			var carry uint32
			for k, t := range opts {
				if m&(1<<k) != 0 {
					carry |= 1 << t
				}
			}
			try(carry)
		}
	}
	if !matched {
		if firstFail != nil {
			return firstStats, firstFail
		}
		return st, fail("video-count", "%d PES on PID 0x100 for %d frames whose NAL type must be carried and %d frames of optional types %v: no per-type carry/omit policy accounts for that", len(vq), base, len(c.Frames)-base, opts)
	}
	for i, r := range rs {
		if len(r.NonFFStuffing) > 0 {
			k := r.NonFFStuffing[0]
			return st, fail("stuffing-bytes", "part %d packet %d (PID 0x%04x): %d of %d adaptation-field stuffing bytes are not 0xFF (ISO/IEC 13818-1 2.4.3.5)", i, k, r.Packets[k].PID, r.Packets[k].StuffingNonFF, r.Packets[k].Stuffing)
		}
	}
	return st, nil
}

// mustCarry: source NAL types whose unit has to come out. 1, 5, 6 are the ones
// the statement speaks about ("the source NAL unit preceded by an access-unit
// delimiter"); 2, 3, 4 (slice data partitions), 19 (auxiliary slice), 20, 21
// (slice extensions) are coded picture data, which a faithful carrier cannot
// drop. Everything else - parameter sets and delimiters 7, 8, 9 (re-created by
// the packetizer), end of sequence / stream 10, 11, filler 12, 13, 14, 15,
// reserved 16-18, 22, 23 and unspecified 0, 24-31 - may be carried or omitted,
// uniformly per type; what is carried must be delimited and byte-equal.
func mustCarry(t byte) bool {
	switch t {
	case 1, 5, 6, 2, 3, 4, 19, 20, 21:
		return true
	}
	return false
}

// needsAUD: the types for which the statement fixes the framing (AUD in front,
// SPS and PPS on key frames). ipchub writes the other types behind a bare
// 4-byte start code; that, or an AUD in front, is accepted for them.
func needsAUD(t byte) bool { return t == 1 || t == 5 || t == 6 }

func bucket(n int) string {
	switch {
	case n <= 1:
		return "1"
	case n <= 4:
		return "2-4"
	case n <= 8:
		return "5-8"
	default:
		return "9+"
	}
}

func derefU(p *uint64) uint64 {
	if p == nil {
		return 0
	}
	return *p
}

func deref(p *uint64) any {
	if p == nil {
		return "absent"
	}
	return *p
}

func nalTypes(ns []tsdemux.NAL) []int {
	out := make([]int, len(ns))
	for i := range ns {
		out[i] = int(ns[i].Data[0] & 0x1f)
	}
	return out
}

// TB is what check needs from *testing.T / *rapid.T.
type TB interface {
	evid.TB
	Logf(format string, args ...any)
}

var infraOnce sync.Once

// check runs one case end to end and records evidence.
func check(t TB, c *caseSpec, test string) *stats {
	ts, err := produce(c)
	if err == errInfra {
		infraOnce.Do(func() { evid.Note("muxer did not drain within 60 s in %s; case skipped (not a verdict)", test) })
		return &stats{}
	}
	if ae, ok := err.(*aliasError); ok {
		evid.Violation(t, test+"/frame-aliasing", c, "%s", ae.msg)
	}
	if err != nil {
		evid.Violation(t, test+"/write-error", c, "writing returned an error: %v", err)
	}
	st, f := verify(c, ts)
	evid.Eval(1)
	for _, cl := range st.classes {
		evid.Class(cl)
	}
	if f != nil {
		evid.Violation(t, test+"/"+f.check, c, "%s", f.msg)
	}
	return st
}

// parameter sets that ship in ipchub's own tests (media/stream_test.go,
// service/rtsp/sdp_test.go, av/codec/h264/sps_test.go, av/codec/aac/asc_test.go)
var repoParamSets = [][2]string{
	{"Z2QAH6zZQFAFuhAAAAMAEAAAAwPI8YMZYA==", "aO+8sA=="},
	{"Z3oAH7y0AoAt0IAAAAMAgAAAHkeMGVA=", "aO8Pyw=="},
	{"Z2QAM6wspADwAQ+wFSAgICgAAB9IAAdTBO0LFok=", "aOtzUlA="},
	{"Z01AH6sSB4CL9wgAAAMACAAAAwGUeMGMTA==", "aO+8sA=="},
}

var repoASC = []string{"121056e500", "1190"}

func b64hex(s string) string {
	b, err := base64.StdEncoding.DecodeString(s)
	if err != nil {
		panic(err)
	}
	return hex.EncodeToString(b)
}

// encodeASC writes the 2-byte AudioSpecificConfig of ISO/IEC 14496-3 1.6.2.1
// for a GASpecificConfig with all three flags 0.
func encodeASC(aot, idx, ch byte) string {
	return hex.EncodeToString([]byte{aot<<3 | idx>>1, idx<<7 | ch<<3})
}

// TestReplayFile re-runs one saved case.
func TestReplayFile(t *testing.T) {
	p := os.Getenv("VERIF_REPLAY_FILE")
	if p == "" {
		t.Skip("no replay file")
	}
	b, err := os.ReadFile(p)
	if err != nil {
		t.Fatal(err)
	}
	var probe struct {
		Case struct {
			Kind string `json:"kind"`
		} `json:"case"`
	}
	if json.Unmarshal(b, &probe) == nil && probe.Case.Kind != "" {
		var doc struct {
			Case multiCase `json:"case"`
		}
		if err := json.Unmarshal(b, &doc); err != nil {
			t.Fatal(err)
		}
		replayMulti(t, &doc.Case)
		return
	}
	var doc struct {
		Case caseSpec `json:"case"`
	}
	if err := json.Unmarshal(b, &doc); err != nil {
		t.Fatal(err)
	}
	if doc.Case.HLS {
		segs, err := produceHLS(&doc.Case)
		if err != nil {
			t.Fatalf("write error: %v", err)
		}
		if _, f := verifyParts(&doc.Case, segs, true); f != nil {
			t.Fatalf("%s: %s", f.check, f.msg)
		}
		return
	}
	ts, err := produce(&doc.Case)
	if err != nil {
		t.Fatalf("write error: %v", err)
	}
	if _, f := verify(&doc.Case, ts); f != nil {
		t.Fatalf("%s: %s", f.check, f.msg)
	}
}
