package c09

import (
	"bytes"
	"encoding/hex"
	"fmt"
	"sync"
	"sync/atomic"
	"testing"

	"pgregory.net/rapid"
	"verif/harness/lib/evid"
	"verif/harness/lib/tsdemux"
)

const ruleText = "frame sequences (AAC frames; H.264 NAL units of every nal_unit_type 0..31 - mostly 1, 5, 6 and in-band 7, 8, 9 -, legal Annex-B content with frequent zero runs and emulation-prevention bytes) with parameter sets from ipchub's own tests go through H264Packetizer/AacPacketizer->Writer and through Muxer; output judged by an independent ISO 13818-1 demultiplexer + Annex-B splitter + ADTS parser. " +
	"Sweeps enumerate every payload size 1..592 for every header shape, every size across the PES_packet_length 65535 boundary, and for key frames every SPS+PPS total length 8..400 (synthetic sets, three splits) x 7 payload sizes; timestamp sweep = all pairs of 33-bit boundary values; random part = rapid sequences of up to 20 (thorough 40) frames. " +
	"A case is non-trivial when at least one PES ends in a short last packet, i.e. takes an adaptation-field stuffing path (creating an adaptation field of 1, 2 or >=3 bytes, or growing the one that already carries the PCR)."

func paramSet(i int) (sps, pps string) {
	p := repoParamSets[i%len(repoParamSets)]
	return b64hex(p[0]), b64hex(p[1])
}

var ascPool = func() []string {
	out := append([]string(nil), repoASC...)
	for _, v := range [][3]byte{{2, 4, 2}, {2, 3, 1}, {1, 0, 7}, {4, 12, 1}, {3, 8, 6}, {2, 11, 1}} {
		out = append(out, encodeASC(v[0], v[1], v[2]))
	}
	return out
}()

// the harness's own encoders/decoders against data that ships with ipchub
func TestAnchors(t *testing.T) {
	// ASC: av/codec/aac/asc_test.go: "1190" = AAC-LC 48000 Hz stereo, "121056E500" starts with LC 44100 stereo
	if got := encodeASC(2, 3, 2); got != "1190" {
		t.Fatalf("ASC encoder: LC/48000/2 -> %s, repository test says 1190", got)
	}
	if got := encodeASC(2, 4, 2); got != "1210" {
		t.Fatalf("ASC encoder: LC/44100/2 -> %s, repository test says 1210...", got)
	}
	if a, i, c, plain := ascFields(mustHex("1190")); a != 2 || i != 3 || c != 2 || !plain {
		t.Fatalf("ASC decoder on 1190: %d %d %d %v", a, i, c, plain)
	}
	if a, i, c, plain := ascFields(mustHex("121056e500")); a != 2 || i != 4 || c != 2 || plain {
		t.Fatalf("ASC decoder on 121056e500: %d %d %d %v (an extension follows, so not plain)", a, i, c, plain)
	}
	for k := range repoParamSets {
		s, p := paramSet(k)
		if mustHex(s)[0]&0x1f != 7 || mustHex(p)[0]&0x1f != 8 {
			t.Fatalf("parameter set %d is not SPS/PPS", k)
		}
		// they must themselves be legal Annex-B content, or the splitter would be blamed wrongly
		for _, u := range [][]byte{mustHex(s), mustHex(p)} {
			ns, err := tsdemux.SplitAnnexB(append([]byte{0, 0, 0, 1}, u...))
			if err != nil || len(ns) != 1 || !bytes.Equal(ns[0], u) {
				t.Fatalf("repository parameter set %x does not survive Annex-B framing: %v", u, err)
			}
		}
	}
	// generated NAL payloads are legal Annex-B content and unchanged by framing
	for seed := uint32(0); seed < 300; seed++ {
		f := frameSpec{Hdr: 0x41, Size: 1 + int(seed)*7%900, Seed: seed}
		u := f.payload()
		ns, err := tsdemux.SplitAnnexBDetailed(append([]byte{0, 0, 1}, u...))
		if err != nil || len(ns) != 1 || !bytes.Equal(ns[0].Data, u) || ns[0].TrailingZeros != 0 {
			t.Fatalf("generated NAL (seed %d, %d bytes) is not legal Annex-B content: %v", seed, f.Size, err)
		}
	}
	// 90 kHz <-> ns
	for _, v := range append(boundaryStamps(), 3, 5, 7, 1234567, 8589934591) {
		n := ns(v)
		if n < 0 || uint64(n)*90000/1000000000 != v || (n > 0 && uint64(n-1)*90000/1000000000 == v) {
			t.Fatalf("ns(%d) = %d does not map back", v, n)
		}
		if to90k(n) != v {
			t.Fatalf("to90k(ns(%d)) = %d", v, to90k(n))
		}
	}
	evid.Eval(1)
}

type shape struct {
	name  string
	audio bool
	hdr   byte
	dts   bool // DTS differs from PTS
}

var shapes = []shape{
	{"video-key/PTS", false, 0x65, false},
	{"video-key/PTS+DTS", false, 0x65, true},
	{"video-nonkey/PTS", false, 0x41, false},
	{"video-nonkey/PTS+DTS", false, 0x21, true},
	{"video-sei/PTS", false, 0x06, false},
	{"video-sei/PTS+DTS", false, 0x06, true},
	{"audio/PTS", true, 0, false},
	{"inband-sps/PTS", false, 0x67, false},
	{"inband-pps/PTS+DTS", false, 0x68, true},
	{"inband-aud/PTS", false, 0x09, false},
	{"type-2-partition-A/PTS", false, 0x42, false},
	{"type-12-filler/PTS+DTS", false, 0x0c, true},
	{"type-20-slice-extension/PTS", false, 0x74, false},
	{"type-0-unspecified/PTS", false, 0x20, false},
}

func (s shape) frame(size int, seed uint32, pts uint64) frameSpec {
	f := frameSpec{Audio: s.audio, Hdr: s.hdr, Size: size, Seed: seed, PTS: pts, DTS: pts}
	if s.dts {
		f.DTS = pts - 3003
	}
	return f
}

// tail frames follow the frame under test so that what comes after it (counter
// continuity, next unit start) is judged too
func tail(pts uint64) []frameSpec {
	return []frameSpec{
		{Audio: true, Size: 9, Seed: 77, PTS: pts + 1920, DTS: pts + 1920},
		{Hdr: 0x41, Size: 30, Seed: 78, PTS: pts + 3003, DTS: pts + 3003},
	}
}

type sweepCounter struct {
	cases, nt, ntExisting, ntNew int64
}

// add counts a sweep case; it is non-trivial when the frame under test (the
// first one; the tail frames always end in a short packet) took a stuffing path.
func (sc *sweepCounter) add(st *stats) {
	atomic.AddInt64(&sc.cases, 1)
	if len(st.frame) == 0 || st.frame[0] == 0 {
		return
	}
	atomic.AddInt64(&sc.nt, 1)
	if st.frame[0]&2 != 0 {
		atomic.AddInt64(&sc.ntExisting, 1)
	}
	if st.frame[0]&1 != 0 {
		atomic.AddInt64(&sc.ntNew, 1)
	}
}

func (sc *sweepCounter) flush() {
	evid.NontrivialN(sc.nt)
	evid.ClassN("case:stuffing-into-existing-AF", sc.ntExisting)
	evid.ClassN("case:stuffing-creates-AF", sc.ntNew)
}

// TestSizeSweep: every payload size 1..3*184+40 for every header shape, both paths.
func TestSizeSweep(t *testing.T) {
	evid.Rule(ruleText)
	evid.Assume("AAC access units are at most 6144 bytes (what 13-bit aac_frame_length is meant for); NAL units are legal Annex-B content (emulation prevention applied, no trailing zero byte); a NAL unit consisting of the single byte 0x00 is not generated")
	maxSize := 3*184 + 40
	if evid.Thorough() {
		maxSize = 12*184 + 40
	}
	shard, shards := evid.Shard()
	var sc sweepCounter
	for si, sh := range shapes {
		si, sh := si, sh
		t.Run(sh.name, func(t *testing.T) {
			t.Parallel()
			for size := 1; size <= maxSize; size++ {
				if size%shards != shard {
					continue
				}
				for _, mux := range []bool{false, true} {
					sps, pps := paramSet(size + si)
					c := &caseSpec{SPS: sps, PPS: pps, ASC: ascPool[(size+si)%len(ascPool)], Muxer: mux}
					pts := uint64(900000 + size*3003)
					c.Frames = append([]frameSpec{sh.frame(size, uint32(size*31+si), pts)}, tail(pts)...)
					st := check(t, c, "size-sweep")
					sc.add(st)
					if size == 100 && !mux {
						evid.Sample("size-sweep:"+sh.name, c)
					}
				}
			}
		})
	}
	t.Cleanup(sc.flush)
}

// synthParamSets makes an SPS and a PPS of the given lengths: NAL header 0x67 /
// 0x68 followed by a body that is legal inside an Annex-B stream. The TS
// packetizer copies parameter sets without parsing them, so their length is
// what matters: the ES header of a key frame (AUD + SPS + PPS + start codes) can
// be longer than what is left of the first packet behind the PES header.
func synthParamSets(spsLen, ppsLen int, seed uint32) (sps, pps string) {
	return hex.EncodeToString(frameSpec{Hdr: 0x67, Size: spsLen, Seed: seed}.payload()),
		hex.EncodeToString(frameSpec{Hdr: 0x68, Size: ppsLen, Seed: seed ^ 0x5bd1e995}.payload())
}

// esHeaderLen is the number of ES bytes in front of an IDR slice: AUD (6),
// 4-byte start code + SPS, 4-byte start code + PPS, 3-byte start code.
func esHeaderLen(c *caseSpec) int {
	n := 6 + 3
	if len(c.SPS) > 0 {
		n += 4 + len(c.SPS)/2
	}
	if len(c.PPS) > 0 {
		n += 4 + len(c.PPS)/2
	}
	return n
}

// firstPacketRoom is what the first packet of a key frame offers behind the TS
// header, the PCR adaptation field (8) and the PES header (14 or 19).
func firstPacketRoom(dts bool) int {
	if dts {
		return 188 - 4 - 8 - 19
	}
	return 188 - 4 - 8 - 14
}

// TestParamSetLengthSweep: key frames x every total length of SPS+PPS from 8 to
// 400 bytes (thorough 1500; a few longer ones in quick too), split three ways
// between the two sets, x payload sizes around the interesting packet fills,
// PTS-only and PTS+DTS.
func TestParamSetLengthSweep(t *testing.T) {
	evid.Rule(ruleText)
	maxTotal := 400
	if evid.Thorough() {
		maxTotal = 1500
	}
	shard, shards := evid.Shard()
	var totals []int
	for n := 8; n <= maxTotal; n++ {
		totals = append(totals, n)
	}
	if !evid.Thorough() {
		totals = append(totals, 513, 736, 737, 1000, 1499)
	}
	payloads := []int{1, 3, 40, 150, 184, 185, 420}
	var sc sweepCounter
	for _, sh := range shapes[:2] { // video-key/PTS, video-key/PTS+DTS
		sh := sh
		t.Run(sh.name, func(t *testing.T) {
			t.Parallel()
			for _, total := range totals {
				if total%shards != shard {
					continue
				}
				for split, spsLen := range []int{total - 4, total / 2, 4} {
					for pi, size := range payloads {
						sps, pps := synthParamSets(spsLen, total-spsLen, uint32(total*8+split))
						c := &caseSpec{SPS: sps, PPS: pps, ASC: ascPool[(total+pi)%len(ascPool)], Muxer: (total+pi+split)%4 == 0, LateParamSets: (total+pi)%7 == 0}
						pts := uint64(400000 + total*3003)
						c.Frames = append([]frameSpec{sh.frame(size, uint32(total*31+pi), pts)}, tail(pts)...)
						sc.add(check(t, c, "paramset-length-sweep"))
						if esHeaderLen(c) > firstPacketRoom(sh.dts) {
							evid.Class("key-frame:ES-header-exceeds-first-packet")
						} else {
							evid.Class("key-frame:ES-header-fits-first-packet")
						}
						if total == 300 && split == 1 && pi == 2 {
							evid.Sample("paramset-length-sweep:"+sh.name, c)
						}
					}
				}
			}
		})
	}
	t.Cleanup(sc.flush)
}

// TestNalTypeSweep: every value of the NAL header byte's type and nal_ref_idc
// fields x payload sizes of every class x PTS-only / PTS+DTS, on the direct
// route (Writer and Muxer) and through the HLS segment generator.
func TestNalTypeSweep(t *testing.T) {
	evid.Rule(ruleText)
	evid.Rule("NAL types: 1, 5, 6 must come out as AUD (+SPS, PPS on IDR) + source; 2, 3, 4, 19, 20, 21 (coded picture data) must come out; every other type may be carried or omitted, uniformly per type; every unit that comes out is the last unit of its PES, byte-equal, behind a 3- or 4-byte start code, with nothing in front of it but an access unit delimiter and the stream's SPS / PPS")
	sizes := []int{1, 2, 3, 40, 161, 170, 171, 184, 185, 400, 1200}
	shard, shards := evid.Shard()
	var sc sweepCounter
	for typ := 0; typ < 32; typ++ {
		typ := typ
		if typ%shards != shard {
			continue
		}
		t.Run(fmt.Sprintf("type-%d", typ), func(t *testing.T) {
			t.Parallel()
			for nri := 0; nri < 4; nri++ {
				hdr := byte(nri<<5 | typ)
				if hdr == 0 || typ == 5 && nri == 0 {
					continue
				}
				for si, size := range sizes {
					for _, dts := range []bool{false, true} {
						sh := shape{hdr: hdr, dts: dts}
						sps, pps := paramSet(typ + si)
						pts := uint64(700000 + typ*40000 + si*3003)
						c := &caseSpec{SPS: sps, PPS: pps, ASC: ascPool[(typ+si)%len(ascPool)], Muxer: (si+nri)%2 == 1}
						c.Frames = append([]frameSpec{sh.frame(size, uint32(typ*97+si*7+nri), pts)}, tail(pts)...)
						sc.add(check(t, c, "nal-type-sweep"))
						if nri != 1 || dts {
							continue
						}
						// the same unit inside an HLS timeline: key frame, the unit, audio, closing frames
						h := &caseSpec{HLS: true, ExactAudio: true, SPS: sps, PPS: pps, ASC: "1190", Muxer: si%3 == 2}
						h.Frames = []frameSpec{
							{Hdr: 0x65, Size: 300, Seed: 1, PTS: 45000, DTS: 45000},
							{Audio: true, Size: 50 + si, Seed: 2, PTS: 45000, DTS: 45000},
							sh.frame(size, uint32(typ*97+si*7+nri), 48600),
							{Audio: true, Size: 20 + si, Seed: 3, PTS: 46920, DTS: 46920},
							{Hdr: 0x41, Size: 90, Seed: 4, PTS: 52200, DTS: 52200},
						}
						x := uint32(typ*131+si) | 1
						h.Frames = append(h.Frames, hlsEnding(h.Frames, func() uint32 { x ^= x << 13; x ^= x >> 17; x ^= x << 5; return x })...)
						checkHLS(t, h, "nal-type-sweep-hls")
					}
				}
			}
		})
	}
	t.Cleanup(sc.flush)
}

// TestPesLengthBoundary: every payload size across the point where the PES no
// longer fits a 16-bit PES_packet_length, for the four video header shapes, plus
// audio at its upper end.
func TestPesLengthBoundary(t *testing.T) {
	evid.Rule(ruleText)
	var sc sweepCounter
	lo, hi := 65535-260, 65535+120
	if evid.Thorough() {
		lo, hi = 65535-1200, 65535+800
	}
	shard, shards := evid.Shard()
	for si, sh := range shapes[:4] {
		si, sh := si, sh
		t.Run(sh.name, func(t *testing.T) {
			t.Parallel()
			for size := lo; size <= hi; size++ {
				if size%shards != shard {
					continue
				}
				sps, pps := paramSet(size + si)
				c := &caseSpec{SPS: sps, PPS: pps, ASC: ascPool[size%len(ascPool)], Muxer: size%5 == 0}
				pts := uint64(123456 + size)
				c.Frames = append([]frameSpec{sh.frame(size, uint32(size), pts)}, tail(pts)...)
				sc.add(check(t, c, "pes-length-boundary"))
			}
		})
	}
	t.Run("audio-large", func(t *testing.T) {
		t.Parallel()
		sh := shapes[6]
		for size := 6144 - 400; size <= 6144; size++ {
			if size%shards != shard {
				continue
			}
			c := &caseSpec{SPS: b64hex(repoParamSets[0][0]), PPS: b64hex(repoParamSets[0][1]), ASC: ascPool[size%len(ascPool)], Muxer: size%5 == 0}
			pts := uint64(5000 + size)
			c.Frames = append([]frameSpec{sh.frame(size, uint32(size), pts)}, tail(pts)...)
			sc.add(check(t, c, "audio-large"))
		}
	})
	t.Cleanup(sc.flush)
}

func boundaryStamps() []uint64 {
	seen := map[uint64]bool{}
	var out []uint64
	add := func(v uint64) {
		v &= maxTS
		if !seen[v] {
			seen[v] = true
			out = append(out, v)
		}
	}
	for _, v := range []uint64{0, 1, 2, 0x155555555, 0x0AAAAAAAA, maxTS, maxTS - 1} {
		add(v)
	}
	for _, k := range []uint{7, 8, 14, 15, 16, 22, 23, 29, 30, 31, 32} {
		add(1<<k - 1)
		add(1 << k)
		add(1<<k + 1)
		add(maxTS ^ 1<<k)
	}
	for k := uint(0); k < 33; k++ {
		add(1 << k)
	}
	return out
}

// TestTimestampBoundaries: all pairs of boundary values as (PTS, DTS), on key
// and non-key video and on audio.
func TestTimestampBoundaries(t *testing.T) {
	evid.Rule(ruleText)
	bs := boundaryStamps()
	shard, shards := evid.Shard()
	var sc sweepCounter
	var wg sync.WaitGroup
	var mu sync.Mutex
	var firstC *caseSpec
	var firstF *failure
	const W = 8
	for w := 0; w < W; w++ {
		wg.Add(1)
		go func(w int) {
			defer wg.Done()
			for i := w; i < len(bs); i += W {
				if i%shards != shard {
					continue
				}
				for j, d := range bs {
					sps, pps := paramSet(i + j)
					hdr := byte(0x65)
					if (i+j)%2 == 1 {
						hdr = 0x41
					}
					c := &caseSpec{SPS: sps, PPS: pps, ASC: ascPool[(i+j)%len(ascPool)], Muxer: false}
					c.Frames = []frameSpec{
						{Hdr: hdr, Size: 20 + (i*7+j)%400, Seed: uint32(i*1000 + j), PTS: bs[i], DTS: d},
						{Audio: true, Size: 5 + j%300, Seed: uint32(j), PTS: d, DTS: d},
						{Hdr: hdr ^ 0x24, Size: 3 + i%200, Seed: uint32(i), PTS: d, DTS: bs[i]},
					}
					ts, err := produce(c)
					if err != nil {
						mu.Lock()
						if firstF == nil {
							firstC, firstF = c, fail("write-error", "%v", err)
						}
						mu.Unlock()
						return
					}
					st, f := verify(c, ts)
					evid.Eval(1)
					for _, cl := range st.classes {
						evid.Class(cl)
					}
					sc.add(st)
					if f != nil {
						mu.Lock()
						if firstF == nil {
							firstC, firstF = c, f
						}
						mu.Unlock()
						return
					}
				}
			}
		}(w)
	}
	wg.Wait()
	evid.ClassN("timestamp-pairs", int64(len(bs)*len(bs)))
	sc.flush()
	if firstF != nil {
		evid.Violation(t, "timestamps/"+firstF.check, firstC, "%s", firstF.msg)
	}
}

// ------------------------------------------------------------ random sequences

func genStamp(t *rapid.T, label string) uint64 {
	switch rapid.IntRange(0, 9).Draw(t, label+"-kind") {
	case 0, 1:
		return rapid.SampledFrom(boundaryStamps()).Draw(t, label+"-boundary")
	case 2:
		return rapid.Uint64Range(0, 1<<20).Draw(t, label+"-small")
	default:
		return rapid.Uint64Range(0, maxTS).Draw(t, label)
	}
}

// rapid's integer generators favour the ends of a range heavily (0 and 1 of
// IntRange(0,99) take 20 % of the draws), so kinds are picked from short lists
// with SampledFrom, whose preference for early entries is mild; weights are
// expressed by repetition.
func pick(t *rapid.T, label string, items ...string) string {
	return rapid.SampledFrom(items).Draw(t, label)
}

func genVideoSize(t *rapid.T, big bool) int {
	kinds := []string{"k184", "small", "k184", "medium", "tiny", "small", "upper-medium"}
	if big {
		kinds = []string{"k184", "small", "around-65535", "medium", "k184", "large", "tiny", "upper-medium"}
	}
	switch pick(t, "size-kind", kinds...) {
	case "k184":
		return 184*rapid.IntRange(1, 12).Draw(t, "k184") + rapid.IntRange(-40, 10).Draw(t, "delta")
	case "small":
		return rapid.IntRange(4, 400).Draw(t, "small")
	case "tiny":
		return rapid.IntRange(1, 3).Draw(t, "tiny")
	case "medium":
		return rapid.IntRange(400, 20000).Draw(t, "medium")
	case "upper-medium":
		return rapid.IntRange(20000, 66000).Draw(t, "upper-medium")
	case "around-65535":
		return 65535 + rapid.IntRange(-80, 40).Draw(t, "around-65535")
	default:
		return rapid.IntRange(65536, 200000).Draw(t, "large")
	}
}

func genAudioSize(t *rapid.T) int {
	switch pick(t, "asize-kind", "usual", "k184", "usual", "tiny", "k184", "large") {
	case "tiny":
		return rapid.IntRange(1, 8).Draw(t, "atiny")
	case "k184":
		return 184*rapid.IntRange(1, 6).Draw(t, "ak184") + rapid.IntRange(-30, 5).Draw(t, "adelta")
	case "usual":
		return rapid.IntRange(9, 1200).Draw(t, "ausual")
	default:
		return rapid.IntRange(1201, 6144).Draw(t, "alarge")
	}
}

// otherNalTypes: every nal_unit_type that is neither 1, 5, 6 nor 7, 8, 9 - data
// partitions 2-4, end of sequence / stream 10, 11, filler 12, 13-15, reserved
// 16-18, 19 (auxiliary slice), 20, 21 (slice extensions), reserved 22, 23 - and,
// as a small class at the end, the unspecified 0 and 24-31.
var otherNalTypes = []byte{2, 20, 12, 3, 10, 4, 19, 14, 11, 21, 13, 15, 16, 17, 18, 22, 23, 0, 24, 28, 31, 25, 26, 27, 29, 30}

func genCase(t *rapid.T, maxFrames int, big bool, inbandHeavy bool) *caseSpec {
	c := &caseSpec{}
	switch rapid.IntRange(0, 19).Draw(t, "paramsets") {
	case 0: // stream whose parameter sets are not known yet
		c.SPS, c.PPS = "", ""
	case 1:
		c.SPS, _ = paramSet(0)
	case 2, 3, 4, 5, 6: // synthetic sets of generated length (rapid favours the ends: 1 and the maxima)
		spsLen := rapid.IntRange(1, 400).Draw(t, "sps-len")
		ppsLen := rapid.IntRange(1, 200).Draw(t, "pps-len")
		if pick(t, "ps-len-kind", "any", "around-first-packet", "any") == "around-first-packet" {
			// 6+4+sps+4+pps+3 lands within +-6 of the room behind a PTS-only / PTS+DTS header
			target := rapid.SampledFrom([]int{162, 157}).Draw(t, "room") - 17 + rapid.IntRange(-6, 6).Draw(t, "room-delta")
			ppsLen = rapid.IntRange(1, 60).Draw(t, "pps-len-2")
			spsLen = target - ppsLen
		}
		c.SPS, c.PPS = synthParamSets(spsLen, ppsLen, rapid.Uint32().Draw(t, "ps-seed"))
	default:
		c.SPS, c.PPS = paramSet(rapid.IntRange(0, len(repoParamSets)-1).Draw(t, "ps"))
	}
	if rapid.IntRange(0, 2).Draw(t, "asc-kind") == 0 {
		c.ASC = rapid.SampledFrom(repoASC).Draw(t, "asc-repo")
	} else {
		c.ASC = encodeASC(byte(rapid.IntRange(1, 4).Draw(t, "aot")), byte(rapid.IntRange(0, 12).Draw(t, "rate-index")), byte(rapid.IntRange(1, 7).Draw(t, "channels")))
	}
	c.Muxer = rapid.Bool().Draw(t, "through-muxer")
	n := rapid.IntRange(1, maxFrames).Draw(t, "frames")
	for i := 0; i < n; i++ {
		var f frameSpec
		f.Seed = rapid.Uint32().Draw(t, "seed")
		f.PTS = genStamp(t, "pts")
		if pick(t, "media", "video", "video", "audio", "video") == "audio" {
			f.Audio = true
			f.Size = genAudioSize(t)
			f.DTS = f.PTS
		} else {
			types := []string{"1", "5", "1", "other", "5", "6", "1", "7", "5", "8", "9", "other"}
			if inbandHeavy {
				types = []string{"5", "7", "other", "1", "8", "9", "5", "6", "7", "other"}
			}
			var typ byte
			switch k := pick(t, "nal-type", types...); k {
			case "other": // every other value of the 5-bit nal_unit_type
				typ = rapid.SampledFrom(otherNalTypes).Draw(t, "other-nal-type")
			default:
				typ = k[0] - '0'
			}
			nri := byte(rapid.IntRange(0, 3).Draw(t, "nri"))
			if (typ == 5 || typ == 0) && nri == 0 {
				nri = 3 // 7.4.1: nal_ref_idc shall not be 0 for IDR slices; a unit consisting of the byte 0x00 alone cannot be framed
			}
			f.Hdr = nri<<5 | typ
			if typ >= 6 && typ <= 9 {
				f.Size = rapid.IntRange(1, 300).Draw(t, "ps-size")
			} else {
				f.Size = genVideoSize(t, big)
			}
			switch rapid.IntRange(0, 9).Draw(t, "dts-kind") {
			case 0, 1, 2:
				f.DTS = f.PTS
			case 3, 4, 5:
				d := rapid.Uint64Range(1, 90000).Draw(t, "pts-dts")
				if d > f.PTS {
					d = f.PTS
				}
				f.DTS = f.PTS - d
			default:
				f.DTS = genStamp(t, "dts")
			}
		}
		if rapid.IntRange(0, 9).Draw(t, "raw-ns") == 0 {
			// stamps that are not multiples of a 90 kHz tick: the supplied 90 kHz value is the floor
			f.PtsNs = rapid.Int64Range(1, ns(maxTS)).Draw(t, "pts-ns")
			f.PTS = to90k(f.PtsNs)
			f.DtsNs = f.PtsNs
			if !f.Audio && rapid.Bool().Draw(t, "raw-dts") {
				f.DtsNs = rapid.Int64Range(1, ns(maxTS)).Draw(t, "dts-ns")
			}
			f.DTS = to90k(f.DtsNs)
		}
		c.Frames = append(c.Frames, f)
	}
	// a quarter of the cases: parameter sets reach the metadata only after the
	// packetizers were built (SDP without sprop, sets arrive in band)
	c.LateParamSets = pick(t, "late-ps", "no", "no", "no", "yes") == "yes"
	return c
}

func TestRandomSequences(t *testing.T) {
	evid.Rule(ruleText)
	maxFrames := 20
	if evid.Thorough() {
		maxFrames = 40
	}
	evid.Checks(3000, 60000)
	// rapid derives every Check's stream from the one -rapid.seed: configurations
	// that share a generator draw `salt` dummy values first so that they do not
	// replay each other's cases.
	for _, cfg := range []struct {
		name   string
		big    bool
		inband bool
		salt   int
	}{{"mixed", false, false, 0}, {"mixed-b", false, false, 1}, {"mixed-c", false, false, 2}, {"large", true, false, 0}, {"large-b", true, false, 1}, {"inband-heavy", false, true, 0}} {
		cfg := cfg
		t.Run(cfg.name, func(t *testing.T) {
			t.Parallel()
			rapid.Check(t, func(rt *rapid.T) {
				for i := 0; i < cfg.salt; i++ {
					rapid.Uint64().Draw(rt, "salt")
				}
				mf := maxFrames
				if cfg.big {
					mf = maxFrames * 2 / 5 // frames of up to 200 kB: fewer of them per case
				}
				c := genCase(rt, mf, cfg.big, cfg.inband)
				st := check(rt, c, "random/"+cfg.name)
				if st.stuffExistingAF > 0 || st.stuffNewAF > 0 {
					evid.Nontrivial(evid.FP(fmt.Sprintf("%+v", *c)))
				}
				if st.stuffExistingAF > 0 {
					evid.Class("case:stuffing-into-existing-AF")
				}
				if st.stuffNewAF > 0 {
					evid.Class("case:stuffing-creates-AF")
				}
				if esHeaderLen(c) > firstPacketRoom(false) {
					evid.Class("case:key-frame-ES-header-exceeds-first-packet")
				}
				if c.Muxer {
					evid.Class("path:muxer")
				} else {
					evid.Class("path:packetizer+writer")
				}
				if len(c.Frames) <= 4 {
					evid.Sample("random:"+cfg.name, c)
				}
			})
		})
	}
}
