package c09

import (
	"bytes"
	"fmt"
	"hash/fnv"
	"io"
	"os"
	"sync/atomic"
	"testing"
	"time"

	"github.com/cnotch/ipchub/av/codec"
	"github.com/cnotch/ipchub/av/format/hls"
	"github.com/cnotch/ipchub/av/format/mpegts"
	"github.com/cnotch/xlog"
	"pgregory.net/rapid"
	"verif/harness/lib/evid"
)

// ------------------------------------------------ the FrameWriter boundary

// recorder sits between the packetizers and whatever consumes their frames. It
// keeps the *Frame values it is handed as struct copies - what the HLS segment
// generator does with the first audio frame of a batch - together with the
// bytes their Header and Payload had at that moment. A frame that has been
// handed over belongs to the consumer: packetizing later frames must not
// change it.
type recorder struct {
	w    mpegts.FrameWriter
	kept []keptFrame
}

type keptFrame struct {
	f      mpegts.Frame
	hdr    []byte
	payLen int
	paySum uint64
}

type aliasError struct{ msg string }

func (e *aliasError) Error() string { return e.msg }

func sum(b []byte) uint64 {
	h := fnv.New64a()
	h.Write(b)
	return h.Sum64()
}

func (r *recorder) WriteMpegtsFrame(f *mpegts.Frame) error {
	r.kept = append(r.kept, keptFrame{f: *f, hdr: append([]byte(nil), f.Header...), payLen: len(f.Payload), paySum: sum(f.Payload)})
	return r.w.WriteMpegtsFrame(f)
}

// check compares every kept frame with what it was when handed over.
func (r *recorder) check() error {
	if os.Getenv("C09_ALIAS_GUARD") == "off" { // sensitivity runs: let the stream oracles speak alone
		return nil
	}
	for i, k := range r.kept {
		if !bytes.Equal(k.f.Header, k.hdr) {
			return &aliasError{fmt.Sprintf("frame %d handed to the FrameWriter (PID 0x%x, %d payload bytes): its Header was % x when handed over and reads % x after %d later frames were packetized - the packetizer still writes into memory it gave away",
				i, k.f.Pid, k.payLen, k.hdr, k.f.Header, len(r.kept)-1-i)}
		}
		if len(k.f.Payload) != k.payLen || sum(k.f.Payload) != k.paySum {
			return &aliasError{fmt.Sprintf("frame %d handed to the FrameWriter (PID 0x%x): its %d payload bytes changed after later frames were packetized", i, k.f.Pid, k.payLen)}
		}
	}
	return nil
}

// ------------------------------------------------ through the HLS consumer

var aacRates = []int{96000, 88200, 64000, 48000, 44100, 32000, 24000, 22050, 16000, 12000, 11025, 8000, 7350} // ISO/IEC 14496-3 Table 1.18

// segCollector forwards frames to the segment generator and, after each one,
// fetches the segments that have been finished (the playlist keeps only the
// last three).
type segCollector struct {
	sg     *hls.SegmentGenerator
	pl     *hls.Playlist
	next   int
	segs   [][]byte
	closer []byte
	seen   chan struct{}
}

func (sc *segCollector) WriteMpegtsFrame(f *mpegts.Frame) error {
	err := sc.sg.WriteMpegtsFrame(f)
	for {
		r, _, e := sc.pl.Segment(sc.next)
		if e != nil {
			break
		}
		b, _ := io.ReadAll(r)
		sc.segs = append(sc.segs, b)
		sc.next++
	}
	if sc.seen != nil && bytes.Equal(f.Payload, sc.closer) {
		close(sc.seen)
		sc.seen = nil
	}
	return err
}

var hlsPathSeq int64

// produceHLS runs the case through packetizers (or Muxer) -> hls.SegmentGenerator
// in memory mode with 1 s fragments, and returns the bytes of the finished
// segments in order. After the case's frames a hidden key frame stamped one
// tick behind the latest video stamp makes the generator close the segment that
// holds them (the generator of HLS cases ends every case so that this segment
// is long enough to be closed and listed).
func produceHLS(c *caseSpec) ([][]byte, error) {
	vm := &codec.VideoMeta{Codec: "H264", Sps: mustHex(c.SPS), Pps: mustHex(c.PPS)}
	am := &codec.AudioMeta{Codec: "AAC", Sps: mustHex(c.ASC)}
	_, idx, _, _ := ascFields(am.Sps)
	rate := 44100
	if int(idx) < len(aacRates) {
		rate = aacRates[idx]
	}
	pl := hls.NewPlaylist()
	sg, err := hls.NewSegmentGenerator(pl, fmt.Sprintf("/c09/hls%d", atomic.AddInt64(&hlsPathSeq, 1)), 1, "", rate, xlog.L())
	if err != nil {
		return nil, err
	}
	defer func() { sg.Close(); pl.Close() }()
	var last uint64
	for _, f := range c.Frames {
		if !f.Audio && f.PTS > last {
			last = f.PTS
		}
	}
	closer := append([]byte{0x65}, []byte("C09-HLS-SEGMENT-CLOSER")...)
	closerFrame := &codec.Frame{MediaType: codec.MediaTypeVideo, Payload: closer, Pts: ns(last + 1), Dts: ns(last + 1)}
	col := &segCollector{sg: sg, pl: pl, next: 1, closer: closer, seen: make(chan struct{})}
	seen := col.seen
	rec := &recorder{w: col}
	if !c.Muxer {
		vp := mpegts.NewH264Packetizer(vm, rec)
		ap := mpegts.NewAacPacketizer(am, rec)
		for _, f := range append(append([]frameSpec(nil), c.Frames...), frameSpec{}) {
			fr := closerFrame
			if f.Size > 0 {
				fr = toFrame(f)
			}
			if fr.MediaType == codec.MediaTypeAudio {
				err = ap.Packetize(fr)
			} else {
				err = vp.Packetize(fr)
			}
			if err != nil {
				return col.segs, err
			}
		}
	} else {
		mx, err := mpegts.NewMuxer(vm, am, rec, xlog.L())
		if err != nil {
			return nil, err
		}
		for _, f := range c.Frames {
			mx.WriteFrame(toFrame(f))
		}
		mx.WriteFrame(closerFrame)
		select {
		case <-seen:
		case <-time.After(60 * time.Second):
			mx.Close()
			return nil, errInfra
		}
		mx.Close()
	}
	return col.segs, rec.check()
}

// genHLSCase builds a realistic timeline: video at a frame rate with key frames
// every GOP, AAC frames of different sizes every 1024 samples, optionally with
// dropped audio frames (short gaps the generator bridges by extrapolating the
// stamp, long gaps that cut a batch), in-band parameter sets, and an audio-only
// stretch. Audio batches are therefore cut by the 100 ms rule, by a key frame
// that starts a new segment, and by the audio-only segment cut.
func genHLSCase(t *rapid.T) *caseSpec {
	c := &caseSpec{HLS: true}
	if pick(t, "paramsets", "repo", "synthetic", "repo") == "repo" {
		c.SPS, c.PPS = paramSet(rapid.IntRange(0, len(repoParamSets)-1).Draw(t, "ps"))
	} else {
		c.SPS, c.PPS = synthParamSets(rapid.IntRange(4, 200).Draw(t, "sps-len"), rapid.IntRange(2, 60).Draw(t, "pps-len"), rapid.Uint32().Draw(t, "ps-seed"))
	}
	// batch length by the 100 ms rule: 96 kHz 11 frames, 64 kHz 8, 48/44.1 kHz 6, 32 kHz 5, 22.05 kHz 3, 16 kHz 3, 8 kHz 2
	idx := rapid.SampledFrom([]int{3, 4, 2, 8, 5, 11, 7, 0}).Draw(t, "rate-index")
	c.ASC = encodeASC(2, byte(idx), byte(rapid.IntRange(1, 2).Draw(t, "channels")))
	if idx == 3 && rapid.Bool().Draw(t, "asc-repo") {
		c.ASC = "1190"
	}
	rate := uint64(aacRates[idx])
	c.Muxer = pick(t, "path", "packetizers", "muxer", "packetizers") == "muxer"

	// ipchub's depacketizers stamp the first frame half a second after zero; a
	// source that starts within 100 ms of zero is pulled onto the estimator's
	// initial base 0 for good, so it gets the loose rule.
	var base uint64
	switch pick(t, "base-kind", "usual", "usual", "any", "usual", "within-100ms-of-zero") {
	case "usual":
		base = rapid.Uint64Range(9001, 1<<20).Draw(t, "base")
	case "any":
		base = rapid.Uint64Range(9001, maxTS-90000*30).Draw(t, "base-any")
	default:
		base = rapid.Uint64Range(0, 9000).Draw(t, "base-early")
	}
	fps := uint64(rapid.SampledFrom([]int{25, 10, 30, 15}).Draw(t, "fps"))
	gop := rapid.IntRange(3, 20).Draw(t, "gop")
	videoTicks := uint64(rapid.IntRange(110, 260).Draw(t, "video-centiseconds")) * 900
	audioOnlyTicks := uint64(0)
	if pick(t, "audio-only-tail", "no", "no", "yes", "no") == "yes" {
		audioOnlyTicks = uint64(rapid.IntRange(150, 260).Draw(t, "audio-only-centiseconds")) * 900
	}
	dropEvery := 0 // drop single audio frames: the generator extrapolates across the gap
	if pick(t, "drop-audio", "no", "no", "yes", "no") == "yes" {
		dropEvery = rapid.IntRange(3, 17).Draw(t, "drop-every")
	}
	gapAt, gapLen := -1, 0 // a hole longer than 100 ms
	if pick(t, "audio-gap", "no", "no", "yes", "no") == "yes" {
		gapAt = rapid.IntRange(2, 60).Draw(t, "gap-at")
		gapLen = rapid.IntRange(1, 30).Draw(t, "gap-frames")
	}
	inbandEvery := rapid.SampledFrom([]int{0, 1, 3}).Draw(t, "inband-every-nth-key")
	dtsLag := uint64(rapid.SampledFrom([]int{0, 0, 3000, 3600, 1}).Draw(t, "dts-lag"))
	seed := rapid.Uint32().Draw(t, "size-seed")
	x := seed | 1
	rnd := func() uint32 { x ^= x << 13; x ^= x >> 17; x ^= x << 5; return x }
	audioSize := func() int {
		switch v := rnd(); v % 8 {
		case 0:
			return 1 + int(v>>8)%8
		case 1:
			return 184*(1+int(v>>8)%4) - 7 - int(v>>16)%30
		default:
			return 9 + int(v>>8)%700
		}
	}
	videoSize := func(key bool) int {
		v := rnd()
		n := 1 + int(v>>8)%1500
		if v%4 == 0 {
			n = 184*(1+int(v>>8)%9) - 20 + int(v>>16)%25
		}
		if key {
			n += 200
		}
		return n
	}

	c.ExactAudio = dropEvery == 0 && gapAt < 0 && base > hlsAudioSync
	vn, an, keys := 0, 0, 0
	for {
		vPTS := base + uint64(vn)*90000/fps
		aPTS := base + uint64(an)*1024*90000/rate
		vLive := vPTS-base < videoTicks
		aLive := aPTS-base < videoTicks+audioOnlyTicks
		if !vLive && !aLive {
			break
		}
		if aLive && (!vLive || aPTS <= vPTS) {
			k := an
			an++
			if dropEvery > 0 && k%dropEvery == dropEvery-1 {
				continue
			}
			if k >= gapAt && k < gapAt+gapLen && gapAt >= 0 {
				continue
			}
			c.Frames = append(c.Frames, frameSpec{Audio: true, Size: audioSize(), Seed: rnd(), PTS: aPTS, DTS: aPTS})
			continue
		}
		key := vn%gop == 0
		vn++
		if key {
			keys++
			if inbandEvery > 0 && keys%inbandEvery == 0 {
				c.Frames = append(c.Frames,
					frameSpec{Hdr: 0x67, Size: 4 + int(rnd()%40), Seed: rnd(), PTS: vPTS, DTS: vPTS},
					frameSpec{Hdr: 0x68, Size: 2 + int(rnd()%10), Seed: rnd(), PTS: vPTS, DTS: vPTS})
			}
		}
		f := frameSpec{Hdr: 0x41, Size: videoSize(key), Seed: rnd(), PTS: vPTS, DTS: vPTS}
		if key {
			f.Hdr = 0x65
		} else if rnd()%9 == 0 {
			f.Hdr = 0x06
		} else if rnd()%12 == 0 { // any other nal_unit_type, nal_ref_idc 1..3
			f.Hdr = byte(1+rnd()%3)<<5 | otherNalTypes[int(rnd())%len(otherNalTypes)]
		}
		if dtsLag <= f.PTS {
			f.DTS = f.PTS - dtsLag
		}
		c.Frames = append(c.Frames, f)
	}
	// the end: an audio frame stamped two seconds on flushes the audio batch that
	// is still collecting (if none was collecting it opens one; that one may get
	// flushed only into the segment behind the last finished one, so the frame is
	// marked as allowed to be absent). Then two video frames, two seconds apart:
	// whichever segment is open when the second arrives (the audio frame may have
	// cut one at its own stamp) becomes long enough - a segment's duration is
	// taken from the frame written last - to be closed by the hidden key frame.
	c.Frames = append(c.Frames, hlsEnding(c.Frames, rnd)...)
	return c
}

// hlsEnding returns the three frames that end every HLS case (see genHLSCase).
func hlsEnding(frames []frameSpec, rnd func() uint32) []frameSpec {
	var latest uint64
	for _, f := range frames {
		if f.PTS > latest {
			latest = f.PTS
		}
	}
	end := latest + 180000
	return []frameSpec{
		{Audio: true, Size: 33, Seed: rnd(), PTS: end, DTS: end, Tail: true},
		{Hdr: 0x41, Size: 60, Seed: rnd(), PTS: end, DTS: end},
		{Hdr: 0x41, Size: 61, Seed: rnd(), PTS: end + 180000, DTS: end + 180000},
	}
}

// checkHLS runs one case through the HLS consumer and judges the finished segments.
func checkHLS(t TB, c *caseSpec, test string) *stats {
	segs, err := produceHLS(c)
	if err == errInfra {
		infraOnce.Do(func() { evid.Note("muxer did not drain within 60 s in %s; case skipped (not a verdict)", test) })
		return &stats{}
	}
	if ae, ok := err.(*aliasError); ok {
		evid.Violation(t, test+"/frame-aliasing", c, "%s", ae.msg)
	}
	if err != nil {
		evid.Violation(t, test+"/write-error", c, "writing returned an error: %v", err)
	}
	evid.Eval(1)
	if len(segs) == 0 {
		evid.Violation(t, test+"/no-segment", c, "no segment was finished although the case spans more than two seconds")
	}
	st, f := verifyParts(c, segs, true)
	for _, cl := range st.classes {
		evid.Class(cl)
	}
	evid.Class(fmt.Sprintf("hls:segments-%s", bucket(len(segs))))
	if f != nil {
		evid.Violation(t, test+"/"+f.check, c, "%s", f.msg)
	}
	return st
}

// TestThroughHLS: "the transport stream written for HLS" - the same oracle on the
// bytes of the segments hls.SegmentGenerator finishes.
func TestThroughHLS(t *testing.T) {
	evid.Rule(ruleText)
	evid.Rule("HLS route: realistic timelines (video 10-30 fps with GOPs, AAC at 8-96 kHz with frames of different sizes, dropped frames, gaps, audio-only tails, in-band parameter sets) go through packetizers or Muxer -> hls.SegmentGenerator (memory, 1 s fragments); every finished segment is demultiplexed on its own and the PES of all segments together must account for the source frames: video as on the direct route, audio PES = chain of ADTS frames equal to the source AAC frames in order (batches cut by the 100 ms rule, by the key frame that starts a segment and by the audio-only segment cut); the PTS of an audio PES must equal the supplied stamp of its first frame to within 2 ticks over the whole history when the source's audio stamps are sample-exact and gapless and start more than 100 ms after zero (also over histories of 3200 / thorough 16000 AAC frames at 7.35-88.2 kHz), and to within the generator's 100 ms resynchronisation window only for sources with dropped frames, gaps or a start within 100 ms of zero; a recording FrameWriter in front of every consumer checks that frames handed over are not modified afterwards")
	evid.Checks(500, 8000)
	for _, salt := range []int{0, 1, 2} {
		salt := salt
		t.Run(fmt.Sprintf("timeline-%d", salt), func(t *testing.T) {
			t.Parallel()
			rapid.Check(t, func(rt *rapid.T) {
				for i := 0; i < salt; i++ {
					rapid.Uint64().Draw(rt, "salt")
				}
				c := genHLSCase(rt)
				st := checkHLS(rt, c, "hls")
				if st.stuffExistingAF > 0 || st.stuffNewAF > 0 {
					evid.Nontrivial(evid.FP(fmt.Sprintf("hls %+v", *c)))
				}
				if c.ExactAudio {
					evid.Class("hls:case-audio-stamps-sample-exact(+-2-ticks-rule)")
				} else {
					evid.Class("hls:case-audio-stamps-gappy-or-early(+-100ms-rule)")
				}
				if c.Muxer {
					evid.Class("path:muxer->hls")
				} else {
					evid.Class("path:packetizers->hls")
				}
				if evid.WantSample("hls") {
					small := *c
					if len(small.Frames) > 12 {
						small.Frames = small.Frames[:12]
					}
					evid.Sample("hls", map[string]any{"first_frames": small, "frames": len(c.Frames)})
				}
			})
		})
	}
}

// TestLongAudioHistory: sample-exact audio for minutes - 3200 AAC frames per
// rate in quick (73 s at 44.1 kHz, 5 min at 11.025 kHz), 16000 in thorough
// (6 min at 44.1 kHz, longer than the 262 s after which a per-frame error of
// 0.8 tick has grown to the estimator's 100 ms window) - with tiny frames and
// one key frame every two seconds. Every audio PES of the whole history must
// carry the supplied stamp of its first frame to within hlsExactTicks: an
// error that grows with the number of frames shows as a drift long before it
// reaches 100 ms.
func TestLongAudioHistory(t *testing.T) {
	evid.Rule(ruleText)
	frames := 3200
	if evid.Thorough() {
		frames = 16000
	}
	if shard, _ := evid.Shard(); shard != 0 {
		t.Skip("runs in shard 0")
	}
	for i, idx := range []int{4, 7, 10, 3, 1, 12, 5} { // 44100, 22050, 11025, 48000, 88200, 7350, 32000
		i, idx := i, idx
		t.Run(fmt.Sprintf("%dHz", aacRates[idx]), func(t *testing.T) {
			t.Parallel()
			rate := uint64(aacRates[idx])
			c := &caseSpec{HLS: true, ExactAudio: true, ASC: encodeASC(2, byte(idx), 2), Muxer: i == 1}
			c.SPS, c.PPS = paramSet(i)
			x := uint32(idx)*2654435761 | 1
			rnd := func() uint32 { x ^= x << 13; x ^= x >> 17; x ^= x << 5; return x }
			base := uint64(45000 + 7919*i) // half a second after zero, like ipchub's depacketizers
			nextKey := base
			for k := 0; k < frames; k++ {
				pts := base + (uint64(k)*1024*90000+rate/2)/rate // rounded to the nearest tick
				for nextKey <= pts {
					c.Frames = append(c.Frames, frameSpec{Hdr: 0x65, Size: 20 + k%9, Seed: rnd(), PTS: nextKey, DTS: nextKey})
					nextKey += 180000
				}
				c.Frames = append(c.Frames, frameSpec{Audio: true, Size: 1 + (k*7)%13, Seed: rnd(), PTS: pts, DTS: pts})
			}
			c.Frames = append(c.Frames, hlsEnding(c.Frames, rnd)...)
			checkHLS(t, c, "long-history")
			evid.Nontrivial(evid.FP("long-history", idx, frames))
			evid.ClassN("hls:long-history-aac-frames", int64(frames))
		})
	}
}

// TestWitnessAudioBatchKeepsFirstHeader: the minimal shape of an aliased ADTS
// header, by hand: three AAC frames of 10, 20 and 30 bytes inside one 100 ms
// batch, read back from the finished segment without the demultiplexer.
func TestWitnessAudioBatchKeepsFirstHeader(t *testing.T) {
	c := &caseSpec{HLS: true, ASC: "1190"}
	c.SPS, c.PPS = paramSet(0)
	c.Frames = []frameSpec{
		{Hdr: 0x65, Size: 50, Seed: 1, PTS: 1000, DTS: 1000},
		{Audio: true, Size: 10, Seed: 2, PTS: 1000, DTS: 1000},
		{Audio: true, Size: 20, Seed: 3, PTS: 2920, DTS: 2920},
		{Audio: true, Size: 30, Seed: 4, PTS: 4840, DTS: 4840},
		{Audio: true, Size: 33, Seed: 6, PTS: 181000, DTS: 181000, Tail: true},
		{Hdr: 0x41, Size: 60, Seed: 5, PTS: 181000, DTS: 181000},
		{Hdr: 0x41, Size: 61, Seed: 7, PTS: 361000, DTS: 361000},
	}
	segs, err := produceHLS(c)
	evid.Eval(1)
	if ae, ok := err.(*aliasError); ok {
		evid.Violation(t, "witness/frame-aliasing", c, "%s", ae.msg)
	}
	if err != nil || len(segs) != 1 {
		t.Fatalf("expected one finished segment, got %d (%v)", len(segs), err)
	}
	// the audio PES sits in one packet on PID 0x101: find it, skip adaptation field and the 14-byte PES header
	for off := 0; off < len(segs[0]); off += 188 {
		pk := segs[0][off : off+188]
		if pk[1]&0x1f != 0x01 || pk[2] != 0x01 {
			continue
		}
		p := 4
		if pk[3]&0x20 != 0 {
			p += 1 + int(pk[4])
		}
		es := pk[p+14:]
		want := 7 + 10
		got := int(es[3]&3)<<11 | int(es[4])<<3 | int(es[5])>>5
		if got != want {
			evid.Violation(t, "witness/audio-batch-header", c, "first ADTS header of the batch says aac_frame_length %d, the first frame is %d bytes + 7 (header bytes % x)", got, 10, es[:7])
		}
		if len(es) != 4*7+10+20+30+33 {
			t.Fatalf("batch has %d ES bytes", len(es))
		}
		return
	}
	t.Fatal("no audio packet in the segment")
}
