package c09

import (
	"bytes"
	"fmt"
	"sync"
	"testing"

	"github.com/cnotch/ipchub/av/codec"
	"github.com/cnotch/ipchub/av/format/mpegts"
	"pgregory.net/rapid"
	"verif/harness/lib/evid"
)

// All mpegts.Writers of a process share package-level state (a pool of buffers
// in which a frame's header and payload are joined before they are cut into
// packets). Every HLS-enabled stream owns a Writer, so several of them run at
// the same time; the statement holds for each transport stream on its own: no
// stream's bytes may show up in another's.

// hookSink is writer A's io.Writer. On chosen Write calls (= TS packets of A,
// call 0 being the PAT/PMT block) it hands control to fn before returning, i.e.
// in the middle of one of A's frames - a deterministic interleaving of two
// writers on one goroutine.
type hookSink struct {
	buf   bytes.Buffer
	calls int
	every int
	fn    func()
}

func (h *hookSink) Write(p []byte) (int, error) {
	n, err := h.buf.Write(p)
	h.calls++
	if h.fn != nil && h.every > 0 && h.calls%h.every == 0 {
		h.fn()
	}
	return n, err
}

func toFrame(f frameSpec) *codec.Frame {
	fr := &codec.Frame{MediaType: codec.MediaTypeVideo, Payload: f.payload()}
	fr.Pts, fr.Dts = ns(f.PTS), ns(f.DTS)
	if f.PtsNs != 0 || f.DtsNs != 0 {
		fr.Pts, fr.Dts = f.PtsNs, f.DtsNs
	}
	if f.Audio {
		fr.MediaType = codec.MediaTypeAudio
		fr.Dts = fr.Pts
	}
	return fr
}

// produceNested writes case a; after every `every`-th packet of a, from inside
// a's sink, the next frame of case b is written completely through b's own
// packetizers and Writer. What is left of b follows after a.
func produceNested(a, b *caseSpec, every int) (ta, tb []byte, nested int, err error) {
	var bufB bytes.Buffer
	wB, err := mpegts.NewWriter(&bufB)
	if err != nil {
		return nil, nil, 0, err
	}
	vpB := mpegts.NewH264Packetizer(&codec.VideoMeta{Codec: "H264", Sps: mustHex(b.SPS), Pps: mustHex(b.PPS)}, wB)
	apB := mpegts.NewAacPacketizer(&codec.AudioMeta{Codec: "AAC", Sps: mustHex(b.ASC)}, wB)
	iB := 0
	var errB error
	stepB := func() {
		if iB >= len(b.Frames) || errB != nil {
			return
		}
		f := b.Frames[iB]
		iB++
		if f.Audio {
			errB = apB.Packetize(toFrame(f))
		} else {
			errB = vpB.Packetize(toFrame(f))
		}
	}
	sink := &hookSink{every: every}
	wA, err := mpegts.NewWriter(sink)
	if err != nil {
		return nil, nil, 0, err
	}
	vpA := mpegts.NewH264Packetizer(&codec.VideoMeta{Codec: "H264", Sps: mustHex(a.SPS), Pps: mustHex(a.PPS)}, wA)
	apA := mpegts.NewAacPacketizer(&codec.AudioMeta{Codec: "AAC", Sps: mustHex(a.ASC)}, wA)
	sink.fn = stepB
	for _, f := range a.Frames {
		if f.Audio {
			err = apA.Packetize(toFrame(f))
		} else {
			err = vpA.Packetize(toFrame(f))
		}
		if err != nil {
			return nil, nil, iB, err
		}
	}
	sink.fn = nil
	nested = iB // frames of b that were written from inside a's sink
	for iB < len(b.Frames) && errB == nil {
		stepB()
	}
	return sink.buf.Bytes(), bufB.Bytes(), nested, errB
}

func plainCase(c *caseSpec) *caseSpec {
	c.Muxer, c.LateParamSets = false, false
	return c
}

type multiCase struct {
	Kind   string      `json:"kind"` // "nested" | "goroutines"
	Every  int         `json:"hand_over_every_n_packets,omitempty"`
	Cases  []*caseSpec `json:"streams"`
	Failed int         `json:"failed_stream"`
}

// TestSeveralWriters/nested: writer A's sink hands control to writer B in the
// middle of A's frames; each output is judged on its own by the C09 oracle.
func TestSeveralWriters(t *testing.T) {
	evid.Rule(ruleText)
	evid.Rule("several writers: (a) writer A's sink calls writer B's packetizer synchronously between two of A's packets (deterministic interleaving on one goroutine), (b) 2-4 goroutines drive their own packetizers+Writer concurrently; every transport stream is judged separately by the same oracle")
	evid.Checks(600, 10000)
	t.Run("nested", func(t *testing.T) { t.Parallel(); rapid.Check(t, interleavedWriters) })
	t.Run("goroutines", func(t *testing.T) { t.Parallel(); rapid.Check(t, concurrentWriters) })
}

func interleavedWriters(rt *rapid.T) {
	{
		a := plainCase(genCase(rt, 8, false, false))
		b := plainCase(genCase(rt, 8, false, false))
		every := rapid.IntRange(1, 6).Draw(rt, "hand-over-every")
		mc := &multiCase{Kind: "nested", Every: every, Cases: []*caseSpec{a, b}}
		ta, tb, nested, err := produceNested(a, b, every)
		if err != nil {
			evid.Violation(rt, "interleaved/write-error", mc, "writing returned an error: %v", err)
		}
		evid.Eval(1)
		if nested > 0 {
			evid.Class("writers:B-frame-written-inside-A-frame")
			evid.Nontrivial(evid.FP(fmt.Sprintf("nested %d %+v %+v", every, *a, *b)))
		} else {
			evid.Class("writers:no-hand-over-happened")
		}
		for i, pair := range []struct {
			c  *caseSpec
			ts []byte
		}{{a, ta}, {b, tb}} {
			if _, f := verify(pair.c, pair.ts); f != nil {
				mc.Failed = i
				evid.Violation(rt, "interleaved/"+f.check, mc, "stream %d of 2 (the other writer wrote a frame between two of its packets every %d packets): %s", i, every, f.msg)
			}
		}
		if len(a.Frames)+len(b.Frames) <= 4 {
			evid.Sample("interleaved-writers", mc)
		}
	}
}

// TestSeveralWriters/goroutines: 2-4 goroutines, each with its own packetizers
// and Writer and its own frame sequence, run at the same time.
func concurrentWriters(rt *rapid.T) {
	{
		n := rapid.IntRange(2, 4).Draw(rt, "writers")
		mc := &multiCase{Kind: "goroutines"}
		for i := 0; i < n; i++ {
			mc.Cases = append(mc.Cases, plainCase(genCase(rt, 10, false, false)))
		}
		rounds := 3 // the same streams several times: more chances for the goroutines to overlap
		type res struct {
			ts  []byte
			err error
		}
		out := make([][]res, n)
		var start, done sync.WaitGroup
		start.Add(1)
		for i := 0; i < n; i++ {
			i := i
			out[i] = make([]res, rounds)
			done.Add(1)
			go func() {
				defer done.Done()
				start.Wait()
				for r := 0; r < rounds; r++ {
					ts, err := produce(mc.Cases[i])
					out[i][r] = res{append([]byte(nil), ts...), err}
				}
			}()
		}
		start.Done()
		done.Wait()
		evid.Eval(1)
		evid.Class(fmt.Sprintf("writers:%d-goroutines", n))
		evid.Nontrivial(evid.FP(fmt.Sprintf("goroutines %+v", mc.Cases)))
		for i := 0; i < n; i++ {
			for r := 0; r < rounds; r++ {
				mc.Failed = i
				if out[i][r].err != nil {
					evid.Violation(rt, "concurrent/write-error", mc, "stream %d: writing returned an error: %v", i, out[i][r].err)
				}
				if _, f := verify(mc.Cases[i], out[i][r].ts); f != nil {
					evid.Violation(rt, "concurrent/"+f.check, mc, "stream %d of %d written concurrently (round %d): %s", i, n, r, f.msg)
				}
			}
		}
	}
}

// replayMulti re-runs a saved several-writers case (TestReplayFile dispatches
// here when the replay file holds one).
func replayMulti(t *testing.T, mc *multiCase) {
	switch mc.Kind {
	case "nested":
		ta, tb, _, err := produceNested(mc.Cases[0], mc.Cases[1], mc.Every)
		if err != nil {
			t.Fatalf("write error: %v", err)
		}
		for i, ts := range [][]byte{ta, tb} {
			if _, f := verify(mc.Cases[i], ts); f != nil {
				t.Fatalf("stream %d: %s: %s", i, f.check, f.msg)
			}
		}
	default:
		for round := 0; round < 50; round++ {
			var wg sync.WaitGroup
			fails := make([]*failure, len(mc.Cases))
			for i := range mc.Cases {
				i := i
				wg.Add(1)
				go func() {
					defer wg.Done()
					ts, err := produce(mc.Cases[i])
					if err != nil {
						fails[i] = fail("write-error", "%v", err)
						return
					}
					_, fails[i] = verify(mc.Cases[i], ts)
				}()
			}
			wg.Wait()
			for i, f := range fails {
				if f != nil {
					t.Fatalf("stream %d: %s: %s", i, f.check, f.msg)
				}
			}
		}
	}
}
