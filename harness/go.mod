module verif/harness

go 1.23

require (
	github.com/cnotch/ipchub v0.0.0
	pgregory.net/rapid v1.3.0
)

require (
	github.com/cnotch/queue v0.0.0-20201224060551-4191569ce8f6 // indirect
	github.com/cnotch/xlog v0.0.0-20201208005456-cfda439cd3a0 // indirect
	github.com/pion/randutil v0.1.0 // indirect
	github.com/pion/rtp v1.6.2 // indirect
	golang.org/x/crypto v0.0.0-20201221181555-eec23a3978ad // indirect
)

replace github.com/cnotch/ipchub => /repo
