module verif/harness

go 1.23

require (
	github.com/cnotch/ipchub v0.0.0
	pgregory.net/rapid v1.3.0
)

require (
	github.com/cnotch/xlog v0.0.0-20201208005456-cfda439cd3a0 // indirect
	golang.org/x/crypto v0.0.0-20201221181555-eec23a3978ad // indirect
)

replace github.com/cnotch/ipchub => /repo
