package c08

import (
	"fmt"
	"sync/atomic"
	"testing"

	"verif/harness/lib/evid"
)

// Exhaustive tag-size sweep ("sizes 1 byte to >64 KiB"): for every shape
// (H.264 / H.265 × key / non-key, AAC) every payload size of the ranges below
// is written, in files of sweepRun media tags so that one mis-sized tag
// desynchronises everything after it, through packetiser → flv.Writer (all
// files) and through Muxer → FlvCache → Writer (every sweepMuxEvery-th file,
// a client joining in the middle of the file on a stream with GOP cache).
// The oracle is checkClient, unchanged. Tags are distinct by construction.

const (
	sweepRun      = 300
	sweepMuxEvery = 6
)

func sweepVideoSizes(min int) []int {
	var out []int
	for n := min; n <= 8300; n++ {
		out = append(out, n)
	}
	for _, c := range []int{16384, 32768, 65536} {
		for n := c - 40; n <= c+40; n++ {
			out = append(out, n)
		}
	}
	return out
}

type sweepShape struct {
	name    string
	codec   string
	audio   bool
	nalType int
	sizes   []int
}

func sweepShapes() []sweepShape {
	aac := make([]int, 0, 6144)
	for n := 1; n <= 6144; n++ {
		aac = append(aac, n)
	}
	return []sweepShape{
		{"h264-key", "H264", false, 5, sweepVideoSizes(1)},
		{"h264-nonkey", "H264", false, 1, sweepVideoSizes(1)},
		{"h265-key", "H265", false, 19, sweepVideoSizes(2)},
		{"h265-nonkey", "H265", false, 1, sweepVideoSizes(2)},
		{"aac", "H264", true, 0, aac},
	}
}

// sweepScenario builds one file: the given sizes as consecutive frames of the
// shape (an AAC file starts with one key frame, a non-key video file too, so
// that a GOP-cache joiner is owed the whole run).
func sweepScenario(sh sweepShape, sizes []int, fileNo int, layer string) *Scenario {
	s := &Scenario{Layer: layer, Codec: sh.codec, Audio: sh.audio, PS: fileNo, ASC: fileNo, Base: "sweep"}
	dts := int64(fileNo) * 1000 * ms
	keyType := 5
	min := 1
	if sh.codec == "H265" {
		keyType, min = 19, 2
	}
	s.Frames = append(s.Frames, Frame{NalType: keyType, NRI: 3, Size: min + 3, Seed: uint32(fileNo), Dts: dts, Pts: dts})
	for i, n := range sizes {
		dts += 40 * ms
		f := Frame{Audio: sh.audio, NalType: sh.nalType, NRI: i & 3, Size: n, Seed: uint32(n)*2654435761 + uint32(fileNo), Dts: dts, Pts: dts + int64(i%3)*40*ms}
		if sh.audio {
			f.Pts = f.Dts
		}
		s.Frames = append(s.Frames, f)
	}
	return s
}

// TestMagicPrefixSweep: every prefix of magicPrefixes × every length 1..12 and
// 64, as AAC frames (every AudioSpecificConfig) and as H.264 / H.265 NAL
// payloads, through packetiser → Writer and Muxer → FlvCache → Writer.
func TestMagicPrefixSweep(t *testing.T) {
	evid.Rule("magic-prefix sweep: every pattern of {ADTS FF F1/F9/F0/F8, a full ADTS header, 'ID3', 00 00 00 01, 00 00 01, FF FB, 56 E0, 'FLV\\x01', zeros, FF..} × every payload length 1..12 and 64, as AAC frame (each AudioSpecificConfig) and as H.264 / H.265 NAL payload, key and non-key; both producer paths; tag body must be byte-equal to the source")
	lengths := []int{1, 2, 3, 4, 5, 6, 7, 8, 9, 10, 11, 12, 64}
	var n int64
	for _, codecName := range []string{"H264", "H265"} {
		for asc := range ascSets {
			for _, layer := range []string{"packetizer", "muxer"} {
				s := &Scenario{Layer: layer, Codec: codecName, Audio: true, PS: asc, ASC: asc, Base: "magic"}
				keyType, min := 5, 1
				if codecName == "H265" {
					keyType, min = 19, 2
				}
				dts := int64(0)
				s.Frames = append(s.Frames, Frame{NalType: keyType, NRI: 3, Size: min + 5, Seed: 1})
				for m := 1; m <= len(magicPrefixes); m++ {
					for _, l := range lengths {
						dts += 23 * ms
						s.Frames = append(s.Frames,
							Frame{Audio: true, Size: l, Magic: m, Seed: uint32(m*100 + l), Dts: dts, Pts: dts},
							Frame{NalType: []int{1, keyType}[l&1], NRI: 2, Size: min + l, Magic: m, Seed: uint32(m*100 + l), Dts: dts, Pts: dts})
					}
				}
				if layer == "muxer" {
					s.Joins = []Join{{At: 0, Mode: "cache"}, {At: 1 + s.configCount() + len(s.Frames)/2, CacheGop: true, Mode: "cache"}}
				} else {
					s.Joins = []Join{{At: s.configCount() + len(s.Frames)/2, Mode: "restamp-first"}}
				}
				if fl, _ := runScenario(s); fl != nil {
					evid.Violation(t, "magic-"+fl.Check, s, "magic-prefix sweep %s/%s asc=%s — %s", layer, codecName, s.asc().Name, fl.Msg)
				}
				n += int64(len(s.Frames) - 1)
			}
		}
	}
	evid.Eval(n)
	evid.NontrivialN(n)
	evid.ClassN("magic-prefix-sweep:tags", n)
}

func TestSizeSweep(t *testing.T) {
	evid.Rule("exhaustive size sweep: every NAL size 1..8300 (H.265: 2..8300) and every size within ±40 of 16384, 32768 and 65536, for H.264 and H.265, key and non-key, and every AAC frame size 1..6144, in files of 300 consecutive sizes, through packetiser → flv.Writer (all) and Muxer → FlvCache → Writer with a mid-file GOP-cache join (every 6th file); same oracle; each (shape, size) tag is counted once as non-trivial (distinct by construction)")
	var tags, files, muxFiles int64
	var parts []sweepShape
	for _, sh := range sweepShapes() { // three sub-ranges per shape, to use the cores
		third := (len(sh.sizes)/sweepRun/3 + 1) * sweepRun
		for i, off := 0, 0; off < len(sh.sizes); i, off = i+1, off+third {
			end := off + third
			if end > len(sh.sizes) {
				end = len(sh.sizes)
			}
			p := sh
			p.name, p.sizes = fmt.Sprintf("%s-part%d", sh.name, i), sh.sizes[off:end]
			parts = append(parts, p)
		}
	}
	for _, sh := range parts {
		sh := sh
		t.Run(sh.name, func(t *testing.T) {
			t.Parallel()
			for off, fileNo := 0, 0; off < len(sh.sizes); off, fileNo = off+sweepRun, fileNo+1 {
				end := off + sweepRun
				if end > len(sh.sizes) {
					end = len(sh.sizes)
				}
				s := sweepScenario(sh, sh.sizes[off:end], fileNo, "packetizer")
				s.Joins = []Join{{At: s.configCount() + 1 + (end-off)/2, Mode: "restamp-first"}}
				if fl, _ := runScenario(s); fl != nil {
					evid.Violation(t, "sweep-"+fl.Check, s, "size sweep %s, sizes %d..%d — %s", sh.name, sh.sizes[off], sh.sizes[end-1], fl.Msg)
				}
				atomic.AddInt64(&files, 1)
				if fileNo%sweepMuxEvery == 0 {
					m := sweepScenario(sh, sh.sizes[off:end], fileNo, "muxer")
					m.Joins = []Join{{At: 1 + m.configCount() + 1 + (end-off)/2, CacheGop: true, Mode: "cache"}, {At: 0, Mode: "cache"}}
					if fl, _ := runScenario(m); fl != nil {
						evid.Violation(t, "sweep-"+fl.Check, m, "size sweep %s through the muxer, sizes %d..%d — %s", sh.name, sh.sizes[off], sh.sizes[end-1], fl.Msg)
					}
					atomic.AddInt64(&muxFiles, 1)
				}
				atomic.AddInt64(&tags, int64(end-off))
			}
		})
	}
	t.Cleanup(func() {
		n := atomic.LoadInt64(&tags)
		evid.Eval(n)
		evid.NontrivialN(n)
		evid.ClassN("sweep:tags", n)
		evid.ClassN("sweep:files-packetizer+writer", atomic.LoadInt64(&files))
		evid.ClassN("sweep:files-muxer+cache+writer", atomic.LoadInt64(&muxFiles))
		evid.Sample("sweep", fmt.Sprintf("%d (shape,size) tags in %d files", n, atomic.LoadInt64(&files)))
	})
}
