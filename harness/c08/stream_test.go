package c08

import (
	"encoding/base64"
	"encoding/hex"
	"fmt"
	"net"
	"net/http"
	"strings"
	"sync"
	"testing"
	"time"

	"github.com/cnotch/ipchub/config"
	"github.com/cnotch/ipchub/media"
	"github.com/cnotch/ipchub/network/websocket"
	flvsvc "github.com/cnotch/ipchub/service/flv"
	"github.com/cnotch/xlog"
	"pgregory.net/rapid"

	"verif/harness/lib/evid"
	"verif/harness/lib/flvparse"
)

// Layer C: the real media.Stream (its flv.Muxer, FlvCache and consumer queues)
// and the real HTTP-FLV handler service/flv.ConsumeByHTTP writing into a
// recording http.ResponseWriter — the bytes a GET /streams/{path}.flv client
// receives. ws-flv (wsflv.go) differs only in the io.Writer handed to
// flv.NewWriter.

func (s *Scenario) sdp() string {
	// the SDP states what is known at construction time (s.Late)
	pm := s.partialMeta()
	p := paramSet{VPS: pm.Vps, SPS: pm.Sps, PPS: pm.Pps}
	var b strings.Builder
	b.WriteString("v=0\r\no=- 0 0 IN IP4 127.0.0.1\r\ns=c08\r\nc=IN IP4 127.0.0.1\r\nt=0 0\r\n")
	b.WriteString("m=video 0 RTP/AVP 96\r\nb=AS:2500\r\n")
	e := base64.StdEncoding.EncodeToString
	if s.Codec == "H265" {
		b.WriteString("a=rtpmap:96 H265/90000\r\n")
		var props []string
		for _, kv := range []struct {
			k string
			v []byte
		}{{"sprop-vps", p.VPS}, {"sprop-sps", p.SPS}, {"sprop-pps", p.PPS}} {
			if len(kv.v) > 0 {
				props = append(props, kv.k+"="+e(kv.v))
			}
		}
		if len(props) > 0 {
			b.WriteString("a=fmtp:96 " + strings.Join(props, "; ") + "\r\n")
		}
	} else {
		b.WriteString("a=rtpmap:96 H264/90000\r\na=fmtp:96 packetization-mode=1")
		switch {
		case len(p.SPS) > 0 && len(p.PPS) > 0:
			fmt.Fprintf(&b, "; sprop-parameter-sets=%s,%s", e(p.SPS), e(p.PPS))
		case len(p.SPS) > 0:
			fmt.Fprintf(&b, "; sprop-parameter-sets=%s", e(p.SPS))
		}
		b.WriteString("\r\n")
	}
	b.WriteString("a=control:streamid=0\r\n")
	if s.Audio {
		a := s.asc()
		fmt.Fprintf(&b, "m=audio 0 RTP/AVP 97\r\nb=AS:128\r\na=rtpmap:97 MPEG4-GENERIC/%d/%d\r\n", a.SampleRate, a.Channels)
		fmt.Fprintf(&b, "a=fmtp:97 profile-level-id=1;mode=AAC-hbr;sizelength=13;indexlength=3;indexdeltalength=3; config=%s\r\na=control:streamid=1\r\n", strings.ToUpper(hex.EncodeToString(a.ASC)))
	}
	return b.String()
}

type httpClient struct {
	mu     sync.Mutex
	hdr    http.Header
	status int
	body   []byte
	done   chan struct{}
	join   Join
	want   int // tags owed so far
	exp    []expTag
	zero   bool
	ws     bool
}

func (c *httpClient) Header() http.Header { return c.hdr }
func (c *httpClient) WriteHeader(code int) {
	c.mu.Lock()
	c.status = code
	c.mu.Unlock()
}
func (c *httpClient) Write(p []byte) (int, error) {
	c.mu.Lock()
	c.body = append(c.body, p...)
	c.mu.Unlock()
	return len(p), nil
}
func (c *httpClient) snapshot() []byte {
	c.mu.Lock()
	defer c.mu.Unlock()
	return append([]byte(nil), c.body...)
}
func (c *httpClient) tagCount() int {
	f, err := flvparse.ParsePrefix(c.snapshot())
	if err != nil || f == nil {
		return -1
	}
	return len(f.Tags)
}

// wsConn is a websocket.Conn whose written messages are concatenated (ws-flv
// sends the FLV byte stream as binary messages; message framing is gorilla's).
// Read blocks until Close, as an idle browser connection does.
type wsConn struct {
	*httpClient
	closeOnce sync.Once
	closed    chan struct{}
}

type c08Addr struct{}

func (c08Addr) Network() string { return "c08" }
func (c08Addr) String() string  { return "c08" }

func (c *wsConn) Read(p []byte) (int, error) {
	<-c.closed
	return 0, net.ErrClosed
}
func (c *wsConn) Close() error {
	c.closeOnce.Do(func() { close(c.closed) })
	return nil
}
func (c *wsConn) LocalAddr() net.Addr                { return c08Addr{} }
func (c *wsConn) RemoteAddr() net.Addr               { return c08Addr{} }
func (c *wsConn) SetDeadline(t time.Time) error      { return nil }
func (c *wsConn) SetReadDeadline(t time.Time) error  { return nil }
func (c *wsConn) SetWriteDeadline(t time.Time) error { return nil }
func (c *wsConn) Subprotocol() string                { return "" }
func (c *wsConn) TextTransport() websocket.Conn      { return c }
func (c *wsConn) Path() string                       { return "" }
func (c *wsConn) Username() string                   { return "" }

type countingConsumer struct {
	mu sync.Mutex
	n  int
}

func (c *countingConsumer) Consume(p media.Pack) {
	c.mu.Lock()
	c.n++
	c.mu.Unlock()
}
func (c *countingConsumer) Close() error { return nil }
func (c *countingConsumer) count() int {
	c.mu.Lock()
	defer c.mu.Unlock()
	return c.n
}

var streamSeq int

// waitFor polls cond; the timeout is generous and only reports a stalled
// pipeline (lost tags), never a performance judgement.
func waitFor(cond func() bool) bool {
	deadline := time.Now().Add(30 * time.Second)
	for i := 0; ; i++ {
		if cond() {
			return true
		}
		if time.Now().After(deadline) {
			return false
		}
		if i < 200 {
			time.Sleep(50 * time.Microsecond)
		} else {
			time.Sleep(time.Millisecond)
		}
	}
}

// runStreamScenario: all joins of the scenario share one cache_gop setting (it
// is a property of the server configuration): that of the first join. A join
// position that falls inside the metadata/configuration burst is moved behind
// it (the muxer publishes the three tags from one frame, nothing can be
// scheduled in between from outside).
func runStreamScenario(s *Scenario) (*failure, caseStats) {
	cs := s.staticStats()
	gop := len(s.Joins) > 0 && s.Joins[0].CacheGop
	config.VerifSet("", false, gop, "", 0)
	streamSeq++
	path := fmt.Sprintf("/c08/s%d", streamSeq)
	st := media.NewStream(path, s.sdp())
	if st.FlvTypeFlags() == 0 {
		return failf("stream-setup", "media.NewStream did not create an FLV muxer for SDP:\n%s", s.sdp()), cs
	}
	media.Regist(st)
	closed := false
	defer func() {
		if !closed {
			media.Unregist(st)
		}
	}()
	probe := &countingConsumer{}
	st.StartConsume(probe, media.FLVPacket, "c08-probe")

	hdrTags := 1 + s.configCount()
	var clients []*httpClient
	published := 0 // stream tags published so far
	allCaughtUp := func() bool {
		if probe.count() < published {
			return false
		}
		for _, c := range clients {
			if c.tagCount() < c.want {
				return false
			}
		}
		return true
	}
	stalled := func(where string) *failure {
		msg := fmt.Sprintf("%s: %d stream tags published; probe consumer received %d", where, published, probe.count())
		for _, c := range clients {
			msg += fmt.Sprintf("; client joined before tag %d received %d of %d tags", c.join.At, c.tagCount(), c.want)
		}
		return failf("tag-count", "pipeline stalled for 30 s — %s", msg)
	}
	join := func(j Join) *failure {
		j.CacheGop, j.Mode = gop, "cache"
		evid.Class(fmt.Sprintf("layer-C-client:ws=%v", j.WS))
		c := &httpClient{hdr: http.Header{}, done: make(chan struct{}), join: j}
		var gl int
		c.exp, c.zero, gl = expectJoin(s, true, j)
		if gl > 1 {
			cs.gopJoin = true
		}
		c.want = len(c.exp) - (hdrTags + len(s.Frames) - j.At) // cached part only; live tags are added as they are published
		if j.At == 0 {
			c.want = 0
		}
		clients = append(clients, c)
		c.ws = j.WS
		go func() {
			defer close(c.done)
			if c.ws {
				flvsvc.ConsumeByWebsocket(xlog.L(), path, "c08", &wsConn{httpClient: c, closed: make(chan struct{})})
			} else {
				flvsvc.ConsumeByHTTP(xlog.L(), path, "c08", c)
			}
		}()
		// registered = the stream counts it as a consumer (probe + clients)
		if !waitFor(func() bool { return st.ConsumerCount() >= 1+len(clients) }) {
			return failf("stream-setup", "ConsumeByHTTP did not attach a consumer to %s", path)
		}
		if !waitFor(allCaughtUp) {
			return stalled("after a join")
		}
		return nil
	}
	joinsAt := map[int][]Join{}
	for _, j := range s.Joins {
		at := j.At
		if at > 0 && at < hdrTags+1 {
			at = hdrTags + 1
			if len(s.Frames) == 0 {
				at = 0
			}
		}
		if at > hdrTags+len(s.Frames) {
			at = hdrTags + len(s.Frames)
		}
		j.At = at
		joinsAt[at] = append(joinsAt[at], j)
	}
	for _, j := range joinsAt[0] {
		if fl := join(j); fl != nil {
			return fl, cs
		}
	}
	// in-band parameter sets complete the stream's metadata before the first
	// frame reaches the muxer (the depacketiser writes into Stream.Video)
	if s.Late != "" {
		s.complete(&st.Video)
	}
	for i, f := range s.Frames {
		if err := st.WriteFrame(s.codecFrame(f)); err != nil {
			return failf("muxer-error", "Stream.WriteFrame: %v", err), cs
		}
		if i == 0 {
			published = hdrTags + 1
			for _, c := range clients {
				c.want += hdrTags + 1
			}
		} else {
			published++
			for _, c := range clients {
				c.want++
			}
		}
		if !waitFor(allCaughtUp) {
			return stalled(fmt.Sprintf("after frame %d", i)), cs
		}
		for _, j := range joinsAt[published] {
			if fl := join(j); fl != nil {
				return fl, cs
			}
		}
	}
	media.Unregist(st) // closes the stream and with it every consumer
	closed = true
	for _, c := range clients {
		select {
		case <-c.done:
		case <-time.After(30 * time.Second):
			return failf("stream-setup", "ConsumeByHTTP did not return after the stream was closed"), cs
		}
	}
	for _, c := range clients {
		if ct := c.hdr.Get("Content-Type"); !c.ws && ct != "video/x-flv" {
			return failf("http-header", "Content-Type %q", ct), cs
		}
		if c.join.At > hdrTags {
			cs.midJoin = true
		}
		fl, vst := checkClient(s, &clientView{Name: fmt.Sprintf("FLV client (websocket=%v) joining before stream tag %d (cache_gop=%v)", c.ws, c.join.At, gop), Bytes: c.snapshot(), Expected: c.exp, ZeroBase: c.zero})
		cs.views++
		if vst.Older > 0 {
			cs.older = true
		}
		if vst.Wrapped32 {
			cs.boundary = true
		}
		if vst.Ext24 {
			cs.ext24 = true
		}
		if fl != nil {
			return fl, cs
		}
	}
	return nil, cs
}

func TestStreamHTTPFlv(t *testing.T) {
	evid.Rule(ruleText)
	evid.Assume("layer C joins are placed between frames (after the tag of frame k has reached every attached consumer), not inside a publish; races between join and publish belong to C01/C02")
	evid.Checks(300, 5000)
	rapid.Check(t, func(t *rapid.T) {
		codecName := rapid.SampledFrom([]string{"H264", "H265"}).Draw(t, "codec")
		audio := rapid.Bool().Draw(t, "audio")
		s := drawScenario(t, "stream", codecName, audio, nil)
		// the 2-byte 4:2:2 / RExt captures are fine for the packetisers, but the
		// metadata width/height of this layer come from ipchub's own SPS parser
		// (property C15); keep to the captures whose size ipchub's tests assert
		if codecName == "H264" {
			s.PS %= 4
		} else {
			s.PS %= 3
		}
		gop := rapid.Bool().Draw(t, "cacheGop")
		n := rapid.IntRange(1, 3).Draw(t, "joins")
		for i := 0; i < n; i++ {
			s.Joins = append(s.Joins, Join{At: rapid.IntRange(0, 1+s.configCount()+len(s.Frames)).Draw(t, "joinAt"), CacheGop: gop, Mode: "cache", WS: rapid.Bool().Draw(t, "websocket")})
		}
		fl, cs := runStreamScenario(s)
		if fl != nil {
			evid.Violation(t, fl.Check, s, "%s — %s", s.summary(), fl.Msg)
		}
		record(s, cs)
	})
}
