package c08

import (
	"fmt"
	"net/http"
	"testing"

	"github.com/cnotch/ipchub/av/format/rtp"
	"github.com/cnotch/ipchub/config"
	"github.com/cnotch/ipchub/media"
	flvsvc "github.com/cnotch/ipchub/service/flv"
	"github.com/cnotch/xlog"

	"verif/harness/lib/evid"
	"verif/harness/lib/rtppack"
)

// Layer C-RTP: the whole server-side path. media.NewStream gets an SDP whose
// parameter sets are incomplete or wrong (s.Late); the real ones arrive in
// band as RTP packets (RFC 6184 §5.6 / RFC 7798 §4.4.1 single NAL unit
// packets built by lib/rtppack), the depacketiser completes Stream.Video, the
// muxer builds metadata and decoder configuration, and HTTP-FLV clients (one
// from the start, one joining at the end on the GOP cache) must receive a
// configuration record built from the stream's ACTUAL parameter sets.
//
// The depacketiser derives DTS/PTS from the wall clock or the SPS frame rate,
// so this layer judges everything except composition times and the timeline.

func (s *Scenario) nalFrame(raw []byte) Frame {
	f := Frame{Raw: raw, Size: len(raw)}
	if s.Codec == "H265" {
		f.NalType = int(raw[0] >> 1 & 0x3F)
	} else {
		f.NalType = int(raw[0] & 0x1F)
	}
	return f
}

func runRTPScenario(s *Scenario) *failure {
	ps := s.paramSet()
	config.VerifSet("", false, true, "", 0)
	streamSeq++
	path := fmt.Sprintf("/c08/rtp%d", streamSeq)
	mxBefore := lastNewMuxer.Load()
	st := media.NewStream(path, s.sdp())
	if st.FlvTypeFlags() == 0 {
		return failf("stream-setup", "media.NewStream did not create an FLV muxer for SDP:\n%s", s.sdp())
	}
	media.Regist(st)
	defer media.Unregist(st)

	// what is valid before any packet, per s.Late
	have := map[string]bool{}
	pm := s.partialMeta()
	if len(pm.Sps) > 0 && s.Late != "truncated-sps" {
		have["sps"] = true
	}
	if len(pm.Pps) > 0 {
		have["pps"] = true
	}
	if len(pm.Vps) > 0 {
		have["vps"] = true
	}
	if s.Codec == "H264" && s.Late == "no-pps" || s.Late == "sps-only" && s.Codec == "H264" {
		// "sprop-parameter-sets=<sps>" without a comma: parsemeta.go takes nothing from it
		delete(have, "sps")
	}
	needed := []string{"sps", "pps"}
	var inband []struct {
		name string
		nal  []byte
	}
	if s.Codec == "H265" {
		needed = []string{"vps", "sps", "pps"}
		inband = append(inband, struct {
			name string
			nal  []byte
		}{"vps", ps.VPS})
	}
	inband = append(inband, struct {
		name string
		nal  []byte
	}{"sps", ps.SPS}, struct {
		name string
		nal  []byte
	}{"pps", ps.PPS})
	ready := func() bool {
		for _, n := range needed {
			if !have[n] {
				return false
			}
		}
		return true
	}
	// the unit sequence on the wire: parameter sets, then IDR/IRAP, P, P, parameter sets again, IDR, P
	s.Frames = nil
	var wire [][]byte
	audioAt := map[int]Frame{}
	started := ready()
	started0 := started
	push := func(f Frame, name string) {
		wire = append(wire, s.payload(f))
		if name != "" {
			have[name] = true
		}
		// the depacketiser forwards a unit once the metadata is ready, including
		// the very unit that completed it
		if !started && ready() {
			started = true
		}
		if started {
			s.Frames = append(s.Frames, f)
		}
	}
	keyType, pType, min := 5, 1, 1
	if s.Codec == "H265" {
		keyType, pType, min = 19, 1, 2
	}
	slice := func(typ, size int, seed uint32) Frame {
		return Frame{NalType: typ, NRI: 2, Size: min + size, Seed: seed, Magic: 1 + int(seed+uint32(s.PS))%len(magicPrefixes)}
	}
	// audio: s.AudioLead AUs go out before anything else (they reach the muxer
	// ahead of the in-band parameter sets; whether they are dropped or kept is
	// read off the tag count below), later AUs follow each key frame
	var lead []Frame
	// the access units start like an ADTS header etc. (RTP mpeg4-generic AUs are arbitrary bytes)
	au := func(size int, seed uint32) Frame {
		f := Frame{Audio: true, Size: size, Seed: seed, Magic: 1 + int(seed)%len(magicPrefixes)}
		if seed%2 == 0 {
			f.Magic = 1 + int(seed/2+uint32(s.PS))%5 // one of the ADTS look-alikes
			f.Size = 7 + int(seed/2)%3               // 7..9: exactly an ADTS header's length
		}
		return f
	}
	if s.Audio {
		for i := 0; i < s.AudioLead; i++ {
			f := au(100+i, uint32(100+i))
			lead = append(lead, f)
			wire = append(wire, nil) // placeholder: sent on the audio channel
			audioAt[len(wire)-1] = f
		}
	}
	for round := 0; round < 2; round++ {
		for _, ib := range inband {
			push(s.nalFrame(ib.nal), ib.name)
		}
		push(slice(keyType, 700+round, uint32(round)), "")
		if s.Audio {
			f := au(200+round, uint32(200+round))
			wire = append(wire, nil)
			audioAt[len(wire)-1] = f
			s.Frames = append(s.Frames, f) // after a key frame the metadata is ready in every variant
		}
		push(slice(pType, 90, uint32(10+round)), "")
		push(slice(pType, 1200, uint32(20+round)), "")
	}

	if !waitFor(func() bool { return lastNewMuxer.Load() != mxBefore }) {
		return failf("stream-setup", "the stream's FLV muxer goroutine did not start")
	}
	c0 := &httpClient{hdr: http.Header{}, done: make(chan struct{})}
	go func() {
		defer close(c0.done)
		flvsvc.ConsumeByHTTP(xlog.L(), path, "c08", c0)
	}()
	if !waitFor(func() bool { return st.ConsumerCount() >= 1 }) {
		return failf("stream-setup", "ConsumeByHTTP did not attach")
	}
	mx := lastNewMuxer.Load() // the stream's flv.Muxer (this test runs alone)
	seq, ts := uint16(65530), uint32(4000000000)
	aseq, ats := uint16(7), uint32(123456)
	for i, nal := range wire {
		if f, ok := audioAt[i]; ok {
			p := rtppack.Sequence([][]byte{rtppack.AacHbr([][]byte{s.payload(f)})}, true, 97, ats, aseq, 0xA08)[0]
			if err := st.WriteRtpPacket(rtppack.ToIpchub(rtp.ChannelAudio, p.Marshal())); err != nil {
				return failf("stream-setup", "WriteRtpPacket %d: %v", i, err)
			}
			aseq++
			ats += 1024
			if i < len(lead) {
				// let the leading AU get through the demuxer and the muxer before the
				// parameter sets are sent (k+1 visits of the pop point = k frames taken)
				n := i + 1
				if !waitFor(func() bool { return popCount(mx) >= n+1 }) {
					return failf("tag-count", "the stream's FLV muxer did not take leading audio frame %d", i)
				}
			}
			continue
		}
		for _, p := range rtppack.Sequence([][]byte{nal}, true, 96, ts, seq, 0xC08) {
			if err := st.WriteRtpPacket(rtppack.ToIpchub(rtp.ChannelVideo, p.Marshal())); err != nil {
				return failf("stream-setup", "WriteRtpPacket %d: %v", i, err)
			}
			seq++
		}
		ts += 3600
	}
	// all units converted: the muxer has taken every frame the depacketisers forwarded
	forwarded := len(s.Frames)
	if started0 {
		forwarded += len(lead) // complete SDP: the leading AUs are ordinary frames
		s.Frames = append(append([]Frame(nil), lead...), s.Frames...)
	} else {
		forwarded += len(lead)
	}
	if !waitFor(func() bool { return popCount(mx) >= forwarded+1 }) {
		return failf("tag-count", "pipeline stalled for 30 s: the FLV muxer took %d of %d frames", popCount(mx)-1, forwarded)
	}
	want := 1 + s.configCount() + len(s.Frames)
	if !started0 && len(lead) > 0 && c0.tagCount() == want+len(lead) {
		// the leading AUs were kept: they are owed after the configuration tags
		s.Frames = append(append([]Frame(nil), lead...), s.Frames...)
		want += len(lead)
	}
	if !waitFor(func() bool { return c0.tagCount() >= want }) {
		return failf("tag-count", "pipeline stalled for 30 s: the client received %d of %d tags (%d units sent, %d owed after the metadata became ready)", c0.tagCount(), want, len(wire), len(s.Frames))
	}
	// a late joiner on the GOP cache
	c1 := &httpClient{hdr: http.Header{}, done: make(chan struct{})}
	go func() {
		defer close(c1.done)
		flvsvc.ConsumeByHTTP(xlog.L(), path, "c08", c1)
	}()
	j := Join{At: want, CacheGop: true, Mode: "cache"}
	exp1, _, _ := expectJoin(s, true, j)
	if !waitFor(func() bool { return c1.tagCount() >= len(exp1) }) {
		return failf("tag-count", "late joiner received %d of %d cached tags", c1.tagCount(), len(exp1))
	}
	exp0, _, _ := expectJoin(s, true, Join{At: 0})
	for _, v := range []*clientView{
		{Name: "HTTP-FLV client from the start (RTP in, late=" + s.Late + ")", Bytes: c0.snapshot(), Expected: exp0, NoTimes: true},
		{Name: "HTTP-FLV client joining at the end on the GOP cache (RTP in, late=" + s.Late + ")", Bytes: c1.snapshot(), Expected: exp1, NoTimes: true},
	} {
		if fl, _ := checkClient(s, v); fl != nil {
			return fl
		}
	}
	return nil
}

func TestStreamLateParamSetsRTP(t *testing.T) {
	evid.Rule("layer C-RTP (enumerated): codec × every parameter-set capture × SDP completeness {complete, SPS without PPS, truncated SPS, H.265 sprop-sps only, nothing}; the actual sets arrive in band as RTP single-NAL-unit packets; two HTTP-FLV clients (from the start; at the end on the GOP cache); oracle = same reader, composition time and timeline not judged (times come from the depacketiser's clock)")
	n := int64(0)
	for _, codecName := range []string{"H264", "H265"} {
		sets := len(h264Sets) - 1 // the 4:2:2 capture's size is not asserted by ipchub's tests
		if codecName == "H265" {
			sets = len(h265Sets) - 1
		}
		for ps := 0; ps < sets; ps++ {
			for _, late := range append([]string{""}, lateKinds...) {
				for _, lead := range []int{-1, 0, 2} { // -1: no audio; 0: audio after the first key frame only; 2: two AUs ahead of everything
					s := &Scenario{Layer: "rtp", Codec: codecName, PS: ps, ASC: ps, Late: late, Base: "rtp", Audio: lead >= 0}
					if lead > 0 {
						s.AudioLead = lead
					}
					if fl := runRTPScenario(s); fl != nil {
						evid.Violation(t, "rtp-"+fl.Check, s, "%s — %s", s.summary(), fl.Msg)
					}
					n++
					evid.Class(fmt.Sprintf("layer:rtp/%s/late=%s/audio-lead=%d", codecName, late, lead))
				}
			}
		}
	}
	evid.Eval(n)
	evid.NontrivialN(n) // distinct by enumeration; each has key frames and a mid-stream (cache) join
}
