package c08

import (
	"testing"

	"github.com/cnotch/ipchub/av/format/flv"

	"verif/harness/lib/evid"
	"verif/harness/lib/flvparse"
)

// Minimal, rapid-free witnesses of the two Writer defects the campaign found
// (both repaired in /repo by "fix: flv writer …"); they stay as regression
// checks and re-execute the exact inputs.

func mediaTag(video bool, ts uint32) *flv.Tag {
	if video {
		d := []byte{0x27, 0x01, 0, 0, 0, 0, 0, 0, 1, 0x41} // inter frame, AVC NALU, cts 0, one 1-byte NAL
		return &flv.Tag{TagType: flv.TagTypeVideo, DataSize: uint32(len(d)), Timestamp: ts, Data: d}
	}
	d := []byte{0xAF, 0x01, 0x21}
	return &flv.Tag{TagType: flv.TagTypeAudio, DataSize: uint32(len(d)), Timestamp: ts, Data: d}
}

func writtenTimestamps(t *testing.T, tags ...*flv.Tag) []uint32 {
	b, fl := write(flv.TypeFlagsVideo|flv.TypeFlagsAudio, tags)
	if fl != nil {
		t.Fatal(fl.Msg)
	}
	f, err := flvparse.Parse(b)
	if err != nil {
		t.Fatal(err)
	}
	var out []uint32
	for _, tg := range f.Tags {
		out = append(out, tg.Timestamp)
	}
	return out
}

// A tag 10 ms older than the writer's first tag (an audio frame behind the key
// frame a client joined on) used to be written with timestamp 4 294 967 286.
func TestWitnessOlderTagNotWrapped(t *testing.T) {
	out := writtenTimestamps(t, mediaTag(true, 1000), mediaTag(false, 990), mediaTag(true, 1040), mediaTag(false, 1013))
	evid.Eval(1)
	if out[0] != 0 || out[1] != 0 || out[2] != 40 || out[3] != 13 {
		evid.Violation(t, "older-tag-wrapped", map[string]any{"in": []uint32{1000, 990, 1040, 1013}, "out": out},
			"source timestamps 1000, 990, 1040, 1013 written as %v; the tag older than the first must read 0 (not ≈2^32) and the others 0, 40, 13", out)
	}
}

// A first tag whose 32-bit millisecond clock reads exactly 0xFFFFFFFF used to be
// mistaken for "no first tag yet": the second tag became the origin as well.
func TestWitnessFirstTagAllOnes(t *testing.T) {
	out := writtenTimestamps(t, mediaTag(true, 0xFFFFFFFF), mediaTag(true, 39), mediaTag(true, 79))
	evid.Eval(1)
	if out[0] != 0 || out[1] != 40 || out[2] != 80 {
		evid.Violation(t, "timestamp", map[string]any{"in": []uint32{0xFFFFFFFF, 39, 79}, "out": out},
			"source timestamps 4294967295, 39, 79 (32-bit clock wrapping) written as %v, want 0, 40, 80", out)
	}
}

// Audio ahead of the in-band parameter sets (SDP without sprop-*): the muxer
// used to answer the first AAC frame with metadata saying width = height = 0
// and, for H.265, with an HEVC configuration record holding empty VPS/SPS/PPS
// that was never replaced once the real sets had arrived.
func TestWitnessAudioAheadOfParameterSets(t *testing.T) {
	for _, codecName := range []string{"H265", "H264"} {
		s := &Scenario{Layer: "muxer", Codec: codecName, PS: 0, Audio: true, Late: "nothing", AudioLead: 2, Base: "witness"}
		keyType, min := 5, 1
		if codecName == "H265" {
			keyType, min = 19, 2
		}
		s.Frames = []Frame{
			{Audio: true, Size: 7, Seed: 1, Dts: 0, Pts: 0},
			{Audio: true, Size: 9, Seed: 2, Dts: 23 * ms, Pts: 23 * ms},
			{NalType: keyType, NRI: 3, Size: min + 30, Seed: 3, Dts: 40 * ms, Pts: 40 * ms},
			{Audio: true, Size: 8, Seed: 4, Dts: 46 * ms, Pts: 46 * ms},
			{NalType: 1, NRI: 2, Size: min + 10, Seed: 5, Dts: 80 * ms, Pts: 80 * ms},
		}
		s.Joins = []Join{{At: 0, Mode: "cache"}}
		fl, _ := runScenario(s)
		evid.Eval(1)
		if fl != nil {
			evid.Violation(t, fl.Check, s, "%s — %s", s.summary(), fl.Msg)
		}
	}
}
