package c08

import (
	"testing"

	"verif/harness/lib/evid"
	"verif/harness/lib/flvparse"
)

// The reader must decode the hand-built golden vectors (assembled from Adobe
// FLV 10.1 Annex E, AMF0 and ISO 14496-15 field by field) and refuse every
// documented corruption of them, before any verdict of it is trusted.
func TestReaderGoldenVectors(t *testing.T) {
	if err := flvparse.CheckGolden(); err != nil {
		t.Fatalf("harness reader disagrees with its golden vectors: %v", err)
	}
	evid.Eval(1)
}

// The parameter-set side of the oracle reads the real captures from ipchub's
// own tests to the values those tests state (width/height) and VPS and SPS of
// one capture carry the same profile_tier_level.
func TestReaderOnRepositoryParameterSets(t *testing.T) {
	for _, p := range h265Sets {
		s, err := flvparse.ParseHEVCSPSHead(p.SPS)
		if err != nil {
			t.Fatalf("%s: SPS: %v", p.Name, err)
		}
		if int(s.Width) != p.Width || int(s.Height) < p.Height || int(s.Height) >= p.Height+64 {
			t.Fatalf("%s: SPS read as %dx%d, the repository test states %dx%d", p.Name, s.Width, s.Height, p.Width, p.Height)
		}
		// Main profile (general_profile_idc 1) is 4:2:0 8 bit by definition (H.265 A.3.2)
		if s.PTL.ProfileIDC == 1 && (s.ChromaFormatIDC != 1 || s.BitDepthLumaM8 != 0 || s.BitDepthChromaM8 != 0) {
			t.Fatalf("%s: Main-profile SPS read as chroma_format_idc %d, bit depths %d/%d", p.Name, s.ChromaFormatIDC, s.BitDepthLumaM8+8, s.BitDepthChromaM8+8)
		}
		t.Logf("%s: %+v", p.Name, s)
		v, _, err := flvparse.ParseHEVCVPSPTL(p.VPS)
		if err != nil {
			t.Fatalf("%s: VPS: %v", p.Name, err)
		}
		if v != s.PTL {
			t.Fatalf("%s: VPS profile_tier_level %+v differs from the SPS's %+v", p.Name, v, s.PTL)
		}
		evid.Eval(1)
	}
	// the synthetic families (lib/h26xps encoders) read back to what they were built from
	for _, y := range []SynthPS{{W: 1920, H: 1080, Profile: 2, Level: 123, Tier: true, Depth: 2}, {W: 34, H: 18, Profile: 1, Level: 30, Flags: 1 << 29, Interl: true}} {
		p := y.build("H265")
		s, err := flvparse.ParseHEVCSPSHead(p.SPS)
		if err != nil || int(s.PTL.ProfileIDC) != y.Profile || int(s.PTL.LevelIDC) != y.Level || (s.PTL.TierFlag == 1) != y.Tier || int(s.BitDepthLumaM8) != y.Depth ||
			int(s.Width) != (y.W+7)/8*8 || int(s.Height) != (y.H+7)/8*8 || s.ChromaFormatIDC != 1 {
			t.Fatalf("synthetic %+v read back as %+v, %v", y, s, err)
		}
		if v, _, err := flvparse.ParseHEVCVPSPTL(p.VPS); err != nil || v != s.PTL {
			t.Fatalf("synthetic %+v: VPS PTL %+v, SPS PTL %+v, %v", y, v, s.PTL, err)
		}
		evid.Eval(1)
	}
	for _, p := range h264Sets {
		if p.SPS[0]&0x1F != 7 || p.PPS[0]&0x1F != 8 {
			t.Fatalf("%s: not an SPS/PPS pair: %x %x", p.Name, p.SPS[0], p.PPS[0])
		}
	}
}
