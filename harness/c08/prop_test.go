// C08 — FLV output is valid FLV and carries the source frames faithfully.
//
// Generated codec.Frame sequences (H.264 / H.265, with and without AAC) go
//
//	(A) synchronously through flv.NewH264Packetizer / NewH265Packetizer /
//	    NewAacPacketizer into flv.Writer, from the start and from any tag,
//	(B) through flv.NewMuxer → the stream's tag cache (media/cache.FlvCache,
//	    wired exactly as media.Stream.WriteFlvTag / startConsume do) →
//	    flv.Writer, for clients joining before any tag of the stream,
//	(C) through a real media.Stream into service/flv.ConsumeByHTTP (see
//	    stream_test.go),
//
// and every client's bytes are judged by lib/flvparse, an FLV + AMF0 + ISO
// 14496-15 reader that shares no code with ipchub.
package c08

import (
	"bytes"
	"encoding/json"
	"fmt"
	"os"
	"sync"
	"sync/atomic"
	"testing"

	"github.com/cnotch/ipchub/av/format/flv"
	"github.com/cnotch/ipchub/media/cache"
	"github.com/cnotch/queue"
	"github.com/cnotch/xlog"
	"pgregory.net/rapid"

	"verif/harness/lib/evid"
)

func TestMain(m *testing.M) {
	if os.Getenv("C08_LOG") == "" {
		// ipchub logs every consumer start/stop; a lost tag is detected by the
		// oracle (tag-count), not by reading logs
		xlog.ReplaceGlobal(xlog.New(xlog.NewNopCore()))
	}
	installMuxHook()
	evid.Main(m, "C08")
}

const ruleText = "rapid-generated codec.Frame sequences (1..30 frames; H.264 NAL types 1,5,6,7,8,9 + rare others, H.265 types 0..9,16..21,32..40; NAL sizes 1 B..200 KB with 65535/65536/65537 forced; AAC AUs 1..6144 B; DTS bases 0, small, 2^24, 2^31, 2^32 (incl. exactly 2^32-1), k*2^32; PTS = DTS, +frames, sub-ms, < DTS, far; audio clock offset +-2 s from the video clock) fed to the packetisers+flv.Writer, to flv.Muxer+FlvCache+flv.Writer and to media.Stream+ConsumeByHTTP, clients joining at any tag with and without GOP cache; oracle = independent FLV/AMF0/14496-15 reader on each client's bytes; a case is non-trivial when it has >=1 key frame, >=1 frame with PTS != DTS and (a NAL > 64 KiB, or tag times crossing a 2^24/2^31/2^32 ms boundary, or a client that receives a tag older than its time origin)"

// ---------------------------------------------------------------------------
// running a scenario

type recorder struct {
	mu   sync.Mutex
	tags []*flv.Tag
	note chan struct{}
}

func (r *recorder) WriteFlvTag(t *flv.Tag) error {
	r.mu.Lock()
	r.tags = append(r.tags, t)
	r.mu.Unlock()
	if r.note != nil {
		select {
		case r.note <- struct{}{}:
		default:
		}
	}
	return nil
}

func (r *recorder) count() int {
	r.mu.Lock()
	defer r.mu.Unlock()
	return len(r.tags)
}

func (s *Scenario) typeFlags() byte {
	f := byte(flv.TypeFlagsVideo)
	if s.Audio {
		f |= flv.TypeFlagsAudio
	}
	return f
}

func (s *Scenario) configCount() int {
	if s.Audio {
		return 2
	}
	return 1
}

// packetize is layer A's producer: the packetisers called synchronously.
func packetize(s *Scenario) ([]*flv.Tag, *failure) {
	rec := &recorder{}
	var vp, ap flv.Packetizer
	vm := s.partialMeta()
	if s.Codec == "H265" {
		vp = flv.NewH265Packetizer(vm, rec)
	} else {
		vp = flv.NewH264Packetizer(vm, rec)
	}
	s.complete(vm) // the in-band parameter sets arrive before the first frame
	if err := vp.PacketizeSequenceHeader(); err != nil {
		return nil, failf("packetizer-error", "video PacketizeSequenceHeader: %v", err)
	}
	if s.Audio {
		ap = flv.NewAacPacketizer(s.audioMeta(), rec)
		if err := ap.PacketizeSequenceHeader(); err != nil {
			return nil, failf("packetizer-error", "audio PacketizeSequenceHeader: %v", err)
		}
	}
	if n := rec.count(); n != s.configCount() {
		return nil, failf("tag-count", "sequence headers produced %d tags, want %d", n, s.configCount())
	}
	for i, f := range s.Frames {
		var err error
		if f.Audio {
			err = ap.Packetize(s.codecFrame(f))
		} else {
			err = vp.Packetize(s.codecFrame(f))
		}
		if err != nil {
			return nil, failf("packetizer-error", "frame %d: Packetize: %v", i, err)
		}
		if n := rec.count(); n != s.configCount()+i+1 {
			return nil, failf("tag-count", "frame %d produced %d tags, want exactly one", i, n-s.configCount()-i)
		}
	}
	return rec.tags, nil
}

// mux is layer B's producer: flv.Muxer with its own goroutine. Every frame
// must come out as one tag, after metadata and configuration.
func mux(s *Scenario) ([]*flv.Tag, byte, *failure) {
	rec := &recorder{}
	vm := s.partialMeta()
	m, err := flv.NewMuxer(vm, s.audioMeta(), rec, xlog.L())
	if err != nil {
		return nil, 0, failf("muxer-error", "NewMuxer: %v", err)
	}
	defer muxPops.Delete(m)
	defer m.Close()
	for i, f := range s.Frames {
		if i == s.AudioLead {
			// the leading audio frames have been converted (or dropped) by now;
			// then the in-band parameter sets arrive, before the first video frame
			if i > 0 && !waitFor(func() bool { return popCount(m) >= i+1 }) {
				return nil, 0, failf("tag-count", "the muxer goroutine took %d of %d frames and then nothing for 30 s", popCount(m)-1, i)
			}
			s.complete(vm)
		}
		if err := m.WriteFrame(s.codecFrame(f)); err != nil {
			return nil, 0, failf("muxer-error", "WriteFrame: %v", err)
		}
	}
	// every frame has been taken off the queue and converted when the goroutine
	// reaches its schedule point before the (len+1)-th pop
	if !waitFor(func() bool { return popCount(m) >= len(s.Frames)+1 }) {
		return nil, 0, failf("tag-count", "the muxer goroutine took %d of %d frames and then nothing for 30 s (%d tags produced)", popCount(m)-1, len(s.Frames), rec.count())
	}
	rec.mu.Lock()
	defer rec.mu.Unlock()
	return append([]*flv.Tag(nil), rec.tags...), m.TypeFlags(), nil
}

// muxPops counts, per flv.Muxer, how often its goroutine reached the schedule
// point "flvmux.before-pop" (build tag verif): k+1 visits = k frames converted.
var muxPops sync.Map // *flv.Muxer -> *int64
var lastNewMuxer atomic.Value

func installMuxHook() {
	flv.VerifSetSched(func(name string, obj interface{}) {
		if name != "flvmux.before-pop" {
			return
		}
		c, loaded := muxPops.LoadOrStore(obj, new(int64))
		if !loaded {
			lastNewMuxer.Store(obj)
		}
		atomic.AddInt64(c.(*int64), 1)
	})
}

func popCount(m interface{}) int {
	if c, ok := muxPops.Load(m); ok {
		return int(atomic.LoadInt64(c.(*int64)))
	}
	return 0
}

func write(flags byte, tags []*flv.Tag) ([]byte, *failure) {
	var buf bytes.Buffer
	w, err := flv.NewWriter(&buf, flags)
	if err != nil {
		return nil, failf("writer-error", "NewWriter(%#x): %v", flags, err)
	}
	for i, t := range tags {
		if err := w.WriteFlvTag(t); err != nil {
			return nil, failf("writer-error", "WriteFlvTag %d: %v", i, err)
		}
	}
	return buf.Bytes(), nil
}

// joinThroughCache reproduces what media.Stream does for one consumer
// (stream.go: WriteFlvTag → flvCache.CachePack + SendToAll; startConsume →
// flvCache.PushTo(queue) then live tags; httpflv.go: every pack → flv.Writer).
func joinThroughCache(flags byte, tags []*flv.Tag, j Join) ([]byte, *failure) {
	c := cache.NewFlvCache(j.CacheGop)
	for i := 0; i < j.At; i++ {
		c.CachePack(tags[i])
	}
	q := queue.NewSyncQueue()
	c.PushTo(q)
	var toClient []*flv.Tag
	for q.Len() > 0 {
		toClient = append(toClient, q.Pop().(*flv.Tag))
	}
	for i := j.At; i < len(tags); i++ {
		c.CachePack(tags[i])
		toClient = append(toClient, tags[i])
	}
	return write(flags, toClient)
}

// expectJoin is the reference of what such a client is owed: the most recent
// metadata and configuration tags, with GOP cache the tags since the last key
// frame, then everything published from the join on.
func expectJoin(s *Scenario, withMeta bool, j Join) (exp []expTag, zeroBase bool, gopLen int) {
	var stream []expTag
	if withMeta {
		stream = append(stream, expTag{Kind: kMeta})
	}
	stream = append(stream, expTag{Kind: kVideoConfig})
	if s.Audio {
		stream = append(stream, expTag{Kind: kAudioConfig})
	}
	for i := range s.Frames {
		k := kVideo
		if s.Frames[i].Audio {
			k = kAudio
		}
		stream = append(stream, expTag{Kind: k, Frame: &s.Frames[i]})
	}
	for i := range stream {
		stream[i].Src = i
	}
	var gop []expTag
	for i := 0; i < j.At && i < len(stream); i++ {
		e := stream[i]
		switch {
		case e.Kind == kMeta || e.Kind == kVideoConfig || e.Kind == kAudioConfig:
			exp = append(exp, e)
		case !j.CacheGop:
		case e.Kind == kVideo && s.isKey(*e.Frame):
			gop = append(gop[:0], e)
		case len(gop) > 0:
			gop = append(gop, e)
		}
	}
	exp = append(exp, gop...)
	if j.At < len(stream) {
		exp = append(exp, stream[j.At:]...)
	}
	return exp, len(gop) == 0, len(gop)
}

type caseStats struct {
	key, ptsNeDts, ptsBack, big, tiny, boundary, older, first32, ext24, aacHdr bool
	views                                                                      int
	gopJoin, midJoin, lead, leadDropped, magicAU, magicNal                     bool
}

func (s *Scenario) staticStats() caseStats {
	var c caseStats
	first := true
	var firstMs int64
	for _, f := range s.Frames {
		if !f.Audio {
			if s.isKey(f) {
				c.key = true
			}
			if f.Magic > 0 {
				c.magicNal = true
			}
			if f.Pts != f.Dts {
				c.ptsNeDts = true
			}
			if f.Pts < f.Dts {
				c.ptsBack = true
			}
			if f.Size > 65536 {
				c.big = true
			}
			if (s.Codec == "H264" && f.Size == 1) || (s.Codec == "H265" && f.Size == 2) {
				c.tiny = true
			}
		}
		if f.Audio && f.Magic > 0 {
			c.magicAU = true
		}
		m := tagMillis(f)
		if first {
			first, firstMs = false, m
			if uint32(m) == 0xFFFFFFFF {
				c.first32 = true
				c.boundary = true
			}
		} else if m>>24 != firstMs>>24 || m>>31 != firstMs>>31 {
			c.boundary = true
		}
	}
	return c
}

// runScenario executes the whole case and returns the first failure.
func runScenario(s *Scenario) (*failure, caseStats) {
	cs := s.staticStats()
	var judgeOn func(es *Scenario, v *clientView) *failure
	judge := func(v *clientView) *failure { return judgeOn(s, v) }
	judgeOn = func(es *Scenario, v *clientView) *failure {
		fl, st := checkClient(es, v)
		cs.views++
		if st.Older > 0 {
			cs.older = true
		}
		if st.Wrapped32 {
			cs.boundary = true
		}
		if st.Ext24 {
			cs.ext24 = true
		}
		if st.AACHeaderNotAF {
			cs.aacHdr = true
		}
		return fl
	}
	switch s.Layer {
	case "packetizer":
		tags, fl := packetize(s)
		if fl != nil {
			return fl, cs
		}
		n := s.configCount()
		// the packetiser's own contract on the Tag it hands over (tag.go: Timestamp
		// is the 32-bit millisecond clock): decode time in ms, modulo 2^32
		for i, f := range s.Frames {
			if got, want := tags[n+i].Timestamp, uint32(tagMillis(f)); got != want {
				return failf("tag-timestamp", "frame %d (audio=%v, DTS %d ns): Tag.Timestamp %d, decode time in ms mod 2^32 is %d", i, f.Audio, f.Dts, got, want), cs
			}
		}
		b, fl := write(s.typeFlags(), tags)
		if fl != nil {
			return fl, cs
		}
		exp, _, _ := expectJoin(s, false, Join{At: 0})
		if fl := judge(&clientView{Name: "whole stream", Bytes: b, Expected: exp, ZeroBase: true}); fl != nil {
			return fl, cs
		}
		for _, j := range s.Joins {
			if j.At < n || j.At >= len(tags) {
				continue
			}
			var in []*flv.Tag
			var e []expTag
			zero := false
			if j.Mode != "media-only" {
				// the configuration tags as a stream cache re-stamps them for a joiner
				// (flvcache.go PushTo: the first cached tag's time, or 0 without cache)
				stamp := uint32(0)
				if j.Mode == "restamp-first" {
					stamp = tags[j.At].Timestamp
				} else {
					zero = true
				}
				for i := 0; i < n; i++ {
					c := *tags[i]
					c.Timestamp = stamp
					in = append(in, &c)
					e = append(e, exp[i])
				}
			}
			in = append(in, tags[j.At:]...)
			e = append(e, exp[j.At:]...)
			b, fl := write(s.typeFlags(), in)
			if fl != nil {
				return fl, cs
			}
			cs.midJoin = true
			if fl := judge(&clientView{Name: fmt.Sprintf("writer started at tag %d (%s)", j.At, j.Mode), Bytes: b, Expected: e, ZeroBase: zero}); fl != nil {
				return fl, cs
			}
		}
	case "muxer":
		tags, flags, fl := mux(s)
		if fl != nil {
			return fl, cs
		}
		if flags != s.typeFlags() {
			return failf("type-flags", "Muxer.TypeFlags() = %#02x, stream has video and audio=%v", flags, s.Audio), cs
		}
		// frames that reached the muxer ahead of the parameter sets may have been
		// dropped (all of them) or kept for after the configuration tags
		es := s
		if s.AudioLead > 0 && len(tags) != 1+s.configCount()+len(s.Frames) {
			c := *s
			c.Frames = s.Frames[s.AudioLead:]
			es = &c
			cs.leadDropped = true
		}
		joins := s.Joins
		if s.AudioLead > 0 {
			cs.lead = true
			joins = append([]Join{{At: 0, Mode: "cache"}}, joins...) // the client that was attached all along
		}
		for _, j := range joins {
			if j.At > len(tags) {
				j.At = len(tags)
			}
			b, fl := joinThroughCache(flags, tags, j)
			if fl != nil {
				return fl, cs
			}
			exp, zero, gopLen := expectJoin(es, true, j)
			if gopLen > 1 {
				cs.gopJoin = true
			}
			if j.At > 1+s.configCount() {
				cs.midJoin = true
			}
			if fl := judgeOn(es, &clientView{Name: fmt.Sprintf("client joining before stream tag %d (cache_gop=%v)", j.At, j.CacheGop), Bytes: b, Expected: exp, ZeroBase: zero}); fl != nil {
				return fl, cs
			}
		}
	default:
		panic("unknown layer " + s.Layer)
	}
	return nil, cs
}

func record(s *Scenario, cs caseStats) {
	evid.Eval(1)
	evid.Class("layer:" + s.Layer + "/" + s.Codec + fmt.Sprintf("/audio=%v", s.Audio))
	evid.Class("base:" + s.Base)
	evid.Class(fmt.Sprintf("param-sets:synthetic=%v", s.Synth != nil))
	if s.Late != "" {
		evid.Class("late-param-sets:" + s.Late)
	}
	evid.ClassN("client-views", int64(cs.views))
	for name, on := range map[string]bool{
		"has-key-frame": cs.key, "pts!=dts": cs.ptsNeDts, "pts<dts": cs.ptsBack, "nal>64KiB": cs.big, "nal-minimal-size": cs.tiny,
		"time-boundary-crossed": cs.boundary, "older-than-origin-tag": cs.older, "first-tag-ms=2^32-1": cs.first32,
		"join-with-cached-gop": cs.gopJoin, "aac-frame-starts-like-other-framing": cs.magicAU, "nal-payload-starts-like-other-framing": cs.magicNal, "audio-ahead-of-parameter-sets": cs.lead, "audio-ahead-of-parameter-sets:dropped": cs.leadDropped, "timestamp-extended-byte-written": cs.ext24, "observed:aac-tag-header-not-0xAF(not judged)": cs.aacHdr, "join-mid-stream": cs.midJoin,
	} {
		if on {
			evid.Class(name)
		}
	}
	if cs.key && cs.ptsNeDts && (cs.big || cs.boundary || cs.older) {
		b, _ := json.Marshal(s)
		evid.Nontrivial(evid.FP(b))
		label := "nontrivial:"
		switch {
		case cs.older:
			label += "older-tag"
		case cs.boundary:
			label += "boundary"
		default:
			label += "big-nal"
		}
		evid.Class(label)
		if evid.WantSample(label) {
			evid.Sample(label, s.summary())
		}
	}
}

func verdict(t evid.TB, s *Scenario) {
	fl, cs := runScenario(s)
	if fl != nil {
		evid.Violation(t, fl.Check, s, "%s — %s", s.summary(), fl.Msg)
	}
	record(s, cs)
}

// ---------------------------------------------------------------------------
// properties

func drawJoins(t *rapid.T, s *Scenario) {
	n := rapid.IntRange(1, 4).Draw(t, "joins")
	total := s.configCount() + len(s.Frames)
	if s.Layer == "muxer" {
		total++
	}
	for i := 0; i < n; i++ {
		j := Join{At: rapid.IntRange(0, total).Draw(t, "joinAt")}
		if s.Layer == "muxer" {
			j.CacheGop = rapid.Bool().Draw(t, "cacheGop")
			j.Mode = "cache"
		} else {
			j.Mode = rapid.SampledFrom([]string{"media-only", "restamp-zero", "restamp-first"}).Draw(t, "joinMode")
		}
		s.Joins = append(s.Joins, j)
	}
}

func propLayer(layer, codecName string, audio, synth bool) func(t *rapid.T) {
	return func(t *rapid.T) {
		s := drawScenario(t, layer, codecName, audio, &synth)
		drawJoins(t, s)
		verdict(t, s)
	}
}

// eight parallel subtests per layer: codec × audio × (captured | synthetic parameter sets)
var layerConfigs = []struct {
	codec        string
	audio, synth bool
}{{"H264", false, false}, {"H264", true, false}, {"H265", false, false}, {"H265", true, false},
	{"H264", false, true}, {"H264", true, true}, {"H265", false, true}, {"H265", true, true}}

func TestPacketizers(t *testing.T) {
	evid.Rule(ruleText)
	evid.Assume("AAC frames carry PTS = DTS (aac_depacketizer.go always sets both to the same value); DTS >= 0; consecutive tags of one client are less than 2^31 ms apart")
	evid.Assume("H.265 key frame = IRAP with nal_unit_type 16..21 (BLA_W_LP, BLA_W_RADL, BLA_N_LP, IDR_W_RADL, IDR_N_LP, CRA_NUT), all six generated; the reserved IRAP types 22/23 (RSV_IRAP_VCL22/23, H.265 Table 7-1: reserved, decoders ignore them, no conforming stream of the current edition carries them) are not generated and not judged")
	evid.Assume("AAC frames that reach the muxer before the in-band parameter sets are known may be dropped or delivered after the configuration tags (the statement fixes neither); they must never precede metadata or configuration")
	evid.Checks(1200, 20000)
	for _, c := range layerConfigs {
		c := c
		t.Run(fmt.Sprintf("%s-audio=%v-synthetic=%v", c.codec, c.audio, c.synth), func(t *testing.T) {
			t.Parallel()
			rapid.Check(t, propLayer("packetizer", c.codec, c.audio, c.synth))
		})
	}
}

func TestMuxerJoin(t *testing.T) {
	evid.Rule(ruleText)
	evid.Checks(1000, 15000)
	for _, c := range layerConfigs {
		c := c
		t.Run(fmt.Sprintf("%s-audio=%v-synthetic=%v", c.codec, c.audio, c.synth), func(t *testing.T) {
			t.Parallel()
			rapid.Check(t, propLayer("muxer", c.codec, c.audio, c.synth))
		})
	}
}

// TestReplayFile re-runs one saved scenario without rapid.
func TestReplayFile(t *testing.T) {
	p := os.Getenv("VERIF_REPLAY_FILE")
	if p == "" {
		t.Skip("no replay file")
	}
	b, err := os.ReadFile(p)
	if err != nil {
		t.Fatal(err)
	}
	var doc struct {
		Case Scenario `json:"case"`
	}
	if err := json.Unmarshal(b, &doc); err != nil {
		t.Fatal(err)
	}
	s := doc.Case
	var fl *failure
	if s.Layer == "stream" {
		fl, _ = runStreamScenario(&s)
	} else if s.Layer == "rtp" {
		fl = runRTPScenario(&s)
	} else {
		fl, _ = runScenario(&s)
	}
	if fl != nil {
		t.Fatalf("%s: %s — %s", fl.Check, s.summary(), fl.Msg)
	}
}
