package c08

import (
	"encoding/base64"
	"encoding/hex"
	"fmt"

	"pgregory.net/rapid"

	"github.com/cnotch/ipchub/av/codec"

	"verif/harness/lib/h26xps"
)

// ---------------------------------------------------------------------------
// Parameter sets: the real captures that ship in ipchub's own tests
// (/repo/av/codec/h264/sps_test.go, /repo/av/codec/hevc/{sps,vps}_test.go,
// /repo/av/format/sdp/*_test.go, /repo/media/stream_test.go).

func b64(s string) []byte {
	b, err := base64.StdEncoding.DecodeString(s)
	if err != nil {
		panic(err)
	}
	// some captures carry an Annex-B start code; a parameter set inside
	// VideoMeta is the bare NAL unit
	for len(b) > 3 && b[0] == 0 && b[1] == 0 && (b[2] == 1 || (b[2] == 0 && b[3] == 1)) {
		if b[2] == 1 {
			b = b[3:]
		} else {
			b = b[4:]
		}
	}
	return b
}

type paramSet struct {
	Name          string
	VPS, SPS, PPS []byte
	Width, Height int
	FrameRate     float64
}

var h264Sets = []paramSet{
	{Name: "game-720p-high", SPS: b64("Z2QAH6zZQFAFuhAAAAMAEAAAAwPI8YMZYA=="), PPS: b64("aO+8sA=="), Width: 1280, Height: 720, FrameRate: 30},
	{Name: "music-540p-main", SPS: b64("Z01AH6sSB4CL9wgAAAMACAAAAwGUeMGMTA=="), PPS: b64("aO+8sA=="), Width: 960, Height: 540, FrameRate: 25},
	{Name: "4k-high", SPS: b64("Z2QAM6wspADwAQ+wFSAgICgAAB9IAAdTBO0LFok="), PPS: b64("aOtzUlA="), Width: 3840, Height: 2160, FrameRate: 29.97},
	{Name: "tpl500-576p", SPS: b64("AAAAAWdkAB6s0gLASaEAAAMAAQAAAwAehA=="), PPS: b64("aO+8sA=="), Width: 704, Height: 576, FrameRate: 15},
	{Name: "high422-720p", SPS: b64("Z3oAH7y0AoAt0IAAAAMAgAAAHkeMGVA="), PPS: b64("aO8Pyw=="), Width: 1280, Height: 720, FrameRate: 30},
}

var h265Sets = []paramSet{
	{Name: "main-720p", VPS: b64("QAEMAf//AWAAAAMAkAAAAwAAAwBdlZgJ"), SPS: b64("QgEBAWAAAAMAkAAAAwAAAwBdoAKAgC0WWVmkkyuAQAAA+kAAF3AC"), PPS: b64("RAHBcrRiQA=="), Width: 1280, Height: 720, FrameRate: 23.976},
	{Name: "rext-720p", VPS: b64("QAEMAf//BAgAAAMAnQgAAAMAAF2VmAk="), SPS: b64("QgEBBAgAAAMAnQgAAAMAAF2wAoCALRZZWaSTK4BAAAADAEAAAAeC"), PPS: b64("RAHBcrRiQA=="), Width: 1280, Height: 720, FrameRate: 30},
	{Name: "tpl500-1620p", VPS: b64("AAAAAUABDAH//wFgAAADAAADAAADAAADAJasCQ=="), SPS: b64("AAAAAUIBAQFgAAADAAADAAADAAADAJagAWggBln3ja5JMmuWMAgAAAMACAAAAwB4QA=="), PPS: b64("AAAAAUQB4HawJkA="), Width: 2880, Height: 1620, FrameRate: 15},
	{Name: "rext-sdp", VPS: b64("QAEMAf//BAgAAAMAnQgAAAMAAF26AkA="), SPS: b64("QgEBBAgAAAMAnQgAAAMAAF2wAoCALRZbqSTK4BAAAAMAEAAAAwHggA=="), PPS: b64("RAHBcrRiQA=="), Width: 1280, Height: 720, FrameRate: 30},
}

type ascSet struct {
	Name       string
	ASC        []byte
	SampleRate int
	Channels   int
}

func unhex(s string) []byte {
	b, err := hex.DecodeString(s)
	if err != nil {
		panic(err)
	}
	return b
}

// /repo/av/codec/aac/asc_test.go plus the plain AAC-LC mono form of the first.
var ascSets = []ascSet{
	{Name: "lc-44100-stereo", ASC: unhex("121056E500"), SampleRate: 44100, Channels: 2},
	{Name: "lc-48000-stereo", ASC: unhex("1190"), SampleRate: 48000, Channels: 2},
	{Name: "lc-44100-mono", ASC: unhex("1208"), SampleRate: 44100, Channels: 1},
}

// ---------------------------------------------------------------------------
// Source model

// Frame is one codec.Frame of the scenario. The payload is a pure function of
// (Codec, Audio, NalType, NRI, Size, Seed) so that a scenario replays from JSON.
type Frame struct {
	Audio   bool   `json:"audio,omitempty"`
	NalType int    `json:"nal_type"`
	NRI     int    `json:"nri"`
	Size    int    `json:"size"`
	Seed    uint32 `json:"seed"`
	Dts     int64  `json:"dts_ns"`
	Pts     int64  `json:"pts_ns"`
	// Raw, when set, is the payload itself (in-band parameter sets of layer C-RTP)
	Raw []byte `json:"raw,omitempty"`
	// Magic (1-based index into magicPrefixes, 0 = none): the payload starts
	// (audio: at byte 0; video: right after the NAL header) with a byte pattern
	// that looks like some other framing. A raw AAC access unit and a NAL
	// payload are arbitrary bytes; nothing may be "recognised" and stripped.
	Magic int `json:"magic,omitempty"`
}

// Join is one client: it joins just before the stream's tag number At is
// published (0 = before anything), on a stream with or without GOP cache.
type Join struct {
	At       int  `json:"at"`
	CacheGop bool `json:"cache_gop"`
	// Mode: "cache" (layers B, C: through the stream's FlvCache); layer A:
	// "media-only" (a Writer fed from a media tag on), "restamp-zero" /
	// "restamp-first" (configuration tags re-stamped 0 / with the first tag's time, then media)
	Mode string `json:"mode"`
	WS   bool   `json:"websocket,omitempty"` // layer C: ws-flv instead of http-flv
}

// SynthPS describes a parameter-set family built with the harness's own
// bit-exact encoders (lib/h26xps, anchored on the repository's captures): a
// valid Baseline/Main/Extended/High SPS + PPS, or a Main / Main 10 VPS + SPS +
// PPS, of the given size, profile, level and compatibility/constraint flags.
type SynthPS struct {
	W       int    `json:"w"`
	H       int    `json:"h"`
	Profile int    `json:"profile"`
	Level   int    `json:"level"`
	Flags   uint32 `json:"flags"` // H.264: constraint_set0..5 (bit 0 = set0); H.265: extra profile_compatibility bits
	Tier    bool   `json:"tier,omitempty"`
	Depth   int    `json:"depth_minus8,omitempty"`
	Interl  bool   `json:"interlaced_source,omitempty"`
}

// Scenario is a whole case.
type Scenario struct {
	Layer string   `json:"layer"`
	Codec string   `json:"codec"` // "H264" | "H265"
	PS    int      `json:"param_set"`
	Synth *SynthPS `json:"synth,omitempty"` // when set, used instead of the capture PS
	Audio bool     `json:"audio"`
	ASC   int      `json:"asc"`
	// Late: the parameter sets known when the muxer / packetiser / stream is
	// constructed are incomplete or wrong and are completed before the first
	// frame is written, the way the RTP depacketisers do it from in-band units
	// (rtp/h264_depacketizer.go writeFrame + metaStuck): "" (complete from the
	// start), "no-pps" (SDP with SPS only, legal per RFC 6184 §8.2.1),
	// "truncated-sps" (replaced in band), "sps-only" (H.265 sprop-sps without
	// sprop-vps / sprop-pps), "nothing".
	Late string `json:"late_param_sets,omitempty"`
	// AudioLead (with Late and Audio): the first AudioLead frames are AAC frames
	// that reach the muxer BEFORE the parameter sets are completed — the RTP
	// depacketiser holds video back until the sets are known, audio is forwarded
	// at once. Such frames may be dropped or delivered after the configuration
	// tags (the statement fixes neither), but never ahead of them.
	AudioLead int     `json:"audio_lead,omitempty"`
	Base      string  `json:"time_base_class"`
	Frames    []Frame `json:"frames"`
	Joins     []Join  `json:"joins"`
}

func (s *Scenario) paramSet() paramSet {
	if s.Synth != nil {
		return s.Synth.build(s.Codec)
	}
	if s.Codec == "H265" {
		return h265Sets[s.PS%len(h265Sets)]
	}
	return h264Sets[s.PS%len(h264Sets)]
}

func (y *SynthPS) build(codecName string) paramSet {
	p := paramSet{Name: fmt.Sprintf("synth-%dx%d-p%d-l%d-f%x", y.W, y.H, y.Profile, y.Level, y.Flags), Width: y.W, Height: y.H, FrameRate: 25}
	if codecName == "H265" {
		ptl := h26xps.H265PTL{General: h26xps.H265ProfileInfo{
			TierFlag:   y.Tier,
			ProfileIdc: uint32(y.Profile),
			// profile_compatibility_flag[j] is bit 31-j; the stream's own profile is always flagged (A.3)
			CompatibilityFlags: uint32(1)<<(31-uint(y.Profile)) | y.Flags,
			ProgressiveSource:  !y.Interl,
			InterlacedSource:   y.Interl,
			FrameOnlyConstr:    !y.Interl,
		}, GeneralLevelIdc: uint32(y.Level)}
		v := h26xps.NewH265VPS()
		v.PTL = ptl
		sp := h26xps.NewH265SPS(y.W, y.H)
		sp.PTL = ptl
		sp.BitDepthLumaMinus8, sp.BitDepthChromaMinus8 = uint32(y.Depth), uint32(y.Depth)
		p.VPS, p.SPS, p.PPS = v.Encode(), sp.Encode(), h26xps.MinimalH265PPS()
		return p
	}
	sp := h26xps.NewH264SPS(y.W, y.H)
	sp.ProfileIdc, sp.LevelIdc = uint32(y.Profile), uint32(y.Level)
	for i := range sp.ConstraintSetFlag {
		sp.ConstraintSetFlag[i] = y.Flags>>uint(i)&1 == 1
	}
	if h26xps.HasChromaInfo(sp.ProfileIdc) {
		sp.ChromaFormatIdc = 1
		sp.BitDepthLumaMinus8, sp.BitDepthChromaMinus8 = uint32(y.Depth), uint32(y.Depth)
	}
	p.SPS, p.PPS = sp.Encode(), h26xps.MinimalH264PPS()
	return p
}

func drawSynth(t *rapid.T, codecName string) *SynthPS {
	y := &SynthPS{
		W: 2 * rapid.IntRange(8, 2048).Draw(t, "synthHalfW"),
		H: 2 * rapid.IntRange(8, 1152).Draw(t, "synthHalfH"),
	}
	if codecName == "H265" {
		y.Profile = rapid.SampledFrom([]int{1, 1, 2}).Draw(t, "synthProfile")
		y.Level = rapid.SampledFrom([]int{30, 60, 63, 90, 93, 120, 123, 150, 153, 156, 180, 183, 186}).Draw(t, "synthLevel")
		y.Tier = y.Level >= 120 && rapid.Bool().Draw(t, "synthTier")
		if y.Profile == 1 {
			y.Flags = uint32(1) << (31 - 2) // a Main stream is also a Main 10 stream
		} else {
			y.Depth = rapid.SampledFrom([]int{0, 2}).Draw(t, "synthDepth")
		}
		y.Interl = rapid.IntRange(0, 4).Draw(t, "synthInterlaced") == 0
		return y
	}
	y.Profile = rapid.SampledFrom([]int{66, 77, 88, 100, 110}).Draw(t, "synthProfile")
	y.Level = rapid.SampledFrom([]int{10, 11, 12, 13, 20, 21, 22, 30, 31, 32, 40, 41, 42, 50, 51, 52}).Draw(t, "synthLevel")
	y.Flags = uint32(rapid.IntRange(0, 63).Draw(t, "synthConstraints"))
	if y.Profile == 110 {
		y.Depth = rapid.SampledFrom([]int{0, 2}).Draw(t, "synthDepth")
	}
	return y
}

func (s *Scenario) asc() ascSet { return ascSets[s.ASC%len(ascSets)] }

func (s *Scenario) videoMeta() *codec.VideoMeta {
	p := s.paramSet()
	return &codec.VideoMeta{Codec: s.Codec, Width: p.Width, Height: p.Height, FrameRate: p.FrameRate, FixedFrameRate: true,
		DataRate: 2500, ClockRate: 90000, Sps: p.SPS, Pps: p.PPS, Vps: p.VPS}
}

// partialMeta returns what is known at construction time under s.Late (the
// same *VideoMeta is completed later by complete, as the depacketiser mutates
// the stream's VideoMeta in place).
func (s *Scenario) partialMeta() *codec.VideoMeta {
	m := s.videoMeta()
	if s.Late == "" {
		return m
	}
	m.Width, m.Height, m.FrameRate, m.FixedFrameRate = 0, 0, 0, false
	switch s.Late {
	case "no-pps":
		m.Pps = nil
	case "truncated-sps":
		m.Sps = append([]byte(nil), m.Sps[:len(m.Sps)/2]...)
	case "sps-only":
		m.Pps, m.Vps = nil, nil
	case "nothing":
		m.Sps, m.Pps, m.Vps = nil, nil, nil
	default:
		panic("unknown Late " + s.Late)
	}
	return m
}

// complete installs the stream's actual parameter sets (and what
// h264/hevc.MetadataIsReady derives from them) into m.
func (s *Scenario) complete(m *codec.VideoMeta) {
	f := s.videoMeta()
	m.Sps, m.Pps, m.Vps = f.Sps, f.Pps, f.Vps
	m.Width, m.Height, m.FrameRate, m.FixedFrameRate = f.Width, f.Height, f.FrameRate, f.FixedFrameRate
}

var lateKinds = []string{"no-pps", "truncated-sps", "sps-only", "nothing"}

func (s *Scenario) audioMeta() *codec.AudioMeta {
	if !s.Audio {
		return &codec.AudioMeta{}
	}
	a := s.asc()
	return &codec.AudioMeta{Codec: "AAC", SampleRate: a.SampleRate, SampleSize: 16, Channels: a.Channels, DataRate: 128, Sps: a.ASC}
}

// payload builds the frame's bytes: NAL header per H.264 §7.3.1 / H.265
// §7.3.1.2 (forbidden_zero_bit 0), then a xorshift fill.
func (s *Scenario) payload(f Frame) []byte {
	if f.Raw != nil {
		return f.Raw
	}
	b := make([]byte, f.Size)
	x := f.Seed*2654435761 + 0x9E3779B9
	if x == 0 {
		x = 1
	}
	for i := range b {
		x ^= x << 13
		x ^= x >> 17
		x ^= x << 5
		b[i] = byte(x >> 11)
	}
	hdr := 0
	if !f.Audio && f.Size > 0 {
		if s.Codec == "H265" {
			b[0] = byte(f.NalType&0x3F) << 1 // nuh_layer_id = 0
			if len(b) > 1 {
				b[1] = 1 + byte(f.NRI&1) // nuh_temporal_id_plus1 ∈ {1,2}
			}
			hdr = 2
		} else {
			b[0] = byte(f.NRI&3)<<5 | byte(f.NalType&0x1F)
			hdr = 1
		}
	}
	if f.Magic > 0 && hdr < len(b) {
		copy(b[hdr:], magicPrefixes[(f.Magic-1)%len(magicPrefixes)])
	}
	return b
}

// magicPrefixes: byte patterns with which other framings announce themselves.
var magicPrefixes = [][]byte{
	{0xFF, 0xF1}, {0xFF, 0xF9}, {0xFF, 0xF0}, {0xFF, 0xF8}, // ADTS syncword, MPEG-4/-2, without/with CRC (ISO 14496-3 1.A.2.2.1)
	{0xFF, 0xF1, 0x50, 0x80, 0x02, 0x1F, 0xFC}, // a complete, plausible ADTS header (LC, 44.1 kHz, stereo)
	{'I', 'D', '3'},                              // ID3v2 tag
	{0x00, 0x00, 0x00, 0x01}, {0x00, 0x00, 0x01}, // Annex-B start codes
	{0xFF, 0xFB},          // MPEG-1 layer III sync
	{0x56, 0xE0},          // LATM/LOAS sync (ISO 14496-3 1.7.2)
	{'F', 'L', 'V', 0x01}, // FLV signature
	{0x00, 0x00, 0x00, 0x00, 0x00, 0x00, 0x00, 0x00, 0x00}, // zeros
	{0xFF, 0xFF, 0xFF, 0xFF, 0xFF, 0xFF, 0xFF, 0xFF, 0xFF},
}

func (s *Scenario) codecFrame(f Frame) *codec.Frame {
	mt := codec.MediaTypeVideo
	if f.Audio {
		mt = codec.MediaTypeAudio
	}
	return &codec.Frame{MediaType: mt, Dts: f.Dts, Pts: f.Pts, Payload: s.payload(f)}
}

// isKey: H.264 IDR slice (nal_unit_type 5, Table 7-1); H.265 IRAP
// (nal_unit_type 16..21: BLA_W_LP … CRA_NUT, Table 7-1).
func (s *Scenario) isKey(f Frame) bool {
	if f.Audio {
		return false
	}
	if s.Codec == "H265" {
		return f.NalType >= 16 && f.NalType <= 21
	}
	return f.NalType == 5
}

// tagMillis is the decode time of the frame in whole milliseconds (for AAC
// frames decode and presentation time coincide).
func tagMillis(f Frame) int64 { return f.Dts / 1e6 }

// ---------------------------------------------------------------------------
// Generators

const ms = int64(1e6)

var h264Types = []int{1, 1, 1, 1, 5, 5, 6, 7, 8, 9}
var h264Rare = []int{2, 3, 4, 10, 11, 13, 14, 15, 19, 20}
var h265Types = []int{0, 1, 1, 1, 1, 19, 19, 20, 21, 16, 17, 18, 32, 33, 34, 35, 39, 40}
var h265Rare = []int{2, 3, 4, 5, 6, 7, 8, 9, 36, 37, 38}

// drawSize: the distribution deliberately hits the extremes the property
// names (1 byte, the 16-bit boundary, beyond 64 KiB).
func drawSize(t *rapid.T, min int, label string) int {
	switch rapid.IntRange(0, 19).Draw(t, label+"Class") {
	case 0:
		return min
	case 1:
		return min + rapid.IntRange(0, 4).Draw(t, label)
	case 2:
		return rapid.SampledFrom([]int{255, 256, 257, 1400, 4095, 4096}).Draw(t, label)
	case 3:
		return rapid.SampledFrom([]int{65535, 65536, 65537}).Draw(t, label)
	case 4:
		return rapid.IntRange(65538, 200000).Draw(t, label)
	case 5, 6:
		return rapid.IntRange(1000, 20000).Draw(t, label)
	default:
		return rapid.IntRange(min, 600).Draw(t, label)
	}
}

// forceSynth: nil = draw whether the parameter sets are a repository capture or
// a synthetic family; otherwise fixed (the property tests split on it to run
// more subtests in parallel).
func drawScenario(t *rapid.T, layer, codecName string, audio bool, forceSynth *bool) *Scenario {
	s := &Scenario{Layer: layer, Codec: codecName, Audio: audio}
	s.PS = rapid.IntRange(0, 7).Draw(t, "paramSet")
	if forceSynth == nil && rapid.IntRange(0, 2).Draw(t, "synthetic") == 0 || forceSynth != nil && *forceSynth {
		s.Synth = drawSynth(t, codecName)
	}
	if audio {
		s.ASC = rapid.IntRange(0, len(ascSets)-1).Draw(t, "asc")
	}
	if rapid.IntRange(0, 3).Draw(t, "lateParamSets") == 0 {
		s.Late = rapid.SampledFrom(lateKinds).Draw(t, "lateKind")
	}
	// time base of the video clock, in ms
	s.Base = rapid.SampledFrom([]string{"zero", "small", "small", "ext24", "b31", "b32", "b32", "b32exact", "multi"}).Draw(t, "base")
	var baseMs int64
	switch s.Base {
	case "zero":
		baseMs = 0
	case "small":
		baseMs = rapid.Int64Range(0, 200000).Draw(t, "baseMs")
	case "ext24": // Timestamp UI24 / TimestampExtended boundary
		baseMs = 1<<24 - rapid.Int64Range(0, 1500).Draw(t, "baseBack")
	case "b31":
		baseMs = 1<<31 - rapid.Int64Range(0, 1500).Draw(t, "baseBack")
	case "b32":
		baseMs = 1<<32 - rapid.Int64Range(0, 1500).Draw(t, "baseBack")
	case "b32exact":
		baseMs = 1<<32 - 1
	case "multi":
		baseMs = rapid.Int64Range(1, 3).Draw(t, "baseWraps")<<32 + rapid.Int64Range(-1500, 1500).Draw(t, "baseOff")
	}
	vdts := baseMs*ms + rapid.Int64Range(0, ms-1).Draw(t, "baseSubMs")
	// the audio clock has its own base (the two depacketisers use different
	// time bases): up to 2 s before or after the video clock, never negative
	aoff := rapid.Int64Range(-2000, 2000).Draw(t, "audioOffMs")*ms + rapid.Int64Range(0, ms-1).Draw(t, "audioSubMs")
	adts := vdts + aoff
	if adts < 0 {
		adts = vdts
	}
	astep := int64(1024) * 1e9 / int64(s.asc().SampleRate)

	n := rapid.IntRange(1, 30).Draw(t, "frames")
	types, rare := h264Types, h264Rare
	min := 1
	if codecName == "H265" {
		types, rare = h265Types, h265Rare
		min = 2
	}
	vstep := rapid.SampledFrom([]int64{40 * ms, 33366667, 66733333, 20 * ms, 1 * ms, 1000 * ms}).Draw(t, "vstep")
	if layer == "muxer" && audio && s.Late != "" && rapid.Bool().Draw(t, "audioLeads") {
		s.AudioLead = rapid.IntRange(1, 4).Draw(t, "audioLead")
		n += s.AudioLead
	}
	for i := 0; i < n; i++ {
		if audio && (i < s.AudioLead || rapid.IntRange(0, 9).Draw(t, "isAudio") < 4) {
			sz := rapid.SampledFrom([]int{1, 2, 7, 180, 371, 372, 1024, 6144}).Draw(t, "auSize")
			magic := 0
			if rapid.IntRange(0, 2).Draw(t, "auMagic") == 0 {
				// an access unit that starts like an ADTS / ID3 / start-code / MP3 / LATM
				// header, in every length from 1 to 9 and some longer ones
				magic = rapid.IntRange(1, len(magicPrefixes)).Draw(t, "auMagicPrefix")
				sz = rapid.SampledFrom([]int{1, 2, 3, 4, 5, 6, 7, 8, 9, 10, 16, 200}).Draw(t, "auMagicSize")
			}
			s.Frames = append(s.Frames, Frame{Audio: true, Size: sz, Magic: magic, Seed: rapid.Uint32().Draw(t, "seed"), Dts: adts, Pts: adts})
			adts += astep * rapid.Int64Range(1, 3).Draw(t, "auGap")
			continue
		}
		f := Frame{Seed: rapid.Uint32().Draw(t, "seed"), NRI: rapid.IntRange(0, 3).Draw(t, "nri")}
		if rapid.IntRange(0, 19).Draw(t, "rareType") == 0 {
			f.NalType = rapid.SampledFrom(rare).Draw(t, "nalType")
		} else {
			f.NalType = rapid.SampledFrom(types).Draw(t, "nalType")
		}
		f.Size = drawSize(t, min, "nalSize")
		if rapid.IntRange(0, 5).Draw(t, "nalMagic") == 0 {
			// NAL payload bytes that look like a start code or another framing
			f.Magic = rapid.IntRange(1, len(magicPrefixes)).Draw(t, "nalMagicPrefix")
			if rapid.Bool().Draw(t, "nalMagicShort") {
				f.Size = min + rapid.IntRange(0, 10).Draw(t, "nalMagicSize")
			}
		}
		f.Dts = vdts
		switch rapid.IntRange(0, 9).Draw(t, "ptsClass") {
		case 0, 1, 2, 3:
			f.Pts = f.Dts
		case 4, 5: // reordering delay of whole frames
			f.Pts = f.Dts + vstep*rapid.Int64Range(1, 4).Draw(t, "ptsFrames")
		case 6: // sub-millisecond difference: exercises the two truncations
			f.Pts = f.Dts + rapid.Int64Range(-ms+1, ms-1).Draw(t, "ptsSubMs")
		case 7, 8: // PTS < DTS
			f.Pts = f.Dts - rapid.Int64Range(1, 200*ms).Draw(t, "ptsBack")
		default: // large positive offset
			f.Pts = f.Dts + rapid.Int64Range(1, 8000*ms).Draw(t, "ptsFar")
		}
		s.Frames = append(s.Frames, f)
		// several NAL units of one access unit share a DTS; otherwise the clock advances
		switch rapid.IntRange(0, 11).Draw(t, "stepClass") {
		case 0, 1:
		case 2:
			vdts += rapid.Int64Range(1, 120*1000*ms).Draw(t, "bigStep")
		case 3:
			// a gap in the source (both clocks move): up to 2^30 ms, so that a
			// client's relative time needs TimestampExtended while consecutive
			// tags stay less than 2^31 ms apart
			gap := rapid.Int64Range(1<<23, 1<<30).Draw(t, "gapMs") * ms
			vdts += gap
			adts += gap
		default:
			vdts += vstep + rapid.Int64Range(-20000, 20000).Draw(t, "jitter")
		}
	}
	return s
}

func (s *Scenario) summary() string {
	v, a, k := 0, 0, 0
	for _, f := range s.Frames {
		if f.Audio {
			a++
		} else {
			v++
			if s.isKey(f) {
				k++
			}
		}
	}
	return fmt.Sprintf("%s/%s ps=%s late=%q lead=%d audio=%v base=%s video=%d(key %d) audio=%d joins=%v", s.Layer, s.Codec, s.paramSet().Name, s.Late, s.AudioLead, s.Audio, s.Base, v, k, a, s.Joins)
}
