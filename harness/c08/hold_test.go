package c08

import (
	"bufio"
	"bytes"
	"fmt"
	"io"
	"net"
	"net/http"
	"net/http/httptest"
	"os"
	"sync"
	"sync/atomic"
	"testing"
	"time"

	"github.com/cnotch/ipchub/config"
	"github.com/cnotch/ipchub/media"
	flvsvc "github.com/cnotch/ipchub/service/flv"
	"github.com/cnotch/xlog"

	"verif/harness/lib/evid"
	"verif/harness/lib/flvparse"
)

// Clients that fall behind: a joiner whose delivery goroutine is held while the
// publisher goes on (long cached GOP, > 1000 tags queued at join time), and an
// HTTP-FLV player on a real socket that stops reading for a while. Tags may
// legitimately be dropped for such a client (the backlog rule of
// media/consumption.go, property C04), so these checks judge what ARRIVES:
// the stream must still open with metadata and configuration, every tag must
// parse, and every media tag must be one of the source frames, in order, with
// the right flags, composition time and timestamp.

// matchReceived builds the expected list for a client that may have been
// skipped over some source frames: metadata/configuration as published, then
// each received media tag is paired with the next source frame of the same kind
// and payload (in order; a tag that matches no remaining frame is a violation).
func matchReceived(s *Scenario, name string, body []byte) ([]expTag, *failure) {
	f, err := flvparse.Parse(body)
	if err != nil {
		return nil, failf("flv-structure", "%s: the byte stream does not parse as FLV: %v", name, err)
	}
	all, _, _ := expectJoin(s, true, Join{At: 0})
	hdr := 1 + s.configCount()
	exp := append([]expTag(nil), all[:hdr]...)
	next := hdr
	for i, t := range f.Tags {
		if i < hdr {
			continue // judged positionally by checkClient: metadata, video config, (AAC config)
		}
		var payload []byte
		switch t.Type {
		case flvparse.TagVideo:
			if len(t.Data) < 9 {
				return nil, failf("video-tag", "%s: tag %d: video tag of %d bytes", name, i, len(t.Data))
			}
			payload = t.Data[9:]
		case flvparse.TagAudio:
			if len(t.Data) < 2 {
				return nil, failf("audio-tag", "%s: tag %d: audio tag of %d bytes", name, i, len(t.Data))
			}
			payload = t.Data[2:]
		default:
			return nil, failf("order", "%s: tag %d: script tag after the media has begun", name, i)
		}
		found := -1
		for k := next; k < len(all); k++ {
			fr := all[k].Frame
			if fr.Audio == (t.Type == flvparse.TagAudio) && fr.Size == len(payload) && bytes.Equal(s.payload(*fr), payload) {
				found = k
				break
			}
		}
		if found < 0 {
			return nil, failf("nal-payload", "%s: tag %d (type %d, %d payload bytes, timestamp %d) is none of the %d source frames that follow the previous tag's frame — invented, duplicated, reordered or damaged", name, i, t.Type, len(payload), t.Timestamp, len(all)-next)
		}
		exp = append(exp, all[found])
		next = found + 1
	}
	return exp, nil
}

func waitForD(d time.Duration, cond func() bool) bool {
	deadline := time.Now().Add(d)
	for i := 0; ; i++ {
		if cond() {
			return true
		}
		if time.Now().After(deadline) {
			return false
		}
		if i < 200 {
			time.Sleep(50 * time.Microsecond)
		} else {
			time.Sleep(time.Millisecond)
		}
	}
}

// longGopScenario: key frame, n small frames (P slices and AAC frames), key
// frame + 5, key frame + 3.
func longGopScenario(layer, codecName string, n int) (*Scenario, int, int) {
	s := &Scenario{Layer: layer, Codec: codecName, Audio: true, PS: n, ASC: n, Base: "long-gop"}
	keyType, min := 5, 1
	if codecName == "H265" {
		keyType, min = 19, 2
	}
	vd, ad := int64(5000*ms), int64(4990*ms)
	video := func(typ, size int) {
		s.Frames = append(s.Frames, Frame{NalType: typ, NRI: 2, Size: min + size, Seed: uint32(len(s.Frames)), Dts: vd, Pts: vd + 40*ms, Magic: len(s.Frames) % 17})
		vd += 10 * ms
	}
	audio := func() {
		s.Frames = append(s.Frames, Frame{Audio: true, Size: 5 + len(s.Frames)%40, Seed: uint32(len(s.Frames)), Dts: ad, Pts: ad, Magic: len(s.Frames) % 15})
		ad += 23 * ms
	}
	video(keyType, 40)
	for i := 0; i < n; i++ {
		if i%3 == 2 {
			audio()
		} else {
			video(1, 10+i%50)
		}
	}
	k2 := len(s.Frames)
	video(keyType, 41)
	for i := 0; i < 5; i++ {
		video(1, 100+i)
	}
	k3 := len(s.Frames)
	video(keyType, 42)
	for i := 0; i < 3; i++ {
		video(1, 200+i)
	}
	return s, k2, k3
}

// Layer B: joins on a cached GOP of more than 1000 tags.
func TestLongGopJoinCache(t *testing.T) {
	evid.Rule("long cached GOP (enumerated): GOPs of 1001, 1500 and 3000 small tags (P slices + AAC), H.264 and H.265; layer B clients join on the cache one tag before the next key frame, right after it and at the end; layer C: the joiner's delivery goroutine is held at its first pop (schedule point consume.before-pop) while the publisher sends the next key frame and five more tags, then released; what arrives must open with metadata + configuration and be source frames in order")
	var n int64
	for _, codecName := range []string{"H264", "H265"} {
		for _, gop := range []int{1001, 1500, 3000} {
			s, k2, k3 := longGopScenario("muxer", codecName, gop)
			hdr := 1 + s.configCount()
			s.Joins = []Join{
				{At: hdr + k2, CacheGop: true, Mode: "cache"},     // just before the next key frame: the whole GOP is owed
				{At: hdr + k2 - 1, CacheGop: true, Mode: "cache"}, // one tag earlier
				{At: hdr + k2 + 1, CacheGop: true, Mode: "cache"}, // right after it
				{At: hdr + k3 + 2, CacheGop: true, Mode: "cache"},
				{At: hdr + k2, CacheGop: false, Mode: "cache"},
			}
			if fl, _ := runScenario(s); fl != nil {
				evid.Violation(t, "long-gop-"+fl.Check, s, "%s — %s", s.summary(), fl.Msg)
			}
			n += int64(len(s.Joins))
			evid.Class(fmt.Sprintf("long-gop:layer-B/%s/gop=%d", codecName, gop))
		}
	}
	evid.Eval(n)
	evid.NontrivialN(n)
}

// Layer C: the real media.Stream; the joiner's delivery goroutine is held.
func TestStreamLongGopJoinHeld(t *testing.T) {
	var n int64
	for _, codecName := range []string{"H264", "H265"} {
		for _, gop := range []int{1001, 2200} {
			for _, ws := range []bool{false, true} {
				s, k2, k3 := longGopScenario("held-join", codecName, gop)
				if fl := runHeldJoin(s, k2, k3, ws); fl != nil {
					evid.Violation(t, "held-join-"+fl.Check, s, "%s websocket=%v — %s", s.summary(), ws, fl.Msg)
				}
				n++
				evid.Class(fmt.Sprintf("long-gop:layer-C-held/%s/gop=%d/ws=%v", codecName, gop, ws))
			}
		}
	}
	evid.Eval(n)
	evid.NontrivialN(n)
}

func runHeldJoin(s *Scenario, k2, k3 int, ws bool) *failure {
	config.VerifSet("", false, true, "", 0)
	streamSeq++
	path := fmt.Sprintf("/c08/held%d", streamSeq)
	mxBefore := lastNewMuxer.Load()
	st := media.NewStream(path, s.sdp())
	if st.FlvTypeFlags() == 0 {
		return failf("stream-setup", "media.NewStream did not create an FLV muxer")
	}
	media.Regist(st)
	defer media.Unregist(st)
	if !waitFor(func() bool { return lastNewMuxer.Load() != mxBefore }) {
		return failf("stream-setup", "the stream's FLV muxer goroutine did not start")
	}
	mx := lastNewMuxer.Load()
	probe := &countingConsumer{}
	probeCID := st.StartConsume(probe, media.FLVPacket, "c08-probe")

	var holding, heldCount int32
	gate := make(chan struct{})
	media.VerifSetSched(func(name string, obj interface{}) {
		if name != "consume.before-pop" || atomic.LoadInt32(&holding) == 0 {
			return
		}
		if cid, ok := media.VerifConsumptionCID(obj); ok && cid != probeCID {
			atomic.AddInt32(&heldCount, 1)
			<-gate
		}
	})
	defer media.VerifSetSched(nil)
	var release sync.Once
	defer release.Do(func() { atomic.StoreInt32(&holding, 0); close(gate) })

	hdr := 1 + s.configCount()
	written := 0
	publish := func(upTo int) *failure {
		for ; written < upTo; written++ {
			if err := st.WriteFrame(s.codecFrame(s.Frames[written])); err != nil {
				return failf("muxer-error", "Stream.WriteFrame: %v", err)
			}
		}
		if !waitFor(func() bool { return popCount(mx) >= written+1 && probe.count() >= hdr+written }) {
			return failf("tag-count", "pipeline stalled: %d frames written, muxer took %d, probe consumer received %d tags", written, popCount(mx)-1, probe.count())
		}
		return nil
	}
	// 1. the long GOP is published and cached
	if fl := publish(k2); fl != nil {
		return fl
	}
	// 2. the player joins; its delivery goroutine is held before its first pop,
	//    the queue holds metadata, configuration and the whole GOP
	atomic.StoreInt32(&holding, 1)
	c := &httpClient{hdr: http.Header{}, done: make(chan struct{}), ws: ws}
	go func() {
		defer close(c.done)
		if ws {
			flvsvc.ConsumeByWebsocket(xlog.L(), path, "c08", &wsConn{httpClient: c, closed: make(chan struct{})})
		} else {
			flvsvc.ConsumeByHTTP(xlog.L(), path, "c08", c)
		}
	}()
	if !waitFor(func() bool { return atomic.LoadInt32(&heldCount) >= 1 && st.ConsumerCount() >= 2 }) {
		return failf("stream-setup", "the joining consumer did not reach its first pop")
	}
	// 3. the next key frame and five more tags are broadcast meanwhile
	if fl := publish(k3); fl != nil {
		return fl
	}
	// 4. the player is released and works through its queue
	release.Do(func() { atomic.StoreInt32(&holding, 0); close(gate) })
	owed := hdr + k2
	waitForD(5*time.Second, func() bool { return c.tagCount() >= owed }) // not a verdict: the oracle below judges what arrived
	// 5. a further key frame picks the player up again if it had been skipped
	if fl := publish(len(s.Frames)); fl != nil {
		return fl
	}
	last := s.payload(s.Frames[len(s.Frames)-1])
	gotLast := func() bool {
		f, err := flvparse.ParsePrefix(c.snapshot())
		if err != nil || len(f.Tags) == 0 {
			return err != nil // a stream that no longer parses is judged below
		}
		d := f.Tags[len(f.Tags)-1].Data
		return len(d) == 9+len(last) && bytes.Equal(d[9:], last)
	}
	if !waitFor(gotLast) {
		return failf("tag-count", "the client never received the stream's last frame: %d tags arrived", c.tagCount())
	}
	name := fmt.Sprintf("FLV client (websocket=%v) joining a cached GOP of %d tags, held while the next key frame was published", ws, k2)
	body := c.snapshot()
	exp, fl := matchReceived(s, name, body)
	if fl != nil {
		return fl
	}
	if fl, _ := checkClient(s, &clientView{Name: name, Bytes: body, Expected: exp}); fl != nil {
		return fl
	}
	// C04's rule for the part the client was skipped over: a gap begins at a key frame
	for i := hdr + 1; i < len(exp); i++ {
		if exp[i].Src != exp[i-1].Src+1 && !(exp[i].Kind == kVideo && s.isKey(*exp[i].Frame)) {
			return failf("drop-boundary", "%s: after stream tag %d the client received stream tag %d, which is not a key frame", name, exp[i-1].Src, exp[i].Src)
		}
	}
	return nil
}

// Layer C on real sockets: an HTTP-FLV player that stops reading for a while.
func TestStreamHTTPFlvStalledClient(t *testing.T) {
	evid.Rule("stalled HTTP-FLV player (real TCP socket behind net/http, client SO_RCVBUF 64 KiB): the player sends GET, does not read for 1.5 s while ~12 MiB of video are published, then reads to the end; the HTTP chunk framing and the FLV framing must be intact and every tag that arrives must be a source frame, in order, with the right timestamp")
	for _, codecName := range []string{"H264", "H265"} {
		s := &Scenario{Layer: "stalled-http", Codec: codecName, PS: 1, Base: "stalled"}
		keyType, min := 5, 1
		if codecName == "H265" {
			keyType, min = 19, 2
		}
		for i := 0; i < 600; i++ {
			typ := 1
			if i%50 == 0 {
				typ = keyType
			}
			d := int64(i) * 40 * ms
			s.Frames = append(s.Frames, Frame{NalType: typ, NRI: 2, Size: min + 20000 + i, Seed: uint32(i), Dts: d, Pts: d + int64(i%2)*40*ms})
		}
		if fl := runStalledClient(s); fl != nil {
			evid.Violation(t, "stalled-"+fl.Check, s.summary(), "%s — %s", s.summary(), fl.Msg)
		}
		evid.Eval(1)
		evid.NontrivialN(1)
		evid.Class("stalled-http-client/" + codecName)
	}
}

func runStalledClient(s *Scenario) *failure {
	config.VerifSet("", false, false, "", 0)
	streamSeq++
	path := fmt.Sprintf("/c08/stall%d", streamSeq)
	st := media.NewStream(path, s.sdp())
	if st.FlvTypeFlags() == 0 {
		return failf("stream-setup", "media.NewStream did not create an FLV muxer")
	}
	media.Regist(st)
	unregistered := false
	defer func() {
		if !unregistered {
			media.Unregist(st)
		}
	}()
	srv := httptest.NewServer(http.HandlerFunc(func(w http.ResponseWriter, r *http.Request) {
		flvsvc.ConsumeByHTTP(xlog.L(), path, r.RemoteAddr, w)
	}))
	defer srv.Close()

	conn, err := net.Dial("tcp", srv.Listener.Addr().String())
	if err != nil {
		return failf("stream-setup", "dial: %v", err)
	}
	defer conn.Close()
	conn.(*net.TCPConn).SetReadBuffer(64 << 10)
	fmt.Fprintf(conn, "GET %s.flv HTTP/1.1\r\nHost: c08\r\nConnection: close\r\n\r\n", path)
	if !waitFor(func() bool { return st.ConsumerCount() >= 1 }) {
		return failf("stream-setup", "the player did not attach")
	}
	total := 13
	for _, f := range s.Frames {
		if err := st.WriteFrame(s.codecFrame(f)); err != nil {
			return failf("muxer-error", "Stream.WriteFrame: %v", err)
		}
		total += 11 + 9 + f.Size + 4
	}
	time.Sleep(1500 * time.Millisecond) // the player is busy elsewhere; this is the stimulus, not a verdict

	var raw bytes.Buffer
	var mu sync.Mutex
	readDone := make(chan error, 1)
	go func() {
		buf := make([]byte, 256<<10)
		for {
			conn.SetReadDeadline(time.Now().Add(20 * time.Second))
			n, err := conn.Read(buf)
			mu.Lock()
			raw.Write(buf[:n])
			mu.Unlock()
			if err != nil {
				readDone <- err
				return
			}
		}
	}()
	// once the media bytes are through (or nothing moves any more) the stream ends
	size := func() int { mu.Lock(); defer mu.Unlock(); return raw.Len() }
	t0 := time.Now()
	ok := waitForD(20*time.Second, func() bool { return size() >= total })
	if os.Getenv("C08_LOG") != "" {
		fmt.Println("stalled: reached", ok, size(), total, time.Since(t0))
	}
	for prev := -1; prev != size(); { // let the tail arrive: no growth for 200 ms
		prev = size()
		time.Sleep(200 * time.Millisecond)
	}
	media.Unregist(st)
	unregistered = true
	select {
	case err := <-readDone:
		if err != io.EOF {
			return failf("http-framing", "reading the response ended with %v instead of the server closing it", err)
		}
	case <-time.After(30 * time.Second):
		return failf("http-framing", "the server did not finish the response after the stream was closed")
	}
	mu.Lock()
	wire := append([]byte(nil), raw.Bytes()...)
	mu.Unlock()
	resp, err := http.ReadResponse(bufio.NewReader(bytes.NewReader(wire)), nil)
	if err != nil {
		return failf("http-framing", "the response does not parse: %v", err)
	}
	body, err := io.ReadAll(resp.Body)
	if err != nil {
		return failf("http-framing", "the response body (%d bytes on the wire, %d decoded) is not intact: %v", len(wire), len(body), err)
	}
	if resp.StatusCode != 200 || resp.Header.Get("Content-Type") != "video/x-flv" {
		return failf("http-header", "status %d, Content-Type %q", resp.StatusCode, resp.Header.Get("Content-Type"))
	}
	name := "stalled HTTP-FLV player on a real socket"
	exp, fl := matchReceived(s, name, body)
	if fl != nil {
		return fl
	}
	if len(exp) < 1+s.configCount()+1 {
		return failf("tag-count", "%s: only %d tags arrived", name, len(exp))
	}
	fl, _ = checkClient(s, &clientView{Name: name, Bytes: body, Expected: exp, ZeroBase: true})
	return fl
}
