package c08

import (
	"bytes"
	"fmt"

	"verif/harness/lib/flvparse"
)

type kind int

const (
	kMeta kind = iota
	kVideoConfig
	kAudioConfig
	kVideo
	kAudio
)

func (k kind) String() string {
	return [...]string{"metadata", "video-config", "aac-config", "video", "audio"}[k]
}

// expTag is what the client must find at one position of its stream.
type expTag struct {
	Kind  kind
	Frame *Frame // media tags: the source frame
	Src   int    // index of the stream tag this is (for messages)
}

// clientView is everything the oracle needs to judge one client's byte stream.
type clientView struct {
	Name     string
	Bytes    []byte
	Expected []expTag
	// ZeroBase: the client's first tag is a metadata / configuration tag that
	// the server stamped 0 (it has no decode time of its own). The statement
	// fixes "the client's first tag is zero" and "decode time rebased" but not
	// which instant a time-less first tag stands for, so the rebasing constant
	// may then be 0 or the first media tag's decode time.
	ZeroBase bool
	// NoTimes: the decode / presentation times of the source frames are not
	// known to the harness (layer C-RTP: the depacketiser derives them from the
	// wall clock), so composition time and the timeline are not judged beyond
	// "first tag zero".
	NoTimes bool
}

type failure struct {
	Check string
	Msg   string
}

func failf(check, format string, a ...any) *failure {
	return &failure{Check: check, Msg: fmt.Sprintf(format, a...)}
}

// viewStats is what one verdict contributes to the evidence.
type viewStats struct {
	Older      int  // media tags older than the rebasing instant
	Wrapped32  bool // some expected timestamp crossed a multiple of 2^32 relative to another
	Ext24      bool // some written timestamp needed TimestampExtended
	MediaFirst bool // the client's first tag is a media tag
	// AACHeaderNotAF: an AAC tag whose SoundRate/SoundType bits are not 3/1.
	// Annex E.4.2.1 says "for AAC: always 3" / "always 1" (players ignore the
	// bits); the property statement does not mention them, so this is counted,
	// not judged.
	AACHeaderNotAF bool
}

func floorDiv(a, b int64) int64 {
	q := a / b
	if a%b != 0 && (a < 0) != (b < 0) {
		q--
	}
	return q
}

func ceilDiv(a, b int64) int64 { return -floorDiv(-a, b) }

// checkClient is the oracle: exactly the statement of C08, applied to the bytes
// one client received, read by the independent FLV/AMF0 reader.
func checkClient(s *Scenario, v *clientView) (*failure, viewStats) {
	var st viewStats
	f, err := flvparse.Parse(v.Bytes)
	if err != nil {
		return failf("flv-structure", "%s: the byte stream does not parse as FLV: %v", v.Name, err), st
	}
	// E.2: TypeFlagsVideo always (the stream has video), TypeFlagsAudio iff AAC
	if !f.HasVideo || f.HasAudio != s.Audio {
		return failf("type-flags", "%s: header type flags %#02x (video=%v audio=%v), stream has video and audio=%v", v.Name, f.Flags, f.HasVideo, f.HasAudio, s.Audio), st
	}
	if len(f.Tags) != len(v.Expected) {
		return failf("tag-count", "%s: client received %d tags, %d were published to it (%s)", v.Name, len(f.Tags), len(v.Expected), describe(f.Tags, v.Expected)), st
	}
	ps := s.paramSet()
	lengthSize := 0
	seenVideoCfg, seenAudioCfg, seenMeta := false, false, false
	// a view without configuration tags is a Writer-level probe (a stream of
	// media tags only); ipchub's packetisers always use 4-byte NAL lengths there
	wantMeta, wantVCfg, wantACfg := false, false, false
	for _, e := range v.Expected {
		switch e.Kind {
		case kMeta:
			wantMeta = true
		case kVideoConfig:
			wantVCfg = true
		case kAudioConfig:
			wantACfg = true
		}
	}
	if !wantVCfg {
		lengthSize = 4
	}
	var out []uint32 // written timestamps of media tags
	var real []int64 // their decode times, ms
	firstMedia := -1
	for i, t := range f.Tags {
		e := v.Expected[i]
		if t.Timestamp > 0xFFFFFF {
			st.Ext24 = true
		}
		if t.Filter {
			return failf("tag-header", "%s: tag %d has the Filter (encrypted) bit set", v.Name, i), st
		}
		switch e.Kind {
		case kMeta:
			if t.Type != flvparse.TagScript {
				return failf("order", "%s: tag %d should be the metadata, is type %d", v.Name, i, t.Type), st
			}
			if fl := checkMetadata(s, t); fl != nil {
				fl.Msg = v.Name + ": " + fl.Msg
				return fl, st
			}
			seenMeta = true
		case kVideoConfig:
			if t.Type != flvparse.TagVideo {
				return failf("order", "%s: tag %d should be the video configuration, is type %d", v.Name, i, t.Type), st
			}
			if wantMeta && !seenMeta {
				return failf("order", "%s: video configuration (tag %d) before the metadata", v.Name, i), st
			}
			vd, err := flvparse.ParseVideo(t)
			if err != nil {
				return failf("video-config", "%s: tag %d: %v", v.Name, i, err), st
			}
			wantCodec := byte(flvparse.CodecAVC)
			if s.Codec == "H265" {
				wantCodec = flvparse.CodecHEVC
			}
			if vd.CodecID != wantCodec || vd.PacketType != flvparse.PacketSequenceHeader || vd.FrameType != flvparse.FrameKey {
				return failf("video-config", "%s: tag %d: frame type %d codec %d packet type %d, want key frame (1), codec %d, sequence header (0)", v.Name, i, vd.FrameType, vd.CodecID, vd.PacketType, wantCodec), st
			}
			var fl *failure
			if s.Codec == "H265" {
				lengthSize, fl = checkHVCC(ps, vd.Body)
			} else {
				lengthSize, fl = checkAVCC(ps, vd.Body)
			}
			if fl != nil {
				fl.Msg = fmt.Sprintf("%s: tag %d: %s", v.Name, i, fl.Msg)
				return fl, st
			}
			seenVideoCfg = true
		case kAudioConfig:
			if t.Type != flvparse.TagAudio {
				return failf("order", "%s: tag %d should be the AAC configuration, is type %d", v.Name, i, t.Type), st
			}
			if !seenVideoCfg {
				return failf("order", "%s: AAC configuration (tag %d) before the video configuration", v.Name, i), st
			}
			ad, err := flvparse.ParseAudio(t)
			if err != nil {
				return failf("aac-config", "%s: tag %d: %v", v.Name, i, err), st
			}
			if ad.SoundFormat != flvparse.SoundFormatAAC || ad.AACPacketType != flvparse.AACSequenceHeader {
				return failf("aac-config", "%s: tag %d: sound format %d packet type %d, want 10 / 0", v.Name, i, ad.SoundFormat, ad.AACPacketType), st
			}
			if !bytes.Equal(ad.Body, s.asc().ASC) {
				return failf("aac-config", "%s: tag %d: AudioSpecificConfig %x, the stream's is %x", v.Name, i, ad.Body, s.asc().ASC), st
			}
			seenAudioCfg = true
		case kVideo:
			if t.Type != flvparse.TagVideo {
				return failf("order", "%s: tag %d should be a video tag (stream tag %d), is type %d", v.Name, i, e.Src, t.Type), st
			}
			if (wantVCfg && !seenVideoCfg) || (wantACfg && !seenAudioCfg) || (wantMeta && !seenMeta) {
				return failf("order", "%s: media tag %d before metadata/configuration (metadata %v, video config %v, aac config %v)", v.Name, i, seenMeta, seenVideoCfg, seenAudioCfg), st
			}
			vd, err := flvparse.ParseVideo(t)
			if err != nil {
				return failf("video-tag", "%s: tag %d: %v", v.Name, i, err), st
			}
			wantCodec := byte(flvparse.CodecAVC)
			if s.Codec == "H265" {
				wantCodec = flvparse.CodecHEVC
			}
			if vd.CodecID != wantCodec || vd.PacketType != flvparse.PacketNALU {
				return failf("video-tag", "%s: tag %d: codec %d packet type %d, want %d / 1 (NALU)", v.Name, i, vd.CodecID, vd.PacketType, wantCodec), st
			}
			nals, err := vd.NALUs(lengthSize)
			if err != nil {
				return failf("nal-framing", "%s: tag %d (source NAL of %d bytes): %v", v.Name, i, e.Frame.Size, err), st
			}
			src := s.payload(*e.Frame)
			if len(nals) != 1 {
				return failf("nal-framing", "%s: tag %d holds %d NAL units, the source frame is one unit of %d bytes", v.Name, i, len(nals), len(src)), st
			}
			if !bytes.Equal(nals[0], src) {
				return failf("nal-payload", "%s: tag %d: NAL unit differs from the source (%d vs %d bytes, first difference at %d)", v.Name, i, len(nals[0]), len(src), firstDiff(nals[0], src)), st
			}
			key := s.isKey(*e.Frame)
			if key != (vd.FrameType == flvparse.FrameKey) || (vd.FrameType != flvparse.FrameKey && vd.FrameType != flvparse.FrameInter) {
				return failf("key-flag", "%s: tag %d: frame type %d for a source NAL of type %d (IDR/IRAP: %v)", v.Name, i, vd.FrameType, e.Frame.NalType, key), st
			}
			// composition offset = PTS − DTS in ms, ±1 for the two truncations
			d := e.Frame.Pts - e.Frame.Dts
			if lo, hi := floorDiv(d, ms)-1, ceilDiv(d, ms)+1; !v.NoTimes && (int64(vd.CompositionTime) < lo || int64(vd.CompositionTime) > hi) {
				return failf("composition-time", "%s: tag %d: composition time %d ms, PTS−DTS = %d ns (allowed %d..%d)", v.Name, i, vd.CompositionTime, d, lo, hi), st
			}
			if firstMedia < 0 {
				firstMedia = i
			}
			out = append(out, t.Timestamp)
			real = append(real, tagMillis(*e.Frame))
		case kAudio:
			if t.Type != flvparse.TagAudio {
				return failf("order", "%s: tag %d should be an audio tag (stream tag %d), is type %d", v.Name, i, e.Src, t.Type), st
			}
			if (wantVCfg && !seenVideoCfg) || (wantACfg && !seenAudioCfg) || (wantMeta && !seenMeta) {
				return failf("order", "%s: media tag %d before metadata/configuration (metadata %v, video config %v, aac config %v)", v.Name, i, seenMeta, seenVideoCfg, seenAudioCfg), st
			}
			ad, err := flvparse.ParseAudio(t)
			if err != nil {
				return failf("audio-tag", "%s: tag %d: %v", v.Name, i, err), st
			}
			if ad.SoundRate != 3 || ad.SoundType != 1 {
				st.AACHeaderNotAF = true
			}
			if ad.SoundFormat != flvparse.SoundFormatAAC || ad.AACPacketType != flvparse.AACRaw {
				return failf("audio-tag", "%s: tag %d: sound format %d packet type %d, want 10 / 1 (raw)", v.Name, i, ad.SoundFormat, ad.AACPacketType), st
			}
			if src := s.payload(*e.Frame); !bytes.Equal(ad.Body, src) {
				return failf("audio-payload", "%s: tag %d: AAC frame differs from the source (%d vs %d bytes, first difference at %d)", v.Name, i, len(ad.Body), len(src), firstDiff(ad.Body, src)), st
			}
			if firstMedia < 0 {
				firstMedia = i
			}
			out = append(out, t.Timestamp)
			real = append(real, tagMillis(*e.Frame))
		}
	}
	// --- timestamps ---------------------------------------------------------
	if len(f.Tags) == 0 {
		return nil, st
	}
	if f.Tags[0].Timestamp != 0 {
		return failf("first-tag-zero", "%s: the client's first tag (%s) has timestamp %d", v.Name, v.Expected[0].Kind, f.Tags[0].Timestamp), st
	}
	st.MediaFirst = firstMedia == 0
	if v.NoTimes {
		return nil, st
	}
	if firstMedia < 0 {
		for i, t := range f.Tags {
			if t.Timestamp != 0 {
				return failf("config-timestamp", "%s: %s tag %d has timestamp %d although no media tag was sent", v.Name, v.Expected[i].Kind, i, t.Timestamp), st
			}
		}
		return nil, st
	}
	// tags without a decode time precede all media; they must not be shown later
	// than the first media tag (in particular not as a wrapped value)
	for i := 0; i < firstMedia; i++ {
		if f.Tags[i].Timestamp > f.Tags[firstMedia].Timestamp {
			return failf("config-timestamp", "%s: %s tag %d has timestamp %d, the first media tag after it has %d", v.Name, v.Expected[i].Kind, i, f.Tags[i].Timestamp, f.Tags[firstMedia].Timestamp), st
		}
	}
	cands := []int64{real[0]}
	if v.ZeroBase && firstMedia > 0 {
		cands = []int64{0, real[0]}
	}
	var first *failure
	for _, c := range cands {
		fl, older, wrapped := checkTimeline(v.Name, out, real, c)
		if fl == nil {
			st.Older, st.Wrapped32 = older, wrapped
			return nil, st
		}
		if first == nil {
			first = fl
		}
	}
	return first, st
}

// checkTimeline: with rebasing constant c (ms), every media tag that is not
// older than c must read (decode time − c) mod 2^32; an older one must not be
// shown as a wrapped value, i.e. must not exceed the largest timestamp the
// client has already seen.
func checkTimeline(name string, out []uint32, real []int64, c int64) (*failure, int, bool) {
	older := 0
	wrapped := false
	var maxSeen uint32
	for i := range out {
		e := real[i] - c
		if e >= 0 {
			if e>>32 != 0 || real[i]>>32 != c>>32 {
				wrapped = true
			}
			if out[i] != uint32(e) {
				return failf("timestamp", "%s: media tag %d: timestamp %d, decode time %d ms rebased by %d ms is %d (mod 2^32: %d)", name, i, out[i], real[i], c, e, uint32(e)), 0, false
			}
		} else {
			older++
			if out[i] > maxSeen {
				return failf("older-tag-wrapped", "%s: media tag %d is %d ms older than the client's time origin (%d ms) and is shown with timestamp %d; the largest timestamp before it was %d", name, i, -e, c, out[i], maxSeen), 0, false
			}
		}
		if out[i] > maxSeen {
			maxSeen = out[i]
		}
	}
	return nil, older, wrapped
}

func firstDiff(a, b []byte) int {
	n := len(a)
	if len(b) < n {
		n = len(b)
	}
	for i := 0; i < n; i++ {
		if a[i] != b[i] {
			return i
		}
	}
	return n
}

func describe(tags []flvparse.Tag, exp []expTag) string {
	var b bytes.Buffer
	b.WriteString("received types")
	for i, t := range tags {
		if i >= 12 {
			b.WriteString(" …")
			break
		}
		fmt.Fprintf(&b, " %d", t.Type)
	}
	b.WriteString("; expected")
	for i, e := range exp {
		if i >= 12 {
			b.WriteString(" …")
			break
		}
		fmt.Fprintf(&b, " %s", e.Kind)
	}
	return b.String()
}

// checkMetadata: the script tag is the String "onMetaData" followed by an ECMA
// array (E.4.4.1, E.5) whose declared count equals its entries and which is
// terminated by 00 00 09 (the reader refuses anything else), carrying the
// stream's width / height / codec ids.
func checkMetadata(s *Scenario, t flvparse.Tag) *failure {
	sc, err := flvparse.ParseScript(t)
	if err != nil {
		return failf("metadata", "script tag does not parse: %v", err)
	}
	if sc.Name != "onMetaData" {
		return failf("metadata", "script tag name %q, want onMetaData", sc.Name)
	}
	if sc.Value.Type != flvparse.AMFECMAArray {
		return failf("metadata", "onMetaData value has AMF0 type %d, want ECMA array (8)", sc.Value.Type)
	}
	if int(sc.Value.Declared) != len(sc.Value.Props) {
		return failf("metadata", "ECMA array declares %d entries and holds %d", sc.Value.Declared, len(sc.Value.Props))
	}
	num := func(name string, want float64) *failure {
		p, ok := sc.Value.Get(name)
		if !ok || p.Type != flvparse.AMFNumber || p.Num != want {
			return failf("metadata", "%s = %+v (present %v), the stream's value is %v", name, p, ok, want)
		}
		return nil
	}
	ps := s.paramSet()
	vc := 7.0
	if s.Codec == "H265" {
		vc = 12
	}
	for _, c := range []struct {
		n string
		v float64
	}{{"width", float64(ps.Width)}, {"height", float64(ps.Height)}, {"videocodecid", vc}} {
		if fl := num(c.n, c.v); fl != nil {
			return fl
		}
	}
	if s.Audio {
		if fl := num("audiocodecid", 10); fl != nil {
			return fl
		}
		if p, ok := sc.Value.Get("stereo"); !ok || p.Type != flvparse.AMFBoolean || p.Bool != (s.asc().Channels > 1) {
			return failf("metadata", "stereo = %+v (present %v), the stream has %d channels", p, ok, s.asc().Channels)
		}
	} else if _, ok := sc.Value.Get("audiocodecid"); ok {
		return failf("metadata", "audiocodecid present on a stream without audio")
	}
	return nil
}

// checkAVCC: ISO 14496-15 §5.2.4.1: the record lists exactly the stream's SPS
// and PPS and repeats the SPS's profile_idc / constraint flags / level_idc
// (bytes 1..3 of the SPS NAL unit, H.264 §7.3.2.1.1).
func checkAVCC(ps paramSet, body []byte) (int, *failure) {
	c, err := flvparse.ParseAVCC(body)
	if err != nil {
		return 0, failf("avc-config", "AVCDecoderConfigurationRecord does not parse: %v", err)
	}
	if len(c.SPS) != 1 || !bytes.Equal(c.SPS[0], ps.SPS) {
		return 0, failf("avc-config", "record lists SPS %x, the stream's SPS is %x", c.SPS, ps.SPS)
	}
	if len(c.PPS) != 1 || !bytes.Equal(c.PPS[0], ps.PPS) {
		return 0, failf("avc-config", "record lists PPS %x, the stream's PPS is %x", c.PPS, ps.PPS)
	}
	if c.Profile != ps.SPS[1] || c.Compatibility != ps.SPS[2] || c.Level != ps.SPS[3] {
		return 0, failf("avc-config", "profile/compatibility/level %02x %02x %02x, the SPS says %02x %02x %02x", c.Profile, c.Compatibility, c.Level, ps.SPS[1], ps.SPS[2], ps.SPS[3])
	}
	return c.LengthSize, nil
}

// checkHVCC: ISO 14496-15 §8.3.3.1: exactly the stream's VPS, SPS, PPS, and the
// general profile/tier/level, chroma format and bit depths of the SPS.
func checkHVCC(ps paramSet, body []byte) (int, *failure) {
	c, err := flvparse.ParseHVCC(body)
	if err != nil {
		return 0, failf("hevc-config", "HEVCDecoderConfigurationRecord does not parse: %v", err)
	}
	for _, a := range c.Arrays {
		if a.NALType != 32 && a.NALType != 33 && a.NALType != 34 {
			return 0, failf("hevc-config", "record carries an array of NAL type %d", a.NALType)
		}
	}
	for _, w := range []struct {
		typ  byte
		name string
		nal  []byte
	}{{32, "VPS", ps.VPS}, {33, "SPS", ps.SPS}, {34, "PPS", ps.PPS}} {
		if got := c.NALs(w.typ); len(got) != 1 || !bytes.Equal(got[0], w.nal) {
			return 0, failf("hevc-config", "record lists %s %x, the stream's is %x", w.name, got, w.nal)
		}
	}
	sps, err := flvparse.ParseHEVCSPSHead(ps.SPS)
	if err != nil {
		panic(fmt.Sprintf("harness: stream SPS %x does not parse: %v", ps.SPS, err))
	}
	p := sps.PTL
	if c.ProfileSpace != p.ProfileSpace || c.TierFlag != p.TierFlag || c.ProfileIDC != p.ProfileIDC ||
		c.CompatibilityFlags != p.CompatibilityFlags || c.ConstraintFlags != p.ConstraintFlags || c.LevelIDC != p.LevelIDC {
		return 0, failf("hevc-config", "general profile/tier/level in the record: space %d tier %d idc %d compat %08x constraints %012x level %d; in the SPS: %+v",
			c.ProfileSpace, c.TierFlag, c.ProfileIDC, c.CompatibilityFlags, c.ConstraintFlags, c.LevelIDC, p)
	}
	if uint32(c.ChromaFormat) != sps.ChromaFormatIDC || uint32(c.BitDepthLumaM8) != sps.BitDepthLumaM8 || uint32(c.BitDepthChromaM8) != sps.BitDepthChromaM8 {
		return 0, failf("hevc-config", "chroma format %d bit depths %d/%d in the record; the SPS says %d, %d/%d", c.ChromaFormat, c.BitDepthLumaM8+8, c.BitDepthChromaM8+8, sps.ChromaFormatIDC, sps.BitDepthLumaM8+8, sps.BitDepthChromaM8+8)
	}
	return c.LengthSize, nil
}
