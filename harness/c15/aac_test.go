package c15

import (
	"encoding/hex"
	"fmt"
	"strings"
	"testing"

	"github.com/cnotch/ipchub/av/codec"
	"github.com/cnotch/ipchub/av/codec/aac"
	"github.com/cnotch/ipchub/media"
	"pgregory.net/rapid"
	"verif/harness/lib/aacasc"
	"verif/harness/lib/evid"
)

type audioGot struct {
	Err        string `json:"err,omitempty"`
	SampleRate int    `json:"sample_rate"` // core
	OutputRate int    `json:"output_rate"` // what the stream metadata would report
	Channels   int    `json:"channels"`
	Ready      bool   `json:"metadata_ready"`
}

type audioCase struct {
	Config   string       `json:"config"`
	SDP      string       `json:"sdp,omitempty"`
	Want     aacasc.Audio `json:"want"`
	Got      audioGot     `json:"got"`
	At       string       `json:"at"`
	Elements string       `json:"elements"`
}

// audioFromASC reads the values ipchub reports: the decoder's own fields and,
// through aac.MetadataIsReady on a fresh AudioMeta (the code path that fills
// stream metadata from a config), sample rate and channels.
func audioFromASC(asc *aac.AudioSpecificConfig, cfg []byte) audioGot {
	g := audioGot{SampleRate: asc.SampleRate, Channels: int(asc.Channels), OutputRate: asc.SampleRate}
	if asc.ExtSampleRate > 0 {
		g.OutputRate = asc.ExtSampleRate
	}
	if cfg != nil {
		am := codec.AudioMeta{Codec: "AAC", Sps: cfg}
		g.Ready = aac.MetadataIsReady(&am)
		if g.Ready && (am.SampleRate != g.OutputRate || am.Channels != g.Channels) {
			g.Err = fmt.Sprintf("aac.MetadataIsReady reports %d Hz / %d ch, decoder fields say %d / %d", am.SampleRate, am.Channels, g.OutputRate, g.Channels)
		}
	}
	return g
}

func decodeASC(cfg []byte) (audioGot, error) {
	var asc aac.AudioSpecificConfig
	if err := asc.Decode(cfg); err != nil {
		return audioGot{Err: err.Error()}, err
	}
	return audioFromASC(&asc, nil), nil
}

func (g audioGot) diff(want aacasc.Audio) string {
	if g.Err != "" {
		return firstLine(g.Err)
	}
	var d []string
	if g.SampleRate != want.SampleRate {
		d = append(d, fmt.Sprintf("core sample rate %d want %d", g.SampleRate, want.SampleRate))
	}
	if g.OutputRate != want.OutputRate {
		d = append(d, fmt.Sprintf("reported sample rate %d want %d (extension rate %d)", g.OutputRate, want.OutputRate, want.ExtSampleRate))
	}
	if g.Channels != want.Channels {
		d = append(d, fmt.Sprintf("channels %d want %d", g.Channels, want.Channels))
	}
	return strings.Join(d, "; ")
}

func ascElements(a *aacasc.ASC) string {
	return fmt.Sprintf("audioObjectType=%d samplingFrequencyIndex=%d samplingFrequency=%d channelConfiguration=%d "+
		"extSamplingFrequencyIndex=%d extSamplingFrequency=%d coreAOT=%d dependsOnCoreCoder=%v coreCoderDelay=%#x "+
		"syncExtension=%v sbrPresentFlag=%v syncExtSamplingFrequencyIndex=%d syncExtSamplingFrequency=%d psSync=%v psPresentFlag=%v",
		a.AOT, a.SamplingFrequencyIndex, a.SamplingFrequency, a.ChannelConfiguration, a.ExtSamplingFrequencyIndex, a.ExtSamplingFrequency,
		a.CoreAOT, a.DependsOnCoreCoder, a.CoreCoderDelay, a.SyncExtension, a.SbrPresentFlag, a.SyncExtSamplingFrequencyIndex,
		a.SyncExtSamplingFrequency, a.PsSync, a.PsPresentFlag)
}

func ascBranches(a *aacasc.ASC) int {
	n := 0
	if a.AOT >= 32 {
		n++
	}
	if a.SamplingFrequencyIndex == 15 {
		n++
	}
	if a.AOT == 5 || a.AOT == 29 {
		n++
		if a.ExtSamplingFrequencyIndex == 15 {
			n++
		}
	}
	if a.DependsOnCoreCoder {
		n++
	}
	if a.SyncExtension {
		n++
		if a.SbrPresentFlag {
			n++
			if a.SyncExtSamplingFrequencyIndex == 15 {
				n++
			}
			if a.PsSync {
				n++
			}
		}
	}
	return n
}

func classifyASC(a *aacasc.ASC) {
	switch {
	case a.AOT == 5:
		evid.Class("aac/explicit-hierarchical-sbr")
	case a.AOT == 29:
		evid.Class("aac/explicit-hierarchical-ps")
	case a.AOT >= 32:
		evid.Class("aac/escape-aot")
	case a.SyncExtension && a.SbrPresentFlag && a.PsSync:
		evid.Class("aac/sync-ext-sbr+ps")
	case a.SyncExtension && a.SbrPresentFlag:
		evid.Class("aac/sync-ext-sbr")
	case a.SyncExtension:
		evid.Class("aac/sync-ext-sbr-absent")
	default:
		evid.Class("aac/plain")
	}
	if a.SamplingFrequencyIndex == 15 || ((a.AOT == 5 || a.AOT == 29) && a.ExtSamplingFrequencyIndex == 15) || (a.SyncExtension && a.SbrPresentFlag && a.SyncExtSamplingFrequencyIndex == 15) {
		evid.Class("aac/explicit-24bit-frequency")
	}
	evid.Class(fmt.Sprintf("aac/channel-config=%d", a.ChannelConfiguration))
	if a.DependsOnCoreCoder {
		evid.Class("aac/core-coder-delay")
	}
}

func aacSDP(cfg []byte, rate, channels int, omitChannels, upper bool, videoFirst bool) string {
	rtpmap := fmt.Sprintf("MPEG4-GENERIC/%d/%d", rate, channels)
	if omitChannels {
		rtpmap = fmt.Sprintf("MPEG4-GENERIC/%d", rate)
	}
	c := hex.EncodeToString(cfg)
	if upper {
		c = strings.ToUpper(c)
	}
	a := "m=audio 0 RTP/AVP 97\r\nb=AS:160\r\na=rtpmap:97 " + rtpmap + "\r\n" +
		"a=fmtp:97 profile-level-id=1;mode=AAC-hbr;sizelength=13;indexlength=3;indexdeltalength=3; config=" + c + "\r\na=control:streamid=1\r\n"
	v := "m=video 0 RTP/AVP 96\r\nb=AS:2500\r\na=rtpmap:96 H264/90000\r\n" +
		"a=fmtp:96 packetization-mode=1; sprop-parameter-sets=Z2QAH6zZQFAFuhAAAAMAEAAAAwPI8YMZYA==,aO+8sA==; profile-level-id=64001F\r\na=control:streamid=0\r\n"
	if videoFirst {
		return sdpHead + v + a
	}
	return sdpHead + a + v
}

// scanFalseSync reports whether ipchub's bit-by-bit search for the sync word
// 0x2b7 would hit inside the GASpecificConfig / before the real extension:
// the known-finding class "asc-sync-scan".
func scanFalseSync(a *aacasc.ASC, cfg []byte) bool {
	// position right after channelConfiguration (and the hierarchical header)
	start := 5 + 4 + 4
	if a.AOT >= 32 {
		start += 6
	}
	if a.SamplingFrequencyIndex == 15 {
		start += 24
	}
	if a.AOT == 5 || a.AOT == 29 {
		return false // extensionAudioObjectType == 5: no search
	}
	// where the real syncExtensionType starts (or the end when there is none)
	end := len(cfg) * 8
	if a.SyncExtension {
		end = trueSyncPos(a)
	}
	bit := func(i int) uint { return uint(cfg[i>>3]>>(7-uint(i&7))) & 1 }
	for p := start; p < end && len(cfg)*8-p > 15; p++ {
		var v uint
		for k := 0; k < 11; k++ {
			v = v<<1 | bit(p+k)
		}
		if v == 0x2b7 {
			return true
		}
	}
	return false
}

func trueSyncPos(a *aacasc.ASC) int {
	b := *a
	b.SyncExtension, b.SbrPresentFlag, b.PsSync = false, false, false
	// length of the config without the extension, before padding: re-derive from the syntax
	n := 5 + 4 + 4
	if b.AOT >= 32 {
		n += 6
	}
	if b.SamplingFrequencyIndex == 15 {
		n += 24
	}
	c := b.AOT
	switch {
	case c >= 32:
		n++
	default:
		n += 3
		if b.DependsOnCoreCoder {
			n += 14
		}
		if c == 6 || c == 20 {
			n += 3
		}
		if b.ExtensionFlag {
			if c == 17 || c == 19 || c == 20 || c == 23 {
				n += 3
			}
			n++
		}
		if c >= 17 {
			n += 2
		}
	}
	return n
}

const sigSyncScan = "asc-sync-scan-before-specific-config"

func TestAACConfigRoundTrip(t *testing.T) {
	t.Parallel()
	evid.Checks(30000, 500000)
	rapid.Check(t, func(t *rapid.T) {
		a := aacasc.Gen().Draw(t, "asc")
		omitCh := rapid.IntRange(0, 3).Draw(t, "sdp_omit_channels") == 0
		upper := rapid.Bool().Draw(t, "sdp_upper_hex")
		videoFirst := rapid.Bool().Draw(t, "sdp_video_first")
		cfg := a.Encode()
		want := a.Derived()
		evid.Eval(1)
		classifyASC(a)
		if ascBranches(a) >= 2 {
			evid.Nontrivial(evid.FP("asc", cfg))
		}
		if evid.WantSample("asc") {
			evid.Sample("asc", map[string]any{"config": hex.EncodeToString(cfg), "want": want, "elements": ascElements(a)})
		}
		if scanFalseSync(a, cfg) {
			evid.Class("aac/sync-word-pattern-inside-specific-config")
			if evid.Known(sigSyncScan) {
				evid.Excluded(sigSyncScan)
				return
			}
		}
		var asc aac.AudioSpecificConfig
		c := audioCase{Config: hex.EncodeToString(cfg), Want: want, At: "decoder", Elements: ascElements(a)}
		if err := asc.Decode(cfg); err != nil {
			c.Got = audioGot{Err: err.Error()}
			evid.Violation(t, "aac-decoder", c, "aac.AudioSpecificConfig rejected a valid config %x: %s [%s]", cfg, firstLine(err.Error()), ascElements(a))
		}
		got := audioFromASC(&asc, cfg)
		c.Got = got
		if d := got.diff(want); d != "" {
			evid.Violation(t, "aac-decoder", c, "aac.AudioSpecificConfig on %x: %s [%s]", cfg, d, ascElements(a))
		}
		// stream level: an SDP whose rtpmap agrees with the config (RFC 3640 4.1:
		// rate = sampling rate, encoding parameter = number of channels, omitted
		// only for mono as RFC 4566 6 allows)
		omit := omitCh && want.Channels == 1
		if omit {
			evid.Class("aac/sdp-rtpmap-without-channels(mono)")
		}
		sdp := aacSDP(cfg, want.OutputRate, want.Channels, omit, upper, videoFirst)
		s := media.NewStream(nextPath(), sdp)
		sg := audioGot{SampleRate: want.SampleRate, OutputRate: s.Audio.SampleRate, Channels: s.Audio.Channels}
		if s.Audio.Codec != "AAC" {
			sg.Err = "stream audio codec " + s.Audio.Codec
		}
		s.Close()
		c.SDP, c.Got, c.At = sdp, sg, "stream"
		if d := sg.diff(want); d != "" {
			evid.Violation(t, "aac-stream", c, "media.Stream.Audio after NewStream: %s [%s]", d, ascElements(a))
		}
	})
}
