// C15 — codec parameter parsing is spec-correct and total on arbitrary bytes.
//
// Correctness half: parameter sets produced by the harness's own bit-exact
// encoders (lib/h26xps, lib/aacasc — written from ITU-T H.264 / H.265 and
// ISO/IEC 14496-3, anchored on the captures in ipchub's own tests) are handed
// to ipchub's decoders (h264.RawSPS, hevc.H265RawSPS, hevc.H265RawVPS,
// aac.AudioSpecificConfig) and, wrapped in an SDP of the shape ipchub's tests
// use, to media.NewStream; the width / height / frame rate / fixed-rate flag /
// sample rate / channel count they report must equal what the STANDARD derives
// from the generated syntax elements.
//
// Totality half: native fuzz targets (fuzz_test.go) on the decoders, on the
// emulation-prevention remover, on sdp.ParseMetadata and on NewStream with
// arbitrary bytes as parameter sets.
package c15

import (
	"encoding/base64"
	"encoding/hex"
	"fmt"
	"math"
	"os"
	"strings"
	"sync/atomic"
	"testing"

	"github.com/cnotch/ipchub/media"
	"github.com/cnotch/xlog"
	"verif/harness/lib/evid"
	"verif/harness/lib/h26xps"
)

func TestMain(m *testing.M) {
	// NewStream logs through the global xlog logger; keep the run quiet.
	if os.Getenv("C15_LOG") == "" {
		xlog.ReplaceGlobal(xlog.New(xlog.NewNopCore()))
	}
	evid.Rule("parameter sets are drawn by rapid from struct generators over the whole syntax (every optional branch, every Exp-Golomb width, signed values), encoded bit-exactly by the harness's own encoders, and compared on the standard-derived values (width, height, frame rate, fixed-rate flag / sample rate, channels) at the decoder and at media.Stream after NewStream with an SDP carrying the same sets; a case is non-trivial when its encoding takes >= 2 optional syntax branches and contains >= 1 signed or >= 9-bit Exp-Golomb code (audio: >= 2 optional branches: escape AOT, explicit frequency, hierarchical or sync-extension signalling)")
	evid.Assume("the harness encoders implement ITU-T H.264 7.3.2.1.1/E.1, H.265 7.3.2.1/7.3.2.2/7.3.3/7.3.4/7.3.7/E.2 and ISO/IEC 14496-3 1.6.2.1 correctly; anchored by bit-exact reproduction of the 10 video and 2 audio captures in ipchub's own tests and by hand-assembled golden vectors (lib/h26xps, lib/aacasc tests)")
	evid.Assume("frame rate conventions: H.264 time_scale/(2*num_units_in_tick), H.265 vui_time_scale/vui_num_units_in_tick, 0 when no timing info is coded; H.265 fixed-rate flag = timing info present (ipchub's documented convention)")
	evid.Main(m, "C15")
}

var pathSeq int64

func nextPath() string { return fmt.Sprintf("/c15/s%d", atomic.AddInt64(&pathSeq, 1)) }

func b64(b []byte) string { return base64.StdEncoding.EncodeToString(b) }

// sdpOpts vary the SDP spelling inside what ipchub's own tests show
// (media/stream_test.go, service/rtsp/sdp_test.go).
type sdpOpts struct {
	StartCode   int  // 0 none, 3 or 4: parameter sets carry an Annex-B start code (as the tpl500 camera does)
	SpropFirst  bool // sprop parameter(s) before the other fmtp parameters
	SpropLast   bool // other fmtp parameters after the sprop parameter(s)
	Space       bool // "; " instead of ";"
	WithAudio   bool
	AudioFirst  bool
	LowerCodec  bool
	ExtraAttrib bool
}

func withStart(b []byte, n int) []byte {
	switch n {
	case 3:
		return append([]byte{0, 0, 1}, b...)
	case 4:
		return append([]byte{0, 0, 0, 1}, b...)
	}
	return b
}

const sdpHead = "v=0\r\no=- 0 0 IN IP4 127.0.0.1\r\ns=No Name\r\nc=IN IP4 127.0.0.1\r\nt=0 0\r\na=tool:libavformat 58.20.100\r\n"

const audioSection = "m=audio 0 RTP/AVP 97\r\nb=AS:160\r\na=rtpmap:97 MPEG4-GENERIC/44100/2\r\n" +
	"a=fmtp:97 profile-level-id=1;mode=AAC-hbr;sizelength=13;indexlength=3;indexdeltalength=3; config=121056E500\r\na=control:streamid=1\r\n"

func joinParams(o sdpOpts, sprop []string, before, after []string) string {
	sep := ";"
	if o.Space {
		sep = "; "
	}
	var parts []string
	if !o.SpropFirst {
		parts = append(parts, before...)
	}
	parts = append(parts, sprop...)
	if o.SpropFirst {
		parts = append(parts, before...)
	}
	if o.SpropLast {
		parts = append(parts, after...)
	}
	return strings.Join(parts, sep)
}

func assemble(o sdpOpts, video string) string {
	s := sdpHead
	if o.WithAudio && o.AudioFirst {
		s += audioSection
	}
	s += video
	if o.WithAudio && !o.AudioFirst {
		s += audioSection
	}
	return s
}

func h264SDP(sps, pps []byte, o sdpOpts) string {
	codec := "H264"
	if o.LowerCodec {
		codec = "h264"
	}
	pli := "42001f"
	if len(sps) >= 4 {
		pli = hex.EncodeToString(sps[1:4])
	}
	sprop := "sprop-parameter-sets=" + b64(withStart(sps, o.StartCode)) + "," + b64(withStart(pps, o.StartCode))
	fmtp := joinParams(o, []string{sprop}, []string{"packetization-mode=1"}, []string{"profile-level-id=" + pli})
	v := "m=video 0 RTP/AVP 96\r\nb=AS:2500\r\na=rtpmap:96 " + codec + "/90000\r\na=fmtp:96 " + fmtp + "\r\n"
	if o.ExtraAttrib {
		v += "a=framerate:25\r\n"
	}
	v += "a=control:streamid=0\r\n"
	return assemble(o, v)
}

func h265SDP(vps, sps, pps []byte, o sdpOpts) string {
	codec := "H265"
	if o.LowerCodec {
		codec = "h265"
	}
	sprop := []string{
		"sprop-vps=" + b64(withStart(vps, o.StartCode)),
		"sprop-sps=" + b64(withStart(sps, o.StartCode)),
		"sprop-pps=" + b64(withStart(pps, o.StartCode)),
	}
	// parameter names of RFC 7798 7.1 as they appear in service/rtsp/sdp_test.go
	fmtp := joinParams(o, sprop,
		[]string{"profile-space=0", "profile-id=1", "tier-flag=0", "level-id=120", "interop-constraints=600000000000"},
		[]string{"sprop-max-don-diff=0"})
	v := "m=video 0 RTP/AVP 96\r\na=rtpmap:96 " + codec + "/90000\r\na=fmtp:96 " + fmtp + "\r\n"
	if o.ExtraAttrib {
		v += "a=framerate:25\r\n"
	}
	v += "a=control:streamid=0\r\n"
	return assemble(o, v)
}

// rateEq compares frame rates without demanding a particular rounding.
func rateEq(got, want float64) bool {
	if want == 0 {
		return got == 0
	}
	if math.IsInf(got, 0) || math.IsNaN(got) {
		return false
	}
	return math.Abs(got-want) <= 1e-9*math.Abs(want)
}

type videoGot struct {
	Err    string  `json:"err,omitempty"`
	Width  int     `json:"width"`
	Height int     `json:"height"`
	Rate   float64 `json:"rate"`
	Fixed  bool    `json:"fixed"`
}

func (g videoGot) diff(want h26xps.Video) string {
	var d []string
	if g.Err != "" {
		return "valid parameter set rejected: " + firstLine(g.Err)
	}
	if g.Width != want.Width {
		d = append(d, fmt.Sprintf("width %d want %d", g.Width, want.Width))
	}
	if g.Height != want.Height {
		d = append(d, fmt.Sprintf("height %d want %d", g.Height, want.Height))
	}
	if !rateEq(g.Rate, want.FrameRate) {
		d = append(d, fmt.Sprintf("frame rate %v want %v", g.Rate, want.FrameRate))
	}
	if g.Fixed != want.Fixed {
		d = append(d, fmt.Sprintf("fixed-rate %v want %v", g.Fixed, want.Fixed))
	}
	return strings.Join(d, "; ")
}

func firstLine(s string) string {
	if i := strings.IndexByte(s, '\n'); i >= 0 {
		s = s[:i]
	}
	if len(s) > 200 {
		s = s[:200]
	}
	return s
}

// streamVideo builds a stream from the SDP and returns the metadata it reports.
func streamVideo(sdp string) (videoGot, string) {
	s := media.NewStream(nextPath(), sdp)
	if s == nil {
		return videoGot{Err: "NewStream returned nil"}, ""
	}
	defer s.Close()
	return videoGot{Width: s.Video.Width, Height: s.Video.Height, Rate: s.Video.FrameRate, Fixed: s.Video.FixedFrameRate}, s.Video.Codec
}

// nontrivialVideo is the DESIGN's NT rule.
func nontrivialVideo(st h26xps.Stats) bool {
	return st.Branches >= 2 && (st.Signed >= 1 || st.MaxUEBits >= 9)
}

func bucket(n int, edges ...int) string {
	for _, e := range edges {
		if n <= e {
			return fmt.Sprintf("<=%d", e)
		}
	}
	return fmt.Sprintf(">%d", edges[len(edges)-1])
}

// videoCase is the replay rendering of one video case.
type videoCase struct {
	Kind string       `json:"kind"` // h264sps | h265sps | h265vps
	NAL  string       `json:"nal"`  // hex, with NAL header, emulation prevention applied
	VPS  string       `json:"vps,omitempty"`
	PPS  string       `json:"pps,omitempty"`
	SDP  string       `json:"sdp,omitempty"`
	Want h26xps.Video `json:"want"`
	Got  videoGot     `json:"got"`
	At   string       `json:"at"` // decoder | stream
	// Elements is the hand-decoded rendering of the syntax elements (DESIGN §3:
	// a disagreement is only reported with the syntax elements spelled out).
	Elements string `json:"elements"`
}
