package c15

import (
	"encoding/hex"
	"fmt"
	"testing"

	"github.com/cnotch/ipchub/av/codec/h264"
	"pgregory.net/rapid"
	"verif/harness/lib/evid"
	"verif/harness/lib/h26xps"
)

func decodeH264(nal []byte) videoGot {
	var raw h264.RawSPS
	if err := raw.Decode(nal); err != nil {
		return videoGot{Err: err.Error()}
	}
	return videoGot{Width: raw.Width(), Height: raw.Height(), Rate: raw.FrameRate(), Fixed: raw.IsFixedFrameRate()}
}

func genSDPOpts(t *rapid.T) sdpOpts {
	o := sdpOpts{}
	switch rapid.IntRange(0, 9).Draw(t, "sdp_startcode") {
	case 0:
		o.StartCode = 4
	case 1:
		o.StartCode = 3
	}
	o.SpropFirst = rapid.Bool().Draw(t, "sdp_sprop_first")
	o.SpropLast = rapid.Bool().Draw(t, "sdp_sprop_last")
	o.Space = rapid.Bool().Draw(t, "sdp_space")
	o.WithAudio = rapid.Bool().Draw(t, "sdp_audio")
	o.AudioFirst = rapid.Bool().Draw(t, "sdp_audio_first")
	o.LowerCodec = rapid.IntRange(0, 4).Draw(t, "sdp_lower") == 0
	o.ExtraAttrib = rapid.Bool().Draw(t, "sdp_extra")
	return o
}

func h264Elements(s *h26xps.H264SPS) string {
	cx, cy := s.CropUnits()
	nlists := 0
	for _, l := range s.ScalingList {
		if l.Present {
			nlists++
		}
	}
	return fmt.Sprintf("profile_idc=%d chroma_format_idc=%d separate_colour_plane=%v scaling_matrix=%v(%d lists) poc_type=%d "+
		"pic_width_in_mbs_minus1=%d pic_height_in_map_units_minus1=%d frame_mbs_only=%v crop=%v(l%d r%d t%d b%d) CropUnitX=%d CropUnitY=%d "+
		"vui=%v timing=%v num_units_in_tick=%d time_scale=%d fixed_frame_rate=%v nal_hrd=%v vcl_hrd=%v",
		s.ProfileIdc, s.ChromaFormatIdc, s.SeparateColourPlaneFlag, s.SeqScalingMatrixPresentFlag, nlists, s.PicOrderCntType,
		s.PicWidthInMbsMinus1, s.PicHeightInMapUnitsMinus1, s.FrameMbsOnlyFlag, s.FrameCroppingFlag, s.FrameCropLeftOffset,
		s.FrameCropRightOffset, s.FrameCropTopOffset, s.FrameCropBottomOffset, cx, cy,
		s.VuiParametersPresentFlag, s.Vui.TimingInfoPresentFlag, s.Vui.NumUnitsInTick, s.Vui.TimeScale, s.Vui.FixedFrameRateFlag,
		s.Vui.NalHrdParametersPresentFlag, s.Vui.VclHrdParametersPresentFlag)
}

func classifyH264(s *h26xps.H264SPS, st h26xps.Stats) {
	evid.Class(fmt.Sprintf("h264/chroma=%d", s.ChromaFormatIdc))
	evid.Class(fmt.Sprintf("h264/profile_idc=%d", s.ProfileIdc))
	if s.SeparateColourPlaneFlag {
		evid.Class("h264/separate-planes")
	}
	if !s.FrameMbsOnlyFlag {
		evid.Class("h264/field-coded")
	}
	if s.FrameCroppingFlag {
		evid.Class("h264/cropped")
	}
	if s.SeqScalingMatrixPresentFlag {
		evid.Class("h264/scaling-matrix")
		for i, l := range s.ScalingList {
			n := 16
			if i >= 6 {
				n = 64
			}
			if l.Present && len(l.Deltas) < n {
				if len(l.Deltas) == 1 {
					evid.Class("h264/scaling-list-default")
				} else {
					evid.Class("h264/scaling-list-early-end")
				}
				break
			}
		}
	}
	evid.Class(fmt.Sprintf("h264/poc-type=%d", s.PicOrderCntType))
	if s.VuiParametersPresentFlag {
		evid.Class("h264/vui")
		if s.Vui.TimingInfoPresentFlag {
			evid.Class("h264/vui-timing")
		}
		if s.Vui.NalHrdParametersPresentFlag || s.Vui.VclHrdParametersPresentFlag {
			evid.Class("h264/vui-hrd")
		}
	}
	if st.Escapes > 0 {
		evid.Class("h264/emulation-prevention")
	}
	if st.NonZeroSigned > 0 {
		evid.Class("h264/signed-nonzero")
	}
	evid.Class("h264/max-golomb-bits " + bucket(st.MaxUEBits, 8, 16, 32, 48))
	evid.Class("h264/branches " + bucket(st.Branches, 1, 4, 8, 16))
}

func TestH264SPSRoundTrip(t *testing.T) {
	t.Parallel()
	pps := h26xps.MinimalH264PPS()
	evid.Checks(25000, 400000)
	rapid.Check(t, func(t *rapid.T) {
		s := h26xps.GenH264SPS().Draw(t, "sps")
		o := genSDPOpts(t)
		nal, st := s.EncodeStats()
		want := s.Derived()
		evid.Eval(1)
		classifyH264(s, st)
		if nontrivialVideo(st) {
			evid.Nontrivial(evid.FP("h264", nal))
		}
		if evid.WantSample("h264sps") {
			evid.Sample("h264sps", map[string]any{"nal": hex.EncodeToString(nal), "want": want, "elements": h264Elements(s)})
		}
		got := decodeH264(nal)
		if d := got.diff(want); d != "" {
			evid.Violation(t, "h264-decoder", videoCase{Kind: "h264sps", NAL: hex.EncodeToString(nal), Want: want, Got: got, At: "decoder", Elements: h264Elements(s)},
				"h264.RawSPS on a valid SPS: %s [%s]", d, h264Elements(s))
		}
		sdp := h264SDP(nal, pps, o)
		sg, codec := streamVideo(sdp)
		if codec != "H264" {
			sg.Err = "stream codec " + codec
		}
		if d := sg.diff(want); d != "" {
			evid.Violation(t, "h264-stream", videoCase{Kind: "h264sps", NAL: hex.EncodeToString(nal), PPS: hex.EncodeToString(pps), SDP: sdp, Want: want, Got: sg, At: "stream", Elements: h264Elements(s)},
				"media.Stream.Video after NewStream: %s [%s] opts %+v", d, h264Elements(s), o)
		}
	})
}
