package c15

import (
	"encoding/hex"
	"testing"

	"pgregory.net/rapid"
	"verif/harness/lib/aacasc"
	"verif/harness/lib/evid"
	"verif/harness/lib/h26xps"
)

// Quick-tier companion of the native fuzz targets: rapid draws byte strings —
// plain random ones, runs of 00 / ff, and mutations (truncate, bit flip,
// overwrite, insert 00 00 03 / ff runs, splice) of valid generated parameter
// sets — and feeds them to the same oracles as the fuzz targets: the five
// decoders return, agree with the standard whenever the bytes still form a
// valid set of the generated domain, and an SDP carrying them still yields a
// stream that relays a packet.

func genBytes(t *rapid.T, base []byte, label string) []byte {
	switch rapid.IntRange(0, 5).Draw(t, label+"_kind") {
	case 0:
		return rapid.SliceOfN(rapid.Byte(), 0, 64).Draw(t, label+"_rand")
	case 1:
		return rapid.SliceOfN(rapid.SampledFrom([]byte{0x00, 0x00, 0xff, 0x03, 0x01, 0x80}), 0, 80).Draw(t, label+"_runs")
	}
	b := append([]byte(nil), base...)
	n := rapid.IntRange(1, 4).Draw(t, label+"_nmut")
	for i := 0; i < n && len(b) > 0; i++ {
		pos := rapid.IntRange(0, len(b)-1).Draw(t, label+"_pos")
		switch rapid.IntRange(0, 5).Draw(t, label+"_op") {
		case 0:
			b = b[:pos]
		case 1:
			b[pos] ^= 1 << uint(rapid.IntRange(0, 7).Draw(t, label+"_bit"))
		case 2:
			b[pos] = rapid.Byte().Draw(t, label+"_byte")
		case 3:
			ins := rapid.SampledFrom([][]byte{{0, 0, 3}, {0, 0, 0}, {0xff, 0xff, 0xff, 0xff}, {0, 0, 1}, {0x80}}).Draw(t, label+"_ins")
			b = append(b[:pos], append(append([]byte(nil), ins...), b[pos:]...)...)
		case 4:
			for j := pos; j < len(b); j++ {
				b[j] = 0xff
			}
		case 5:
			for j := pos; j < len(b); j++ {
				b[j] = 0
			}
		}
	}
	return b
}

func TestHostileBytes(t *testing.T) {
	t.Parallel()
	evid.Checks(15000, 300000)
	rapid.Check(t, func(t *rapid.T) {
		evid.Eval(1)
		switch rapid.IntRange(0, 3).Draw(t, "target") {
		case 0:
			data := genBytes(t, h26xps.GenH264SPS().Draw(t, "base").Encode(), "h264")
			got := decodeH264(data)
			evid.Class("hostile/h264")
			if p, err := h26xps.ParseH264SPS(data); err == nil && h264InDomain(p) {
				evid.Class("hostile/h264-still-valid")
				if d := got.diff(p.Derived()); d != "" {
					evid.Violation(t, "hostile-h264", videoCase{Kind: "h264sps", NAL: hex.EncodeToString(data), Want: p.Derived(), Got: got, At: "decoder", Elements: h264Elements(p)},
						"mutated but valid SPS: %s [%s]", d, h264Elements(p))
				}
			}
		case 1:
			data := genBytes(t, h26xps.GenH265SPS().Draw(t, "base").Encode(), "h265")
			got := decodeH265(data)
			evid.Class("hostile/h265")
			if p, err := h26xps.ParseH265SPS(data); err == nil && h265InDomain(p) {
				evid.Class("hostile/h265-still-valid")
				if d := got.diff(p.Derived()); d != "" {
					evid.Violation(t, "hostile-h265", videoCase{Kind: "h265sps", NAL: hex.EncodeToString(data), Want: p.Derived(), Got: got, At: "decoder", Elements: h265Elements(p)},
						"mutated but valid SPS: %s [%s]", d, h265Elements(p))
				}
			}
		case 2:
			data := genBytes(t, h26xps.GenH265VPS().Draw(t, "base").Encode(), "vps")
			got := decodeVPS(data)
			evid.Class("hostile/vps")
			if p, err := h26xps.ParseH265VPS(data); err == nil && vpsInDomain(p) {
				evid.Class("hostile/vps-still-valid")
				if got.Err != "" || got.TimingPresent != p.TimingInfoPresentFlag || (p.TimingInfoPresentFlag && (got.NumUnits != p.NumUnitsInTick || got.TimeScale != p.TimeScale)) {
					evid.Violation(t, "hostile-vps", vpsCase{Kind: "h265vps", NAL: hex.EncodeToString(data), Got: got, Elements: vpsElements(p)},
						"mutated but valid VPS: got %+v [%s]", got, vpsElements(p))
				}
			}
		case 3:
			data := genBytes(t, aacasc.Gen().Draw(t, "base").Encode(), "asc")
			evid.Class("hostile/asc")
			got, err := decodeASC(data)
			if p, perr := aacasc.Parse(data); perr == nil && !scanFalseSync(p, data) {
				evid.Class("hostile/asc-still-valid")
				c := audioCase{Config: hex.EncodeToString(data), Want: p.Derived(), Got: got, At: "decoder", Elements: ascElements(p)}
				if err != nil {
					evid.Violation(t, "hostile-asc", c, "mutated but valid config %x rejected: %s", data, firstLine(err.Error()))
				}
				if d := got.diff(p.Derived()); d != "" {
					evid.Violation(t, "hostile-asc", c, "mutated but valid config %x: %s [%s]", data, d, ascElements(p))
				}
			}
		}
	})
}

func TestHostileSDPStillUsable(t *testing.T) {
	t.Parallel()
	evid.Checks(5000, 100000)
	rapid.Check(t, func(t *rapid.T) {
		evid.Eval(1)
		o := genSDPOpts(t)
		o.WithAudio = false
		var video string
		var sps, pps, vps []byte
		if rapid.Bool().Draw(t, "h265") {
			evid.Class("hostile/sdp-h265")
			sps = genBytes(t, h26xps.MinimalH265SPS(640, 480), "sps")
			pps = genBytes(t, h26xps.MinimalH265PPS(), "pps")
			vps = genBytes(t, h26xps.MinimalH265VPS(), "vps")
			video = h265SDP(vps, sps, pps, o)
		} else {
			evid.Class("hostile/sdp-h264")
			sps = genBytes(t, h26xps.MinimalH264SPS(640, 480), "sps")
			pps = genBytes(t, h26xps.MinimalH264PPS(), "pps")
			video = h264SDP(sps, pps, o)
		}
		cfg := genBytes(t, []byte{0x12, 0x10}, "cfg")
		sdp := video + "m=audio 0 RTP/AVP 97\r\na=rtpmap:97 MPEG4-GENERIC/44100/2\r\n" +
			"a=fmtp:97 profile-level-id=1;mode=AAC-hbr;sizelength=13;indexlength=3;indexdeltalength=3; config=" + hex.EncodeToString(cfg) + "\r\na=control:streamid=1\r\n"
		usable(t, "hostile-stream", sdp, map[string]string{"sps": hex.EncodeToString(sps), "pps": hex.EncodeToString(pps),
			"vps": hex.EncodeToString(vps), "config": hex.EncodeToString(cfg), "sdp": sdp})
	})
}
