package c15

import (
	"encoding/hex"
	"fmt"
	"testing"

	"github.com/cnotch/ipchub/av/codec/hevc"
	"pgregory.net/rapid"
	"verif/harness/lib/evid"
	"verif/harness/lib/h26xps"
)

func decodeH265(nal []byte) videoGot {
	var raw hevc.H265RawSPS
	if err := raw.Decode(nal); err != nil {
		return videoGot{Err: err.Error()}
	}
	return videoGot{Width: raw.Width(), Height: raw.Height(), Rate: raw.FrameRate(), Fixed: raw.IsFixedFrameRate()}
}

func h265Elements(s *h26xps.H265SPS) string {
	sw, sh := s.SubWidthHeightC()
	inter := 0
	for i := range s.StRefPicSet {
		if s.StRefPicSet[i].InterRefPicSetPredictionFlag {
			inter++
		}
	}
	return fmt.Sprintf("sps_max_sub_layers_minus1=%d sub_layer_ordering_info_present=%v(%d triples) chroma_format_idc=%d separate_colour_plane=%v "+
		"pic_width=%d pic_height=%d conformance_window=%v(l%d r%d t%d b%d) SubWidthC=%d SubHeightC=%d scaling_list=%v/%v pcm=%v "+
		"num_short_term_ref_pic_sets=%d(inter %d) long_term=%v(%d) vui=%v timing=%v num_units_in_tick=%d time_scale=%d vui_hrd=%v ext=%v",
		s.MaxSubLayersMinus1, s.SubLayerOrderingInfoPresentFlag, len(s.OrderingInfo), s.ChromaFormatIdc, s.SeparateColourPlaneFlag,
		s.PicWidthInLumaSamples, s.PicHeightInLumaSamples, s.ConformanceWindowFlag, s.ConfWinLeftOffset, s.ConfWinRightOffset,
		s.ConfWinTopOffset, s.ConfWinBottomOffset, sw, sh, s.ScalingListEnabledFlag, s.SpsScalingListDataPresentFlag, s.PcmEnabledFlag,
		s.NumShortTermRefPicSets, inter, s.LongTermRefPicsPresentFlag, s.NumLongTermRefPicsSps, s.VuiParametersPresentFlag,
		s.Vui.TimingInfoPresentFlag, s.Vui.NumUnitsInTick, s.Vui.TimeScale, s.Vui.HrdParametersPresentFlag, s.ExtensionPresentFlag)
}

func classifyH265(s *h26xps.H265SPS, st h26xps.Stats) {
	evid.Class(fmt.Sprintf("h265/chroma=%d", s.ChromaFormatIdc))
	evid.Class("h265/sub-layers " + bucket(int(s.MaxSubLayersMinus1)+1, 1, 2, 4, 7))
	if s.MaxSubLayersMinus1 > 0 {
		if s.SubLayerOrderingInfoPresentFlag {
			evid.Class("h265/multi-sub-layer+ordering-info")
		} else {
			evid.Class("h265/multi-sub-layer-no-ordering-info")
		}
	}
	if s.ConformanceWindowFlag {
		evid.Class("h265/conformance-window")
	}
	if s.SpsScalingListDataPresentFlag {
		evid.Class("h265/scaling-list-data")
	}
	if s.PcmEnabledFlag {
		evid.Class("h265/pcm")
	}
	inter := false
	for i := range s.StRefPicSet {
		inter = inter || s.StRefPicSet[i].InterRefPicSetPredictionFlag
	}
	switch {
	case inter:
		evid.Class("h265/rps-inter-predicted")
	case len(s.StRefPicSet) > 0:
		evid.Class("h265/rps-explicit-only")
	}
	if s.LongTermRefPicsPresentFlag {
		evid.Class("h265/long-term")
	}
	if s.VuiParametersPresentFlag {
		evid.Class("h265/vui")
		if s.Vui.TimingInfoPresentFlag {
			evid.Class("h265/vui-timing")
		}
		if s.Vui.TimingInfoPresentFlag && s.Vui.HrdParametersPresentFlag {
			evid.Class("h265/vui-hrd")
		}
	}
	if s.ExtensionPresentFlag {
		evid.Class("h265/sps-extension")
	}
	if st.Escapes > 0 {
		evid.Class("h265/emulation-prevention")
	}
	if st.NonZeroSigned > 0 {
		evid.Class("h265/signed-nonzero")
	}
	evid.Class("h265/max-golomb-bits " + bucket(st.MaxUEBits, 8, 16, 32, 48))
	evid.Class("h265/branches " + bucket(st.Branches, 1, 4, 8, 16))
}

func TestH265SPSRoundTrip(t *testing.T) {
	t.Parallel()
	vps, pps := h26xps.MinimalH265VPS(), h26xps.MinimalH265PPS()
	evid.Checks(20000, 300000)
	rapid.Check(t, func(t *rapid.T) {
		s := h26xps.GenH265SPS().Draw(t, "sps")
		o := genSDPOpts(t)
		nal, st := s.EncodeStats()
		want := s.Derived()
		evid.Eval(1)
		classifyH265(s, st)
		if nontrivialVideo(st) {
			evid.Nontrivial(evid.FP("h265", nal))
		}
		if evid.WantSample("h265sps") {
			evid.Sample("h265sps", map[string]any{"nal": evid.Hex(nal), "want": want, "elements": h265Elements(s)})
		}
		got := decodeH265(nal)
		if d := got.diff(want); d != "" {
			evid.Violation(t, "h265-decoder", videoCase{Kind: "h265sps", NAL: hex.EncodeToString(nal), Want: want, Got: got, At: "decoder", Elements: h265Elements(s)},
				"hevc.H265RawSPS on a valid SPS: %s [%s]", d, h265Elements(s))
		}
		sdp := h265SDP(vps, nal, pps, o)
		sg, codec := streamVideo(sdp)
		if codec != "H265" {
			sg.Err = "stream codec " + codec
		}
		if d := sg.diff(want); d != "" {
			evid.Violation(t, "h265-stream", videoCase{Kind: "h265sps", NAL: hex.EncodeToString(nal), VPS: hex.EncodeToString(vps), PPS: hex.EncodeToString(pps), SDP: sdp, Want: want, Got: sg, At: "stream", Elements: h265Elements(s)},
				"media.Stream.Video after NewStream: %s [%s] opts %+v", d, h265Elements(s), o)
		}
	})
}

type vpsGot struct {
	Err           string `json:"err,omitempty"`
	TimingPresent bool   `json:"timing_present"`
	NumUnits      uint32 `json:"num_units_in_tick"`
	TimeScale     uint32 `json:"time_scale"`
	SubLayers     uint32 `json:"max_sub_layers_minus1"`
	ExtFlag       bool   `json:"extension_flag"`
}

type vpsCase struct {
	Kind     string `json:"kind"`
	NAL      string `json:"nal"`
	Want     vpsGot `json:"want"`
	Got      vpsGot `json:"got"`
	Elements string `json:"elements"`
}

func decodeVPS(nal []byte) vpsGot {
	var raw hevc.H265RawVPS
	if err := raw.Decode(nal); err != nil {
		return vpsGot{Err: err.Error()}
	}
	return vpsGot{TimingPresent: raw.Vps_timing_info_present_flag == 1, NumUnits: raw.Vps_num_units_in_tick, TimeScale: raw.Vps_time_scale,
		SubLayers: uint32(raw.Vps_max_sub_layers_minus1), ExtFlag: raw.Vps_extension_flag == 1}
}

func vpsElements(v *h26xps.H265VPS) string {
	return fmt.Sprintf("vps_max_sub_layers_minus1=%d sub_layer_ordering_info_present=%v vps_max_layer_id=%d vps_num_layer_sets_minus1=%d timing=%v "+
		"num_units_in_tick=%d time_scale=%d vps_num_hrd_parameters=%d cprms=%v extension=%v", v.MaxSubLayersMinus1, v.SubLayerOrderingInfoPresentFlag,
		v.MaxLayerID, v.NumLayerSetsMinus1, v.TimingInfoPresentFlag, v.NumUnitsInTick, v.TimeScale, v.NumHrdParameters, v.CprmsPresentFlag, v.ExtensionFlag)
}

// The VPS carries no value that reaches media.Stream (ipchub only requires its
// presence); what is decided is that a valid VPS is accepted and that the
// timing information it defines (vps_num_units_in_tick / vps_time_scale, the
// VPS-level frame rate) is read back — it sits behind profile_tier_level, the
// sub-layer ordering loop and the layer sets, so it is wrong whenever those
// are mis-parsed. vps_extension_flag (the last element, behind the HRD
// structures) is compared as a diagnostic only.
func TestH265VPSRoundTrip(t *testing.T) {
	t.Parallel()
	evid.Checks(15000, 250000)
	rapid.Check(t, func(t *rapid.T) {
		v := h26xps.GenH265VPS().Draw(t, "vps")
		nal, st := v.EncodeStats()
		evid.Eval(1)
		evid.Class("vps/sub-layers " + bucket(int(v.MaxSubLayersMinus1)+1, 1, 2, 4, 7))
		if v.TimingInfoPresentFlag {
			evid.Class("vps/timing")
		}
		if v.NumHrdParameters > 0 {
			evid.Class("vps/hrd")
		}
		if v.NumLayerSetsMinus1 > 0 {
			evid.Class("vps/layer-sets")
		}
		if st.Escapes > 0 {
			evid.Class("vps/emulation-prevention")
		}
		if nontrivialVideo(st) {
			evid.Nontrivial(evid.FP("vps", nal))
		}
		if evid.WantSample("h265vps") {
			evid.Sample("h265vps", map[string]any{"nal": evid.Hex(nal), "elements": vpsElements(v)})
		}
		want := vpsGot{TimingPresent: v.TimingInfoPresentFlag, SubLayers: v.MaxSubLayersMinus1, ExtFlag: v.ExtensionFlag}
		if v.TimingInfoPresentFlag {
			want.NumUnits, want.TimeScale = v.NumUnitsInTick, v.TimeScale
		}
		got := decodeVPS(nal)
		c := vpsCase{Kind: "h265vps", NAL: hex.EncodeToString(nal), Want: want, Got: got, Elements: vpsElements(v)}
		if got.Err != "" {
			evid.Violation(t, "h265-vps", c, "hevc.H265RawVPS rejected a valid VPS: %s [%s]", firstLine(got.Err), vpsElements(v))
		}
		if got.TimingPresent != want.TimingPresent || got.NumUnits != want.NumUnits || got.TimeScale != want.TimeScale || got.SubLayers != want.SubLayers {
			evid.Violation(t, "h265-vps", c, "hevc.H265RawVPS timing: got %+v want %+v [%s]", got, want, vpsElements(v))
		}
		if got.ExtFlag != want.ExtFlag {
			evid.Class("vps/diagnostic: vps_extension_flag differs (not a verdict)")
			if evid.WantSample("vps-ext-flag-diagnostic") {
				evid.Sample("vps-ext-flag-diagnostic", c)
			}
		}
	})
}
