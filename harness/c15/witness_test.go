package c15

import (
	"encoding/hex"
	"runtime"
	"testing"

	"github.com/cnotch/ipchub/av/codec/aac"
	"github.com/cnotch/ipchub/av/codec/hevc"
	"github.com/cnotch/ipchub/media"
	"github.com/cnotch/ipchub/utils/bits"
	"verif/harness/lib/aacasc"
	"verif/harness/lib/evid"
	"verif/harness/lib/h26xps"
)

// Minimal witnesses of the defects this check found in ipchub. Each one is a
// plain deterministic test (no rapid) against the real code; after the
// corresponding `fix:` commit they stay here as regression tests.

// W1 (DESIGN C15 Sus i): bits.Reader.ReadSe computed its result from the
// zero-valued named return and yielded 0 for every code.
// se(v) bit strings of H.264 table 9-3: +1 = 010, −1 = 011, +2 = 00100, −2 = 00101.
func TestWitnessReadSe(t *testing.T) {
	for _, c := range []struct {
		b    byte
		want int32
	}{{0x80, 0}, {0x40, 1}, {0x60, -1}, {0x20, 2}, {0x28, -2}, {0x30, 3}, {0x38, -3}} {
		evid.Eval(1)
		if got := bits.NewReader([]byte{c.b, 0}).ReadSe(); got != c.want {
			evid.Violation(t, "witness-readse", map[string]any{"byte": c.b, "got": got, "want": c.want},
				"bits.Reader.ReadSe on %08b = %d, H.264 9.1.1 says %d", c.b, got, c.want)
		}
	}
	// extremes: codeNum 2^32−3 -> +(2^31−1), codeNum 2^32−2 -> −(2^31−1)
	for _, c := range []struct {
		code uint64
		want int32
	}{{4294967293, 2147483647}, {4294967294, -2147483647}} {
		// 31 zeros, 1, 31 info bits
		v := c.code + 1
		var buf [9]byte
		for i := 0; i < 32; i++ {
			if v>>(31-uint(i))&1 == 1 {
				p := 31 + i
				buf[p/8] |= 0x80 >> uint(p%8)
			}
		}
		evid.Eval(1)
		if got := bits.NewReader(buf[:]).ReadSe(); got != c.want {
			evid.Violation(t, "witness-readse", map[string]any{"code": c.code, "got": got, "want": c.want},
				"bits.Reader.ReadSe on codeNum %d = %d, want %d", c.code, got, c.want)
		}
	}
}

// W1b: the visible consequence — an H.264 SPS whose first scaling list selects
// the default matrix (single delta_scale −8, 7.3.2.1.1.1) was read with the
// loop running on for 15 more se(v), desynchronising everything after it.
func TestWitnessH264ScalingListEarlyEnd(t *testing.T) {
	s := h26xps.NewH264SPS(640, 480)
	s.ProfileIdc = 100
	s.SeqScalingMatrixPresentFlag = true
	s.ScalingList[0] = h26xps.H264ScalingList{Present: true, Deltas: []int32{-8}}
	s.ScalingList[6] = h26xps.H264ScalingList{Present: true, Deltas: []int32{4, 4, -16}}
	checkVideoWitness(t, "witness-h264-scaling-list", "h264sps", s.Encode(), s.Derived(), h264Elements(s))
}

// W2 (Sus ii): crop units. 4:4:4 (CropUnitX = CropUnitY = 1), 4:2:2 (2, 1),
// monochrome (1, 1) and field coding (CropUnitY doubled) — 7-19 … 7-22.
func TestWitnessH264CropUnits(t *testing.T) {
	for _, c := range []struct {
		chroma uint32
		sep    bool
		field  bool
	}{{3, false, false}, {2, false, false}, {0, false, false}, {3, true, false}, {1, false, true}, {2, false, true}} {
		s := h26xps.NewH264SPS(64, 64)
		s.ProfileIdc = 244
		s.ChromaFormatIdc, s.SeparateColourPlaneFlag = c.chroma, c.sep
		if c.field {
			s.FrameMbsOnlyFlag, s.PicHeightInMapUnitsMinus1 = false, 1 // 2 map units * 2 * 16 = 64
		}
		s.FrameCroppingFlag = true
		s.FrameCropLeftOffset, s.FrameCropRightOffset, s.FrameCropTopOffset, s.FrameCropBottomOffset = 1, 2, 1, 3
		checkVideoWitness(t, "witness-h264-crop", "h264sps", s.Encode(), s.Derived(), h264Elements(s))
	}
}

// W2b: frame rate with num_units_in_tick >= 2^31 (the doubling overflowed uint32).
func TestWitnessH264TickOverflow(t *testing.T) {
	s := h26xps.NewH264SPS(64, 64)
	s.Vui.NumUnitsInTick, s.Vui.TimeScale = 0x80000000, 0xFFFFFFFF
	checkVideoWitness(t, "witness-h264-tick", "h264sps", s.Encode(), s.Derived(), h264Elements(s))
}

// W3 (Sus iii): H.265 SPS with 2 sub-layers; with ordering info present the
// loop must run i = 0..1, without it only i = 1 (7.3.2.2.1).
func TestWitnessH265SubLayerOrdering(t *testing.T) {
	for _, present := range []bool{true, false} {
		s := h26xps.NewH265SPS(640, 480)
		s.MaxSubLayersMinus1 = 1
		s.PTL.SubLayerProfilePresentFlag, s.PTL.SubLayerLevelPresentFlag = []bool{false}, []bool{false}
		s.PTL.SubLayer, s.PTL.SubLayerLevelIdc = make([]h26xps.H265ProfileInfo, 1), make([]uint32, 1)
		s.SubLayerOrderingInfoPresentFlag = present
		s.OrderingInfo = []h26xps.H265OrderingInfo{{MaxDecPicBufferingMinus1: 2, MaxNumReorderPics: 1, MaxLatencyIncreasePlus1: 3}}
		if present {
			s.OrderingInfo = append([]h26xps.H265OrderingInfo{{MaxDecPicBufferingMinus1: 1}}, s.OrderingInfo...)
		}
		checkVideoWitness(t, "witness-h265-ordering", "h265sps", s.Encode(), s.Derived(), h265Elements(s))
	}
}

// W4 (Sus iv): H.265 SPS whose second short-term RPS is predicted from the
// first (inter_ref_pic_set_prediction_flag = 1, 7.3.7 / 7.4.8).
func TestWitnessH265InterRPS(t *testing.T) {
	s := h26xps.NewH265SPS(640, 480)
	s.OrderingInfo[0].MaxDecPicBufferingMinus1 = 4
	s.StRefPicSet = []h26xps.H265STRPS{
		{NumNegativePics: 2, NumPositivePics: 1, DeltaPocS0Minus1: []uint32{0, 1}, UsedByCurrPicS0Flag: []bool{true, true},
			DeltaPocS1Minus1: []uint32{0}, UsedByCurrPicS1Flag: []bool{true}},
		{InterRefPicSetPredictionFlag: true, DeltaRpsSign: true, AbsDeltaRpsMinus1: 0,
			UsedByCurrPicFlag: []bool{true, false, true, true}, UseDeltaFlag: []bool{true, false, true, true}},
		{InterRefPicSetPredictionFlag: true, DeltaRpsSign: false, AbsDeltaRpsMinus1: 1,
			UsedByCurrPicFlag: []bool{true, false, true}, UseDeltaFlag: []bool{true, true, true}},
	}
	s.NumShortTermRefPicSets = 3
	checkVideoWitness(t, "witness-h265-inter-rps", "h265sps", s.Encode(), s.Derived(), h265Elements(s))
}

// W5 (Sus v): explicit hierarchical PS signalling (AOT 29): EB 8A 08 00 is
// HE-AAC v2, core 22050 Hz, SBR output 44100 Hz, mono core (1.6.2.1, 1.6.6).
func TestWitnessAACExplicitPS(t *testing.T) {
	a := &aacasc.ASC{AOT: 29, SamplingFrequencyIndex: 7, ChannelConfiguration: 1, ExtSamplingFrequencyIndex: 4, CoreAOT: 2}
	cfg := a.Encode()
	if hex.EncodeToString(cfg) != "eb8a0800" {
		t.Fatalf("encoder anchor: %x", cfg)
	}
	evid.Eval(1)
	var asc aac.AudioSpecificConfig
	if err := asc.Decode(cfg); err != nil {
		evid.Violation(t, "witness-aac-ps", map[string]any{"config": "eb8a0800"}, "Decode: %v", err)
	}
	want := a.Derived()
	if got := audioFromASC(&asc, nil); got.diff(want) != "" {
		evid.Violation(t, "witness-aac-ps", audioCase{Config: "eb8a0800", Want: want, Got: got, At: "decoder", Elements: ascElements(a)},
			"AudioSpecificConfig EB8A0800 (AOT 29 explicit PS): %s", got.diff(want))
	}
}

func checkVideoWitness(t *testing.T, name, kind string, nal []byte, want h26xps.Video, elements string) {
	t.Helper()
	evid.Eval(1)
	var got videoGot
	switch kind {
	case "h264sps":
		got = decodeH264(nal)
	case "h265sps":
		got = decodeH265(nal)
	}
	if d := got.diff(want); d != "" {
		evid.Violation(t, name, videoCase{Kind: kind, NAL: hex.EncodeToString(nal), Want: want, Got: got, At: "decoder", Elements: elements},
			"%s: %s [%s]", name, d, elements)
	}
}

// W6: RFC 7798 fmtp parameters after the sprop-* ones made ipchub give up on
// the parameter sets (every value was base64-decoded, whatever its name).
func TestWitnessH265SDPParamsAfterSprop(t *testing.T) {
	sps := h26xps.NewH265SPS(640, 480)
	nal := sps.Encode()
	for _, o := range []sdpOpts{{SpropLast: true}, {SpropLast: true, SpropFirst: true, Space: true}} {
		sdp := h265SDP(h26xps.MinimalH265VPS(), nal, h26xps.MinimalH265PPS(), o)
		evid.Eval(1)
		got, _ := streamVideo(sdp)
		if d := got.diff(sps.Derived()); d != "" {
			evid.Violation(t, "witness-h265-sdp-order", videoCase{Kind: "h265sps", NAL: hex.EncodeToString(nal), SDP: sdp, Want: sps.Derived(), Got: got, At: "stream", Elements: h265Elements(sps)},
				"H.265 fmtp with parameters after sprop-*: %s", d)
		}
	}
}

// W4b: a predicted RPS whose 16 use_delta_flags are all set but whose derived
// set holds 15 pictures (one candidate lands on dPoc 0 and is dropped, 7-61/7-62)
// was refused by a count of the flags; the refusal was ignored by the caller,
// so the set stayed empty and every later predicted set was mis-sized.
func TestWitnessH265InterRPSZeroDelta(t *testing.T) {
	s := h26xps.NewH265SPS(640, 480)
	s.OrderingInfo[0].MaxDecPicBufferingMinus1 = 15
	all := func(n int) []bool {
		b := make([]bool, n)
		for i := range b {
			b[i] = true
		}
		return b
	}
	s.StRefPicSet = []h26xps.H265STRPS{
		{NumPositivePics: 15, DeltaPocS1Minus1: make([]uint32, 15), UsedByCurrPicS1Flag: all(15)},
		{InterRefPicSetPredictionFlag: true, DeltaRpsSign: true, UsedByCurrPicFlag: all(16), UseDeltaFlag: all(16)},
		{InterRefPicSetPredictionFlag: true, UsedByCurrPicFlag: all(16), UseDeltaFlag: all(16)},
	}
	s.NumShortTermRefPicSets = 3
	checkVideoWitness(t, "witness-h265-inter-rps-zero", "h265sps", s.Encode(), s.Derived(), h265Elements(s))
}

// W7: VPS with two hrd_parameters(); the second has cprms_present_flag = 0 and
// takes nal_hrd_parameters_present_flag = 1 over from the first (7.4.3.1), so
// its sub_layer_hrd_parameters() are present. ipchub treated the flags of the
// second structure as 0, under-read it and ran off the end / lost sync.
func TestWitnessH265VPSCprms(t *testing.T) {
	v := h26xps.NewH265VPS()
	v.NumLayerSetsMinus1 = 1
	v.LayerIDIncludedFlag = [][]bool{{true}}
	v.TimingInfoPresentFlag, v.NumUnitsInTick, v.TimeScale = true, 1001, 30000
	sub := func(rate uint32) []h26xps.H265HRDSubLayer {
		return []h26xps.H265HRDSubLayer{{FixedPicRateGeneralFlag: true, FixedPicRateWithinCvsFlag: true,
			Nal: h26xps.H265SubLayerHRD{BitRateValueMinus1: []uint32{rate}, CpbSizeValueMinus1: []uint32{70000}, CbrFlag: []bool{true}}}}
	}
	v.NumHrdParameters = 2
	v.HrdLayerSetIdx = []uint32{0, 1}
	v.CprmsPresentFlag = []bool{true, false}
	v.Hrd = []h26xps.H265HRD{
		{NalHrdParametersPresentFlag: true, InitialCpbRemovalDelayLengthMinus1: 23, AuCpbRemovalDelayLengthMinus1: 23, DpbOutputDelayLengthMinus1: 23, SubLayers: sub(1000000)},
		{SubLayers: sub(2000000)},
	}
	v.ExtensionFlag = true
	nal := v.Encode()
	evid.Eval(1)
	got := decodeVPS(nal)
	if got.Err != "" || !got.ExtFlag || got.TimeScale != 30000 {
		evid.Violation(t, "witness-h265-vps-cprms", vpsCase{Kind: "h265vps", NAL: hex.EncodeToString(nal), Got: got, Elements: vpsElements(v)},
			"VPS with cprms_present_flag[1] = 0: %+v", got)
	}
}

// W8: rtpmap without a channel count (legal for mono, RFC 4566 6 / RFC 3640
// 4.1) and config=1208 (AAC-LC, 44100 Hz, channelConfiguration 1): the stream
// reported 2 channels because the AudioSpecificConfig was never consulted.
func TestWitnessSDPMonoWithoutChannels(t *testing.T) {
	a := aacasc.LC(44100, 1)
	cfg := a.Encode()
	if hex.EncodeToString(cfg) != "1208" {
		t.Fatalf("encoder anchor: %x", cfg)
	}
	sdp := aacSDP(cfg, 44100, 1, true, false, true)
	evid.Eval(1)
	s := media.NewStream(nextPath(), sdp)
	got := audioGot{SampleRate: 44100, OutputRate: s.Audio.SampleRate, Channels: s.Audio.Channels}
	s.Close()
	if d := got.diff(a.Derived()); d != "" {
		evid.Violation(t, "witness-sdp-mono", audioCase{Config: "1208", SDP: sdp, Want: a.Derived(), Got: got, At: "stream", Elements: ascElements(a)},
			"rtpmap MPEG4-GENERIC/44100 with config=1208: %s", d)
	}
}

// W9: a media description whose transport is not RTP/AVP ("m=video 0 udp 96")
// is parsed by go-sdp without any format entry; ParseMetadata indexed
// Format[0] and the panic escaped through media.NewStream.
func TestWitnessSDPMediaWithoutFormat(t *testing.T) {
	for _, m := range []string{"m=video 0 udp 96\r\n", "m=audio 0 TCP 97\r\n"} {
		sdp := sdpHead + m
		evid.Eval(1)
		func() {
			defer func() {
				if r := recover(); r != nil {
					evid.Violation(t, "witness-sdp-no-format", map[string]string{"sdp": sdp}, "media.NewStream panicked on %q: %v", m, r)
				}
			}()
			s := media.NewStream(nextPath(), sdp)
			if s == nil {
				evid.Violation(t, "witness-sdp-no-format", map[string]string{"sdp": sdp}, "NewStream returned nil")
			}
			s.Close()
		}()
	}
}

// W10: a 45-byte VPS that announces 49702 hrd_parameters() structures (the
// standard allows at most vps_num_layer_sets_minus1 + 1 = 3 here, 7.4.3.1) made
// Decode allocate 363 MB before it ran off the end of the data. Found by the
// native fuzzer (workers were killed). The decoder must answer such input
// within a sane allocation; 8 MiB is three orders above what a valid VPS needs.
func TestWitnessVPSAllocation(t *testing.T) {
	in := []byte("@\x01\f\x01\xff\xff\x01`\x00\x03\x00\x90\x00\x03\x00\x03\x00x,7y\x00\x03\x00\x00\x00\x03\x002:\x00\x00\x03\x01\xa3\b\x9c\x00\xb4a\x13\x89")
	evid.Eval(1)
	var m0, m1 runtime.MemStats
	runtime.ReadMemStats(&m0)
	var v hevc.H265RawVPS
	err := v.Decode(in)
	runtime.ReadMemStats(&m1)
	if mb := (m1.TotalAlloc - m0.TotalAlloc) >> 20; mb > 8 {
		evid.Violation(t, "witness-vps-alloc", map[string]any{"nal": hex.EncodeToString(in), "alloc_mb": mb},
			"H265RawVPS.Decode of %d bytes allocated %d MB (err=%v)", len(in), mb, err != nil)
	}
}

// W11: profile_idc values of the 2021 edition that carry chroma_format_idc …
// seq_scaling_matrix (7.3.2.1.1) but were missing from ipchub's list: 128
// (Stereo High), 138, 139 (Multiview Depth), 134, 135 (MFC). The same 1920x1080
// 4:2:2 10-bit SPS is encoded under every profile_idc of the complete list; the
// syntax, and so the derived size, is identical for all of them.
func TestWitnessH264ProfileList(t *testing.T) {
	for _, prof := range h26xps.H264ProfilesWithChromaInfo {
		s := h26xps.NewH264SPS(1920, 1080)
		s.ProfileIdc, s.ConstraintSetFlag = prof, [6]bool{}
		s.ChromaFormatIdc, s.BitDepthLumaMinus8, s.BitDepthChromaMinus8 = 2, 2, 2
		s.FrameCropBottomOffset = 8 // CropUnitY 1 for 4:2:2
		checkVideoWitness(t, "witness-h264-profile-list", "h264sps", s.Encode(), s.Derived(), h264Elements(s))
	}
	for _, prof := range h26xps.H264ProfilesWithoutChromaInfo {
		s := h26xps.NewH264SPS(1920, 1080)
		s.ProfileIdc, s.ConstraintSetFlag = prof, [6]bool{}
		checkVideoWitness(t, "witness-h264-profile-list", "h264sps", s.Encode(), s.Derived(), h264Elements(s))
	}
}
