package c15

import (
	"bytes"
	"encoding/hex"
	"testing"

	"verif/harness/lib/aacasc"
	"verif/harness/lib/evid"
	"verif/harness/lib/h26xps"
)

// Validation anchor inside the check's own package (the full anchors — literal
// syntax-element values per capture and hand-assembled golden vectors — are in
// lib/h26xps/anchor_test.go and lib/aacasc/aacasc_test.go): every capture that
// ships in ipchub's tests is parsed by the harness's own syntax walk, which
// must end exactly on rbsp_trailing_bits, must derive the size / rate ipchub's
// test tables state for that capture, and must re-encode to the identical
// bytes. A harness that mis-reads the standard fails here before it can raise
// a false alarm against ipchub.
func TestAnchorEncodersReproduceCaptures(t *testing.T) {
	type vc struct {
		w, h int
		fps  float64
	}
	h264Want := []vc{{960, 540, 25}, {1280, 720, 30}, {3840, 2160, 60000.0 / 2002.0}, {704, 576, 15}}
	for i, c := range capturedH264 {
		raw := h26xps.StripStartCode(mustB64(c))
		p, err := h26xps.ParseH264SPS(raw)
		if err != nil {
			t.Fatalf("H.264 capture %d: %v", i, err)
		}
		d := p.Derived()
		if d.Width != h264Want[i].w || d.Height != h264Want[i].h || d.FrameRate != h264Want[i].fps || !bytes.Equal(p.Encode(), raw) {
			t.Fatalf("H.264 capture %d: derived %+v, re-encode equal=%v", i, d, bytes.Equal(p.Encode(), raw))
		}
		evid.Eval(1)
	}
	h265Want := []vc{{1280, 720, 24000.0 / 1001.0}, {1280, 720, 30}, {2880, 1620, 15}}
	for i, c := range capturedH265SPS {
		raw := h26xps.StripStartCode(mustB64(c))
		p, err := h26xps.ParseH265SPS(raw)
		if err != nil {
			t.Fatalf("H.265 capture %d: %v", i, err)
		}
		d := p.Derived()
		if d.Width != h265Want[i].w || d.Height != h265Want[i].h || d.FrameRate != h265Want[i].fps || !bytes.Equal(p.Encode(), raw) {
			t.Fatalf("H.265 capture %d: derived %+v", i, d)
		}
		evid.Eval(1)
	}
	for i, c := range capturedH265VPS {
		raw := h26xps.StripStartCode(mustB64(c))
		p, err := h26xps.ParseH265VPS(raw)
		if err != nil || !bytes.Equal(p.Encode(), raw) {
			t.Fatalf("H.265 VPS capture %d: %v", i, err)
		}
		evid.Eval(1)
	}
	for _, c := range []struct {
		hex      string
		rate, ch int
	}{{"121056e500", 44100, 2}, {"1190", 48000, 2}} {
		raw := mustHex(c.hex)
		p, err := aacasc.Parse(raw)
		if err != nil || p.Derived().SampleRate != c.rate || p.Derived().Channels != c.ch || hex.EncodeToString(p.Encode()) != c.hex {
			t.Fatalf("ASC capture %s: %v", c.hex, err)
		}
		evid.Eval(1)
	}
	// and the unchanged ipchub decoders agree with the harness on their own captures
	for i, c := range capturedH264 {
		if d := decodeH264(mustB64(c)).diff(h26xps.Video{Width: h264Want[i].w, Height: h264Want[i].h, FrameRate: h264Want[i].fps, Fixed: true}); d != "" {
			t.Fatalf("ipchub on its own H.264 capture %d: %s", i, d)
		}
	}
	for i, c := range capturedH265SPS {
		if d := decodeH265(mustB64(c)).diff(h26xps.Video{Width: h265Want[i].w, Height: h265Want[i].h, FrameRate: h265Want[i].fps, Fixed: true}); d != "" {
			t.Fatalf("ipchub on its own H.265 capture %d: %s", i, d)
		}
	}
}
