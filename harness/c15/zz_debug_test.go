package c15

import (
	"encoding/hex"
	"fmt"
	"os"
	"testing"

	"github.com/cnotch/ipchub/av/codec/hevc"
	"verif/harness/lib/h26xps"
)

func TestZZDebug(t *testing.T) {
	h := os.Getenv("C15_NAL")
	if h == "" {
		t.Skip()
	}
	nal, _ := hex.DecodeString(h)
	p, err := h26xps.ParseH265SPS(nal)
	if err != nil {
		t.Fatal(err)
	}
	var raw hevc.H265RawSPS
	err = raw.Decode(nal)
	fmt.Println("err", err)
	for i := range p.StRefPicSet {
		r := p.StRefPicSet[i]
		fmt.Printf("mine[%d] inter=%v sign=%v abs=%d used=%v usedelta=%v S0=%v S1=%v\n", i, r.InterRefPicSetPredictionFlag, r.DeltaRpsSign, r.AbsDeltaRpsMinus1, r.UsedByCurrPicFlag, r.UseDeltaFlag, r.DeltaPocS0, r.DeltaPocS1)
		if i < len(raw.St_ref_pic_set) {
			q := raw.St_ref_pic_set[i]
			fmt.Printf("ipch[%d] inter=%v sign=%v abs=%d nneg=%d npos=%d s0m1=%v s1m1=%v used=%v usedelta=%v\n", i, q.Inter_ref_pic_set_prediction_flag, q.Delta_rps_sign, q.Abs_delta_rps_minus1, q.Num_negative_pics, q.Num_positive_pics, q.Delta_poc_s0_minus1[:q.Num_negative_pics], q.Delta_poc_s1_minus1[:q.Num_positive_pics], q.Used_by_curr_pic_flag, q.Use_delta_flag)
		}
	}
	fmt.Printf("lt mine %v %d ; ipchub %d %d\n", p.LongTermRefPicsPresentFlag, p.NumLongTermRefPicsSps, raw.Long_term_ref_pics_present_flag, raw.Num_long_term_ref_pics_sps)
	fmt.Printf("vui ipchub %+v\n", raw.Vui.Vui_timing_info_present_flag)
}
