package c15

import (
	"bufio"
	"bytes"
	"encoding/base64"
	"encoding/hex"
	"fmt"
	"strings"
	"testing"
	"time"

	"github.com/cnotch/ipchub/av/codec"
	"github.com/cnotch/ipchub/av/codec/aac"
	"github.com/cnotch/ipchub/av/codec/h264"
	"github.com/cnotch/ipchub/av/codec/hevc"
	"github.com/cnotch/ipchub/av/format/rtp"
	ipsdp "github.com/cnotch/ipchub/av/format/sdp"
	"github.com/cnotch/ipchub/media"
	"github.com/cnotch/ipchub/utils"
	"verif/harness/lib/aacasc"
	"verif/harness/lib/bitio"
	"verif/harness/lib/evid"
	"verif/harness/lib/h26xps"
)

// Totality half of C15. Oracle of every target: the call returns (a panic that
// escapes crashes the fuzz worker, a loop trips the fuzz engine's / go test's
// timeout), and — so that the native fuzzer also searches the correctness half
// by mutating valid sets — whenever the harness's strict parser accepts the
// bytes as a parameter set inside the generated domain, ipchub must report the
// standard-derived values for it.

const maxFuzzLen = 4096 // "all byte strings up to a bounded length"

var hostile = [][]byte{
	{}, {0x00}, {0x67}, {0x42, 0x01}, {0x40, 0x01}, {0xff, 0xff, 0xff, 0xff},
	{0x00, 0x00, 0x01}, {0x00, 0x00, 0x00, 0x01}, {0x00, 0x00, 0x00, 0x01, 0x67},
	{0x00, 0x00, 0x03}, {0x00, 0x00, 0x03, 0x00, 0x00, 0x03}, {0x67, 0x00, 0x00, 0x03},
	bytes.Repeat([]byte{0x00}, 64), // endless Exp-Golomb prefix
	bytes.Repeat([]byte{0xff}, 64), // every ue(v) = 0, every flag set
	append([]byte{0x67, 100, 0, 40}, bytes.Repeat([]byte{0x00}, 40)...),
	append([]byte{0x67, 100, 0, 40}, bytes.Repeat([]byte{0xff}, 40)...),
	append([]byte{0x67, 244, 0, 40, 0x00, 0x00, 0x03}, bytes.Repeat([]byte{0x55}, 80)...),
	append([]byte{0x42, 0x01, 0xef}, bytes.Repeat([]byte{0xff}, 100)...), // 7+1 sub-layers, every flag set
	append([]byte{0x42, 0x01, 0x01}, bytes.Repeat([]byte{0x00}, 100)...),
	append([]byte{0x40, 0x01, 0x0c, 0x0f, 0xff, 0xff}, bytes.Repeat([]byte{0xff}, 100)...),
	append([]byte{0x40, 0x01, 0x0c, 0x01, 0xff, 0xff}, bytes.Repeat([]byte{0x00}, 100)...),
	// VPS asking for 65535 layer sets / hrd_parameters in a few bytes
	mustHex("40010c01ffff016000000300900000030000030078" + "0000ffff" + "ffffffff"),
}

func mustHex(s string) []byte {
	b, err := hex.DecodeString(s)
	if err != nil {
		panic(err)
	}
	return b
}

func mustB64(s string) []byte {
	b, err := base64.StdEncoding.DecodeString(s)
	if err != nil {
		panic(err)
	}
	return b
}

var capturedH264 = []string{"Z01AH6sSB4CL9wgAAAMACAAAAwGUeMGMTA==", "Z2QAH6zZQFAFuhAAAAMAEAAAAwPI8YMZYA==",
	"Z2QAM6wspADwAQ+wFSAgICgAAB9IAAdTBO0LFok=", "AAAAAWdkAB6s0gLASaEAAAMAAQAAAwAehA=="}
var capturedH265SPS = []string{"QgEBAWAAAAMAkAAAAwAAAwBdoAKAgC0WWVmkkyuAQAAA+kAAF3AC", "QgEBBAgAAAMAnQgAAAMAAF2wAoCALRZZWaSTK4BAAAADAEAAAAeC",
	"AAAAAUIBAQFgAAADAAADAAADAAADAJagAWggBln3ja5JMmuWMAgAAAMACAAAAwB4QA=="}
var capturedH265VPS = []string{"QAEMAf//BAgAAAMAnQgAAAMAAF2VmAk=", "QAEMAf//AWAAAAMAkAAAAwAAAwBdlZgJ", "AAAAAUABDAH//wFgAAADAAADAAADAAADAJasCQ=="}

func addSeeds(f *testing.F, captures []string, extra ...[]byte) {
	for _, h := range hostile {
		f.Add(h)
	}
	for _, c := range captures {
		f.Add(mustB64(c))
	}
	for _, e := range extra {
		f.Add(e)
	}
}

// richH264 / richH265 / richVPS: hand-made sets that take the rare branches, as
// mutation material for the fuzzer.
func richH264() [][]byte {
	a := h26xps.NewH264SPS(1920, 1080)
	a.ProfileIdc, a.ChromaFormatIdc, a.SeqScalingMatrixPresentFlag = 244, 3, true
	for i := 0; i < 12; i += 2 {
		a.ScalingList[i] = h26xps.H264ScalingList{Present: true, Deltas: []int32{-8}}
	}
	a.ScalingList[1] = h26xps.H264ScalingList{Present: true, Deltas: []int32{3, -4, 120, -127}}
	a.PicOrderCntType, a.OffsetForNonRefPic, a.OffsetForTopToBottomField = 1, -2147483647, 2147483647
	a.NumRefFramesInPicOrderCntCycle, a.OffsetForRefFrame = 3, []int32{-1, 70000, -3}
	a.FrameMbsOnlyFlag, a.MbAdaptiveFrameFieldFlag, a.PicHeightInMapUnitsMinus1 = false, true, 33
	a.FrameCroppingFlag, a.FrameCropBottomOffset = true, 4
	a.Vui.NalHrdParametersPresentFlag = true
	a.Vui.NalHrd = h26xps.H264HRD{CpbCntMinus1: 1, BitRateValueMinus1: []uint32{1000, 4294967294}, CpbSizeValueMinus1: []uint32{7, 65535}, CbrFlag: []bool{true, false}}
	a.Vui.VclHrdParametersPresentFlag = true
	a.Vui.VclHrd = h26xps.H264HRD{BitRateValueMinus1: []uint32{0}, CpbSizeValueMinus1: []uint32{0}, CbrFlag: []bool{false}}
	a.Vui.BitstreamRestrictionFlag, a.Vui.MaxDecFrameBuffering = true, 16
	out := [][]byte{a.Encode(), h26xps.MinimalH264SPS(640, 480), h26xps.MinimalH264PPS()}
	// one SPS per profile_idc that has the chroma branch (7.3.2.1.1), incl. the SVC / MVC / MFC ones
	for _, prof := range h26xps.H264ProfilesWithChromaInfo {
		b := h26xps.NewH264SPS(1920, 1080)
		b.ProfileIdc, b.ChromaFormatIdc, b.BitDepthLumaMinus8, b.FrameCropBottomOffset = prof, 2, 2, 8
		out = append(out, b.Encode())
	}
	return out
}

func richH265() [][]byte {
	s := h26xps.NewH265SPS(1918, 1078)
	s.MaxSubLayersMinus1, s.TemporalIDNestingFlag = 2, false
	s.PTL.SubLayerProfilePresentFlag, s.PTL.SubLayerLevelPresentFlag = []bool{true, false}, []bool{true, true}
	s.PTL.SubLayer = []h26xps.H265ProfileInfo{s.PTL.General, {}}
	s.PTL.SubLayerLevelIdc = []uint32{90, 93}
	s.SubLayerOrderingInfoPresentFlag = true
	s.OrderingInfo = []h26xps.H265OrderingInfo{{MaxDecPicBufferingMinus1: 2}, {MaxDecPicBufferingMinus1: 3, MaxNumReorderPics: 1}, {MaxDecPicBufferingMinus1: 5, MaxNumReorderPics: 2, MaxLatencyIncreasePlus1: 70000}}
	s.StRefPicSet = []h26xps.H265STRPS{
		{NumNegativePics: 2, NumPositivePics: 1, DeltaPocS0Minus1: []uint32{0, 1}, UsedByCurrPicS0Flag: []bool{true, true}, DeltaPocS1Minus1: []uint32{0}, UsedByCurrPicS1Flag: []bool{true}},
		{InterRefPicSetPredictionFlag: true, DeltaRpsSign: true, UsedByCurrPicFlag: []bool{true, false, true, true}, UseDeltaFlag: []bool{true, false, true, true}},
	}
	s.NumShortTermRefPicSets = 2
	s.LongTermRefPicsPresentFlag, s.NumLongTermRefPicsSps = true, 2
	s.LtRefPicPocLsbSps, s.UsedByCurrPicLtSpsFlag = []uint32{255, 1}, []bool{true, false}
	s.PcmEnabledFlag, s.PcmSampleBitDepthLumaMinus1, s.PcmSampleBitDepthChromaMinus1 = true, 7, 7
	s.Vui.HrdParametersPresentFlag = true
	s.Vui.Hrd = h26xps.H265HRD{NalHrdParametersPresentFlag: true, SubPicHrdParamsPresentFlag: true, SubLayers: make([]h26xps.H265HRDSubLayer, 3)}
	for i := range s.Vui.Hrd.SubLayers {
		s.Vui.Hrd.SubLayers[i] = h26xps.H265HRDSubLayer{LowDelayHrdFlag: true, Nal: h26xps.H265SubLayerHRD{BitRateValueMinus1: []uint32{9}, CpbSizeValueMinus1: []uint32{9},
			CpbSizeDuValueMinus1: []uint32{1}, BitRateDuValueMinus1: []uint32{1}, CbrFlag: []bool{true}}}
	}
	s.ExtensionPresentFlag, s.RangeExtensionFlag = true, true
	return [][]byte{s.Encode(), h26xps.MinimalH265SPS(640, 480)}
}

func richVPS() [][]byte {
	v := h26xps.NewH265VPS()
	v.NumLayerSetsMinus1, v.MaxLayerID = 2, 3
	v.LayerIDIncludedFlag = [][]bool{{true, false, true, true}, {true, true, false, false}}
	v.TimingInfoPresentFlag, v.NumUnitsInTick, v.TimeScale = true, 1, 50
	v.NumHrdParameters, v.HrdLayerSetIdx, v.CprmsPresentFlag = 2, []uint32{0, 2}, []bool{true, false}
	sub := []h26xps.H265HRDSubLayer{{FixedPicRateGeneralFlag: true, FixedPicRateWithinCvsFlag: true, CpbCntMinus1: 1,
		Vcl: h26xps.H265SubLayerHRD{BitRateValueMinus1: []uint32{5, 6}, CpbSizeValueMinus1: []uint32{7, 8}, CbrFlag: []bool{true, false}}}}
	v.Hrd = []h26xps.H265HRD{{VclHrdParametersPresentFlag: true, SubLayers: sub}, {SubLayers: sub}}
	v.ExtensionFlag, v.ExtensionData = true, []bool{true, false, true}
	return [][]byte{v.Encode(), h26xps.MinimalH265VPS()}
}

// ---- domain predicates for the differential part --------------------------

func h264InDomain(s *h26xps.H264SPS) bool {
	// every profile_idc is in the domain (the syntax table decides the branch,
	// h26xps.HasChromaInfo) except the reserved value 183, which ipchub, after
	// FFmpeg, deliberately reads as monochrome
	if s.ProfileIdc == 183 {
		return false
	}
	d := s.Derived()
	hrdOK := func(h *h26xps.H264HRD) bool { return h.CpbCntMinus1 <= 31 }
	return s.SeqParameterSetID <= 31 && s.BitDepthLumaMinus8 <= 6 && s.BitDepthChromaMinus8 <= 6 &&
		s.Log2MaxFrameNumMinus4 <= 12 && s.PicOrderCntType <= 2 && s.Log2MaxPicOrderCntLsbMinus4 <= 12 &&
		s.MaxNumRefFrames <= 16 && s.PicWidthInMbsMinus1 < 1024 && s.PicHeightInMapUnitsMinus1 < 1024 &&
		d.Width > 0 && d.Height > 0 && d.Width <= 16384 && d.Height <= 16384 &&
		(!s.VuiParametersPresentFlag || (hrdOK(&s.Vui.NalHrd) && hrdOK(&s.Vui.VclHrd) &&
			(!s.Vui.TimingInfoPresentFlag || (s.Vui.NumUnitsInTick > 0 && s.Vui.TimeScale > 0)) &&
			s.Vui.ChromaSampleLocTypeTopField <= 5 && s.Vui.ChromaSampleLocTypeBottomField <= 5 &&
			s.Vui.MaxBytesPerPicDenom <= 16 && s.Vui.MaxBitsPerMbDenom <= 16 && s.Vui.Log2MaxMvLengthHorizontal <= 16 &&
			s.Vui.Log2MaxMvLengthVertical <= 16 && s.Vui.MaxNumReorderFrames <= 16 && s.Vui.MaxDecFrameBuffering <= 16))
}

func hrd265OK(h *h26xps.H265HRD) bool {
	for i := range h.SubLayers {
		if h.SubLayers[i].CpbCntMinus1 > 31 || h.SubLayers[i].ElementalDurationInTcMinus1 > 2047 {
			return false
		}
	}
	return true
}

func orderingOK(info []h26xps.H265OrderingInfo) bool {
	for _, o := range info {
		if o.MaxDecPicBufferingMinus1 > 15 || o.MaxNumReorderPics > 15 {
			return false
		}
	}
	return true
}

func h265InDomain(s *h26xps.H265SPS) bool {
	d := s.Derived()
	if s.NuhTemporalIDPlus1 == 0 || s.SeqParameterSetID > 15 || s.BitDepthLumaMinus8 > 8 || s.BitDepthChromaMinus8 > 8 ||
		s.Log2MinLumaCodingBlockSizeMinus3 > 3 || s.Log2DiffMaxMinLumaCodingBlockSize > 3 ||
		s.Log2MinLumaTransformBlockSizeMinus2 > 3 || s.Log2DiffMaxMinLumaTransformBlockSize > 3 ||
		s.MaxTransformHierarchyDepthInter > 4 || s.MaxTransformHierarchyDepthIntra > 4 ||
		s.Log2MinPcmLumaCodingBlockSizeMinus3 > 2 || s.Log2DiffMaxMinPcmLumaCodingBlockSize > 2 ||
		d.Width <= 0 || d.Height <= 0 || s.PicWidthInLumaSamples > 16384 || s.PicHeightInLumaSamples > 16384 || !orderingOK(s.OrderingInfo) {
		return false
	}
	minCb := uint32(1) << (s.Log2MinLumaCodingBlockSizeMinus3 + 3)
	if s.PicWidthInLumaSamples%minCb != 0 || s.PicHeightInLumaSamples%minCb != 0 {
		return false
	}
	for i := range s.StRefPicSet {
		r := &s.StRefPicSet[i]
		if r.NumDeltaPocs() > 15 || r.AbsDeltaRpsMinus1 > 32767 {
			return false
		}
		for _, v := range append(append([]uint32{}, r.DeltaPocS0Minus1...), r.DeltaPocS1Minus1...) {
			if v > 32767 {
				return false
			}
		}
	}
	if s.SpsScalingListDataPresentFlag {
		for sz := 0; sz < 4; sz++ {
			for m := 0; m < 6; m++ {
				if s.ScalingList.PredMatrixIdDelta[sz][m] > 5 {
					return false
				}
			}
		}
	}
	v := &s.Vui
	if s.VuiParametersPresentFlag {
		if v.TimingInfoPresentFlag && (v.NumUnitsInTick == 0 || v.TimeScale == 0 || (v.HrdParametersPresentFlag && !hrd265OK(&v.Hrd))) {
			return false
		}
		if v.ChromaSampleLocTypeTopField > 5 || v.ChromaSampleLocTypeBottomField > 5 || v.MinSpatialSegmentationIdc > 4095 ||
			v.MaxBytesPerPicDenom > 16 || v.MaxBitsPerMinCuDenom > 16 || v.Log2MaxMvLengthHorizontal > 15 || v.Log2MaxMvLengthVertical > 15 ||
			v.DefDispWinLeftOffset > 16384 || v.DefDispWinRightOffset > 16384 || v.DefDispWinTopOffset > 16384 || v.DefDispWinBottomOffset > 16384 {
			return false
		}
	}
	return true
}

func vpsInDomain(v *h26xps.H265VPS) bool {
	if v.MaxLayerID > 62 || v.NumLayerSetsMinus1 > 1023 || v.NumHrdParameters > v.NumLayerSetsMinus1+1 || !orderingOK(v.OrderingInfo) ||
		(v.MaxSubLayersMinus1 == 0 && !v.TemporalIDNestingFlag) {
		return false
	}
	for i := range v.Hrd {
		if !hrd265OK(&v.Hrd[i]) || v.HrdLayerSetIdx[i] > v.NumLayerSetsMinus1 {
			return false
		}
	}
	return true
}

// ---- decoder targets ------------------------------------------------------

func FuzzH264SPS(f *testing.F) {
	addSeeds(f, capturedH264, richH264()...)
	f.Fuzz(func(t *testing.T, data []byte) {
		if len(data) > maxFuzzLen {
			return
		}
		evid.Eval(1)
		got := decodeH264(data) // must return; Width/Height/FrameRate are evaluated inside
		p, err := h26xps.ParseH264SPS(data)
		if err != nil || !h264InDomain(p) {
			return
		}
		evid.Class("fuzz/h264-valid-set")
		if d := got.diff(p.Derived()); d != "" {
			evid.Violation(t, "fuzz-h264", videoCase{Kind: "h264sps", NAL: hex.EncodeToString(data), Want: p.Derived(), Got: got, At: "decoder", Elements: h264Elements(p)},
				"valid SPS found by fuzzing: %s [%s]", d, h264Elements(p))
		}
	})
}

func FuzzH265SPS(f *testing.F) {
	addSeeds(f, capturedH265SPS, richH265()...)
	f.Fuzz(func(t *testing.T, data []byte) {
		if len(data) > maxFuzzLen {
			return
		}
		evid.Eval(1)
		got := decodeH265(data)
		p, err := h26xps.ParseH265SPS(data)
		if err != nil || !h265InDomain(p) {
			return
		}
		evid.Class("fuzz/h265-valid-set")
		if d := got.diff(p.Derived()); d != "" {
			evid.Violation(t, "fuzz-h265", videoCase{Kind: "h265sps", NAL: hex.EncodeToString(data), Want: p.Derived(), Got: got, At: "decoder", Elements: h265Elements(p)},
				"valid SPS found by fuzzing: %s [%s]", d, h265Elements(p))
		}
	})
}

func FuzzH265VPS(f *testing.F) {
	addSeeds(f, capturedH265VPS, richVPS()...)
	f.Fuzz(func(t *testing.T, data []byte) {
		if len(data) > maxFuzzLen {
			return
		}
		evid.Eval(1)
		got := decodeVPS(data)
		p, err := h26xps.ParseH265VPS(data)
		if err != nil || !vpsInDomain(p) {
			return
		}
		evid.Class("fuzz/vps-valid-set")
		if got.Err != "" || got.TimingPresent != p.TimingInfoPresentFlag || (p.TimingInfoPresentFlag && (got.NumUnits != p.NumUnitsInTick || got.TimeScale != p.TimeScale)) {
			evid.Violation(t, "fuzz-vps", vpsCase{Kind: "h265vps", NAL: hex.EncodeToString(data), Got: got, Elements: vpsElements(p)},
				"valid VPS found by fuzzing: got %+v [%s]", got, vpsElements(p))
		}
	})
}

func FuzzASC(f *testing.F) {
	for _, h := range hostile {
		f.Add(h)
	}
	for _, s := range []string{"1190", "121056E500", "2b920800", "eb8a0800", "f84840", "1208", "13f0bb8030", "ffffffffffff", "f9ffffff",
		"20" + "414c5300" + "0000ac44" + "00000000" + "0001" + "00000000", // AOT via escape -> ALS-like bytes
		"f8a0" + "00414c5300" + "0000bb80" + "ffffffff" + "ffff" + "0000"} {
		f.Add(mustHex(s))
	}
	f.Fuzz(func(t *testing.T, data []byte) {
		if len(data) > maxFuzzLen {
			return
		}
		evid.Eval(1)
		var asc aac.AudioSpecificConfig
		err := asc.Decode(data)
		_ = asc.ToAdtsHeader(100)
		am := codec.AudioMeta{Codec: "AAC", Sps: data}
		_ = aac.MetadataIsReady(&am)
		p, perr := aacasc.Parse(data)
		if perr != nil || scanFalseSync(p, data) {
			return
		}
		evid.Class("fuzz/asc-valid-config")
		want := p.Derived()
		c := audioCase{Config: hex.EncodeToString(data), Want: want, At: "decoder", Elements: ascElements(p)}
		if err != nil {
			evid.Violation(t, "fuzz-asc", c, "valid config %x rejected: %s", data, firstLine(err.Error()))
		}
		got := audioFromASC(&asc, nil)
		c.Got = got
		if d := got.diff(want); d != "" {
			evid.Violation(t, "fuzz-asc", c, "valid config %x found by fuzzing: %s [%s]", data, d, ascElements(p))
		}
	})
}

// FuzzEmulationPrevention: utils.RemoveH264or5EmulationBytes against the
// harness's own implementation of H.264 7.3.1 / 7.4.1 (drop every 03 that
// follows two zero bytes; an Annex-B start code in front is removed first).
func FuzzEmulationPrevention(f *testing.F) {
	for _, h := range hostile {
		f.Add(h)
	}
	f.Add([]byte{0, 0, 3, 0, 0, 3, 0, 0, 3})
	f.Add([]byte{1, 0, 0, 3})
	f.Add([]byte{0, 0, 1, 0, 0, 3, 1})
	f.Add([]byte{0, 0, 0, 1, 0, 0, 0, 3, 0, 0, 3, 3, 0, 0, 0})
	f.Add([]byte{0x67, 0, 0, 0, 3, 0, 0, 0, 0, 3, 0x80})
	f.Fuzz(func(t *testing.T, data []byte) {
		if len(data) > maxFuzzLen {
			return
		}
		evid.Eval(1)
		in := append([]byte(nil), data...)
		got := utils.RemoveH264or5EmulationBytes(in)
		if !bytes.Equal(in, data) {
			evid.Violation(t, "fuzz-epb", map[string]string{"in": hex.EncodeToString(data)}, "RemoveH264or5EmulationBytes modified its input")
		}
		want := bitio.UnescapeRBSP(h26xps.StripStartCode(data))
		if !bytes.Equal(got, want) {
			evid.Violation(t, "fuzz-epb", map[string]string{"in": hex.EncodeToString(data), "got": hex.EncodeToString(got), "want": hex.EncodeToString(want)},
				"RemoveH264or5EmulationBytes(% x) = % x, H.264 7.3.1 gives % x", data, got, want)
		}
	})
}

// ---- SDP / stream targets -------------------------------------------------

type chanConsumer struct {
	got    chan media.Pack
	closed chan struct{}
}

func newChanConsumer() *chanConsumer {
	return &chanConsumer{got: make(chan media.Pack, 16), closed: make(chan struct{}, 4)}
}
func (c *chanConsumer) Consume(p media.Pack) {
	select {
	case c.got <- p:
	default:
	}
}
func (c *chanConsumer) Close() error {
	select {
	case c.closed <- struct{}{}:
	default:
	}
	return nil
}

// rtpPacket builds an interleaved RTP packet the way the server reads it.
func rtpPacket(channel byte, pt byte, seq uint16, payload []byte) *rtp.Packet {
	raw := []byte{'$', channel, 0, 0, 0x80, 0x80 | pt, byte(seq >> 8), byte(seq), 0, 0, 0x12, 0x34, 0xde, 0xad, 0xbe, 0xef}
	raw = append(raw, payload...)
	n := len(raw) - 4
	raw[2], raw[3] = byte(n>>8), byte(n)
	p, err := rtp.ReadPacket(bufio.NewReader(bytes.NewReader(raw)), []int{0, 1, 2, 3})
	if err != nil {
		panic(err)
	}
	return p
}

// usable decides "still yields a usable stream": NewStream returns a stream, a
// consumer can join and a published RTP packet reaches it unchanged. (Whether
// Close releases the consumer is property C03's business, not checked here.)
// The wait is 5 s (below the fuzz engine's own 10 s watchdog), four orders of magnitude above the normal latency; it only
// bounds a hang.
func usable(t evid.TB, name string, sdp string, detail any) {
	s := media.NewStream(nextPath(), sdp)
	if s == nil {
		evid.Violation(t, name, detail, "NewStream returned nil")
		return
	}
	c := newChanConsumer()
	s.StartConsume(c, media.RTPPacket, "c15")
	pkt := rtpPacket(rtp.ChannelVideo, 96, 7, []byte{0x41, 0x9a, 0x00, 0x10, 0x20})
	if err := s.WriteRtpPacket(pkt); err != nil {
		s.Close()
		evid.Violation(t, name, detail, "WriteRtpPacket on a fresh stream: %v", err)
		return
	}
	select {
	case p := <-c.got:
		if rp, ok := p.(*rtp.Packet); !ok || !bytes.Equal(rp.Data, pkt.Data) {
			s.Close()
			evid.Violation(t, name, detail, "consumer received a different packet")
			return
		}
	case <-time.After(5 * time.Second):
		s.Close()
		evid.Violation(t, name, detail, "published packet did not reach the consumer within 5 s")
		return
	}
	s.Close()
}

// FuzzParseMetadata: arbitrary SDP text.
func FuzzParseMetadata(f *testing.F) {
	sps, pps := h26xps.MinimalH264SPS(640, 480), h26xps.MinimalH264PPS()
	f.Add(h264SDP(sps, pps, sdpOpts{WithAudio: true}))
	f.Add(h265SDP(h26xps.MinimalH265VPS(), h26xps.MinimalH265SPS(640, 480), h26xps.MinimalH265PPS(), sdpOpts{SpropLast: true}))
	f.Add(aacSDP(mustHex("1210"), 44100, 2, false, false, false))
	for _, s := range []string{
		"", "v=0\r\n", "m=video 0 RTP/AVP\r\n", "v=0\r\nm=video 0 RTP/AVP \r\n", "v=0\r\nm=video 0 udp 96\r\n", "v=0\r\nm=audio 0 TCP 97\r\n",
		sdpHead + "m=video 0 RTP/AVP 96\r\na=rtpmap:96 H264/90000\r\na=fmtp:96 sprop-parameter-sets=\r\n",
		sdpHead + "m=video 0 RTP/AVP 96\r\na=rtpmap:96 H264/90000\r\na=fmtp:96 sprop-parameter-sets=,\r\n",
		sdpHead + "m=video 0 RTP/AVP 96\r\na=rtpmap:96 H264/90000\r\na=fmtp:96 sprop-parameter-sets=Zw==,aA==\r\n",
		sdpHead + "m=video 0 RTP/AVP 96\r\na=rtpmap:96 H264/90000\r\na=fmtp:96 sprop-parameter-sets=AAAAAQ==,AAAB\r\n",
		sdpHead + "m=video 0 RTP/AVP 96\r\na=rtpmap:96 H265/90000\r\na=fmtp:96 sprop-vps=;sprop-sps==;sprop-pps\r\n",
		sdpHead + "m=video 0 RTP/AVP 96\r\na=rtpmap:96 H265/90000\r\na=fmtp:96 sprop-sps=QgE=\r\n",
		sdpHead + "m=audio 0 RTP/AVP 97\r\na=rtpmap:97 MPEG4-GENERIC/0/0\r\na=fmtp:97 config=\r\n",
		sdpHead + "m=audio 0 RTP/AVP 97\r\na=rtpmap:97 MPEG4-GENERIC/-1\r\na=fmtp:97 config=zz\r\n",
		sdpHead + "m=audio 0 RTP/AVP 97\r\na=rtpmap:97 MPEG4-GENERIC/99999999999999999999/2\r\na=fmtp:97 config=ff\r\n",
		sdpHead + "m=audio 0 RTP/AVP 97\r\na=fmtp:97 config=1210\r\n",
		sdpHead + "m=video 0 RTP/AVP 96 97 98\r\na=fmtp:98 sprop-parameter-sets=Zw==\r\na=rtpmap:97 H264/90000\r\n",
		sdpHead + "m=video 0 RTP/AVP 96\r\na=rtpmap:96 H264\r\n", sdpHead + "m=video 0 RTP/AVP 96\r\na=rtpmap:96 /90000\r\na=fmtp:96 x\r\n",
		sdpHead + "m=application 0 RTP/AVP 107\r\n", sdpHead + "m=video 0 RTP/AVP 300\r\n",
		sdpHead + "m=video 0 udp 96\r\n", sdpHead + "m=audio 0 TCP 97\r\n", sdpHead + "m=video 0 udp 96\r\na=rtpmap:96 H264/90000\r\n",
	} {
		f.Add(s)
	}
	f.Fuzz(func(t *testing.T, raw string) {
		if len(raw) > 2*maxFuzzLen {
			return
		}
		evid.Eval(1)
		var v codec.VideoMeta
		var a codec.AudioMeta
		_ = ipsdp.ParseMetadata(raw, &v, &a) // must return without panicking
	})
}

// FuzzStreamFromSDP: arbitrary bytes as parameter sets inside a well-formed
// SDP — the stream must still be usable.
func FuzzStreamFromSDP(f *testing.F) {
	sps, pps := h26xps.MinimalH264SPS(640, 480), h26xps.MinimalH264PPS()
	f.Add(byte(0), sps, pps, []byte{}, mustHex("1210"))
	f.Add(byte(1), h26xps.MinimalH265SPS(640, 480), h26xps.MinimalH265PPS(), h26xps.MinimalH265VPS(), mustHex("121056e500"))
	for i, h := range hostile {
		f.Add(byte(i), h, hostile[(i+3)%len(hostile)], hostile[(i+5)%len(hostile)], hostile[(i+7)%len(hostile)])
	}
	f.Add(byte(0), []byte{0x67}, []byte{0x68}, []byte{}, []byte{0xff})
	f.Add(byte(0), []byte{0x67, 0x42}, []byte{0x68, 0xce}, []byte{}, []byte{0x2b})
	f.Add(byte(0), []byte{0x67, 0x42, 0x00}, []byte{}, []byte{}, []byte{})
	f.Add(byte(1), []byte{0x42, 0x01}, []byte{0x44, 0x01}, []byte{0x40, 0x01}, []byte{0xf8})
	f.Add(byte(1), []byte{0x42}, []byte{0x44}, []byte{0x40}, []byte{})
	f.Fuzz(func(t *testing.T, kind byte, sps, pps, vps, cfg []byte) {
		if len(sps)+len(pps)+len(vps)+len(cfg) > maxFuzzLen {
			return
		}
		evid.Eval(1)
		o := sdpOpts{SpropLast: kind&2 != 0, Space: kind&4 != 0, StartCode: int(kind>>3) & 1 * 4}
		var video string
		if kind&1 == 0 {
			video = h264SDP(sps, pps, o)
		} else {
			video = h265SDP(vps, sps, pps, o)
		}
		// video section of h264SDP/h265SDP starts after sdpHead
		sdp := video + "m=audio 0 RTP/AVP 97\r\na=rtpmap:97 MPEG4-GENERIC/44100/2\r\n" +
			"a=fmtp:97 profile-level-id=1;mode=AAC-hbr;sizelength=13;indexlength=3;indexdeltalength=3; config=" + hex.EncodeToString(cfg) + "\r\na=control:streamid=1\r\n"
		usable(t, "fuzz-stream", sdp, map[string]string{"kind": fmt.Sprint(kind), "sps": hex.EncodeToString(sps), "pps": hex.EncodeToString(pps),
			"vps": hex.EncodeToString(vps), "config": hex.EncodeToString(cfg), "sdp": sdp})
	})
}

var _ = strings.TrimSpace
var _ = h264.NalSps
var _ = hevc.NalSps
