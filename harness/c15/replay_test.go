package c15

import (
	"encoding/hex"
	"encoding/json"
	"os"
	"testing"

	"verif/harness/lib/aacasc"
	"verif/harness/lib/evid"
	"verif/harness/lib/h26xps"
)

// Known finding (not repaired, see /verif/known_findings.json):
// aac.AudioSpecificConfig.Decode does not walk the GASpecificConfig but
// searches the sync word 0x2b7 bit by bit from the end of the header, so a
// config whose coreCoderDelay / layerNr bits happen to spell 0x2b7 is read as if
// the SBR extension started there. Witness: AAC scalable (AOT 6), 96000 Hz
// explicit, mono, dependsOnCoreCoder = 1, coreCoderDelay = 0x2b, layerNr = 7,
// followed by the real sync extension announcing 88200 Hz.
func TestWitnessASCSyncScan(t *testing.T) {
	a := &aacasc.ASC{AOT: 6, SamplingFrequencyIndex: 15, SamplingFrequency: 96000, ChannelConfiguration: 1, DependsOnCoreCoder: true,
		CoreCoderDelay: 0x2b, LayerNr: 7, SyncExtension: true, SyncExtAOT: 5, SbrPresentFlag: true, SyncExtSamplingFrequencyIndex: 15, SyncExtSamplingFrequency: 88200}
	cfg := a.Encode()
	if hex.EncodeToString(cfg) != "3780bb800a015bab72fc056220" {
		t.Fatalf("encoder anchor: %x", cfg)
	}
	if !scanFalseSync(a, cfg) {
		t.Fatalf("classifier does not recognise its own witness")
	}
	evid.Eval(1)
	got, err := decodeASC(cfg)
	if err != nil || got.diff(a.Derived()) != "" {
		if evid.Known(sigSyncScan) {
			evid.Hit(sigSyncScan)
			return
		}
		evid.Violation(t, "witness-asc-sync-scan", audioCase{Config: hex.EncodeToString(cfg), Want: a.Derived(), Got: got, At: "decoder", Elements: ascElements(a)},
			"config %x: %s", cfg, got.diff(a.Derived()))
	}
}

// TestReplayFile re-runs one saved case (the JSON evid.Violation wrote) against
// the real decoders without any generation. rapid failures additionally replay
// through rapid's own fail file / -rapid.seed.
func TestReplayFile(t *testing.T) {
	p := os.Getenv("VERIF_REPLAY_FILE")
	if p == "" {
		t.Skip("no replay file")
	}
	b, err := os.ReadFile(p)
	if err != nil {
		t.Fatal(err)
	}
	var doc struct {
		Check string          `json:"check"`
		Case  json.RawMessage `json:"case"`
	}
	if err := json.Unmarshal(b, &doc); err != nil {
		t.Fatal(err)
	}
	var v videoCase
	var a audioCase
	json.Unmarshal(doc.Case, &v)
	json.Unmarshal(doc.Case, &a)
	switch {
	case v.Kind == "h264sps" || v.Kind == "h265sps":
		nal, _ := hex.DecodeString(v.NAL)
		var got videoGot
		if v.At == "stream" && v.SDP != "" {
			got, _ = streamVideo(v.SDP)
		} else if v.Kind == "h264sps" {
			got = decodeH264(nal)
		} else {
			got = decodeH265(nal)
		}
		// recompute the expectation from the bytes with the harness parser when it accepts them
		want := v.Want
		if v.Kind == "h264sps" {
			if p, err := h26xps.ParseH264SPS(nal); err == nil {
				want = p.Derived()
			}
		} else if p, err := h26xps.ParseH265SPS(nal); err == nil {
			want = p.Derived()
		}
		if d := got.diff(want); d != "" {
			t.Fatalf("%s at %s: %s [%s]", v.Kind, v.At, d, v.Elements)
		}
	case v.Kind == "h265vps":
		var c vpsCase
		json.Unmarshal(doc.Case, &c)
		nal, _ := hex.DecodeString(c.NAL)
		got := decodeVPS(nal)
		p, err := h26xps.ParseH265VPS(nal)
		if err != nil {
			t.Fatalf("harness parser rejects the saved VPS: %v", err)
		}
		if got.Err != "" || got.TimingPresent != p.TimingInfoPresentFlag || (p.TimingInfoPresentFlag && (got.NumUnits != p.NumUnitsInTick || got.TimeScale != p.TimeScale)) {
			t.Fatalf("VPS: got %+v [%s]", got, c.Elements)
		}
	case a.Config != "":
		cfg, _ := hex.DecodeString(a.Config)
		got, derr := decodeASC(cfg)
		want := a.Want
		if p, err := aacasc.Parse(cfg); err == nil {
			want = p.Derived()
		}
		if derr != nil || got.diff(want) != "" {
			t.Fatalf("config %s: err=%v %s [%s]", a.Config, derr, got.diff(want), a.Elements)
		}
	default:
		var m map[string]string
		json.Unmarshal(doc.Case, &m)
		if sdp, ok := m["sdp"]; ok {
			usable(t, "replay-stream", sdp, m)
			return
		}
		t.Fatalf("replay file of check %q has no recognised case", doc.Check)
	}
}
