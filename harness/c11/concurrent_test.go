package c11

import (
	"encoding/json"
	"fmt"
	"net/http"
	"strings"
	"sync"
	"sync/atomic"
	"testing"

	"verif/harness/lib/evid"
	"verif/harness/lib/srv"
)

// Concurrent API callers: every answer belongs to its caller.
//
// K goroutines — callers of three kinds: a guest without any right, a viewer
// with pull "*", an administrator — run login / refreshtoken / GET streams /
// GET users / GET server in a tight loop at the same time. Nothing here owns
// the schedule: the goroutines run freely (the interleaving that matters sits
// between two statements of one handler; a harness can only make it likely by
// running more callers than cores, so this class is exploration by stress, and
// a silent run says only that no mix-up showed in this many concurrent calls).
//
// Oracle (property C11: "management API calls succeed only for administrators
// … a token cannot be [obtained by somebody else]"):
//   - a login / refresh answer is a JSON object with two fresh tokens: no token
//     string is ever handed out twice;
//   - the token a caller was given identifies THAT caller: with it, GET
//     /api/v1/users answers 200 exactly for the administrator and the HLS
//     playlist of a live stream exactly for viewer and administrator;
//   - an answer carries the resource that was asked for: a streams listing has
//     "total" and no "users"/"access_token", a users listing has "users", the
//     server info has "vendor".

type apiCaller struct {
	kind, name, pass string
	admin, viewer    bool
}

func TestConcurrentAPIAnswersBelongToCaller(t *testing.T) {
	t.Parallel()
	sh := newShardPaths(t, 930, []string{"/a"}, nil)
	evid.Rule("concurrent API class: 48 goroutines (guest without rights, viewer with pull *, administrator; 16 each) run login / refreshtoken / GET streams / GET users / GET server for 120 rounds each at the same time, free-running; oracle: token strings are never handed out twice, a token behaves as the user who obtained it (users listing only for the administrator, playlist only for viewer and administrator), every JSON answer carries the resource asked for")
	evid.Assume("the concurrent API class is free-running stress: which interleavings occur is not controlled and differs between runs")
	callers := []apiCaller{
		{kind: "guest", name: "t930guest", pass: "g-pw"},
		{kind: "viewer", name: "t930viewer", pass: "v-pw", viewer: true},
		{kind: "admin", name: "t930admin", pass: "a-pw", admin: true, viewer: true},
	}
	srv.SaveUser(callers[0].name, callers[0].pass, false, "", "")
	srv.SaveUser(callers[1].name, callers[1].pass, false, "*", "")
	srv.SaveUser(callers[2].name, callers[2].pass, true, "", "")
	defer func() {
		for _, c := range callers {
			srv.DelUser(c.name)
		}
	}()
	sh.hc = &http.Client{Transport: &http.Transport{MaxIdleConnsPerHost: 128, MaxConnsPerHost: 128, DisableCompression: true},
		CheckRedirect: func(*http.Request, []*http.Request) error { return http.ErrUseLastResponse }}
	const perKind, rounds = 16, 120
	n := rounds
	if evid.Thorough() {
		n = rounds * 10
	}
	var (
		mu     sync.Mutex
		owner  = map[string]string{} // token string -> who was given it first
		first  string
		failed atomic.Bool
		evals  atomic.Int64
		logins atomic.Int64
		wg     sync.WaitGroup
	)
	report := func(format string, a ...any) {
		mu.Lock()
		if first == "" {
			first = fmt.Sprintf(format, a...)
		}
		mu.Unlock()
		failed.Store(true)
	}
	claim := func(who string, tp tokenPair) {
		mu.Lock()
		defer mu.Unlock()
		for _, tok := range []string{tp.A, tp.R} {
			if prev, dup := owner[tok]; dup {
				if first == "" {
					first = fmt.Sprintf("token %s was handed to %s and again to %s", tok, prev, who)
				}
				failed.Store(true)
			}
			owner[tok] = who
		}
	}
	object := func(b []byte) map[string]json.RawMessage {
		var m map[string]json.RawMessage
		if json.Unmarshal(b, &m) != nil {
			return nil
		}
		return m
	}
	// identity: what the token lets its holder do
	identify := func(c apiCaller, who string, tp tokenPair) {
		cred := httpCred{Token: tp.A, HasToken: true}
		st, body := sh.api("GET", "/api/v1/users", cred, nil)
		evals.Add(1)
		if (st == 200) != c.admin {
			report("the access token answered to %s's login lists users: status %d (administrator=%v) %s", who, st, c.admin, head(body, 60))
		}
		if st == 200 {
			if m := object(body); m == nil || m["users"] == nil {
				report("GET /api/v1/users for %s answered something else: %s", who, head(body, 120))
			}
		}
		o, _ := sh.hlsPlaylist(sh.live[0], cred)
		evals.Add(1)
		if o.Served != c.viewer {
			report("the access token answered to %s's login and the playlist of %s: served=%v status %d (pull right=%v)", who, sh.live[0], o.Served, o.Status, c.viewer)
		}
	}
	for k := 0; k < perKind; k++ {
		for _, c := range callers {
			wg.Add(1)
			go func(c apiCaller, k int) {
				defer wg.Done()
				who := fmt.Sprintf("%s#%d", c.kind, k)
				var cur tokenPair
				for i := 0; i < n && !failed.Load(); i++ {
					switch (i + k) % 6 {
					case 0, 1, 2: // login
						st, tp := sh.login(c.name, c.pass)
						evals.Add(1)
						logins.Add(1)
						if st != 200 {
							report("login of %s with its password answered %d", who, st)
							return
						}
						claim(who, tp)
						cur = tp
						if i%3 == 0 {
							identify(c, who, tp)
						}
					case 3: // refresh
						if cur.R == "" {
							continue
						}
						st, tp := sh.refresh(cur.R)
						evals.Add(1)
						if st != 200 {
							report("refresh of %s's own refresh token answered %d", who, st)
							return
						}
						claim(who, tp)
						cur = tp
						identify(c, who, tp)
					case 4: // streams listing (any authenticated user)
						if cur.A == "" {
							continue
						}
						st, body := sh.api("GET", "/api/v1/streams", httpCred{Token: cur.A, HasToken: true}, nil)
						evals.Add(1)
						m := object(body)
						if st != 200 || m == nil || m["total"] == nil || m["users"] != nil || m["access_token"] != nil || m["vendor"] != nil {
							report("GET /api/v1/streams for %s answered %d %s", who, st, head(body, 160))
						}
					case 5: // server info (anonymous)
						st, body := sh.api("GET", "/api/v1/server", httpCred{}, nil)
						evals.Add(1)
						m := object(body)
						if st != 200 || m == nil || m["vendor"] == nil || m["access_token"] != nil || m["users"] != nil || m["total"] != nil {
							report("GET /api/v1/server for %s answered %d %s", who, st, head(body, 160))
						}
					}
				}
			}(c, k)
		}
	}
	wg.Wait()
	evid.Eval(evals.Load())
	evid.ClassN("concurrent-api:calls", evals.Load())
	evid.ClassN("concurrent-api:logins", logins.Load())
	evid.NontrivialN(logins.Load()) // every concurrent login is a distinct case (fresh tokens)
	if first != "" {
		evid.Violation(t, "answer-belongs-to-another-caller", map[string]any{"goroutines": 3 * perKind, "rounds": n, "calls": evals.Load()}, "%s", strings.TrimSpace(first))
	}
}
