package c11

import (
	"errors"
	"fmt"
	"net/http"
	"strings"
	"time"

	"github.com/gorilla/websocket"
	"pgregory.net/rapid"
	"verif/harness/lib/evid"
)

// WSP client (the framing of Streamedian's html5_rtsp_player proxy protocol as
// service/wsp/protocol.go reads it): every request is one WebSocket message
//
//	WSP/1.1 <CMD>\r\n<name>: <value>\r\n…\r\n\r\n<payload>
//
// answered by one message "WSP/1.1 <code> <text>\r\n<headers>\r\n\r\n<payload>".
// The control channel (sub-protocol "control") sends INIT, receives a channel
// id, then WRAPs RTSP requests; the data channel (sub-protocol "data") sends
// JOIN with a channel id and then receives '$'-framed RTP as binary messages.

type wspConn struct {
	ws  *websocket.Conn
	seq int
}

func (sh *shard) wspDial(sub, path string, cred httpCred) (*wspConn, int, error) {
	d := websocket.Dialer{Subprotocols: []string{sub}, HandshakeTimeout: ioBound}
	ws, resp, err := d.Dial(withToken(sh.s.WS(path), cred.Token, cred.HasToken), sh.wsHeader(cred))
	if err != nil {
		st := 0
		if resp != nil {
			st = resp.StatusCode
		}
		return nil, st, err
	}
	return &wspConn{ws: ws}, http.StatusSwitchingProtocols, nil
}

func (c *wspConn) close() { c.ws.Close() }

// call sends one WSP request and returns status code, headers and payload of the answer.
func (c *wspConn) call(cmd string, hdr map[string]string, payload string) (int, map[string]string, string, error) {
	c.seq++
	var b strings.Builder
	fmt.Fprintf(&b, "WSP/1.1 %s\r\n", cmd)
	for k, v := range hdr {
		fmt.Fprintf(&b, "%s: %s\r\n", k, v)
	}
	fmt.Fprintf(&b, "seq: %d\r\n\r\n%s", c.seq, payload)
	c.ws.SetWriteDeadline(time.Now().Add(ioBound))
	if err := c.ws.WriteMessage(websocket.TextMessage, []byte(b.String())); err != nil {
		return 0, nil, "", err
	}
	c.ws.SetReadDeadline(time.Now().Add(ioBound))
	_, msg, err := c.ws.ReadMessage()
	if err != nil {
		return 0, nil, "", err
	}
	head, body, ok := strings.Cut(string(msg), "\r\n\r\n")
	if !ok {
		return 0, nil, "", errors.New("WSP answer without header end: " + string(msg))
	}
	lines := strings.Split(head, "\r\n")
	var code int
	if _, err := fmt.Sscanf(lines[0], "WSP/1.1 %d", &code); err != nil {
		return 0, nil, "", errors.New("malformed WSP status line: " + lines[0])
	}
	h := map[string]string{}
	for _, l := range lines[1:] {
		if k, v, ok := strings.Cut(l, ":"); ok {
			h[strings.TrimSpace(k)] = strings.TrimSpace(v)
		}
	}
	return code, h, body, nil
}

// rtsp wraps one RTSP request and returns the RTSP status of the answer.
func (c *wspConn) rtsp(method, url string, hdr map[string]string) (int, string, error) {
	var b strings.Builder
	fmt.Fprintf(&b, "%s %s RTSP/1.0\r\nCSeq: %d\r\n", method, url, c.seq+1)
	for k, v := range hdr {
		fmt.Fprintf(&b, "%s: %s\r\n", k, v)
	}
	b.WriteString("\r\n")
	code, _, body, err := c.call("WRAP", map[string]string{"contentLength": fmt.Sprint(b.Len())}, b.String())
	if err != nil {
		return 0, "", err
	}
	if code != 200 {
		return 0, body, fmt.Errorf("WRAP answered WSP %d", code)
	}
	var st int
	if _, err := fmt.Sscanf(body, "RTSP/1.0 %d", &st); err != nil {
		return 0, body, errors.New("WRAP answer carries no RTSP status line: " + body)
	}
	return st, body, nil
}

// wspControl opens a control channel on path, INITs it and returns the channel id.
func (sh *shard) wspControl(path string, cred httpCred) (*wspConn, string, error) {
	c, _, err := sh.wspDial("control", path, cred)
	if err != nil {
		return nil, "", err
	}
	code, h, _, err := c.call("INIT", map[string]string{"proto": "rtsp", "host": "127.0.0.1", "port": "554"}, "")
	if err != nil || code != 200 || h["channel"] == "" {
		c.close()
		return nil, "", fmt.Errorf("machinery: WSP INIT: code %d headers %v err %v", code, h, err)
	}
	// ipchub answers INIT before it registers the session under the channel id;
	// once a wrapped request is answered the session is registered and running
	if st, _, err := c.rtsp("OPTIONS", sh.s.RTSP(path), nil); err != nil || st != 200 {
		c.close()
		return nil, "", fmt.Errorf("machinery: WSP OPTIONS: status %d err %v", st, err)
	}
	return c, h["channel"], nil
}

// wspPlay runs DESCRIBE / SETUP x2 / PLAY on a control channel.
func (sh *shard) wspPlay(c *wspConn, path string) (statuses []int, ok bool) {
	return sh.wspPlayPre(c, path, nil)
}

// wspPlayPre: as wspPlay; beforePlay (if any) runs between the last SETUP and PLAY.
func (sh *shard) wspPlayPre(c *wspConn, path string, beforePlay func()) (statuses []int, ok bool) {
	u := sh.s.RTSP(path)
	st, _, err := c.rtsp("DESCRIBE", u, map[string]string{"Accept": "application/sdp"})
	statuses = append(statuses, st)
	if err != nil || st != 200 {
		return statuses, false
	}
	for i, ctl := range []string{"streamid=0", "streamid=1"} {
		st, _, err = c.rtsp("SETUP", u+"/"+ctl, map[string]string{"Transport": fmt.Sprintf("RTP/AVP/TCP;unicast;interleaved=%d-%d", 2*i, 2*i+1)})
		statuses = append(statuses, st)
		if err != nil || st != 200 {
			return statuses, false
		}
	}
	if beforePlay != nil {
		beforePlay()
	}
	st, _, err = c.rtsp("PLAY", u, map[string]string{"Range": "npt=0.000-"})
	statuses = append(statuses, st)
	return statuses, err == nil && st == 200
}

// wspData reads the binary messages of a data channel in the background.
func wspData(c *wspConn) *streamRead {
	r := &streamRead{}
	go func() {
		c.ws.SetReadDeadline(time.Time{})
		for {
			_, data, err := c.ws.ReadMessage()
			r.mu.Lock()
			r.buf = append(r.buf, data...)
			if err != nil {
				r.done = true
			}
			r.mu.Unlock()
			if err != nil {
				return
			}
		}
	}()
	return r
}

// quiet feeds the streams a few rounds and returns what a reader got meanwhile
// (for attempts that must stay silent).
func (sh *shard) quiet(r *streamRead) []byte {
	for i := 0; i < 6; i++ {
		sh.pump()
		time.Sleep(300 * time.Microsecond)
	}
	time.Sleep(2 * time.Millisecond)
	b, _ := r.snapshot()
	return b
}

// wspOwn: a user's own WSP session — control and data channel on the same path
// with the same token.
func (h *hist) wspOwn(a *attempt, u int, path string) { h.wspOwnURL(a, u, path, "") }

// wspOwnURL: both channels are opened on the URL "{path}{suffix}"; the session
// the server opens is on path. With a suffix only "no media beyond the pull
// right" is judged (the suffixed spelling is not a documented way to ask for path).
func (h *hist) wspOwnURL(a *attempt, u int, path, suffix string) {
	cred, kind, valid := h.httpCredFor(a.Cred, u)
	allow := valid && h.m.allow(u, "pull", path)
	a.Entry, a.Cred, a.Expect = "wsp", kind, expectWord(allow)
	h.record(a)
	allow = allow && suffix == ""
	url := h.spell(path, "path") + suffix
	ctl, ch, err := h.sh.wspControl(url, cred)
	if err != nil {
		h.note(map[string]any{"op": "access", "attempt": a, "observed": "control channel refused: " + err.Error()})
		if strings.HasPrefix(err.Error(), "machinery") {
			h.machinery("%v", err)
		}
		if allow {
			h.fail("over-refusal-media", "wsp: %s holds the pull right %q on %s and the control channel handshake was refused: %v", h.names[u], h.m.users[u].Pull, path, err)
		}
		return
	}
	defer ctl.close()
	// ipchub answers INIT before it registers the session under the channel id
	// (service/wsp/wsp.go handshakeControlChannel), so a JOIN sent right away may
	// find "404 NOT FOUND" and the data channel closed: not an authorization
	// outcome — dial again until the channel exists (bounded).
	var data *wspConn
	var code int
	deadline := time.Now().Add(serveBound)
	for {
		data, _, err = h.sh.wspDial("data", url, cred)
		if err != nil {
			if allow {
				h.fail("over-refusal-media", "wsp: %s holds the pull right on %s and the data channel handshake was refused: %v", h.names[u], path, err)
			}
			return
		}
		code, _, _, err = data.call("JOIN", map[string]string{"channel": ch}, "")
		if err == nil && code == 404 && time.Now().Before(deadline) {
			data.close()
			evid.Class("wsp:join-before-session-registered")
			time.Sleep(time.Millisecond)
			continue
		}
		break
	}
	defer data.close()
	o := obs{Status: code}
	if err == nil && code == 200 {
		rd := wspData(data)
		var ok bool
		o.Statuses, ok = h.sh.wspPlay(ctl, path)
		var b []byte
		if ok {
			b = h.sh.awaitMedia(rd)
		} else {
			b = h.sh.quiet(rd)
		}
		o.Markers = markersIn(b)
		o.Served = ok && len(o.Markers) > 0
	} else {
		o.Note = fmt.Sprintf("JOIN of the own channel: code %d err %v", code, err)
	}
	h.judgeMedia(a, o, u, valid, allow, path)
}

// attemptWSP draws one WSP scenario.
func (h *hist) attemptWSP() {
	u := h.pickUser()
	shape := rapid.SampledFrom([]string{"own", "own", "join-foreign", "join-foreign", "suffix", "suffix"}).Draw(h.t, "shape")
	if shape == "suffix" {
		u, path, suffix := h.pickSuffixTrick(u)
		a := &attempt{Entry: "wsp", Shape: "suffix", Cred: rapid.SampledFrom(httpCreds).Draw(h.t, "cred"), User: u, User2: u, Path: path, Path2: path + suffix}
		h.ntFlip(a, u, "pull", path)
		h.wspOwnURL(a, u, path, suffix)
		return
	}
	if shape == "own" {
		a := &attempt{Entry: "wsp", Shape: "own", Cred: rapid.SampledFrom(httpCreds).Draw(h.t, "cred"), User: u, User2: u}
		a.Path = h.pickPath(u, "pull", h.sh.live, "path")
		h.ntFlip(a, u, "pull", a.Path)
		h.wspOwn(a, u, a.Path)
		return
	}
	// join-foreign: the root administrator plays victimPath through WSP; user u
	// opens a data channel on a path of its choice and JOINs the administrator's
	// channel id.
	victimPath := rapid.SampledFrom(h.sh.live).Draw(h.t, "victimPath")
	ownPath := h.pickPath(u, "pull", h.sh.live, "ownPath")
	cred, kind, valid := h.httpCredFor(rapid.SampledFrom(httpCreds).Draw(h.t, "cred"), u)
	a := &attempt{Entry: "wsp", Shape: "join-foreign", Cred: kind, User: u, User2: u, Path: ownPath, Path2: victimPath}
	entitled := valid && h.m.allow(u, "pull", victimPath)
	a.Expect = expectWord(entitled)
	a.NT = append(a.NT, "switch-path")
	h.ntFlip(a, u, "pull", victimPath)
	h.record(a)
	ctl, ch, err := h.sh.wspControl(victimPath, h.root)
	if err != nil {
		h.machinery("the administrator's WSP control channel: %v", err)
	}
	defer ctl.close()
	data, _, err := h.sh.wspDial("data", h.spell(ownPath, "ownPath"), cred)
	if err != nil {
		h.note(map[string]any{"op": "access", "attempt": a, "observed": "data channel handshake refused: " + err.Error()})
		if valid && h.m.allow(u, "pull", ownPath) {
			h.fail("over-refusal-media", "wsp: %s holds the pull right on %s and the data channel handshake was refused: %v", h.names[u], ownPath, err)
		}
		return
	}
	defer data.close()
	code, _, _, err := data.call("JOIN", map[string]string{"channel": ch}, "")
	o := obs{Status: code}
	if err == nil && code == 200 {
		rd := wspData(data)
		var ok bool
		o.Statuses, ok = h.sh.wspPlay(ctl, victimPath)
		if !ok {
			h.machinery("the administrator's WSP play of %s: statuses %v", victimPath, o.Statuses)
		}
		var b []byte
		if entitled {
			b = h.sh.awaitMedia(rd)
		} else {
			b = h.sh.quiet(rd)
		}
		o.Markers = markersIn(b)
	}
	h.note(map[string]any{"op": "access", "attempt": a, "observed": o})
	for _, mk := range o.Markers {
		if !valid || !h.m.allow(u, "pull", mk) {
			h.fail("over-grant-media", "wsp [join-foreign]: media of %s reached %s (credential %s, data channel opened on %s, pull right %q) through another session's channel id", mk, h.names[u], kind, ownPath, h.m.users[u].Pull)
		}
	}
}
