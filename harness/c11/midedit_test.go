package c11

import (
	"fmt"
	"strings"

	"pgregory.net/rapid"
	"verif/harness/lib/evid"
	"verif/harness/lib/refmodel"
	"verif/harness/lib/rtspc"
)

// An administrator edits the user BETWEEN two requests of one connection.
//
// The ordinary histories interleave administrative steps with whole access
// attempts, each on a fresh connection. Here, by construction, a user who holds
// the right opens a connection that keeps state (RTSP over TCP, ws-rtsp, WSP),
// passes its first authenticated requests (DESCRIBE+SETUP or ANNOUNCE+SETUP),
// then the administrator
//
//	delete             removes the account
//	recreate-narrower  removes it and creates it again (same password) with
//	                   rights that do not cover the path
//	narrow             saves the existing account with rights that do not cover it
//	keep               saves the existing account with (other) rights that still cover it
//	recreate-same      removes it and creates it again with rights that cover it
//
// and only then the connection sends the request that starts delivery or
// publication (PLAY / RECORD). The statement decides by the rights saved last:
// after the first three edits nothing may be delivered or published, after the
// last two the caller must still be served.

var midEdits = []string{"delete", "recreate-narrower", "narrow", "delete", "recreate-narrower", "narrow", "keep", "recreate-same"}

// patternsFor lists the right patterns (absolute) that cover / do not cover path.
func (h *hist) patternsFor(path string, cover bool) []string {
	var out []string
	for _, rel := range rightPatterns {
		p := h.sh.pattern(rel)
		if refmodel.Permits(p, false, path) == cover {
			out = append(out, p)
		}
	}
	return out
}

func (h *hist) attemptMidEdit() {
	sh := h.sh
	entry := rapid.SampledFrom([]string{"rtsp-tcp", "ws-rtsp", "wsp", "rtsp-tcp", "ws-rtsp", "wsp"}).Draw(h.t, "entry")
	goal := "play"
	if entry != "wsp" && rapid.IntRange(0, 2).Draw(h.t, "publish") == 0 {
		goal = "publish"
	}
	edit := rapid.SampledFrom(midEdits).Draw(h.t, "edit")
	u := rapid.IntRange(0, nUsers-1).Draw(h.t, "user")
	all := append(append([]string{}, sh.live...), sh.fresh...)
	playPath := rapid.SampledFrom(sh.plainLive()).Draw(h.t, "path") // also the WebSocket path
	path := playPath
	if goal == "publish" {
		path = rapid.SampledFrom(all).Draw(h.t, "publishPath")
	}
	action := map[string]string{"play": "pull", "publish": "push"}[goal]

	// construction: the user holds the right (and, over WebSocket, the pull right
	// on the WebSocket path) when the connection starts
	old := h.m.users[u]
	nu := mUser{Exists: true, Pass: old.Pass, Prev: old.Prev}
	withPass := !old.Exists
	if withPass {
		h.m.passN++
		nu.Prev, nu.Pass = old.Pass, fmt.Sprintf("pw-%d-%d", u, h.m.passN)
	}
	nu.Pull = rapid.SampledFrom(h.patternsFor(playPath, true)).Draw(h.t, "grantPull")
	nu.Push = h.drawRights("push")
	if goal == "publish" {
		nu.Push = rapid.SampledFrom(h.patternsFor(path, true)).Draw(h.t, "grantPush")
		if entry == "rtsp-tcp" {
			nu.Pull = h.drawRights("pull")
		}
	}
	h.applySave(u, nu, withPass, "direct")

	// the edit, run between two requests
	after := nu
	narrowed := func(x mUser) mUser {
		if goal == "publish" {
			x.Push = rapid.SampledFrom(h.patternsFor(path, false)).Draw(h.t, "narrowPush")
		} else {
			x.Pull = rapid.SampledFrom(h.patternsFor(path, false)).Draw(h.t, "narrowPull")
		}
		return x
	}
	switch edit {
	case "narrow", "recreate-narrower":
		after = narrowed(nu)
	case "keep", "recreate-same":
		if goal == "publish" {
			after.Push = rapid.SampledFrom(h.patternsFor(path, true)).Draw(h.t, "keepPush")
		} else {
			after.Pull = rapid.SampledFrom(h.patternsFor(path, true)).Draw(h.t, "keepPull")
		}
	}
	via := rapid.SampledFrom([]string{"api", "direct"}).Draw(h.t, "via")
	doEdit := func() {
		switch edit {
		case "delete":
			h.applyDelete(u, via)
		case "narrow", "keep":
			h.applySave(u, after, false, via)
		case "recreate-narrower", "recreate-same":
			h.applyDelete(u, via)
			h.applySave(u, after, true, via) // same password: the connection's digest stays valid
		}
	}
	// reference: the decision of the request that follows the edit, by the rights saved last
	want := edit == "keep" || edit == "recreate-same"
	a := &attempt{Entry: entry, Shape: "edit-between-requests/" + goal + "/" + edit, Cred: "good", User: u, User2: u, Path: path, Expect: expectWord(want)}
	a.NT = append(a.NT, "edit-between-requests")
	evid.Class("midedit:" + entry + "/" + edit)
	evid.Class("midedit-goal:" + entry + "/" + goal)

	where := 2 // before the request that starts delivery / publication
	if rapid.IntRange(0, 3).Draw(h.t, "editBeforeSetup") == 0 && entry != "wsp" {
		where = 1 // right after the first authenticated request
	}
	pre := map[int]func(){where: doEdit}
	first := map[string]string{"play": "DESCRIBE", "publish": "ANNOUNCE"}[goal]
	lastM := map[string]string{"play": "PLAY", "publish": "RECORD"}[goal]

	check := func(o obs) {
		if got := h.m.allow(u, action, path); got != want {
			h.machinery("mid-edit construction: edit %s leaves %s=%v on %s", edit, action, got, path)
		}
		h.record(a)
		if goal == "play" {
			h.judgeMedia(a, o, u, true, want, path)
			return
		}
		h.judgePublish(a, o, u, true, want, path)
	}

	switch entry {
	case "rtsp-tcp":
		au, _ := h.rtspAuthFor("good", u)
		c, err := rtspc.Dial(sh.s.Addr(), ioBound)
		if err != nil {
			h.machinery("dial: %v", err)
		}
		o := sh.runRTSPPre(c, []rtspReq{{first, path, au}, {"SETUP", path, au}, {lastM, path, au}}, false, pre)
		c.Close()
		check(o)
	case "ws-rtsp":
		tp, ok := h.ensureToken(u)
		if !ok {
			h.machinery("no token for a user that was just saved")
		}
		c, err := rtspc.DialWS(withToken(sh.s.WS(playPath), tp.A, true), ioBound, nil)
		if err != nil {
			h.note(map[string]any{"op": "access", "attempt": a, "observed": "handshake refused: " + err.Error()})
			h.fail("over-refusal-media", "ws-rtsp: %s holds the pull right %q on %s and the WebSocket handshake was refused: %v", h.names[u], nu.Pull, playPath, err)
		}
		none := rtspAuth{}
		o := sh.runRTSPPre(c, []rtspReq{{first, path, none}, {"SETUP", path, none}, {lastM, path, none}}, true, pre)
		c.Close()
		check(o)
	case "wsp":
		tp, ok := h.ensureToken(u)
		if !ok {
			h.machinery("no token for a user that was just saved")
		}
		cred := httpCred{Token: tp.A, HasToken: true}
		ctl, ch, err := sh.wspControl(path, cred)
		if err != nil {
			if strings.HasPrefix(err.Error(), "machinery") {
				h.machinery("%v", err)
			}
			h.fail("over-refusal-media", "wsp: %s holds the pull right %q on %s and the control channel was refused: %v", h.names[u], nu.Pull, path, err)
		}
		defer ctl.close()
		data, _, err := sh.wspDial("data", path, cred)
		if err != nil {
			h.fail("over-refusal-media", "wsp: %s holds the pull right on %s and the data channel handshake was refused: %v", h.names[u], path, err)
		}
		defer data.close()
		code, _, _, err := data.call("JOIN", map[string]string{"channel": ch}, "")
		if err != nil || code != 200 {
			h.fail("over-refusal-media", "wsp: JOIN of the caller's own channel: code %d err %v", code, err)
		}
		rd := wspData(data)
		o := obs{Status: code}
		var played bool
		o.Statuses, played = sh.wspPlayPre(ctl, path, doEdit)
		var b []byte
		if played {
			b = sh.awaitMedia(rd)
		} else {
			b = sh.quiet(rd)
		}
		o.Markers = markersIn(b)
		o.Served = played && len(o.Markers) > 0
		check(o)
	}
}
