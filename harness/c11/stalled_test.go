package c11

import (
	"bufio"
	"encoding/json"
	"fmt"
	"io"
	"net"
	"net/http"
	"runtime"
	"runtime/debug"
	"sort"
	"strings"
	"sync"
	"sync/atomic"
	"syscall"
	"testing"
	"time"

	"verif/harness/lib/evid"
	"verif/harness/lib/srv"
)

// A management-API caller that reads slowly beside callers that read at once:
// every answer still belongs to its caller.
//
// TestConcurrentAPIAnswersBelongToCaller leaves the schedule to chance. Here the
// window "the answer is rendered, the client has not been sent all of it yet" is
// OWNED: a caller asks for a route listing of several megabytes over a socket
// with a 4 KiB receive buffer and does not read, so the server is parked in the
// middle of writing that answer (observed as a state: the handler's goroutine
// sits in a network write). While it is parked, other callers ask for listings
// that differ from it at every offset (they start one route further on) and read
// them at once. Then the slow caller reads its answer.
//
// Oracle (independent model: the routes this test saved): every answer, the slow
// caller's and everybody else's, is one JSON document whose total, page token and
// (pattern, url) rows are exactly the rows the model predicts for THAT request.
// Whatever another caller was answered in the meantime must not show up in it.
// After seeded change C11-R5B (the rendered bytes alias a buffer that is already
// back in its pool while they are being written).

type routeRow struct {
	Pattern   string `json:"pattern"`
	URL       string `json:"url"`
	KeepAlive bool   `json:"keepalive,omitempty"`
}

type routeListing struct {
	Total         int        `json:"total"`
	NextPageToken string     `json:"next_page_token"`
	Routes        []routeRow `json:"routes"`
}

// judgeListing compares one answer with the model's prediction for (from, size).
func judgeListing(body []byte, model []routeRow, others int, from string, size int) string {
	var got routeListing
	if err := json.Unmarshal(body, &got); err != nil {
		return fmt.Sprintf("the answer (%d bytes) is not one JSON document: %v; it begins %q", len(body), err, head(body, 80))
	}
	var want []routeRow
	for _, r := range model {
		if r.Pattern > from && len(want) < size {
			want = append(want, r)
		}
	}
	// routes of other name spaces may exist (none is saved by this package today):
	// rows outside this test's name space are ignored, the total counts them
	var mine []routeRow
	for _, r := range got.Routes {
		if strings.HasPrefix(r.Pattern, model[0].Pattern[:6]) {
			mine = append(mine, r)
		}
	}
	if got.Total != len(model)+others {
		return fmt.Sprintf("total is %d, the table holds %d routes", got.Total, len(model)+others)
	}
	if len(mine) != len(want) {
		return fmt.Sprintf("%d rows of this name space, the model predicts %d (page token %q, page size %d)", len(mine), len(want), from, size)
	}
	for i := range want {
		if mine[i] != want[i] {
			return fmt.Sprintf("row %d is (%s, url of %d bytes ending %q), the model predicts (%s, url of %d bytes ending %q)", i, mine[i].Pattern, len(mine[i].URL), tailStr(mine[i].URL, 12), want[i].Pattern, len(want[i].URL), tailStr(want[i].URL, 12))
		}
	}
	return ""
}

func tailStr(s string, n int) string {
	if len(s) > n {
		return s[len(s)-n:]
	}
	return s
}

func TestStalledAPIReaderKeepsItsOwnAnswer(t *testing.T) {
	// serial on purpose: the garbage collector is held back while a reader is parked
	// (a collection would empty the server's buffer pools and with them the window)
	sh := newShardPaths(t, 931, []string{"/a"}, nil)
	evid.Rule("stalled API reader class: a route listing of about 7 MB is requested over a socket with a 4 KiB receive buffer and not read, so the server is parked inside the write of that answer (state read from the goroutine dump); meanwhile 12 callers fetch listings that start one route further on and read them at once; then the slow caller reads. Oracle: every answer is one JSON document with exactly the rows the model (the routes this test saved) predicts for that request. Non-trivial: the server was seen parked in the write while at least one other listing was answered")
	const nRoutes, urlLen = 2000, 3500
	ns := "/t931/"
	var model []routeRow
	for i := 0; i < nRoutes; i++ {
		pat := fmt.Sprintf("%sr%05d", ns, i)
		u := fmt.Sprintf("rtsp://127.0.0.1:9/cam%05d/", i) + strings.Repeat(fmt.Sprintf("%05d-", i), urlLen/6)
		if err := srv.SaveRoute(pat, u, false); err != nil {
			t.Fatalf("machinery: saving route %s: %v", pat, err)
		}
		model = append(model, routeRow{Pattern: pat, URL: u})
	}
	sort.Slice(model, func(i, j int) bool { return model[i].Pattern < model[j].Pattern })
	defer func() {
		for _, r := range model {
			srv.DelRoute(r.Pattern)
		}
	}()
	token := sh.rootToken(t)
	hc := &http.Client{Transport: &http.Transport{MaxIdleConnsPerHost: 32, DisableCompression: true}}
	fetch := func(from string, size int) (int, []byte, error) {
		resp, err := hc.Get(fmt.Sprintf("%s/api/v1/routes?page_size=%d&page_token=%s&token=%s", sh.s.HTTP(), size, from, token))
		if err != nil {
			return 0, nil, err
		}
		defer resp.Body.Close()
		b, err := io.ReadAll(resp.Body)
		return resp.StatusCode, b, err
	}
	// routes saved by anybody else (none today)
	st, b, err := fetch("", 1)
	if err != nil || st != 200 {
		t.Fatalf("machinery: first listing: %d %v", st, err)
	}
	var probe routeListing
	if json.Unmarshal(b, &probe) != nil {
		t.Fatalf("machinery: first listing is not JSON: %q", head(b, 100))
	}
	others := probe.Total - len(model)

	parked := func() bool {
		buf := make([]byte, 8<<20)
		buf = buf[:runtime.Stack(buf, true)]
		for _, g := range strings.Split(string(buf), "\n\n") {
			if strings.Contains(g, "onListRoutes") && (strings.Contains(g, "[IO wait") || strings.Contains(g, "runtime_pollWait")) && strings.Contains(g, ".Write") {
				return true
			}
		}
		return false
	}

	rounds := 2
	if evid.Thorough() {
		rounds = 12
	}
	var violation string
	for round := 0; round < rounds && violation == ""; round++ {
		evid.Eval(1)
		slowFrom := model[round].Pattern // the slow caller's listing starts behind route #round
		otherFrom := model[round+1].Pattern
		old := debug.SetGCPercent(-1)
		var (
			stop     atomic.Bool
			answered atomic.Int64
			wg       sync.WaitGroup
			mu       sync.Mutex
		)
		note := func(s string) {
			mu.Lock()
			if violation == "" {
				violation = s
			}
			mu.Unlock()
		}
		for k := 0; k < 12; k++ {
			wg.Add(1)
			go func(k int) {
				defer wg.Done()
				for !stop.Load() {
					st, b, err := fetch(otherFrom, nRoutes)
					if err != nil || st != 200 {
						continue // judged by the history tests; here only answers are compared
					}
					answered.Add(1)
					if bad := judgeListing(b, model, others, otherFrom, nRoutes); bad != "" {
						note(fmt.Sprintf("a caller that asked for the routes behind %s while another caller's answer was being written: %s", otherFrom, bad))
						return
					}
				}
			}(k)
		}
		d := net.Dialer{Timeout: ioBound, Control: func(network, address string, c syscall.RawConn) error {
			return c.Control(func(fd uintptr) { syscall.SetsockoptInt(int(fd), syscall.SOL_SOCKET, syscall.SO_RCVBUF, 4096) })
		}}
		conn, err := d.Dial("tcp", sh.s.Addr())
		if err != nil {
			stop.Store(true)
			wg.Wait()
			debug.SetGCPercent(old)
			t.Fatalf("machinery: dial: %v", err)
		}
		fmt.Fprintf(conn, "GET /api/v1/routes?page_size=%d&page_token=%s&token=%s HTTP/1.1\r\nHost: %s\r\nConnection: close\r\n\r\n", nRoutes, slowFrom, token, sh.s.Addr())
		wasParked := srv.WaitFor(ioBound, parked)
		before := answered.Load()
		if wasParked {
			// the window is open: let the others be answered a few dozen times inside it
			srv.WaitFor(ioBound, func() bool { return answered.Load() >= before+24 || violation != "" })
		}
		inWindow := answered.Load() - before
		stillParked := wasParked && parked()
		stop.Store(true)
		wg.Wait()
		debug.SetGCPercent(old)
		conn.SetDeadline(time.Now().Add(4 * ioBound))
		resp, err := http.ReadResponse(bufio.NewReaderSize(conn, 1<<20), nil)
		var body []byte
		if err == nil {
			body, err = io.ReadAll(resp.Body)
			resp.Body.Close()
		}
		conn.Close()
		switch {
		case !wasParked:
			evid.Class("stalled-api: the server was never seen parked in the write (no verdict from this round)")
		case err != nil && violation == "":
			// a body that breaks off or a chunk header that is not one: the answer was not delivered as rendered
			note(fmt.Sprintf("the slow caller's answer (routes behind %s) could not be read to its end: %v (%d bytes read)", slowFrom, err, len(body)))
		case violation == "":
			if resp.StatusCode != 200 {
				note(fmt.Sprintf("the slow caller was answered %d", resp.StatusCode))
			} else if bad := judgeListing(body, model, others, slowFrom, nRoutes); bad != "" {
				note(fmt.Sprintf("the slow caller (routes behind %s, parked while %d other listings behind %s were answered): %s", slowFrom, inWindow, otherFrom, bad))
			}
		}
		if wasParked {
			evid.Class("stalled-api: parked in the write")
			evid.ClassN("stalled-api: other listings answered inside the window", inWindow)
			if stillParked && inWindow > 0 {
				evid.Nontrivial(evid.FP("stalled-api", round, inWindow))
			}
		}
	}
	if violation != "" {
		evid.Violation(t, "answer-belongs-to-another-caller", map[string]any{"routes": nRoutes, "url_bytes": urlLen}, "%s", violation)
	}
}
