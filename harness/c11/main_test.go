package c11

import (
	"testing"

	"verif/harness/lib/evid"
)

func TestMain(m *testing.M) { evid.Main(m, "C11") }
